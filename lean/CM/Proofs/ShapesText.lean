import CM.Proofs.ShapesStartsList
import CM.Proofs.BGLine
import CM.Proofs.BlocksSpansLine
/-
C13, block half — `addLineText`: the line's text is appended to the container (a paragraph's text stays in order), or
a new paragraph is opened for it.
-/
namespace CM.Proofs.Shp
open CM CM.Model CM.Gen CM.Proofs.BG CM.Proofs.BT
open CM.Proofs.BSp (curPos)

/-! ### appending an inline child to any container -/

theorem nodeOK_appendInl {setx : Bool} {src : Bytes} {lo e e' : Int} {l : PLabel} {leaf : Bool} {is : List Tree} {t : Tree}
    (he : e ≤ e') (hlo : lo ≤ e) (h1 : e ≤ t.label.start) (h2 : t.label.start ≤ t.label.stop) (h3 : t.label.stop ≤ e')
    (h : nodeOK setx src lo e l leaf is = true) : nodeOK setx src lo e' l leaf (is ++ [t]) = true := by
  rw [nodeOK_iff, kindOK_iff, textOK_iff, openOK_iff] at h ⊢
  obtain ⟨a1, a2, a3, a4, a5, a6⟩ := h
  refine ⟨by omega, a2, a3, shapeOK_mono he a4, ?_, ?_⟩
  · intro hp ho
    obtain ⟨b1, b2⟩ := a5 hp ho
    refine ⟨b1, BSp.InlsOK_snoc b2 ?_ h2 e' h3 he⟩
    have := BSp.inlLast_le hlo b2
    omega
  · intro ho
    refine ⟨(a6 ho).1, by have := (a6 ho).2.1; omega, ?_⟩
    rcases (a6 ho).2.2 with a | a
    · exact Or.inl ⟨a.1, by simp⟩
    · exact Or.inr a

theorem appendInl_Sh {setx : Bool} {src : Bytes} {lo e e' : Int} {c : PB} {t : Tree}
    (he : e ≤ e') (hlo : lo ≤ e) (h1 : e ≤ t.label.start) (h2 : t.label.start ≤ t.label.stop) (h3 : t.label.stop ≤ e')
    (h : Sh setx src lo e c) : Sh setx src lo e' (BG.appendInl t c) := by
  obtain ⟨l, bs, is⟩ := c
  show Sh setx src lo e' (.mk l bs (is ++ [t]))
  rw [Sh_mk] at h ⊢
  exact ⟨nodeOK_appendInl he hlo h1 h2 h3 h.1, ShL_mono (Int.le_refl _) (endOf_mono l he) h.2⟩

/-- `appendInline` of a node that starts at or after the bound. -/
theorem appendInline_Sh' {setx : Bool} (p : LP) (t : Tree) {e e' : Int} (he : e ≤ e') (h0e : 0 ≤ e) (hT : TreeOK p)
    (h : Sh setx p.source 0 e p.root) (hco : p.container.label.stop < 0) (h1 : e ≤ t.label.start) (h2 : t.label.start ≤ t.label.stop) (h3 : t.label.stop ≤ e') :
    Sh setx p.source 0 e' (p.appendInline t).root := by
  rw [BG.appendInline_eq]
  apply modifyContainer_Sh p _ he h0e hT h hco
  intro lo' _ hle' hs
  exact appendInl_Sh he hle' h1 h2 h3 hs

/-! ### the flags -/

theorem altBlank_Sh {setx : Bool} (p : LP) {e : Int} (h0e : 0 ≤ e) (hT : TreeOK p) (h : Sh setx p.source 0 e p.root)
    (hco : p.container.label.stop < 0) : Sh setx p.source 0 e (altBlank p).root := by
  unfold altBlank
  split
  · show Sh setx p.source 0 e (spineModify _ p.root p.depth)
    apply spineModify_Sh (Int.le_refl _) _ hco p.depth p.root 0 (Int.le_refl _) h0e h (BG.container_eq p hT.valid)
    intro lo' _ _ hs
    exact blankFn_Sh _ hs
  · exact h

theorem altFlags_Sh {setx : Bool} (b : Bool) (p : LP) {e : Int} (h : Sh setx p.source 0 e p.root) :
    Sh setx p.source 0 e (altFlags b p).root := by
  unfold altFlags
  simp only []
  exact (setBlankFlags_Sh _ p.depth p.root 0 e (Int.le_refl _) h).1

theorem altFlags_container (b : Bool) (p : LP) (hT : TreeOK p) :
    ∃ v, (altFlags b p).container = p.container.setLabel (fun l => { l with lastLineBlank := v }) := by
  unfold altFlags
  simp only []
  generalize (b && !(p.containerKind == BK.blockQuote || p.containerKind == BK.fencedCode ||
    (p.containerKind == BK.listItem && p.container.childCount == 1 && decide (p.container.label.start ≥ p.lineStart)))) = v
  refine ⟨v, ?_⟩
  unfold LP.container
  show (spineGet (setBlankFlags v p.root p.depth) p.depth).getD _ = _
  rw [BSp.spineGet_setBlankFlags]
  cases hs : spineGet p.root p.depth with
  | none => have := hT.valid; rw [hs] at this; cases this
  | some c =>
    simp only [Option.map_some, if_pos (Nat.le_refl _), Nat.sub_self, Option.getD_some]
    exact BSp.setBlankFlags_zero v c

theorem altBlank_container_label (p : LP) (hT : TreeOK p) : (altBlank p).container.label = p.container.label := by
  unfold altBlank
  split
  · have h1 := labelAt_modify_self _ blankFn_label p.depth p.root
    rw [labelAt_container p hT.valid] at h1
    exact container_label { p with root := spineModify _ p.root p.depth } _ h1
  · rfl

theorem altFlags_container_stop (b : Bool) (p : LP) (hT : TreeOK p) :
    (altFlags b p).container.label.stop = p.container.label.stop := by
  obtain ⟨v, hv⟩ := altFlags_container b p hT
  rw [hv]
  generalize p.container = c
  obtain ⟨l, bs, is⟩ := c
  rfl

theorem altFlags_chB {setx : Bool} (b : Bool) (p : LP) (hT : TreeOK p) (h : ChB setx p) : ChB setx (altFlags b p) := by
  obtain ⟨v, hv⟩ := altFlags_container b p hT
  intro c hc ho
  rw [hv, setLabel_blocks] at hc
  exact h c hc ho

theorem altFlags_chC {setx : Bool} (b : Bool) (p : LP) (hT : TreeOK p) (hk : (altFlags b p).containerKind = p.containerKind)
    (h : ChC setx p) : ChC setx (altFlags b p) := by
  obtain ⟨v, hv⟩ := altFlags_container b p hT
  unfold ChC at h ⊢
  rw [hk, hv]
  rcases h with h | h
  · exact Or.inl h
  · exact Or.inr (Old_setLabel (f := fun l => { l with lastLineBlank := v }) (fun _ => ⟨rfl, rfl, rfl, rfl, rfl⟩) h)

/-! ### the text node -/

theorem mkInline_label (k : Nat) (a b : Int) : (mkInline k a b).label.start = a ∧ (mkInline k a b).label.stop = b := ⟨rfl, rfl⟩

/-- `altTail`: the text of the line (and the end-of-input line break) go to the container. -/
theorem altTail_Sh {setx : Bool} (q : LP) {e : Int} (hT : TreeOK q) (hS : SrcOK q) (hc : CurOK q) (h0e : 0 ≤ e)
    (he : e ≤ curPos q) (h : Sh setx q.source 0 e q.root) (hco : q.container.label.stop < 0) :
    Sh setx q.source 0 q.source.length (altTail q).root := by
  unfold altTail
  simp only []
  have hlen := hS.len
  have hend : ((q.lineStart : Int) + q.line.length) = q.source.length := by omega
  have hcl : curPos q ≤ q.source.length := curPos_le_src hS hc
  have s1 : ∀ k : Nat, Sh setx q.source 0 q.source.length
      (q.appendInline (mkInline k (q.lineStart + q.i) (q.lineStart + q.line.length))).root := by
    intro k
    apply appendInline_Sh' q _ (by omega) h0e hT h hco
    · show e ≤ (q.lineStart : Int) + q.i; exact he
    · show (q.lineStart : Int) + q.i ≤ q.lineStart + q.line.length; have := hc.hi; omega
    · show (q.lineStart : Int) + q.line.length ≤ _; omega
  have s2 : ∀ k : Nat, Sh setx q.source 0 q.source.length
      ((q.appendInline (mkInline k (q.lineStart + q.i) (q.lineStart + q.line.length))).appendInline
        (mkInline IK.softBreak (q.lineStart + q.line.length) (q.lineStart + q.line.length))).root := by
    intro k
    have hT1 := appendInline_ok q (mkInline k (q.lineStart + q.i) (q.lineStart + q.line.length)) hT
    have hco1 : (q.appendInline (mkInline k (q.lineStart + q.i) (q.lineStart + q.line.length))).container.label.stop < 0 := by
      rw [BG.appendInline_container q _ hT, appendInl_label]; exact hco
    apply appendInline_Sh' _ _ (Int.le_refl _) (by omega) hT1 (s1 k) hco1
    · show (q.source.length : Int) ≤ (q.lineStart : Int) + q.line.length; omega
    · exact Int.le_refl _
    · show (q.lineStart : Int) + q.line.length ≤ _; omega
  generalize (if (q.containerKind == BK.indentedCode || q.containerKind == BK.fencedCode) = true then IK.text
      else if (q.containerKind == BK.htmlBlock) = true then IK.rawHTML else IK.unparsed) = k
  split
  · exact s2 k
  · exact s1 k

theorem altTail_source (q : LP) : (altTail q).source = q.source := by
  unfold altTail
  simp only []
  generalize (if (q.containerKind == BK.indentedCode || q.containerKind == BK.fencedCode) = true then IK.text
      else if (q.containerKind == BK.htmlBlock) = true then IK.rawHTML else IK.unparsed) = k
  split <;> rfl

/-! ### `addLineText` -/

theorem paragraph_cck : cck BK.paragraph = true := by decide

theorem nodeOK_new_para {setx : Bool} {src : Bytes} {lo e : Int} (h1 : lo ≤ e) (h0 : -1 ≤ e) :
    nodeOK setx src lo e (id { kind := BK.paragraph, start := e }) true [] = true := by
  rw [nodeOK_iff, kindOK_iff, textOK_iff, openOK_iff]
  refine ⟨h0, fun h => (by exfalso; have : (0 : Int) ≤ -1 := h; omega), fun hs => ?_, ?_, fun _ _ => ⟨rfl, BSp.InlsOK_nil _ _⟩,
    fun _ => ⟨by show BK.paragraph ≠ BK.setextHeading; decide, Int.le_refl _, Or.inr h1⟩⟩
  · exfalso
    have : shapeKind setx BK.paragraph = true := hs
    cases setx <;> revert this <;> decide
  · exact shapeOK_free (l := id { kind := BK.paragraph, start := e }) (by show BK.paragraph ≠ _; decide)
      (by show BK.paragraph ≠ _; decide) (by show BK.paragraph ≠ _; decide) (by show BK.paragraph ≠ _; decide)
      (fun h => by exfalso; have : BK.paragraph = BK.setextHeading := h; revert this; decide)

/-- **`addLineText` keeps `Sh`**, with the whole source as the new bound. -/
theorem addLineText_Sh {setx : Bool} (x : PExt) (p : LP) (h : W setx (curPos p) p)
    (hs : acceptsLines p.containerKind = false → p.state ≤ 2)
    (hpre : acceptsLines p.containerKind = false → ChB setx p ∧ ChC setx p) :
    Sh setx p.source 0 p.source.length (addLineText x p).root ∧ (addLineText x p).source = p.source := by
  rw [addLineText_eq]
  have h0e : (0 : Int) ≤ curPos p := curPos_nonneg p
  have a := altBlank_step p h.inv
  have sa := BSp.altBlank_src p
  have aS := altBlank_Sh (setx := setx) p h0e h.inv.tree h.sh h.co
  have aG := altBlank_G p h.g
  have hcoB : (altFlags p.isRestBlank (altBlank p)).container.label.stop < 0 := by
    rw [altFlags_container_stop _ _ a.inv.tree, altBlank_container_label p h.inv.tree]; exact h.co
  have b := altFlags_step p.isRestBlank (altBlank p) a.inv
  have fb := BSp.altFlags_frame p.isRestBlank (altBlank p)
  have bS : Sh setx p.source 0 (curPos p) (altFlags p.isRestBlank (altBlank p)).root := by
    have := altFlags_Sh (setx := setx) p.isRestBlank (altBlank p) (e := curPos p) (by rw [sa.1]; exact aS)
    rw [sa.1] at this; exact this
  have bG := altFlags_G p.isRestBlank (altBlank p) aG
  have hsrcB : (altFlags p.isRestBlank (altBlank p)).source = p.source := by rw [fb.src, sa.1]
  have hlsB : (altFlags p.isRestBlank (altBlank p)).lineStart = p.lineStart := by rw [fb.ls, sa.2.1]
  have hlineB : (altFlags p.isRestBlank (altBlank p)).line = p.line := by rw [fb.line, sa.2.2.1]
  have hiB : (altFlags p.isRestBlank (altBlank p)).i = p.i := by
    have : (altFlags p.isRestBlank (altBlank p)).i = (altBlank p).i := by unfold altFlags; rfl
    rw [this, sa.2.2.2.1]
  have kB : (altFlags p.isRestBlank (altBlank p)).containerKind = p.containerKind := by rw [b.ckind, a.ckind]
  have sB : (altFlags p.isRestBlank (altBlank p)).state = p.state := by rw [b.state, a.state]
  -- the chain facts (only used when the line is not blank, in which case `altBlank p = p`)
  have hchain : p.isRestBlank = false → acceptsLines p.containerKind = false →
      ChB setx (altFlags p.isRestBlank (altBlank p)) ∧ ChC setx (altFlags p.isRestBlank (altBlank p)) := by
    intro hnb hna
    have eA : altBlank p = p := by unfold altBlank; rw [hnb]; rfl
    obtain ⟨cb, cc⟩ := hpre hna
    rw [eA] at kB ⊢
    exact ⟨altFlags_chB _ p h.inv.tree cb, altFlags_chC _ p h.inv.tree kB cc⟩
  generalize altFlags p.isRestBlank (altBlank p) = pB at b bS bG hsrcB hlsB hlineB hiB kB sB hchain hcoB
  have hcB : curPos pB = curPos p := by unfold curPos; rw [hlsB, hiB]
  have wB : W setx (curPos pB) pB :=
    ⟨b.inv, bG, h.src.of_eq hsrcB hlsB hlineB, by rw [hlsB, hcB]; exact h.le, by rw [hsrcB, hcB]; exact bS, hcoB⟩
  have hlenB : (pB.source.length : Int) = p.source.length := by rw [hsrcB]
  -- the tail, from a state that is good up to its cursor
  have tail : ∀ q : LP, Inv q → SrcOK q → q.source = p.source → q.container.label.stop < 0 →
      (∃ e, 0 ≤ e ∧ e ≤ curPos q ∧ Sh setx q.source 0 e q.root) →
      Sh setx p.source 0 p.source.length (altTail q).root ∧ (altTail q).source = p.source := by
    intro q iq sq eq hcoq ⟨e, h0, he, hsh⟩
    have := altTail_Sh (setx := setx) q iq.tree sq iq.cur h0 he hsh hcoq
    rw [eq] at this
    refine ⟨this, ?_⟩
    rw [altTail_source]; exact eq
  by_cases hacc : acceptsLines p.containerKind = true
  · rw [BSp.altCont_acc x _ pB (by rw [kB]; exact hacc)]
    simp only []
    split
    · rename_i hc
      simp only [Bool.and_eq_true, decide_eq_true_eq, beq_iff_eq] at hc
      obtain ⟨⟨⟨hlt, htab⟩, hrem⟩, _⟩ := hc
      have key : ∀ t : Tree, t.label.start = curPos pB → t.label.stop = curPos pB + 1 →
          Sh setx p.source 0 p.source.length (altTail ((pB.appendInline t).consumeIndentN pB.tabRem)).root ∧
          (altTail ((pB.appendInline t).consumeIndentN pB.tabRem)).source = p.source := by
        intro t hts hte
        have ia := appendInline_inv pB t b.inv
        have s1 := appendInline_Sh' (setx := setx) pB t (e' := curPos pB + 1) (by omega) (curPos_nonneg pB) b.inv.tree wB.sh
          hcoB (by rw [hts]; exact Int.le_refl _) (by rw [hts, hte]; omega) (by rw [hte]; exact Int.le_refl _)
        have ci := consumeIndentN_post (pB.appendInline t) pB.tabRem ia.cur (by
          rw [indent_of_cur (appendInline_cur pB _), indent_tab pB hlt htab]
          omega)
        have hi1 : ((pB.appendInline t).consumeIndentN pB.tabRem).i = pB.i + 1 :=
          BSp.consumeIndentN_tab (pB.appendInline t) hlt htab hrem
        generalize (pB.appendInline t).consumeIndentN pB.tabRem = q at ci hi1
        have hsq : q.source = pB.source := by rw [tree_source ci.tree]; rfl
        have hlq : q.lineStart = pB.lineStart := by rw [tree_lineStart ci.tree]; rfl
        have hsrcA : SrcOK (pB.appendInline t) := wB.src.of_eq rfl rfl rfl
        have hcoq : q.container.label.stop < 0 := by
          rw [container_of_tree ci.tree, BG.appendInline_container pB t b.inv.tree, appendInl_label]; exact hcoB
        apply tail q (ci.inv ia) (srcOK_congr ci.tree ci.line hsrcA) (by rw [hsq, hsrcB]) hcoq
        refine ⟨curPos pB + 1, by have := curPos_nonneg pB; omega, by unfold curPos; rw [hlq, hi1]; omega, ?_⟩
        rw [hsq, tree_root ci.tree]
        exact s1
      exact key _ rfl rfl
    · exact tail pB b.inv wB.src hsrcB hcoB ⟨curPos pB, curPos_nonneg pB, Int.le_refl _, wB.sh⟩
  · have hna : acceptsLines p.containerKind = false := by simpa using hacc
    cases hblank : p.isRestBlank
    · -- not blank: a new paragraph
      obtain ⟨cb, cc⟩ := hchain hblank hna
      have hcont : altCont x false pB = some ((pB.openBlock x BK.paragraph).consumeIndentN (pB.openBlock x BK.paragraph).indent) := by
        unfold altCont
        simp only [kB, hna, Bool.false_eq_true, if_false, Bool.not_false, if_true]
      rw [hcont]
      simp only []
      have sB' : pB.state ≤ 2 := by rw [sB]; exact hs hna
      obtain ⟨wC, rC, obC⟩ := openBlock_W (setx := setx) (e' := curPos pB) x pB BK.paragraph id wB cb cc sB' paragraph_cck id_kind
        (fun _ => rfl) (fun _ => rfl) (Int.le_refl _) (by
          intro lo h0 hlo
          exact nodeOK_new_para hlo (by have := curPos_nonneg pB; omega))
      generalize pB.openBlock x BK.paragraph = pC at wC rC obC
      have ci := consumeIndentN_post pC pC.indent wC.inv.cur (Nat.le_refl _)
      generalize pC.consumeIndentN pC.indent = q at ci
      have wq := wC.ci ci
      apply tail q wq.inv wq.src (by rw [tree_source ci.tree, rC.source, hsrcB]) wq.co
      refine ⟨curPos pB, curPos_nonneg pB, ?_, wq.sh⟩
      have := curPos_ci ci
      rw [curPos_of_cur obC.cur rC.lineStart] at this
      exact this
    · -- blank: only the flags change
      have hcont : altCont x true pB = none := by
        unfold altCont
        simp only [kB, hna, Bool.false_eq_true, if_false, Bool.not_true]
      rw [hcont]
      simp only []
      refine ⟨?_, hsrcB⟩
      have hle : curPos pB ≤ p.source.length := by rw [← hlenB]; exact curPos_le_src wB.src wB.inv.cur
      have := Sh_mono hle _ 0 0 (Int.le_refl _) wB.sh
      rw [hsrcB] at this
      exact this

end CM.Proofs.Shp
