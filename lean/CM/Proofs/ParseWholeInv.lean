import CM.Proofs.BGClose
import CM.Proofs.BGOps
import CM.Proofs.BlocksSpine
/-
Whole-`Parse` theorems, part 2: a generic invariant of the block phase for predicates on the INLINE CHILDREN of blocks
(whole inline trees, so that the nodes below info strings, link labels, destinations and titles are covered).

`PBI Q b`: every inline child `t` of every block of `b` satisfies `Q t`.
This file: the predicate and its behaviour under the edits of the tree that do not create inline nodes (relabelling,
the last-child spine, `setBlankFlags`, `offsetPB`, `closeBlock` given what `onCloseParagraph` does).
(The skeleton is that of `RefKeysInv.lean`, for a predicate on trees instead of on the `ref` attribute.)
-/
namespace CM.Proofs.PW
open CM CM.Model CM.Gen
open CM.Proofs.BT CM.Proofs.BG

mutual
/-- Every inline child of every block satisfies `Q`. -/
def PBI (Q : Tree → Prop) : PB → Prop
  | .mk _ bs is => (∀ t ∈ is, Q t) ∧ PBIL Q bs
def PBIL (Q : Tree → Prop) : List PB → Prop
  | [] => True
  | b :: bs => PBI Q b ∧ PBIL Q bs
end

variable {Q : Tree → Prop}

theorem PBIL_iff (bs : List PB) : PBIL Q bs ↔ ∀ b ∈ bs, PBI Q b := by
  induction bs with
  | nil => simp [PBIL]
  | cons b bs ih => simp [PBIL, ih]

theorem PBI_mk (l : PLabel) (bs : List PB) (is : List Tree) :
    PBI Q (.mk l bs is) ↔ (∀ t ∈ is, Q t) ∧ ∀ b ∈ bs, PBI Q b := by
  rw [PBI, PBIL_iff]

/-- Lists of blocks. -/
def AllI (Q : Tree → Prop) (L : List PB) : Prop := ∀ b ∈ L, PBI Q b

theorem AllI.nil : AllI Q [] := fun _ h => by cases h
theorem AllI.single {b : PB} (h : PBI Q b) : AllI Q [b] := by
  intro c hc; simp only [List.mem_singleton] at hc; subst hc; exact h
theorem AllI.append {a b : List PB} (h1 : AllI Q a) (h2 : AllI Q b) : AllI Q (a ++ b) := by
  intro c hc
  rcases List.mem_append.1 hc with hc | hc
  · exact h1 c hc
  · exact h2 c hc

theorem PBI.mono {Q Q' : Tree → Prop} (h : ∀ t, Q t → Q' t) : ∀ b : PB, PBI Q b → PBI Q' b := by
  apply PB.ind
  intro l bs is ih hb
  rw [PBI_mk] at hb ⊢
  exact ⟨fun t ht => h t (hb.1 t ht), fun b hbm => ih b hbm (hb.2 b hbm)⟩

theorem AllI.mono {Q Q' : Tree → Prop} (h : ∀ t, Q t → Q' t) {L : List PB} (hL : AllI Q L) : AllI Q' L :=
  fun b hb => PBI.mono h b (hL b hb)

/-! ### local edits -/

theorem PBI_relabel {l l' : PLabel} {bs : List PB} {is : List Tree} (h : PBI Q (.mk l bs is)) :
    PBI Q (.mk l' bs is) := by
  rw [PBI_mk] at h ⊢; exact h

theorem PBI_setLabel (f : PLabel → PLabel) {b : PB} (h : PBI Q b) : PBI Q (b.setLabel f) := by
  obtain ⟨l, bs, is⟩ := b
  exact PBI_relabel h

theorem PBI_replaceLast {l : PLabel} {bs new : List PB} {is : List Tree} (h : PBI Q (.mk l bs is))
    (hn : AllI Q new) : PBI Q (.mk l (bs.dropLast ++ new) is) := by
  rw [PBI_mk] at h ⊢
  refine ⟨h.1, ?_⟩
  intro b hb
  rcases List.mem_append.1 hb with hb | hb
  · exact h.2 b (List.dropLast_subset bs hb)
  · exact hn b hb

theorem PBI_appendChild {child C : PB} (hc : PBI Q child) (hC : PBI Q C) : PBI Q (appendChild child C) := by
  obtain ⟨l, bs, is⟩ := C
  simp only [appendChild]
  rw [PBI_mk] at hC ⊢
  refine ⟨hC.1, ?_⟩
  intro b hb
  rcases List.mem_append.1 hb with hb | hb
  · exact hC.2 b hb
  · simp only [List.mem_singleton] at hb; subst hb; exact hc

theorem PBI_appendInl {t : Tree} {C : PB} (ht : Q t) (hC : PBI Q C) : PBI Q (appendInl t C) := by
  obtain ⟨l, bs, is⟩ := C
  simp only [appendInl]
  rw [PBI_mk] at hC ⊢
  refine ⟨?_, hC.2⟩
  intro u hu
  rcases List.mem_append.1 hu with hu | hu
  · exact hC.1 u hu
  · simp only [List.mem_singleton] at hu; subst hu; exact ht

/-! ### the spine -/

theorem PBI_spineModify (f : PB → PB) (hf : ∀ c, PBI Q c → PBI Q (f c)) : ∀ (d : Nat) (b : PB),
    PBI Q b → PBI Q (spineModify f b d) := by
  intro d
  induction d with
  | zero => intro b h; rw [spineModify_zero]; exact hf b h
  | succ d ih =>
    intro b h
    obtain ⟨l, bs, is⟩ := b
    rw [spineModify_succ]
    cases hgl : bs.getLast? with
    | none => exact h
    | some c =>
      simp only []
      have hc : PBI Q c := ((PBI_mk l bs is).1 h).2 c (List.mem_of_getLast? hgl)
      exact PBI_replaceLast h (AllI.single (ih c hc))

theorem PBI_replaceLastFn (g : PB → List PB) (hg : ∀ c, PBI Q c → AllI Q (g c)) (c : PB) (h : PBI Q c) :
    PBI Q (replaceLastFn g c) := by
  obtain ⟨l, bs, is⟩ := c
  simp only [replaceLastFn]
  cases hgl : bs.getLast? with
  | none => exact h
  | some c0 =>
    simp only []
    exact PBI_replaceLast h (hg c0 (((PBI_mk l bs is).1 h).2 c0 (List.mem_of_getLast? hgl)))

theorem PBI_setBlankFlags (v : Bool) : ∀ (d : Nat) (b : PB), PBI Q b → PBI Q (setBlankFlags v b d) := by
  intro d
  induction d with
  | zero =>
    intro b h
    obtain ⟨l, bs, is⟩ := b
    simp only [setBlankFlags]
    exact PBI_relabel h
  | succ d ih =>
    intro b h
    obtain ⟨l, bs, is⟩ := b
    simp only [setBlankFlags]
    cases hgl : bs.getLast? with
    | none => exact PBI_relabel h
    | some c =>
      simp only []
      have hc : PBI Q c := ((PBI_mk l bs is).1 h).2 c (List.mem_of_getLast? hgl)
      exact PBI_replaceLast (PBI_relabel h) (AllI.single (ih c hc))

/-! ### offsetPB -/

theorem PBI_offsetPB {Q' : Tree → Prop} (n : Int) (hoff : ∀ t, Q t → Q' (offsetTree n t)) :
    ∀ b : PB, PBI Q b → PBI Q' (offsetPB n b) := by
  apply PB.ind
  intro l bs is ih h
  rw [offsetPB, offsetPBs_eq_map, offsetTrees_eq_map]
  rw [PBI_mk] at h ⊢
  refine ⟨?_, ?_⟩
  · intro t ht
    rw [List.mem_map] at ht
    obtain ⟨u, hu, rfl⟩ := ht
    exact hoff u (h.1 u hu)
  · intro b hb
    rw [List.mem_map] at hb
    obtain ⟨c, hc, rfl⟩ := hb
    exact ih c hc (h.2 c hc)

theorem AllI_offsetPBs {Q' : Tree → Prop} (n : Int) (hoff : ∀ t, Q t → Q' (offsetTree n t)) (bs : List PB)
    (h : AllI Q bs) : AllI Q' (offsetPBs n bs) := by
  intro b hb
  rw [offsetPBs_eq_map, List.mem_map] at hb
  obtain ⟨c, hc, rfl⟩ := hb
  exact PBI_offsetPB n hoff c (h c hc)

/-! ### closeBlock, given `onCloseParagraph` -/

theorem leaf_I {l : PLabel} {is : List Tree} (h : ∀ t ∈ is, Q t) : AllI Q [PB.mk l [] is] := by
  apply AllI.single
  rw [PBI_mk]
  exact ⟨h, fun _ hb => by cases hb⟩

theorem closeLast_I (x : PExt) (src : Bytes) (e : Int) {l l' : PLabel} {bs : List PB} {is : List Tree}
    (h : PBI Q (.mk l bs is)) (ih : ∀ c ∈ bs, PBI Q c → AllI Q (closeBlock x src e c)) :
    PBI Q (.mk l' (closeLast x src e bs) is) := by
  have h' : PBI Q (.mk l' bs is) := PBI_relabel h
  cases hgl : bs.getLast? with
  | none => rw [closeLast_none x src e bs hgl]; exact h'
  | some c =>
    rw [closeLast_some x src e bs c hgl]
    have hcm : c ∈ bs := List.mem_of_getLast? hgl
    exact PBI_replaceLast h' (ih c hcm (((PBI_mk l bs is).1 h).2 c hcm))

/-- `closeBlock` keeps the invariant if `onCloseParagraph` does. -/
theorem closeBlock_I (x : PExt) (src : Bytes) (hpara : ∀ b, PBI Q b → AllI Q (onCloseParagraph x src b)) (e : Int) :
    ∀ b : PB, PBI Q b → AllI Q (closeBlock x src e b) := by
  apply PB.ind
  intro l bs is ih h
  rw [closeBlock]
  split
  · exact AllI.single h
  simp only []
  split
  · split
    · apply AllI.single
      have h1 : PBI Q (.mk { l with stop := e, loose := true } (closeLast x src e bs) is) := closeLast_I x src e h ih
      rw [PBI_mk] at h1 ⊢
      refine ⟨h1.1, ?_⟩
      intro b hb
      rw [List.mem_map] at hb
      obtain ⟨c, hc, rfl⟩ := hb
      exact PBI_setLabel _ (h1.2 c hc)
    · exact AllI.single (closeLast_I x src e h ih)
  split
  · exact hpara _ (PBI_relabel h)
  split
  · obtain ⟨is', heq, hsub⟩ := indentedOnClose_eq src { l with stop := e } bs is
    rw [heq]
    apply AllI.single
    rw [PBI_mk] at h ⊢
    exact ⟨fun t ht => h.1 t (hsub t ht), h.2⟩
  · exact AllI.single (closeLast_I x src e h ih)

theorem spineReplaceLast_I (x : PExt) (src : Bytes) (hpara : ∀ b, PBI Q b → AllI Q (onCloseParagraph x src b))
    (e : Int) (root : PB) (d : Nat) (h : PBI Q root) : PBI Q (spineReplaceLast (closeBlock x src e) root d) := by
  rw [BT.spineReplaceLast_eq]
  exact PBI_spineModify _ (PBI_replaceLastFn _ (closeBlock_I x src hpara e)) d root h

end CM.Proofs.PW
