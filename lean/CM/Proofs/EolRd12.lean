import CM.Proofs.EolRd11
/-
C14 (a), the paragraph hook under the position map — part 12: `skipNode` and the `go` step of `collectTextNodes`.
-/
namespace CM.Proofs.ERd
open CM CM.Model CM.Gen CM.Proofs CM.Proofs.RDS CM.Proofs.BSp

theorem label_beq_iff (a b : Label) : (a == b) = true ↔ a = b := by
  cases a; cases b
  simp only [BEq.beq]
  constructor
  · intro h
    simp only [instBEqLabel.beq, Bool.and_eq_true, beq_iff_eq, Label.mk.injEq] at h ⊢
    simpa [and_assoc] using h
  · intro h
    simp only [Label.mk.injEq] at h
    simp only [instBEqLabel.beq, Bool.and_eq_true, beq_iff_eq]
    simpa [and_assoc] using h

theorem label_map_eq_iff (e X : Bytes) (t u : Tree) :
    (mapTree (eolPosZ e X) t).label = (mapTree (eolPosZ e X) u).label ↔ t.label = u.label := by
  rw [mapTree_label, mapTree_label]
  rcases t.label with ⟨a1, a2, a3, a4, a5, a6, a7, a8, a9⟩
  rcases u.label with ⟨b1, b2, b3, b4, b5, b6, b7, b8, b9⟩
  simp only [Label.mk.injEq, eolPosZ_eq_iff]

theorem same_node_map (e X : Bytes) (n : Option Tree) (cn : Tree) :
    ((n.map (mapTree (eolPosZ e X))).map (·.label) == some (mapTree (eolPosZ e X) cn).label) =
      (n.map (·.label) == some cn.label) := by
  cases n with
  | none => rfl
  | some t =>
    show ((mapTree (eolPosZ e X) t).label == (mapTree (eolPosZ e X) cn).label) = (t.label == cn.label)
    by_cases h : t.label = cn.label
    · rw [(label_beq_iff _ _).2 h, (label_beq_iff _ _).2 ((label_map_eq_iff e X t cn).2 h)]
    · have h1 : (t.label == cn.label) = false := by
        cases hh : (t.label == cn.label) with
        | false => rfl
        | true => exact absurd ((label_beq_iff _ _).1 hh) h
      have h2 : ((mapTree (eolPosZ e X) t).label == (mapTree (eolPosZ e X) cn).label) = false := by
        cases hh : ((mapTree (eolPosZ e X) t).label == (mapTree (eolPosZ e X) cn).label) with
        | false => rfl
        | true => exact absurd ((label_map_eq_iff e X t cn).1 ((label_beq_iff _ _).1 hh)) h
      rw [h1, h2]

theorem isIndent_of_label {t u : Tree} (h : t.label = u.label) : isIndent t = isIndent u := by
  unfold isIndent Node.isI; rw [h]

section
variable {e X : Bytes} {k : Nat} {is : List Tree} {r : Rd}

theorem mu_pos_of_live {src : Bytes} (hc : Ctx src is) (h : RI src is r) {t : Tree} {rest : List Tree}
    (hs : r.spans = t :: rest) : 1 ≤ mu src r := by
  have := RI.pos_lt hc h hs
  simp only [mu, hs]; omega

theorem mu_dead {src : Bytes} (hs : r.spans = []) : mu src r = 0 := by simp only [mu, hs]

/-- In an Indent node the reader sees a space. -/
theorem cur_indent {src : Bytes} (hc : Ctx src is) (h : RI src is r) {t : Tree} {rest : List Tree}
    (hs : r.spans = t :: rest) (hi : isIndent t = true) : (r.current src).1 = SP := by
  rw [current_live hc h hs, hi]; rfl

/-! ### `skipNode` -/

theorem skipNode_sim (he : StdEol e) (hcr : NoCR X) (hc : Ctx (X.take k) is) (htab : TabsOK (X.take k) is)
    (cn : Tree) (hcn : isIndent cn = true) :
    ∀ (f g : Nat) (r : Rd), RJ (X.take k) is r → (∃ t rest, r.spans = t :: rest ∧ t.label = cn.label) →
      mu (X.take k) r ≤ f → mu (toEol e (X.take k)) (mapRd e X r) ≤ g →
      skipNode (toEol e (X.take k)) (mapTree (eolPosZ e X) cn) g (mapRd e X r) = mapRd e X (skipNode (X.take k) cn f r) ∧
      RJ (X.take k) is (skipNode (X.take k) cn f r) ∧
      mu (X.take k) (skipNode (X.take k) cn f r) < mu (X.take k) r ∧
      mu (toEol e (X.take k)) (mapRd e X (skipNode (X.take k) cn f r)) < mu (toEol e (X.take k)) (mapRd e X r) := by
  have hc' := ctx_map (e := e) he hcr hc htab
  intro f
  induction f with
  | zero =>
    intro g r h ⟨t, rest, hs, _⟩ hm
    have := mu_pos_of_live hc h.1 hs
    omega
  | succ f ih =>
    intro g r h ⟨t, rest, hs, hl⟩ hm hm'
    have hpos := mu_pos_of_live hc h.1 hs
    have hpos' : 1 ≤ mu (toEol e (X.take k)) (mapRd e X r) := mu_pos_of_live hc' (ri_map h.1) (mapRd_spans hs)
    obtain ⟨g2, rfl⟩ : ∃ g2, g = g2 + 1 := ⟨g - 1, by omega⟩
    have hsp : (r.current (X.take k)).1 = SP := cur_indent hc h.1 hs (by rw [isIndent_of_label hl]; exact hcn)
    obtain ⟨p1, p2, p3⟩ := plain_pack (e := e) he hcr hc htab h (by rw [hsp]; decide)
    rw [skipNode, skipNode, p1]
    rcases hn : r.next (X.take k) with ⟨ok, r1⟩
    rw [hn] at p2 p3
    simp only [] at p2 p3 ⊢
    cases ok with
    | false =>
      simp only [Bool.not_false, if_true]
      have hd : r1.spans = [] := by
        have := (next_spec hc h.1).2.1
        rw [hn] at this
        exact this rfl
      refine ⟨trivial, p2, ?_, ?_⟩
      · rw [mu_dead hd]; omega
      · rw [mu_dead (by show mapTrees _ r1.spans = []; rw [hd]; rfl)]; omega
    | true =>
      simp only [Bool.not_true, Bool.false_eq_true, if_false]
      obtain ⟨q1, q2⟩ := p3 rfl
      obtain ⟨cn1, cn2⟩ := currentNode_map (e := e) he hcr hc htab p2.1
      rw [cn1, cn2]
      simp only []
      rw [same_node_map]
      by_cases hsame : (r1.spans.head?.map (·.label) == some cn.label) = true
      · rw [if_pos hsame, if_pos hsame]
        have hhead : ∃ t rest, r1.spans = t :: rest ∧ t.label = cn.label := by
          cases hs1 : r1.spans with
          | nil => rw [hs1] at hsame; cases hsame
          | cons t1 rest1 =>
            rw [hs1] at hsame
            exact ⟨t1, rest1, rfl, (label_beq_iff _ _).1 hsame⟩
        obtain ⟨a1, a2, a3, a4⟩ := ih g2 r1 p2 hhead (by omega) (by omega)
        exact ⟨a1, a2, by omega, by omega⟩
      · rw [if_neg hsame, if_neg hsame]
        exact ⟨rfl, p2, q1, q2⟩

end

end CM.Proofs.ERd
