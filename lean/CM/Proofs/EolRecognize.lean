import CM.Proofs.Recognize1
import CM.Proofs.Recognize2
/-
C14 (a)/(c), recognizer level, part 1: the five line recognizers of blocks.go and the byte helpers of parse.go do
not look at the line ending. For every byte list `l` and every `e` made of CR/LF bytes only (in particular
`e = []`, `[LF]`, `[CR, LF]`, `[CR]`), each of them returns *exactly* the same value on `l ++ e` as on `l`:
no field of any result is a position inside or after the line ending.
-/
namespace CM.Proofs
open CM CM.Model CM.Spec

/-- `e` consists of CR / LF bytes only. -/
def EolBytes (e : Bytes) : Prop := ∀ c ∈ e, isNL c = true

theorem eolBytes_nil : EolBytes [] := by intro c hc; simp at hc
theorem eolBytes_LF : EolBytes [LF] := by intro c hc; simp at hc; subst hc; decide
theorem eolBytes_CR : EolBytes [CR] := by intro c hc; simp at hc; subst hc; decide
theorem eolBytes_CRLF : EolBytes [CR, LF] := by
  intro c hc; simp at hc; rcases hc with h | h <;> subst h <;> decide

theorem isNL_facts : ∀ c : UInt8, isNL c = true →
    Gen.isSpaceTabOrLineEnding c = true ∧ (c != SP && c != TAB) = true ∧ (c == SP || c == TAB) = false ∧
    (c == SP || c == TAB || c == CR || c == LF) = true ∧ (c == 0x2D || c == 0x5F || c == 0x2A) = false ∧
    (c == 0x23) = false ∧ Gen.isASCIIDigit c = false ∧ (c == 0x2E || c == 0x29) = false ∧
    (c == 0x60) = false ∧ (c == 0x7E) = false ∧ (c == 0x3D) = false ∧ (c == 0x2D) = false ∧
    (c == 0x2B) = false ∧ (c == LF || c == CR) = true := by
  intro c hc
  have : c = 0x0A ∨ c = 0x0D := by simpa [isNL] using hc
  rcases this with h | h <;> subst h <;> decide

/-! ### `isBlankLine`, `indentLength`, `hasTabOrSpacePrefixOrEOL`, `hasBytePrefix` -/

theorem isBlankLine_eol {e : Bytes} (he : EolBytes e) : isBlankLine e = true := by
  simp only [isBlankLine, List.all_eq_true]
  intro c hc; exact (isNL_facts c (he c hc)).1

theorem isBlankLine_append (a b : Bytes) : isBlankLine (a ++ b) = (isBlankLine a && isBlankLine b) := by
  simp [isBlankLine]

theorem isBlankLine_append_eol (l : Bytes) {e : Bytes} (he : EolBytes e) :
    isBlankLine (l ++ e) = isBlankLine l := by
  rw [isBlankLine_append, isBlankLine_eol he, Bool.and_true]

theorem indentLength_append_eol (l : Bytes) {e : Bytes} (he : EolBytes e) :
    indentLength (l ++ e) = indentLength l := by
  induction l with
  | nil =>
    cases e with
    | nil => rfl
    | cons c t => simp [indentLength, (isNL_facts c (he c (by simp))).2.1]
  | cons b t ih => simp only [List.cons_append, indentLength, ih]

theorem hasTabOrSpacePrefixOrEOL_append_eol (l : Bytes) {e : Bytes} (he : EolBytes e) :
    hasTabOrSpacePrefixOrEOL (l ++ e) = hasTabOrSpacePrefixOrEOL l := by
  cases l with
  | nil =>
    cases e with
    | nil => rfl
    | cons c t => simp [hasTabOrSpacePrefixOrEOL, (isNL_facts c (he c (by simp))).1]
  | cons b t => rfl

/-- A search string without CR/LF is a prefix of `l ++ e` iff it is a prefix of `l`. -/
theorem hasBytePrefix_append_eol (l : Bytes) {e : Bytes} (he : EolBytes e) (s : Bytes)
    (hs : ∀ c ∈ s, isNL c = false) : hasBytePrefix (l ++ e) s = hasBytePrefix l s := by
  induction l generalizing s with
  | nil =>
    cases s with
    | nil => simp [hasBytePrefix]
    | cons p ps =>
      cases e with
      | nil => rfl
      | cons c t =>
        have h1 := he c (by simp)
        have h2 := hs p (by simp)
        have : (c == p) = false := by
          cases h : c == p
          · rfl
          · have : c = p := by simpa using h
            subst this; rw [h1] at h2; exact absurd h2 (by simp)
        simp [hasBytePrefix, this]
  | cons b t ih =>
    cases s with
    | nil => simp [hasBytePrefix]
    | cons p ps =>
      simp only [List.cons_append, hasBytePrefix]
      rw [ih ps (fun c hc => hs c (by simp [hc]))]

/-! ### parseThematicBreak -/

theorem thematicLoop_eol {e : Bytes} (he : EolBytes e) (i n : Nat) (want : UInt8) (en : Nat) :
    thematicLoop e i n want en = some (n, en) := by
  induction e generalizing i with
  | nil => rfl
  | cons c t ih =>
    have hc := isNL_facts c (he c (by simp))
    rw [thematicLoop, if_neg (by simp [hc.2.2.2.2.1]), if_pos hc.2.2.2.1]
    exact ih (fun x hx => he x (by simp [hx])) (i + 1)

theorem thematicLoop_append_eol (l : Bytes) {e : Bytes} (he : EolBytes e) (i n : Nat) (want : UInt8) (en : Nat) :
    thematicLoop (l ++ e) i n want en = thematicLoop l i n want en := by
  induction l generalizing i n want en with
  | nil =>
    rw [List.nil_append, thematicLoop_eol he]; rfl
  | cons b t ih =>
    simp only [List.cons_append, thematicLoop, ih]

theorem parseThematicBreak_append_eol (l : Bytes) {e : Bytes} (he : EolBytes e) :
    parseThematicBreak (l ++ e) = parseThematicBreak l := by
  simp only [parseThematicBreak, thematicLoop_append_eol l he]

/-! ### parseSetextHeadingUnderline -/

theorem setextRest_append_eol (c : UInt8) (l : Bytes) {e : Bytes} (he : EolBytes e) :
    setextRest c (l ++ e) = setextRest c l := by
  rw [setextRest_eq, setextRest_eq]
  induction l with
  | nil =>
    have := isBlankLine_eol he
    rw [isBlankLine_eq] at this
    simp only [List.nil_append, List.dropWhile_nil, List.all_nil]
    rw [List.all_eq_true] at this ⊢
    intro x hx
    exact this x ((List.dropWhile_sublist _).subset hx)
  | cons b t ih =>
    simp only [List.cons_append, List.dropWhile_cons]
    split
    · exact ih
    · have := isBlankLine_append_eol (b :: t) he
      simpa [isBlankLine_eq] using this

theorem parseSetextHeadingUnderline_append_eol (l : Bytes) {e : Bytes} (he : EolBytes e) :
    parseSetextHeadingUnderline (l ++ e) = parseSetextHeadingUnderline l := by
  cases l with
  | nil =>
    cases e with
    | nil => rfl
    | cons c t =>
      have hc := isNL_facts c (he c (by simp))
      simp [parseSetextHeadingUnderline, hc.2.2.2.2.2.2.2.2.2.2.1, hc.2.2.2.2.2.2.2.2.2.2.2.1]
  | cons b t =>
    simp only [List.cons_append, parseSetextHeadingUnderline, setextRest_append_eol b t he]

/-! ### parseListMarker -/

theorem listMarkerLoop_append_eol (l : Bytes) {e : Bytes} (he : EolBytes e) (i n : Nat) :
    listMarkerLoop (l ++ e) i n = listMarkerLoop l i n := by
  induction l generalizing i n with
  | nil =>
    cases e with
    | nil => rfl
    | cons c t =>
      have hc := isNL_facts c (he c (by simp))
      simp only [List.nil_append, listMarkerLoop, hc.2.2.2.2.2.2.1, hc.2.2.2.2.2.2.2.1]
      split <;> rfl
  | cons b t ih =>
    simp only [List.cons_append, listMarkerLoop, ih, hasTabOrSpacePrefixOrEOL_append_eol t he]

theorem parseListMarker_append_eol (l : Bytes) {e : Bytes} (he : EolBytes e) :
    parseListMarker (l ++ e) = parseListMarker l := by
  cases l with
  | nil =>
    cases e with
    | nil => rfl
    | cons c t =>
      have hc := isNL_facts c (he c (by simp))
      have h1 : (c == 0x2D || c == 0x2B || c == 0x2A) = false := by
        have := hc.2.2.2.2.1
        have h2 := hc.2.2.2.2.2.2.2.2.2.2.2.2.1
        revert this h2; cases c == 0x2D <;> cases c == 0x5F <;> cases c == 0x2A <;> cases c == 0x2B <;> simp
      simp [parseListMarker, h1, hc.2.2.2.2.2.2.1]
  | cons b t =>
    simp only [List.cons_append, parseListMarker, hasTabOrSpacePrefixOrEOL_append_eol t he,
      listMarkerLoop_append_eol t he]

/-! ### parseATXHeading -/

theorem atxScanBack_le (line : Bytes) (start : Nat) : ∀ m, (atxScanBack line start m).1 ≤ m := by
  intro m
  induction m with
  | zero => simp [atxScanBack]
  | succ m ih =>
    unfold atxScanBack
    split
    · simp
    · split
      · simp
      · split
        · exact Nat.le_succ_of_le ih
        · split
          · split
            · simp
            · exact Nat.le_succ_of_le ih
          · split <;> simp

theorem atxScanBack_prefix (l e : Bytes) (start : Nat) : ∀ m, m ≤ l.length →
    atxScanBack (l ++ e) start m = atxScanBack l start m := by
  intro m
  induction m with
  | zero => intro _; rfl
  | succ m ih =>
    intro hm
    have hlt : m < l.length := by omega
    unfold atxScanBack
    rw [List.getElem?_append_left hlt, List.take_append_of_le_length (by omega), ih (by omega)]

theorem atxScanHashes_prefix (l e : Bytes) (start : Nat) : ∀ m, m ≤ l.length →
    atxScanHashes (l ++ e) start m = atxScanHashes l start m := by
  intro m
  induction m with
  | zero => intro _; rfl
  | succ m ih =>
    intro hm
    have hlt : m < l.length := by omega
    unfold atxScanHashes
    rw [List.getElem?_append_left hlt, ih (by omega)]

theorem atxScanHashes_le (line : Bytes) (start : Nat) : ∀ m r, atxScanHashes line start m = some r →
    r ≤ max m start := by
  intro m
  induction m with
  | zero => intro r h; simp [atxScanHashes] at h; omega
  | succ m ih =>
    intro r h
    unfold atxScanHashes at h
    split at h
    · simp at h; omega
    · split at h
      · exact absurd h (by simp)
      · split at h
        · have := ih r h; omega
        · split at h
          · simp at h; omega
          · exact absurd h (by simp)

theorem atxTrim_prefix (l e : Bytes) (start : Nat) : ∀ m, m ≤ l.length →
    atxTrim (l ++ e) start m = atxTrim l start m := by
  intro m
  induction m with
  | zero => intro _; rfl
  | succ m ih =>
    intro hm
    have hlt : m < l.length := by omega
    unfold atxTrim
    rw [List.getElem?_append_left hlt, List.take_append_of_le_length (by omega), ih (by omega)]

theorem atxStopModel_append_eol (l : Bytes) {e : Bytes} (he : EolBytes e) (start : Nat) (hs : start ≤ l.length) :
    atxStopModel (l ++ e) start = atxStopModel l start := by
  unfold atxStopModel
  have h1 : atxScanBack (l ++ e) start (l ++ e).length = atxScanBack l start l.length := by
    rw [List.length_append, atxScanBack_skipNL (l ++ e) start l.length hs e.length (by simp)]
    · exact atxScanBack_prefix l e start l.length (Nat.le_refl _)
    · intro i hi hge
      rw [List.getElem_append_right hge]
      exact he _ (List.getElem_mem _)
  rw [h1]
  have hle := atxScanBack_le l start l.length
  generalize atxScanBack l start l.length = r at hle
  obtain ⟨en, hit⟩ := r
  simp only at hle ⊢
  cases hit
  · rfl
  · simp only [Bool.not_true, Bool.false_eq_true, if_false]
    rw [atxScanHashes_prefix l e start en hle]
    cases h : atxScanHashes l start en with
    | none => rfl
    | some r =>
      have := atxScanHashes_le l start en r h
      exact atxTrim_prefix l e start r (by omega)

theorem countPrefix_le (c : UInt8) (l : Bytes) : countPrefix c l ≤ l.length := by
  induction l with
  | nil => simp [countPrefix]
  | cons b t ih => simp only [countPrefix]; split <;> simp <;> omega

theorem skipSpTab_le (l : Bytes) : skipSpTab l ≤ l.length := by
  induction l with
  | nil => simp [skipSpTab]
  | cons b t ih => simp only [skipSpTab]; split <;> simp <;> omega

theorem countPrefix_getElem (c : UInt8) (l : Bytes) (h : countPrefix c l < l.length) :
    (l[countPrefix c l]'h == c) = false := by
  induction l with
  | nil => simp at h
  | cons b t ih =>
    by_cases hb : (b == c) = true
    · have hcp : countPrefix c (b :: t) = countPrefix c t + 1 := by simp [countPrefix, hb]; omega
      simp only [hcp, List.getElem_cons_succ]
      exact ih (by rw [hcp] at h; simpa using h)
    · have hcp : countPrefix c (b :: t) = 0 := by simp [countPrefix, hb]
      simp only [hcp, List.getElem_cons_zero]
      simpa using hb

/-- `parseATXHeading` does not see the line ending: level, content start and content end are all positions
    before the trailing blanks of the body. -/
theorem parseATXHeading_append_eol (l : Bytes) {e : Bytes} (he : EolBytes e) :
    parseATXHeading (l ++ e) = parseATXHeading l := by
  rw [parseATXHeading_eq, parseATXHeading_eq]
  simp only []
  have hcp : countPrefix 0x23 (l ++ e) = countPrefix 0x23 l := by
    rw [countPrefix_eq, countPrefix_eq,
      takeWhile_append_of_none _ l e (fun x hx => (isNL_facts x (he x hx)).2.2.2.2.2.1)]
  rw [hcp]
  have hle := countPrefix_le 0x23 l
  generalize countPrefix 0x23 l = level at hle
  by_cases h1 : (level == 0 || decide (level > 6)) = true
  · rw [if_pos h1, if_pos h1]
  · rw [if_neg h1, if_neg h1]
    by_cases hlt : level < l.length
    · rw [List.getElem?_append_left hlt, List.getElem?_eq_getElem hlt]
      simp only []
      split
      · rfl
      · split
        · rfl
        · have hd : List.drop (level + 1) (l ++ e) = List.drop (level + 1) l ++ e :=
            List.drop_append_of_le_length (by omega)
          have hsk : skipSpTab (List.drop (level + 1) (l ++ e)) = skipSpTab (List.drop (level + 1) l) := by
            rw [hd, skipSpTab_eq, skipSpTab_eq,
              takeWhile_append_of_none isSpTab _ e (fun x hx => (isNL_facts x (he x hx)).2.2.1)]
          rw [hsk]
          have := skipSpTab_le (List.drop (level + 1) l)
          rw [atxStopModel_append_eol l he _ (by simp at this; omega)]
    · have hlev : level = l.length := by omega
      subst hlev
      rw [List.getElem?_append_right (Nat.le_refl _), Nat.sub_self, List.getElem?_eq_none (Nat.le_refl _)]
      cases e with
      | nil => rfl
      | cons c t =>
        have hc := (isNL_facts c (he c (by simp))).2.2.2.2.2.2.2.2.2.2.2.2.2
        simp [hc]

/-! ### parseCodeFence -/

theorem firstNonSpace_append_eol (a : Bytes) {e : Bytes} (he : EolBytes e) (i : Nat) :
    firstNonSpace (a ++ e) i = firstNonSpace a i := by
  induction a generalizing i with
  | nil =>
    simp only [List.nil_append]
    induction e generalizing i with
    | nil => rfl
    | cons c t ih =>
      have hc := (isNL_facts c (he c (by simp))).1
      simp only [firstNonSpace, hc, Bool.not_true, Bool.false_eq_true, if_false]
      rw [ih (fun x hx => he x (by simp [hx]))]; rfl
  | cons b t ih => simp only [List.cons_append, firstNonSpace, ih]

theorem firstNonSpace_bound (a : Bytes) (i s : Nat) (h : firstNonSpace a i = some s) : i ≤ s ∧ s < i + a.length := by
  induction a generalizing i with
  | nil => simp [firstNonSpace] at h
  | cons b t ih =>
    simp only [firstNonSpace] at h
    split at h
    · simp at h; subst h; simp
    · have := ih (i + 1) h; simp; omega

theorem trimEnd_skip (line : Bytes) (s m : Nat) (hsm : s ≤ m) : ∀ k, m + k ≤ line.length →
    (∀ i (h : i < line.length), m ≤ i → Gen.isSpaceTabOrLineEnding line[i] = true) →
    trimEnd line s (m + k) = trimEnd line s m := by
  intro k
  induction k with
  | zero => intros; rfl
  | succ k ih =>
    intro hk hws
    have : m + (k + 1) = (m + k) + 1 := by omega
    rw [this]
    conv => lhs; unfold trimEnd
    have hlt : m + k < line.length := by omega
    rw [if_neg (by omega), List.getElem?_eq_getElem hlt]
    simp only [hws (m + k) hlt (by omega), Bool.not_true, Bool.false_eq_true, if_false]
    exact ih (by omega) hws

theorem trimEnd_prefix (l e : Bytes) (s : Nat) : ∀ m, m ≤ l.length → trimEnd (l ++ e) s m = trimEnd l s m := by
  intro m
  induction m with
  | zero => intro _; rfl
  | succ m ih =>
    intro hm
    have hlt : m < l.length := by omega
    unfold trimEnd
    rw [List.getElem?_append_left hlt, ih (by omega)]

theorem trimEnd_le (line : Bytes) (s : Nat) : ∀ m, trimEnd line s m ≤ m := by
  intro m
  induction m with
  | zero => simp [trimEnd]
  | succ m ih =>
    unfold trimEnd
    split
    · exact Nat.le_refl _
    · split
      · exact Nat.le_refl _
      · split
        · exact Nat.le_refl _
        · exact Nat.le_succ_of_le ih

theorem parseCodeFence_eq (line : Bytes) :
    parseCodeFence line =
      match line.head? with
      | none => noFence
      | some c =>
        if line.length < Gen.minConsecutive || (c != 0x60 && c != 0x7E) then noFence else
        let n := countPrefix c line
        if n < Gen.minConsecutive then noFence else
        match firstNonSpace (line.drop n) n with
        | none => ⟨c, n, -1, -1⟩
        | some s =>
          let e := trimEnd line s line.length
          if c == 0x60 && ((line.drop s).take (e - s)).any (· == 0x60) then noFence
          else ⟨c, n, s, e⟩ := by
  cases line <;> rfl

theorem parseCodeFence_noFence_of_head (line : Bytes) (c : UInt8) (h : line.head? = some c)
    (hc : (c != 0x60 && c != 0x7E) = true) : parseCodeFence line = noFence := by
  rw [parseCodeFence_eq, h]; simp only [hc, Bool.or_true, if_true]

theorem parseCodeFence_short (line : Bytes) (c : UInt8) (h : line.head? = some c)
    (hn : countPrefix c line < Gen.minConsecutive) : parseCodeFence line = noFence := by
  rw [parseCodeFence_eq, h]
  simp only [hn, if_true]
  split <;> rfl

/-- `parseCodeFence` does not see the line ending: the info string span is trimmed of all white space,
    line ending included. -/
theorem parseCodeFence_append_eol (l : Bytes) {e : Bytes} (he : EolBytes e) :
    parseCodeFence (l ++ e) = parseCodeFence l := by
  cases l with
  | nil =>
    cases e with
    | nil => rfl
    | cons c t =>
      have hc := isNL_facts c (he c (by simp))
      exact parseCodeFence_noFence_of_head _ c rfl (by simp [bne, hc.2.2.2.2.2.2.2.2.1, hc.2.2.2.2.2.2.2.2.2.1])
  | cons c t =>
    have hh : ((c :: t) ++ e).head? = some c := rfl
    have hh' : (c :: t).head? = some c := rfl
    generalize c :: t = l at hh hh'
    by_cases hc : (c != 0x60 && c != 0x7E) = true
    · rw [parseCodeFence_noFence_of_head _ c hh hc, parseCodeFence_noFence_of_head _ c hh' hc]
    · have hc' : (c == 0x60 || c == 0x7E) = true := by
        simp only [bne] at hc
        revert hc; cases c == 0x60 <;> cases c == 0x7E <;> simp
      have hcp : countPrefix c (l ++ e) = countPrefix c l := by
        rw [countPrefix_eq, countPrefix_eq]
        refine congrArg List.length (takeWhile_append_of_none _ l e ?_)
        intro x hx
        have hx' := isNL_facts x (he x hx)
        cases hxc : x == c
        · rfl
        · have : x = c := by simpa using hxc
          subst this
          rw [hx'.2.2.2.2.2.2.2.2.1, hx'.2.2.2.2.2.2.2.2.2.1] at hc'; simp at hc'
      have hnle := countPrefix_le c l
      by_cases hn3 : countPrefix c l < Gen.minConsecutive
      · rw [parseCodeFence_short _ c hh (by rw [hcp]; exact hn3), parseCodeFence_short _ c hh' hn3]
      · rw [parseCodeFence_eq, parseCodeFence_eq l, hh, hh']
        simp only [hcp]
        generalize hn : countPrefix c l = n at hnle hn3
        have ha : ¬ (l ++ e).length < Gen.minConsecutive := by simp; omega
        have hb : ¬ l.length < Gen.minConsecutive := by omega
        simp only [ha, hb, decide_false, Bool.false_or, hc, Bool.false_eq_true, if_false, hn3]
        rw [List.drop_append_of_le_length hnle, firstNonSpace_append_eol _ he]
        cases hf : firstNonSpace (List.drop n l) n with
        | none => rfl
        | some s =>
          have hsb := firstNonSpace_bound _ _ _ hf
          have hsl : s < l.length := by simp at hsb; omega
          have hte : trimEnd (l ++ e) s (l ++ e).length = trimEnd l s l.length := by
            rw [List.length_append, trimEnd_skip (l ++ e) s l.length (by omega) e.length (by simp)]
            · exact trimEnd_prefix l e s l.length (Nat.le_refl _)
            · intro i hi hge
              rw [List.getElem_append_right hge]
              exact (isNL_facts _ (he _ (List.getElem_mem _))).1
          simp only [hte]
          have hle := trimEnd_le l s l.length
          have : List.take (trimEnd l s l.length - s) (List.drop s (l ++ e)) =
              List.take (trimEnd l s l.length - s) (List.drop s l) := by
            rw [List.drop_append_of_le_length (by omega), List.take_append_of_le_length (by simp; omega)]
          rw [this]

end CM.Proofs
