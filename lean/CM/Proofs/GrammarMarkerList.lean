import CM.Proofs.GrammarMarkerStarts
import CM.Proofs.GrammarMarkerFrame
import CM.Proofs.GrammarLooseList
/-
C05, block half — the list marker of an item: `startListItem`.

`parseListMarker_text`: the bytes `parseListMarker` accepts are the marker text of the delimiter it returns (1–9 digits and
the delimiter, or one bullet character). `startListItem` opens the item with that delimiter as `char`, opens the marker at
the current position, advances over exactly those bytes and closes the marker: the new item satisfies the rule of `PBMark`
for every `src` of which the current line is the suffix at `lineStart`.
-/
namespace CM.Proofs.GM
open CM CM.Model CM.Gen
open CM.Proofs.BT CM.Proofs.BG CM.Proofs.GL

/-! ### the text of a marker -/

theorem takeWhile_append_stop {p : UInt8 → Bool} (ds : Bytes) (d : UInt8) (h : ∀ c ∈ ds, p c = true) (hd : p d = false) :
    (ds ++ [d]).takeWhile p = ds := by
  induction ds with
  | nil => simp [hd]
  | cons a r ih =>
    have ha := h a (List.mem_cons_self ..)
    simp only [List.cons_append, List.takeWhile_cons, ha, if_true]
    rw [ih (fun c hc => h c (List.mem_cons_of_mem _ hc))]

theorem drop_takeWhile_length (p : UInt8 → Bool) (l : Bytes) : l.drop (l.takeWhile p).length = l.dropWhile p := by
  induction l with
  | nil => rfl
  | cons a r ih =>
    simp only [List.takeWhile_cons, List.dropWhile_cons]
    split
    · simpa using ih
    · rfl

theorem takeWhile_all (p : UInt8 → Bool) (l : Bytes) : ∀ a ∈ l.takeWhile p, p a = true := by
  induction l with
  | nil => intro a ha; cases ha
  | cons b r ih =>
    intro a ha
    rw [List.takeWhile_cons] at ha
    split at ha
    · rcases List.mem_cons.1 ha with rfl | ha
      · assumption
      · exact ih a ha
    · cases ha

theorem take_append_succ (T : Bytes) (d : UInt8) (after : Bytes) : (T ++ d :: after).take (T.length + 1) = T ++ [d] := by
  induction T with
  | nil => simp
  | cons a r ih => simpa using ih

/-- The bytes `parseListMarker` accepts are the marker text of its delimiter. -/
theorem parseListMarker_text (l : Bytes) (h : 0 ≤ (parseListMarker l).stop) :
    markerShape (l.take (parseListMarker l).stop.toNat) (parseListMarker l).delim = true := by
  rw [listMarker_eq_spec] at h ⊢
  cases hs : Spec.listMarker l with
  | none => rw [hs] at h; simp [noMarker] at h
  | some m =>
    simp only []
    unfold Spec.listMarker at hs
    cases l with
    | nil => cases hs
    | cons c rest =>
      simp only [] at hs
      split at hs
      · rename_i hb
        split at hs
        · simp only [Option.some.injEq] at hs
          subst hs
          simp only [Int.toNat_natCast, List.take_succ_cons, List.take_zero]
          unfold markerShape
          have hno : Spec.isOrderedChar c = false := by
            simp only [Bool.or_eq_true, beq_iff_eq] at hb
            rcases hb with (hb | hb) | hb <;> subst hb <;> decide
          simp [hno, hb]
        · cases hs
      · rename_i hb
        split at hs
        · cases hs
        · rename_i hlen
          split at hs
          · cases hs
          · rename_i d after hdrop
            split at hs
            · cases hs
            · rename_i hd
              split at hs
              · simp only [Option.some.injEq] at hs
                subst hs
                simp only [Int.toNat_natCast]
                have hL : (c :: rest).takeWhile Spec.isASCIIDigit ++ d :: after = c :: rest := by
                  have h1 := (List.takeWhile_append_dropWhile (p := Spec.isASCIIDigit) (l := c :: rest))
                  rw [drop_takeWhile_length] at hdrop
                  rw [hdrop] at h1
                  exact h1
                have hall : ∀ a ∈ (c :: rest).takeWhile Spec.isASCIIDigit, Spec.isASCIIDigit a = true :=
                  takeWhile_all _ _
                generalize (c :: rest).takeWhile Spec.isASCIIDigit = T at hlen hL hall
                have hdd : d = 46 ∨ d = 41 := by
                  by_cases h46 : d = 46
                  · exact Or.inl h46
                  · right; simpa [h46] using hd
                have hdig : Spec.isASCIIDigit d = false := by rcases hdd with rfl | rfl <;> decide +kernel
                have hord : Spec.isOrderedChar d = true := by rcases hdd with rfl | rfl <;> decide
                have htake : (c :: rest).take (T.length + 1) = T ++ [d] := by
                  rw [← hL]; exact take_append_succ T d after
                rw [htake]
                unfold markerShape
                rw [if_pos hord]
                simp only [takeWhile_append_stop T d hall hdig, List.drop_left', Bool.and_eq_true, decide_eq_true_eq, beq_iff_eq]
                simp only [Bool.or_eq_true, beq_iff_eq, decide_eq_true_eq, not_or] at hlen
                refine ⟨⟨?_, ?_⟩, trivial⟩ <;> omega
              · cases hs

/-! ### the new marker -/

theorem markOK_new {src line : Bytes} {ls i stop : Nat} {m : PLabel} {c : UInt8} (hline : line = src.drop ls)
    (hb : i + stop ≤ line.length) (hstop : 1 ≤ stop) (hs : m.start = (ls : Int) + i) (he : m.stop = (ls : Int) + i + stop)
    (hshape : markerShape ((line.drop i).take stop) c = true) : markOK src m c = true := by
  unfold markOK
  simp only [Bool.and_eq_true, decide_eq_true_eq]
  have hlen : line.length = src.length - ls := by rw [hline, List.length_drop]
  refine ⟨⟨⟨by omega, by omega⟩, by omega⟩, ?_⟩
  have e : sliceI src m.start m.stop = (line.drop i).take stop := by
    unfold sliceI
    rw [hs, he, hline, List.drop_drop]
    have e1 : ((ls : Int) + i).toNat = ls + i := by omega
    have e2 : ((ls : Int) + i + stop - ((ls : Int) + i)).toNat = stop := by omega
    rw [e1, e2]
  rw [e]; exact hshape

theorem tree_source {p q : LP} (h : tree p = tree q) : p.source = q.source := by simp [tree] at h; exact h.1
theorem tree_lineStart {p q : LP} (h : tree p = tree q) : p.lineStart = q.lineStart := by simp [tree] at h; exact h.2.2.2

/-- The tree after `endBlock` below the root. -/
theorem endBlock_root (x : PExt) (p : LP) (hst : p.state ≤ 2) (hd : p.depth ≠ 0) :
    (p.endBlock x).root = spineModify (replaceLastFn (closeBlock x p.source (p.lineStart + p.i))) p.root (p.depth - 1) := by
  unfold LP.endBlock
  simp only [state_le_two hst, Bool.false_eq_true, if_false]
  rw [markMatched_eq]
  unfold LP.closeContainer
  have hd' : (({ p with state := mm p.state } : LP).depth == 0) = false := by simpa using hd
  rw [if_neg (by rw [hd']; exact Bool.false_ne_true)]
  rfl

/-- Closing the open, childless marker that is the only child of an item. -/
theorem close_marker (x : PExt) (s : Bytes) (e : Int) (il ml : PLabel) (hk : ml.kind = BK.listMarker) (ho : ml.stop < 0) :
    replaceLastFn (closeBlock x s e) (.mk il [.mk ml [] []] []) = .mk il [.mk { ml with stop := e } [] []] [] := by
  have h1 : closeBlock x s e (.mk ml [] []) = [.mk { ml with stop := e } [] []] := by
    rw [closeBlock_other x s e ml [] [] (by omega) (by rw [hk]; decide)
      (by rw [Para, hk]; intro h; rcases h with h | h <;> exact absurd h (by decide)) (by rw [hk]; decide)]
    rw [closeLast]
  simp only [replaceLastFn, List.getLast?_singleton, List.dropLast_singleton, List.nil_append, h1]

/-! ### the rest of `startListItem` after the marker has been closed -/

theorem listItem_finish_MT {src : Bytes} (x : PExt) (q2 : LP) (stop ind : Nat) (h : GI q2) (hs2 : 1 ≤ q2.state ∧ q2.state ≤ 2)
    (hb : q2.i + stop ≤ q2.line.length) (hM4 : MT src ((q2.advance stop).endBlock x)) :
    MT src (
      let p := q2.advance stop
      let p := p.endBlock x
      if p.isRestBlank then
        let p := p.setContainerIndent (ind + stop + 1)
        p.consumeLine
      else
        let padding := p.indent
        if padding < 1 then p.setContainerIndent (ind + stop + 1)
        else if padding > 4 then (p.consumeIndentN 1).setContainerIndent (ind + stop + 1)
        else (p.consumeIndentN padding).setContainerIndent (ind + stop + padding)) := by
  simp only []
  have ad := advance_post q2 stop h.inv.cur hb
  generalize q2.advance stop = q3 at ad hM4
  have g3 := h.ofAdv ad
  have s3 := ad.st hs2.2
  have eb := endBlock_inv x q3 g3.inv s3.2
  have ebG := endBlock_G x q3 g3.g
  generalize q3.endBlock x = q4 at eb ebG hM4
  have i4 := eb.inv g3.inv
  split
  · exact (setContainerIndent_MT q4 _ i4.tree ebG hM4).consumeLine
  · split
    · exact setContainerIndent_MT q4 _ i4.tree ebG hM4
    · have tk : ∀ k, TreeOK (q4.consumeIndentN k) := fun k =>
        ⟨by rw [consumeIndentN_root]; exact i4.tree.root,
         by rw [consumeIndentN_root, show (q4.consumeIndentN k).depth = q4.depth from (consumeIndent_root _ q4 k).2]; exact i4.tree.valid⟩
      split
      · exact setContainerIndent_MT _ _ (tk _) (by rw [consumeIndentN_root]; exact ebG) (hM4.consumeIndentN _)
      · exact setContainerIndent_MT _ _ (tk _) (by rw [consumeIndentN_root]; exact ebG) (hM4.consumeIndentN _)

/-- The item (with its closed marker) that `startListItem` builds. -/
theorem PBM_newItem {src : Bytes} (il ml : PLabel) (hi : il.kind = BK.listItem) (hm : ml.kind = BK.listMarker)
    (hok : markOK src ml il.char = true) : PBMark src (.mk il [.mk ml [] []] []) := by
  rw [PBMark_mk]
  refine ⟨?_, ?_⟩
  · unfold markLocal
    have e1 : (il.kind != BK.listItem) = false := by simp [hi]
    have e2 : ((PB.mk ml [] []).kind != BK.listMarker) = false := by
      show (ml.kind != BK.listMarker) = false; simp [hm]
    simp only [e1, e2, Bool.false_or]
    exact hok
  · intro b hb
    simp only [List.mem_singleton] at hb
    subst hb
    exact PBM_leaf _ _

/-- The item and its marker opened in an existing list. -/
theorem listItemTail_M_old {src : Bytes} (x : PExt) (p : LP) (delim : UInt8) (stop ind : Nat) (h : GI p) (hm : MT src p)
    (hd : isDelimChar delim = true)
    (hk : p.containerKind = BK.list) (hch : p.container.label.char = delim) (hs : p.state ≤ 2)
    (hb : p.i + stop ≤ p.line.length) (hline : p.line = src.drop p.lineStart) (hstop : 1 ≤ stop)
    (hshape : markerShape ((p.line.drop p.i).take stop) delim = true) : MT src (listItemTail x delim stop ind p) := by
  rw [listItemTail_eq]
  have cc1 : canContain p.containerKind BK.listItem = true := by rw [hk]; decide
  have ob1 := openBlock_inv x p BK.listItem (fun l => { l with char := delim }) (fun _ => rfl) h.inv hs (Or.inr cc1)
  have n1 := openBlock_nest x p BK.listItem (fun l => { l with char := delim }) h.inv.tree h.g hs (Or.inr cc1)
  have pp := obPre_post x p BK.listItem h.inv.tree h.g (Or.inr cc1)
  have pl := obPre_M (src := src) x p BK.listItem h.g hm
  have hq : obPre x p BK.listItem = ({ p with state := mm p.state } : LP).closeLastChild x p.lineStart := obPre_of_cc x p _ cc1
  have hT1 : TreeOK ({ p with state := mm p.state } : LP) := ⟨h.inv.tree.root, h.inv.tree.valid⟩
  have hql : (obPre x p BK.listItem).container.label = p.container.label := by
    rw [hq, closeLastChild_container_label x _ _ hT1]; rfl
  have hqi : (obPre x p BK.listItem).i = p.i := cur_i pp.cur
  have hqls : (obPre x p BK.listItem).lineStart = p.lineStart := pp.lineStart
  generalize obPre x p BK.listItem = q at n1 pp pl hql hqi hqls
  generalize hI : (PB.mk ((fun l : PLabel => { l with char := delim }) { kind := BK.listItem, start := ↑q.lineStart + ↑q.i }) [] [] : PB) = I at n1
  generalize p.openBlock x BK.listItem (fun l => { l with char := delim }) = q1 at ob1 n1
  have i1 := ob1.inv h.inv
  have s1 := ob1.st hs
  have hIk : I.kind = BK.listItem := by rw [← hI]; rfl
  have n2 := openBlock_nested x q q1 I I 0 BK.listMarker id n1 (spineGet_zero I) (by rw [← hI]; rfl) (by rw [hIk]; decide) s1.2.1
  have ob2 := openBlock_inv x q1 BK.listMarker id id_kind i1 s1.2.1 (Or.inl (by decide))
  generalize q1.openBlock x BK.listMarker = q2 at ob2 n2
  have i2 := ob2.inv i1
  have s2 := ob2.st s1.2.1
  have n2' := n2.1
  rw [spineModify_zero] at n2'
  have g2 : PBGrammar q2.root := by
    apply n2'.G pp.g
    intro hc
    apply appendChild_G_item hc
    · rw [← hI]
      exact BG.PBG_newItem delim hd _ _ ⟨rfl, rfl⟩ rfl
    · show q.container.label.kind = BK.list
      rw [hql]; exact hk
    · rw [← hI]; rfl
    · rw [← hI, hql]; exact hch.symm
  have hb2 : q2.i + stop ≤ q2.line.length := by
    rw [cur_i ob2.cur, cur_line ob2.cur, cur_i ob1.cur, cur_line ob1.cur]; exact hb
  apply listItem_finish_MT x q2 stop ind ⟨i2, g2⟩ ⟨s2.2.2, s2.2.1⟩ hb2
  -- the tree after the marker has been closed
  have ad := advance_post q2 stop i2.cur hb2
  have hst3 := ad.st s2.2.1
  have hd3 : (q2.advance stop).depth ≠ 0 := by rw [tree_depth ad.tree, n2'.depth]; omega
  unfold MT
  rw [endBlock_root x _ hst3.2 hd3, tree_root ad.tree]
  have hdep : (q2.advance stop).depth - 1 = q.depth + 1 + 0 := by rw [tree_depth ad.tree, n2'.depth]; omega
  rw [hdep, n2'.modify _ 0, spineModify_zero]
  refine (PBM_spineModify _ q.depth q.root ?_ pp.g pl).1
  intro c hc hcG hcM
  rw [BG.container_eq q n2'.valid] at hc
  cases hc
  have hqk : q.container.kind = BK.list := by show q.container.label.kind = _; rw [hql]; exact hk
  refine ⟨?_, ?_⟩
  · apply appendChild_M' hcM _ (by rw [hqk]; decide)
    rw [← hI]
    show PBMark src (replaceLastFn _ (.mk _ [.mk _ [] []] []))
    rw [close_marker x _ _ _ _ rfl (by show (-1 : Int) < 0; decide)]
    apply PBM_newItem _ _ rfl rfl
    apply markOK_new hline hb hstop (i := p.i) (ls := p.lineStart)
    · show (↑q1.lineStart + ↑q1.i : Int) = _
      rw [n1.lineStart, hqls, cur_i ob1.cur]
    · show (↑(q2.advance stop).lineStart + ↑(q2.advance stop).i : Int) = _
      rw [tree_lineStart ad.tree, ad.i, n2'.lineStart, hqls, cur_i ob2.cur, cur_i ob1.cur]
      omega
    · exact hshape
  · generalize q.container = c
    obtain ⟨l, bs, is⟩ := c
    exact MRes.same rfl rfl rfl

/-- A new list, its first item and the item's marker. -/
theorem listItemTail_M_new {src : Bytes} (x : PExt) (q p : LP) (lab : PLabel) (delim : UInt8) (stop ind : Nat)
    (hlab : lab.kind = BK.list ∧ lab.char = delim) (hd : isDelimChar delim = true)
    (n0 : Nest q p (.mk lab [] []) 0) (hq : PBGrammar q.root) (hqm : PBMark src q.root)
    (hqcc : canContain q.containerKind BK.list = true)
    (hi : Inv p) (hk : p.containerKind = BK.list) (hs : p.state ≤ 2) (hb : p.i + stop ≤ p.line.length)
    (hline : p.line = src.drop p.lineStart) (hstop : 1 ≤ stop)
    (hshape : markerShape ((p.line.drop p.i).take stop) delim = true) : MT src (listItemTail x delim stop ind p) := by
  rw [listItemTail_eq]
  have cc1 : canContain p.containerKind BK.listItem = true := by rw [hk]; decide
  have ob1 := openBlock_inv x p BK.listItem (fun l => { l with char := delim }) (fun _ => rfl) hi hs (Or.inr cc1)
  have n1 := openBlock_nested x q p (.mk lab [] []) (.mk lab [] []) 0 BK.listItem (fun l => { l with char := delim }) n0
    (spineGet_zero _) rfl (by show canContain lab.kind _ = true; rw [hlab.1]; decide) hs
  rw [spineModify_zero] at n1
  generalize hI : (PB.mk ((fun l : PLabel => { l with char := delim }) { kind := BK.listItem, start := ↑p.lineStart + ↑p.i }) [] [] : PB) = I at n1
  generalize p.openBlock x BK.listItem (fun l => { l with char := delim }) = q1 at ob1 n1
  have i1 := ob1.inv hi
  have s1 := ob1.st hs
  have hIk : I.kind = BK.listItem := by rw [← hI]; rfl
  have n2 := openBlock_nested x q q1 (BG.appendChild I (.mk lab [] [])) I 1 BK.listMarker id n1.1
    (spineGet_appendChild_one _ _) (by rw [← hI]; rfl) (by rw [hIk]; decide) s1.2.1
  rw [spineModify_appendChild_one] at n2
  have ob2 := openBlock_inv x q1 BK.listMarker id id_kind i1 s1.2.1 (Or.inl (by decide))
  generalize q1.openBlock x BK.listMarker = q2 at ob2 n2
  have i2 := ob2.inv i1
  have s2 := ob2.st s1.2.1
  have g2 : PBGrammar q2.root := by
    apply n2.1.G hq
    intro hc
    apply appendChild_G hc
    · rw [← hI]
      exact BG.PBG_newList delim hd _ _ _ hlab ⟨rfl, rfl⟩ rfl
    · show cck lab.kind = true
      rw [hlab.1]; decide
    · show canContain q.containerKind lab.kind = true
      rw [hlab.1]; exact hqcc
  have hb2 : q2.i + stop ≤ q2.line.length := by
    rw [cur_i ob2.cur, cur_line ob2.cur, cur_i ob1.cur, cur_line ob1.cur]; exact hb
  apply listItem_finish_MT x q2 stop ind ⟨i2, g2⟩ ⟨s2.2.2, s2.2.1⟩ hb2
  have ad := advance_post q2 stop i2.cur hb2
  have hst3 := ad.st s2.2.1
  have hd3 : (q2.advance stop).depth ≠ 0 := by rw [tree_depth ad.tree, n2.1.depth]; omega
  unfold MT
  rw [endBlock_root x _ hst3.2 hd3, tree_root ad.tree]
  have hdep : (q2.advance stop).depth - 1 = q.depth + 1 + 1 := by rw [tree_depth ad.tree, n2.1.depth]; omega
  rw [hdep, n2.1.modify _ 1, spineModify_appendChild_one]
  refine (PBM_spineModify _ q.depth q.root ?_ hq hqm).1
  intro c hc hcG hcM
  rw [BG.container_eq q n2.1.valid] at hc
  cases hc
  refine ⟨?_, ?_⟩
  · apply appendChild_M hcM _ (by show lab.kind ≠ BK.listMarker; rw [hlab.1]; decide)
    show PBMark src (.mk lab [replaceLastFn _ (BG.appendChild _ I)] [])
    rw [PBMark_mk]
    refine ⟨markLocal_of_ne _ (by rw [hlab.1]; decide), ?_⟩
    intro b hb'
    simp only [List.mem_singleton] at hb'
    subst hb'
    rw [← hI]
    show PBMark src (replaceLastFn _ (.mk _ [.mk _ [] []] []))
    rw [close_marker x _ _ _ _ rfl (by show (-1 : Int) < 0; decide)]
    apply PBM_newItem _ _ rfl rfl
    apply markOK_new hline hb hstop (i := p.i) (ls := p.lineStart)
    · show (↑q1.lineStart + ↑q1.i : Int) = _
      rw [n1.1.lineStart, n0.lineStart, cur_i ob1.cur]
    · show (↑(q2.advance stop).lineStart + ↑(q2.advance stop).i : Int) = _
      rw [tree_lineStart ad.tree, ad.i, n2.1.lineStart, cur_i ob2.cur, cur_i ob1.cur, ← n0.lineStart]
      omega
    · exact hshape
  · generalize q.container = c
    obtain ⟨l, bs, is⟩ := c
    exact MRes.same rfl rfl rfl

/-- `startListItem` keeps the marker invariant for every `src` of which the current line is the suffix at `lineStart`. -/
theorem startListItem_MT {src : Bytes} (x : PExt) (p : LP) (h : GI p) (hm : MT src p) (hs : p.state = 0)
    (hline : p.line = src.drop p.lineStart) : MT src (startListItem x p) := by
  unfold startListItem
  simp only []
  split
  · exact hm
  split
  · exact hm
  rename_i _ hc1
  split
  · exact hm
  have hb := parseListMarker_toNat_le p.bytesAfterIndent
  have hpos := parseListMarker_pos p.bytesAfterIndent
  have hdl := parseListMarker_delim p.bytesAfterIndent
  have htx := parseListMarker_text p.bytesAfterIndent
  generalize parseListMarker p.bytesAfterIndent = m at hb hpos hc1 hdl htx ⊢
  have hmm : 1 ≤ m.stop := by
    rcases hpos with h' | h'
    · rw [h'] at hc1; simp at hc1
    · exact h'
  have hd : isDelimChar m.delim = true := hdl (by omega)
  have htx' := htx (by omega)
  obtain ⟨ci, hdrop, hil⟩ := consumeAll p h.inv
  generalize p.consumeIndentN p.indent = p1 at ci hdrop hil ⊢
  have g1 := h.ofCI ci
  have m1 := hm.ofCI ci
  have i1 := g1.inv
  have s1 := ci.st (by omega)
  have hbound : p1.i + m.stop.toNat ≤ p1.line.length := by rw [ci.line]; omega
  have hline1 : p1.line = src.drop p1.lineStart := by rw [ci.line, tree_lineStart ci.tree]; exact hline
  have hshape1 : markerShape ((p1.line.drop p1.i).take m.stop.toNat) m.delim = true := by rw [hdrop]; exact htx'
  have hstop1 : 1 ≤ m.stop.toNat := by omega
  generalize hcond : (p1.containerKind != BK.list || (if (p1.containerKind != BK.list && p1.containerKind != BK.listItem) = true
      then (0 : UInt8) else p1.container.label.char) != m.delim) = c
  cases c with
  | true =>
    show MT src (listItemTail x m.delim m.stop.toNat p.indent (p1.openBlock x BK.list (fun l => { l with char := m.delim })))
    have ob := openBlock_inv x p1 BK.list (fun l => { l with char := m.delim }) (fun _ => rfl) i1 s1.2 (Or.inl (by decide))
    have n0 := openBlock_nest x p1 BK.list (fun l => { l with char := m.delim }) i1.tree g1.g s1.2 (Or.inl (by decide))
    have pp := obPre_post x p1 BK.list i1.tree g1.g (Or.inl (by decide))
    have pl := obPre_M (src := src) x p1 BK.list g1.g m1
    have e1 : (p1.openBlock x BK.list (fun l => { l with char := m.delim })).lineStart = p1.lineStart := by
      rw [n0.lineStart, pp.lineStart]
    exact listItemTail_M_new x _ _ _ m.delim m.stop.toNat p.indent ⟨rfl, rfl⟩ hd n0 pp.g pl
      pp.cc (ob.inv i1) ob.ckind (ob.st s1.2).2.1 (by rw [cur_i ob.cur, cur_line ob.cur]; exact hbound)
      (by rw [cur_line ob.cur, e1]; exact hline1) hstop1 (by rw [cur_line ob.cur, cur_i ob.cur]; exact hshape1)
  | false =>
    show MT src (listItemTail x m.delim m.stop.toNat p.indent p1)
    simp only [Bool.or_eq_false_iff] at hcond
    have hk : p1.containerKind = BK.list := by simpa using hcond.1
    have hch : p1.container.label.char = m.delim := by
      have h2 := hcond.2
      rw [hk] at h2
      simpa using h2
    exact listItemTail_M_old x p1 m.delim m.stop.toNat p.indent g1 m1 hd hk hch s1.2 hbound hline1 hstop1 hshape1

end CM.Proofs.GM
