import CM.Proofs.EolTag2
/-
HTML block start condition 7 and the line ending, part 3 — `parseHTMLOpenTag` / `parseHTMLClosingTag` on two readers that
agree until one ends: the same result (`end` or −1), and after a successful parse readers that are still in step or have
both ended.
-/
namespace CM.Proofs
open CM CM.Model CM.Gen

theorem not_nonneg_neg_one : ¬ (0 : Int) ≤ -1 := by decide

section Live
variable {s1 s2 : Bytes} {K : Nat} {L : Rd → Rd → Prop} {D1 D2 : Rd → Prop}
  (H : LiveRd s1 s2 K L D1 D2) (H1 : DeadRd s1 D1) (H2 : DeadRd s2 D2)
include H H1 H2

/-- The closing `>`: `e := pos + 1`, then `next`. -/
theorem live_close (a b : Rd) (hL : L a b) :
    (((a.pos + 1 : Nat) : Int), (a.next s1).2).1 = (((b.pos + 1 : Nat) : Int), (b.next s2).2).1 ∧
      OutS L D1 D2 b.pos (a.next s1).2 (b.next s2).2 := by
  refine ⟨by simp only []; rw [(H.pos a b hL).1], ?_⟩
  rcases H.nxt a b hL with ⟨_, _, n3, n4⟩ | ⟨n1, n2⟩
  · exact Or.inl ⟨n3, by rw [n4]; omega⟩
  · exact Or.inr ⟨n1, n2⟩

theorem live_openTagLoop : ∀ (f1 f2 : Nat) (a b : Rd), L a b → K - b.pos < f1 → K - b.pos < f2 →
    (openTagLoop s1 f1 a).1 = (openTagLoop s2 f2 b).1 ∧
      (0 ≤ (openTagLoop s2 f2 b).1 → OutS L D1 D2 b.pos (openTagLoop s1 f1 a).2 (openTagLoop s2 f2 b).2) := by
  intro f1
  induction f1 with
  | zero => intro f2 a b _ h; omega
  | succ f1 ih =>
    intro f2 a b hL hf1 hf2
    obtain ⟨g, rfl⟩ : ∃ g, f2 = g + 1 := ⟨f2 - 1, by omega⟩
    unfold openTagLoop
    have hpab := (H.pos a b hL).1
    obtain ⟨k1, k2⟩ := live_skipLinkSpace H H1 H2 (f1 + 1) (g + 1) a b hL hf1 hf2
    generalize skipLinkSpace s1 (f1 + 1) a = ra at k1 k2
    generalize skipLinkSpace s2 (g + 1) b = rb at k1 k2
    obtain ⟨ok1, a1⟩ := ra
    obtain ⟨ok2, b1⟩ := rb
    simp only [] at k1 k2 ⊢
    subst k1
    cases ok1 with
    | false =>
      simp only [Bool.not_false, if_true]
      exact ⟨trivial, fun h => absurd h not_nonneg_neg_one⟩
    | true =>
      simp only [Bool.not_true, Bool.false_eq_true, if_false]
      rcases k2 with ⟨k3, k4⟩ | ⟨_, _, k5⟩
      · obtain ⟨c1, c2, c3⟩ := H.cur a1 b1 k3
        have hp := (H.pos a1 b1 k3).2
        have hpos1 : (a1.current s1).2.pos = (b1.current s2).2.pos := (H.pos _ _ c2).1
        rw [c1]
        by_cases hs : ((b1.current s2).1 == 0x2F) = true
        · rw [if_pos hs, if_pos hs]
          rcases H.nxt _ _ c2 with ⟨n1, n2, n3, n4⟩ | ⟨n1, n2⟩
          · simp only [n1, n2, Bool.not_true, Bool.false_or]
            rw [H.jmp _ _ n3]
            by_cases hj : (Rd.next s2 (b1.current s2).2).2.jumped = true
            · rw [if_pos hj, if_pos hj]
              exact ⟨rfl, fun h => absurd h not_nonneg_neg_one⟩
            · rw [if_neg hj, if_neg hj]
              obtain ⟨d1, d2, d3⟩ := H.cur _ _ n3
              rw [d1]
              by_cases hg : ((Rd.current s2 (Rd.next s2 (b1.current s2).2).2).1 != 0x3E) = true
              · rw [if_pos hg, if_pos hg]
                exact ⟨rfl, fun h => absurd h not_nonneg_neg_one⟩
              · rw [if_neg hg, if_neg hg]
                obtain ⟨e1, e2⟩ := live_close H H1 H2 _ _ d2
                refine ⟨?_, fun _ => e2.mono (by rw [d3, n4, c3]; omega)⟩
                simp only [] at e1 ⊢
                have := (H.pos _ _ d2).1
                rw [this]
          · -- both readers end at the `/`: no tag
            have e1 : ∀ r, D1 r → ∀ (ok : Bool),
                (if (!ok || r.jumped) = true then ((-1 : Int), r) else
                  if ((Rd.current s1 r).1 != 0x3E) = true then ((-1 : Int), (Rd.current s1 r).2)
                  else ((((Rd.current s1 r).2.pos + 1 : Nat) : Int), (Rd.next s1 (Rd.current s1 r).2).2)).1 = -1 := by
              intro r hr ok
              split
              · rfl
              · have hf := nl_or_zero_facts _ (H1.cur r hr).1
                have : ((Rd.current s1 r).1 != 0x3E) = true := by simp [bne, hf.2.2.2.2.2.2.2.1]
                rw [if_pos this]
            have e2 : ∀ r, D2 r → ∀ (ok : Bool),
                (if (!ok || r.jumped) = true then ((-1 : Int), r) else
                  if ((Rd.current s2 r).1 != 0x3E) = true then ((-1 : Int), (Rd.current s2 r).2)
                  else ((((Rd.current s2 r).2.pos + 1 : Nat) : Int), (Rd.next s2 (Rd.current s2 r).2).2)).1 = -1 := by
              intro r hr ok
              split
              · rfl
              · have hf := nl_or_zero_facts _ (H2.cur r hr).1
                have : ((Rd.current s2 r).1 != 0x3E) = true := by simp [bne, hf.2.2.2.2.2.2.2.1]
                rw [if_pos this]
            have x := e1 _ n1 (Rd.next s1 (a1.current s1).2).1
            have y := e2 _ n2 (Rd.next s2 (b1.current s2).2).1
            refine ⟨by rw [x, y], fun h => ?_⟩
            rw [y] at h; exact absurd h not_nonneg_neg_one
        · rw [if_neg hs, if_neg hs]
          by_cases hg : ((b1.current s2).1 == 0x3E) = true
          · rw [if_pos hg, if_pos hg]
            obtain ⟨e1, e2⟩ := live_close H H1 H2 _ _ c2
            refine ⟨?_, fun _ => e2.mono (by rw [c3]; omega)⟩
            simp only [] at e1 ⊢
            rw [hpos1]
          · rw [if_neg hg, if_neg hg, hpos1, hpab]
            by_cases hb : ((b1.current s2).2.pos == b.pos) = true
            · rw [if_pos hb, if_pos hb]
              exact ⟨rfl, fun h => absurd h not_nonneg_neg_one⟩
            · rw [if_neg hb, if_neg hb]
              have hne : (b1.current s2).2.pos ≠ b.pos := by simpa using hb
              have hgt : b.pos < (b1.current s2).2.pos := by rw [c3] at hne ⊢; omega
              have hp2 := (H.pos _ _ c2).2
              obtain ⟨r1, r2⟩ := live_attribute H H1 H2 (f1 + 1) (g + 1) _ _ c2 (by omega) (by omega)
              generalize parseHTMLAttribute s1 (f1 + 1) (a1.current s1).2 = qa at r1 r2
              generalize parseHTMLAttribute s2 (g + 1) (b1.current s2).2 = qb at r1 r2
              obtain ⟨oka, a3⟩ := qa
              obtain ⟨okb, b3⟩ := qb
              simp only [] at r1 r2 ⊢
              subst r1
              cases oka with
              | false =>
                simp only [Bool.not_false, if_true]
                exact ⟨trivial, fun h => absurd h not_nonneg_neg_one⟩
              | true =>
                simp only [Bool.not_true, Bool.false_eq_true, if_false]
                rcases r2 with ⟨r3, r4⟩ | ⟨r3, r4⟩
                · have hp3 := (H.pos _ _ r3).2
                  obtain ⟨u1, u2⟩ := ih g a3 b3 r3 (by omega) (by omega)
                  exact ⟨u1, fun h => (u2 h).mono (by omega)⟩
                · rw [(dead_openTagLoop H1 f1 a3 r3).1, (dead_openTagLoop H2 g b3 r4).1]
                  exact ⟨rfl, fun h => absurd h not_nonneg_neg_one⟩
      · cases k5

theorem live_openTag (f1 f2 : Nat) (a b : Rd) (hL : L a b) (hf1 : K - b.pos < f1) (hf2 : K - b.pos < f2) :
    (parseHTMLOpenTag s1 f1 a).1 = (parseHTMLOpenTag s2 f2 b).1 ∧
      (0 ≤ (parseHTMLOpenTag s2 f2 b).1 → OutS L D1 D2 b.pos (parseHTMLOpenTag s1 f1 a).2 (parseHTMLOpenTag s2 f2 b).2) := by
  unfold parseHTMLOpenTag
  obtain ⟨k1, k2⟩ := live_tagName H H1 H2 f1 f2 a b hL hf1 hf2
  generalize parseHTMLTagName s1 f1 a = ra at k1 k2
  generalize parseHTMLTagName s2 f2 b = rb at k1 k2
  obtain ⟨ok1, a1⟩ := ra
  obtain ⟨ok2, b1⟩ := rb
  simp only [] at k1 k2 ⊢
  subst k1
  cases ok1 with
  | false =>
    simp only [Bool.not_false, if_true]
    exact ⟨trivial, fun h => absurd h not_nonneg_neg_one⟩
  | true =>
    simp only [Bool.not_true, Bool.false_eq_true, if_false]
    rcases k2 with ⟨k3, k4⟩ | ⟨k3, k4⟩
    · have hp := (H.pos _ _ k3).2
      obtain ⟨u1, u2⟩ := live_openTagLoop H H1 H2 f1 f2 a1 b1 k3 (by omega) (by omega)
      exact ⟨u1, fun h => (u2 h).mono k4⟩
    · rw [(dead_openTagLoop H1 f1 a1 k3).1, (dead_openTagLoop H2 f2 b1 k4).1]
      exact ⟨rfl, fun h => absurd h not_nonneg_neg_one⟩

theorem live_closingTag (f1 f2 : Nat) (a b : Rd) (hL : L a b) (hf1 : K - b.pos < f1) (hf2 : K - b.pos < f2) :
    (parseHTMLClosingTag s1 f1 a).1 = (parseHTMLClosingTag s2 f2 b).1 ∧
      (0 ≤ (parseHTMLClosingTag s2 f2 b).1 →
        OutS L D1 D2 b.pos (parseHTMLClosingTag s1 f1 a).2 (parseHTMLClosingTag s2 f2 b).2) := by
  unfold parseHTMLClosingTag
  obtain ⟨c1, c2, c3⟩ := H.cur a b hL
  have hp := (H.pos a b hL).2
  simp only []
  rw [c1]
  by_cases hs : ((b.current s2).1 != 0x2F) = true
  · rw [if_pos hs, if_pos hs]
    exact ⟨rfl, fun h => absurd h not_nonneg_neg_one⟩
  · rw [if_neg hs, if_neg hs]
    rcases H.nxt _ _ c2 with ⟨n1, n2, n3, n4⟩ | ⟨n1, n2⟩
    · simp only [n1, n2, Bool.not_true, Bool.false_or]
      rw [H.jmp _ _ n3]
      by_cases hj : (Rd.next s2 (b.current s2).2).2.jumped = true
      · rw [if_pos hj, if_pos hj]
        exact ⟨rfl, fun h => absurd h not_nonneg_neg_one⟩
      · rw [if_neg hj, if_neg hj]
        obtain ⟨k1, k2⟩ := live_tagName H H1 H2 f1 f2 _ _ n3 (by rw [n4, c3]; omega) (by rw [n4, c3]; omega)
        generalize parseHTMLTagName s1 f1 (Rd.next s1 (a.current s1).2).2 = ra at k1 k2
        generalize parseHTMLTagName s2 f2 (Rd.next s2 (b.current s2).2).2 = rb at k1 k2
        obtain ⟨ok1, a1⟩ := ra
        obtain ⟨ok2, b1⟩ := rb
        simp only [] at k1 k2 ⊢
        subst k1
        cases ok1 with
        | false =>
          simp only [Bool.not_false, if_true]
          exact ⟨trivial, fun h => absurd h not_nonneg_neg_one⟩
        | true =>
          simp only [Bool.not_true, Bool.false_eq_true, if_false]
          rcases k2 with ⟨k3, k4⟩ | ⟨k3, k4⟩
          · have hp1 := (H.pos _ _ k3).2
            obtain ⟨m1, m2⟩ := live_skipLinkSpace H H1 H2 f1 f2 a1 b1 k3 (by rw [n4, c3] at k4; omega)
              (by rw [n4, c3] at k4; omega)
            generalize skipLinkSpace s1 f1 a1 = sa at m1 m2
            generalize skipLinkSpace s2 f2 b1 = sb at m1 m2
            obtain ⟨ok3, a2⟩ := sa
            obtain ⟨ok4, b2⟩ := sb
            simp only [] at m1 m2 ⊢
            subst m1
            cases ok3 with
            | false =>
              simp only [Bool.not_false, if_true]
              exact ⟨trivial, fun h => absurd h not_nonneg_neg_one⟩
            | true =>
              simp only [Bool.not_true, Bool.false_eq_true, if_false]
              rcases m2 with ⟨m3, m4⟩ | ⟨_, _, m5⟩
              · obtain ⟨d1, d2, d3⟩ := H.cur a2 b2 m3
                rw [d1]
                by_cases hg : ((b2.current s2).1 != 0x3E) = true
                · rw [if_pos hg, if_pos hg]
                  exact ⟨rfl, fun h => absurd h not_nonneg_neg_one⟩
                · rw [if_neg hg, if_neg hg]
                  obtain ⟨e1, e2⟩ := live_close H H1 H2 _ _ d2
                  refine ⟨?_, fun _ => e2.mono (by rw [d3]; rw [n4, c3] at k4; omega)⟩
                  simp only [] at e1 ⊢
                  rw [(H.pos _ _ d2).1]
              · cases m5
          · have x := (dead_skipLinkSpace H1 f1 a1 k3).1
            have y := (dead_skipLinkSpace H2 f2 b1 k4).1
            simp only [x, y, Bool.not_false, if_true]
            exact ⟨trivial, fun h => absurd h not_nonneg_neg_one⟩
    · have e1 : ∀ r, D1 r → ∀ (ok : Bool),
          (if (!ok || r.jumped) = true then ((-1 : Int), r) else
            if (!(parseHTMLTagName s1 f1 r).1) = true then ((-1 : Int), (parseHTMLTagName s1 f1 r).2)
            else
              if (!(skipLinkSpace s1 f1 (parseHTMLTagName s1 f1 r).2).1) = true then
                ((-1 : Int), (skipLinkSpace s1 f1 (parseHTMLTagName s1 f1 r).2).2)
              else
                if ((Rd.current s1 (skipLinkSpace s1 f1 (parseHTMLTagName s1 f1 r).2).2).1 != 0x3E) = true then
                  ((-1 : Int), (Rd.current s1 (skipLinkSpace s1 f1 (parseHTMLTagName s1 f1 r).2).2).2)
                else ((((Rd.current s1 (skipLinkSpace s1 f1 (parseHTMLTagName s1 f1 r).2).2).2.pos + 1 : Nat) : Int),
                  (Rd.next s1 (Rd.current s1 (skipLinkSpace s1 f1 (parseHTMLTagName s1 f1 r).2).2).2).2)).1 = -1 := by
        intro r hr ok
        split
        · rfl
        · rw [(dead_tagName H1 f1 r hr).1]; rfl
      have e2 : ∀ r, D2 r → ∀ (ok : Bool),
          (if (!ok || r.jumped) = true then ((-1 : Int), r) else
            if (!(parseHTMLTagName s2 f2 r).1) = true then ((-1 : Int), (parseHTMLTagName s2 f2 r).2)
            else
              if (!(skipLinkSpace s2 f2 (parseHTMLTagName s2 f2 r).2).1) = true then
                ((-1 : Int), (skipLinkSpace s2 f2 (parseHTMLTagName s2 f2 r).2).2)
              else
                if ((Rd.current s2 (skipLinkSpace s2 f2 (parseHTMLTagName s2 f2 r).2).2).1 != 0x3E) = true then
                  ((-1 : Int), (Rd.current s2 (skipLinkSpace s2 f2 (parseHTMLTagName s2 f2 r).2).2).2)
                else ((((Rd.current s2 (skipLinkSpace s2 f2 (parseHTMLTagName s2 f2 r).2).2).2.pos + 1 : Nat) : Int),
                  (Rd.next s2 (Rd.current s2 (skipLinkSpace s2 f2 (parseHTMLTagName s2 f2 r).2).2).2).2)).1 = -1 := by
        intro r hr ok
        split
        · rfl
        · rw [(dead_tagName H2 f2 r hr).1]; rfl
      have x := e1 _ n1 (Rd.next s1 (a.current s1).2).1
      have y := e2 _ n2 (Rd.next s2 (b.current s2).2).1
      refine ⟨by rw [x, y], fun h => ?_⟩
      rw [y] at h; exact absurd h not_nonneg_neg_one

end Live

end CM.Proofs
