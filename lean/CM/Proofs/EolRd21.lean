import CM.Proofs.EolRd20
/-
C14 (a), the paragraph hook under the position map — part 21: **the loop of `onCloseParagraph` commutes with the position
map** (`refDefLoop_sim`), for a paragraph made of lines in which no link label straddles the byte limit (`labelsAgree`).
-/
namespace CM.Proofs.ERd
open CM CM.Model CM.Gen CM.Proofs CM.Proofs.RDS CM.Proofs.BSp

def mapL (g : Int → Int) (l : PLabel) : PLabel := { l with start := g l.start, stop := g l.stop }

theorem mapPB_mk (g : Int → Int) (l : PLabel) (bs : List PB) (is : List Tree) :
    mapPB g (.mk l bs is) = .mk (mapL g l) (mapPBs g bs) (mapTrees g is) := by rw [mapPB]; rfl

section
variable {e X : Bytes} {k : Nat} {is : List Tree} {r : Rd}

/-- The label child of a definition. -/
theorem labelInline_map (he : StdEol e) (hcr : NoCR X) (hc : Ctx (X.take k) is) (htab : TabsOK (X.take k) is) (x : PExt)
    (a b : Int) :
    mkInlineRef IK.linkLabel (eolPosZ e X a) (eolPosZ e X b)
        (transformLinkReferenceSpan x.fold (toEol e (X.take k)) (mapTrees (eolPosZ e X) is) (eolPosZ e X a).toNat (eolPosZ e X b).toNat)
        (collectTextNodes x.ext (toEol e (X.take k)) (eolPosZ e X b).toNat IK.text false
          (rdFuel (toEol e (X.take k)) (mapTrees (eolPosZ e X) is))
          (newReader (mapTrees (eolPosZ e X) is) (eolPosZ e X a).toNat) (eolPosZ e X a).toNat []) =
      mapTree (eolPosZ e X) (mkInlineRef IK.linkLabel a b (transformLinkReferenceSpan x.fold (X.take k) is a.toNat b.toNat)
        (collectTextNodes x.ext (X.take k) b.toNat IK.text false (rdFuel (X.take k) is) (newReader is a.toNat) a.toNat [])) := by
  rw [mapTree_mkInlineRef, eolPosZ_toNat', eolPosZ_toNat', transform_eq he hcr hc htab, collect_new he hcr hc htab]

/-- The destination / title child of a definition. -/
theorem textInline_map (he : StdEol e) (hcr : NoCR X) (hc : Ctx (X.take k) is) (htab : TabsOK (X.take k) is) (x : PExt)
    (kd : Nat) (a b s t : Int) :
    mkInline kd (eolPosZ e X a) (eolPosZ e X b)
        (collectTextNodes x.ext (toEol e (X.take k)) (eolPosZ e X t).toNat IK.text true
          (rdFuel (toEol e (X.take k)) (mapTrees (eolPosZ e X) is))
          (newReader (mapTrees (eolPosZ e X) is) (eolPosZ e X s).toNat) (eolPosZ e X s).toNat []) =
      mapTree (eolPosZ e X) (mkInline kd a b
        (collectTextNodes x.ext (X.take k) t.toNat IK.text true (rdFuel (X.take k) is) (newReader is s.toNat) s.toNat [])) := by
  rw [mapTree_mkInline', eolPosZ_toNat', eolPosZ_toNat', collect_new he hcr hc htab]

theorem withOrphan_map (g : Int → Int) (orphan : Option PB) (res : List PB) :
    (match orphan.map (mapPB g) with
      | some o => mapPBs g res ++ [o]
      | none => mapPBs g res) =
    mapPBs g (match orphan with
      | some o => res ++ [o]
      | none => res) := by
  cases orphan with
  | none => rfl
  | some o => simp only [Option.map_some, mapPBs_append, mapPBs_singleton]

theorem giveUp_map (g : Int → Int) (result : List PB) (l : PLabel) (is : List Tree) :
    mapPBs g result ++ [PB.mk (mapL g l) [] (mapTrees g is)] = mapPBs g (result ++ [PB.mk l [] is]) := by
  rw [mapPBs_append, mapPBs_singleton, mapPB_mk]; rfl

theorem mapL_start (e X : Bytes) (l : PLabel) (p : Nat) :
    ({ mapL (eolPosZ e X) l with start := ((eolPos e X p : Nat) : Int) } : PLabel) =
      mapL (eolPosZ e X) { l with start := (p : Int) } := by
  unfold mapL
  simp only [eolPosZ_ofNat]

theorem refDefLoop_sim (x : PExt) (he : StdEol e) (hcr : NoCR X) :
    ∀ (fuel : Nat) (orphan : Option PB) (r : Rd) (l : PLabel) (is : List Tree) (result : List PB), Ctx (X.take k) is →
      TabsOK (X.take k) is →
      RJ (X.take k) is r → labelsAgree (e.length - 1) (X.take k) fuel r is = true →
      refDefLoop x (toEol e (X.take k)) (orphan.map (mapPB (eolPosZ e X))) fuel (mapRd e X r) (mapL (eolPosZ e X) l)
          (mapTrees (eolPosZ e X) is) (mapPBs (eolPosZ e X) result) =
        mapPBs (eolPosZ e X) (refDefLoop x (X.take k) orphan fuel r l is result) := by
  intro fuel
  induction fuel with
  | zero =>
    intro orphan r l is result _ _ _ _
    rw [refDefLoop, refDefLoop]
    exact giveUp_map _ result l is
  | succ fuel ih =>
    intro orphan r l is result hc htab hj hag
    have hc' := ctx_map (e := e) he hcr hc htab
    have hgive := giveUp_map (eolPosZ e X) result l is
    -- the label: the re-written side computes the `W` label
    have sW := parseLinkLabelW_sim he hcr hc htab (rdFuel (X.take k) is) (rdFuel (toEol e (X.take k)) (mapTrees (eolPosZ e X) is))
      r hj (mu_lt_fuel hj.1) (mu_lt_fuel (ri_map hj.1))
    by_cases hvp : (parseLinkLabel (X.take k) (rdFuel (X.take k) is) r).1.span.isValid = true
    case neg =>
      -- the plain scanner rejects the label: so does the `W` scanner, and both loops give up
      have hWinv : (parseLinkLabelW (e.length - 1) (X.take k) (rdFuel (X.take k) is) r).1.span.isValid = false := by
        cases hv : (parseLinkLabelW (e.length - 1) (X.take k) (rdFuel (X.take k) is) r).1.span.isValid with
        | false => rfl
        | true => rw [labelW_eq _ _ _ _ hv] at hvp; exact absurd hv hvp
      have hinv' : (parseLinkLabel (toEol e (X.take k)) (rdFuel (toEol e (X.take k)) (mapTrees (eolPosZ e X) is))
          (mapRd e X r)).1.span.isValid = false := by
        rw [sW.1]
        rw [show (mapLabel e X (parseLinkLabelW (e.length - 1) (X.take k) (rdFuel (X.take k) is) r).1).span.isValid =
          (parseLinkLabelW (e.length - 1) (X.take k) (rdFuel (X.take k) is) r).1.span.isValid from mapSpanI_valid e X _]
        exact hWinv
      have hinv : (parseLinkLabel (X.take k) (rdFuel (X.take k) is) r).1.span.isValid = false := by
        cases hv : (parseLinkLabel (X.take k) (rdFuel (X.take k) is) r).1.span.isValid with
        | false => rfl
        | true => exact absurd hv hvp
      rw [refDefLoop, refDefLoop]
      simp only []
      rw [hinv, hinv']
      simp only [Bool.not_false, if_true]
      exact hgive
    -- the plain scanner accepts the label: so does the `W` scanner (`hag`), and it is the same label
    have hag' := hag
    rw [labelsAgree] at hag'
    rcases e1 : parseLinkLabel (X.take k) (rdFuel (X.take k) is) r with ⟨label, r1⟩
    rw [e1] at hvp hag'
    simp only [] at hvp hag'
    rw [hvp] at hag'
    simp only [Bool.not_true, Bool.false_eq_true, if_false] at hag'
    obtain ⟨hWv, hag'⟩ := Bool.and_eq_true_iff.1 hag'
    have hWeq := labelW_eq _ _ _ _ hWv
    rw [e1] at hWeq
    rw [← hWeq] at sW
    obtain ⟨sW1, sW2⟩ := sW
    obtain ⟨sW3, j1⟩ := sW2 hvp
    have e1' : parseLinkLabel (toEol e (X.take k)) (rdFuel (toEol e (X.take k)) (mapTrees (eolPosZ e X) is)) (mapRd e X r) =
        (mapLabel e X label, mapRd e X r1) := Prod.ext sW1 sW3
    simp only [] at j1
    have e2 := j1.cur hc
    have e2' := current_map_eq (e := e) he hcr hc htab j1.1
    generalize hc2 : (r1.current (X.take k)).1 = c2 at e2 e2'
    rcases e3 : r1.next (X.take k) with ⟨ok3, r3⟩
    have j3 : RJ (X.take k) is r3 := by have := j1.next hc; rw [e3] at this; exact this
    rcases e4 : skipLinkSpace (X.take k) (rdFuel (X.take k) is) r3 with ⟨ok4, r4⟩
    have s4 := skipLinkSpace_sim he hcr hc htab (rdFuel (X.take k) is) (rdFuel (toEol e (X.take k)) (mapTrees (eolPosZ e X) is))
      r3 j3 (mu_lt_fuel j3.1) (mu_lt_fuel (ri_map j3.1))
    rw [e4] at s4
    obtain ⟨e4', j4⟩ := s4
    rcases e5 : parseLinkDestination (X.take k) (rdFuel (X.take k) is) r4 with ⟨dest, r5⟩
    have s5 := parseLinkDestination_sim he hcr hc htab (rdFuel (X.take k) is)
      (rdFuel (toEol e (X.take k)) (mapTrees (eolPosZ e X) is)) r4 j4 (mu_lt_fuel j4.1) (mu_lt_fuel (ri_map j4.1))
    rw [e5] at s5
    obtain ⟨e5', j5⟩ := s5
    rcases e6 : readEOL (X.take k) (rdFuel (X.take k) is) r5 with ⟨destEOL, r6⟩
    have s6 := readEOL_sim he hcr hc htab (rdFuel (X.take k) is) (rdFuel (toEol e (X.take k)) (mapTrees (eolPosZ e X) is))
      r5 j5 (mu_lt_fuel j5.1) (mu_lt_fuel (ri_map j5.1))
    rw [e6] at s6
    obtain ⟨e6', j6⟩ := s6
    have e7 := j6.cur hc
    have e7' := current_map_eq (e := e) he hcr hc htab j6.1
    generalize hc7 : (r6.current (X.take k)).1 = c7 at e7 e7'
    rcases e8 : skipLinkSpace (X.take k) (rdFuel (X.take k) is) r6 with ⟨ok8, r8⟩
    have s8 := skipLinkSpace_sim he hcr hc htab (rdFuel (X.take k) is) (rdFuel (toEol e (X.take k)) (mapTrees (eolPosZ e X) is))
      r6 j6 (mu_lt_fuel j6.1) (mu_lt_fuel (ri_map j6.1))
    rw [e8] at s8
    obtain ⟨e8', j8⟩ := s8
    rcases e9 : parseLinkTitle (X.take k) (rdFuel (X.take k) is) r8 with ⟨title, r9⟩
    have s9 := parseLinkTitle_sim he hcr hc htab (rdFuel (X.take k) is) (rdFuel (toEol e (X.take k)) (mapTrees (eolPosZ e X) is))
      r8 j8 (mu_lt_fuel j8.1) (mu_lt_fuel (ri_map j8.1))
    rw [e9] at s9
    obtain ⟨e9', j9⟩ := s9
    rcases e10 : readEOL (X.take k) (rdFuel (X.take k) is) r9 with ⟨titleEOL, r10⟩
    have s10 := readEOL_sim he hcr hc htab (rdFuel (X.take k) is) (rdFuel (toEol e (X.take k)) (mapTrees (eolPosZ e X) is))
      r9 j9 (mu_lt_fuel j9.1) (mu_lt_fuel (ri_map j9.1))
    rw [e10] at s10
    obtain ⟨e10', j10⟩ := s10
    try simp only [] at e1'
    try simp only [] at e4'
    try simp only [] at e5'
    try simp only [] at e6'
    try simp only [] at e8'
    try simp only [] at e9'
    try simp only [] at e10'
    simp only [e2, e3, e4, e5, e6, e7, e8, e9, e10] at hag'
    -- unfold both loops
    rw [refDefLoop, refDefLoop]
    simp only [e1, e1']
    rw [show (mapLabel e X label).span.isValid = label.span.isValid from mapSpanI_valid e X _]
    by_cases v1 : (!label.span.isValid) = true
    · rw [if_pos v1, if_pos v1]; exact hgive
    rw [if_neg v1, if_neg v1]
    simp only [e2, e2']
    rw [trB_bne he c2 0x3A (by decide) (by decide)]
    by_cases v2 : (c2 != 0x3A) = true
    · rw [if_pos v2, if_pos v2]; exact hgive
    rw [if_neg v2, if_neg v2]
    rw [if_neg v2] at hag'
    have hc2v : c2 = 0x3A := by simpa using v2
    have e3' : Rd.next (toEol e (X.take k)) (mapRd e X r1) = (ok3, mapRd e X r3) := by
      have := step_plain (e := e) he hcr hc htab j1 (by rw [hc2, hc2v]; decide)
      rw [e3] at this; exact this
    simp only [e3, e3', e4, e4']
    by_cases v3 : (!ok4) = true
    · rw [if_pos v3, if_pos v3]; exact hgive
    rw [if_neg v3, if_neg v3]
    rw [if_neg v3] at hag'
    simp only [e5, e5']
    rw [show (mapDest e X dest).span.isValid = dest.span.isValid from mapSpanI_valid e X _]
    by_cases v4 : (!dest.span.isValid) = true
    · rw [if_pos v4, if_pos v4]; exact hgive
    rw [if_neg v4, if_neg v4]
    rw [if_neg v4] at hag'
    simp only [e6, e6', e7, e7']
    have hsep : ((mapRd e X r6).pos == (mapRd e X r5).pos) = (r6.pos == r5.pos) := by
      show (eolPos e X r6.pos == eolPos e X r5.pos) = _
      by_cases hh : r6.pos = r5.pos
      · rw [hh]; simp
      · have : eolPos e X r6.pos ≠ eolPos e X r5.pos := fun h' => hh (eolPos_inj e X h')
        rw [beq_eq_false_iff_ne.2 hh, beq_eq_false_iff_ne.2 this]
    have hneg : decide (eolPosZ e X destEOL < 0) = decide (destEOL < 0) := decide_eq_decide.2 (eolPosZ_neg_iff e X _)
    rw [hsep, hneg, show (trB e c7 != 0) = (c7 != 0) by simp only [bne, trB_zero he]]
    by_cases v5 : (decide (destEOL < 0) && (r6.pos == r5.pos) && c7 != 0) = true
    · rw [if_pos v5, if_pos v5]; exact hgive
    rw [if_neg v5, if_neg v5]
    rw [if_neg v5] at hag'
    simp only [e8, e8', e9, e9', e10, e10']
    -- the children
    have K1 := labelInline_map (e := e) he hcr hc htab x label.inner.start label.inner.stop
    have K2 := textInline_map (e := e) he hcr hc htab x IK.linkDest dest.span.start dest.span.stop dest.text.start dest.text.stop
    have K3 := textInline_map (e := e) he hcr hc htab x IK.linkTitle title.span.start title.span.stop title.text.start title.text.stop
    rw [show (mapTitle e X title).span.isValid = title.span.isValid from mapSpanI_valid e X _]
    simp only [mapLabel, mapDest, mapTitle, mapSpanI]
    rw [K1, K2, K3]
    generalize mkInlineRef IK.linkLabel label.inner.start label.inner.stop
      (transformLinkReferenceSpan x.fold (X.take k) is label.inner.start.toNat label.inner.stop.toNat)
      (collectTextNodes x.ext (X.take k) label.inner.stop.toNat IK.text false (rdFuel (X.take k) is)
        (newReader is label.inner.start.toNat) label.inner.start.toNat []) = k1
    generalize mkInline IK.linkDest dest.span.start dest.span.stop
      (collectTextNodes x.ext (X.take k) dest.text.stop.toNat IK.text true (rdFuel (X.take k) is)
        (newReader is dest.text.start.toNat) dest.text.start.toNat []) = k2
    generalize mkInline IK.linkTitle title.span.start title.span.stop
      (collectTextNodes x.ext (X.take k) title.text.stop.toNat IK.text true (rdFuel (X.take k) is)
        (newReader is title.text.start.toNat) title.text.start.toNat []) = k3
    -- the two blocks
    have B1 : mapPBs (eolPosZ e X) result ++ [mkPB BK.linkRefDef (eolPosZ e X label.span.start) (eolPosZ e X destEOL)
          [mapTree (eolPosZ e X) k1, mapTree (eolPosZ e X) k2]] =
        mapPBs (eolPosZ e X) (result ++ [mkPB BK.linkRefDef label.span.start destEOL [k1, k2]]) := by
      rw [mapPBs_append, mapPBs_singleton, mapPB_mkPB]; rfl
    have B2 : mapPBs (eolPosZ e X) result ++ [mkPB BK.linkRefDef (eolPosZ e X label.span.start) (eolPosZ e X titleEOL)
          [mapTree (eolPosZ e X) k1, mapTree (eolPosZ e X) k2, mapTree (eolPosZ e X) k3]] =
        mapPBs (eolPosZ e X) (result ++ [mkPB BK.linkRefDef label.span.start titleEOL [k1, k2, k3]]) := by
      rw [mapPBs_append, mapPBs_singleton, mapPB_mkPB]; rfl
    rw [B1, B2]
    -- continuing from a reader `q` after the block(s) `res`
    have cont : ∀ (q : Rd) (res : List PB), RJ (X.take k) is q →
        (∀ fc, nodeIndexForPosition is q.pos 0 = some fc → labelsAgree (e.length - 1) (X.take k) fuel q (is.drop fc) = true) →
        (match nodeIndexForPosition (mapTrees (eolPosZ e X) is) (mapRd e X q).pos 0 with
          | none => (match orphan.map (mapPB (eolPosZ e X)) with
              | some o => mapPBs (eolPosZ e X) res ++ [o]
              | none => mapPBs (eolPosZ e X) res)
          | some fc => refDefLoop x (toEol e (X.take k)) (orphan.map (mapPB (eolPosZ e X))) fuel (mapRd e X q)
              { mapL (eolPosZ e X) l with start := ((mapRd e X q).pos : Int) } ((mapTrees (eolPosZ e X) is).drop fc)
              (mapPBs (eolPosZ e X) res)) =
        mapPBs (eolPosZ e X) (match nodeIndexForPosition is q.pos 0 with
          | none => (match orphan with
              | some o => res ++ [o]
              | none => res)
          | some fc => refDefLoop x (X.take k) orphan fuel q { l with start := (q.pos : Int) } (is.drop fc) res) := by
      intro q res hq hb
      rw [show (mapRd e X q).pos = eolPos e X q.pos from rfl, nodeIndex_map]
      cases hfc : nodeIndexForPosition is q.pos 0 with
      | none => exact withOrphan_map _ orphan res
      | some fc =>
        simp only []
        rw [← mapTrees_drop, mapL_start]
        exact ih orphan q _ (is.drop fc) res (hc.drop fc) (tabsOK_drop htab fc) ⟨drop_ri hc hq.1 hfc, hq.2⟩ (hb fc hfc)
    by_cases v6 : (!ok8) = true
    · rw [if_pos v6, if_pos v6]
      exact withOrphan_map _ orphan _
    rw [if_neg v6, if_neg v6]
    rw [if_neg v6] at hag'
    have hneg2 : (eolPosZ e X titleEOL < 0) ↔ (titleEOL < 0) := eolPosZ_neg_iff e X _
    have hneg1 : (eolPosZ e X destEOL < 0) ↔ (destEOL < 0) := eolPosZ_neg_iff e X _
    by_cases v7 : (!title.span.isValid) = true
    · rw [if_pos v7, if_pos v7]
      by_cases v8 : destEOL < 0
      · rw [if_pos v8, if_pos (hneg1.2 v8)]; exact hgive
      · rw [if_neg v8, if_neg (fun hh => v8 (hneg1.1 hh))]
        rw [if_pos v7, if_neg v8] at hag'
        exact cont r6 _ j6 (fun fc hfc => by rw [hfc] at hag'; exact hag')
    rw [if_neg v7, if_neg v7]
    by_cases v9 : titleEOL < 0
    · rw [if_pos v9, if_pos (hneg2.2 v9)]
      by_cases v8 : destEOL < 0
      · rw [if_pos v8, if_pos (hneg1.2 v8)]; exact hgive
      · rw [if_neg v8, if_neg (fun hh => v8 (hneg1.1 hh))]
        rw [show (mapRd e X r6).pos = eolPos e X r6.pos from rfl, nodeIndex_map]
        cases hfc : nodeIndexForPosition is r6.pos 0 with
        | none => exact withOrphan_map _ orphan _
        | some fc =>
          simp only []
          rw [← mapTrees_drop, mapL_start]
          exact giveUp_map _ _ _ _
    · rw [if_neg v9, if_neg (fun hh => v9 (hneg2.1 hh))]
      rw [if_neg v7, if_neg v9] at hag'
      exact cont r10 _ j10 (fun fc hfc => by rw [hfc] at hag'; exact hag')

end

end CM.Proofs.ERd
