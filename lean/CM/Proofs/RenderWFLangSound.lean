import CM.Proofs.RenderWFLang
import CM.Proofs.RenderWF
/-
Soundness of the byte-level recogniser for the plain writing of good tokens: if the tokens are in the
vocabulary (no tag token named `br`), their text runs are in the class `T`, and they are properly nested,
then `htmlLangG T` accepts `flatPlain ts`.
-/
namespace CM.Proofs.RenderWF
open CM CM.Model CM.Spec CM.Gen

/-- What the soundness proof needs of a class of text runs. -/
structure TextClass (T : Bytes → Bool) : Prop where
  nil : T [] = true
  lf : T [LF] = true
  app : ∀ a b, T a = true → T b = true → T (a ++ b) = true
  noLt : ∀ a, T a = true → a.all (· != 0x3C) = true
  cref : ∀ b, charRefShape b = true → T b = true

/-- Token-level condition relative to `T`. -/
def tokG (T : Bytes → Bool) : Tok → Bool
  | .text b => T b
  | .stag n attrs => rendererElements.contains n && n != str "br" && attrs.all attrOK
  | .etag n => rendererElements.contains n
  | .br => true
  | .cref b => charRefShape b
  | .raw b => b.isEmpty

theorem textClass_dataOK : TextClass dataOK where
  nil := rfl
  lf := by decide +kernel
  app := dataOK_append
  noLt := by
    intro a h
    simp only [dataOK, markupFree, Bool.and_eq_true, List.all_eq_true] at h
    simp only [List.all_eq_true]
    intro c hc
    have := h.1 c hc
    simp only [isMarkupByte, Bool.not_eq_true', Bool.or_eq_false_iff] at this
    simpa using this.1.1.1
  cref := dataOK_of_charRef

theorem textClass_dataW : TextClass dataW where
  nil := rfl
  lf := by decide +kernel
  app := dataW_append
  noLt := by
    intro a h
    simp only [dataW, Bool.and_eq_true, List.all_eq_true] at h
    simp only [List.all_eq_true]
    exact fun c hc => (h.1 c hc).1
  cref := fun b h => dataW_of_dataOK b (dataOK_of_charRef b h)

/-! ### vocabulary facts -/

theorem elements_nameChars : ∀ n ∈ rendererElements, n.all isNameChar = true ∧ n.head? ≠ some 0x2F ∧ n ≠ [] := by
  decide +kernel
theorem attrs_nameChars : ∀ n ∈ rendererAttrs, n.all isNameChar = true := by decide +kernel
theorem elements_voidOut : ∀ n ∈ rendererElements, n ≠ str "br" → isVoidOut n = isVoid n := by decide +kernel

theorem nameChar_sp : isNameChar 0x20 = false := by decide +kernel
theorem nameChar_gt : isNameChar 0x3E = false := by decide +kernel
theorem nameChar_eq : isNameChar 0x3D = false := by decide +kernel

/-! ### attributes -/

theorem safe_noQuote (v : Bytes) (h : safeData v = true) : v.all (· != 0x22) = true := by
  simp only [safeData, markupFree, Bool.and_eq_true, List.all_eq_true] at h
  simp only [List.all_eq_true]
  intro c hc
  have := h.1 c hc
  simp only [isMarkupByte, Bool.not_eq_true', Bool.or_eq_false_iff] at this
  simpa using this.1.2

theorem flatAttr_eq (a : Bytes × Bytes) (R : Bytes) :
    flatAttr a ++ R = 0x20 :: (a.1 ++ 0x3D :: 0x22 :: (a.2 ++ 0x22 :: R)) := by
  simp [flatAttr, SP]

theorem flatAttrs_cons (a : Bytes × Bytes) (as : List (Bytes × Bytes)) (R : Bytes) :
    (a :: as).flatMap flatAttr ++ R = 0x20 :: (a.1 ++ 0x3D :: 0x22 :: (a.2 ++ 0x22 :: (as.flatMap flatAttr ++ R))) := by
  simp [flatAttr, SP]

theorem parseAttrs_ok (attrs : List (Bytes × Bytes)) (h : attrs.all attrOK = true) (F : Bytes) :
    ∀ fuel, attrs.length + 1 ≤ fuel → parseAttrs fuel (attrs.flatMap flatAttr ++ 0x3E :: F) = some F := by
  induction attrs with
  | nil =>
    intro fuel hf
    cases fuel with
    | zero => omega
    | succ f => rw [parseAttrs.eq_def]; simp only [List.flatMap_nil, List.nil_append]
  | cons a as ih =>
    intro fuel hf
    cases fuel with
    | zero => omega
    | succ f =>
      simp only [List.all_cons, Bool.and_eq_true] at h
      obtain ⟨ha, has⟩ := h
      simp only [attrOK, Bool.and_eq_true, List.contains_iff_mem] at ha
      have hname := attrs_nameChars a.1 ha.1
      have hq := safe_noQuote a.2 ha.2
      have hd := dataOK_of_safeData a.2 ha.2
      have ih' := ih has f (by simp only [List.length_cons] at hf; omega)
      rw [flatAttrs_cons]
      have htw1 : (a.1 ++ 0x3D :: 0x22 :: (a.2 ++ 0x22 :: (as.flatMap flatAttr ++ 0x3E :: F))).takeWhile isNameChar = a.1 :=
        takeWhile_append_stop isNameChar _ _ _ hname nameChar_eq
      have htw2 : (a.2 ++ 0x22 :: (as.flatMap flatAttr ++ 0x3E :: F)).takeWhile (· != 0x22) = a.2 :=
        takeWhile_append_stop (· != 0x22) _ _ _ hq (by decide)
      have hc : rendererAttrs.contains a.1 = true := by simpa using ha.1
      rw [parseAttrs.eq_def]
      simp only [htw1, List.drop_left, htw2, hc, hd, Bool.and_self, if_true]
      exact ih'

theorem flatAttrs_length (attrs : List (Bytes × Bytes)) : attrs.length ≤ (attrs.flatMap flatAttr).length := by
  induction attrs with
  | nil => simp
  | cons a as ih =>
    have h1 : 1 ≤ (flatAttr a).length := by simp [flatAttr]
    simp only [List.flatMap_cons, List.length_append, List.length_cons]; omega

/-! ### single steps of the recogniser -/

/-- A non-empty text run in `T` in front of a tag or the end is consumed in one step. -/
theorem text_step (T : Bytes → Bool) (hT : TextClass T) (f : Nat) (pre X : Bytes) (st : List Bytes)
    (hne : pre ≠ []) (hpre : T pre = true) (hX : X = [] ∨ ∃ Y, X = 0x3C :: Y) :
    htmlLangG T (f + 1) (pre ++ X) st = htmlLangG T f X st := by
  have hno := hT.noLt pre hpre
  cases pre with
  | nil => exact absurd rfl hne
  | cons c p' =>
    have hc : c ≠ 0x3C := by
      simp only [List.all_cons, Bool.and_eq_true] at hno
      simpa using hno.1
    have htw : ((c :: p') ++ X).takeWhile (· != 0x3C) = c :: p' := by
      rcases hX with rfl | ⟨Y, rfl⟩
      · simpa using takeWhile_all (· != 0x3C) (c :: p') hno
      · exact takeWhile_append_stop (· != 0x3C) (c :: p') 0x3C Y hno (by decide)
    have hd : ((c :: p') ++ X).drop (c :: p').length = X := List.drop_left
    rw [htmlLangG.eq_def]
    simp only [List.cons_append] at htw hd ⊢
    split
    · rename_i heq; cases heq
    · rename_i heq; simp only [List.cons.injEq] at heq; exact absurd heq.1 hc
    · rename_i heq; simp only [List.cons.injEq] at heq; exact absurd heq.1 hc
    · simp only [htw, hpre, Bool.true_and, hd]

/-- A start tag `<name attrs>`. -/
theorem stag_step (T : Bytes → Bool) (f : Nat) (n : Bytes) (attrs : List (Bytes × Bytes)) (F : Bytes) (st : List Bytes)
    (hn : n ∈ rendererElements) (ha : attrs.all attrOK = true) :
    htmlLangG T (f + 1) (0x3C :: (n ++ attrs.flatMap flatAttr ++ 0x3E :: F)) st =
      htmlLangG T f F (if isVoidOut n then st else n :: st) := by
  obtain ⟨hchars, hhead, hne⟩ := elements_nameChars n hn
  have hstop : ∃ c R, attrs.flatMap flatAttr ++ 0x3E :: F = c :: R ∧ isNameChar c = false := by
    cases attrs with
    | nil => exact ⟨0x3E, F, rfl, nameChar_gt⟩
    | cons a as =>
      exact ⟨0x20, a.1 ++ 0x3D :: 0x22 :: (a.2 ++ 0x22 :: (as.flatMap flatAttr ++ 0x3E :: F)),
        flatAttrs_cons a as _, nameChar_sp⟩
  obtain ⟨c, R, hR, hcn⟩ := hstop
  have htw : (n ++ attrs.flatMap flatAttr ++ 0x3E :: F).takeWhile isNameChar = n := by
    rw [List.append_assoc, hR]; exact takeWhile_append_stop isNameChar _ _ _ hchars hcn
  have hdrop : (n ++ attrs.flatMap flatAttr ++ 0x3E :: F).drop n.length = attrs.flatMap flatAttr ++ 0x3E :: F := by
    rw [List.append_assoc]; exact List.drop_left
  have hpa := parseAttrs_ok attrs ha F ((n ++ attrs.flatMap flatAttr ++ 0x3E :: F).length + 1) (by
    have := flatAttrs_length attrs
    simp only [List.length_append, List.length_cons]; omega)
  have hc : rendererElements.contains n = true := by simpa using hn
  cases n with
  | nil => exact absurd rfl hne
  | cons x xs =>
    have hx : x ≠ 0x2F := by simpa using hhead
    rw [htmlLangG.eq_def]
    simp only [List.cons_append] at htw hdrop hpa ⊢
    split
    · rename_i heq; cases heq
    · rename_i heq
      simp only [List.cons.injEq] at heq
      exact absurd heq.2.1 hx
    · rename_i rest _ heq
      simp only [List.cons.injEq, true_and] at heq
      subst heq
      simp only [htw, hc, Bool.true_or, Bool.not_true, Bool.false_eq_true, if_false, hdrop, hpa]
    · rename_i h1 h2 h3
      exact absurd rfl (h3 _)

/-- An end tag `</name>` matching the innermost open element. -/
theorem etag_step (T : Bytes → Bool) (f : Nat) (n : Bytes) (F : Bytes) (st : List Bytes)
    (hn : n ∈ rendererElements) :
    htmlLangG T (f + 1) (0x3C :: 0x2F :: (n ++ 0x3E :: F)) (n :: st) = htmlLangG T f F st := by
  obtain ⟨hchars, _, _⟩ := elements_nameChars n hn
  have htw : (n ++ 0x3E :: F).takeWhile isNameChar = n := takeWhile_append_stop isNameChar _ _ _ hchars nameChar_gt
  have hdrop : (n ++ 0x3E :: F).drop n.length = 0x3E :: F := List.drop_left
  rw [htmlLangG.eq_def]
  simp only [htw, hdrop, beq_self_eq_true, Bool.true_and]

/-! ### the main induction -/

theorem nest_some_nil_nil {st : List Bytes} (h : nest [] st = some []) : st = [] := by
  simpa [nest] using h

/-- Bring a pending text run `pre` in front of a tag: it costs one step. -/
theorem flush (T : Bytes → Bool) (hT : TextClass T) (pre Y : Bytes) (st : List Bytes) (hpre : T pre = true)
    (h : ∀ fuel, (0x3C :: Y).length + 1 ≤ fuel → htmlLangG T fuel (0x3C :: Y) st = true) :
    ∀ fuel, (pre ++ 0x3C :: Y).length + 1 ≤ fuel → htmlLangG T fuel (pre ++ 0x3C :: Y) st = true := by
  intro fuel hf
  by_cases hne : pre = []
  · subst hne; exact h fuel (by simpa using hf)
  · cases fuel with
    | zero => omega
    | succ f =>
      rw [text_step T hT f pre _ st hne hpre (Or.inr ⟨Y, rfl⟩)]
      apply h
      have : 0 < pre.length := List.length_pos_iff.mpr hne
      simp only [List.length_append] at hf
      omega

theorem langG_sound_aux (T : Bytes → Bool) (hT : TextClass T) (ts : List Tok) (hok : ts.all (tokG T) = true) :
    ∀ (pre : Bytes) (st : List Bytes), T pre = true → nest ts st = some [] →
      ∀ fuel, (pre ++ flatPlain ts).length + 1 ≤ fuel → htmlLangG T fuel (pre ++ flatPlain ts) st = true := by
  induction ts with
  | nil =>
    intro pre st hpre hn fuel hf
    have hst := nest_some_nil_nil hn
    subst hst
    simp only [flatPlain, List.flatMap_nil, List.append_nil] at hf ⊢
    by_cases hne : pre = []
    · subst hne
      cases fuel with
      | zero => omega
      | succ f => simp [htmlLangG]
    · cases fuel with
      | zero => omega
      | succ f =>
        have := text_step T hT f pre [] [] hne hpre (Or.inl rfl)
        rw [List.append_nil] at this
        rw [this]
        have : 0 < pre.length := List.length_pos_iff.mpr hne
        cases f with
        | zero => omega
        | succ g => simp [htmlLangG]
  | cons t ts ih =>
    simp only [List.all_cons, Bool.and_eq_true] at hok
    obtain ⟨ht, hts⟩ := hok
    have ih := ih hts
    intro pre st hpre hn fuel hf
    have hflat : flatPlain (t :: ts) = plainTok t ++ flatPlain ts := by simp [flatPlain]
    cases t with
    | text b =>
      simp only [nest] at hn
      simp only [hflat, plainTok, ← List.append_assoc] at hf ⊢
      exact ih (pre ++ b) st (hT.app _ _ hpre ht) hn fuel hf
    | cref b =>
      simp only [nest] at hn
      simp only [hflat, plainTok, ← List.append_assoc] at hf ⊢
      exact ih (pre ++ b) st (hT.app _ _ hpre (hT.cref b ht)) hn fuel hf
    | raw b =>
      have hb : b = [] := by simpa [tokG] using ht
      subst hb
      simp only [nest] at hn
      simp only [hflat, plainTok, List.nil_append] at hf ⊢
      exact ih pre st hpre hn fuel hf
    | stag n attrs =>
      simp only [tokG, Bool.and_eq_true, List.contains_iff_mem, bne_iff_ne, ne_eq] at ht
      obtain ⟨⟨hmem, hbr⟩, hattrs⟩ := ht
      have hvoid := elements_voidOut n hmem hbr
      have hn' : nest ts (if isVoidOut n then st else n :: st) = some [] := by
        simp only [nest] at hn
        rw [hvoid]
        split at hn <;> simp_all
      have hbytes : pre ++ flatPlain (.stag n attrs :: ts) =
          pre ++ 0x3C :: (n ++ attrs.flatMap flatAttr ++ 0x3E :: flatPlain ts) := by
        simp [hflat, plainTok]
      rw [hbytes] at hf ⊢
      refine flush T hT pre _ st hpre ?_ fuel hf
      intro fuel' hf'
      cases fuel' with
      | zero => omega
      | succ f =>
        rw [stag_step T f n attrs (flatPlain ts) st hmem hattrs]
        have := ih [] _ hT.nil hn' f (by
          simp only [List.length_cons, List.length_append, List.nil_append] at hf' ⊢; omega)
        simpa using this
    | etag n =>
      simp only [tokG, List.contains_iff_mem] at ht
      have hmem : n ∈ rendererElements := by simpa using ht
      cases st with
      | nil => simp [nest] at hn
      | cons m st' =>
        simp only [nest] at hn
        split at hn
        · rename_i hm
          have hm' : m = n := by simpa using hm
          subst hm'
          have hbytes : pre ++ flatPlain (.etag m :: ts) = pre ++ 0x3C :: (0x2F :: (m ++ 0x3E :: flatPlain ts)) := by
            simp [hflat, plainTok]
          rw [hbytes] at hf ⊢
          refine flush T hT pre _ (m :: st') hpre ?_ fuel hf
          intro fuel' hf'
          cases fuel' with
          | zero => omega
          | succ f =>
            rw [etag_step T f m (flatPlain ts) st' hmem]
            have := ih [] st' hT.nil hn f (by
              simp only [List.length_cons, List.length_append, List.nil_append] at hf' ⊢; omega)
            simpa using this
        · simp at hn
    | br =>
      simp only [nest] at hn
      have hbrmem : str "br" ∈ rendererElements := by decide +kernel
      have hvo : isVoidOut (str "br") = true := by decide +kernel
      have hbytes : pre ++ flatPlain (.br :: ts) =
          pre ++ 0x3C :: (str "br" ++ ([] : List (Bytes × Bytes)).flatMap flatAttr ++ 0x3E :: ([LF] ++ flatPlain ts)) := by
        simp [hflat, plainTok, str_br]
      rw [hbytes] at hf ⊢
      refine flush T hT pre _ st hpre ?_ fuel hf
      intro fuel' hf'
      cases fuel' with
      | zero => omega
      | succ f =>
        rw [stag_step T f (str "br") [] ([LF] ++ flatPlain ts) st hbrmem rfl]
        simp only [hvo, if_true]
        exact ih [LF] st hT.lf hn f (by
          simp only [List.length_cons, List.length_append, List.flatMap_nil, List.length_nil] at hf' ⊢; omega)

/-- Soundness of the recogniser. -/
theorem langG_sound (T : Bytes → Bool) (hT : TextClass T) (ts : List Tok) (hok : ts.all (tokG T) = true)
    (hwn : wellNested ts = true) : htmlLangG T ((flatPlain ts).length + 1) (flatPlain ts) [] = true := by
  have hn : nest ts [] = some [] := by simpa [wellNested] using hwn
  have := langG_sound_aux T hT ts hok [] [] hT.nil hn ((flatPlain ts).length + 1) (by simp)
  simpa using this

end CM.Proofs.RenderWF
