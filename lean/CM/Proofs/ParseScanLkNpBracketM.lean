import CM.Proofs.InlNpBracketM
import CM.Proofs.ParseScanLkNpBracketR

/-
C04, inline half, with `LinkScan2` / `TokScan2` — `parseEndBracket` does not panic.
(Generated from `InlNpBracketM.lean`: the same proofs with `LinkScan2` in the place of `LinkScan`.)
-/

namespace CM.Proofs.InlH2
open CM CM.Model CM.Model.Inl CM.Gen CM.Spec CM.Proofs CM.Proofs.InlH
open Std.Do

set_option mvcgen.warning false

theorem parseEndBracket'_np0 (L : Lims) (c : ICtx) (hc : c.unparsed = c.unparsedL.toArray) (hS : LinkScan2 c L.hi)
    (hA : L.hi ≤ c.srcA.size) (start : Int) (s0 : IState) :
    ⦃fun s => ⌜s = s0 ∧ SPT L.lo L.hi start s ∧ s0.unparsedPos < c.unparsed.size ∧ start < spanEndOf c s0 ∧
        spanEndOf c s0 ≤ L.hi⌝⦄
    parseEndBracket' c start
    ⦃⇓! _ _ => ⌜True⌝⦄ := by
  mvcgen [parseEndBracket', spanEnd, getNode, modifyNode, appendFinished, alloc, setUnparsedPos, 
    -appendFinished_spec, -appendFinished_specS, -finishLink_spec, -finishLink_specS, -finishLink_specP, 
    -wrap_exact', -addLeaf_np, -addLeaf_specP, -lookForLinkOrImage_specP, -CM.Proofs.InlH2.refPart_specP, 
    -parseInlineLink_specP, -CM.Proofs.InlH.refPart_specP, -CM.Proofs.InlH.parseEndBracket_specP, 
    -CM.Proofs.InlH.tokC_specP, -CM.Proofs.InlH.tokA_specP, -CM.Proofs.InlH.tokCode_specP, 
    -CM.Proofs.InlH.tokLt_specP, -CM.Proofs.InlH.runBody_specP, -CM.Proofs.InlH.refPart_np, 
    -CM.Proofs.InlH.parseEndBracket_np]
  all_goals (try trivial)
  all_goals (try (exact fun h => h))
  all_goals (try (exact ExceptConds.entails.refl _))
  all_goals (try (intros; assumption))
  -- the opener is on the stack
  all_goals (try (
    have hnone := ‹∀ (opener : DelimE), _ = some opener → False›
    obtain ⟨hs0, hsp, hu, hlt, hhi⟩ := ‹_ = _ ∧ SPT _ _ _ _ ∧ _›
    have hx := ‹(_ : Array DelimE)[_]? = _›
    rcases ‹(_ ∧ _ ∧ _ = _) ∨ _› with ⟨h0, hodi, hs1⟩ | ⟨hm1, -⟩
    · subst hs1
      exact hnone _ (by rw [← hx]; exact Array.getElem?_eq_getElem hodi)
    · omega))
  all_goals eb_found
  -- the byte behind `]`, `unparsedFrom`, `parseInlineLink`
  all_goals (try (refine ⟨trivial, fun h => ⟨by omega, by omega⟩⟩))
  all_goals (try (exact ⟨trivial, by omega⟩))
  -- the preconditions of `refPart`
  all_goals (try (
    try eb_inl_inv
    exact ⟨trivial, hsp, hodi, hx, hu, hlt, hhi⟩))
  all_goals eb_inline
  -- the preconditions of `wrap`
  all_goals (try (first
    | exact (link_wrap_pre' hsp hsame hodi hx).1
    | exact (link_wrap_pre' hsp hsame hodi hx).2.1
    | exact (link_wrap_pre' hsp hsame hodi hx).2.2.1
    | exact (link_wrap_pre' hsp hsame hodi hx).2.2.2))
  -- the precondition of `refPart` after an unsuccessful `parseInlineLink`
  all_goals (try (
    have hs := hinv ‹_›
    subst hs
    exact ⟨trivial, hsp, hodi, hx, hu, hlt, hhi⟩))
  -- the four forms of an inline link: the precondition of `finishLink`
  all_goals (
    have hvalid := ‹(InlineLinkInfo.span _).isValid = true›
    obtain ⟨gse, g0, g1, g2⟩ := ‹_ < spanEndOf c _ ∧ (0 : Int) ≤ _ ∧ _ < (c.srcA.size : Int) ∧ _ = (40 : UInt8)›
    obtain ⟨i1, i2, idest, ititle⟩ := hS.inline _ _ _ _ g0 g1 g2 hu gse hrun hvalid
    obtain ⟨hL0, hu1⟩ := LinkInv.wrap' hsp hsame hodi hx ‹_ = _ ∧ _ = wrapNodes _ _ _ _ _ _ _ _ ∧ _›
    first
    | (have hdv := ‹(InlineLinkInfo.destination _).span.isValid = true›
       have htv := ‹(InlineLinkInfo.title _).span.isValid = true›
       obtain ⟨d1, d2, d3, d4⟩ := idest hdv
       obtain ⟨t1S, t2, t3, t4, t5⟩ := ititle htv
       have t2' := t2 hdv
       refine ⟨trivial, _, _, _, _, _, _, (((hL0.respan _ ?_ ?_ (fun r => r)).appendKid _ rfl ?_ ?_ ?_ ?_).appendKid _ rfl
         ?_ ?_ ?_ ?_)⟩
       all_goals first
         | omega | (dsimp only; omega) | exact d4 | exact t5)
    | (have hdv := ‹(InlineLinkInfo.destination _).span.isValid = true›
       obtain ⟨d1, d2, d3, d4⟩ := idest hdv
       refine ⟨trivial, _, _, _, _, _, _, ((hL0.respan _ ?_ ?_ (fun r => r)).appendKid _ rfl ?_ ?_ ?_ ?_)⟩
       all_goals first
         | omega | (dsimp only; omega) | exact d4)
    | (have htv := ‹(InlineLinkInfo.title _).span.isValid = true›
       obtain ⟨t1S, t2, t3, t4, t5⟩ := ititle htv
       refine ⟨trivial, _, _, _, _, _, _, ((hL0.respan _ ?_ ?_ (fun r => r)).appendKid _ rfl ?_ ?_ ?_ ?_)⟩
       all_goals first
         | omega | (dsimp only; omega) | exact t5)
    | (refine ⟨trivial, _, _, _, _, _, _, (hL0.respan _ ?_ ?_ (fun r => r))⟩
       all_goals omega))

theorem parseEndBracket'_np (L : Lims) (c : ICtx) (hc : c.unparsed = c.unparsedL.toArray) (hS : LinkScan2 c L.hi)
    (hA : L.hi ≤ c.srcA.size) (start : Int) (s0 : IState) :
    ⦃fun s => ⌜s = s0 ∧ SPT L.lo L.hi start s ∧ s0.unparsedPos < c.unparsed.size ∧ start < spanEndOf c s0 ∧
        spanEndOf c s0 ≤ L.hi⌝⦄
    parseEndBracket' c start
    ⦃⇓! r s => ⌜SPT L.lo L.hi r s ∧ start < r ∧ PosOK c s r⌝⦄ :=
  np_of_post (parseEndBracket'_np0 L c hc hS hA start s0) (parseEndBracket'_specP L c hc hS start s0)

/-- **`parseEndBracket` does not panic** (and keeps the span invariant). -/
@[spec 31000]
theorem parseEndBracket_np (L : Lims) (c : ICtx) (hc : c.unparsed = c.unparsedL.toArray) (hS : LinkScan2 c L.hi)
    (hA : L.hi ≤ c.srcA.size) (start : Int) (s0 : IState) :
    ⦃fun s => ⌜s = s0 ∧ SPT L.lo L.hi start s ∧ s0.unparsedPos < c.unparsed.size ∧ start < spanEndOf c s0 ∧
        spanEndOf c s0 ≤ L.hi⌝⦄
    parseEndBracket c start
    ⦃⇓! r s => ⌜SPT L.lo L.hi r s ∧ start < r ∧ PosOK c s r⌝⦄ := by
  rw [parseEndBracket_eq]
  exact parseEndBracket'_np L c hc hS hA start s0

end CM.Proofs.InlH2
