import CM.Proofs.StreamRun
/-
C08: streaming parse = in-memory parse under ANY read schedule and any reader fault, for every line parser.
Main theorems (see the end of the file for the summary of what is proved and under which hypotheses).
-/
namespace CM.Proofs
open CM CM.Model CM.Gen

/-- What a client of `drain` sees: the roots delivered (all fields) and the final outcome. -/
def observe (r : List Root × NBOut × BP) : List Root × NBOut := (r.1, r.2.1)

/-- The input is small enough for the block-size limit never to trigger (`tooLarge` unreachable):
    the padded input plus 3 bytes fits in `maxBlockSize`. -/
def Small (x : Bytes) : Prop := (padNulls x 0).length + 3 ≤ Model.maxBlockSize

instance (x : Bytes) : Decidable (Small x) := by unfold Small; infer_instance

theorem small_of_length {x : Bytes} (h : 3 * x.length + 3 ≤ Model.maxBlockSize) : Small x := by
  have := padNulls_length_le x
  unfold Small; omega

theorem sim_init (x : Bytes) (sched : List Nat) (eofWith : Bool) (fin : RErr) (h : Small x) :
    Sim fin (newBlockParser { data := x, sched := sched, eofWith := eofWith, fin := fin }) (memParser x) := by
  refine ⟨?_, rfl, rfl, rfl, rfl, rfl, rfl, rfl, Or.inl rfl, Nat.le_refl _, h⟩
  show padNulls x 0 = [] ++ padNulls x 0
  rfl

theorem blocksOK_init (x : Bytes) : BlocksOK (memParser x) := by
  intro k hk; cases hk

section
variable {L : LineParserI} (W : LPWell L)
include W

/-- Streaming parse vs. in-memory parse, any final reader error: same roots, corresponding outcomes. -/
theorem stream_run (x : Bytes) (sched : List Nat) (eofWith : Bool) (fin : RErr) (hsmall : Small x) (f : Nat) :
    ∃ rs os ps' om pm',
      drain L f (newBlockParser { data := x, sched := sched, eofWith := eofWith, fin := fin }) [] = (rs, os, ps') ∧
      drain L f (memParser x) [] = (rs, om, pm') ∧ FRel fin os om :=
  drain_sim W fin f _ _ [] (sim_init x sched eofWith fin hsmall) rfl (blocksOK_init x)

/-- (A), same fuel. -/
theorem stream_eq_mem_partial (x : Bytes) (sched : List Nat) (eofWith : Bool) (hsmall : Small x) (f : Nat) :
    observe (drain L f (newBlockParser { data := x, sched := sched, eofWith := eofWith, fin := .eof }) []) =
    observe (drain L f (memParser x) []) := by
  obtain ⟨rs, os, ps', om, pm', h1, h2, h3⟩ := stream_run W x sched eofWith .eof hsmall f
  rw [h1, h2]
  cases h3 <;> rfl

/-- (A), any two fuels at which the in-memory `drain` ends. -/
theorem stream_eq_mem_fuels (x : Bytes) (sched : List Nat) (eofWith : Bool) (hsmall : Small x) (fuelS fuelM f : Nat)
    (hf : drainEnds L f (memParser x) = true) (hS : f ≤ fuelS) (hM : f ≤ fuelM) :
    observe (drain L fuelS (newBlockParser { data := x, sched := sched, eofWith := eofWith, fin := .eof }) []) =
    observe (drain L fuelM (memParser x) []) := by
  have hs := drainEnds_sim W .eof f _ _ (sim_init x sched eofWith .eof hsmall) rfl (blocksOK_init x)
  rw [hf] at hs
  rw [drain_more_fuel L f _ [] hs fuelS hS, drain_more_fuel L f _ [] hf fuelM hM]
  exact stream_eq_mem_partial W x sched eofWith hsmall f

/-- (B) The reader fails with `code` after delivering `x`: same roots as the in-memory parse of `x`; the
    in-memory outcome is end of input exactly when the streaming outcome is the reader's error; panics of the
    line parser are the same. -/
theorem stream_fault (x : Bytes) (sched : List Nat) (eofWith : Bool) (code : Nat) (hsmall : Small x) (f : Nat) :
    (observe (drain L f (newBlockParser { data := x, sched := sched, eofWith := eofWith, fin := .fail code }) [])).1 =
      (observe (drain L f (memParser x) [])).1 ∧
    ((∃ m, (observe (drain L f (newBlockParser { data := x, sched := sched, eofWith := eofWith, fin := .fail code }) [])).2 = .panic m ∧
        (observe (drain L f (memParser x) [])).2 = .panic m) ∨
     ((observe (drain L f (newBlockParser { data := x, sched := sched, eofWith := eofWith, fin := .fail code }) [])).2 = .err (.reader code) ∧
        (observe (drain L f (memParser x) [])).2 = .err .eof)) := by
  obtain ⟨rs, os, ps', om, pm', h1, h2, h3⟩ := stream_run W x sched eofWith (.fail code) hsmall f
  rw [h1, h2]
  refine ⟨rfl, ?_⟩
  cases h3 with
  | err => right; exact ⟨rfl, rfl⟩
  | panic m => left; exact ⟨m, rfl, rfl⟩
end

/-- The simplest way to get `LPWell`: the properties hold for all states. -/
def LPWell.ofForall (L : LineParserI)
    (eof : ∀ s src ls, src.length ≤ ls →
      (∃ m, L.panicked (L.line s src ls) = some m) ∨ ∃ k rest, L.kids (L.line s src ls) = k :: rest ∧ k.isOpen = false)
    (ends : ∀ s src ls, ∀ k ∈ L.kids (L.line s src ls), k.isOpen = false → k.label.stop.toNat ≤ src.length) :
    LPWell L where
  I := fun _ => True
  new_pending := fun _ _ => trivial
  step := fun _ _ _ _ => trivial
  eof := fun s src ls _ h => eof s src ls h
  ends := fun s src ls _ => ends s src ls

/-! ### A tiny concrete line parser -/

/-- A tiny paragraph parser: consecutive non-blank lines form one block, closed by a blank line or the end of input. -/
def paraLP : LineParserI where
  σ := Int
  new _ := -1
  line _ src ls := if isBlankLine (src.drop ls) then ((min ls src.length : Nat) : Int) else -1
  kids s := [PB.mk { kind := 1, start := 0, stop := s } [] []]
  panicked _ := none

def paraWell : LPWell paraLP :=
  LPWell.ofForall paraLP
    (by
      intro s src ls h
      right
      refine ⟨_, [], rfl, ?_⟩
      have : src.drop ls = [] := List.drop_eq_nil_of_le h
      simp [paraLP, PB.isOpen, PB.label, this, isBlankLine])
    (by
      intro s src ls k hk hc
      have hk' : k = PB.mk { kind := 1, start := 0, stop := paraLP.line s src ls } [] [] := by
        simpa [paraLP] using hk
      subst hk'
      simp only [PB.isOpen, PB.label, paraLP] at hc ⊢
      split at hc
      · rename_i hb; rw [if_pos hb]; simp; omega
      · simp at hc)

/-- The error an outcome reports, if it is one. -/
def errOf : NBOut → Option PErr
  | .err e => some e
  | _ => none

/-- (C) in decidable form. -/
theorem err_persistent' (L : LineParserI) (f : Nat) (p0 : BP) (acc : List Root) (e : PErr)
    (h : errOf (drain L f p0 acc).2.1 = some e) : ∀ n, (callN L n (drain L f p0 acc).2.2).1 = .err e := by
  rcases hd : drain L f p0 acc with ⟨rs, o, p⟩
  rw [hd] at h
  cases o with
  | err e' =>
    simp only [errOf, Option.some.injEq] at h
    subst h
    exact err_persistent L hd
  | block r => simp [errOf] at h
  | panic m => simp [errOf] at h

/-! ### Non-vacuity: a concrete run -/

/-- Projection of a run onto decidable data: per root (source, start line, start offset, end offset); the error;
    the panic message. -/
def summary (r : List Root × NBOut × BP) : List (Bytes × Nat × Nat × Nat) × Option PErr × Option String :=
  (r.1.map fun r => (r.source, r.startLine, r.startOffset, r.endOffset),
   (match r.2.1 with | .err e => some e | _ => none), (match r.2.1 with | .panic e => some e | _ => none))

/-- `a CRLF b CRLF CRLF NUL c CR CR d` -/
def demoInput : Bytes := [97, 13, 10, 98, 13, 10, 13, 10, 0, 99, 13, 13, 100]

/-- Reads of 2 bytes (splitting the first CRLF), 0 bytes (an empty read), 1, 3, 1, 1 bytes, then whatever is asked;
    the end of input is reported together with the last bytes. -/
def demoReader (fin : RErr) : Reader := { data := demoInput, sched := [2, 0, 1, 3, 1, 1], eofWith := true, fin := fin }

example : Small demoInput := by decide +kernel
example : drainEnds paraLP 10 (memParser demoInput) = true := by decide +kernel

example : summary (drain paraLP 10 (memParser demoInput) []) =
    ([([97, 13, 10, 98, 13, 10], 1, 0, 6), ([239, 191, 189, 99, 13], 4, 8, 11), ([100], 6, 12, 13)],
     some .eof, none) := by decide +kernel

example : summary (drain paraLP 10 (newBlockParser (demoReader .eof)) []) =
    ([([97, 13, 10, 98, 13, 10], 1, 0, 6), ([239, 191, 189, 99, 13], 4, 8, 11), ([100], 6, 12, 13)],
     some .eof, none) := by decide +kernel

example : summary (drain paraLP 10 (newBlockParser (demoReader (.fail 7))) []) =
    ([([97, 13, 10, 98, 13, 10], 1, 0, 6), ([239, 191, 189, 99, 13], 4, 8, 11), ([100], 6, 12, 13)],
     some (.reader 7), none) := by decide +kernel

/-- The theorem applies to the demo (all hypotheses satisfiable), for all 3 fuels ≥ 4. -/
example : observe (drain paraLP 12 (newBlockParser (demoReader .eof)) []) = observe (drain paraLP 4 (memParser demoInput) []) :=
  stream_eq_mem_fuels paraWell demoInput _ true (by decide +kernel) 12 4 4 (by decide +kernel) (by decide) (by decide)

example : ∀ n, (callN paraLP n (drain paraLP 10 (newBlockParser (demoReader (.fail 7))) []).2.2).1 = .err (.reader 7) :=
  err_persistent' paraLP 10 _ [] _ (by decide +kernel)

/-! ### The statement for EVERY line parser is false (two independent reasons), hence the hypotheses `LPWell` -/

/-- (A) as asked: for every line parser. -/
def stream_eq_mem_target : Prop :=
  ∀ (L : LineParserI) (x : Bytes) (sched : List Nat) (eofWith : Bool), Small x → ∀ f : Nat,
    observe (drain L f (newBlockParser { data := x, sched := sched, eofWith := eofWith, fin := .eof }) []) =
    observe (drain L f (memParser x) [])

/-- A line parser that closes its block (with an empty span) only at its `n`-th line: it does not close at the end
    of input (`LPWell.eof` fails), so the per-line loop of `NextBlock` runs until the model's fuel `bpFuel` is
    exhausted -- and `bpFuel` differs between the streaming parser (unread bytes counted unpadded) and the
    in-memory parser (padded). An artefact of the model's fuel: the Go loop has no bound. -/
def slowLP (n : Nat) : LineParserI where
  σ := Nat
  new _ := 0
  line s _ _ := s + 1
  kids s := [PB.mk { kind := 1, start := 0, stop := if s ≥ n then 0 else -1 } [] []]
  panicked _ := none

/-- Input: one NUL byte. In memory: fuel 7, the block closes at the 6th line. Streaming: fuel 5, fuel panic. -/
example : summary (drain (slowLP 6) 5 (memParser [0]) []) = ([([], 1, 0, 0)], some .eof, none) := by decide +kernel
example : summary (drain (slowLP 6) 5 (newBlockParser { data := [0] }) []) = ([], none, some "parseLines: fuel") := by
  decide +kernel

/-- A line parser whose block always ends at offset 3, whatever it has been given (`LPWell.ends` fails): the block
    ends beyond the bytes the streaming parser has read so far, so the two `Source`s differ (in Go: `p.buf[:n]`
    beyond `len(p.buf)`, a panic or stale bytes). Both runs record the panic site `makeRoot: block ends beyond the
    parse position`. -/
def longLP : LineParserI where
  σ := Unit
  new _ := ()
  line _ _ _ := ()
  kids _ := [PB.mk { kind := 1, start := 0, stop := 3 } [] []]
  panicked _ := none

example : summary (drain longLP 5 (memParser [97, 10, 98]) []) =
    ([([97, 10, 98], 1, 0, 3)], none, some "makeRoot: block ends beyond the parse position") := by decide +kernel
example : summary (drain longLP 5 (newBlockParser { data := [97, 10, 98], sched := [2] }) []) =
    ([([97, 10], 1, 0, 2), ([98], 2, 2, 3)], none, some "makeRoot: block ends beyond the parse position") := by
  decide +kernel

theorem stream_eq_mem_target_false : ¬ stream_eq_mem_target := by
  intro h
  have := h (slowLP 6) [0] [] false (by decide +kernel) 5
  have h2 : (observe (drain (slowLP 6) 5 (newBlockParser { data := [0], sched := [], eofWith := false, fin := .eof }) [])).1.length =
      (observe (drain (slowLP 6) 5 (memParser [0]) [])).1.length := by rw [this]
  revert h2
  decide +kernel

theorem stream_eq_mem_target_false' : ¬ stream_eq_mem_target := by
  intro h
  have := h longLP [97, 10, 98] [2] false (by decide +kernel) 5
  have h2 : (observe (drain longLP 5 (newBlockParser { data := [97, 10, 98], sched := [2], eofWith := false, fin := .eof }) [])).1.length =
      (observe (drain longLP 5 (memParser [97, 10, 98]) [])).1.length := by rw [this]
  revert h2
  decide +kernel

/-! ### Every line parser: the run-based form -/

/-- (A) for EVERY line parser `L`, under three decidable conditions on the two runs: the in-memory run reached no
    panic site of the stream machine (`panic = none` in its final state: no block ended beyond the parse position,
    no fuel panic of `readline`/`skipBlank`), and neither run ended with the fuel panic of the per-line loop. -/
theorem stream_eq_mem_run (L : LineParserI) (x : Bytes) (sched : List Nat) (eofWith : Bool) (hsmall : Small x) (f : Nat)
    (hM : (drain L f (memParser x) []).2.2.panic = none)
    (hfS : isFuelPanic (drain L f (newBlockParser { data := x, sched := sched, eofWith := eofWith, fin := .eof }) []).2.1 = false)
    (hfM : isFuelPanic (drain L f (memParser x) []).2.1 = false) :
    observe (drain L f (newBlockParser { data := x, sched := sched, eofWith := eofWith, fin := .eof }) []) =
    observe (drain L f (memParser x) []) := by
  obtain ⟨h1, h2⟩ := drain_run L .eof f _ _ [] (sim_init x sched eofWith .eof hsmall) rfl hM hfS hfM
  have key : ∀ (a b : List Root × NBOut × BP), a.1 = b.1 → FRel .eof a.2.1 b.2.1 → observe a = observe b := by
    intro ⟨a1, a2, a3⟩ ⟨b1, b2, b3⟩ e r
    simp only at e r
    subst e
    cases r <;> rfl
  exact key _ _ h1 h2

/-- (B) for EVERY line parser, run-based. -/
theorem stream_fault_run (L : LineParserI) (x : Bytes) (sched : List Nat) (eofWith : Bool) (code : Nat)
    (hsmall : Small x) (f : Nat)
    (hM : (drain L f (memParser x) []).2.2.panic = none)
    (hfS : isFuelPanic (drain L f (newBlockParser { data := x, sched := sched, eofWith := eofWith, fin := .fail code }) []).2.1 = false)
    (hfM : isFuelPanic (drain L f (memParser x) []).2.1 = false) :
    (drain L f (newBlockParser { data := x, sched := sched, eofWith := eofWith, fin := .fail code }) []).1 =
      (drain L f (memParser x) []).1 ∧
    FRel (.fail code) (drain L f (newBlockParser { data := x, sched := sched, eofWith := eofWith, fin := .fail code }) []).2.1
      (drain L f (memParser x) []).2.1 :=
  drain_run L (.fail code) f _ _ [] (sim_init x sched eofWith (.fail code) hsmall) rfl hM hfS hfM

example : summary (drain (slowLP 2) 6 (memParser [97, 10, 98, 10, 0]) []) =
    ([([], 1, 0, 0), ([], 3, 4, 4)], some .eof, none) := by decide +kernel
/-- The run-based theorem applies to a parser that is not `LPWell` (`slowLP 2` does not close at the end of input). -/
example : observe (drain (slowLP 2) 6 (newBlockParser { data := [97, 10, 98, 10, 0], sched := [1, 0, 2], eofWith := false }) []) =
    observe (drain (slowLP 2) 6 (memParser [97, 10, 98, 10, 0]) []) :=
  stream_eq_mem_run (slowLP 2) _ _ _ (by decide +kernel) 6 (by decide +kernel) (by decide +kernel) (by decide +kernel)

/-! ### (D) each block is delivered once, in order -/

/-- (D) The list of roots the streaming parser delivers IS the list the in-memory parser delivers (same length,
    same order, every field of every root equal), whatever the schedule and the reader's final error. -/
theorem stream_roots_eq {L : LineParserI} (W : LPWell L) (x : Bytes) (sched : List Nat) (eofWith : Bool) (fin : RErr)
    (hsmall : Small x) (f : Nat) :
    (drain L f (newBlockParser { data := x, sched := sched, eofWith := eofWith, fin := fin }) []).1 =
    (drain L f (memParser x) []).1 := by
  obtain ⟨rs, os, ps', om, pm', h1, h2, _⟩ := stream_run W x sched eofWith fin hsmall f
  rw [h1, h2]

/-- The streaming `drain` ends within fuel `f` iff the in-memory one does. -/
theorem stream_ends_iff {L : LineParserI} (W : LPWell L) (x : Bytes) (sched : List Nat) (eofWith : Bool) (fin : RErr)
    (hsmall : Small x) (f : Nat) :
    drainEnds L f (newBlockParser { data := x, sched := sched, eofWith := eofWith, fin := fin }) =
    drainEnds L f (memParser x) :=
  drainEnds_sim W fin f _ _ (sim_init x sched eofWith fin hsmall) rfl (blocksOK_init x)

/-- `tooLarge` is exactly what `Small` excludes: `readline` asks for more room only while the buffer is at most
    `maxBlockSize - 3` bytes long. -/
example : ∀ len, len + 3 ≤ Model.maxBlockSize → 0 < readReq len := fun _ h => readReq_pos h
example : readReq (Model.maxBlockSize - 2) = 0 := by decide +kernel

/-
Summary.
* `Sim fin ps pm` (StreamReadline.lean) is the simulation relation; `readline_sim` is the heart: `readline` on the
  streaming parser (any schedule, empty reads, CR at the end of the buffer, error with or after the last data) ends in
  the state related to the in-memory parser's, with the same Boolean, within the model's fuel `data + sched + 2`.
* (A) `stream_eq_mem_partial` / `stream_eq_mem_fuels` (hypothesis `LPWell L`), `stream_eq_mem_run` (every `L`, decidable
  conditions on the two runs); the unrestricted statement `stream_eq_mem_target` is false: `stream_eq_mem_target_false`
  (fuel artefact of the model) and `stream_eq_mem_target_false'` (a block ending beyond the bytes read).
* (B) `stream_fault`, `stream_fault_run`.  (C) `err_persistent` (StreamErr.lean; no hypothesis at all).
* (D) `stream_roots_eq`.  Fuel of `drain`: `drain_more_fuel`, `stream_ends_iff`.
-/

/-! ### The run-based theorem applied to the real block-phase line parser `blocksLP` -/

def demoExt : PExt := { ext := { unescape := id }, fold := id }

/-- `# h CRLF CRLF a NUL LF`, read as `# h CR` / empty read / `LF` / the rest, end of input with the last bytes. -/
example : observe (drain (blocksLP demoExt) 40
      (newBlockParser { data := [35, 32, 104, 13, 10, 13, 10, 97, 0, 10], sched := [4, 0, 1], eofWith := true }) []) =
    observe (drain (blocksLP demoExt) 40 (memParser [35, 32, 104, 13, 10, 13, 10, 97, 0, 10]) []) :=
  stream_eq_mem_run (blocksLP demoExt) _ _ _ (by decide +kernel) 40 (by decide +kernel) (by decide +kernel) (by decide +kernel)

example : summary (drain (blocksLP demoExt) 40
      (newBlockParser { data := [35, 32, 104, 13, 10, 13, 10, 97, 0, 10], sched := [4, 0, 1], eofWith := true }) []) =
    ([([35, 32, 104, 13, 10], 1, 0, 5), ([97, 239, 191, 189, 10], 3, 7, 10)], some .eof, none) := by decide +kernel

end CM.Proofs
