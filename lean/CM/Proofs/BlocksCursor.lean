import CM.Model.Blocks
import CM.Basic.Forall
/-
Cursor operations of the block-phase line parser (`CM.Model.LP`): `markMatched`, `updateTabRemaining`,
`advance`, `consumeIndent`, `consumeLine`, `indent`, `bytesAfterIndent`.

The cursor invariant `CurOK` (`i ≤ line.length`; at a TAB at least one column of the tab remains) is established
by `updateTabRemaining` and preserved by every cursor operation. Under it
  * `advance n` does not panic when `i + n ≤ line.length`,
  * `consumeIndent fuel p n` does not panic when `n ≤ p.indent` and `n < fuel`; the indentation decreases by exactly `n`,
    and `bytesAfterIndent` is unchanged (so the `fuel = 0` branch is never taken with `n ≠ 0`).
-/
namespace CM.Proofs.BT
open CM CM.Model CM.Gen

/-! ### columns -/

theorem columnEnd_ge : ∀ (l : Bytes) (col : Nat), col ≤ columnEnd col l := by
  intro l
  induction l with
  | nil => intro col; simp [columnEnd]
  | cons b rest ih =>
    intro col
    unfold columnEnd
    split
    · have := ih ((col + tabStopSize) / tabStopSize * tabStopSize)
      simp only [tabStopSize] at this ⊢
      omega
    · split
      · have := ih (col + 1); omega
      · exact ih col

theorem columnWidth_nil (col : Nat) : columnWidth col [] = 0 := by simp [columnWidth, columnEnd]

theorem columnEnd_cons_sp (col : Nat) (l : Bytes) : columnEnd col (SP :: l) = columnEnd (col + 1) l := by
  rw [columnEnd]
  rw [if_neg (by decide), if_pos (by decide)]

theorem columnEnd_cons_tab (col : Nat) (l : Bytes) : columnEnd col (TAB :: l) = columnEnd ((col + 4) / 4 * 4) l := by
  rw [columnEnd]
  rw [if_pos (by decide)]; rfl

theorem columnWidth_tab (col : Nat) : columnWidth col [TAB] = (col + 4) / 4 * 4 - col := by
  rw [columnWidth, columnEnd_cons_tab, columnEnd]

theorem columnWidth_tab_pos (col : Nat) : 1 ≤ columnWidth col [TAB] := by
  rw [columnWidth_tab]; omega

theorem columnWidth_cons_sp (col : Nat) (l : Bytes) : columnWidth col (SP :: l) = 1 + columnWidth (col + 1) l := by
  have h := columnEnd_ge l (col + 1)
  rw [columnWidth, columnWidth, columnEnd_cons_sp]
  omega

theorem columnWidth_cons_tab (col : Nat) (l : Bytes) :
    columnWidth col (TAB :: l) = columnWidth col [TAB] + columnWidth (col + columnWidth col [TAB]) l := by
  have h := columnEnd_ge l ((col + 4) / 4 * 4)
  rw [columnWidth_tab]
  have e : col + ((col + 4) / 4 * 4 - col) = (col + 4) / 4 * 4 := by omega
  rw [e, columnWidth, columnWidth, columnEnd_cons_tab]
  omega

/-- Column width of the leading spaces and tabs of `l`, starting at column `col`. -/
def wsWidth (col : Nat) (l : Bytes) : Nat := columnWidth col (l.take (indentLength l))

theorem wsWidth_nil (col : Nat) : wsWidth col [] = 0 := by simp [wsWidth, indentLength, columnWidth_nil]

theorem indentLength_sp (l : Bytes) : indentLength (SP :: l) = 1 + indentLength l := by
  rw [indentLength]; rw [if_neg (by decide)]
theorem indentLength_tab (l : Bytes) : indentLength (TAB :: l) = 1 + indentLength l := by
  rw [indentLength]; rw [if_neg (by decide)]
theorem indentLength_other (c : UInt8) (l : Bytes) (h1 : c ≠ SP) (h2 : c ≠ TAB) : indentLength (c :: l) = 0 := by
  rw [indentLength]; rw [if_pos (by simp [h1, h2])]

theorem wsWidth_sp (col : Nat) (l : Bytes) : wsWidth col (SP :: l) = 1 + wsWidth (col + 1) l := by
  rw [wsWidth, indentLength_sp, Nat.add_comm 1, List.take_succ_cons, columnWidth_cons_sp]; rfl

theorem wsWidth_tab (col : Nat) (l : Bytes) :
    wsWidth col (TAB :: l) = columnWidth col [TAB] + wsWidth (col + columnWidth col [TAB]) l := by
  rw [wsWidth, indentLength_tab, Nat.add_comm 1, List.take_succ_cons, columnWidth_cons_tab]; rfl

theorem wsWidth_other (col : Nat) (c : UInt8) (l : Bytes) (h1 : c ≠ SP) (h2 : c ≠ TAB) : wsWidth col (c :: l) = 0 := by
  rw [wsWidth, indentLength_other c l h1 h2]; exact columnWidth_nil col

/-! ### list helpers -/

theorem drop_cons_of_lt (l : Bytes) (i : Nat) (h : i < l.length) : l.drop i = l.getD i 0 :: l.drop (i + 1) := by
  rw [List.drop_eq_getElem_cons h]
  simp [List.getD_eq_getElem?_getD, h]

theorem indentLength_le (l : Bytes) : indentLength l ≤ l.length := by
  induction l with
  | nil => simp [indentLength]
  | cons b r ih => simp only [indentLength]; split <;> simp <;> omega

def isSpTabB (c : UInt8) : Bool := c == SP || c == TAB

theorem drop_indentLength (l : Bytes) : l.drop (indentLength l) = l.dropWhile (fun c => c == SP || c == TAB) := by
  induction l with
  | nil => simp [indentLength]
  | cons b r ih =>
    simp only [indentLength]
    by_cases h1 : b = SP
    · subst h1; simp [Nat.add_comm 1, ih]
    · by_cases h2 : b = TAB
      · subst h2; simp [Nat.add_comm 1, ih]
      · simp [h1, h2]

theorem dropWhile_length_add (l : Bytes) :
    (l.dropWhile (fun c => c == SP || c == TAB)).length + indentLength l = l.length := by
  rw [← drop_indentLength, List.length_drop]
  have := indentLength_le l
  omega

/-! ### the cursor -/

/-- The state after `markMatched`. -/
def mm (s : Nat) : Nat := if s == stateOpening then stateOpenMatched else s

theorem markMatched_eq (p : LP) : p.markMatched = { p with state := mm p.state } := by
  unfold LP.markMatched mm
  split <;> rfl

theorem mm_le (s : Nat) (h : s ≤ 2) : s ≤ mm s ∧ mm s ≤ 2 ∧ 1 ≤ mm s := by
  unfold mm; simp only [stateOpening, stateOpenMatched]
  by_cases h0 : s = 0
  · subst h0; simp
  · have : (s == 0) = false := by simp [h0]
    simp [this]; omega

theorem mm_three : mm 3 = 3 := by decide
theorem mm_four : mm 4 = 4 := by decide
theorem mm_mm (s : Nat) : mm (mm s) = mm s := by
  unfold mm; simp only [stateOpening, stateOpenMatched]
  by_cases h0 : s = 0
  · subst h0; simp
  · have : (s == 0) = false := by simp [h0]
    simp [this]

/-- The cursor invariant. -/
structure CurOK (p : LP) : Prop where
  hi : p.i ≤ p.line.length
  htab : p.i < p.line.length → p.line.getD p.i 0 = TAB → 1 ≤ p.tabRem

/-- The part of the state the tree operations leave alone. -/
def cur (p : LP) : Bytes × Nat × Nat × Nat := (p.line, p.i, p.col, p.tabRem)

/-- The part of the state the cursor operations leave alone. -/
def tree (p : LP) : Bytes × PB × Nat × Nat := (p.source, p.root, p.depth, p.lineStart)

theorem cur_line {p q : LP} (h : cur p = cur q) : p.line = q.line := by simp [cur] at h; exact h.1
theorem cur_i {p q : LP} (h : cur p = cur q) : p.i = q.i := by simp [cur] at h; exact h.2.1
theorem cur_col {p q : LP} (h : cur p = cur q) : p.col = q.col := by simp [cur] at h; exact h.2.2.1
theorem cur_tabRem {p q : LP} (h : cur p = cur q) : p.tabRem = q.tabRem := by simp [cur] at h; exact h.2.2.2

theorem CurOK.of_cur {p q : LP} (h : cur p = cur q) (hq : CurOK q) : CurOK p := by
  have h1 := cur_line h; have h2 := cur_i h; have h3 := cur_tabRem h
  exact ⟨by rw [h1, h2]; exact hq.hi, by rw [h1, h2, h3]; exact hq.htab⟩

theorem indent_of_cur {p q : LP} (h : cur p = cur q) : p.indent = q.indent := by
  have h1 := cur_line h; have h2 := cur_i h; have h3 := cur_tabRem h; have h4 := cur_col h
  simp only [LP.indent, h1, h2, h3, h4]

theorem bai_of_cur {p q : LP} (h : cur p = cur q) : p.bytesAfterIndent = q.bytesAfterIndent := by
  have h1 := cur_line h; have h2 := cur_i h
  simp only [LP.bytesAfterIndent, h1, h2]

theorem isRestBlank_of_cur {p q : LP} (h : cur p = cur q) : p.isRestBlank = q.isRestBlank := by
  have h1 := cur_line h; have h2 := cur_i h
  simp only [LP.isRestBlank, h1, h2]

theorem container_of_tree {p q : LP} (h : tree p = tree q) : p.container = q.container := by
  simp [tree] at h
  simp only [LP.container, h.2.1, h.2.2.1]

theorem containerKind_of_tree {p q : LP} (h : tree p = tree q) : p.containerKind = q.containerKind := by
  simp only [LP.containerKind, container_of_tree h]

/-! ### `indent` -/

theorem indent_of_ge (p : LP) (h : p.line.length ≤ p.i) : p.indent = 0 := by
  unfold LP.indent; rw [if_pos h]

theorem indent_sp (p : LP) (h : p.i < p.line.length) (hc : p.line.getD p.i 0 = SP) :
    p.indent = 1 + wsWidth (p.col + 1) (p.line.drop (p.i + 1)) := by
  unfold LP.indent
  rw [if_neg (by omega)]
  simp only [hc]
  rfl

theorem indent_tab (p : LP) (h : p.i < p.line.length) (hc : p.line.getD p.i 0 = TAB) :
    p.indent = p.tabRem + wsWidth (p.col + p.tabRem) (p.line.drop (p.i + 1)) := by
  unfold LP.indent
  rw [if_neg (by omega)]
  simp only [hc]
  rfl

theorem indent_other (p : LP) (h1 : p.line.getD p.i 0 ≠ SP) (h2 : p.line.getD p.i 0 ≠ TAB) : p.indent = 0 := by
  unfold LP.indent
  split
  · rfl
  · have e1 : (p.line.getD p.i 0 == SP) = false := by simpa using h1
    have e2 : (p.line.getD p.i 0 == TAB) = false := by simpa using h2
    simp only [e1, e2]
    rfl

/-- `indent` as a function of the column, the remaining tab width and the rest of the line. -/
def indentAt (col tabRem : Nat) : Bytes → Nat
  | [] => 0
  | c :: rest => if c = SP then 1 + wsWidth (col + 1) rest else if c = TAB then tabRem + wsWidth (col + tabRem) rest else 0

theorem indent_eq (p : LP) : p.indent = indentAt p.col p.tabRem (p.line.drop p.i) := by
  by_cases hlen : p.i < p.line.length
  · rw [drop_cons_of_lt _ _ hlen]
    by_cases hsp : p.line.getD p.i 0 = SP
    · rw [indent_sp p hlen hsp, hsp]; rfl
    · by_cases htab : p.line.getD p.i 0 = TAB
      · rw [indent_tab p hlen htab, htab]; rfl
      · rw [indent_other p hsp htab]; simp only [indentAt, hsp, htab, if_false]
  · rw [indent_of_ge p (by omega), List.drop_eq_nil_of_le (by omega)]; rfl

theorem updateTab_line (q : LP) : q.updateTabRemaining.line = q.line := by
  unfold LP.updateTabRemaining; split <;> rfl
theorem updateTab_i (q : LP) : q.updateTabRemaining.i = q.i := by
  unfold LP.updateTabRemaining; split <;> rfl
theorem updateTab_col (q : LP) : q.updateTabRemaining.col = q.col := by
  unfold LP.updateTabRemaining; split <;> rfl
theorem updateTab_tree (q : LP) : tree q.updateTabRemaining = tree q := by
  unfold LP.updateTabRemaining; split <;> rfl
theorem updateTab_state (q : LP) : q.updateTabRemaining.state = q.state := by
  unfold LP.updateTabRemaining; split <;> rfl
theorem updateTab_panic (q : LP) : q.updateTabRemaining.panic = q.panic := by
  unfold LP.updateTabRemaining; split <;> rfl

theorem updateTab_tabRem_tab (q : LP) (hlen : q.i < q.line.length) (h : q.line.getD q.i 0 = TAB) :
    q.updateTabRemaining.tabRem = columnWidth q.col [TAB] := by
  unfold LP.updateTabRemaining
  rw [if_pos (by rw [h]; simpa using hlen)]

/-- After `updateTabRemaining` the indentation is the width of the white space in front of the cursor. -/
theorem indent_updateTab (q : LP) : q.updateTabRemaining.indent = wsWidth q.col (q.line.drop q.i) := by
  rw [indent_eq, updateTab_line, updateTab_i, updateTab_col]
  by_cases hlen : q.i < q.line.length
  · rw [drop_cons_of_lt _ _ hlen]
    by_cases hsp : q.line.getD q.i 0 = SP
    · rw [hsp, wsWidth_sp]; rfl
    · by_cases htab : q.line.getD q.i 0 = TAB
      · rw [updateTab_tabRem_tab q hlen htab, htab, wsWidth_tab]; rfl
      · rw [wsWidth_other _ _ _ hsp htab]; simp only [indentAt, hsp, htab, if_false]
  · rw [List.drop_eq_nil_of_le (by omega), wsWidth_nil]; rfl

theorem updateTab_cur (q : LP) (h : q.i ≤ q.line.length) : CurOK q.updateTabRemaining := by
  refine ⟨by rw [updateTab_i, updateTab_line]; exact h, ?_⟩
  rw [updateTab_i, updateTab_line]
  intro h1 h2
  rw [updateTab_tabRem_tab q h1 h2]
  exact columnWidth_tab_pos _

theorem bai_of_indent_zero (p : LP) (hc : CurOK p) (h : p.indent = 0) : p.bytesAfterIndent = p.line.drop p.i := by
  unfold LP.bytesAfterIndent
  by_cases hlen : p.i < p.line.length
  · rw [drop_cons_of_lt _ _ hlen]
    by_cases hsp : p.line.getD p.i 0 = SP
    · rw [indent_sp _ hlen hsp] at h; omega
    · by_cases htab : p.line.getD p.i 0 = TAB
      · rw [indent_tab _ hlen htab] at h
        have := hc.htab hlen htab
        omega
      · rw [List.dropWhile_cons_of_neg]
        simp only [Bool.or_eq_true, beq_iff_eq, not_or]
        exact ⟨hsp, htab⟩
  · rw [List.drop_eq_nil_of_le (by omega)]; rfl

theorem bai_length_le (p : LP) : p.i + p.bytesAfterIndent.length ≤ max p.i p.line.length := by
  unfold LP.bytesAfterIndent
  have := dropWhile_length_add (p.line.drop p.i)
  simp only [List.length_drop] at this
  omega

/-- When the indentation is positive, skipping `indentLength` bytes lands on `bytesAfterIndent`. -/
theorem bai_skip (p : LP) (hc : CurOK p) :
    p.i + indentLength (p.line.drop p.i) + p.bytesAfterIndent.length = p.line.length := by
  unfold LP.bytesAfterIndent
  have := dropWhile_length_add (p.line.drop p.i)
  simp only [List.length_drop] at this
  have := hc.hi
  omega

/-! ### `advance` -/

structure AdvPost (p p' : LP) (n : Nat) : Prop where
  panic : p'.panic = p.panic
  line : p'.line = p.line
  tree : tree p' = tree p
  i : p'.i = p.i + n
  cur : CurOK p'
  state : p'.state = if n = 0 then p.state else mm p.state

theorem advance_post (p : LP) (n : Nat) (hc : CurOK p) (h : p.i + n ≤ p.line.length) : AdvPost p (p.advance n) n := by
  unfold LP.advance
  by_cases hn : n = 0
  · subst hn
    exact ⟨rfl, rfl, rfl, rfl, hc, by simp⟩
  · have hn' : (n == 0) = false := by simp [hn]
    simp only [hn', Bool.false_eq_true, if_false]
    rw [markMatched_eq]
    have hgt : ¬ (p.i + n > p.line.length) := by omega
    simp only [hgt, if_false]
    refine ⟨?_, ?_, ?_, ?_, ?_, ?_⟩
    · rw [updateTab_panic]
    · rw [updateTab_line]
    · rw [updateTab_tree]; rfl
    · rw [updateTab_i]
    · apply updateTab_cur; exact h
    · rw [updateTab_state]; simp [hn]

/-! ### `consumeIndent` -/

structure CIPost (p p' : LP) (n : Nat) : Prop where
  panic : p'.panic = p.panic
  line : p'.line = p.line
  tree : tree p' = tree p
  cur : CurOK p'
  indent : p'.indent = p.indent - n
  bai : p'.bytesAfterIndent = p.bytesAfterIndent
  state : p'.state = if n = 0 then p.state else mm p.state
  ige : p.i ≤ p'.i

theorem consumeIndent_post : ∀ (fuel : Nat) (p : LP) (n : Nat), CurOK p → n ≤ p.indent → n < fuel →
    CIPost p (LP.consumeIndent fuel p n) n := by
  intro fuel
  induction fuel with
  | zero => intro p n _ _ h; omega
  | succ fuel ih =>
    intro p n hc hn hf
    unfold LP.consumeIndent
    by_cases hn0 : n = 0
    · subst hn0
      exact ⟨rfl, rfl, rfl, hc, by simp, rfl, by simp, Nat.le_refl _⟩
    · have hn' : (n == 0) = false := by simp [hn0]
      simp only [hn', Bool.false_eq_true, if_false]
      rw [markMatched_eq]
      by_cases hlen : p.i < p.line.length
      · by_cases hsp : p.line.getD p.i 0 = SP
        · -- a space
          have hind := indent_sp p hlen hsp
          simp only [hlen, hsp, decide_true, Bool.true_and, beq_self_eq_true, if_true]
          let q : LP := { p with state := mm p.state, col := p.col + 1, i := p.i + 1 }
          have hq : CurOK q.updateTabRemaining := updateTab_cur q (by show p.i + 1 ≤ p.line.length; omega)
          have hqi : q.updateTabRemaining.indent = p.indent - 1 := by
            rw [indent_updateTab]; show wsWidth (p.col + 1) (p.line.drop (p.i + 1)) = _; omega
          have r := ih q.updateTabRemaining (n - 1) hq (by omega) (by omega)
          refine ⟨?_, ?_, ?_, r.cur, ?_, ?_, ?_, ?_⟩
          · rw [r.panic, updateTab_panic]
          · rw [r.line, updateTab_line]
          · rw [r.tree, updateTab_tree]; rfl
          · rw [r.indent, hqi]; omega
          · rw [r.bai]
            unfold LP.bytesAfterIndent
            rw [updateTab_line, updateTab_i]
            show List.dropWhile _ (p.line.drop (p.i + 1)) = _
            rw [drop_cons_of_lt p.line p.i hlen, hsp]
            simp
          · rw [r.state, updateTab_state]
            simp only [hn0, if_false]
            show (if n - 1 = 0 then mm p.state else mm (mm p.state)) = mm p.state
            rw [mm_mm]; simp
          · have := r.ige; rw [updateTab_i] at this
            exact Nat.le_trans (Nat.le_succ p.i) this
        · by_cases htab : p.line.getD p.i 0 = TAB
          · -- a tab
            have hind := indent_tab p hlen htab
            have hne : ¬ ((9 : UInt8) = 32) := by decide
            simp only [hlen, htab, decide_true, Bool.true_and, beq_self_eq_true, if_true]
            have hsp' : ((TAB : UInt8) == SP) = false := by decide
            simp only [hsp', Bool.false_eq_true, if_false]
            have htr := hc.htab hlen htab
            by_cases hlt : n < p.tabRem
            · -- part of the tab
              simp only [show n < ({ p with state := mm p.state } : LP).tabRem from hlt, if_true]
              let q : LP := { p with state := mm p.state, col := p.col + n, tabRem := p.tabRem - n, tabPartial := true }
              show CIPost p q n
              have hqi : q.indent = p.indent - n := by
                rw [indent_tab q hlen htab, hind]
                show p.tabRem - n + wsWidth (p.col + n + (p.tabRem - n)) (p.line.drop (p.i + 1)) = _
                have : p.col + n + (p.tabRem - n) = p.col + p.tabRem := by omega
                rw [this]; omega
              refine ⟨rfl, rfl, rfl, ⟨hc.hi, fun _ _ => ?_⟩, hqi, rfl, ?_, Nat.le_refl _⟩
              · show 1 ≤ p.tabRem - n; omega
              · simp [hn0]; rfl
            · -- the whole tab
              simp only [show ¬ n < ({ p with state := mm p.state } : LP).tabRem from hlt, if_false]
              let q : LP := { p with state := mm p.state, col := p.col + p.tabRem, i := p.i + 1 }
              have hq : CurOK q.updateTabRemaining := updateTab_cur q (by show p.i + 1 ≤ p.line.length; omega)
              have hqi : q.updateTabRemaining.indent = p.indent - p.tabRem := by
                rw [indent_updateTab]; show wsWidth (p.col + p.tabRem) (p.line.drop (p.i + 1)) = _; omega
              have r := ih q.updateTabRemaining (n - p.tabRem) hq (by omega) (by omega)
              refine ⟨?_, ?_, ?_, r.cur, ?_, ?_, ?_, ?_⟩
              · rw [r.panic, updateTab_panic]
              · rw [r.line, updateTab_line]
              · rw [r.tree, updateTab_tree]; rfl
              · rw [r.indent, hqi]; omega
              · rw [r.bai]
                unfold LP.bytesAfterIndent
                rw [updateTab_line, updateTab_i]
                show List.dropWhile _ (p.line.drop (p.i + 1)) = _
                rw [drop_cons_of_lt p.line p.i hlen, htab]
                simp
              · rw [r.state, updateTab_state]
                simp only [hn0, if_false]
                show (if n - p.tabRem = 0 then mm p.state else mm (mm p.state)) = mm p.state
                rw [mm_mm]; simp
              · have := r.ige; rw [updateTab_i] at this
                exact Nat.le_trans (Nat.le_succ p.i) this
          · -- no white space: impossible, the indentation is 0
            have := indent_other p hsp htab
            omega
      · have := indent_of_ge p (by omega)
        omega

theorem consumeIndentN_post (p : LP) (n : Nat) (hc : CurOK p) (hn : n ≤ p.indent) : CIPost p (p.consumeIndentN n) n :=
  consumeIndent_post (n + 1) p n hc hn (by omega)

/-- Fuel adequacy of `consumeIndent`: any fuel larger than `n` gives the same result. -/
theorem consumeIndent_fuel : ∀ (fuel fuel' : Nat) (p : LP) (n : Nat), CurOK p → n ≤ p.indent → n < fuel → n < fuel' →
    LP.consumeIndent fuel p n = LP.consumeIndent fuel' p n := by
  intro fuel
  induction fuel with
  | zero => intro _ p n _ _ h; omega
  | succ fuel ih =>
    intro fuel' p n hc hn hf hf'
    cases fuel' with
    | zero => omega
    | succ fuel' =>
      unfold LP.consumeIndent
      by_cases hn0 : n = 0
      · simp [hn0]
      · have hn' : (n == 0) = false := by simp [hn0]
        simp only [hn', Bool.false_eq_true, if_false]
        rw [markMatched_eq]
        by_cases hlen : p.i < p.line.length
        · by_cases hsp : p.line.getD p.i 0 = SP
          · have hind := indent_sp p hlen hsp
            simp only [hlen, hsp, decide_true, Bool.true_and, beq_self_eq_true, if_true]
            let q : LP := { p with state := mm p.state, col := p.col + 1, i := p.i + 1 }
            have hq : CurOK q.updateTabRemaining := updateTab_cur q (by show p.i + 1 ≤ p.line.length; omega)
            have hqi : q.updateTabRemaining.indent = p.indent - 1 := by
              rw [indent_updateTab]; show wsWidth (p.col + 1) (p.line.drop (p.i + 1)) = _; omega
            exact ih fuel' q.updateTabRemaining (n - 1) hq (by omega) (by omega) (by omega)
          · by_cases htab : p.line.getD p.i 0 = TAB
            · have hind := indent_tab p hlen htab
              simp only [hlen, htab, decide_true, Bool.true_and, beq_self_eq_true, if_true]
              have hsp' : ((TAB : UInt8) == SP) = false := by decide
              simp only [hsp', Bool.false_eq_true, if_false]
              have htr := hc.htab hlen htab
              by_cases hlt : n < p.tabRem
              · simp only [show n < ({ p with state := mm p.state } : LP).tabRem from hlt, if_true]
              · simp only [show ¬ n < ({ p with state := mm p.state } : LP).tabRem from hlt, if_false]
                let q : LP := { p with state := mm p.state, col := p.col + p.tabRem, i := p.i + 1 }
                have hq : CurOK q.updateTabRemaining := updateTab_cur q (by show p.i + 1 ≤ p.line.length; omega)
                have hqi : q.updateTabRemaining.indent = p.indent - p.tabRem := by
                  rw [indent_updateTab]; show wsWidth (p.col + p.tabRem) (p.line.drop (p.i + 1)) = _; omega
                exact ih fuel' q.updateTabRemaining (n - p.tabRem) hq (by omega) (by omega) (by omega)
            · have := indent_other p hsp htab
              omega
        · have := indent_of_ge p (by omega)
          omega

/-! ### `consumeLine` -/

/-- The state after `consumeLine`. -/
def clState (s : Nat) : Nat :=
  if s == stateOpening || s == stateOpenMatched then stateLineConsumed
  else if s == stateDescending then stateDescendTerminated else s

structure CLPost (p p' : LP) : Prop where
  panic : p'.panic = p.panic
  line : p'.line = p.line
  tree : tree p' = tree p
  i : p'.i = p.line.length
  cur : CurOK p'
  state : p'.state = clState (if p.line.length - p.i = 0 then p.state else mm p.state)

theorem consumeLine_post (p : LP) (hc : CurOK p) : CLPost p p.consumeLine := by
  have a := advance_post p (p.line.length - p.i) hc (by have := hc.hi; omega)
  unfold LP.consumeLine
  simp only []
  have hst : ∀ q : LP, (if q.state == stateOpening || q.state == stateOpenMatched then { q with state := stateLineConsumed }
      else if q.state == stateDescending then { q with state := stateDescendTerminated } else q)
      = { q with state := clState q.state } := by
    intro q; unfold clState; split
    · rfl
    · split <;> rfl
  rw [hst]
  refine ⟨a.panic, a.line, a.tree, ?_, ⟨?_, ?_⟩, ?_⟩
  · show (p.advance _).i = _; rw [a.i]; have := hc.hi; omega
  · show (p.advance _).i ≤ (p.advance _).line.length; exact a.cur.hi
  · exact a.cur.htab
  · show clState (p.advance _).state = _; rw [a.state]

theorem clState_le (s : Nat) (h : s ≤ 2) : clState s = 2 := by
  unfold clState; simp only [stateOpening, stateOpenMatched, stateLineConsumed, stateDescending, stateDescendTerminated]
  have : s = 0 ∨ s = 1 ∨ s = 2 := by omega
  rcases this with h | h | h <;> subst h <;> simp

theorem clState_three : clState 3 = 4 := by decide

end CM.Proofs.BT
