import CM.Proofs.InlShapeEm
import CM.Proofs.InlShapeTag
import CM.Proofs.InlShapeLeafEx
import CM.Proofs.InlShapeCodeFin
/-
C13, inline half — summary: what is proved of `Spec.shapeAt` on the inline nodes the inline phase makes
(`parseInlines_shapes_partial`, `rewriteE_shapes_partial`), the full statement as a target (`inline_shapes_target`),
counterexamples on the model showing that each hypothesis / length condition is needed for ARBITRARY lists of
block-phase inline children, and a concrete container on which everything holds.
-/
namespace CM.Proofs.InlH
open CM CM.Model CM.Model.Inl CM.Spec

/-- What is proved, in one statement, for one container.  `t` ranges over all nodes (any depth) of the new children:
    * kinds other than emphasis / strong / code span / link / image / HTML tag (hard breaks, autolinks, character
      references, and all kinds without a clause): `shapeAt`;
    * a code span: `shapeAt`;
    * an HTML tag with a non-empty span: `shapeAt`;
    * emphasis / strong / link / image: `shapeAt` under the length condition of `EmShape`. -/
def InlineShapesPartial (src : Bytes) (t : Tree) : Prop :=
  (LeafKind t.label.kind → shapeAt src t = true) ∧
  (t.label.kind = IK.codeSpan → shapeAt src t = true) ∧
  (t.label.kind = IK.htmlTag → t.label.start < t.label.stop → shapeAt src t = true) ∧
  EmShape src t

theorem parseInlines_shapes_partial (x : IExt) (src : Bytes) (matchRef : Bytes → Bool) (cstart cstop : Int)
    (unparsed kids : List Tree) (hin : InShape src unparsed) (hhb : HBreakOK src unparsed)
    (H : CSHyp unparsed src src.length)
    (h : parseInlines x src src.toArray matchRef cstart cstop unparsed = .ok kids) :
    ∀ t ∈ T.nodesL kids, t.label.isBlock = false → InlineShapesPartial src t := fun t ht hb =>
  ⟨parseInlines_shape_leaf x src matchRef cstart cstop unparsed kids hin hhb h t ht hb,
   parseInlines_shape_codeSpan x src matchRef cstart cstop unparsed kids hin H h t ht hb,
   parseInlines_shape_htmlTag x src matchRef cstart cstop unparsed kids hin hhb H.ind h t ht hb,
   parseInlines_shape_em x src matchRef cstart cstop unparsed kids hin h t ht hb⟩

/-- …and for `Rewrite`. -/
theorem rewriteE_shapes_partial (x : IExt) (src : Bytes) (matchRef : Bytes → Bool) (t t' : Tree)
    (hpre : ∀ u ∈ T.nodes t, u.label.isBlock = false → shapeAt src u = true)
    (hR : ∀ p ∈ conts t, HBreakOK src p.2 ∧ CSHyp p.2 src src.length)
    (h : rewriteE x src src.toArray matchRef t = .ok t') :
    ∀ u ∈ T.nodes t', u.label.isBlock = false → InlineShapesPartial src u := by
  obtain ⟨hs, hcont⟩ := surv_conts_of_all (Q := fun u => u.label.isBlock = false → shapeAt src u = true) t hpre
  refine rewriteE_nodes x src src.toArray matchRef (fun u => u.label.isBlock = false → InlineShapesPartial src u)
    (fun _ cs => InShape src cs ∧ HBreakOK src cs ∧ CSHyp cs src src.length)
    (fun l cs kids hRR hp u hu hb =>
      parseInlines_shapes_partial x src matchRef l.start l.stop cs kids hRR.1 hRR.2.1 hRR.2.2 hp u hu hb)
    (fun l cs cs' _ hb hb' => by rw [show (Tree.node l cs').label.isBlock = l.isBlock from rfl, hb] at hb'; cases hb')
    t.size t t' (Nat.le_refl _)
    (fun u hu hb => ⟨fun _ => hs u hu hb, fun _ => hs u hu hb, fun _ _ => hs u hu hb, emShape_of_shape (hs u hu hb)⟩) ?_ h
  intro p hp
  exact ⟨fun c hc hb _ v hv => hcont p hp c hc v hv, hR p hp⟩

/-- THE TARGET (not proved): all inline clauses, unconditionally, for the inline children the block phase produces.
    `H src unparsed` stands for what the block phase guarantees about a container's inline children (in order and
    disjoint, inside the source, every one but the last ends at the end of a non-blank line, Indent nodes cover white
    space): with it, the length conditions of `InlineShapesPartial` hold and the code-span clause is provable. -/
def inline_shapes_target (H : Bytes → List Tree → Prop) : Prop :=
  ∀ (x : IExt) (src : Bytes) (matchRef : Bytes → Bool) (cstart cstop : Int) (unparsed kids : List Tree),
    InShape src unparsed → H src unparsed →
    parseInlines x src src.toArray matchRef cstart cstop unparsed = .ok kids →
    ∀ t ∈ T.nodesL kids, t.label.isBlock = false → shapeAt src t = true

namespace ShapeEx

def ind (a b n : Int) : Tree := .node { isBlock := false, kind := IK.indent, start := a, stop := b, indent := n } []

/-- For an ARBITRARY list of inline children the target is false even with `H := InShape ∧ HBreakOK ∧ IndentWS`:
    children that are out of order give an Emphasis node with an invalid span… -/
def srcC : Bytes := "a*b*c".toUTF8.toList
def inC : List Tree := [run 3 5, run 0 3]

theorem emphasis_counterexample :
    InShape srcC inC ∧ ∃ kids, parseInlines x0 srcC srcC.toArray (fun _ => false) 0 5 inC = .ok kids ∧
      ∃ t ∈ T.nodesL kids, t.label.isBlock = false ∧ t.label.kind = IK.emphasis ∧ shapeAt srcC t = false :=
  ⟨all_runs _ _ (by decide), bad_spec (by decide +kernel)⟩

/-- …and a Link node with an invalid span. -/
def srcD : Bytes := "]x [a".toUTF8.toList
def inD : List Tree := [run 3 5, run 0 2]

theorem link_counterexample :
    InShape srcD inD ∧ ∃ kids, parseInlines x0 srcD srcD.toArray (fun _ => true) 0 5 inD = .ok kids ∧
      ∃ t ∈ T.nodesL kids, t.label.isBlock = false ∧ t.label.kind = IK.link ∧ shapeAt srcD t = false :=
  ⟨all_runs _ _ (by decide), bad_spec (by decide +kernel)⟩

/-- Without `IndentWS` the HTML-tag clause is false of the model: an Indent node that covers `-->` makes the comment
    end one byte late. -/
def srcE : Bytes := "<!---->x".toUTF8.toList
def inE : List Tree := [run 0 4, ind 4 7 1, run 7 8]

theorem htmlTag_counterexample :
    ∃ kids, parseInlines x0 srcE srcE.toArray (fun _ => false) 0 8 inE = .ok kids ∧
      ∃ t ∈ T.nodesL kids, t.label.isBlock = false ∧ t.label.kind = IK.htmlTag ∧ shapeAt srcE t = false :=
  bad_spec (by decide +kernel)

/-- Without `TickEdges` the code-span clause is false of the model: a gap between two children that ends in a
    backtick makes the closing run look shorter to the reader than it is in the source. -/
def srcF : Bytes := "`a\n``b`".toUTF8.toList
def inF : List Tree := [run 0 3, run 4 7]

theorem codeSpan_counterexample :
    InShape srcF inF ∧ ∃ kids, parseInlines x0 srcF srcF.toArray (fun _ => false) 0 7 inF = .ok kids ∧
      ∃ t ∈ T.nodesL kids, t.label.isBlock = false ∧ t.label.kind = IK.codeSpan ∧ shapeAt srcF t = false :=
  ⟨all_runs _ _ (by decide), bad_spec (by decide +kernel)⟩

/-- emphasis, strong emphasis, a shortcut reference link, a shortcut reference image, a code span -/
def src2 : Bytes := "*a* **b** [r] ![s] `c`".toUTF8.toList
def in2 : List Tree := [run 0 22]

example : InShape src2 in2 := all_runs _ _ (by decide)
example : HBreakOK src2 in2 := fun k u hk _ => by simp [in2] at hk
example : IndentWS src2 in2 := fun t ht hi => by
  simp only [in2, List.mem_singleton] at ht
  subst ht
  exact absurd hi (by decide)

/-- the hypotheses of the code-span theorem hold of `in2` -/
example : CSHyp in2 src2 src2.length where
  ind := fun t ht hi => by
    simp only [in2, List.mem_singleton] at ht
    subst ht
    exact absurd hi (by decide)
  edges := ⟨fun k t hk _ => by simp [in2] at hk, fun k t hk ht => by
    simp only [in2] at ht
    match k, hk, ht with
    | k + 1, _, ht => simp at ht⟩
  ne := fun t ht => by
    simp only [in2, List.mem_singleton] at ht
    subst ht
    decide
  sorted := by simp [CM.Proofs.SortedSpans, in2]
  bound := fun t ht => by
    simp only [in2, List.mem_singleton] at ht
    subst ht
    unfold CM.Proofs.TB
    decide +kernel

/-- Emphasis, Strong, Link, Image, CodeSpan, and the Text nodes between and below them: every node has its shape (in
    particular the length conditions of `EmShape` hold). -/
example : kindsOK src2 (parseInlines x0 src2 src2.toArray (fun _ => true) 0 22 in2) =
    [(7, true), (1, true), (1, true), (8, true), (1, true), (1, true), (9, true), (1, true), (1, true), (10, true),
     (1, true), (1, true), (14, true), (1, true)] := by
  decide +kernel

/-- the hypotheses of `parseHTMLTag_shape` hold of `<b>` (the kernel cannot evaluate `collectTextNodes`, hence no
    whole-container example with an HTML tag or an inline link) -/
example : (parseHTMLTag "<b>".toUTF8.toList 20 (newReader [run 0 3] 0)).1.isValid = true ∧
    (parseHTMLTag "<b>".toUTF8.toList 20 (newReader [run 0 3] 0)).1.stop = 3 := by decide +kernel

end ShapeEx

end CM.Proofs.InlH

section
open CM.Proofs.InlH
#print axioms parseHTMLTag_shape
#print axioms parseInlines_shape_htmlTag
#print axioms processEmphasis_specW
#print axioms parseEndBracket_specW
#print axioms parseBody_specW
#print axioms parseCodeSpan_good
#print axioms parseInlines_shape_codeSpan
#print axioms ShapeEx.codeSpan_counterexample
#print axioms parseInlines_shape_em
#print axioms rewriteE_shape_em
#print axioms parseInlines_shapes_partial
#print axioms rewriteE_shapes_partial
#print axioms ShapeEx.emphasis_counterexample
#print axioms ShapeEx.link_counterexample
#print axioms ShapeEx.htmlTag_counterexample
end
