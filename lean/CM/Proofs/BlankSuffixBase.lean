import CM.Proofs.BlankPrefixStep
/-
Trailing bytes, basics. `extBP t q`: the in-memory parser state `q` with `t` appended to its buffer. As long as the
parse position has not been moved past the end of `q`'s own buffer by a `readline` that found nothing (`LockInv`),
the machine on `extBP t q` does exactly what it does on `q`: it only looks at `buf[:i]`, and `readline` finds the
same line ends because `q.buf` ends in a line ending that does not merge with the head of `t`.
`tailBP t' j q`: the state after the two runs have parted: `q` is at the end of its buffer, the other run is `j`
bytes into the blank bytes `t'`.
-/
namespace CM.Proofs
open CM CM.Model CM.Gen

/-- `q` with `t` appended to the buffer. -/
def extBP (t : Bytes) (q : BP) : BP := { q with buf := q.buf ++ t }

/-- `q` at the end of its buffer, the other run `j` bytes into the trailing bytes `t'`. -/
def tailBP (t' : Bytes) (j : Nat) (q : BP) : BP := { q with buf := q.buf ++ t', i := q.buf.length + j }

structure LockInv (t : Bytes) (q : BP) : Prop where
  ile : q.i ≤ q.buf.length
  term : terminated q.buf = true
  nosplit : ¬ CRLFSplit q.buf t
  err : q.err.isSome = true

/-- All blocks closed, with non-decreasing ends starting from `lo`: re-basing them after a cut keeps them closed. -/
def closedChain : Nat → List PB → Bool
  | _, [] => true
  | lo, k :: rest => !k.isOpen && decide (lo ≤ k.label.stop.toNat) && closedChain k.label.stop.toNat rest

theorem closedChain_cons {lo : Nat} {k : PB} {rest : List PB} (h : closedChain lo (k :: rest) = true) :
    k.isOpen = false ∧ lo ≤ k.label.stop.toNat ∧ closedChain k.label.stop.toNat rest = true := by
  simpa [closedChain, and_assoc] using h

theorem offsetPB_closed {n : Nat} {k : PB} (hc : k.isOpen = false) (hn : n ≤ k.label.stop.toNat) :
    (offsetPB (-(n : Int)) k).isOpen = false ∧ (offsetPB (-(n : Int)) k).label.stop.toNat = k.label.stop.toNat - n := by
  have hs := offsetPB_stop (-(n : Int)) k
  simp only [PB.isOpen, decide_eq_false_iff_not, Int.not_lt] at hc
  rw [if_pos hc] at hs
  constructor
  · simp only [PB.isOpen, decide_eq_false_iff_not, Int.not_lt, hs]; omega
  · rw [hs]; omega

theorem closedChain_offset (n : Nat) : ∀ (bs : List PB) (lo : Nat), closedChain lo bs = true → n ≤ lo →
    closedChain (lo - n) (offsetPBs (-(n : Int)) bs) = true := by
  intro bs
  induction bs with
  | nil => intro lo _ _; simp [offsetPBs, closedChain]
  | cons k rest ih =>
    intro lo h hn
    obtain ⟨hc, hlo, hrest⟩ := closedChain_cons h
    obtain ⟨a1, a2⟩ := offsetPB_closed (n := n) hc (by omega)
    have := ih k.label.stop.toNat hrest (by omega)
    simp only [offsetPBs, closedChain, a1, a2, Bool.not_false, Bool.true_and, Bool.and_eq_true, decide_eq_true_eq]
    exact ⟨by omega, this⟩

structure TailInv (q : BP) : Prop where
  iB : q.i = q.buf.length
  err : q.err.isSome = true
  chain : closedChain 0 q.blocks = true

/-- The two runs have parted: `pB` is at the end of its buffer, `pA` inside the trailing blank bytes. -/
def Tail (pA pB : BP) : Prop :=
  ∃ t' j, pA = tailBP t' j pB ∧ j ≤ t'.length ∧ isBlankLine t' = true ∧ TailInv pB

/-! ### `readline` -/

/-- Before the end of the buffer: the same line on both. -/
theorem rl_lock {t : Bytes} {q : BP} (h : LockInv t q) (hlt : q.i < q.buf.length) :
    readline (q.rd.data.length + q.rd.sched.length + 2) q = (true, { q with i := q.i + lineLen (q.buf.drop q.i) }) ∧
    readline ((extBP t q).rd.data.length + (extBP t q).rd.sched.length + 2) (extBP t q) =
      (true, extBP t { q with i := q.i + lineLen (q.buf.drop q.i) }) ∧
    LockInv t { q with i := q.i + lineLen (q.buf.drop q.i) } := by
  have hne : q.buf.drop q.i ≠ [] := by
    intro e; have := congrArg List.length e; simp at this; omega
  have hpos := lineLen_pos hne
  have hle := lineLen_le (q.buf.drop q.i)
  have h1 := Model.readline_mem (q.rd.data.length + q.rd.sched.length + 1) q h.err h.ile
  have h2 := Model.readline_mem (q.rd.data.length + q.rd.sched.length + 1) (extBP t q) h.err
    (by simp only [extBP, List.length_append]; have := h.ile; omega)
  have hd : (extBP t q).buf.drop (extBP t q).i = q.buf.drop q.i ++ t := List.drop_append_of_le_length h.ile
  rw [hd, lineLen_append_terminated t _ hne (terminated_drop h.term _) (not_crlfSplit_drop h.nosplit _)] at h2
  refine ⟨?_, ?_, ?_⟩
  · rw [h1]; simp [hpos]
  · show readline (q.rd.data.length + q.rd.sched.length + 1 + 1) (extBP t q) = _
    rw [h2]; simp [hpos]; rfl
  · refine ⟨?_, h.term, h.nosplit, h.err⟩
    simp only [List.length_drop] at hle
    show q.i + lineLen (q.buf.drop q.i) ≤ q.buf.length
    omega

/-- At the end of the buffer: nothing on `q`, the first line of `t` on `extBP t q`. -/
theorem rl_eof {t : Bytes} {q : BP} (h : LockInv t q) (heq : q.i = q.buf.length) :
    readline (q.rd.data.length + q.rd.sched.length + 2) q = (false, q) ∧
    readline ((extBP t q).rd.data.length + (extBP t q).rd.sched.length + 2) (extBP t q) =
      (decide (0 < lineLen t), tailBP t (lineLen t) q) := by
  have h1 := Model.readline_mem (q.rd.data.length + q.rd.sched.length + 1) q h.err h.ile
  have h2 := Model.readline_mem (q.rd.data.length + q.rd.sched.length + 1) (extBP t q) h.err
    (by simp only [extBP, List.length_append]; have := h.ile; omega)
  have hd : (extBP t q).buf.drop (extBP t q).i = t := by
    show (q.buf ++ t).drop q.i = t
    rw [heq]; simp
  have hdB : q.buf.drop q.i = [] := by rw [heq]; simp
  rw [hd] at h2
  rw [hdB] at h1
  constructor
  · rw [h1]; simp
  · show readline (q.rd.data.length + q.rd.sched.length + 1 + 1) (extBP t q) = _
    rw [h2]
    simp only [extBP, tailBP, heq]

/-! ### `makeRoot` -/

theorem afterRoot_panic_none {q : BP} {k : PB} {rest : List PB} (h : (afterRoot q k rest).panic = none) :
    k.label.stop.toNat ≤ q.i ∧ k.label.stop.toNat ≤ q.buf.length := by
  have h' : (if (decide (k.label.stop.toNat > q.i) || decide (k.label.stop.toNat > q.buf.length)) = true
      then q.panic <|> some "makeRoot: block ends beyond the parse position" else q.panic) = none := h
  by_cases c : (decide (k.label.stop.toNat > q.i) || decide (k.label.stop.toNat > q.buf.length)) = true
  · rw [if_pos c] at h'
    cases hp : q.panic <;> simp [hp] at h'
  · simp at c; omega

theorem rootOf_ext (t : Bytes) (q : BP) (k : PB) (hn : k.label.stop.toNat ≤ q.buf.length) :
    rootOf (extBP t q) k = rootOf q k := by
  simp only [rootOf, extBP, List.take_append_of_le_length hn]

theorem BP.ext' {a b : BP} (h1 : a.buf = b.buf) (h2 : a.offset = b.offset) (h3 : a.lineno = b.lineno) (h4 : a.i = b.i)
    (h5 : a.err = b.err) (h6 : a.rd = b.rd) (h7 : a.blocks = b.blocks) (h8 : a.panic = b.panic) : a = b := by
  cases a; cases b; simp_all

theorem afterRoot_panic_eq (q : BP) (k : PB) (rest : List PB) (h1 : k.label.stop.toNat ≤ q.i)
    (h2 : k.label.stop.toNat ≤ q.buf.length) : (afterRoot q k rest).panic = q.panic := by
  show (if _ then _ else _) = _
  rw [if_neg]; simp; omega

theorem afterRoot_ext (t : Bytes) (q : BP) (k : PB) (rest : List PB) (hn : k.label.stop.toNat ≤ q.i)
    (hi : q.i ≤ q.buf.length) : afterRoot (extBP t q) k rest = extBP t (afterRoot q k rest) := by
  have hn' : k.label.stop.toNat ≤ q.buf.length := by omega
  apply BP.ext'
  · show List.drop _ (q.buf ++ t) = List.drop _ q.buf ++ t
    exact List.drop_append_of_le_length hn'
  · show q.offset + unpaddedNullLength (List.take _ (q.buf ++ t)) = q.offset + unpaddedNullLength (List.take _ q.buf)
    rw [List.take_append_of_le_length hn']
  · show q.lineno + lineCount (List.take _ (q.buf ++ t)) = q.lineno + lineCount (List.take _ q.buf)
    rw [List.take_append_of_le_length hn']
  · rfl
  · rfl
  · rfl
  · rfl
  · rw [afterRoot_panic_eq (extBP t q) k rest hn (by show _ ≤ (q.buf ++ t).length; simp; omega)]
    show q.panic = (afterRoot q k rest).panic
    rw [afterRoot_panic_eq _ _ _ hn hn']

theorem LockInv.afterRoot {t : Bytes} {q : BP} (h : LockInv t q) (k : PB) (rest : List PB)
    (hn : k.label.stop.toNat ≤ q.i) : LockInv t (afterRoot q k rest) := by
  refine ⟨?_, terminated_drop h.term _, not_crlfSplit_drop h.nosplit _, h.err⟩
  show q.i - _ ≤ (q.buf.drop _).length
  have := h.ile
  simp only [List.length_drop]; omega

theorem rootOf_tail (t' : Bytes) (j : Nat) (q : BP) (k : PB) (hn : k.label.stop.toNat ≤ q.buf.length) :
    rootOf (tailBP t' j q) k = rootOf q k := by
  simp only [rootOf, tailBP, List.take_append_of_le_length hn]

theorem afterRoot_tail (t' : Bytes) (j : Nat) (q : BP) (k : PB) (rest : List PB)
    (hn : k.label.stop.toNat ≤ q.buf.length) (hi : q.i = q.buf.length) :
    afterRoot (tailBP t' j q) k rest = tailBP t' j (afterRoot q k rest) := by
  apply BP.ext'
  · show List.drop _ (q.buf ++ t') = List.drop _ q.buf ++ t'
    exact List.drop_append_of_le_length hn
  · show q.offset + unpaddedNullLength (List.take _ (q.buf ++ t')) = q.offset + unpaddedNullLength (List.take _ q.buf)
    rw [List.take_append_of_le_length hn]
  · show q.lineno + lineCount (List.take _ (q.buf ++ t')) = q.lineno + lineCount (List.take _ q.buf)
    rw [List.take_append_of_le_length hn]
  · show q.buf.length + j - _ = (List.drop _ q.buf).length + j
    rw [List.length_drop]; omega
  · rfl
  · rfl
  · rfl
  · rw [afterRoot_panic_eq (tailBP t' j q) k rest (by show _ ≤ q.buf.length + j; omega)
      (by show _ ≤ (q.buf ++ t').length; simp; omega)]
    show q.panic = (afterRoot q k rest).panic
    rw [afterRoot_panic_eq _ _ _ (by omega) hn]

theorem TailInv.afterRoot {q : BP} (h : TailInv q) (k : PB) (rest : List PB) (hb : q.blocks = k :: rest) :
    TailInv (afterRoot q k rest) := by
  have hc := h.chain
  rw [hb] at hc
  obtain ⟨_, _, hrest⟩ := closedChain_cons hc
  refine ⟨?_, h.err, ?_⟩
  · show q.i - _ = (q.buf.drop _).length
    rw [h.iB, List.length_drop]
  · show closedChain 0 (offsetPBs _ rest) = true
    have := closedChain_offset k.label.stop.toNat rest _ hrest (Nat.le_refl _)
    simpa using this

end CM.Proofs
