import CM.Proofs.EolX3
/-
C14 (a), discharging the `kidsOrd` and "tabs" checks — part 4: `XT` across lines (the source grows) and across `makeRoot`
(the pending blocks are re-based).
-/
namespace CM.Proofs.EolX
open CM CM.Model CM.Gen CM.Proofs CM.Proofs.RDS CM.Proofs.BSp CM.Proofs.ERd CM.Proofs.BG

theorem getD_prefix {S S' : Bytes} (h : S <+: S') {j : Nat} {c : UInt8} (hc : c ≠ 0) (hj : S.getD j 0 = c) :
    S'.getD j 0 = c := by
  obtain ⟨t, rfl⟩ := h
  have hlt : j < S.length := by
    rcases Nat.lt_or_ge j S.length with h1 | h1
    · exact h1
    · exfalso; apply hc; rw [← hj]; simp [List.getD_eq_getElem?_getD, List.getElem?_eq_none h1]
  rw [← hj]
  simp only [List.getD_eq_getElem?_getD, List.getElem?_append_left hlt]

theorem tabOK_mono {S S' : Bytes} (h : S <+: S') {is : List Tree} (ht : TabOK S is) : TabOK S' is :=
  fun t hm hi => getD_prefix h (by decide) (ht t hm hi)

/-- The source grows. -/
theorem xt_mono {S S' : Bytes} (h : S <+: S') : ∀ b : PB, XT S b → XT S' b := by
  apply BG.PB.ind
  intro l bs is ih hx
  rw [XT_mk] at hx ⊢
  exact ⟨⟨hx.1.1, fun hk => tabOK_mono h (hx.1.2 hk)⟩, fun c hc => ih c hc (hx.2 c hc)⟩

/-! ### Re-basing -/

theorem mem_offsetTrees {n : Int} {t : Tree} : ∀ {ts : List Tree}, t ∈ offsetTrees n ts → ∃ t0 ∈ ts, t = offsetTree n t0 := by
  intro ts
  induction ts with
  | nil => intro h; rw [offsetTrees] at h; cases h
  | cons a r ih =>
    intro h
    rw [offsetTrees] at h
    rcases List.mem_cons.1 h with h1 | h1
    · exact ⟨a, by simp, h1⟩
    · obtain ⟨t0, h2, h3⟩ := ih h1
      exact ⟨t0, by simp [h2], h3⟩

theorem mem_offsetPBs {n : Int} {b : PB} : ∀ {bs : List PB}, b ∈ offsetPBs n bs → ∃ b0 ∈ bs, b = offsetPB n b0 := by
  intro bs
  induction bs with
  | nil => intro h; rw [offsetPBs] at h; cases h
  | cons a r ih =>
    intro h
    rw [offsetPBs] at h
    rcases List.mem_cons.1 h with h1 | h1
    · exact ⟨a, by simp, h1⟩
    · obtain ⟨t0, h2, h3⟩ := ih h1
      exact ⟨t0, by simp [h2], h3⟩

theorem isIndent_offset (n : Int) (t : Tree) : isIndent (offsetTree n t) = isIndent t := by
  cases t; rw [offsetTree]; rfl

theorem treesGE_mem {m : Int} : ∀ {ts : List Tree} {t : Tree}, treesGE m ts = true → t ∈ ts → treeGE m t = true := by
  intro ts
  induction ts with
  | nil => intro t _ h; cases h
  | cons a r ih =>
    intro t h hm
    rw [treesGE] at h
    simp only [Bool.and_eq_true] at h
    rcases List.mem_cons.1 hm with h1 | h1
    · rw [h1]; exact h.1
    · exact ih h.2 h1

theorem treeGE_start {m : Int} {t : Tree} (h : treeGE m t = true) : m ≤ t.label.start := by
  cases t
  simp only [treeGE, Bool.and_eq_true, decide_eq_true_eq] at h
  exact h.1.1

theorem pbsGE_mem {m : Int} : ∀ {bs : List PB} {b : PB}, pbsGE m bs = true → b ∈ bs → pbGE m b = true := by
  intro bs
  induction bs with
  | nil => intro b _ h; cases h
  | cons a r ih =>
    intro b h hm
    rw [pbsGE] at h
    simp only [Bool.and_eq_true] at h
    rcases List.mem_cons.1 hm with h1 | h1
    · rw [h1]; exact h.1
    · exact ih h.2 h1

/-- Re-basing the blocks that lie after the cut. -/
theorem xt_offset {S : Bytes} (n : Nat) : ∀ b : PB, pbGE (n : Int) b = true → XT S b →
    XT (S.drop n) (offsetPB (-(n : Int)) b) := by
  apply BG.PB.ind
  intro l bs is ih hge hx
  rw [XT_mk] at hx
  rw [pbGE] at hge
  simp only [Bool.and_eq_true] at hge
  obtain ⟨⟨_, hbs⟩, hts⟩ := hge
  rw [offsetPB, XT_mk]
  refine ⟨⟨?_, ?_⟩, ?_⟩
  · intro t ht
    obtain ⟨t0, h1, rfl⟩ := mem_offsetTrees ht
    exact inlOK_offset _ (by omega) t0 (hx.1.1 t0 h1)
  · intro hk t ht hi
    obtain ⟨t0, h1, rfl⟩ := mem_offsetTrees ht
    rw [isIndent_offset] at hi
    have := hx.1.2 hk t0 h1 hi
    have hs := treeGE_start (treesGE_mem hts h1)
    rw [offsetTree_label_start]
    have e1 : (t0.label.start + -(n : Int)).toNat = t0.label.start.toNat - n := by omega
    rw [e1, ← this]
    simp only [List.getD_eq_getElem?_getD, List.getElem?_drop]
    congr 2
    omega
  · intro c hc
    obtain ⟨c0, h1, rfl⟩ := mem_offsetPBs hc
    exact ih c0 h1 (pbsGE_mem hbs h1) (hx.2 c0 h1)

/-- The root of a new session. -/
theorem xt_docRoot {S : Bytes} (bs : List PB) (h : ∀ b ∈ bs, XT S b) : XT S (docRoot bs) := by
  unfold docRoot
  rw [XT_mk]
  exact ⟨XQ.nil _ _, h⟩

end CM.Proofs.EolX
