import CM.Proofs.BlocksContractOps
/-
C01 contract for the real block parser — `appendInline`, `setContainerIndent`, `collectInline`, `endBlock`,
`consumeLine` under the invariant `TopA`; the invariant `TopB` after a child of the document is closed at the end of
the line.
-/
namespace CM.Proofs
open CM CM.Model CM.Gen

/-- A modification of the document block itself that keeps its children. -/
theorem TopA.root0 {Q : Nat → Prop} {p p' : LP} (h : TopA Q p) (hd : p.depth = 0) (hb : p'.root.blocks = p.root.blocks)
    (hd' : p'.depth = 0) (hsrc : p'.source = p.source) (hls : p'.lineStart = p.lineStart) : TopA Q p' := by
  cases h with
  | empty he => exact .empty (by rw [hb]; exact he)
  | old k hb0 ho hls0 hp => exact .old k (by rw [hb]; exact hb0) ho (by rw [hls]; exact hls0) (by rw [hls]; exact hp)
  | closedAt hne hc hg hd0 =>
    exact .closedAt (by rw [hb]; exact hne) (by rw [hb, hsrc, hls]; exact hc) (by rw [hb, hsrc, hls]; exact hg) hd'
  | new _ _ _ _ _ _ hd1 _ _ => omega

/-- A modification of the container that keeps its label (kind, end) and, if it is an open paragraph child of the
    document, its text; the depth of the container is unchanged. -/
theorem TopA.modContainer {Q : Nat → Prop} {p : LP} (h : TopA Q p) (f : PB → PB)
    (hfl : ∀ c, (f c).label.kind = c.label.kind ∧ (f c).label.stop = c.label.stop)
    (hfb : ∀ c, (f c).blocks = c.blocks)
    (hfi : p.depth = 1 → ∀ c, p.root.blocks.getLast? = some c → (f c).inlines = c.inlines ∨ c.label.kind ≠ BK.paragraph) :
    TopA Q { p with root := spineModify f p.root p.depth } := by
  by_cases hd : p.depth = 0
  · refine h.root0 hd ?_ hd rfl rfl
    show (spineModify f p.root p.depth).blocks = _
    rw [hd, spineModify_zero]; exact hfb _
  · refine h.deep f p.depth (by omega) (by omega) rfl rfl rfl (fun _ c => hfl c) hfi (by simp only; omega) ?_
      (fun c _ _ e1 h1 => e1 h1)
    intro hw
    rcases hw with hw | ⟨w, b, w1, w2, w3, w4⟩
    · exact Or.inl hw
    · exact Or.inr (Wit.modify _ _ (fun b => (hfl b).1) rfl ⟨w, b, w1, w2, w2, w3, w4⟩)

/-! ### appendInline, setContainerIndent, collectInline -/

theorem appendInline_T {Q : Nat → Prop} {am : Bool} {N : Nat} {p : LP} (t : Tree) (h : LT Q am N p)
    (hk : p.depth = 1 → p.containerKind ≠ BK.paragraph) : LT Q am N (p.appendInline t) := by
  obtain ⟨a1, _, a3, _, _, _⟩ := appendInline_LA t h.la hk
  refine ⟨a1, h.src.of_tframe a3, ?_⟩
  rw [appendInline_eq]
  refine h.top.modContainer (appendInl t) (fun c => by cases c; exact ⟨rfl, rfl⟩) (fun c => by cases c; rfl) ?_
  intro hd c hc
  right
  have := hk hd
  rwa [containerKind_of_last hd hc] at this

theorem setLabel_T {Q : Nat → Prop} {am : Bool} {N : Nat} {p : LP} (g : PLabel → PLabel) (hs : ∀ l, (g l).stop = l.stop)
    (hk : ∀ l, (g l).kind = l.kind) (h : LT Q am N p) : LT Q am N (p.modifyContainer (PB.setLabel g)) := by
  obtain ⟨a1, _, a3, _, _⟩ := setLabel_LA g hs hk h.la
  refine ⟨a1, h.src.of_tframe a3, ?_⟩
  unfold LP.modifyContainer
  exact h.top.modContainer (PB.setLabel g) (fun c => by cases c; exact ⟨hk _, hs _⟩) (fun c => by cases c; rfl)
    (fun _ c _ => Or.inl (by cases c; rfl))

theorem setContainerIndent_T {Q : Nat → Prop} {am : Bool} {N : Nat} {p : LP} (n : Int) (h : LT Q am N p) :
    LT Q am N (p.setContainerIndent n) := by
  unfold LP.setContainerIndent
  split
  · exact h.of_frame (setPanic_frame p _).1
  · split
    · exact h.of_frame (setPanic_frame p _).1
    · exact setLabel_T (fun l => { l with indent := n }) (fun _ => rfl) (fun _ => rfl) h

theorem collectInline_T {Q : Nat → Prop} {am : Bool} {N : Nat} {p : LP} (x : PExt) (kind n : Nat) (h : LT Q am N p)
    (hk : p.depth = 1 → p.containerKind ≠ BK.paragraph) : LT Q am N (p.collectInline x kind n) := by
  by_cases hs : (p.state == stateDescendTerminated) = true
  · unfold LP.collectInline
    rw [if_pos hs]
    exact h.of_frame (setPanic_frame p _).1
  · obtain ⟨q, t, heq, hq⟩ := collectInline_shape x p kind n hs
    rw [heq]
    obtain ⟨m1, _, _, _⟩ := markMatched_frame p
    have step : ∀ (r : LP) (k : Nat) (t : Tree), LT Q am N r → ContFrame p r →
        LT Q am N ((r.advance k).appendInline t) ∧ ContFrame p ((r.advance k).appendInline t) := by
      intro r k t r1 r3
      obtain ⟨a1, _⟩ := advance_frame r k
      have hka : (r.advance k).depth = 1 → (r.advance k).containerKind ≠ BK.paragraph := by
        rw [(ContFrame.of_cur a1).depth, (ContFrame.of_cur a1).kind, r3.depth, r3.kind]; exact hk
      obtain ⟨_, _, _, b4, _, _⟩ := appendInline_LA t (r1.la.of_frame a1) hka
      exact ⟨appendInline_T t (r1.of_frame a1) hka, (r3.trans (ContFrame.of_cur a1)).trans b4⟩
    rcases hq with rfl | ⟨k, t0, rfl⟩
    · exact (step _ n t (h.of_frame m1) (ContFrame.of_cur m1)).1
    · obtain ⟨q1, q3⟩ := step _ k t0 (h.of_frame m1) (ContFrame.of_cur m1)
      exact (step _ n t q1 q3).1

/-! ### consumeLine -/

theorem consumeLine_i (p : LP) (h : p.i ≤ p.line.length) : p.consumeLine.i = p.line.length := by
  have ha : (p.advance (p.line.length - p.i)).i = p.line.length := by
    unfold LP.advance
    split
    · rename_i h0
      have : p.line.length - p.i = 0 := by simpa using h0
      omega
    · simp only
      obtain ⟨_, _, m3, _⟩ := markMatched_frame p
      have ml : p.markMatched.line = p.line := (markMatched_frame p).1.line
      rw [if_neg (by rw [m3, ml]; omega)]
      rw [(updateTab_frame _).2.2]
      simp only [m3]; omega
  unfold LP.consumeLine
  simp only
  split
  · exact ha
  · split
    · exact ha
    · exact ha

/-! ### After a child of the document has been closed at the end of the line -/

structure LBT (am : Bool) (N : Nat) (p : LP) : Prop where
  lb : LB am N p
  src : SrcOK N p
  top : TopB N p

/-- Closing a child of the document that is not a paragraph at the end of the line. -/
theorem TopA.closeN {Q : Nat → Prop} (x : PExt) {N : Nat} {p : LP} (h : TopA Q p) (hd : p.depth = 1)
    (hdv : ∃ b, spineGet p.root p.depth = some b) (hk1 : p.containerKind ≠ BK.paragraph)
    (hk2 : p.containerKind ≠ BK.setextHeading) (hlt : p.lineStart < N) :
    TopB N { p with root := replLast (closeBlock x p.source (N : Int)) p.root, depth := 0 } := by
  obtain ⟨b0, hb0⟩ := hdv
  rw [hd, spineGet_one] at hb0
  have hkind := containerKind_of_last hd hb0
  cases h with
  | empty he => rw [he] at hb0; cases hb0
  | old k hb ho hls hp =>
    have hb' : p.root.blocks = [] ++ [k] := hb
    have : b0 = k := by rw [(last_of_append hb').1] at hb0; cases hb0; rfl
    subst this
    obtain ⟨b, e1, e2⟩ := closeBlock_nonpara x p.source (N : Int) (by omega) b0 ho (by rw [← hkind]; exact hk1)
      (by rw [← hkind]; exact hk2)
    refine .closedN [] b ?_ trivial e2 hlt
    show (replLast _ p.root).blocks = _
    rw [replLast_blocks_append _ _ hb', e1]
  | closedAt _ _ _ hd0 => omega
  | new pre c hb hc ho _ _ _ _ =>
    have : b0 = c := by rw [(last_of_append hb).1] at hb0; cases hb0; rfl
    subst this
    obtain ⟨b, e1, e2⟩ := closeBlock_nonpara x p.source (N : Int) (by omega) b0 ho (by rw [← hkind]; exact hk1)
      (by rw [← hkind]; exact hk2)
    refine .closedN pre b ?_ hc e2 hlt
    show (replLast _ p.root).blocks = _
    rw [replLast_blocks_append _ _ hb, e1]

/-! ### endBlock -/

/-- Ending a block that is not a child of the document. -/
theorem endBlock_deep_T {Q : Nat → Prop} {am : Bool} {N : Nat} {p : LP} (x : PExt) (h : LT Q am N p)
    (hs : ¬ (p.state = stateDescending ∨ p.state = stateDescendTerminated)) (hd : 2 ≤ p.depth)
    (hnu : Univ p.containerKind = false) : LT QU am N (p.endBlock x) := by
  obtain ⟨e1, _, _, e4, _⟩ := endBlock_deep x h.la hs hd
  refine ⟨e1, h.src.of_tframe e4, ?_⟩
  rw [endBlock_eq x p hs]
  obtain ⟨m1, _, _, _⟩ := markMatched_frame p
  rw [closeContainer_eq x _ _ (by rw [m1.depth]; omega)]
  exact (h.top.of_frame m1).closeDeep x _ (by rw [m1.depth]; exact hd) (by rw [(ContFrame.of_cur m1).kind]; exact hnu)

/-- Ending a block that is a child of the document, once the line is consumed. -/
theorem endBlock_top_T {Q : Nat → Prop} {am : Bool} {N : Nat} {p : LP} (x : PExt) (h : LT Q am N p)
    (hs : p.state = stateLineConsumed) (hd : p.depth = 1) (hi : p.i = p.line.length)
    (hk1 : p.containerKind ≠ BK.paragraph) (hk2 : p.containerKind ≠ BK.setextHeading) : LBT am N (p.endBlock x) := by
  obtain ⟨e1, _⟩ := endBlock_top x h.la hs hd
  have hns : ¬ (p.state = stateDescending ∨ p.state = stateDescendTerminated) := by rw [hs]; decide
  obtain ⟨m1, _, m3, _⟩ := markMatched_frame p
  have tf : TreeFrame p (p.endBlock x) := by
    rw [endBlock_eq x p hns]
    exact (TreeFrame.of_cur m1 m3).trans (closeContainer_tframe x _ _ (by rw [m1.depth]; omega))
  refine ⟨e1, h.src.of_tframe tf, ?_⟩
  rw [endBlock_eq x p hns, closeContainer_eq x _ _ (by rw [m1.depth]; omega)]
  have hN : ((p.markMatched.lineStart : Int) + p.markMatched.i) = (N : Int) := by
    rw [m1.lineStart, m3, hi]
    have := h.src.lineLen
    omega
  rw [hN]
  have hm := (h.top.of_frame m1).closeN x (N := N) (by rw [m1.depth]; exact hd) (by rw [m1.root, m1.depth]; exact h.la.dv)
    (by rw [(ContFrame.of_cur m1).kind]; exact hk1) (by rw [(ContFrame.of_cur m1).kind]; exact hk2)
    (by rw [m1.lineStart]; exact h.src.lt)
  refine hm.of_eq ?_ rfl rfl
  show spineModify _ p.markMatched.root (p.markMatched.depth - 1) = _
  rw [m1.depth, hd]
  simp only [Nat.sub_self, spineModify_zero]

end CM.Proofs
