import CM.Proofs.InlNpTok
/-
C04, inline half — `finishLink` does not panic between `wrap` and the end of the link construction (`LinkInv`).
-/
namespace CM.Proofs.InlH
open CM CM.Model CM.Model.Inl CM.Gen
open Std.Do

set_option mvcgen.warning false

theorem PostNP.bind {α β} {P : IState → Prop} {m : IM α} {f : α → IM β} {Q : α → IState → Prop}
    {R : β → IState → Prop} (hm : PostNP P m Q) (hf : ∀ a, PostNP (Q a) (f a) R) : PostNP P (m >>= f) R := by
  intro s hs
  rw [run_bind]
  have := hm s hs
  cases hr : m.run s with
  | error e => rw [hr] at this; exact this
  | ok p =>
    rw [hr] at this
    exact hf p.1 p.2 this

theorem PostNP.of_triple {α} {P : IState → Prop} {m : IM α} {Q : α → IState → Prop}
    (h : ⦃fun s => ⌜P s⌝⦄ m ⦃⇓! r s => ⌜Q r s⌝⦄) : PostNP P m Q := (triple_iff_postNP P m Q).1 h

theorem PostNP.triple {α} {P : IState → Prop} {m : IM α} {Q : α → IState → Prop}
    (h : PostNP P m Q) : ⦃fun s => ⌜P s⌝⦄ m ⦃⇓! r s => ⌜Q r s⌝⦄ := (triple_iff_postNP P m Q).2 h

/-- strengthen the postcondition of a no-panic statement by a `⇓?` one -/
theorem PostNP.and_post {α} {P P' : IState → Prop} {m : IM α} {Q Q' : α → IState → Prop} (h : PostNP P m Q)
    (h' : Post P' m Q') : PostNP (fun s => P s ∧ P' s) m (fun a s => Q a s ∧ Q' a s) := by
  intro s hs
  have h1 := h s hs.1
  have h2 := h' s hs.2
  cases hr : m.run s with
  | error e => rw [hr] at h1; exact h1
  | ok p => rw [hr] at h1 h2; exact ⟨h1, h2⟩

theorem finishLink_postNP (lo hi : Int) (o N : Nat) (e : Int) (kind odi : Nat) (s0 : IState) :
    PostNP (fun s => s = s0 ∧ SP lo hi (some o) (odi + 1) N e s ∧ odi < s0.stack.size ∧ (s0.stack[odi]!).node = o)
      (finishLink kind odi) (fun _ _ => True) := by
  unfold finishLink
  refine PostNP.bind (Q := fun _ s => (SP lo hi (some o) (odi + 1) N e s ∧ s.stack = s0.stack.extract 0 (odi + 1)) ∧
      (odi < s0.stack.size ∧ (s0.stack[odi]!).node = o)) ?_ (fun _ => PostNP.of_triple ?_)
  · refine fun s hs => ?_
    have h1 := PostNP.of_triple (processEmphasis_np lo hi (some o) (odi + 1) N e s0) s ⟨hs.1, hs.2.1, by omega⟩
    cases hr : (Inl.processEmphasis (odi + 1)).run s with
    | error e => rw [hr] at h1; exact h1
    | ok p => rw [hr] at h1; exact ⟨h1, hs.2.2⟩
  · mvcgen [removeNode, delStack, setParent, modifyNode, -delStack_spec, -delStack_specS, -removeNode_spec,
      -removeNode_specS]
    all_goals (try (exact PostCond.np (fun _ _ => ⌜True⌝)))
    np_norm
    all_goals (try trivial)
    all_goals (try (exact fun h => h))
    all_goals (try (exact ExceptConds.entails.refl _))
    all_goals (
      obtain ⟨⟨hsp, hstk⟩, hodi, ho⟩ := ‹(SP _ _ _ _ _ _ _ ∧ _) ∧ _›
      have hsz : (‹IState›).stack.size = odi + 1 := by rw [hstk]; simp; omega)
    · have hbs := ‹(_ || _ || _) = true›
      simp only [Bool.or_eq_true, decide_eq_true_eq] at hbs
      simp -failIfUnchanged +zetaDelta only [] at *
      omega
    · have hbs := ‹odi > _›
      simp -failIfUnchanged +zetaDelta only [Array.size_append, Array.size_extract] at *
      omega
    · -- the opener's node has the root as its parent
      have hx := ‹(_ : Array DelimE)[odi]? = some _›
      have hno := ‹∀ (parent : Nat), (_ : Option Nat) = some parent → False›
      have hpm := ‹(Option.join _ : Option Nat) = _›
      have hen : (‹DelimE›).node = o := by
        simp -failIfUnchanged +zetaDelta only [] at hx
        rw [hstk] at hx
        have : (s0.stack.extract 0 (odi + 1))[odi]? = s0.stack[odi]? := by
          rw [Array.getElem?_extract]; simp; omega
        rw [this, Array.getElem?_eq_getElem hodi] at hx
        have := Option.some.inj hx
        rw [← this, ← ho, getElem!_pos s0.stack odi hodi]
      have hl := stkOf_length s0
      have hsk : stkOf ‹IState› = (stkOf s0).take odi ++ [o] := by
        have e1 : stkOf ‹IState› = (stkOf s0).take (odi + 1) := stkOf_extract s0 (odi + 1) _ hstk
        rw [e1, List.take_succ_eq_append_getElem (by omega), stkOf_get s0 odi hodi, ho]
      have htake : (stkOf ‹IState›).take (odi + 1) = (stkOf s0).take odi ++ [o] := by
        rw [hsk]; exact List.take_of_length_le (by simp; omega)
      have hpo : pmOf ‹IState› o = some 0 := hsp.1.low.2 o (by rw [htake]; simp)
      rw [hen] at hpm
      exact hno 0 (hpm.symm.trans hpo)
    · have hx := ‹(_ : Array DelimE)[odi]? = _›
      have hno := ‹∀ (e : DelimE), (_ : Option DelimE) = some e → False›
      simp -failIfUnchanged +zetaDelta only [] at hx
      rw [Array.getElem?_eq_getElem (by omega)] at hx
      exact hno _ hx.symm

/-- `finishLink`: if the state is between `wrap` and the end of a link construction (`LinkInv`), no panic, and the
    invariant without pending link afterwards. The precondition has the ghost data under an existential; the
    postcondition quantifies over it. -/
@[spec 30000]
theorem finishLink_np (kind odi : Nat) (s0 : IState) :
    ⦃fun s => ⌜s = s0 ∧ ∃ (lo hi : Int) (o N : Nat) (K E : Int), LinkInv lo hi o N odi K E true s0⌝⦄
    finishLink kind odi
    ⦃⇓! _ s => ⌜∀ (lo hi : Int) (o N : Nat) (K E : Int), LinkInv lo hi o N odi K E true s0 →
        SPT lo hi E s ∧ s.unparsedPos = s0.unparsedPos ∧ s.ignoreNextIndent = s0.ignoreNextIndent⌝⦄ := by
  apply PostNP.triple
  intro s hs
  obtain ⟨rfl, lo, hi, o, N, K, E, hL⟩ := hs
  have hsp : SP lo hi (some o) (odi + 1) N E s := by simpa using hL.sp
  have h1 := finishLink_postNP lo hi o N E kind odi s s ⟨rfl, hsp, hL.osk.1, hL.osk.2⟩
  have h2 := Post.of_triple (finishLink_specP kind odi s) s rfl
  cases hr : (finishLink kind odi).run s with
  | error e => rw [hr] at h1; exact h1
  | ok p => rw [hr] at h2; exact h2

end CM.Proofs.InlH
