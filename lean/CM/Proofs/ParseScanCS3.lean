import CM.Proofs.ParseScanCS2
import CM.Proofs.InlNpCode
/-
C02 / C04, inline halves, for the whole of `Parse` — **`stripCodeSpanSpace` keeps the chain and does not panic**
(`strip_W`).  The one panic site of the model (`slice[-1:]`: a single piece that vanishes when its first space is taken off)
is not reachable: a piece that has a byte other than a space does not vanish.
-/
namespace CM.Proofs.PSc
open CM CM.Model CM.Model.Inl CM.Gen CM.Proofs CM.Proofs.InlH
open Std.Do

set_option mvcgen.warning false

/-- some piece that is not an Indent piece has a byte other than a space -/
def NonSp (c : ICtx) (slice : Array CSN) : Prop :=
  ∃ n ∈ slice.toList, n.kind ≠ IK.indent ∧ isOnlySpaces (c.srcA.extract n.start.toNat n.stop.toNat).toList = false

theorem chainL_mem : ∀ {l : List CSN} {lo hi : Int}, CsChainL lo hi l → ∀ n ∈ l, lo ≤ n.start ∧ n.start ≤ n.stop ∧ n.stop ≤ hi
  | [], _, _, _, n, hn => by cases hn
  | f :: rest, _, _, h, n, hn => by
    obtain ⟨g1, _, _, g4, g5⟩ := h
    rcases List.mem_cons.1 hn with rfl | hn'
    · exact ⟨g1, g4, g5.le⟩
    · obtain ⟨a, b, d⟩ := chainL_mem g5 n hn'
      exact ⟨by omega, b, d⟩

theorem NonSp.size_pos {c : ICtx} {slice : Array CSN} (h : NonSp c slice) : 0 < slice.size := by
  obtain ⟨n, hn, _⟩ := h
  have h1 : slice.toList.length = slice.size := Array.length_toList
  have := List.length_pos_of_mem hn
  omega

theorem NonSp.single {c : ICtx} {slice : Array CSN} (h : NonSp c slice) (h1 : slice.size = 1) :
    (slice[0]!).kind ≠ IK.indent ∧
      isOnlySpaces (c.srcA.extract (slice[0]!).start.toNat (slice[0]!).stop.toNat).toList = false := by
  obtain ⟨n, hn, h2, h3⟩ := h
  have : n = slice[0]! := by
    have hl : slice.toList.length = 1 := by rw [Array.length_toList]; exact h1
    match hq : slice.toList, hl, hn with
    | [x], _, hn =>
      simp only [List.mem_singleton] at hn
      rw [getElem!_pos slice 0 (by omega)]
      have : slice.toList[0]? = some x := by rw [hq]; rfl
      rw [Array.getElem?_toList, Array.getElem?_eq_getElem (by omega)] at this
      rw [hn]; exact (Option.some.inj this).symm
  rw [← this]
  exact ⟨h2, h3⟩

/-- a one-byte slice that is a space is only spaces -/
theorem onlySpaces_one (a : Array UInt8) (p : Nat) (hp : p < a.size) (h : a[p]! = SP) :
    isOnlySpaces (a.extract p (p + 1)).toList = true := by
  have : (a.extract p (p + 1)).toList = [a[p]!] := by
    rw [Array.toList_extract, getElem!_pos a p hp]
    have hl : p < a.toList.length := by rw [Array.length_toList]; exact hp
    rw [List.extract_eq_take_drop]
    rw [List.drop_eq_getElem_cons hl]
    simp
  rw [this, h]
  rfl

/-- the result of the two surgeries -/
theorem strip_result {lo hi : Int} {slice : Array CSN} (hch : CsChain lo hi slice) (hsz : 0 < slice.size) (x3 x : Array CSN)
    (h3 : if csFirstGone slice[0]! = true then True ∧ x3 = (slice.set! 0 (csFirst' slice[0]!)).extract 1
      else True ∧ x3 = slice.set! 0 (csFirst' slice[0]!))
    (h : if csLastGone x3[x3.size - 1]! = true then
        True ∧ x = (x3.set! (x3.size - 1) (csLast' x3[x3.size - 1]!)).extract 0 (x3.size - 1)
      else True ∧ x = x3.set! (x3.size - 1) (csLast' x3[x3.size - 1]!)) : CsChain lo hi x := by
  have h1 := chain_afterFirst hch hsz
  have e3 : x3 = (if csFirstGone slice[0]! = true then (slice.set! 0 (csFirst' slice[0]!)).extract 1
      else slice.set! 0 (csFirst' slice[0]!)) := by
    split at h3 <;> rename_i hg <;> simp only [hg, if_true, if_false, Bool.false_eq_true] <;> exact h3.2
  rw [← e3] at h1
  have h2 := chain_afterLast' h1
  have e : x = (if csLastGone x3[x3.size - 1]! = true then
      (x3.set! (x3.size - 1) (csLast' x3[x3.size - 1]!)).extract 0 (x3.size - 1)
      else x3.set! (x3.size - 1) (csLast' x3[x3.size - 1]!)) := by
    split at h <;> rename_i hg <;> simp only [hg, if_true, if_false, Bool.false_eq_true] <;> exact h.2
  rw [e]; exact h2

theorem mem_of_split {α} {l p s : List α} {n : α} (h : l = p ++ n :: s) : n ∈ l := by rw [h]; simp

/-- the panic site of `stripCodeSpanSpace` is not reached -/
theorem no_panic_first {c : ICtx} {slice : Array CSN} {lo hi : Int} (hns : NonSp c slice) (hch : CsChain lo hi slice)
    (hlo : 0 ≤ lo) (hhi : hi ≤ c.srcA.size) (hs : (slice.size == 1 && csFirstGone slice[0]!) = true)
    (hok : (slice[0]!).kind ≠ IK.indent → c.srcA[(slice[0]!).start.toNat]! = SP) : False := by
  simp only [Bool.and_eq_true, beq_iff_eq] at hs
  obtain ⟨h1, hg⟩ := hs
  obtain ⟨hk, hb⟩ := hns.single h1
  obtain ⟨g1, g2, g3, g4, g5⟩ := chain_first hch (by omega)
  have hkt : (slice[0]!).kind = IK.text := by
    rcases g2 with h | h
    · exact h
    · exact absurd h hk
  have hlt := g3 hkt
  unfold csFirstGone csFirst' at hg
  have hki : ((slice[0]!).kind == IK.indent) = false := by simpa using hk
  simp only [hki, Bool.false_eq_true, if_false] at hg
  -- the piece is one byte long
  have hlen : (slice[0]!).stop = (slice[0]!).start + 1 := by
    unfold CSN.len spanLenI at hg
    simp only [] at hg
    split at hg
    · rename_i hc
      simp only [beq_iff_eq] at hg
      omega
    · rename_i hc
      simp only [Bool.and_eq_true, decide_eq_true_eq, not_and, Int.not_le] at hc
      omega
  have := onlySpaces_one c.srcA (slice[0]!).start.toNat (by omega) (hok hk)
  have e : (slice[0]!).stop.toNat = (slice[0]!).start.toNat + 1 := by omega
  rw [e, this] at hb
  cases hb

/-- a panic site is not reached (with a fixed postcondition, for join points) -/
theorem goPanic_npF {α} (msg : String) : ⦃fun _ => ⌜False⌝⦄ (goPanic msg : IM α) ⦃⇓! _ _ => ⌜False⌝⦄ :=
  goPanic_np msg _

theorem strip_chain (c : ICtx) (slice : Array CSN) (lo hi : Int) :
    ⦃fun _ => ⌜CsChain lo hi slice ∧ 0 ≤ lo ∧ hi ≤ c.srcA.size⌝⦄ stripCodeSpanSpace c slice
    ⦃⇓! r _ => ⌜CsChain lo hi r⌝⦄ := by
  mvcgen +jp [stripCodeSpanSpace, goPanic_npF, -stripCodeSpanSpace_spec, -goPanic_np]
  case inv1 => exact PostCond.np (fun p _ => ⌜p.2 = true → NonSp c slice⌝)
  all_goals (try (exact (PostCond.np (fun _ _ => ⌜True⌝))))
  np_norm
  all_goals (try (exact fun h => h))
  all_goals (try (exact ExceptConds.entails.refl _))
  all_goals (obtain ⟨hch, hlo, hhi⟩ := ‹CsChain _ _ _ ∧ _›)
  -- the loop that looks for a byte other than a space
  · obtain ⟨a1, a2, a3⟩ := chainL_mem hch _ (mem_of_split ‹slice.toList = _›)
    exact ⟨trivial, by omega, a2, by omega⟩
  · obtain ⟨-, -, -, -, hr⟩ := ‹_ = _ ∧ (0 : Int) ≤ _ ∧ _›
    refine fun _ => ⟨_, mem_of_split ‹slice.toList = _›, by simpa using ‹(_ != IK.indent) = true›, ?_⟩
    rw [← hr]
    simpa using ‹(!isOnlySpaces _) = true›
  · assumption
  · assumption
  · exact fun h => by cases h
  -- nothing but spaces
  · exact hch
  all_goals (
    have hns : NonSp c slice := (‹_ = true → NonSp c slice›) (by simpa using ‹¬(!_) = true›)
    have hsz := hns.size_pos
    have hf := chain_first hch hsz
    have hl := chain_last hch hsz)
  -- first piece Indent, last piece Indent
  · exact strip_result hch hsz _ _ (by assumption) (by assumption)
  · exact (no_panic_first hns hch hlo hhi ‹(_ && _) = true›
      (fun hk => absurd (by simpa using ‹(_ == IK.indent) = true›) hk)).elim
  -- first piece Indent, last piece Text
  · have hk : (slice[slice.size - 1]!).kind = IK.text := by
      rcases hl.2.1 with h | h
      · exact h
      · exact absurd (by simpa using h) ‹¬(_ == IK.indent) = true›
    have := hl.2.2.1 hk
    exact ⟨trivial, by show (0 : Int) ≤ (slice[slice.size - 1]!).stop - 1; omega,
      by show (slice[slice.size - 1]!).stop - 1 < _; omega⟩
  · exact hch
  · exact strip_result hch hsz _ _ (by assumption) (by assumption)
  · exact (no_panic_first hns hch hlo hhi ‹(_ && _) = true›
      (fun hk => absurd (by simpa using ‹(_ == IK.indent) = true›) hk)).elim
  -- first piece Text
  · have hk : (slice[0]!).kind = IK.text := by
      rcases hf.2.1 with h | h
      · exact h
      · exact absurd (by simpa using h) ‹¬(_ == IK.indent) = true›
    have := hf.2.2.1 hk
    exact ⟨trivial, by show (0 : Int) ≤ (slice[0]!).start; omega, by show (slice[0]!).start < _; omega⟩
  · exact hch
  · exact strip_result hch hsz _ _ (by assumption) (by assumption)
  · refine (no_panic_first hns hch hlo hhi ‹(_ && _) = true› (fun _ => ?_)).elim
    have hq := ‹_ = _ ∧ (0 : Int) ≤ (slice[0]!).start ∧ _ ∧ _›
    have hn := ‹¬(!_ || !_) = true›
    simp only [Bool.or_eq_true, Bool.not_eq_true', not_or, Bool.not_eq_false] at hn
    have := hq.2.2.2
    rw [hn.1] at this
    simpa using this.symm
  · exact hch
  · exact strip_result hch hsz _ _ (by assumption) (by assumption)
  · refine (no_panic_first hns hch hlo hhi ‹(_ && _) = true› (fun _ => ?_)).elim
    have hq := ‹_ = _ ∧ (0 : Int) ≤ (slice[0]!).start ∧ _ ∧ _›
    have hn := ‹¬(!_ || !_) = true›
    simp only [Bool.or_eq_true, Bool.not_eq_true', not_or, Bool.not_eq_false] at hn
    have := hq.2.2.2
    rw [hn.1] at this
    simpa using this.symm
  · have hk : (slice[slice.size - 1]!).kind = IK.text := by
      rcases hl.2.1 with h | h
      · exact h
      · exact absurd (by simpa using h) ‹¬(_ == IK.indent) = true›
    have := hl.2.2.1 hk
    exact ⟨trivial, by show (0 : Int) ≤ (slice[slice.size - 1]!).stop - 1; omega,
      by show (slice[slice.size - 1]!).stop - 1 < _; omega⟩
  · exact hch
  · exact strip_result hch hsz _ _ (by assumption) (by assumption)
  · refine (no_panic_first hns hch hlo hhi ‹(_ && _) = true› (fun _ => ?_)).elim
    have hq := ‹_ = _ ∧ (0 : Int) ≤ (slice[0]!).start ∧ _ ∧ _›
    have hn := ‹¬(!_ || !_) = true›
    simp only [Bool.or_eq_true, Bool.not_eq_true', not_or, Bool.not_eq_false] at hn
    have := hq.2.2.2
    rw [hn.1] at this
    simpa using this.symm

end CM.Proofs.PSc
