import CM.Proofs.InlSpanRunA
/-
C02, inline half — the second group of cases of the tokenizer (`tokB`: hard line breaks, code spans, autolinks, HTML
tags).
-/
namespace CM.Proofs.InlH
open CM CM.Model CM.Model.Inl CM.Gen
open Std.Do

set_option mvcgen.warning false

theorem length_takeWhile_le' {α} (p : α → Bool) : ∀ l : List α, (l.takeWhile p).length ≤ l.length := by
  intro l
  induction l with
  | nil => simp
  | cons a t ih =>
    rw [List.takeWhile_cons]
    split
    · simp only [List.length_cons]; omega
    · simp

theorem hardBreak_le (l : Bytes) : (parseHardLineBreakSpace l).1 ≤ l.length := by
  unfold parseHardLineBreakSpace
  have h1 : ((l.take numSpaces).takeWhile (· == CM.SP)).length ≤ (l.take numSpaces).length := length_takeWhile_le' _ _
  have h2 : (l.take numSpaces).length ≤ l.length := by simp; omega
  dsimp only
  split
  · dsimp only; omega
  · rename_i hn
    have h3 : ((l.drop numSpaces).takeWhile (fun c => c == CM.SP || c == LF || c == CR)).length ≤
        (l.drop numSpaces).length := length_takeWhile_le' _ _
    have h4 : (l.drop numSpaces).length = l.length - numSpaces := by simp
    have h5 : (l.take numSpaces).length ≤ numSpaces := by simp; omega
    dsimp only
    omega

theorem parseCodeSpan_specP (c : ICtx) (pos : Int) (s0 : IState) :
    ⦃fun s => ⌜s = s0⌝⦄ parseCodeSpan c pos
    ⦃⇓? r s => ⌜s = s0 ∧ (parseCodeSpan c pos).run s0 = .ok (r, s0)⌝⦄ := by
  apply Post.triple
  intro s hs
  subst hs
  have h1 := (parseCodeSpan_ro c pos).post s s rfl
  cases hr : (parseCodeSpan c pos).run s with
  | error e => trivial
  | ok p =>
    rw [hr] at h1
    obtain ⟨r, s'⟩ := p
    have : s' = s := h1
    subst this
    exact ⟨rfl, rfl⟩

theorem hardBreak_le' {c : ICtx} {pos se : Int} {r : Bytes} (h0 : 0 ≤ pos) (h1 : pos ≤ se)
    (h2 : se ≤ (c.srcA.size : Int)) (hr : r = (c.srcA.extract pos.toNat se.toNat).toList) :
    ((parseHardLineBreakSpace r).1 : Int) ≤ se - pos := by
  have := hardBreak_le r
  have hl := slice_len c.srcA pos se h0 h1 h2
  rw [← hr] at hl
  omega

/-- the node found by `nodeIndexForPosition … e` does not end before `e` -/
theorem posOK_of_index' (c : ICtx) (hc : c.unparsed = c.unparsedL.toArray) (u : Nat) (e : Int) (he : 0 ≤ e) (i : Nat)
    (h : nodeIndexForPosition (c.unparsedL.drop u) e.toNat 0 = some i) : e ≤ (c.unparsed[u + i]!).label.stop := by
  obtain ⟨j, e', hj, h1, h2⟩ := nodeIndex_spec _ _ _ _ h
  rw [drop_get c hc u j hj] at h2
  have : i = j := by omega
  subst this
  omega

/-- `alloc n; addToRoot id` for a non-empty finished node `n` at the frontier (whatever happens to `unparsedPos` and
    `ignoreNextIndent` next) -/
theorem SP.allocRoot {lo hi F : Int} {s : IState} (h : SPT lo hi F s) (n : INode) (hk : n.kids = #[]) (hs : F ≤ n.start)
    (hv : n.start ≤ n.stop) (hh : n.stop ≤ hi) (hsub : WFL n.start n.stop n.sub) (u : Nat) (ig : Bool) (E : Int)
    (hE : n.stop = E) :
    SPT lo hi E
      ⟨addRootA s.nodes n, (s.parentMap.push none).set! s.nodes.size (some 0), u, s.stack, ig⟩ := by
  subst hE
  exact SP.addRoot h n hk hs hv hh hsub rfl rfl (by simp)
    (fun i hlt' => pm_push_set_lt _ _ _ (by rw [h.2]; exact Nat.le_refl _) i hlt')

theorem WFL_autolink (pos e : Int) (h : pos + 2 ≤ e) : WFL pos e [mkInline IK.text (pos + 1) (e - 1)] := by
  rw [WFL_cons, WFL_nil]
  refine ⟨by show pos ≤ pos + 1; omega, ?_, by show e - 1 ≤ e; omega⟩
  exact WFT_leaf _ (by show pos + 1 ≤ e - 1; omega)

theorem collectCodeSpan_specP (c : ICtx) (cs : CodeSpan) (s0 : IState) :
    ⦃fun s => ⌜s = s0⌝⦄ collectCodeSpan c cs
    ⦃⇓? r s => ⌜(collectCodeSpan c cs).run s0 = .ok (r, s)⌝⦄ := run_spec _ s0

@[spec 20000]
theorem tokSp_specP (L : Lims) (c : ICtx) (hU : UnpOK c L) (s : IState) (pos plainStart : Int) (done : Bool) :
    ⦃fun st => ⌜st = s ∧ RunInv L c (pos, plainStart, done) s ∧ s.unparsedPos < c.unparsed.size ∧
        pos < spanEndOf c s⌝⦄
    tokSp c s pos plainStart done
    ⦃⇓? r st => ⌜RunInv L c r.value st⌝⦄ := by
  mvcgen [tokSp, isLastSpan, addText, setIgnoreNextIndent]
  all_goals (try (exact fun h => h))
  all_goals (try (exact ExceptConds.entails.refl _))
  all_goals tok_setup
  all_goals unp_norm
  all_goals (try (have hhb := hardBreak_le' ‹0 ≤ pos› ‹pos ≤ _› ‹_ ≤ (c.srcA.size : Int)› ‹_ = Array.toList _›))
  all_goals (first
    | (refine ⟨trivial, ?_, ?_⟩
       · sp_here
       · omega)
    | (refine ⟨?_, ?_, ?_⟩
       · sp_here
       · omega
       · intro _; omega)
    | skip)

@[spec 20000]
theorem tokCode_specP (L : Lims) (c : ICtx) (hU : UnpOK c L) (hT : TokScan c L.hi) (s : IState) (pos plainStart : Int)
    (done : Bool) (hb : 0 ≤ pos ∧ pos < c.srcA.size ∧ c.srcA[pos.toNat]! = 0x60) :
    ⦃fun st => ⌜st = s ∧ RunInv L c (pos, plainStart, done) s ∧ s.unparsedPos < c.unparsed.size ∧
        pos < spanEndOf c s⌝⦄
    tokCode c pos plainStart done
    ⦃⇓? r st => ⌜RunInv L c r.value st⌝⦄ := by
  mvcgen [tokCode, addText, parseCodeSpan_specP, collectCodeSpan_specP, -collectCodeSpan_spec, -collectCodeSpan_specS,
    -parseCodeSpan_spec]
  all_goals (try (exact fun h => h))
  all_goals (try (exact ExceptConds.entails.refl _))
  all_goals tok_setup
  all_goals (
    have hrun := ‹StateT.run (parseCodeSpan _ _) _ = _›
    have hcode := hT.code _ _ _ _ hb.1 hb.2.1 hb.2.2 hrun hu hlt)
  -- `addText` before the code span
  · obtain ⟨c1, c2, c3, -⟩ := hcode.1 ‹_›
    exact ⟨trivial, hsp, by omega⟩
  -- the code span
  · obtain ⟨c1, c2, c3, c4⟩ := hcode.1 ‹_›
    obtain ⟨hq, hq2, -⟩ := ‹SPT _ _ (max _ _) _ ∧ _›
    obtain ⟨n, n1, n2, n3, n4, n5, n6, n7, n8, n9⟩ := c4 _ _ hq2 ‹StateT.run (collectCodeSpan _ _) _ = _›
    have hfin := SP.addRoot (SP.mono (F' := n.start) hq (by omega) (by omega)) n n1 (Int.le_refl _) (by omega) (by omega)
      n4 n5 n6 n7 n8
    rw [n3] at hfin
    exact ⟨hfin, Int.le_refl _, n9⟩
  -- no code span
  · have := hcode.2 ‹_›
    exact ⟨hsp, by show plainStart ≤ (CodeSpan.content _).start; omega, hpo⟩

@[spec 20000]
theorem tokLt_specP (L : Lims) (c : ICtx) (hU : UnpOK c L) (hT : TokScan c L.hi) (s : IState) (pos plainStart : Int)
    (done : Bool) (hb : 0 ≤ pos ∧ pos < c.srcA.size ∧ c.srcA[pos.toNat]! = 0x3C) :
    ⦃fun st => ⌜st = s ∧ RunInv L c (pos, plainStart, done) s ∧ s.unparsedPos < c.unparsed.size ∧
        pos < spanEndOf c s⌝⦄
    tokLt c s pos plainStart done
    ⦃⇓? r st => ⌜RunInv L c r.value st⌝⦄ := by
  mvcgen [tokLt, addText, alloc, addToRoot, nodeLen, getNode, setParent, modifyNode, setUnparsedPos,
    -addToRoot_spec, -addToRoot_specS]
  all_goals (try (exact fun h => h))
  all_goals (try (exact ExceptConds.entails.refl _))
  all_goals tok_setup
  all_goals (obtain ⟨a0, a1, a2, a3⟩ := ‹0 ≤ pos ∧ _ ∧ _ ∧ _›)
  -- facts about the scanners
  all_goals (try (have hal := autolink_le hT a0 a1 a2 a3 ‹0 ≤ parseAutolink _›))
  all_goals (try (
    have hhv := ‹SpanI.isValid _ = true›
    obtain ⟨w1, w2, w3, w4⟩ := hT.html _ pos _ _ hb.1 hb.2.1 hb.2.2 (Prod.eta _).symm hhv))
  -- the dead branch of `addToRoot` (the new node is not empty)
  all_goals (try (
    exfalso
    have h2 := ‹(spanLenI _ _ == 0) = true›
    rw [get!_push_eq] at h2
    dsimp only at h2
    have := spanLen_zero h2 (by omega)
    omega))
  all_goals (try simp only [RunInv, ForInStep.value])
  all_goals (first
    | exact ⟨trivial, hsp, by omega⟩
    | exact ⟨hsp, by omega, hpo⟩
    | (obtain ⟨hq, hq2, -⟩ := ‹SPT _ _ (max _ _) _ ∧ _›
       refine ⟨?_, Int.le_refl _, ?_⟩
       · refine SP.allocRoot (SP.mono (F' := pos) hq (by omega) (by omega)) _ ?_ ?_ ?_ ?_ ?_ _ _ _ ?_
         all_goals first
           | rfl
           | (dsimp only; omega)
           | (dsimp only; refine WFL_autolink _ _ ?_; omega)
           | exact w4
       · first
           | exact posOK_of hq2 (by omega)
           | exact fun _ => posOK_of_index' c hU.arr _ _ (by omega) _ ‹_›
           | exact fun h => absurd h (Nat.lt_irrefl _)))

end CM.Proofs.InlH
