import CM.Proofs.EolRd14
/-
C14 (a), the paragraph hook under the position map — part 15: steps inside a text node, and the character-reference branch
of `collectTextNodes`.
-/
namespace CM.Proofs.ERd
open CM CM.Model CM.Gen CM.Proofs CM.Proofs.RDS CM.Proofs.BSp

section
variable {e X : Bytes} {k : Nat} {is : List Tree} {r : Rd}

/-- In a text node the reader sees a line feed only where the source has one. -/
theorem cur_ne_LF_of_byte (hc : Ctx (X.take k) is) (h : RI (X.take k) is r) {t : Tree} {rest : List Tree}
    (hs : r.spans = t :: rest) (hi : isIndent t = false) (hb : (X.take k).getD r.pos 0 ≠ LF) :
    (r.current (X.take k)).1 ≠ LF := by
  rw [current_live hc h hs, hi]
  simp only [Bool.false_eq_true, if_false]
  split
  · exact nullRepl_ne_LF _
  · exact hb

/-- A byte of a text node that is not its last byte is not a line feed. -/
theorem inner_byte_ne_LF (hc : Ctx (X.take k) is) {t : Tree} (hm : t ∈ is) (hi : isIndent t = false) {j : Nat}
    (h1 : t.label.start ≤ (j : Int)) (h2 : (j : Int) + 1 < t.label.stop) : (X.take k).getD j 0 ≠ LF := by
  intro hb
  have := ((hc.ok t hm).2.2.2 hi j h1 (by omega)).1 hb
  omega

/-- `m` steps inside a text node. -/
theorem iter_within (he : StdEol e) (hcr : NoCR X) (hc : Ctx (X.take k) is) (htab : TabsOK (X.take k) is) :
    ∀ (m : Nat) (r : Rd), RJ (X.take k) is r → ∀ t rest, r.spans = t :: rest → isIndent t = false →
      ((r.pos + m : Nat) : Int) < t.label.stop →
      List.foldl (fun r _ => (Rd.next (toEol e (X.take k)) r).snd) (mapRd e X r) (List.range m) =
        mapRd e X (List.foldl (fun r _ => (Rd.next (X.take k) r).snd) r (List.range m)) ∧
      RJ (X.take k) is (List.foldl (fun r _ => (Rd.next (X.take k) r).snd) r (List.range m)) ∧
      (List.foldl (fun r _ => (Rd.next (X.take k) r).snd) r (List.range m)).pos = r.pos + m ∧
      (List.foldl (fun r _ => (Rd.next (X.take k) r).snd) r (List.range m)).spans = r.spans ∧
      mu (X.take k) (List.foldl (fun r _ => (Rd.next (X.take k) r).snd) r (List.range m)) ≤ mu (X.take k) r ∧
      mu (toEol e (X.take k)) (mapRd e X (List.foldl (fun r _ => (Rd.next (X.take k) r).snd) r (List.range m))) ≤
        mu (toEol e (X.take k)) (mapRd e X r) := by
  intro m
  induction m with
  | zero => intro r h t rest _ _ _; exact ⟨rfl, h, rfl, rfl, Nat.le_refl _, Nat.le_refl _⟩
  | succ m ih =>
    intro r h t rest hs hi hlt
    obtain ⟨a1, a2, a3, a4, a5, a6⟩ := ih r h t rest hs hi (by omega)
    rw [List.range_succ, List.foldl_append, List.foldl_append, a1]
    simp only [List.foldl_cons, List.foldl_nil]
    generalize List.foldl (fun r _ => (Rd.next (X.take k) r).snd) r (List.range m) = rm at a2 a3 a4 a5 a6
    have hsm : rm.spans = t :: rest := by rw [a4]; exact hs
    obtain ⟨hmem, hp, n1, n2, n3⟩ := live_facts hc a2.1 hsm
    have hbyte := inner_byte_ne_LF hc hmem hi n1 (by rw [a3]; omega)
    have hne := cur_ne_LF_of_byte hc a2.1 hsm hi hbyte
    obtain ⟨p1, p2, p3⟩ := plain_pack (e := e) he hcr hc htab a2 hne
    have hform := ((next_spec hc a2.1).2.2.2.2.2.2 t rest hsm hi).2 (by rw [a3]; omega)
    rw [p1]
    have hok : (rm.next (X.take k)).1 = true := by rw [hform]
    obtain ⟨q1, q2⟩ := p3 hok
    refine ⟨rfl, p2, ?_, ?_, by omega, by omega⟩
    · rw [hform]; show rm.pos + 1 = _; omega
    · rw [hform]; exact a4

/-- The bytes the reader has in front of it in its node, on both sides. -/
theorem remaining_map (he : StdEol e) (hcr : NoCR X) (hc : Ctx (X.take k) is) (htab : TabsOK (X.take k) is)
    (h : RI (X.take k) is r) {t : Tree} {rest : List Tree} (hs : r.spans = t :: rest) :
    r.remainingNodeBytes (X.take k) = (((X.take k).drop r.pos).take (t.label.stop.toNat - r.pos), r) ∧
    (mapRd e X r).remainingNodeBytes (toEol e (X.take k)) =
      (toEol e (((X.take k).drop r.pos).take (t.label.stop.toNat - r.pos)), mapRd e X r) := by
  have hc' := ctx_map (e := e) he hcr hc htab
  obtain ⟨hm, hp, n1, n2, n3⟩ := live_facts hc h hs
  have hne := stdEol_ne_nil he
  constructor
  · unfold Rd.remainingNodeBytes
    rw [currentNode_eq hc h, hs]
    rfl
  · unfold Rd.remainingNodeBytes
    rw [currentNode_eq hc' (ri_map h), mapRd_spans hs]
    simp only [List.head?_cons]
    refine Prod.ext ?_ rfl
    show ((toEol e (X.take k)).drop (eolPos e X r.pos)).take ((mapTree (eolPosZ e X) t).label.stop.toNat - eolPos e X r.pos) = _
    have hpk : r.pos ≤ k := Nat.le_of_lt (lt_of_lt_take hp).1
    have hstopk : t.label.stop.toNat ≤ (X.take k).length := by omega
    have hstopk' : t.label.stop.toNat ≤ k := by have := (List.length_take_le k X); omega
    rw [map_stop, eolPosZ_toNat', ← eolPos_take e X hpk, ← eolPos_take e X hstopk', drop_toEol e hne]
    have hadd := eolPos_add e (X.take k) r.pos (t.label.stop.toNat - r.pos)
    have hsum : r.pos + (t.label.stop.toNat - r.pos) = t.label.stop.toNat := by omega
    rw [hsum] at hadd
    have : eolPos e (X.take k) t.label.stop.toNat - eolPos e (X.take k) r.pos =
        eolPos e ((X.take k).drop r.pos) (t.label.stop.toNat - r.pos) := by omega
    rw [this, take_toEol e hne]

/-- The positions `[pos, pos + n)` of a text node hold no line feed when the last of them does not. -/
theorem pos_add_noLF (he : StdEol e) (hc : Ctx (X.take k) is) (h : RI (X.take k) is r) {t : Tree} {rest : List Tree}
    (hs : r.spans = t :: rest) (hi : isIndent t = false) (n : Nat) (hn : 1 ≤ n)
    (hle : ((r.pos + n : Nat) : Int) ≤ t.label.stop) (hlast : (X.take k).getD (r.pos + n - 1) 0 ≠ LF) :
    eolPos e X (r.pos + n) = eolPos e X r.pos + n := by
  obtain ⟨hm, hp, n1, n2, n3⟩ := live_facts hc h hs
  have hnoLF : ∀ i, i < n → (X.take k).getD (r.pos + i) 0 ≠ LF := by
    intro i hi'
    by_cases hlt : i + 1 < n
    · exact inner_byte_ne_LF hc hm hi (by omega) (by omega)
    · have : r.pos + i = r.pos + n - 1 := by omega
      rw [this]; exact hlast
  have key : ∀ i, i ≤ n → eolPos e X (r.pos + i) = eolPos e X r.pos + i := by
    intro i
    induction i with
    | zero => intro _; rfl
    | succ i ih =>
      intro hi'
      have := eolPos_succ_ne (e := e) (X := X) (k := k) he (j := r.pos + i) (by omega) (hnoLF i (by omega))
      rw [show r.pos + (i + 1) = r.pos + i + 1 by omega, this, ih (by omega)]
      omega
  exact key n (Nat.le_refl _)

end

end CM.Proofs.ERd
