import CM.Proofs.InlShapeStkRun
import CM.Proofs.InlShapeLeaf
/-
C13, inline half — emphasis, strong emphasis, links, images: from the positional facts of the state invariant `Wv`
to `Spec.shapeAt`, for every node (any depth) of the new inline children of a container
(`parseInlines_shape_em`), lifted through `Rewrite` (`rewriteE_shape_em`).
Each clause carries the length condition under which the positional facts ARE the clause (`start + 2 ≤ stop` for
emphasis, `start + 4 ≤ stop` for strong emphasis, `start < stop` for a link, `start + 2 ≤ stop` for an image):
that spans are this long is a statement about the ORDER of spans (C02 / C03, inline half), not about their ends.
-/
namespace CM.Proofs.InlH
open CM CM.Model CM.Model.Inl CM.Spec

/-! ### from positions to the clauses -/

theorem two_take {α} (l : List α) (h : 2 ≤ l.length) : l.take 2 = [l[0], l[1]] := by
  match l, h with
  | a :: b :: r, _ => rfl

theorem two_drop {α} (l : List α) (h : 2 ≤ l.length) : l.drop (l.length - 2) = [l[l.length - 2], l[l.length - 1]] := by
  have h1 : l.length - 2 < l.length := by omega
  rw [List.drop_eq_getElem_cons h1]
  have h2 : l.length - 2 + 1 < l.length := by omega
  rw [List.drop_eq_getElem_cons h2]
  have h3 : l.length - 2 + 1 + 1 = l.length := by omega
  rw [h3, List.drop_length]
  have h4 : l.length - 2 + 1 = l.length - 1 := by omega
  simp only [h4]

section
variable (src : Bytes)

/-- the bytes of a slice, by position -/
theorem slice_get (p q i : Nat) (hq : q ≤ src.length) (hi : p + i < q) :
    ((src.drop p).take (q - p))[i]'(by rw [slice_length src p q (by omega) hq]; omega) = src[p + i]'(by omega) := by
  have := slice_getElem src p q i hq hi
  rw [List.getElem?_eq_getElem (by rw [slice_length src p q (by omega) hq]; omega)] at this
  exact Option.some.inj this

/-- `AllCh` over the source as a list -/
theorem allCh_get {c : ICtx} (hc : c.srcA = src.toArray) {ch : UInt8} (hch : ch ≠ 0) {a b : Int} (h : AllCh c ch a b)
    (q : Nat) (h1 : a ≤ (q : Int)) (h2 : (q : Int) < b) : ∃ hq : q < src.length, src[q] = ch := by
  have := h q h1 h2
  rw [hc] at this
  exact toArray_get!_ne src q ch hch this

theorem emphasis_of_at {c : ICtx} (hc : c.srcA = src.toArray) (a b : Int) (h : EmAt c 1 a b) (hab : a + 2 ≤ b) :
    emphasisShape (sliceI src a b) = true := by
  obtain ⟨ch, hch, h0, hb, h1, h2⟩ := h
  have hch0 : ch ≠ 0 := by rcases hch with rfl | rfl <;> decide
  obtain ⟨p, rfl⟩ := Int.eq_ofNat_of_zero_le h0
  obtain ⟨q, rfl⟩ := Int.eq_ofNat_of_zero_le (by omega : 0 ≤ b)
  have hq : q ≤ src.length := by rw [hc] at hb; simpa using hb
  obtain ⟨hp', e1⟩ := allCh_get src hc hch0 h1 p (by omega) (by omega)
  obtain ⟨hq', e2⟩ := allCh_get src hc hch0 h2 (q - 1) (by omega) (by omega)
  rw [sliceI_of_nat src p q (by omega)]
  unfold emphasisShape
  rw [slice_length src p q (by omega) hq, slice_head src p q (by omega) hq, slice_getLast src p q (by omega) hq, e1, e2]
  simp only [Bool.and_eq_true, decide_eq_true_eq, Bool.or_eq_true, beq_iff_eq, Option.some.injEq]
  refine ⟨⟨by omega, hch⟩, trivial⟩

theorem strong_of_at {c : ICtx} (hc : c.srcA = src.toArray) (a b : Int) (h : EmAt c 2 a b) (hab : a + 4 ≤ b) :
    strongShape (sliceI src a b) = true := by
  obtain ⟨ch, hch, h0, hb, h1, h2⟩ := h
  have hch0 : ch ≠ 0 := by rcases hch with rfl | rfl <;> decide
  obtain ⟨p, rfl⟩ := Int.eq_ofNat_of_zero_le h0
  obtain ⟨q, rfl⟩ := Int.eq_ofNat_of_zero_le (by omega : 0 ≤ b)
  have hq : q ≤ src.length := by rw [hc] at hb; simpa using hb
  obtain ⟨_, e1⟩ := allCh_get src hc hch0 h1 p (by omega) (by omega)
  obtain ⟨_, e2⟩ := allCh_get src hc hch0 h1 (p + 1) (by omega) (by omega)
  obtain ⟨_, e3⟩ := allCh_get src hc hch0 h2 (q - 2) (by omega) (by omega)
  obtain ⟨_, e4⟩ := allCh_get src hc hch0 h2 (q - 1) (by omega) (by omega)
  rw [sliceI_of_nat src p q (by omega)]
  have hlen := slice_length src p q (by omega) hq
  unfold strongShape lastN
  have hhd : ((src.drop p).take (q - p)).headD 0 = ch := by
    rw [List.headD_eq_head?_getD, slice_head src p q (by omega) hq, e1]; rfl
  rw [two_take _ (by omega), two_drop _ (by omega), hhd, slice_head src p q (by omega) hq, e1]
  have g0 := slice_get src p q 0 hq (by omega)
  have g1 := slice_get src p q 1 hq (by omega)
  have g2 := slice_get src p q (q - p - 2) hq (by omega)
  have g3 := slice_get src p q (q - p - 1) hq (by omega)
  simp only [hlen] at g0 g1 g2 g3 ⊢
  have i2 : p + (q - p - 2) = q - 2 := by omega
  have i3 : p + (q - p - 1) = q - 1 := by omega
  simp only [Nat.add_zero, i2, i3] at g0 g1 g2 g3
  rw [g0, g1, g2, g3, e1, e2, e3, e4]
  simp only [Bool.and_eq_true, decide_eq_true_eq, Bool.or_eq_true, beq_iff_eq, Option.some.injEq, and_self, and_true]
  exact ⟨by omega, hch⟩

theorem endAt_get {c : ICtx} (hc : c.srcA = src.toArray) {b : Int} (h : EndAt c b) :
    ∃ q : Nat, b = (q : Int) + 1 ∧ ∃ hq : q < src.length, (src[q] = 0x5D ∨ src[q] = 0x29) := by
  obtain ⟨h1, h2⟩ := h
  obtain ⟨q, hq⟩ := Int.eq_ofNat_of_zero_le (by omega : 0 ≤ b - 1)
  refine ⟨q, by omega, ?_⟩
  have e : (b - 1).toNat = q := by omega
  rw [e, hc] at h2
  rcases h2 with h2 | h2
  · obtain ⟨hq', hh⟩ := toArray_get!_ne src q _ (by decide) h2
    exact ⟨hq', Or.inl hh⟩
  · obtain ⟨hq', hh⟩ := toArray_get!_ne src q _ (by decide) h2
    exact ⟨hq', Or.inr hh⟩

theorem link_of_at {c : ICtx} (hc : c.srcA = src.toArray) (a b : Int) (h : LinkAt c a b) (hab : a < b) :
    linkShape (sliceI src a b) = true := by
  obtain ⟨h0, h1, h2⟩ := h
  obtain ⟨p, rfl⟩ := Int.eq_ofNat_of_zero_le h0
  obtain ⟨q, rfl, hq, hl⟩ := endAt_get src hc h2
  rw [hc] at h1
  obtain ⟨hp, hh⟩ := toArray_get!_ne src p 0x5B (by decide) (by simpa using h1)
  have e : ((q : Int) + 1) = ((q + 1 : Nat) : Int) := by omega
  rw [e, sliceI_of_nat src p (q + 1) (by omega)]
  unfold linkShape
  rw [slice_head src p (q + 1) (by omega) (by omega), slice_getLast src p (q + 1) (by omega) (by omega), hh]
  simp only [Nat.add_sub_cancel, Bool.and_eq_true, beq_iff_eq, Bool.or_eq_true, Option.some.injEq, true_and]
  exact hl

theorem image_of_at {c : ICtx} (hc : c.srcA = src.toArray) (a b : Int) (h : ImageAt c a b) (hab : a + 2 ≤ b) :
    imageShape (sliceI src a b) = true := by
  obtain ⟨h0, h1, h1', h2⟩ := h
  obtain ⟨p, rfl⟩ := Int.eq_ofNat_of_zero_le h0
  obtain ⟨q, rfl, hq, hl⟩ := endAt_get src hc h2
  rw [hc] at h1 h1'
  obtain ⟨hp, hh⟩ := toArray_get!_ne src p 0x21 (by decide) (by simpa using h1)
  have e1 : ((p : Int) + 1).toNat = p + 1 := by omega
  rw [e1] at h1'
  obtain ⟨hp', hh'⟩ := toArray_get!_ne src (p + 1) 0x5B (by decide) h1'
  have e : ((q : Int) + 1) = ((q + 1 : Nat) : Int) := by omega
  rw [e, sliceI_of_nat src p (q + 1) (by omega)]
  have hlen := slice_length src p (q + 1) (by omega) (by omega)
  unfold imageShape
  rw [two_take _ (by omega), slice_getLast src p (q + 1) (by omega) (by omega)]
  have g0 := slice_get src p (q + 1) 0 (by omega) (by omega)
  have g1 := slice_get src p (q + 1) 1 (by omega) (by omega)
  simp only [Nat.add_zero] at g0
  rw [g0, g1, hh, hh']
  simp only [Nat.add_sub_cancel, Bool.and_eq_true, beq_iff_eq, Bool.or_eq_true, Option.some.injEq, true_and]
  exact hl

end

/-! ### the theorems -/

/-- `SubOK` alone is an invariant of the arena. -/
theorem siteInv_Sub (x : IExt) (src : Bytes) (matchRef : Bytes → Bool) (unparsed : List Tree)
    (hin : InShape src unparsed) : SiteInv (inlCtx x src src.toArray matchRef unparsed) (SubOK src) where
  text a b := noSubS
  hardBreakBS s start _ _ _ _ _ _ := noSubS
  hardBreakSP s pos _ _ _ _ _ := noSubS
  charRef pos se e _ _ _ _ _ := noSubS
  softBreak1 pos _ _ _ := noSubS
  softBreak2 pos _ _ _ _ := noSubS
  wrapped k a b hk := noSubS
  imported t ht hb _ hk := by
    have hu : isUnparsed t = false := by
      unfold isUnparsed Node.isI
      simp [hk]
    have hall := hin t (by simpa [inlCtx] using ht) hb hu
    exact fun u hu' => hall u (nodesL_children_sub hu')
  codeSpan cs ks hks _ _ := by
    refine shape_all fun c hc u hu => ?_
    obtain ⟨k, hk, rfl⟩ := List.mem_map.1 hc
    rw [CSN.toTree, T.nodes, T.nodesL, List.mem_singleton] at hu
    subst hu
    intro _
    rw [shapeAt_inline src _ rfl]
    refine shapeI_other src _ _ _ ?_
    rcases hks k (Array.mem_toList_iff.1 hk) with h | h
    · show ¬ Shaped k.kind; rw [h]; exact not_shaped_text
    · show ¬ Shaped k.kind; rw [h]; exact not_shaped_indent
  autolink pos se e _ _ _ _ _ := by
    refine shape_all fun c hc u hu => ?_
    rw [List.mem_singleton] at hc
    subst hc
    exact shape_mkInline src _ _ _ (shapeI_other src _ _ _ not_shaped_text) u hu
  htmlTag k pos _ _ _ _ := collect_shape _ _ _ _ _ not_shaped_rawHTML unparsed hin _ k _ _
  linkDest a b stop fuel k p ps := collect_shape _ _ _ _ _ not_shaped_text unparsed hin fuel k p ps
  linkDestEmpty a b := noSubS
  linkTitle a b stop fuel k p ps := collect_shape _ _ _ _ _ not_shaped_text unparsed hin fuel k p ps
  linkTitleEmpty a b := noSubS
  linkLabel a b stop fuel k p ps ref _ := collect_shape _ _ _ _ _ not_shaped_text unparsed hin fuel k p ps
  modKids n ks h := h
  modSpan n a b h hk := h
  modLink n a b r h hk _ := h

/-- what is known of the nodes taken over from the block phase -/
def QSh (src : Bytes) (k : Nat) (a b : Int) : Prop := shapeI src k a b = true

/-- The emphasis / link clauses with their length conditions. -/
def EmShape (src : Bytes) (t : Tree) : Prop :=
  (t.label.kind = IK.emphasis → t.label.start + 2 ≤ t.label.stop → shapeAt src t = true) ∧
  (t.label.kind = IK.strong → t.label.start + 4 ≤ t.label.stop → shapeAt src t = true) ∧
  (t.label.kind = IK.link → t.label.start < t.label.stop → shapeAt src t = true) ∧
  (t.label.kind = IK.image → t.label.start + 2 ≤ t.label.stop → shapeAt src t = true)

theorem emShape_of_emP {src : Bytes} {c : ICtx} (hc : c.srcA = src.toArray) {m : INode} (h : EmP c (QSh src) m) (t : Tree)
    (hb : t.label.isBlock = false) (hl : t.label = nodeLabel m) : EmShape src t := by
  have hk : t.label.kind = m.kind := by rw [hl]; rfl
  have hs : t.label.start = m.start := by rw [hl]; rfl
  have he : t.label.stop = m.stop := by rw [hl]; rfl
  rw [EmShape, shapeAt_inline src t hb, hk, hs, he]
  rcases h with h | ⟨h1, h2, h3, h4⟩
  · exact ⟨fun _ _ => h, fun _ _ => h, fun _ _ => h, fun _ _ => h⟩
  · refine ⟨fun hk' hl' => ?_, fun hk' hl' => ?_, fun hk' hl' => ?_, fun hk' hl' => ?_⟩
    · rw [hk', shapeI_emphasis]; exact emphasis_of_at src hc _ _ (h1 hk') hl'
    · rw [hk', shapeI_strong]; exact strong_of_at src hc _ _ (h2 hk') hl'
    · rw [hk', shapeI_link]; exact link_of_at src hc _ _ (h3 hk') hl'
    · rw [hk', shapeI_image]; exact image_of_at src hc _ _ (h4 hk') hl'

theorem emShape_of_shape {src : Bytes} {t : Tree} (h : shapeAt src t = true) : EmShape src t :=
  ⟨fun _ _ => h, fun _ _ => h, fun _ _ => h, fun _ _ => h⟩

/-- C13 (inline half: emphasis, strong emphasis, links, images) for one container: every Emphasis node of the new inline
    children starts and ends with the same `*` or `_`, every Strong node with two of them, every Link starts with `[`
    and every Image with `![`, and both end with `]` or `)` — `Spec.shapeAt`, as soon as the span is long enough for
    the two ends not to overlap. -/
theorem parseInlines_shape_em (x : IExt) (src : Bytes) (matchRef : Bytes → Bool) (cstart cstop : Int)
    (unparsed kids : List Tree) (hin : InShape src unparsed)
    (h : parseInlines x src src.toArray matchRef cstart cstop unparsed = .ok kids) :
    ∀ t ∈ T.nodesL kids, t.label.isBlock = false → EmShape src t := by
  unfold parseInlines at h
  simp only [] at h
  split at h
  · cases h
  · rename_i u s hrun
    have hk : kids = (exportNode s.nodes (s.nodes.size + 1) 0).children := by
      cases h; rfl
    have hG0 : G (SubOK src) { nodes := #[{ kind := 0, start := cstart, stop := cstop }], parentMap := #[none] } :=
      ⟨ANodes.singleton noSubS, StackOK.empty, ⟨by simp, rfl⟩⟩
    have hS0 : S { nodes := #[{ kind := 0, start := cstart, stop := cstop }], parentMap := #[none] } :=
      ⟨Acyc.singleton _ rfl, by simp, PMOK.empty _⟩
    have hW0 : Wv (inlCtx x src src.toArray matchRef unparsed) (QSh src)
        { nodes := #[{ kind := 0, start := cstart, stop := cstop }], parentMap := #[none] } := by
      refine ⟨⟨fun e he => by simp at he, fun e he => by simp at he, by simp⟩, ?_, ⟨by simp, rfl⟩⟩
      intro i hi
      have : i = 0 := by simpa using hi
      subst this
      exact Or.inr (EmP.other (by simp; decide) (by simp; decide) (by simp; decide) (by simp; decide))
    have hG : G (SubOK src) s :=
      triple_run (parseBody_specT (c := inlCtx x src src.toArray matchRef unparsed) (siteInv_Sub x src matchRef unparsed hin))
        hG0 hrun
    have hS : S s := triple_run (parseBody_specS (c := inlCtx x src src.toArray matchRef unparsed)) hS0 hrun
    have hW : Wv (inlCtx x src src.toArray matchRef unparsed) (QSh src) s := by
      refine triple_run (parseBody_specW (c := inlCtx x src src.toArray matchRef unparsed) (Q := QSh src) rfl ?_) hW0 hrun
      intro t ht hb _ hk
      have hu : isUnparsed t = false := by
        unfold isUnparsed Node.isI
        simp [hk]
      have := hin t (by simpa [inlCtx] using ht) hb hu t (self_mem_nodes t) hb
      rw [shapeAt_inline src t hb] at this
      exact Or.inl this
    obtain ⟨f, hd, hb⟩ := hS.acyc
    intro t ht htb
    rw [hk] at ht
    have := hb 0 hS.pos
    have hφ : ANodes (fun m => SubOK src m ∧ EmP (inlCtx x src src.toArray matchRef unparsed) (QSh src) m) s.nodes := by
      intro i hi
      refine ⟨hG.nodes i hi, ?_⟩
      rcases hW.em i hi with h' | h'
      · exact h'.elim
      · exact h'
    obtain ⟨m, hm, hl | hs⟩ := exportNode_noMarker hφ hd _ 0 hS.pos (by omega) t (nodesL_children_sub ht)
    · exact emShape_of_emP (c := inlCtx x src src.toArray matchRef unparsed) rfl hm.2 t htb hl
    · exact emShape_of_shape (hm.1 t hs htb)

/-- …and for `Rewrite`: if the inline nodes the block phase made itself have their shapes, every Emphasis / Strong /
    Link / Image node of the rewritten tree has its clause (under its length condition). -/
theorem rewriteE_shape_em (x : IExt) (src : Bytes) (matchRef : Bytes → Bool) (t t' : Tree)
    (hpre : ∀ u ∈ T.nodes t, u.label.isBlock = false → shapeAt src u = true)
    (h : rewriteE x src src.toArray matchRef t = .ok t') :
    ∀ u ∈ T.nodes t', u.label.isBlock = false → EmShape src u := by
  obtain ⟨hs, hcont⟩ := surv_conts_of_all (Q := fun u => u.label.isBlock = false → shapeAt src u = true) t hpre
  refine rewriteE_nodes x src src.toArray matchRef (fun u => u.label.isBlock = false → EmShape src u)
    (fun _ cs => InShape src cs)
    (fun l cs kids hR hp u hu hb => parseInlines_shape_em x src matchRef l.start l.stop cs kids hR hp u hu hb)
    (fun l cs cs' _ hb hb' => by rw [show (Tree.node l cs').label.isBlock = l.isBlock from rfl, hb] at hb'; cases hb')
    t.size t t' (Nat.le_refl _) (fun u hu hb => emShape_of_shape (hs u hu hb)) ?_ h
  intro p hp c hc hb _ v hv
  exact hcont p hp c hc v hv

end CM.Proofs.InlH
