import CM.Proofs.EolRecognize
import CM.Model.HTMLTag
/-
HTML block start condition 7 and the line ending, part 1 — the tag scanners of parse_html.go over two readers that agree
until one of them ends (abstractly).

`TagSim s1 s2`: a relation `L` between a reader over `s1` and a reader over `s2` ("both alive, same position, same byte
under the cursor"), and predicates `D1`, `D2` ("the reader has ended: its current byte is 0 or a line-ending byte, and
`next` fails"). A step from `L` leads to `L` again or to `D1`/`D2`. Every scanner (`parseHTMLTagName`,
`parseHTMLAttribute`, `parseHTMLOpenTag`, `parseHTMLClosingTag`, `skipLinkSpace`) then returns the same value on the two
readers. Part 2 instantiates this with a line and the same line plus one CR/LF byte.
-/
namespace CM.Proofs
open CM CM.Model CM.Gen

/-- A reader that has ended. -/
structure DeadRd (s : Bytes) (D : Rd → Prop) : Prop where
  cur : ∀ a, D a → ((a.current s).1 = 0 ∨ isNL (a.current s).1 = true) ∧ D (a.current s).2
  nxt : ∀ a, D a → (a.next s).1 = false ∧ D (a.next s).2

theorem nl_or_zero_facts : ∀ b : UInt8, (b = 0 ∨ isNL b = true) →
    isASCIILetter b = false ∧ isASCIIDigit b = false ∧ (b == 0x2D) = false ∧ (b == 0x5F) = false ∧ (b == 0x2E) = false ∧
    (b == 0x3A) = false ∧ (b == 0x2F) = false ∧ (b == 0x3E) = false ∧ (b == 0x3D) = false ∧ (b == 0x27) = false ∧
    (b == 0x22) = false ∧ isUnquotedAttributeValueChar b = (b == 0) ∧ (b = 0 ∨ isSpaceTabOrLineEnding b = true) := by
  intro b hb
  rcases hb with h | h
  · subst h; decide
  · have : b = 0x0A ∨ b = 0x0D := by simpa [isNL] using h
    rcases this with h | h <;> subst h <;> decide

/-! ### The scanners on a reader that has ended -/

section Dead
variable {s : Bytes} {D : Rd → Prop} (H : DeadRd s D)
include H

theorem dead_tagNameLoop : ∀ (f : Nat) (a : Rd), D a → D (tagNameLoop s f a) := by
  intro f
  induction f with
  | zero => intro a h; exact h
  | succ f ih =>
    intro a h
    unfold tagNameLoop
    obtain ⟨h1, h2⟩ := H.cur a h
    have hf := nl_or_zero_facts _ h1
    simp only [hf.1, hf.2.1, hf.2.2.1, Bool.or_self, Bool.false_eq_true, if_false]
    exact h2

theorem dead_tagName (f : Nat) (a : Rd) (h : D a) : (parseHTMLTagName s f a).1 = false ∧ D (parseHTMLTagName s f a).2 := by
  unfold parseHTMLTagName
  obtain ⟨h1, h2⟩ := H.cur a h
  have hf := nl_or_zero_facts _ h1
  simp only [hf.1, Bool.not_false, if_true]
  exact ⟨trivial, h2⟩

theorem dead_attrNameLoop : ∀ (f : Nat) (a : Rd), D a → D (attrNameLoop s f a).2 := by
  intro f
  induction f with
  | zero => intro a h; exact h
  | succ f ih =>
    intro a h
    unfold attrNameLoop
    obtain ⟨h1, h2⟩ := H.cur a h
    have hf := nl_or_zero_facts _ h1
    simp only [hf.1, hf.2.1, hf.2.2.1, hf.2.2.2.1, hf.2.2.2.2.1, hf.2.2.2.2.2.1, Bool.or_self, Bool.false_eq_true, if_false]
    exact h2

theorem dead_skipLinkSpace : ∀ (f : Nat) (a : Rd), D a → (skipLinkSpace s f a).1 = false ∧ D (skipLinkSpace s f a).2 := by
  intro f
  induction f with
  | zero => intro a h; exact ⟨rfl, h⟩
  | succ f ih =>
    intro a h
    unfold skipLinkSpace
    obtain ⟨h1, h2⟩ := H.cur a h
    have hf := (nl_or_zero_facts _ h1).2.2.2.2.2.2.2.2.2.2.2.2
    simp only []
    by_cases h0 : ((a.current s).1 == 0) = true
    · rw [if_pos h0]; exact ⟨rfl, h2⟩
    · rw [if_neg h0]
      have hws : isSpaceTabOrLineEnding (a.current s).1 = true := by
        rcases hf with h3 | h3
        · rw [h3] at h0; exact absurd rfl h0
        · exact h3
      rw [if_pos hws]
      obtain ⟨n1, n2⟩ := H.nxt _ h2
      simp only [n1, Bool.not_false, if_true]
      exact ⟨trivial, n2⟩

theorem dead_quotedLoop (q : UInt8) (hq : q = 0x27 ∨ q = 0x22) : ∀ (f : Nat) (a : Rd), D a →
    (quotedLoop s q f a).1 = false ∧ D (quotedLoop s q f a).2 := by
  intro f
  induction f with
  | zero => intro a h; exact ⟨rfl, h⟩
  | succ f ih =>
    intro a h
    unfold quotedLoop
    obtain ⟨h1, h2⟩ := H.cur a h
    have hf := nl_or_zero_facts _ h1
    have hne : ((a.current s).1 == q) = false := by
      rcases hq with h3 | h3 <;> subst h3
      · exact hf.2.2.2.2.2.2.2.2.2.1
      · exact hf.2.2.2.2.2.2.2.2.2.2.1
    simp only [hne, Bool.false_eq_true, if_false]
    obtain ⟨n1, n2⟩ := H.nxt _ h2
    simp only [n1, Bool.not_false, if_true]
    exact ⟨trivial, n2⟩

theorem dead_unquotedLoop : ∀ (f : Nat) (a : Rd), D a → D (unquotedLoop s f a) := by
  intro f
  induction f with
  | zero => intro a h; exact h
  | succ f ih =>
    intro a h
    unfold unquotedLoop
    obtain ⟨n1, n2⟩ := H.nxt a h
    simp only [n1, Bool.not_false, if_true]
    exact n2

theorem dead_attribute (f : Nat) (a : Rd) (h : D a) :
    (parseHTMLAttribute s f a).1 = false ∧ D (parseHTMLAttribute s f a).2 := by
  unfold parseHTMLAttribute
  obtain ⟨h1, h2⟩ := H.cur a h
  have hf := nl_or_zero_facts _ h1
  have : (!isASCIILetter (a.current s).1 && (a.current s).1 != 0x5F && (a.current s).1 != 0x3A) = true := by
    simp [hf.1, bne, hf.2.2.2.1, hf.2.2.2.2.2.1]
  simp only [this, if_true]
  exact ⟨trivial, h2⟩

theorem dead_openTagLoop : ∀ (f : Nat) (a : Rd), D a → (openTagLoop s f a).1 = -1 ∧ D (openTagLoop s f a).2 := by
  intro f
  cases f with
  | zero => intro a h; exact ⟨rfl, h⟩
  | succ f =>
    intro a h
    unfold openTagLoop
    obtain ⟨k1, k2⟩ := dead_skipLinkSpace H (f + 1) a h
    simp only [k1, Bool.not_false, if_true]
    exact ⟨trivial, k2⟩

theorem dead_openTag (f : Nat) (a : Rd) (h : D a) : (parseHTMLOpenTag s f a).1 = -1 := by
  unfold parseHTMLOpenTag
  obtain ⟨k1, _⟩ := dead_tagName H f a h
  simp only [k1, Bool.not_false, if_true]

theorem dead_closingTag (f : Nat) (a : Rd) (h : D a) : (parseHTMLClosingTag s f a).1 = -1 := by
  unfold parseHTMLClosingTag
  obtain ⟨h1, _⟩ := H.cur a h
  have hf := nl_or_zero_facts _ h1
  have : ((a.current s).1 != 0x2F) = true := by simp [bne, hf.2.2.2.2.2.2.1]
  simp only [this, if_true]

end Dead

/-! ### The scanners on two readers that agree until one ends -/

/-- Two readers in step: same position (`< K`), same byte under the cursor; a step keeps them in step or ends both. -/
structure LiveRd (s1 s2 : Bytes) (K : Nat) (L : Rd → Rd → Prop) (D1 D2 : Rd → Prop) : Prop where
  cur : ∀ a b, L a b → (a.current s1).1 = (b.current s2).1 ∧ L (a.current s1).2 (b.current s2).2 ∧
    (b.current s2).2.pos = b.pos
  nxt : ∀ a b, L a b →
    ((a.next s1).1 = true ∧ (b.next s2).1 = true ∧ L (a.next s1).2 (b.next s2).2 ∧ (b.next s2).2.pos = b.pos + 1) ∨
    (D1 (a.next s1).2 ∧ D2 (b.next s2).2)
  pos : ∀ a b, L a b → a.pos = b.pos ∧ b.pos < K
  jmp : ∀ a b, L a b → a.jumped = b.jumped

/-- Outcome of a scanner on the two readers: still in step (and not moved backwards), or both ended. -/
def OutS (L : Rd → Rd → Prop) (D1 D2 : Rd → Prop) (p0 : Nat) (a b : Rd) : Prop :=
  (L a b ∧ p0 ≤ b.pos) ∨ (D1 a ∧ D2 b)

theorem OutS.mono {L : Rd → Rd → Prop} {D1 D2 : Rd → Prop} {p0 p1 : Nat} {a b : Rd} (h : OutS L D1 D2 p1 a b)
    (hp : p0 ≤ p1) : OutS L D1 D2 p0 a b := by
  rcases h with ⟨h1, h2⟩ | h
  · exact Or.inl ⟨h1, by omega⟩
  · exact Or.inr h

section Live
variable {s1 s2 : Bytes} {K : Nat} {L : Rd → Rd → Prop} {D1 D2 : Rd → Prop}
  (H : LiveRd s1 s2 K L D1 D2) (H1 : DeadRd s1 D1) (H2 : DeadRd s2 D2)
include H H1 H2

theorem live_tagNameLoop : ∀ (f1 f2 : Nat) (a b : Rd), L a b → K - b.pos < f1 → K - b.pos < f2 →
    OutS L D1 D2 b.pos (tagNameLoop s1 f1 a) (tagNameLoop s2 f2 b) := by
  intro f1
  induction f1 with
  | zero => intro f2 a b _ h; omega
  | succ f1 ih =>
    intro f2 a b hL hf1 hf2
    obtain ⟨g, rfl⟩ : ∃ g, f2 = g + 1 := ⟨f2 - 1, by omega⟩
    unfold tagNameLoop
    obtain ⟨c1, c2, c3⟩ := H.cur a b hL
    have hp := (H.pos a b hL).2
    simp only []
    rw [c1]
    by_cases hn : (isASCIILetter (b.current s2).1 || isASCIIDigit (b.current s2).1 || (b.current s2).1 == 0x2D) = true
    · rw [if_pos hn, if_pos hn]
      rcases H.nxt _ _ c2 with ⟨n1, n2, n3, n4⟩ | ⟨n1, n2⟩
      · simp only [n1, n2, Bool.not_true, Bool.false_eq_true, if_false]
        have := ih g _ _ n3 (by rw [n4, c3]; omega) (by rw [n4, c3]; omega)
        exact this.mono (by rw [n4, c3]; omega)
      · right
        constructor
        · cases (Rd.next s1 (a.current s1).2).1
          · exact n1
          · exact dead_tagNameLoop H1 _ _ n1
        · cases (Rd.next s2 (b.current s2).2).1
          · exact n2
          · exact dead_tagNameLoop H2 _ _ n2
    · rw [if_neg hn, if_neg hn]
      exact Or.inl ⟨c2, by rw [c3]; exact Nat.le_refl _⟩

theorem live_tagName (f1 f2 : Nat) (a b : Rd) (hL : L a b) (hf1 : K - b.pos < f1) (hf2 : K - b.pos < f2) :
    (parseHTMLTagName s1 f1 a).1 = (parseHTMLTagName s2 f2 b).1 ∧
      OutS L D1 D2 b.pos (parseHTMLTagName s1 f1 a).2 (parseHTMLTagName s2 f2 b).2 := by
  unfold parseHTMLTagName
  obtain ⟨c1, c2, c3⟩ := H.cur a b hL
  have hp := (H.pos a b hL).2
  simp only []
  rw [c1]
  by_cases hn : (!isASCIILetter (b.current s2).1) = true
  · rw [if_pos hn, if_pos hn]
    exact ⟨rfl, Or.inl ⟨c2, by rw [c3]; exact Nat.le_refl _⟩⟩
  · rw [if_neg hn, if_neg hn]
    rcases H.nxt _ _ c2 with ⟨n1, n2, n3, n4⟩ | ⟨n1, n2⟩
    · simp only [n1, n2, Bool.not_true, Bool.false_eq_true, if_false]
      refine ⟨trivial, ?_⟩
      have := live_tagNameLoop H H1 H2 f1 f2 _ _ n3 (by rw [n4, c3]; omega) (by rw [n4, c3]; omega)
      exact this.mono (by rw [n4, c3]; omega)
    · constructor
      · cases (Rd.next s1 (a.current s1).2).1 <;> cases (Rd.next s2 (b.current s2).2).1 <;> rfl
      · right
        constructor
        · cases (Rd.next s1 (a.current s1).2).1
          · exact n1
          · exact dead_tagNameLoop H1 _ _ n1
        · cases (Rd.next s2 (b.current s2).2).1
          · exact n2
          · exact dead_tagNameLoop H2 _ _ n2

theorem live_attrNameLoop : ∀ (f1 f2 : Nat) (a b : Rd), L a b → K - b.pos < f1 → K - b.pos < f2 →
    ((attrNameLoop s1 f1 a).1 = (attrNameLoop s2 f2 b).1 ∧ L (attrNameLoop s1 f1 a).2 (attrNameLoop s2 f2 b).2 ∧
      b.pos ≤ (attrNameLoop s2 f2 b).2.pos) ∨
    (D1 (attrNameLoop s1 f1 a).2 ∧ D2 (attrNameLoop s2 f2 b).2) := by
  intro f1
  induction f1 with
  | zero => intro f2 a b _ h; omega
  | succ f1 ih =>
    intro f2 a b hL hf1 hf2
    obtain ⟨g, rfl⟩ : ∃ g, f2 = g + 1 := ⟨f2 - 1, by omega⟩
    unfold attrNameLoop
    obtain ⟨c1, c2, c3⟩ := H.cur a b hL
    have hp := (H.pos a b hL).2
    simp only []
    rw [c1]
    by_cases hn : (isASCIILetter (b.current s2).1 || isASCIIDigit (b.current s2).1 || (b.current s2).1 == 0x5F ||
        (b.current s2).1 == 0x2E || (b.current s2).1 == 0x3A || (b.current s2).1 == 0x2D) = true
    · rw [if_pos hn, if_pos hn]
      rcases H.nxt _ _ c2 with ⟨n1, n2, n3, n4⟩ | ⟨n1, n2⟩
      · simp only [n1, n2, Bool.not_true, Bool.false_eq_true, if_false]
        rcases ih g _ _ n3 (by rw [n4, c3]; omega) (by rw [n4, c3]; omega) with ⟨r1, r2, r3⟩ | r
        · exact Or.inl ⟨r1, r2, by rw [n4, c3] at r3; omega⟩
        · exact Or.inr r
      · right
        constructor
        · cases (Rd.next s1 (a.current s1).2).1
          · exact n1
          · exact dead_attrNameLoop H1 _ _ n1
        · cases (Rd.next s2 (b.current s2).2).1
          · exact n2
          · exact dead_attrNameLoop H2 _ _ n2
    · rw [if_neg hn, if_neg hn]
      exact Or.inl ⟨rfl, c2, by rw [c3]; exact Nat.le_refl _⟩

theorem live_skipLinkSpace : ∀ (f1 f2 : Nat) (a b : Rd), L a b → K - b.pos < f1 → K - b.pos < f2 →
    (skipLinkSpace s1 f1 a).1 = (skipLinkSpace s2 f2 b).1 ∧
      ((L (skipLinkSpace s1 f1 a).2 (skipLinkSpace s2 f2 b).2 ∧ b.pos ≤ (skipLinkSpace s2 f2 b).2.pos) ∨
       (D1 (skipLinkSpace s1 f1 a).2 ∧ D2 (skipLinkSpace s2 f2 b).2 ∧ (skipLinkSpace s2 f2 b).1 = false)) := by
  intro f1
  induction f1 with
  | zero => intro f2 a b _ h; omega
  | succ f1 ih =>
    intro f2 a b hL hf1 hf2
    obtain ⟨g, rfl⟩ : ∃ g, f2 = g + 1 := ⟨f2 - 1, by omega⟩
    unfold skipLinkSpace
    obtain ⟨c1, c2, c3⟩ := H.cur a b hL
    have hp := (H.pos a b hL).2
    simp only []
    rw [c1]
    by_cases h0 : ((b.current s2).1 == 0) = true
    · rw [if_pos h0, if_pos h0]
      exact ⟨rfl, Or.inl ⟨c2, by rw [c3]; exact Nat.le_refl _⟩⟩
    · rw [if_neg h0, if_neg h0]
      by_cases hw : isSpaceTabOrLineEnding (b.current s2).1 = true
      · rw [if_pos hw, if_pos hw]
        rcases H.nxt _ _ c2 with ⟨n1, n2, n3, n4⟩ | ⟨n1, n2⟩
        · simp only [n1, n2, Bool.not_true, Bool.false_eq_true, if_false]
          obtain ⟨r1, r2⟩ := ih g _ _ n3 (by rw [n4, c3]; omega) (by rw [n4, c3]; omega)
          refine ⟨r1, ?_⟩
          rcases r2 with ⟨r3, r4⟩ | r3
          · exact Or.inl ⟨r3, by rw [n4, c3] at r4; omega⟩
          · exact Or.inr r3
        · have e1 : ∀ r, D1 r → ∀ (ok : Bool),
              (if (!ok) = true then (false, r) else skipLinkSpace s1 f1 r).1 = false ∧
              D1 (if (!ok) = true then (false, r) else skipLinkSpace s1 f1 r).2 := by
            intro r hr ok
            cases ok
            · exact ⟨rfl, hr⟩
            · exact dead_skipLinkSpace H1 _ _ hr
          have e2 : ∀ r, D2 r → ∀ (ok : Bool),
              (if (!ok) = true then (false, r) else skipLinkSpace s2 g r).1 = false ∧
              D2 (if (!ok) = true then (false, r) else skipLinkSpace s2 g r).2 := by
            intro r hr ok
            cases ok
            · exact ⟨rfl, hr⟩
            · exact dead_skipLinkSpace H2 _ _ hr
          obtain ⟨a1, a2⟩ := e1 _ n1 (Rd.next s1 (a.current s1).2).1
          obtain ⟨b1, b2⟩ := e2 _ n2 (Rd.next s2 (b.current s2).2).1
          exact ⟨by rw [a1, b1], Or.inr ⟨a2, b2, b1⟩⟩
      · rw [if_neg hw, if_neg hw]
        exact ⟨rfl, Or.inl ⟨c2, by rw [c3]; exact Nat.le_refl _⟩⟩

theorem live_quotedLoop (q : UInt8) (hq : q = 0x27 ∨ q = 0x22) : ∀ (f1 f2 : Nat) (a b : Rd), L a b →
    K - b.pos < f1 → K - b.pos < f2 →
    (quotedLoop s1 q f1 a).1 = (quotedLoop s2 q f2 b).1 ∧
      OutS L D1 D2 b.pos (quotedLoop s1 q f1 a).2 (quotedLoop s2 q f2 b).2 := by
  intro f1
  induction f1 with
  | zero => intro f2 a b _ h; omega
  | succ f1 ih =>
    intro f2 a b hL hf1 hf2
    obtain ⟨g, rfl⟩ : ∃ g, f2 = g + 1 := ⟨f2 - 1, by omega⟩
    unfold quotedLoop
    obtain ⟨c1, c2, c3⟩ := H.cur a b hL
    have hp := (H.pos a b hL).2
    simp only []
    rw [c1]
    by_cases hc : ((b.current s2).1 == q) = true
    · rw [if_pos hc, if_pos hc]
      refine ⟨rfl, ?_⟩
      rcases H.nxt _ _ c2 with ⟨_, _, n3, n4⟩ | ⟨n1, n2⟩
      · exact Or.inl ⟨n3, by rw [n4, c3]; omega⟩
      · exact Or.inr ⟨n1, n2⟩
    · rw [if_neg hc, if_neg hc]
      rcases H.nxt _ _ c2 with ⟨n1, n2, n3, n4⟩ | ⟨n1, n2⟩
      · simp only [n1, n2, Bool.not_true, Bool.false_eq_true, if_false]
        obtain ⟨r1, r2⟩ := ih g _ _ n3 (by rw [n4, c3]; omega) (by rw [n4, c3]; omega)
        exact ⟨r1, r2.mono (by rw [n4, c3]; omega)⟩
      · have e1 : ∀ r, D1 r → ∀ (ok : Bool),
            (if (!ok) = true then (false, r) else quotedLoop s1 q f1 r).1 = false ∧
            D1 (if (!ok) = true then (false, r) else quotedLoop s1 q f1 r).2 := by
          intro r hr ok
          cases ok
          · exact ⟨rfl, hr⟩
          · exact dead_quotedLoop H1 q hq _ _ hr
        have e2 : ∀ r, D2 r → ∀ (ok : Bool),
            (if (!ok) = true then (false, r) else quotedLoop s2 q g r).1 = false ∧
            D2 (if (!ok) = true then (false, r) else quotedLoop s2 q g r).2 := by
          intro r hr ok
          cases ok
          · exact ⟨rfl, hr⟩
          · exact dead_quotedLoop H2 q hq _ _ hr
        obtain ⟨a1, a2⟩ := e1 _ n1 (Rd.next s1 (a.current s1).2).1
        obtain ⟨b1, b2⟩ := e2 _ n2 (Rd.next s2 (b.current s2).2).1
        exact ⟨by rw [a1, b1], Or.inr ⟨a2, b2⟩⟩

theorem live_unquotedLoop : ∀ (f1 f2 : Nat) (a b : Rd), L a b → K - b.pos < f1 → K - b.pos < f2 →
    OutS L D1 D2 b.pos (unquotedLoop s1 f1 a) (unquotedLoop s2 f2 b) := by
  intro f1
  induction f1 with
  | zero => intro f2 a b _ h; omega
  | succ f1 ih =>
    intro f2 a b hL hf1 hf2
    obtain ⟨g, rfl⟩ : ∃ g, f2 = g + 1 := ⟨f2 - 1, by omega⟩
    unfold unquotedLoop
    have hp := (H.pos a b hL).2
    rcases H.nxt _ _ hL with ⟨n1, n2, n3, n4⟩ | ⟨n1, n2⟩
    · simp only [n1, n2, Bool.not_true, Bool.false_eq_true, if_false]
      obtain ⟨c1, c2, c3⟩ := H.cur _ _ n3
      rw [c1]
      by_cases hu : isUnquotedAttributeValueChar (Rd.current s2 (Rd.next s2 b).2).1 = true
      · rw [if_pos hu, if_pos hu]
        have := ih g _ _ c2 (by rw [c3, n4]; omega) (by rw [c3, n4]; omega)
        exact this.mono (by rw [c3, n4]; omega)
      · rw [if_neg hu, if_neg hu]
        exact Or.inl ⟨c2, by rw [c3, n4]; omega⟩
    · right
      have e1 : ∀ r, D1 r → ∀ (ok : Bool),
          D1 (if (!ok) = true then r else
            if isUnquotedAttributeValueChar (Rd.current s1 r).1 = true then unquotedLoop s1 f1 (Rd.current s1 r).2
            else (Rd.current s1 r).2) := by
        intro r hr ok
        cases ok
        · exact hr
        · simp only [Bool.not_true, Bool.false_eq_true, if_false]
          split
          · exact dead_unquotedLoop H1 _ _ (H1.cur _ hr).2
          · exact (H1.cur _ hr).2
      have e2 : ∀ r, D2 r → ∀ (ok : Bool),
          D2 (if (!ok) = true then r else
            if isUnquotedAttributeValueChar (Rd.current s2 r).1 = true then unquotedLoop s2 g (Rd.current s2 r).2
            else (Rd.current s2 r).2) := by
        intro r hr ok
        cases ok
        · exact hr
        · simp only [Bool.not_true, Bool.false_eq_true, if_false]
          split
          · exact dead_unquotedLoop H2 _ _ (H2.cur _ hr).2
          · exact (H2.cur _ hr).2
      exact ⟨e1 _ n1 _, e2 _ n2 _⟩

end Live

end CM.Proofs
