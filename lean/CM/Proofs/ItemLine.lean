import CM.Proofs.NestLine
import CM.Proofs.CodeVerbatimIndentLine
/-
C09 (list-item half, block level): the frame "list item inside a list", and one non-empty line behind the first through
both line parsers.  On the indented side the first two iterations of `descendOpenBlocks` run the `match` functions of
the list (which always matches) and of the list item: the line is not blank and is indented by at least the item's
content offset `k`, which is consumed; the rest of the loop runs below the item (`Nest.processLine_sim_of`).
-/
namespace CM.Proofs.Item
open CM CM.Model CM.Gen CM.Proofs.BT CM.Proofs.Quote CM.Proofs.Nest

/-- `n` spaces. -/
def spaces (n : Nat) : Bytes := List.replicate n SP

/-- The frame of a list item (content offset `k`, delimiter `d`) inside a list. -/
def iF (k : Nat) (d : UInt8) : Nest.Frame :=
  { top := { kind := BK.listItem, start := 0, char := d, indent := (k : Int) },
    two := true,
    list := { kind := BK.list, start := 0, char := d },
    kind_ok := Or.inr rfl }

theorem iF_d (k : Nat) (d : UInt8) : (iF k d).d = 2 := rfl

variable {E : Env} {G G' : List Tree → Prop} {p q : LP} {x : PExt} {k : Nat} {d : UInt8}

/-! ### the indentation of the line -/

theorem indentLength_spaces (n : Nat) (l : Bytes) : n ≤ indentLength (spaces n ++ l) := by
  induction n with
  | zero => exact Nat.zero_le _
  | succ n ih =>
    show n + 1 ≤ indentLength (SP :: (spaces n ++ l))
    simp only [indentLength]
    have : (SP != SP && SP != TAB) = false := by decide
    rw [this]
    simp only [Bool.false_eq_true, if_false]
    omega

theorem getD_spaces (n : Nat) (l : Bytes) (j : Nat) (hj : j < n) : (spaces n ++ l).getD j 0 = SP := by
  rw [List.getD_eq_getElem?_getD, List.getElem?_append_left (by simp [spaces]; exact hj)]
  simp [spaces, hj]

theorem isBlank_spaces (n : Nat) (l : Bytes) : isBlankLine (spaces n ++ l) = isBlankLine l := by
  induction n with
  | zero => rfl
  | succ n ih =>
    show isBlankLine (SP :: (spaces n ++ l)) = _
    simp only [isBlankLine, List.all_cons] at ih ⊢
    rw [ih]
    simp [isSpaceTabOrLineEnding]

/-! ### the state of both parsers at the start of a line (behind the first) -/

/-- `p` at the start of a line of the bare document, `q` at the start of the indented line. -/
structure LineStartI (k : Nat) (d : UInt8) (E : Env) (G : List Tree → Prop) (p q : LP) : Prop where
  lineq : q.line = spaces k ++ p.line
  pi : p.i = 0
  qi : q.i = 0
  notab : NoTab p.line
  nonblank : isBlankLine p.line = false
  panic : q.panic = p.panic
  root : Nest.RootR (iF k d) E p.root q.root
  tp : TP G p.root
  noul : NoUL p.line
  srcp : p.source = E.src
  srcq : q.source = E.src'
  linep : p.line = p.source.drop p.lineStart
  lsp : p.lineStart ≤ p.source.length
  lineqs : q.line = q.source.drop q.lineStart
  lsq : q.lineStart ≤ q.source.length
  here : ∀ j : Nat, j ≤ p.line.length → E.PR ((p.lineStart + j : Nat) : Int) ((q.lineStart + k + j : Nat) : Int)
  start : E.PR (p.lineStart : Int) (q.lineStart : Int)
  ord : ∀ a a' : Int, E.PR a a' → ((p.lineStart : Int) ≤ a ↔ (q.lineStart : Int) ≤ a')

/-- The two wrappers and the item. -/
theorem root_shape {P Q : PB} (h : Nest.RootR (iF k d) E P Q) :
    ∃ lq isQ ll isL Qb, Q = .mk lq [.mk ll [Qb] isL] isQ ∧ lq.kind = BK.document ∧ lq.stop < 0 ∧
      ll.kind = BK.list ∧ ll.stop < 0 ∧ Nest.TopR (iF k d) E P Qb := by
  unfold Nest.RootR at h
  rw [iF_d] at h
  cases h with
  | @step n lq isQ Qc h1 h2 hw =>
    cases hw with
    | @step n2 ll isL Qb g1 g2 hw2 =>
      cases hw2 with
      | base ht =>
        refine ⟨lq, isQ, ll, isL, Qb, rfl, ?_, h1, ?_, g1, ht⟩
        · unfold WL at h2; rw [if_pos (by rw [iF_d])] at h2; exact h2
        · unfold WL at g2; rw [if_neg (by rw [iF_d]; omega)] at g2; exact g2.1

/-- After the indentation of the item has been consumed. -/
structure IndentPost (k : Nat) (q q1 : LP) : Prop where
  line : q1.line = q.line
  i : q1.i = k
  tree : tree q1 = tree q
  state : q1.state = mm q.state
  panic : q1.panic = q.panic
  cur : CurOK q1

theorem indent_cursor (q : LP) (l : Bytes) (hk : 1 ≤ k) (hl : q.line = spaces k ++ l) (hi : q.i = 0) (hc : CurOK q) :
    IndentPost k q (q.consumeIndentN k) := by
  have hlen : k ≤ q.line.length := by rw [hl]; simp [spaces]
  have cs := CM.Proofs.consumeIndentN_spaces q k hc (fun j hj => by rw [hi, Nat.zero_add, hl]; exact getD_spaces k l j hj)
    (by rw [hi]; omega)
  refine ⟨cs.line, by rw [cs.i, hi]; omega, cs.tree, ?_, cs.panic, cs.cur⟩
  rw [cs.state, if_neg (by omega)]

/-- The first two iterations of `descendOpenBlocks` on the indented side. -/
theorem item_step (h : LineStartI k d E G p q) (hk : 1 ≤ k) (hq : CurOK q) :
    descendOpenBlocks x q =
      descendLoop x (spineLength q.root - 1) (({ q with depth := 2, state := stateDescending } : LP).consumeIndentN k) 2 := by
  obtain ⟨lq, isQ, ll, isL, Qb, e, _, _, hlk, hlo, ht⟩ := root_shape h.root
  have hsl : spineLength q.root = 2 + spineLength Qb := by
    rw [e, spineLength_mk]
    simp only [List.getLast?_singleton]
    rw [spineLength_mk]
    simp only [List.getLast?_singleton]
    omega
  unfold descendOpenBlocks
  have hf : spineLength q.root + 1 = (spineLength q.root - 1) + 1 + 1 := by omega
  rw [hf]
  -- the list
  conv => lhs; unfold descendLoop
  have hg1 : spineGet q.root (0 + 1) = some (.mk ll [Qb] isL) := by rw [e, spineGet_wrap, spineGet_zero]
  rw [hg1]
  simp only []
  have ho1 : (PB.mk ll [Qb] isL).isOpen = true := by simp only [PB.isOpen, PB.label]; exact decide_eq_true hlo
  rw [if_neg (by simp [ho1])]
  have hk1 : (PB.mk ll [Qb] isL).kind = BK.list := hlk
  rw [hk1, rm_list]
  simp only []
  rw [if_neg (by decide)]
  simp only [Bool.not_true, Bool.false_eq_true, if_false]
  -- the item
  conv => lhs; unfold descendLoop
  have hg2 : spineGet q.root (0 + 1 + 1) = some Qb := by rw [e, spineGet_wrap, spineGet_wrap, spineGet_zero]
  show (match spineGet q.root (0 + 1 + 1) with
    | none => _
    | some c => _) = _
  rw [hg2]
  simp only []
  have ho2 : Qb.isOpen = true := by simp only [PB.isOpen, decide_eq_true_eq]; exact ht.qlab.stop
  rw [if_neg (by simp [ho2])]
  have hk2 : Qb.kind = BK.listItem := ht.qlab.kind
  rw [hk2, rm_item]
  -- not blank, indented by at least `k`
  have hbl : ({ q with depth := 0 + 1 + 1, state := stateDescending } : LP).isRestBlank = false := by
    show isBlankLine (q.line.drop q.i) = false
    rw [h.qi, List.drop_zero, h.lineq, isBlank_spaces]
    exact h.nonblank
  rw [hbl]
  simp only [Bool.false_eq_true, if_false]
  have hci : ({ q with depth := 0 + 1 + 1, state := stateDescending } : LP).containerIndent = some (k : Int) := by
    unfold LP.containerIndent
    simp only [stateDescending, stateDescendTerminated, bne_self_eq_false, Bool.false_and, Bool.false_eq_true, if_false]
    congr 1
    show (LP.container { q with depth := 0 + 1 + 1, state := 3 }).label.indent = _
    simp only [LP.container, hg2, Option.getD_some]
    exact ht.qlab.indent
  rw [hci]
  simp only []
  have hind : ((({ q with depth := 0 + 1 + 1, state := stateDescending } : LP).indent : Nat) : Int) ≥ (k : Int) := by
    have hnt : NoTab (({ q with depth := 0 + 1 + 1, state := stateDescending } : LP).line.drop
        ({ q with depth := 0 + 1 + 1, state := stateDescending } : LP).i) := by
      show NoTab (q.line.drop q.i)
      rw [h.qi, List.drop_zero, h.lineq]
      intro c hc
      rcases List.mem_append.mp hc with hc | hc
      · simp only [spaces, List.mem_replicate] at hc
        rw [hc.2]; decide
      · exact h.notab c hc
    rw [indent_notab _ hnt]
    show ((indentLength (q.line.drop q.i) : Nat) : Int) ≥ _
    rw [h.qi, List.drop_zero, h.lineq]
    have := indentLength_spaces k p.line
    omega
  rw [if_pos hind]
  simp only [Int.toNat_natCast]
  have m := indent_cursor (k := k) ({ q with depth := 0 + 1 + 1, state := stateDescending } : LP) p.line hk h.lineq h.qi
    ⟨hq.hi, hq.htab⟩
  have hs : (({ q with depth := 0 + 1 + 1, state := stateDescending } : LP).consumeIndentN k).state = 3 := by rw [m.state]; rfl
  rw [if_neg (by rw [hs]; decide)]
  simp only [Bool.not_true, Bool.false_eq_true, if_false]

theorem TopR.spineLength_ge {F : Nest.Frame} {P Qb : PB} (h : Nest.TopR F E P Qb) : spineLength P ≤ spineLength Qb := by
  obtain ⟨lp, bs, isP⟩ := P
  obtain ⟨lq, bq, isq⟩ := Qb
  obtain ⟨pre, bs', ebq, hpre, hr⟩ := h.kids
  simp only [PB.blocks] at ebq hr
  subst ebq
  rw [spineLength_mk, spineLength_mk]
  obtain ⟨hl, _⟩ := hr.getLast
  cases hc : bs.getLast? with
  | none => exact Nat.zero_le _
  | some a =>
    rw [hc] at hl
    obtain ⟨a', ea, r⟩ := hl.some_left
    have hne : bs ≠ [] := by intro e0; rw [e0] at hc; cases hc
    have hne' : bs' ≠ [] := fun e0 => hne (hr.nil_iff.mpr e0)
    rw [getLast?_append_ne' _ _ hne', ea]
    simp only []
    rw [BR.spineLength_eq (sizeOf a) a a' (Nat.le_refl _) r]
    exact Nat.le_refl _

/-- After the indentation: related up to the state, at depths 0 / 2. -/
theorem LineStartI.simS (h : LineStartI k d E G p q) (q1 : LP)
    (m : IndentPost k { q with depth := 2, state := stateDescending } q1) :
    Nest.SimS (iF k d) E G k { p with depth := 0 } { q1 with depth := (iF k d).d } := by
  have mt := m.tree
  simp only [tree, Prod.mk.injEq] at mt
  obtain ⟨m1, m2, m3, m4⟩ := mt
  have hv : (spineGet p.root 0).isSome := by rw [spineGet_zero]; rfl
  refine ⟨⟨?_, ?_, ?_, ?_, h.notab, rfl, ?_⟩, rfl, hv, ?_, h.tp, h.noul, h.srcp, ?_, h.linep, h.lsp, ?_, ?_, ?_, ?_, ?_⟩
  · show q1.line.drop k = p.line
    rw [m.line]; show q.line.drop k = _; rw [h.lineq, List.drop_left' (by simp [spaces])]
  · show k ≤ q1.line.length
    rw [m.line]; show k ≤ q.line.length; rw [h.lineq]; simp [spaces]
  · show q1.i = p.i + k; rw [m.i, h.pi]; omega
  · show p.i ≤ p.line.length; rw [h.pi]; exact Nat.zero_le _
  · show q1.panic = p.panic; rw [m.panic]; exact h.panic
  · show Nest.RootR (iF k d) E p.root q1.root; rw [m2]; exact h.root
  · show q1.source = _; rw [m1]; exact h.srcq
  · show q1.line = q1.source.drop q1.lineStart; rw [m.line, m1, m4]; exact h.lineqs
  · show q1.lineStart ≤ q1.source.length; rw [m1, m4]; exact h.lsq
  · show ∀ j : Nat, j ≤ p.line.length → E.PR ((p.lineStart + j : Nat) : Int) ((q1.lineStart + k + j : Nat) : Int)
    rw [m4]; exact h.here
  · show E.PR (p.lineStart : Int) (q1.lineStart : Int); rw [m4]; exact h.start
  · show ∀ a a' : Int, E.PR a a' → ((p.lineStart : Int) ≤ a ↔ (q1.lineStart : Int) ≤ a')
    rw [m4]; exact h.ord

/-- **One non-empty line behind the first** through both parsers. -/
theorem processLine_simI (HG : GOK x E G) (hm : ∀ is, G is → G' is) (hA : AppendOK G G' p.lineStart p.line)
    (h : LineStartI k d E G p q) (hk : 1 ≤ k) (hne : p.line ≠ []) (hp : Inv p) (hq : Inv q)
    (hT : p.state = stateDescendTerminated → ∃ c, spineGet p.root 1 = some c ∧ c.isOpen = true ∧ hasMatch c.label.kind)
    {src : Bytes} {bd : Int} {ls : Nat} (hgi : RDS.GI src bd ls p) (hbd : bd ≤ (ls : Int)) (hls : ls ≤ src.length) :
    Nest.Btw (iF k d) E G' (processLine x p) (processLine x q) := by
  have m := indent_cursor (k := k) ({ q with depth := 2, state := stateDescending } : LP) p.line hk h.lineq h.qi
    ⟨hq.cur.hi, hq.cur.htab⟩
  have hS := h.simS _ m
  obtain ⟨lq, isQ, ll, isL, Qb, e, _, _, _, _, ht⟩ := root_shape h.root
  have hsl : spineLength q.root = 2 + spineLength Qb := by
    rw [e, spineLength_mk]
    simp only [List.getLast?_singleton]
    rw [spineLength_mk]
    simp only [List.getLast?_singleton]
    omega
  have hfuel : spineLength p.root + 1 ≤ spineLength q.root - 1 := by
    have := TopR.spineLength_ge ht
    omega
  have hq1inv : Inv { ({ q with depth := 2, state := stateDescending } : LP).consumeIndentN k with depth := (iF k d).d } := by
    have mt := m.tree
    simp only [tree, Prod.mk.injEq] at mt
    refine ⟨by show (LP.consumeIndentN _ k).panic = none; rw [m.panic]; exact hq.panic, ⟨m.cur.hi, m.cur.htab⟩, ⟨?_, ?_⟩⟩
    · show (LP.consumeIndentN _ k).root.kind = _; rw [mt.2.1]; exact hq.tree.root
    · show (spineGet (LP.consumeIndentN _ k).root 2).isSome
      rw [mt.2.1]
      show (spineGet q.root 2).isSome
      rw [e, show (2 : Nat) = 0 + 1 + 1 from rfl, spineGet_wrap, spineGet_wrap, spineGet_zero]; rfl
  exact processLine_sim_of (F := iF k d) (x := x) HG hm hA hne hp hT (item_step (x := x) h hk ⟨hq.cur.hi, hq.cur.htab⟩) hfuel hq1inv
    (by rw [m.state]; rfl) hS hgi hbd hls

end CM.Proofs.Item
