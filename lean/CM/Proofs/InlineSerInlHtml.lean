import CM.Proofs.InlineSerInlSpec
/-
Inline serialisation — part 14: `denoteInls` is the HTML of the lines (`toSL_html`), and the END-TO-END theorem
`flat_paragraph_correct`: for a paragraph of words, code spans, entities and autolinks separated by spaces, soft and
hard breaks, `AppendBlock (Parse (ser d)) = denote d`, byte for byte.
-/
namespace CM.Proofs.InlSer
open CM CM.Gen CM.Model CM.Model.Inl CM.Proofs.EscText CM.Spec CM.Proofs.Leaf

/-- The renderer configuration in which `denote` is spelled: no tag filter, soft breaks preserved. -/
structure PlainCx (cx : RCtx) : Prop where
  filter : cx.filter = none
  soft : cx.soft = 0

/-- The item renders as it denotes: for an entity, its spelling is the escaped decoding (`&amp;`, `&lt;`, `&gt;`,
    `&quot;`: the renderer copies a reference); for an autolink, the destination needs no normalisation beyond
    `uriEncode` and is no e-mail address. -/
def HtmlOK : Inl → Prop
  | .entity n d => s "&" ++ n ++ s ";" = escText d
  | .autolink u => Model.isEmailAddress u = false ∧ normalizeURI u = uriEncode u
  | _ => True

theorem item_html (cx : RCtx) (hcx : PlainCx cx) (e : Env) (ext : Ext) (k : Inl) (hk : ItemOK ext k) (hh : HtmlOK k) :
    (itemP k).flatMap (htmlP cx) = denoteInl e k := by
  cases k with
  | word b => rw [denoteInl, escText_eq]; exact html_wordP cx b
  | code b =>
    obtain ⟨_, _, _, _, _, hstrip⟩ := codeMid_facts b hk
    have h1 : openTag cx (str "code") = s "<code>" := by
      simp only [openTag, openTagAttr, hcx.filter]; decide +kernel
    have h2 : closeTag cx (str "code") = s "</code>" := by
      simp only [closeTag, hcx.filter]; decide +kernel
    simp only [itemP, List.flatMap_cons, List.flatMap_nil, List.append_nil, htmlP, hstrip, h1, h2, denoteInl, escText_eq]
  | entity n d => simp only [itemP, List.flatMap_cons, List.flatMap_nil, List.append_nil, htmlP, denoteInl]; exact hh
  | autolink u =>
    obtain ⟨hm, hn⟩ := hh
    have h1 : openTagAttr cx (str "a") ++ str " href=\"" = s "<a href=\"" := by
      simp only [openTagAttr, hcx.filter]; decide +kernel
    have h2 : closeTag cx (str "a") = s "</a>" := by
      simp only [closeTag, hcx.filter]; decide +kernel
    have h3 : str "\">" = s "\">" := rfl
    simp only [itemP, List.flatMap_cons, List.flatMap_nil, List.append_nil, htmlP, autoHtml, denoteInl, hm, hn,
      Bool.false_eq_true, if_false, List.append_nil, h1, h2, h3, escAttr_eq]
  | emph _ => exact hk.elim
  | strong _ => exact hk.elim
  | link _ _ _ => exact hk.elim
  | image _ _ _ => exact hk.elim
  | reflink _ _ => exact hk.elim
  | rawtag _ => exact hk.elim
  | intra _ _ _ _ => exact hk.elim
  | hardbreak => exact hk.elim
  | softbreak => exact hk.elim

theorem toSL_html (cx : RCtx) (hcx : PlainCx cx) (e : Env) (he : e.eol = [LF]) (ext : Ext) (ks : List Inl)
    (h : FlatOK ext ks) (hh : ∀ k ∈ ks, HtmlOK k) : (toSL ks).flatMap (htmlL cx) = denoteInls e ks := by
  have hbr : openTag cx (str "br") ++ [LF] = s "<br>\n" := by
    simp only [openTag, openTagAttr, hcx.filter]; decide +kernel
  fun_induction toSL ks
  · exact h.elim
  · rename_i k
    have hk : ItemOK ext k := h
    simp only [List.flatMap_cons, List.flatMap_nil, List.append_nil, htmlL, htmlE, denoteInls]
    exact item_html cx hcx e ext k hk (hh k (by simp))
  · rename_i k rest ih
    rw [denoteInls, ← ih h.2 (fun k' hk' => hh k' (by simp [hk'])), ← item_html cx hcx e ext k h.1 (hh k (by simp))]
    simp only [List.flatMap_cons, htmlL, htmlE, hbr, List.append_assoc]
  · rename_i k rest ih
    rw [denoteInls, ← ih h.2 (fun k' hk' => hh k' (by simp [hk'])), ← item_html cx hcx e ext k h.1 (hh k (by simp))]
    simp only [List.flatMap_cons, htmlL, htmlE, softHtml, hcx.soft, he, List.append_assoc]
    rfl
  · rename_i k rest hn1 hn2 hn3 l0 L0 hl0 ih
    rw [FlatOK.eq_5 ext k rest hn1 hn2 hn3] at h
    rw [denoteInls.eq_5 e k rest hn1 hn2 hn3, ← ih h.2 (fun k' hk' => hh k' (by simp [hk'])), hl0,
      ← item_html cx hcx e ext k h.1 (hh k (by simp))]
    simp only [List.flatMap_cons, htmlL, List.flatMap_append, htmlP, List.append_assoc]
    rfl
  · rename_i k rest hn1 hn2 hn3 hnil ih
    rw [FlatOK.eq_5 ext k rest hn1 hn2 hn3] at h
    obtain ⟨l, L, hl, _⟩ := toSL_spec ext rest h.2
    rw [hnil] at hl; cases hl

theorem endsOK_facts : ∀ (ls : List SLine), EndsOK ls →
    (∀ l ∈ ls, l.ending ≠ .eof) ∧ (∀ k, (h : k < ls.length) → ls[k].ending.isLast = decide (k + 1 ≥ ls.length))
  | [], h => h.elim
  | [l], h => by
    have h' : l.ending = .lastLF := h
    refine ⟨fun l' hl' => by simp only [List.mem_singleton] at hl'; subst hl'; rw [h']; decide, fun k hk => ?_⟩
    have : k = 0 := by simpa using hk
    subst this
    simp [h', Ending.isLast]
  | l :: l2 :: rest, h => by
    obtain ⟨h1, h2⟩ := h
    obtain ⟨a1, a2⟩ := endsOK_facts (l2 :: rest) h2
    refine ⟨fun l' hl' => ?_, fun k hk => ?_⟩
    · rcases List.mem_cons.1 hl' with rfl | hl'
      · rcases h1 with h1 | h1 <;> rw [h1] <;> decide
      · exact a1 l' hl'
    · cases k with
      | zero =>
        rcases h1 with h1 | h1 <;> simp [h1, Ending.isLast]
      | succ k =>
        have := a2 k (by simpa using hk)
        simp only [List.getElem_cons_succ, List.length_cons] at this ⊢
        rw [this]
        simp

/-- **END TO END, for the flat inline items**: let `ks` be inline items `word`, `code`, `entity`, `autolink` separated by
    spaces, soft breaks and hard breaks (`FlatOK`; acceptance of the references / autolinks by the pure recognisers is
    part of it), each of which renders as it denotes (`HtmlOK`), and let `doc` be the canonical serialisation of the
    paragraph `.para ks` (`serInls`, default choices) + LF.  If no line of `doc` starts another block (the block phase's
    own line conditions), then `Parse doc` is one paragraph and `AppendBlock` renders it as `denoteBlk (.para ks)`. -/
theorem flat_paragraph_correct (x : PExt) (ix : IExt) (ks : List Inl) (h : FlatOK ix.ext ks) (hh : ∀ k ∈ ks, HtmlOK k)
    (hpara : ∀ l0 rest, toSL ks = l0 :: rest → paraFirstOK l0.text = true ∧ l0.text.head? ≠ some 0x5B ∧
      ∀ l ∈ rest, plainLine l.text = true ∧ paraContOK l.text = true) :
    ∃ (r : Root) (t : Tree),
      (parseDoc x ix ((serInls [] [LF] [] ks).1 ++ [LF])).roots = [{ root := r, tree := .ok t }] ∧
      (parseDoc x ix ((serInls [] [LF] [] ks).1 ++ [LF])).ending = .err .eof ∧
      r.source = (serInls [] [LF] [] ks).1 ++ [LF] ∧
      ∀ (cx : RCtx) (dst : Bytes), PlainCx cx → cx.src = r.source →
        appendBlock cx dst t = dst ++ denoteBlk { eol := [LF] } false (.para ks) := by
  obtain ⟨l0, rest, hl, hok, _, _, hser, hends⟩ := toSL_spec ix.ext ks h
  obtain ⟨hneof, hlast⟩ := endsOK_facts _ hends
  obtain ⟨hp1, hp2, hp3⟩ := hpara l0 rest hl
  obtain ⟨r, kids, hr, he, hs, _, hrender⟩ := inline_ser_doc x ix l0 rest hok hlast hneof hp1 hp2 hp3
  rw [hser]
  refine ⟨r, _, hr, he, hs, fun cx dst hcx hsrc => ?_⟩
  rw [hrender cx dst hsrc, ← hl, toSL_html cx hcx { eol := [LF] } rfl ix.ext ks h hh, denoteBlk]
  have h1 : openTag cx (str "p") = s "<p>" := by
    simp only [openTag, openTagAttr, hcx.filter]; decide +kernel
  have h2 : closeTag cx (str "p") = s "</p>" := by
    simp only [closeTag, hcx.filter]; decide +kernel
  simp [h1, h2, List.append_assoc]

end CM.Proofs.InlSer
