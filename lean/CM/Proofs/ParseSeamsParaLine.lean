import CM.Proofs.ParseSeamsParaOps
import CM.Proofs.ParseSeamsLine
/-
C17 (b) for parser output, part 12 (block phase, second invariant): one line through the line parser keeps `GP S`
(`processLine_GP`).  The proofs follow `RefDefCoverTStarts*.lean` / `RefDefCoverTLine*.lean` (the working invariant `BT.Inv`
supplies the cursor facts and the kind of the container after each operation).

Where inline nodes are made:
  * `addLineText`: an Indent node on a TAB (`tabNode_P`), a text node that ends where the source ends (`textNode_P`);
  * `collectInline`: an Indent node over the indentation (`ciIndentNode_P`), then the collected run — into a fresh ATX
    heading (`collectInline_atx`: the run is the last child), or into a block that is neither a paragraph nor a heading
    (`collectInline_free`: info strings, HTML blocks).
-/
namespace CM.Proofs.PS
open CM CM.Model CM.Gen CM.Spec
open CM.Proofs.BT CM.Proofs.BG CM.Proofs.PW CM.Proofs.BSp

variable {x : PExt} {S : Bytes}

/-! ### inline nodes -/

/-- An Indent node. -/
def indNode (a b n : Int) : Tree := .node { isBlock := false, kind := IK.indent, start := a, stop := b, indent := n } []

theorem isIndent_indNode (a b n : Int) : isIndent (indNode a b n) = true := rfl

theorem indentLength_ws : ∀ (l : Bytes) (j : Nat), j < indentLength l → l[j]? = some SP ∨ l[j]? = some TAB := by
  intro l
  induction l with
  | nil => intro j h; simp [indentLength] at h
  | cons b rest ih =>
    intro j h
    rw [indentLength] at h
    split at h
    · omega
    · rename_i hb
      cases j with
      | zero =>
        simp only [List.getElem?_cons_zero, Option.some.injEq]
        simp only [Bool.and_eq_true, bne_iff_ne, ne_eq, not_and, Decidable.not_not] at hb
        by_cases h1 : b = SP
        · exact Or.inl h1
        · exact Or.inr (hb h1)
      | succ j =>
        rw [List.getElem?_cons_succ]
        exact ih j (by omega)

theorem getElem?_source {p : LP} (h : GP0 S p) (j : Nat) : S[p.lineStart + j]? = p.line[j]? := by
  rw [h.line, List.getElem?_drop]

/-- The Indent node `addLineText` puts on a partially consumed tab. -/
theorem tabNode_P {p : LP} (h : GP0 S p) (hlt : p.i < p.line.length) (htab : p.line.getD p.i 0 = TAB) (n : Int) :
    NodeP S (indNode (p.lineStart + p.i) (p.lineStart + p.i + 1) n) := by
  refine ⟨fun _ q h1 h2 => ?_, fun hi => ?_⟩
  · have hq : q = p.lineStart + p.i := by
      have a : ((p.lineStart : Int) + (p.i : Int)) ≤ (q : Int) := h1
      have b : (q : Int) < (p.lineStart : Int) + (p.i : Int) + 1 := h2
      omega
    subst hq
    right
    rw [getElem?_source h, List.getElem?_eq_getElem hlt]
    rw [List.getD_eq_getElem?_getD, List.getElem?_eq_getElem hlt] at htab
    exact congrArg some htab
  · rw [isIndent_indNode] at hi; cases hi

/-- The Indent node of `collectInline`: the indentation after the cursor. -/
theorem ciIndentNode_W {p : LP} (h : GP0 S p) (n : Int) :
    IndWS S (indNode (p.lineStart + p.i) ((p.lineStart : Int) + ((p.i + indentLength (p.line.drop p.i) : Nat) : Int)) n) := by
  intro q h1 h2
  have a : ((p.lineStart : Int) + (p.i : Int)) ≤ (q : Int) := h1
  have b : (q : Int) < (p.lineStart : Int) + ((p.i + indentLength (p.line.drop p.i) : Nat) : Int) := h2
  have hq : q = p.lineStart + (p.i + (q - p.lineStart - p.i)) := by omega
  rw [hq, getElem?_source h, ← List.getElem?_drop]
  exact indentLength_ws _ _ (by omega)

/-- A node that ends where the line (and the source) ends. -/
theorem textNode_P {p : LP} (h : GP0 S p) (k : Nat) (hk : k ≠ IK.indent) (a : Int) :
    NodeP S (mkInline k a (p.lineStart + p.line.length)) := by
  refine ⟨fun hi => ?_, fun _ => Or.inr h.atEnd_line⟩
  exfalso
  have : (mkInline k a (↑p.lineStart + ↑p.line.length)).label.kind = IK.indent := by
    unfold isIndent Node.isI at hi
    simp only [Bool.and_eq_true, beq_iff_eq] at hi
    exact hi.2
  exact hk this

/-! ### the container after `openBlock` -/

/-- After `openBlock` the container is the new block: no children yet. -/
theorem openBlock_container (p : LP) (kind : Nat) (attrs : PLabel → PLabel) (hattr : ∀ l, (attrs l).kind = l.kind)
    (hI : BT.Inv p) (hst : p.state ≤ 2) :
    ∃ l, spineGet (p.openBlock x kind attrs).root (p.openBlock x kind attrs).depth = some (.mk l [] []) ∧ l.kind = kind := by
  unfold LP.openBlock
  have hs : (p.state == stateDescending || p.state == stateDescendTerminated) = false := by
    simp only [stateDescending, stateDescendTerminated]
    have : p.state ≠ 3 := by omega
    have : p.state ≠ 4 := by omega
    simp [*]
  simp only [hs, Bool.false_eq_true, if_false]
  have hT1 : TreeOK p.markMatched := TreeOK.of_tree (by rw [markMatched_eq]; rfl) hI.tree
  have hT2 : TreeOK (LP.openBlockLoop x kind (p.markMatched.depth + 1) p.markMatched) := by
    have : ∀ (fuel : Nat) (q : LP), TreeOK q → TreeOK (LP.openBlockLoop x kind fuel q) := by
      intro fuel
      induction fuel with
      | zero => intro q h; exact h
      | succ fuel ih =>
        intro q h
        unfold LP.openBlockLoop
        split
        · exact h
        · split
          · exact treeOK_setPanic h _
          · exact ih _ (closeContainer_post x q q.lineStart h).ok
    exact this _ _ hT1
  generalize LP.openBlockLoop x kind (p.markMatched.depth + 1) p.markMatched = p2 at hT2
  have hcl := closeLastChild_ok x p2 p2.lineStart hT2
  generalize p2.closeLastChild x p2.lineStart = p3 at hcl
  refine ⟨attrs { kind := kind, start := p3.lineStart + p3.i }, ?_, hattr _⟩
  show spineGet (spineModify _ p3.root p3.depth) (p3.depth + 1) = _
  rw [spineGet_modify_add]
  cases hs3 : spineGet p3.root p3.depth with
  | none => have := hcl.valid; rw [hs3] at this; cases this
  | some c =>
    obtain ⟨l, bs, is⟩ := c
    show spineGet (PB.mk l (bs ++ [_]) is) 1 = _
    rw [spineGet_succ]
    simp [spineGet_zero]

/-- What is known about a fresh leaf container (`l.kind = k`, no children but Indent nodes). -/
def FreshC (S : Bytes) (k : Nat) (p : LP) : Prop :=
  ∃ l is, spineGet p.root p.depth = some (.mk l [] is) ∧ l.kind = k ∧ ∀ t ∈ is, isIndent t = true ∧ IndWS S t

theorem FreshC.of_fr {k : Nat} {p q : LP} (h : FreshC S k p) (e : RDS.fr q = RDS.fr p) : FreshC S k q := by
  simp only [RDS.fr, Prod.mk.injEq] at e
  obtain ⟨_, _, _, e4, e5⟩ := e
  unfold FreshC
  rw [e4, e5]; exact h

theorem openBlock_fresh (p : LP) (kind : Nat) (attrs : PLabel → PLabel) (hattr : ∀ l, (attrs l).kind = l.kind)
    (hI : BT.Inv p) (hst : p.state ≤ 2) : FreshC S kind (p.openBlock x kind attrs) := by
  obtain ⟨l, h1, h2⟩ := openBlock_container (x := x) p kind attrs hattr hI hst
  exact ⟨l, [], h1, h2, fun _ h => by cases h⟩

/-! ### appending to a fresh ATX heading -/

theorem appendInline_fresh (p : LP) (t : Tree) (hw : isIndent t = true → IndWS S t) (hf : FreshC S BK.atxHeading p)
    (h0 : GP0 S p) :
    GP0 S (p.appendInline t) ∧ (isIndent t = true → FreshC S BK.atxHeading (p.appendInline t)) := by
  obtain ⟨l, is, hget, hk, his⟩ := hf
  constructor
  · rw [BG.appendInline_eq]
    refine modifyContainer_GP0 p _ ?_ h0
    intro c hc _
    rw [hget] at hc
    cases hc
    simp only [BG.appendInl]
    rw [PP_mk]
    refine ⟨⟨fun _ => rfl, fun hp => ?_, fun _ => ⟨fun u hu hi => ?_, fun u hu => ?_⟩⟩, fun _ hb => by cases hb⟩
    · rcases hp with hp | hp <;> (rw [hk] at hp; exact absurd hp (by decide))
    · rcases List.mem_append.1 hu with hu | hu
      · exact (his u hu).2
      · rw [List.mem_singleton] at hu; subst hu; exact hw hi
    · rw [List.dropLast_concat] at hu
      exact (his u hu).1
  · intro hi
    refine ⟨l, is ++ [t], ?_, hk, ?_⟩
    · show spineGet (spineModify (BG.appendInl t) p.root p.depth) p.depth = _
      rw [spineGet_modify_self, hget]; rfl
    · intro u hu
      rcases List.mem_append.1 hu with hu | hu
      · exact his u hu
      · rw [List.mem_singleton] at hu; subst hu; exact ⟨hi, hw hi⟩

/-- `collectInline` into a fresh ATX heading: an Indent node over the indentation, then the content run. -/
theorem collectInline_atx (p : LP) (kind n : Nat) (hkn : kind ≠ IK.infoString) (hki : kind ≠ IK.indent) (hI : BT.Inv p)
    (hst : p.state ≠ 4) (hf : FreshC S BK.atxHeading p) (h0 : GP0 S p) : GP0 S (p.collectInline x kind n) := by
  rw [BSp.collectInline_eq x p kind n hst]
  have h1 : BT.Inv ({ p with state := mm p.state } : LP) := hI.setState _
  have g1 : GP0 S ({ p with state := mm p.state } : LP) := h0.setState _
  have f1 : FreshC S BK.atxHeading ({ p with state := mm p.state } : LP) := hf
  generalize ({ p with state := mm p.state } : LP) = p1 at h1 g1 f1 ⊢
  have h2 : GP0 S (BSp.ciIndent p1) ∧ FreshC S BK.atxHeading (BSp.ciIndent p1) := by
    unfold BSp.ciIndent
    split
    · have hb : p1.i + indentLength (p1.line.drop p1.i) ≤ p1.line.length := by
        have := indentLength_le (p1.line.drop p1.i)
        simp only [List.length_drop] at this
        have := h1.cur.hi
        omega
      have ad := advance_post p1 _ h1.cur hb
      have ga := g1.of_fr (RDS.fr_advance p1 (indentLength (p1.line.drop p1.i)))
      have fa := f1.of_fr (RDS.fr_advance p1 (indentLength (p1.line.drop p1.i)))
      have hnode := ciIndentNode_W g1 (p1.indent : Int)
      have hls : (p1.advance (indentLength (p1.line.drop p1.i))).lineStart = p1.lineStart :=
        RDS.fr_lineStart (RDS.fr_advance p1 _)
      have r := appendInline_fresh (p1.advance (indentLength (p1.line.drop p1.i)))
        (indNode (p1.lineStart + p1.i) ((p1.lineStart : Int) + ((p1.i + indentLength (p1.line.drop p1.i) : Nat) : Int)) p1.indent)
        (fun _ => hnode) fa ga
      rw [hls, ad.i]
      exact ⟨r.1, r.2 rfl⟩
    · exact ⟨g1, f1⟩
  generalize BSp.ciIndent p1 = p2 at h2
  have g3 := h2.1.of_fr (RDS.fr_advance p2 n)
  have f3 := h2.2.of_fr (RDS.fr_advance p2 n)
  refine (appendInline_fresh _ _ (fun hi => ?_) f3 g3).1
  exfalso
  unfold BSp.ciNode at hi
  rw [if_neg (by simpa using hkn)] at hi
  have : (mkInline kind (↑p2.lineStart + ↑p2.i) (↑(p2.advance n).lineStart + ↑(p2.advance n).i)).label.kind = IK.indent := by
    unfold isIndent Node.isI at hi
    simp only [Bool.and_eq_true, beq_iff_eq] at hi
    exact hi.2
  exact hki this

/-! ### `collectInline` into a block that is neither a paragraph nor a heading -/

theorem collectInline_free (p : LP) (kind n : Nat) (hI : BT.Inv p) (hst : p.state ≠ 4)
    (hk1 : p.containerKind ≠ BK.paragraph) (hk2 : p.containerKind ≠ BK.setextHeading) (h : GP S p) :
    GP S (p.collectInline x kind n) := by
  rw [BSp.collectInline_eq x p kind n hst]
  have h1 : BT.Inv ({ p with state := mm p.state } : LP) := hI.setState _
  have g1 : GP S ({ p with state := mm p.state } : LP) := h.setState _
  have k1 : ({ p with state := mm p.state } : LP).containerKind = p.containerKind := rfl
  generalize ({ p with state := mm p.state } : LP) = p1 at h1 g1 k1 ⊢
  have h2 : GP S (BSp.ciIndent p1) ∧ (BSp.ciIndent p1).containerKind = p.containerKind ∧ TreeOK (BSp.ciIndent p1) := by
    unfold BSp.ciIndent
    split
    · have hT := advance_treeOK p1 (indentLength (p1.line.drop p1.i)) h1.tree
      have hk : (p1.advance (indentLength (p1.line.drop p1.i))).containerKind = p.containerKind := by
        rw [RDS.fr_containerKind (RDS.fr_advance p1 _)]; exact k1
      refine ⟨appendInline_GP_free _ _ (by rw [hk]; exact hk1) (by rw [hk]; exact hk2) hT (g1.of_fr (RDS.fr_advance p1 _)), ?_, ?_⟩
      · rw [appendInline_containerKind _ _ hT]; exact hk
      · rw [BG.appendInline_eq]
        exact modifyContainer_ok _ _ (fun c => by obtain ⟨l, bs, is⟩ := c; rfl) hT
    · exact ⟨g1, k1, h1.tree⟩
  generalize BSp.ciIndent p1 = p2 at h2
  obtain ⟨g2, k2, hT2⟩ := h2
  have hT3 := advance_treeOK p2 n hT2
  have k3 : (p2.advance n).containerKind = p.containerKind := by
    rw [RDS.fr_containerKind (RDS.fr_advance p2 n)]; exact k2
  exact appendInline_GP_free _ _ (by rw [k3]; exact hk1) (by rw [k3]; exact hk2) hT3 (g2.of_fr (RDS.fr_advance p2 n))

/-! ### closing the container -/

/-- `endBlock` at the end of the line. -/
theorem endBlock_GP (p : LP) (hI : BT.Inv p) (hst : p.state ≤ 2) (hi : p.i = p.line.length) (h : GP S p) :
    GP S (p.endBlock x) := by
  rw [BSp.endBlock_eq x p hst]
  have hT : TreeOK ({ p with state := mm p.state } : LP) := ⟨hI.tree.root, hI.tree.valid⟩
  refine closeContainer_GP _ _ hT (Or.inr ?_) (h.setState _)
  have := h.toGP0.atEnd_line
  unfold BSp.curPos
  rw [hi]; exact this

/-- Closing a fresh leaf that is no paragraph, at any position (the list marker). -/
theorem closeContainer_leaf (p : LP) (e : Int) (k : Nat) (hk1 : k ≠ BK.paragraph) (hk2 : k ≠ BK.setextHeading)
    (hk3 : k ≠ BK.document) (hT : TreeOK p) (hf : FreshC S k p) (h : GP0 S p) : GP S (p.closeContainer x e) := by
  obtain ⟨l, is, hget, hlk, _⟩ := hf
  have hd : p.depth ≠ 0 := by
    intro h0
    rw [h0, spineGet_zero] at hget
    have := hT.root
    rw [Option.some.inj hget] at this
    exact hk3 (hlk.symm.trans this)
  refine ⟨?_, closeContainer_nk p e hT h.good⟩
  rw [BSp.closeContainer_eq x p e hd]
  refine ⟨h.source, h.line, h.lsle, h.lsOK, ?_⟩
  show PP S (spineReplaceLast (closeBlock x p.source e) p.root (p.depth - 1))
  rw [h.source, BT.spineReplaceLast_eq]
  refine PP_spineModify _ _ _ h.good ?_
  intro b hb hpb
  refine replaceLastFn_PP _ b hpb ?_
  intro c0 hc0 hp0
  have e1 : p.depth = (p.depth - 1) + 1 := by omega
  rw [e1, BSp.spineGet_succ_eq, hb] at hget
  simp only [Option.bind_some] at hget
  rw [hc0] at hget
  cases hget
  exact closeBlock_PP_leaf x S e l is (by rw [hlk]; exact hk1) (by rw [hlk]; exact hk2) hp0

/-! ### the block starts -/

theorem startBlockQuote_GP (q : LP) (h : BT.Inv q) (hs : q.state = 0) (hg : GP S q) : GP S (startBlockQuote x q) := by
  unfold startBlockQuote
  simp only []
  split
  · exact hg
  split
  · exact hg
  obtain ⟨ci, _, _⟩ := consumeAll q h
  have g1 := hg.of_fr (RDS.fr_consumeIndentN q q.indent)
  generalize q.consumeIndentN q.indent = p1 at ci g1 ⊢
  have i1 := ci.inv h
  have s1 := ci.st (by omega)
  have g2 := openBlock_GP (x := x) p1 BK.blockQuote id id_kind (by decide) i1 s1.2 (Or.inl (by decide)) g1
  generalize p1.openBlock x BK.blockQuote = p2 at g2
  have g3 := g2.of_fr (RDS.fr_advance p2 blockQuotePrefix.length)
  generalize p2.advance blockQuotePrefix.length = p3 at g3
  split
  · exact g3.of_fr (RDS.fr_consumeIndentN p3 1)
  · exact g3

theorem startATX_GP (q : LP) (h : BT.Inv q) (hs : q.state = 0) (hg : GP S q) : GP S (startATX x q) := by
  unfold startATX
  simp only []
  split
  · exact hg
  split
  · exact hg
  rename_i _ hlev
  have hb := parseATXHeading_bound q.bytesAfterIndent
  generalize parseATXHeading q.bytesAfterIndent = hd at hb hlev ⊢
  obtain ⟨hb1, hb2, hb3⟩ := hb
  have hb3 := hb3 (by omega)
  obtain ⟨ci, hdrop, hil⟩ := consumeAll q h
  have g1 := hg.of_fr (RDS.fr_consumeIndentN q q.indent)
  generalize q.consumeIndentN q.indent = p1 at ci hdrop hil g1 ⊢
  have i1 := ci.inv h
  have s1 := ci.st (by omega)
  have ob := openBlock_inv x p1 BK.atxHeading (fun l => { l with n := hd.level }) (fun _ => rfl) i1 s1.2 (Or.inl (by decide))
  have g2 := openBlock_GP0 (x := x) p1 BK.atxHeading (fun l => { l with n := hd.level }) i1.tree g1
  have f2 := openBlock_fresh (x := x) (S := S) p1 BK.atxHeading (fun l => { l with n := hd.level }) (fun _ => rfl) i1 s1.2
  generalize p1.openBlock x BK.atxHeading (fun l => { l with n := hd.level }) = p2 at ob g2 f2
  have i2 := ob.inv i1
  have s2 := ob.st s1.2
  have e2i : p2.i = p1.i := cur_i ob.cur
  have e2l : p2.line = p1.line := cur_line ob.cur
  have ad := advance_post p2 hd.start i2.cur (by rw [e2i, e2l, ci.line]; omega)
  have g3 := g2.of_fr (RDS.fr_advance p2 hd.start)
  have f3 := f2.of_fr (RDS.fr_advance p2 hd.start)
  generalize p2.advance hd.start = p3 at ad g3 f3
  have i3 := ad.inv i2
  have s3 := ad.st s2.2.1
  have hdrop3 : p3.line.getD p3.i 0 = q.bytesAfterIndent.getD hd.start 0 := by
    rw [ad.i, ad.line, e2i, e2l]; exact getD_of_drop p1 _ _ hdrop
  have hind3 : p3.indent = 0 := indent_zero_of_getD p3 (by rw [hdrop3]; exact hb3.1) (by rw [hdrop3]; exact hb3.2)
  have co := collectInline_post x p3 IK.unparsed (hd.stop - hd.start) i3 (by omega) (by
    rw [ciSkip_zero p3 hind3, ad.i, ad.line, e2i, e2l, ci.line]; omega)
  have g4 := collectInline_atx (x := x) p3 IK.unparsed (hd.stop - hd.start) (by decide) (by decide) i3 (by omega) f3 g3
  generalize p3.collectInline x IK.unparsed (hd.stop - hd.start) = p4 at co g4
  have s4 := co.st s3.2
  have cl := consumeLine_post p4 co.inv.cur
  have g5 := g4.of_fr (RDS.fr_consumeLine p4)
  generalize p4.consumeLine = p5 at cl g5
  have i5 := cl.inv co.inv
  have s5 := cl.st s4.2.1
  -- close the heading: the new container is its parent
  rw [BSp.endBlock_eq x p5 (by omega)]
  have hT : TreeOK ({ p5 with state := mm p5.state } : LP) := ⟨i5.tree.root, i5.tree.valid⟩
  refine ⟨closeContainer_GP0 _ _ (Or.inr ?_) (g5.setState _), closeContainer_nk _ _ hT g5.good⟩
  have := g5.atEnd_line
  unfold BSp.curPos
  rw [cl.i, ← cl.line]; exact this

theorem startThematicBreak_GP (q : LP) (h : BT.Inv q) (hs : q.state = 0) (hg : GP S q) :
    GP S (startThematicBreak x q) := by
  unfold startThematicBreak
  simp only []
  split
  · exact hg
  split
  · exact hg
  rename_i _ hneg
  have hb := parseThematicBreak_le q.bytesAfterIndent (by omega)
  generalize parseThematicBreak q.bytesAfterIndent = e at hb hneg ⊢
  obtain ⟨ci, hdrop, hil⟩ := consumeAll q h
  have g1 := hg.of_fr (RDS.fr_consumeIndentN q q.indent)
  generalize q.consumeIndentN q.indent = p1 at ci hdrop hil g1 ⊢
  have i1 := ci.inv h
  have s1 := ci.st (by omega)
  have ob := openBlock_inv x p1 BK.thematicBreak id id_kind i1 s1.2 (Or.inl (by decide))
  have g2 := openBlock_GP (x := x) p1 BK.thematicBreak id id_kind (by decide) i1 s1.2 (Or.inl (by decide)) g1
  generalize p1.openBlock x BK.thematicBreak = p2 at ob g2
  have i2 := ob.inv i1
  have s2 := ob.st s1.2
  have e2i : p2.i = p1.i := cur_i ob.cur
  have e2l : p2.line = p1.line := cur_line ob.cur
  have ad := advance_post p2 e.toNat i2.cur (by rw [e2i, e2l, ci.line]; omega)
  have g3 := g2.of_fr (RDS.fr_advance p2 e.toNat)
  generalize p2.advance e.toNat = p3 at ad g3
  have i3 := ad.inv i2
  have s3 := ad.st s2.2.1
  have cl := consumeLine_post p3 i3.cur
  have g5 := g3.of_fr (RDS.fr_consumeLine p3)
  generalize p3.consumeLine = p5 at cl g5
  have i5 := cl.inv i3
  have s5 := cl.st s3.2
  exact endBlock_GP p5 i5 (by omega) (by rw [cl.i, cl.line]) g5

theorem startFenced_GP (q : LP) (h : BT.Inv q) (hs : q.state = 0) (hg : GP S q) : GP S (startFenced x q) := by
  unfold startFenced
  simp only []
  split
  · exact hg
  split
  · exact hg
  have hb := parseCodeFence_bound q.bytesAfterIndent
  generalize parseCodeFence q.bytesAfterIndent = fc at hb ⊢
  obtain ⟨ci, hdrop, hil⟩ := consumeAll q h
  have g1 := hg.of_fr (RDS.fr_consumeIndentN q q.indent)
  generalize q.consumeIndentN q.indent = p1 at ci hdrop hil g1 ⊢
  have i1 := ci.inv h
  have s1 := ci.st (by omega)
  have ob := openBlock_inv x p1 BK.fencedCode (fun l => { l with char := fc.char, n := fc.n }) (fun _ => rfl) i1 s1.2
    (Or.inl (by decide))
  have g2 := openBlock_GP (x := x) p1 BK.fencedCode (fun l => { l with char := fc.char, n := fc.n }) (fun _ => rfl)
    (by decide) i1 s1.2 (Or.inl (by decide)) g1
  generalize p1.openBlock x BK.fencedCode (fun l => { l with char := fc.char, n := fc.n }) = p2 at ob g2
  have i2 := ob.inv i1
  have s2 := ob.st s1.2
  have sc := setContainerIndent_post p2 (↑q.indent) i2.tree s2.2.2 s2.2.1 (Or.inr ob.ckind)
  have g3 := setContainerIndent_GP p2 (↑q.indent) i2.tree g2
  generalize p2.setContainerIndent (↑q.indent) = p3 at sc g3
  have i3 := sc.inv i2
  have e3i : p3.i = p1.i := by rw [cur_i sc.cur, cur_i ob.cur]
  have e3l : p3.line = p1.line := by rw [cur_line sc.cur, cur_line ob.cur]
  have s3 : 1 ≤ p3.state ∧ p3.state ≤ 2 := by rw [sc.state]; omega
  have k3 : p3.containerKind = BK.fencedCode := by rw [sc.kind, ob.ckind]
  split
  · rename_i hcond
    simp only [Bool.and_eq_true, decide_eq_true_eq] at hcond
    obtain ⟨⟨hc1, hc2⟩, hc3⟩ := hcond
    obtain ⟨hb1, hb2, hb3⟩ := hb hc1 hc2
    have ad := advance_post p3 fc.infoStart.toNat i3.cur (by rw [e3i, e3l, ci.line]; omega)
    have g4 := g3.of_fr (RDS.fr_advance p3 fc.infoStart.toNat)
    generalize p3.advance fc.infoStart.toNat = p4 at ad g4
    have i4 := ad.inv i3
    have s4 := ad.st s3.2
    have k4 : p4.containerKind = BK.fencedCode := by rw [ad.ckind, k3]
    have g5 := collectInline_free (x := x) p4 IK.infoString (fc.infoEnd - fc.infoStart).toNat i4 (by omega)
      (by rw [k4]; decide) (by rw [k4]; decide) g4
    exact g5.of_fr (RDS.fr_consumeLine _)
  · exact g3.of_fr (RDS.fr_consumeLine _)

theorem htmlStartLoop_GP (line : Bytes) : ∀ (fuel i : Nat) (q : LP), BT.Inv q → q.state = 0 → GP S q →
    GP S (htmlStartLoop x line fuel i q) := by
  intro fuel
  induction fuel with
  | zero => intro i q _ _ hg; exact hg
  | succ fuel ih =>
    intro i q h hs hg
    unfold htmlStartLoop
    split
    · exact hg
    split
    · split
      · exact hg
      have ob := openBlock_inv x q BK.htmlBlock (fun l => { l with n := i }) (fun _ => rfl) h (by omega) (Or.inl (by decide))
      have g2 := openBlock_GP (x := x) q BK.htmlBlock (fun l => { l with n := i }) (fun _ => rfl) (by decide) h (by omega)
        (Or.inl (by decide)) hg
      simp only []
      generalize q.openBlock x BK.htmlBlock (fun l => { l with n := i }) = p2 at ob g2
      have i2 := ob.inv h
      have s2 : p2.state = 1 := by rw [ob.state, hs]; rfl
      split
      · have co := collectInline_post x p2 IK.rawHTML p2.bytesAfterIndent.length i2 (by omega) (by
          rw [ciSkip_bai p2 i2.cur]; exact Nat.le_refl _)
        have g4 := collectInline_free (x := x) p2 IK.rawHTML p2.bytesAfterIndent.length i2 (by omega)
          (by rw [ob.ckind]; decide) (by rw [ob.ckind]; decide) g2
        generalize p2.collectInline x IK.rawHTML p2.bytesAfterIndent.length = p4 at co g4
        have s4 := co.st (by omega)
        have cl := consumeLine_post p4 co.inv.cur
        have g5 := g4.of_fr (RDS.fr_consumeLine p4)
        generalize p4.consumeLine = p5 at cl g5
        have i5 := cl.inv co.inv
        have s5 := cl.st s4.2.1
        exact endBlock_GP p5 i5 (by omega) (by rw [cl.i, cl.line]) g5
      · exact g2
    · exact ih (i + 1) q h hs hg

theorem startHTML_GP (q : LP) (h : BT.Inv q) (hs : q.state = 0) (hg : GP S q) : GP S (startHTML x q) := by
  unfold startHTML
  simp only []
  split
  · exact hg
  split
  · exact hg
  exact htmlStartLoop_GP _ 8 0 q h hs hg

theorem startIndentedCode_GP (q : LP) (h : BT.Inv q) (hs : q.state = 0) (hg : GP S q) :
    GP S (startIndentedCode x q) := by
  unfold startIndentedCode
  split
  · exact hg
  rename_i hc
  simp only [Bool.or_eq_true, decide_eq_true_eq, not_or, Nat.not_lt] at hc
  have hind : codeBlockIndentLimit ≤ q.indent := hc.1.1
  simp only []
  have ci := consumeIndentN_post q codeBlockIndentLimit h.cur hind
  have g1 := hg.of_fr (RDS.fr_consumeIndentN q codeBlockIndentLimit)
  generalize q.consumeIndentN codeBlockIndentLimit = p1 at ci g1
  have i1 := ci.inv h
  have s1 : p1.state = 1 := by rw [ci.state, hs]; rfl
  exact openBlock_GP (x := x) p1 BK.indentedCode id id_kind (by decide) i1 (by omega) (Or.inl (by decide)) g1

end CM.Proofs.PS
