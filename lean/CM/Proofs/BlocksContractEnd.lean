import CM.Proofs.BlocksContractText
import CM.Proofs.BlocksCursor
/-
C01 contract for the real block parser — the end-of-line summary `TopEnd` and `addLineText`.
-/
namespace CM.Proofs
open CM CM.Model CM.Gen CM.Props.C01

/-- What is known at the end of a line: the check of the contract on the children of the document, and the text of an
    open paragraph that is the last child. -/
structure TopEnd (N : Nat) (p : LP) : Prop where
  ok : p.root.blocks ≠ [] → KidsOK p.source 0 p.root.blocks
  para : ∀ c, p.root.blocks.getLast? = some c → c.label.stop < 0 → ParaT N c
  /-- an open last child leaves room: the children before it end before the end of the source -/
  room : ∀ c, p.root.blocks.getLast? = some c → c.label.stop < 0 → ∀ a ∈ p.root.blocks.dropLast, a.label.stop < (N : Int)

theorem TopEnd.of_eq {N : Nat} {p p' : LP} (h : TopEnd N p) (h1 : p'.root = p.root) (h2 : p'.source = p.source) :
    TopEnd N p' :=
  ⟨by rw [h1, h2]; exact h.ok, by rw [h1]; exact h.para, by rw [h1]; exact h.room⟩

theorem topEnd_of_B {N : Nat} {p : LP} (hs : SrcOK N p) (h : TopB N p) : TopEnd N p := by
  cases h with
  | closedN pre last hb hc hl hlt =>
    have hch : Chain p.source (N : Int) 0 (pre ++ [last]) := by
      rw [chain_append]
      refine ⟨hc.mono (by have := hs.ls; omega), chain_single ?_ (by rw [hl]; exact Int.le_refl _) (by rw [hl]; exact hs.cutN)⟩
      have := hc.lastStop_le (by omega : (0 : Int) ≤ (p.lineStart : Int))
      rw [hl]; omega
    have hcl : ∀ c, p.root.blocks.getLast? = some c → c.label.stop < 0 → False := by
      intro c hc' ho
      rw [hb, List.getLast?_concat] at hc'
      cases hc'
      rw [hl] at ho; omega
    refine ⟨fun _ => ?_, fun c hc' ho => (hcl c hc' ho).elim, fun c hc' ho => (hcl c hc' ho).elim⟩
    · rw [hb]
      have := kidsOK_of_chain_closed (Int.le_refl 0) hch (by
        rw [lastStop_concat, hl, Int.toNat_natCast, ← hs.len, List.drop_length]; rfl)
      simpa using this
  | orphan pre o hb hne hc ho =>
    refine ⟨fun _ => ?_, fun c hc' _ => ?_, fun _ _ _ a ha => ?_⟩
    · rw [hb]
      have := kidsOK_of_chain_open (Int.le_refl 0) hc ho.stop
      simpa using this
    · rw [hb, List.getLast?_concat] at hc'
      cases hc'
      intro _ _
      obtain ⟨t, s, h1, h2, h3, h4, h5, h6⟩ := ho.inl
      rw [h1]
      exact ⟨s, ContigL.single h3 h6 (by omega) h2⟩
    · rw [hb, List.dropLast_concat] at ha
      have := hc.all_le a ha
      have := hs.lt
      omega

theorem topEnd_of_A {Q : Nat → Prop} {N : Nat} {p : LP} (hs : SrcOK N p) (h : TopA Q p)
    (hpara : ∀ c, p.root.blocks.getLast? = some c → c.label.stop < 0 → ParaT N c)
    (hbl : p.depth = 0 → Gap p.source p.lineStart N) : TopEnd N p := by
  have hlt := hs.lt
  refine ⟨fun hne => ?_, hpara, fun c0 hc0 ho0 a ha => ?_⟩
  · cases h with
    | empty he => exact absurd he hne
    | old k hb ho hls hp =>
      rw [hb]
      exact KidsOK.last_open (isOpen_eq_true_of_open ho)
    | closedAt _ hc hg hd =>
      have := kidsOK_of_chain_closed (Int.le_refl 0) hc (by
        apply isBlankLine_drop_of_gap
        rw [hs.len]
        exact hg.trans (hbl hd))
      simpa using this
    | new pre c hb hc ho _ _ _ _ =>
      rw [hb]
      have := kidsOK_of_chain_open (Int.le_refl 0) hc ho
      simpa using this
  · cases h with
    | empty he => rw [he] at hc0; cases hc0
    | old k hb ho hls hp =>
      rw [hb] at ha; simp at ha
    | closedAt _ hc hg hd =>
      have := hc.closed (Int.le_refl _) c0 (List.mem_of_getLast? hc0)
      unfold PBClosed at this; omega
    | new pre c hb hc ho _ _ _ _ =>
      rw [hb, List.dropLast_concat] at ha
      have := hc.all_le a ha
      omega

/-! ### Cursor facts -/

theorem dropWhile_ws_cons {c : UInt8} (h : c = SP ∨ c = TAB) (l : Bytes) :
    (c :: l).dropWhile (fun c => c == SP || c == TAB) = l.dropWhile (fun c => c == SP || c == TAB) := by
  rw [List.dropWhile_cons]
  rcases h with rfl | rfl <;> simp

theorem bai_step (p : LP) (h1 : p.i < p.line.length) (h2 : p.line.getD p.i 0 = SP ∨ p.line.getD p.i 0 = TAB) :
    (p.line.drop (p.i + 1)).dropWhile (fun c => c == SP || c == TAB) = p.bytesAfterIndent := by
  unfold LP.bytesAfterIndent
  rw [BT.drop_cons_of_lt p.line p.i h1, dropWhile_ws_cons h2]

theorem consumeIndent_bai : ∀ (fuel : Nat) (p : LP) (n : Nat),
    (LP.consumeIndent fuel p n).bytesAfterIndent = p.bytesAfterIndent := by
  intro fuel
  induction fuel with
  | zero => intro p n; rfl
  | succ fuel ih =>
    intro p n
    unfold LP.consumeIndent
    split
    · rfl
    · have hm : p.markMatched.i = p.i ∧ p.markMatched.line = p.line := by
        unfold LP.markMatched; split <;> exact ⟨rfl, rfl⟩
      simp only
      split
      · rename_i hsp
        simp only [Bool.and_eq_true, decide_eq_true_eq, beq_iff_eq] at hsp
        rw [ih]
        unfold LP.bytesAfterIndent
        rw [(updateTab_frame _).2.2, (updateTab_frame _).1.line]
        simp only
        have := bai_step p.markMatched hsp.1 (Or.inl hsp.2)
        unfold LP.bytesAfterIndent at this
        rw [this, hm.1, hm.2]
      · split
        · rename_i htab
          simp only [Bool.and_eq_true, decide_eq_true_eq, beq_iff_eq] at htab
          split
          · unfold LP.bytesAfterIndent; simp only [hm.1, hm.2]
          · rw [ih]
            unfold LP.bytesAfterIndent
            rw [(updateTab_frame _).2.2, (updateTab_frame _).1.line]
            simp only
            have := bai_step p.markMatched htab.1 (Or.inr htab.2)
            unfold LP.bytesAfterIndent at this
            rw [this, hm.1, hm.2]
        · unfold LP.setPanic LP.bytesAfterIndent
          split <;> simp only [hm.1, hm.2]

theorem all_of_dropWhile_nil {α : Type} (f : α → Bool) : ∀ (l : List α), l.dropWhile f = [] → ∀ c ∈ l, f c = true := by
  intro l
  induction l with
  | nil => intro _ c hc; cases hc
  | cons a t ih =>
    intro h c hc
    rw [List.dropWhile_cons] at h
    split at h
    · rename_i ha
      rcases List.mem_cons.mp hc with rfl | hc'
      · exact ha
      · exact ih h c hc'
    · cases h

theorem bai_ne_of_not_blank (p : LP) (h : p.isRestBlank = false) : p.bytesAfterIndent ≠ [] := by
  intro he
  unfold LP.bytesAfterIndent at he
  unfold LP.isRestBlank isBlankLine at h
  have hall : ∀ c ∈ p.line.drop p.i, (c == SP || c == TAB) = true := by
    intro c hc
    exact all_of_dropWhile_nil _ _ he c hc
  have : (p.line.drop p.i).all isSpaceTabOrLineEnding = true := by
    rw [List.all_eq_true]
    intro c hc
    have := hall c hc
    simp only [Bool.or_eq_true, beq_iff_eq] at this
    rcases this with rfl | rfl <;> decide
  rw [this] at h; cases h

theorem i_lt_of_bai_ne (p : LP) (h : p.bytesAfterIndent ≠ []) : p.i < p.line.length := by
  rcases Nat.lt_or_ge p.i p.line.length with hlt | hge
  · exact hlt
  · exfalso
    apply h
    unfold LP.bytesAfterIndent
    rw [List.drop_eq_nil_of_le hge]; rfl

/-! ### The last child of the document -/

/-- When the container is a child of the document, that child is open. -/
theorem lastOpen_of_depth1 {Q : Nat → Prop} {am : Bool} {N : Nat} {p : LP} (h : LT Q am N p) (hd : p.depth = 1) :
    ∃ c, p.root.blocks.getLast? = some c ∧ c.label.stop < 0 := by
  cases h.top with
  | empty he =>
    obtain ⟨b, hb⟩ := h.la.dv
    rw [hd, spineGet_one, he] at hb; cases hb
  | old k hb ho _ _ => exact ⟨k, by rw [hb]; rfl, ho⟩
  | closedAt _ _ _ hd0 => omega
  | new pre c hb _ ho _ _ _ _ => exact ⟨c, (last_of_append hb).1, ho⟩

theorem noOpenPara_appendInline {p : LP} (t : Tree) (h : NoOpenPara p) : NoOpenPara (p.appendInline t) := by
  rw [appendInline_eq]
  intro c hc
  simp only at hc
  cases hd : p.depth with
  | zero =>
    rw [hd, spineModify_zero] at hc
    have : (appendInl t p.root).blocks = p.root.blocks := by cases p.root; rfl
    rw [this] at hc
    exact h c hc
  | succ d =>
    rw [hd, lastKid_deep] at hc
    cases hc0 : p.root.blocks.getLast? with
    | none => rw [hc0] at hc; cases hc
    | some c0 =>
      rw [hc0] at hc
      simp only [Option.map_some, Option.some.injEq] at hc
      subst hc
      have hl : (spineModify (appendInl t) c0 d).label = c0.label := by
        cases d with
        | zero => rw [spineModify_zero]; cases c0; rfl
        | succ d' => exact (spineModify_succ_same _ c0 d').1
      rw [hl]
      exact h c0 hc0

end CM.Proofs

namespace CM.Proofs
open CM CM.Model CM.Gen CM.Props.C01

/-! ### addLineText -/

/-- What is known when `addLineText` is called. -/
structure PreText (N : Nat) (p : LP) : Prop where
  lt : LT QB true N p
  u0 : p.depth = 0 → p.i = 0
  up : ∀ c, p.root.blocks.getLast? = some c → c.label.stop < 0 → c.label.kind = BK.paragraph →
    p.depth = 1 ∧ p.i = 0 ∧ p.tabPartial = false
  st : acceptsLines p.containerKind = false → ¬ (p.state = stateDescending ∨ p.state = stateDescendTerminated)

theorem ck_ne_para {Q : Nat → Prop} {am : Bool} {N : Nat} {p : LP} (h : LT Q am N p) (hn : NoOpenPara p) (hd : p.depth = 1) :
    p.containerKind ≠ BK.paragraph := by
  obtain ⟨c, hc, ho⟩ := lastOpen_of_depth1 h hd
  rw [containerKind_of_last hd hc]
  exact hn c hc ho

theorem paraT_of_np {N : Nat} {p : LP} (hn : NoOpenPara p) :
    ∀ c, p.root.blocks.getLast? = some c → c.label.stop < 0 → ParaT N c :=
  fun c hc ho hk => absurd hk (hn c hc ho)

/-- The text node(s) appended to a container that is not a paragraph child of the document. -/
theorem altFinish_np {Q : Nat → Prop} {N : Nat} {r : LP} (h : LT Q true N r) (hn : NoOpenPara r) (hd : r.depth ≠ 0) :
    TopEnd N (altFinish r) := by
  have hk : r.depth = 1 → r.containerKind ≠ BK.paragraph := ck_ne_para h hn
  unfold altFinish
  simp only
  generalize (if (r.containerKind == BK.indentedCode || r.containerKind == BK.fencedCode) = true then IK.text
      else if (r.containerKind == BK.htmlBlock) = true then IK.rawHTML else IK.unparsed) = ik
  have h1 := appendInline_T (mkInline ik ((r.lineStart : Int) + r.i) ((r.lineStart : Int) + r.line.length)) h hk
  have n1 := noOpenPara_appendInline (mkInline ik ((r.lineStart : Int) + r.i) ((r.lineStart : Int) + r.line.length)) hn
  obtain ⟨_, _, _, b4, _, _⟩ := appendInline_LA (mkInline ik ((r.lineStart : Int) + r.i) ((r.lineStart : Int) + r.line.length)) h.la hk
  generalize r.appendInline (mkInline ik ((r.lineStart : Int) + r.i) ((r.lineStart : Int) + r.line.length)) = q1 at h1 n1 b4
  have hd1 : q1.depth ≠ 0 := by rw [b4.depth]; exact hd
  split
  · have hk1 : q1.depth = 1 → q1.containerKind ≠ BK.paragraph := by rw [b4.depth, b4.kind]; exact hk
    have h2 := appendInline_T (mkInline IK.softBreak ((q1.lineStart : Int) + q1.line.length) ((q1.lineStart : Int) + q1.line.length)) h1 hk1
    have n2 := noOpenPara_appendInline (mkInline IK.softBreak ((q1.lineStart : Int) + q1.line.length) ((q1.lineStart : Int) + q1.line.length)) n1
    obtain ⟨_, _, _, c4, _, _⟩ := appendInline_LA (mkInline IK.softBreak ((q1.lineStart : Int) + q1.line.length) ((q1.lineStart : Int) + q1.line.length)) h1.la hk1
    exact topEnd_of_A h2.src h2.top (paraT_of_np n2) (fun h0 => by rw [c4.depth] at h0; exact absurd h0 hd1)
  · exact topEnd_of_A h1.src h1.top (paraT_of_np n1) (fun h0 => absurd h0 hd1)

theorem acceptsLines_paragraph : acceptsLines BK.paragraph = true := by decide

/-- The text of the line appended to a paragraph that is a child of the document. -/
theorem altFinish_para {N : Nat} {r : LP} (hs : SrcOK N r) (hd : r.depth = 1) (hck : r.containerKind = BK.paragraph)
    {pre : List PB} {c : PB} (hb : r.root.blocks = pre ++ [c]) (hc : Chain r.source r.lineStart 0 pre)
    (ho : c.label.stop < 0) (hi : r.i < r.line.length)
    (hp : c.inlines = [] ∨ ((∃ a, ContigL c.inlines a r.lineStart) ∧ r.i = 0)) : TopEnd N (altFinish r) := by
  have hf : altFinish r = r.appendInline (mkInline IK.unparsed ((r.lineStart : Int) + r.i) ((r.lineStart : Int) + r.line.length)) := by
    unfold altFinish
    simp only [hck]
    rfl
  rw [hf, appendInline_eq]
  have hbl : (spineModify (appendInl (mkInline IK.unparsed ((r.lineStart : Int) + r.i) ((r.lineStart : Int) + r.line.length)))
      r.root r.depth).blocks = pre ++ [appendInl (mkInline IK.unparsed ((r.lineStart : Int) + r.i) ((r.lineStart : Int) + r.line.length)) c] := by
    rw [hd, blocks_deep_append _ r.root 0 hb, spineModify_zero]
  have hlab : (appendInl (mkInline IK.unparsed ((r.lineStart : Int) + r.i) ((r.lineStart : Int) + r.line.length)) c).label = c.label ∧
      (appendInl (mkInline IK.unparsed ((r.lineStart : Int) + r.i) ((r.lineStart : Int) + r.line.length)) c).inlines =
        c.inlines ++ [mkInline IK.unparsed ((r.lineStart : Int) + r.i) ((r.lineStart : Int) + r.line.length)] := by
    cases c; exact ⟨rfl, rfl⟩
  have hN := hs.lineLen
  refine ⟨fun _ => ?_, fun c' hc' _ => ?_, fun _ _ _ a ha => ?_⟩
  rotate_left 2
  · have ha' : a ∈ (spineModify (appendInl (mkInline IK.unparsed ((r.lineStart : Int) + r.i) ((r.lineStart : Int) + r.line.length)))
        r.root r.depth).blocks.dropLast := ha
    rw [hbl, List.dropLast_concat] at ha'
    have := hc.all_le a ha'
    have := hs.lt
    omega
  · show KidsOK r.source 0 (spineModify _ r.root r.depth).blocks
    rw [hbl]
    have := kidsOK_of_chain_open (Int.le_refl 0) hc (c := appendInl (mkInline IK.unparsed ((r.lineStart : Int) + r.i)
      ((r.lineStart : Int) + r.line.length)) c) (by rw [hlab.1]; exact ho)
    simpa using this
  · have hc'' : (spineModify (appendInl (mkInline IK.unparsed ((r.lineStart : Int) + r.i) ((r.lineStart : Int) + r.line.length)))
        r.root r.depth).blocks.getLast? = some c' := hc'
    rw [hbl, List.getLast?_concat] at hc''
    cases hc''
    intro _ _
    rw [hlab.2]
    have hun : Node.isI (mkInline IK.unparsed ((r.lineStart : Int) + r.i) ((r.lineStart : Int) + r.line.length)) IK.unparsed = true := by
      simp [Node.isI, mkInline, Tree.label]
    rcases hp with hp | ⟨⟨a, ha⟩, hi0⟩
    · rw [hp]
      refine ⟨r.lineStart + r.i, ContigL.single (c := N) ?_ ?_ (by omega) hun⟩
      · simp only [mkInline_start]; omega
      · simp only [mkInline_stop]; omega
    · refine ⟨a, ha.snoc (c := N) ?_ ?_ (by omega) hun⟩
      · simp only [mkInline_start, hi0]; omega
      · simp only [mkInline_stop]; omega

end CM.Proofs
