import CM.Proofs.ItemDefs
import CM.Proofs.QuoteGPsi
/-
C09 (list-item half): the position maps `psiSk` / `psiEk` inside one line (port of `QuoteGPsi`, prefixes of width `k`).
-/
namespace CM.Proofs.Item
open CM CM.Model CM.Gen CM.Proofs.Quote

theorem psiEk_le_psiSk (k : Nat) (D : Bytes) (j : Nat) : psiEk k D j ≤ psiSk k D j := by
  unfold psiEk psiSk
  split
  · omega
  · have := Nat.mul_le_mul_left k (Nat.add_le_add_left (nLF_le_of_le D (show j - 1 ≤ j by omega)) 1)
    omega

theorem psiSk_add (k : Nat) (D : Bytes) (a o : Nat) (h : NoLFIn D a o) : psiSk k D (a + o) = psiSk k D a + o := by
  unfold psiSk
  rw [nLF_noLF D a o h]; omega

theorem psiEk_end (k : Nat) (D : Bytes) (a n : Nat) (hn : 1 ≤ n) (h : NoLFIn D a (n - 1)) : psiEk k D (a + n) = psiSk k D a + n := by
  unfold psiEk psiSk
  rw [if_neg (by omega)]
  have e : a + n - 1 = a + (n - 1) := by omega
  rw [e, nLF_noLF D a (n - 1) h]; omega

theorem psiSk_mono (k : Nat) (D : Bytes) {i j : Nat} (h : i ≤ j) : psiSk k D i ≤ psiSk k D j := by
  unfold psiSk
  have := Nat.mul_le_mul_left k (Nat.add_le_add_left (nLF_le_of_le D h) 1)
  omega

/-- **The image of a node that lies inside one line.** -/
theorem prabsK_exact {k : Nat} {D : Bytes} {c : Nat} {s e s' e' : Int} (hs : PRabsK k D c s s') (he : PRabsK k D c e e') (hlt : s < e)
    (hlen : e' - s' = e - s) (hno : NoLFIn D (s.toNat + c) ((e - s).toNat - 1)) :
    s' = (psiSk k D (s.toNat + c) : Nat) ∧
    ∀ o : Nat, (o : Int) ≤ e - s → PRabsK k D c (s + o) (s' + o) := by
  obtain ⟨s0, hs'⟩ := hs
  obtain ⟨e0, he'⟩ := he
  have hn : 1 ≤ (e - s).toNat := by omega
  have eB : e.toNat + c = (s.toNat + c) + (e - s).toNat := by omega
  have hE := psiEk_end k D (s.toNat + c) (e - s).toNat hn hno
  have h1 := psiEk_le_psiSk k D (s.toNat + c)
  have h2 := psiEk_le_psiSk k D (e.toNat + c)
  rw [eB] at he' h2
  have hstart : s' = (psiSk k D (s.toNat + c) : Nat) := by
    rcases hs' with hs' | hs'
    · exact hs'
    · rcases he' with he' | he' <;> omega
  refine ⟨hstart, ?_⟩
  intro o ho
  refine ⟨by omega, ?_⟩
  have eo : (s + (o : Int)).toNat + c = (s.toNat + c) + o := by omega
  rw [eo]
  by_cases hoe : (o : Int) < e - s
  · left
    rw [psiSk_add k D _ o (hno.mono (by omega)), hstart]
    omega
  · right
    have : o = (e - s).toNat := by omega
    rw [this, hE, hstart]
    omega

end CM.Proofs.Item
