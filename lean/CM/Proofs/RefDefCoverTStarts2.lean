import CM.Proofs.RefDefCoverDef
import CM.Proofs.RefDefSpansStarts2
import CM.Proofs.RefDefCoverTStarts
/-
C03, block half — `GoodT2` (the strong invariant of RefDefCoverDef): adaptation of RefDefSpansStarts2.lean.
Everything that does not mention `GoodT`/`NodeOK` is reused from `CM.Proofs.RDS`.
-/
namespace CM.Proofs.RDC
open CM CM.Model CM.Gen CM.Proofs.BSp CM.Proofs.BT CM.Proofs.BG CM.Proofs.RDS

-- reused from RDS: kind_li_ne

-- reused from RDS: kind_lm_ne

-- reused from RDS: kind_list_ne

theorem listItemTail_st2 {src : Bytes} {bd : Int} {ls : Nat} (x : PExt) (p0 p : LP) (delim : UInt8) (stop ind : Nat)
    (h : BT.Inv p) (hk : p.containerKind = BK.list) (hs : p.state ≤ 2) (hb : p.i + stop ≤ p.line.length)
    (hg : GI2 src bd ls p) : StPost2 src bd ls p0 (listItemTail x delim stop ind p) := by
  unfold listItemTail
  simp only []
  have cc1 : canContain p.containerKind BK.listItem = true := by rw [hk]; decide
  have ob1 := openBlock_inv x p BK.listItem (fun l => { l with char := delim }) (fun _ => rfl) h hs (Or.inr cc1)
  have g1 := openBlock_GI2 x p BK.listItem (fun l => { l with char := delim }) (fun _ => rfl) kind_li_ne hg
  generalize p.openBlock x BK.listItem (fun l => { l with char := delim }) = q1 at ob1 g1
  have i1 := ob1.inv h
  have s1 := ob1.st hs
  have k1 := ob1.ckind
  have cc2 : canContain q1.containerKind BK.listMarker = true := by rw [k1]; decide
  have ob2 := openBlock_inv x q1 BK.listMarker id id_kind i1 s1.2.1 (Or.inl (by decide))
  have g2 := openBlock_GI2 x q1 BK.listMarker id id_kind kind_lm_ne g1
  generalize q1.openBlock x BK.listMarker = q2 at ob2 g2
  have i2 := ob2.inv i1
  have s2 := ob2.st s1.2.1
  have d2 := ob2.depth cc2
  have lab2 := ob2.label cc2
  have e2i : q2.i = p.i := by rw [cur_i ob2.cur, cur_i ob1.cur]
  have e2l : q2.line = p.line := by rw [cur_line ob2.cur, cur_line ob1.cur]
  have ad := advance_post q2 stop i2.cur (by rw [e2i, e2l]; exact hb)
  have g3 := g2.of_fr (fr_advance q2 stop)
  generalize q2.advance stop = q3 at ad g3
  have i3 := ad.inv i2
  have s3 := ad.st s2.2.1
  have eb := endBlock_inv x q3 i3 s3.2
  have g4 := endBlock_GI2 x q3 g3
  generalize q3.endBlock x = q4 at eb g4
  have i4 := eb.inv i3
  have s4 := eb.st s3.2
  have d3 : q3.depth = q1.depth + 1 := by rw [tree_depth ad.tree, d2]
  have k4 : q4.containerKind = BK.listItem := by
    have l4 := eb.label (by omega)
    rw [d3, tree_root ad.tree, Nat.add_sub_cancel, lab2, labelAt_container q1 i1.tree.valid] at l4
    rw [containerKind_of_labelAt q4 _ l4]
    exact k1
  -- the three endings
  have fin : ∀ (q5 : LP) (n : Int), BT.Inv q5 → q5.containerKind = BK.listItem → 1 ≤ q5.state → q5.state ≤ 2 →
      GI2 src bd ls q5 → StPost2 src bd ls p0 (q5.setContainerIndent n) := by
    intro q5 n i5 k5 s5a s5b g5
    have sc := setContainerIndent_post q5 n i5.tree s5a s5b (Or.inl k5)
    have g6 := setContainerIndent_GI2 q5 n g5
    generalize q5.setContainerIndent n = q6 at sc g6
    refine ⟨g6, fun h0 => by rw [sc.state] at h0; omega, fun _ => ?_⟩
    rw [sc.kind, k5]; decide
  split
  · have sc := setContainerIndent_post q4 (↑ind + ↑stop + 1) i4.tree s4.2.2 s4.2.1 (Or.inl k4)
    have g5 := setContainerIndent_GI2 q4 (↑ind + ↑stop + 1) g4
    generalize q4.setContainerIndent (↑ind + ↑stop + 1) = q5 at sc g5
    have i5 := sc.inv i4
    have cl := consumeLine_post q5 i5.cur
    have g6 := g5.of_fr (fr_consumeLine q5)
    generalize q5.consumeLine = q6 at cl g6
    have s6 := cl.st (by rw [sc.state]; exact s4.2.1)
    exact ⟨g6, fun h0 => by omega, fun h1 => by omega⟩
  · split
    · exact fin q4 _ i4 k4 s4.2.2 s4.2.1 g4
    · split
      · have c5 := consumeIndentN_post q4 1 i4.cur (by omega)
        have g5 := g4.of_fr (fr_consumeIndentN q4 1)
        generalize q4.consumeIndentN 1 = q5 at c5 g5
        have s5 := c5.st s4.2.1
        exact fin q5 _ (c5.inv i4) (by rw [c5.ckind, k4]) (by omega) s5.2 g5
      · have c5 := consumeIndentN_post q4 q4.indent i4.cur (Nat.le_refl _)
        have g5 := g4.of_fr (fr_consumeIndentN q4 q4.indent)
        generalize q4.consumeIndentN q4.indent = q5 at c5 g5
        have s5 := c5.st s4.2.1
        exact fin q5 _ (c5.inv i4) (by rw [c5.ckind, k4]) (by omega) s5.2 g5

theorem startListItem_st2 {src : Bytes} {bd : Int} {ls : Nat} (x : PExt) (q : LP) (h : BT.Inv q) (hs : q.state = 0)
    (hg : GI2 src bd ls q) : StPost2 src bd ls q (startListItem x q) := by
  unfold startListItem
  simp only []
  split
  · exact StPost2.refl hg hs
  split
  · exact StPost2.refl hg hs
  rename_i _ hc1
  split
  · exact StPost2.refl hg hs
  have hb := parseListMarker_toNat_le q.bytesAfterIndent
  have hpos := parseListMarker_pos q.bytesAfterIndent
  generalize parseListMarker q.bytesAfterIndent = m at hb hpos hc1 ⊢
  have hm : 1 ≤ m.stop := by
    rcases hpos with h' | h'
    · rw [h'] at hc1; simp at hc1
    · exact h'
  obtain ⟨ci, hdrop, hil⟩ := consumeAll q h
  have g1 := hg.of_fr (fr_consumeIndentN q q.indent)
  generalize q.consumeIndentN q.indent = p1 at ci hdrop hil g1 ⊢
  have i1 := ci.inv h
  have s1 := ci.st (by omega)
  generalize hcond : (p1.containerKind != BK.list || (if (p1.containerKind != BK.list && p1.containerKind != BK.listItem) = true
      then (0 : UInt8) else p1.container.label.char) != m.delim) = c
  have hcf : c = false → p1.containerKind = BK.list := by
    intro hc; rw [hc] at hcond
    simp only [Bool.or_eq_false_iff] at hcond
    simpa using hcond.1
  have key : ∀ p2 : LP, BT.Inv p2 → p2.containerKind = BK.list → p2.state ≤ 2 → cur p2 = cur p1 → GI2 src bd ls p2 →
      StPost2 src bd ls q (listItemTail x m.delim m.stop.toNat q.indent p2) := by
    intro p2 i2 k2 s2 c2 g2
    apply listItemTail_st2 x q p2 _ _ _ i2 k2 s2
    · rw [cur_i c2, cur_line c2, ci.line]; omega
    · exact g2
  cases c with
  | true =>
    have ob := openBlock_inv x p1 BK.list (fun l => { l with char := m.delim }) (fun _ => rfl) i1 s1.2 (Or.inl (by decide))
    have g2 := openBlock_GI2 x p1 BK.list (fun l => { l with char := m.delim }) (fun _ => rfl) kind_list_ne g1
    exact key _ (ob.inv i1) ob.ckind (ob.st s1.2).2.1 ob.cur g2
  | false => exact key p1 i1 (hcf rfl) s1.2 rfl g1

/-- All block starts (the setext case is supplied by the caller). -/
theorem blockStartFns_st2 {src : Bytes} {bd : Int} {ls : Nat} (x : PExt)
    (hset : ∀ q, BT.Inv q → q.state = 0 → GI2 src bd ls q → StPost2 src bd ls q (startSetext x q)) :
    ∀ f ∈ blockStartFns x, ∀ q, BT.Inv q → q.state = 0 → GI2 src bd ls q → StPost2 src bd ls q (f q) := by
  intro f hf q h hs hg
  simp only [blockStartFns, List.mem_cons, List.mem_nil_iff, or_false] at hf
  rcases hf with rfl | rfl | rfl | rfl | rfl | rfl | rfl | rfl
  · exact startBlockQuote_st2 x q h hs hg
  · exact startATX_st2 x q h hs hg
  · exact startFenced_st2 x q h hs hg
  · exact startHTML_st2 x q h hs hg
  · exact hset q h hs hg
  · exact startThematicBreak_st2 x q h hs hg
  · exact startListItem_st2 x q h hs hg
  · exact startIndentedCode_st2 x q h hs hg

/-! ### the hypotheses are satisfiable: the first line of `> a` and of `- a`, `# a`, … -/

-- reused from RDS: exLP

-- reused from RDS: exX

-- reused from RDS: exLP_inv

theorem exLP_GI2 (src : Bytes) : GI2 src 0 0 (exLP src) := by
  refine ⟨rfl, rfl, rfl, ?_⟩
  show GoodT2 src 0 (.mk { kind := BK.document, start := 0 } [] [])
  rw [GoodT2_mk]
  refine ⟨⟨?_, ?_⟩, ?_⟩
  · intro hk; exact absurd hk (by decide)
  · intro _; decide
  · intro _ hm; cases hm

example : StPost2 (Bytes.ofString "> a\n") 0 0 (exLP (Bytes.ofString "> a\n")) (startBlockQuote exX (exLP (Bytes.ofString "> a\n"))) :=
  startBlockQuote_st2 exX _ (exLP_inv _ (by decide +kernel)) rfl (exLP_GI2 _)

example : StPost2 (Bytes.ofString "- a\n") 0 0 (exLP (Bytes.ofString "- a\n")) (startListItem exX (exLP (Bytes.ofString "- a\n"))) :=
  startListItem_st2 exX _ (exLP_inv _ (by decide +kernel)) rfl (exLP_GI2 _)

example : StPost2 (Bytes.ofString "# a\n") 0 0 (exLP (Bytes.ofString "# a\n")) (startATX exX (exLP (Bytes.ofString "# a\n"))) :=
  startATX_st2 exX _ (exLP_inv _ (by decide +kernel)) rfl (exLP_GI2 _)

end CM.Proofs.RDC
