import CM.Proofs.InlShapeStkLink
/-
C13, inline half — the state invariant `Wv` through the tokenizer `parseRun` and the outer loop `parseBody`.
-/
namespace CM.Proofs.InlH
open CM CM.Model CM.Model.Inl
open Std.Do

set_option mvcgen.warning false

section
variable {c : ICtx} {Q : Nat → Int → Int → Prop}

/-- `addToRoot` for the invariant `Wv`, with the frame: stack, size, kinds and spans are unchanged. -/
@[spec 31000]
theorem addToRoot_specW' (id : Nat) (s0 : IState) :
    ⦃fun s => ⌜s = s0 ∧ Wv c Q s⌝⦄ addToRoot id
    ⦃⇓? _ s => ⌜Wv c Q s ∧ s.stack = s0.stack ∧ s.unparsedPos = s0.unparsedPos ∧ s.nodes.size = s0.nodes.size ∧
      ∀ j : Nat, Fl (s.nodes[j]!) = Fl (s0.nodes[j]!)⌝⦄ := by
  mvcgen [addToRoot, nodeLen, getNode, setParent, modifyNode, -addToRoot_spec, -addToRoot_specS, -addToRoot_specT,
    -addToRoot_specW]
  · obtain ⟨rfl, h⟩ := ‹_ = s0 ∧ Wv c Q _›
    exact ⟨h, rfl, rfl, rfl, fun _ => rfl⟩
  · obtain ⟨rfl, h⟩ := ‹_ = s0 ∧ Wv c Q _›
    refine ⟨?_, rfl, rfl, by simp -failIfUnchanged +zetaDelta only [Array.size_modify], fun j => ?_⟩
    · inl_stateW
      exact h.modify_pres (fun _ => ⟨rfl, rfl, rfl⟩)
    · simp -failIfUnchanged +zetaDelta only []
      exact fl_modify (f := fun r => { r with kids := r.kids.push id }) (fun _ => ⟨rfl, rfl, rfl⟩) j

/-- a bracket entry (`[` or `![`) for the fresh Text node `id` -/
theorem Wg.pushBracket {a : Array INode} {st : Array DelimE} (h : Wg c Q NoN NoN a st) (id : Nat) (hid : id < a.size)
    (e : Gen.DelimElem) (p q : Int) (hfl : Fl (a[id]!) = (IK.text, p, q)) (h0 : 0 ≤ p) (hpq : p < q) (hq : q ≤ c.srcA.size)
    (hch : DelimChars c e.typ p q) (hfresh : ∀ x ∈ st, x.node ≠ id) : Wg c Q NoN NoN a (st.push ⟨e, id⟩) := by
  unfold Fl at hfl
  simp only [Prod.mk.injEq] at hfl
  obtain ⟨k1, k2, k3⟩ := hfl
  refine h.setStack (h.stk.pushE hid ⟨k1, ?_, ?_, ?_, ?_⟩ ?_ hfresh)
  · show 0 ≤ (a[id]!).start; rw [k2]; exact h0
  · show (a[id]!).start ≤ (a[id]!).stop; rw [k2, k3]; omega
  · show (a[id]!).stop ≤ _; rw [k3]; exact hq
  · show DelimChars c e.typ (a[id]!).start (a[id]!).stop; rw [k2, k3]; exact hch
  · show (a[id]!).start < (a[id]!).stop; rw [k2, k3]; exact hpq

set_option maxHeartbeats 800000 in
@[spec 30000]
theorem parseRun_specW (hsrc : c.srcA = c.src.toArray) :
    ⦃fun s => ⌜Wv c Q s⌝⦄ parseRun c ⦃⇓? _ s => ⌜Wv c Q s⌝⦄ := by
  mvcgen [parseRun, spanEnd, isLastSpan, addText, alloc, pushStack, setIgnoreNextIndent, setUnparsedPos,
    -parseRun_spec, -parseRun_specS, -parseRun_specT]
  inl_inv (Wv c Q)
  inl_norm
  inl_trivW
  all_goals first
    | (-- arguments of `parseDelimiterRun` / `parseEndBracket`
       have hx := ‹(_ : IState) = _ ∧ (0 : Int) ≤ _ ∧ _ < _ ∧ (_ : UInt8) = _›
       obtain ⟨-, h0, h1, hr⟩ := hx
       first
        | exact h0
        | exact h1
        | (rw [← hr]; simpa using ‹(_ == (42 : UInt8) || _ == (95 : UInt8)) = true›)
        | (rw [← hr]; simpa using ‹(_ == (93 : UInt8)) = true›))
    | (-- a fresh node before `addToRoot`
       refine ⟨trivial, ?_⟩
       inl_stateW
       refine Wg.push ?_ (Or.inr (EmP.notEm ?_))
       · first | assumption | exact (‹Wv c Q _ ∧ _›).1
       · first
          | exact notEm_text
          | (show NotEm IK.autolink; unfold NotEm; decide)
          | (show NotEm IK.htmlTag; unfold NotEm; decide))
    | (-- `[`
       have hx := ‹Wv c Q _ ∧ _ = _ ∧ _ = _ ∧ _ = _ ∧ ∀ j : Nat, _›
       obtain ⟨hW, hstk, -, hsz, hfl⟩ := hx
       have hy := ‹Wv c Q _ ∧ _ = _ ∧ _ = _›
       obtain ⟨hW1, -, -⟩ := hy
       have hz := ‹(_ : IState) = _ ∧ (0 : Int) ≤ _ ∧ _ < _ ∧ (_ : UInt8) = _›
       obtain ⟨-, h0, h1, hr⟩ := hz
       have hc91 := u8_of_beq ‹(_ == (91 : UInt8)) = true›
       rw [hr] at hc91
       inl_stateW
       refine Wg.pushBracket hW _ (by rw [hsz]; simp) _ _ _ (by rw [hfl, getElem!_push_size]; rfl) h0 (by omega) (by omega)
         (Or.inr (Or.inr (Or.inl ⟨rfl, rfl, hc91⟩))) ?_
       intro x hx
       rw [hstk] at hx
       have := (hW1.stk.ok x hx).1
       omega)
    | (-- `![`
       have hx := ‹Wv c Q _ ∧ _ = _ ∧ _ = _ ∧ _ = _ ∧ ∀ j : Nat, _›
       obtain ⟨hW, hstk, -, hsz, hfl⟩ := hx
       have hy := ‹Wv c Q _ ∧ _ = _ ∧ _ = _›
       obtain ⟨hW1, -, -⟩ := hy
       have hz := ‹(_ : IState) = _ ∧ (0 : Int) ≤ _ ∧ _ < _ ∧ (_ : UInt8) = _›
       obtain ⟨-, h0, h1, hr⟩ := hz
       have hc33 := u8_of_beq ‹(_ == (33 : UInt8)) = true›
       rw [hr] at hc33
       have hg := ‹(_ : IState) = _ ∧ (_ = true → _)›
       have hg2 := hg.2 (by simpa using ‹¬(!_) = true›)
       inl_stateW
       refine Wg.pushBracket hW _ (by rw [hsz]; simp) _ _ _ (by rw [hfl, getElem!_push_size]; rfl) h0 (by omega) (by omega)
         (Or.inr (Or.inr (Or.inr ⟨rfl, rfl, hc33, hg2.2.2.2⟩))) ?_
       intro x hx
       rw [hstk] at hx
       have := (hW1.stk.ok x hx).1
       omega)
    | skip

theorem imported_okW (hin : ∀ t ∈ c.unparsed, t.label.isBlock = false → t.label.kind ≠ 0 → t.label.kind ≠ IK.unparsed →
      EmP c Q (ofTree t)) (i : Nat) (hi : ¬(!decide (i < c.unparsed.size)) = true)
    (h2 : ¬((c.unparsed[i]!).label.isBlock || (c.unparsed[i]!).label.kind == 0) = true)
    (h3 : (c.unparsed[i]!).label.kind ≠ IK.unparsed) : EmP c Q (ofTree (c.unparsed[i]!)) := by
  have hi' : i < c.unparsed.size := by simpa using hi
  simp only [Bool.or_eq_true, beq_iff_eq, not_or] at h2
  refine hin _ ?_ (by simpa using h2.1) h2.2 h3
  rw [getElem!_pos c.unparsed i hi']
  exact Array.getElem_mem hi'

@[spec 30000]
theorem parseBody_specW (hsrc : c.srcA = c.src.toArray)
    (hin : ∀ t ∈ c.unparsed, t.label.isBlock = false → t.label.kind ≠ 0 → t.label.kind ≠ IK.unparsed →
      EmP c Q (ofTree t)) :
    ⦃fun s => ⌜Wv c Q s⌝⦄ parseBody c ⦃⇓? _ s => ⌜Wv c Q s⌝⦄ := by
  mvcgen [parseBody, setIgnoreNextIndent, setUnparsedPos, -parseBody_spec, -parseBody_specS, -parseBody_specT]
  inl_inv (Wv c Q)
  inl_norm
  inl_trivW
  · refine imported_okW hin _ ‹_› ‹_› ?_
    have hk := ‹(_ == IK.indent) = true›
    simp only [beq_iff_eq] at hk
    rw [hk]; decide
  · refine imported_okW hin _ ‹_› ‹_› ?_
    have hk := ‹¬(_ == IK.unparsed) = true›
    simpa using hk

end

end CM.Proofs.InlH
