import CM.Proofs.ShapesDef
import CM.Proofs.BlocksSpansBasic
import CM.Proofs.BlocksSpine
/-
C13, block half — generic lemmas about `Sh` / `ShL`: monotonicity in the two bounds, relabelling, combining two
instances, lists of siblings (append, last element), sub-blocks.
-/
namespace CM.Proofs.Shp
open CM CM.Model CM.Gen

/-! ### the rule at one block -/

theorem endOf_open {e : Int} {l : PLabel} (h : l.stop < 0) : endOf e l = e := by simp [endOf, h]
theorem endOf_closed {e : Int} {l : PLabel} (h : 0 ≤ l.stop) : endOf e l = l.stop := by
  have : ¬ l.stop < 0 := by omega
  simp [endOf, this]

theorem endOf_mono {e e' : Int} (l : PLabel) (h : e ≤ e') : endOf e l ≤ endOf e' l := by
  unfold endOf; split <;> omega

/-- The part of `runOK` that does not depend on `e`. -/
theorem runOK_mono {src : Bytes} {e e' : Int} {l : PLabel} {ch : UInt8} (h : e ≤ e') (hr : runOK src e l ch = true) :
    runOK src e' l ch = true := by
  unfold runOK at hr ⊢
  simp only [Bool.and_eq_true, decide_eq_true_eq] at hr ⊢
  have := endOf_mono l h
  exact ⟨⟨⟨⟨hr.1.1.1.1, hr.1.1.1.2⟩, hr.1.1.2⟩, by omega⟩, hr.2⟩

theorem nodeOK_iff {setx : Bool} {src : Bytes} {lo e : Int} {l : PLabel} {leaf : Bool} {is : List Tree} :
    nodeOK setx src lo e l leaf is = true ↔
      l.stop ≤ e ∧ (0 ≤ l.stop → lo ≤ l.stop) ∧ (shapeKind setx l.kind = true → lo ≤ anchor setx src l) ∧
        kindOK setx src lo e l leaf is = true := by
  unfold nodeOK
  simp only [Bool.and_eq_true, decide_eq_true_eq, Bool.or_eq_true, Bool.not_eq_true']
  constructor
  · rintro ⟨⟨⟨h1, h0⟩, h2⟩, h3⟩
    refine ⟨h1, fun hc => ?_, fun hk => ?_, h3⟩
    · rcases h0 with h0 | h0
      · omega
      · exact h0
    · rcases h2 with h2 | h2
      · rw [hk] at h2; cases h2
      · exact h2
  · rintro ⟨h1, h0, h2, h3⟩
    refine ⟨⟨⟨h1, ?_⟩, ?_⟩, h3⟩
    · by_cases hc : l.stop < 0
      · exact Or.inl hc
      · exact Or.inr (h0 (by omega))
    · cases hk : shapeKind setx l.kind
      · left; rfl
      · right; exact h2 hk

/-- Every kind but the setext heading is anchored at its start. -/
theorem anchor_start {setx : Bool} {src : Bytes} {l : PLabel} (h : setx = false ∨ l.kind ≠ BK.setextHeading) :
    anchor setx src l = l.start := by
  unfold anchor
  rcases h with h | h
  · subst h; rfl
  · have : (l.kind == BK.setextHeading) = false := by simpa using h
    rw [this, Bool.and_false]; rfl

theorem anchor_setext {src : Bytes} {l : PLabel} (h : l.kind = BK.setextHeading) :
    anchor true src l = (bodyLen src l.stop : Int) - 1 := by
  unfold anchor
  rw [h]; rfl

theorem shapeOK_mono {setx : Bool} {src : Bytes} {e e' : Int} {l : PLabel}
    (he : e ≤ e') (h : shapeOK setx src e l = true) : shapeOK setx src e' l = true := by
  unfold shapeOK at h ⊢
  have hE := endOf_mono l he
  split
  · rename_i hk; rw [if_pos hk] at h
    simp only [Bool.and_eq_true, decide_eq_true_eq] at h ⊢
    exact ⟨h.1, by omega⟩
  · rename_i hk1; rw [if_neg hk1] at h
    split
    · rename_i hk; rw [if_pos hk] at h
      simp only [Bool.and_eq_true, decide_eq_true_eq] at h ⊢
      exact ⟨h.1, runOK_mono he h.2⟩
    · rename_i hk2; rw [if_neg hk2] at h
      split
      · rename_i hk; rw [if_pos hk] at h
        simp only [Bool.and_eq_true, decide_eq_true_eq] at h ⊢
        exact ⟨h.1, runOK_mono he h.2⟩
      · rename_i hk3; rw [if_neg hk3] at h
        exact h

theorem textOK_iff {lo e : Int} {l : PLabel} {leaf : Bool} {is : List Tree} :
    textOK lo e l leaf is = true ↔ (paraLike l.kind = true → l.stop < 0 → leaf = true ∧ BSp.InlsOK lo e is) := by
  unfold textOK BSp.InlsOK
  simp only [Bool.or_eq_true, Bool.not_eq_true', decide_eq_true_eq, Bool.and_eq_true]
  constructor
  · rintro ((h | h) | h) hp ho
    · rw [hp] at h; cases h
    · omega
    · exact h
  · intro h
    cases hp : paraLike l.kind
    · exact Or.inl (Or.inl rfl)
    · by_cases ho : l.stop < 0
      · exact Or.inr (h hp ho)
      · exact Or.inl (Or.inr (by omega))

theorem textOK_mono {lo lo' e e' : Int} {l : PLabel} {leaf : Bool} {is : List Tree}
    (hlo : lo' ≤ lo) (he : e ≤ e') (h : textOK lo e l leaf is = true) : textOK lo' e' l leaf is = true := by
  rw [textOK_iff] at h ⊢
  intro hp ho
  exact ⟨(h hp ho).1, BSp.InlsOK_mono hlo he (h hp ho).2⟩

theorem openOK_iff {lo e : Int} {l : PLabel} {is : List Tree} :
    openOK lo e l is = true ↔
      (l.stop < 0 → l.kind ≠ BK.setextHeading ∧ l.start ≤ e ∧ ((paraLike l.kind = true ∧ is ≠ []) ∨ lo ≤ l.start)) := by
  unfold openOK
  simp only [Bool.or_eq_true, decide_eq_true_eq, Bool.and_eq_true, Bool.not_eq_true', List.isEmpty_eq_false_iff, ne_eq,
    bne_iff_ne]
  constructor
  · rintro (h | h) ho
    · omega
    · exact ⟨h.1.1, h.1.2, h.2⟩
  · intro h
    by_cases ho : l.stop < 0
    · exact Or.inr ⟨⟨(h ho).1, (h ho).2.1⟩, (h ho).2.2⟩
    · exact Or.inl (by omega)

theorem openOK_mono {lo lo' e e' : Int} {l : PLabel} {is : List Tree}
    (hlo : lo' ≤ lo) (he : e ≤ e') (h : openOK lo e l is = true) : openOK lo' e' l is = true := by
  rw [openOK_iff] at h ⊢
  intro ho
  refine ⟨(h ho).1, by have := (h ho).2.1; omega, ?_⟩
  rcases (h ho).2.2 with h | h
  · exact Or.inl h
  · exact Or.inr (by omega)

theorem kindOK_iff {setx : Bool} {src : Bytes} {lo e : Int} {l : PLabel} {leaf : Bool} {is : List Tree} :
    kindOK setx src lo e l leaf is = true ↔
      shapeOK setx src e l = true ∧ textOK lo e l leaf is = true ∧ openOK lo e l is = true := by
  unfold kindOK; rw [Bool.and_eq_true, Bool.and_eq_true, and_assoc]

theorem kindOK_mono {setx : Bool} {src : Bytes} {lo lo' e e' : Int} {l : PLabel} {leaf : Bool} {is : List Tree}
    (hlo : lo' ≤ lo) (he : e ≤ e') (h : kindOK setx src lo e l leaf is = true) : kindOK setx src lo' e' l leaf is = true := by
  rw [kindOK_iff] at h ⊢
  exact ⟨shapeOK_mono he h.1, textOK_mono hlo he h.2.1, openOK_mono hlo he h.2.2⟩

theorem nodeOK_mono {setx : Bool} {src : Bytes} {lo lo' e e' : Int} {l : PLabel} {leaf : Bool} {is : List Tree}
    (hlo : lo' ≤ lo) (he : e ≤ e') (h : nodeOK setx src lo e l leaf is = true) : nodeOK setx src lo' e' l leaf is = true := by
  rw [nodeOK_iff] at h ⊢
  exact ⟨by omega, fun hc => by have := h.2.1 hc; omega, fun hk => by have := h.2.2.1 hk; omega, kindOK_mono hlo he h.2.2.2⟩

/-- `kindOK` looks at the kind, the span, `n` and `char` of the label only. -/
theorem kindOK_congr {setx : Bool} {src : Bytes} {lo e : Int} {l l' : PLabel} {leaf : Bool} {is : List Tree}
    (hk : l'.kind = l.kind) (hs : l'.start = l.start) (he : l'.stop = l.stop) (hn : l'.n = l.n) (hc : l'.char = l.char) :
    kindOK setx src lo e l' leaf is = kindOK setx src lo e l leaf is := by
  unfold kindOK shapeOK textOK openOK runOK closedIn setextOK endOf
  rw [hk, hs, he, hn, hc]

theorem nodeOK_congr {setx : Bool} {src : Bytes} {lo e : Int} {l l' : PLabel} {leaf : Bool} {is : List Tree}
    (hk : l'.kind = l.kind) (hs : l'.start = l.start) (he : l'.stop = l.stop) (hn : l'.n = l.n) (hc : l'.char = l.char) :
    nodeOK setx src lo e l' leaf is = nodeOK setx src lo e l leaf is := by
  unfold nodeOK anchor
  rw [kindOK_congr (setx := setx) (src := src) (lo := lo) (e := e) (leaf := leaf) (is := is) hk hs he hn hc, hk, hs, he]

/-- Only a paragraph's (or setext heading's) rule looks at the inline children and at `leaf`. -/
theorem kindOK_inl {setx : Bool} {src : Bytes} {lo e : Int} {l : PLabel} {leaf leaf' : Bool} {is is' : List Tree}
    (hk : paraLike l.kind = false) : kindOK setx src lo e l leaf' is' = kindOK setx src lo e l leaf is := by
  unfold kindOK textOK openOK
  rw [hk]; rfl

theorem nodeOK_inl {setx : Bool} {src : Bytes} {lo e : Int} {l : PLabel} {leaf leaf' : Bool} {is is' : List Tree}
    (hk : paraLike l.kind = false) : nodeOK setx src lo e l leaf' is' = nodeOK setx src lo e l leaf is := by
  unfold nodeOK
  rw [kindOK_inl (setx := setx) (src := src) (lo := lo) (e := e) (leaf := leaf) (leaf' := leaf') (is := is) (is' := is') hk]

/-- A kind without a rule. -/
def freeKind (k : Nat) : Bool :=
  k != BK.blockQuote && k != BK.atxHeading && k != BK.fencedCode && k != BK.listMarker && k != BK.setextHeading
    && k != BK.paragraph

theorem freeKind_not_shape {setx : Bool} {k : Nat} (h : freeKind k = true) : shapeKind setx k = false := by
  simp only [freeKind, Bool.and_eq_true, bne_iff_ne, ne_eq] at h
  simp only [shapeKind, Bool.or_eq_false_iff, Bool.and_eq_false_iff, beq_eq_false_iff_ne, ne_eq]
  exact ⟨⟨⟨⟨h.1.1.1.1.1, h.1.1.1.1.2⟩, h.1.1.1.2⟩, h.1.1.2⟩, Or.inr h.1.2⟩

theorem freeKind_not_para {k : Nat} (h : freeKind k = true) : paraLike k = false := by
  simp only [freeKind, Bool.and_eq_true, bne_iff_ne, ne_eq] at h
  simp only [paraLike, Bool.or_eq_false_iff, beq_eq_false_iff_ne, ne_eq]
  exact ⟨h.2, h.1.2⟩

theorem shapeOK_free {setx : Bool} {src : Bytes} {e : Int} {l : PLabel}
    (h1 : l.kind ≠ BK.blockQuote) (h2 : l.kind ≠ BK.atxHeading) (h3 : l.kind ≠ BK.fencedCode) (h4 : l.kind ≠ BK.listMarker)
    (h5 : l.kind = BK.setextHeading → setx = false) : shapeOK setx src e l = true := by
  unfold shapeOK
  have e1 : (l.kind == BK.blockQuote) = false := by simpa using h1
  have e2 : (l.kind == BK.atxHeading) = false := by simpa using h2
  have e3 : (l.kind == BK.fencedCode) = false := by simpa using h3
  have e4 : (l.kind == BK.listMarker) = false := by simpa using h4
  simp only [e1, e2, e3, e4, Bool.false_eq_true, if_false]
  split
  · rename_i hk
    rw [h5 (by simpa using hk)]; rfl
  · rfl

theorem nodeOK_free {setx : Bool} {src : Bytes} {lo e : Int} {l : PLabel} {leaf : Bool} {is : List Tree}
    (hk : freeKind l.kind = true) (hs : l.stop ≤ e) (h0 : 0 ≤ l.stop → lo ≤ l.stop) (hop : openOK lo e l is = true) : nodeOK setx src lo e l leaf is = true := by
  rw [nodeOK_iff]
  refine ⟨hs, h0, ?_, ?_⟩
  · intro h; rw [freeKind_not_shape hk] at h; cases h
  · rw [kindOK_iff]
    have hp := freeKind_not_para hk
    simp only [freeKind, Bool.and_eq_true, bne_iff_ne, ne_eq] at hk
    refine ⟨shapeOK_free hk.1.1.1.1.1 hk.1.1.1.1.2 hk.1.1.1.2 hk.1.1.2 (fun h => absurd h hk.1.2), ?_, hop⟩
    rw [textOK_iff]
    intro h; rw [hp] at h; cases h

/-! ### threading the lower bound through a list of siblings -/

/-- The lower bound after the siblings `bs`. -/
def thr (lo : Int) : List PB → Int
  | [] => lo
  | b :: bs => thr (max lo b.label.stop) bs

theorem thr_append (lo : Int) (a b : List PB) : thr lo (a ++ b) = thr (thr lo a) b := by
  induction a generalizing lo with
  | nil => rfl
  | cons c rest ih => simp only [List.cons_append, thr, ih]

theorem thr_ge (lo : Int) (bs : List PB) : lo ≤ thr lo bs := by
  induction bs generalizing lo with
  | nil => exact Int.le_refl _
  | cons c rest ih => simp only [thr]; have := ih (max lo c.label.stop); omega

theorem thr_mono {lo lo' : Int} (h : lo' ≤ lo) (bs : List PB) : thr lo' bs ≤ thr lo bs := by
  induction bs generalizing lo lo' with
  | nil => exact h
  | cons c rest ih => simp only [thr]; exact ih (by omega)

theorem thr_le {lo e : Int} (h : lo ≤ e) : ∀ {bs : List PB}, (∀ b ∈ bs, b.label.stop ≤ e) → thr lo bs ≤ e := by
  intro bs
  induction bs generalizing lo with
  | nil => intro _; exact h
  | cons c rest ih =>
    intro hb
    simp only [thr]
    exact ih (by have := hb c (by simp); omega) (fun b hb' => hb b (by simp [hb']))

/-- All blocks of the list are closed. -/
def AllClosed (bs : List PB) : Prop := ∀ b ∈ bs, 0 ≤ b.label.stop

theorem isOpen_iff (b : PB) : b.isOpen = true ↔ b.label.stop < 0 := BSp.isOpen_iff b

theorem ShL_allClosed {setx : Bool} {src : Bytes} {e : Int} : ∀ {bs : List PB} {lo : Int}, ShL setx src false lo e bs → AllClosed bs := by
  intro bs
  induction bs with
  | nil => intro _ _ b hb; cases hb
  | cons c rest ih =>
    intro lo h b hb
    rw [ShL_cons] at h
    rcases List.mem_cons.mp hb with rfl | hb
    · cases ho : b.isOpen
      · exact (BSp.isOpen_false_iff b).mp ho
      · have := (h.2.1 ho).2; cases this
    · exact ih h.2.2 b hb

/-- Forgetting that all are closed. -/
theorem ShL_po {setx : Bool} {src : Bytes} {e : Int} {po : Bool} : ∀ {bs : List PB} {lo : Int}, ShL setx src false lo e bs →
    ShL setx src po lo e bs := by
  intro bs
  induction bs with
  | nil => intro _ _; exact ShL_nil _ _ _ _ _
  | cons c rest ih =>
    intro lo h
    rw [ShL_cons] at h ⊢
    exact ⟨h.1, fun ho => (by have := (h.2.1 ho).2; cases this), ih h.2.2⟩

/-- A list all of whose blocks are closed. -/
theorem ShL_of_closed {setx : Bool} {src : Bytes} {e : Int} {po : Bool} : ∀ {bs : List PB} {lo : Int}, ShL setx src po lo e bs →
    AllClosed bs → ShL setx src false lo e bs := by
  intro bs
  induction bs with
  | nil => intro _ _ _; exact ShL_nil _ _ _ _ _
  | cons c rest ih =>
    intro lo h hc
    rw [ShL_cons] at h ⊢
    refine ⟨h.1, fun ho => ?_, ih h.2.2 (fun b hb => hc b (by simp [hb]))⟩
    have := hc c (by simp)
    rw [isOpen_iff] at ho
    omega

theorem ShL_single {setx : Bool} {src : Bytes} {po : Bool} {lo e : Int} {c : PB} :
    ShL setx src po lo e [c] ↔ Sh setx src lo e c ∧ (c.isOpen = true → po = true) := by
  rw [ShL_cons]
  simp [ShL_nil]

/-- Appending a non-empty list: everything before it is closed. -/
theorem ShL_append_ne {setx : Bool} {src : Bytes} {po : Bool} {e : Int} {b : List PB} (hb : b ≠ []) : ∀ {a : List PB} {lo : Int},
    ShL setx src po lo e (a ++ b) ↔ ShL setx src false lo e a ∧ ShL setx src po (thr lo a) e b := by
  intro a
  induction a with
  | nil => intro lo; simp [ShL_nil, thr]
  | cons c rest ih =>
    intro lo
    simp only [List.cons_append, ShL_cons, ih, thr]
    constructor
    · rintro ⟨h1, h2, h3, h4⟩
      refine ⟨⟨h1, fun ho => ?_, h3⟩, h4⟩
      have := (h2 ho).1
      simp at this
      exact absurd this.2 hb
    · rintro ⟨⟨h1, h2, h3⟩, h4⟩
      exact ⟨h1, fun ho => (by have := (h2 ho).2; cases this), h3, h4⟩

theorem ShL_snoc {setx : Bool} {src : Bytes} {po : Bool} {lo e : Int} {a : List PB} {c : PB} :
    ShL setx src po lo e (a ++ [c]) ↔
      ShL setx src false lo e a ∧ Sh setx src (thr lo a) e c ∧ (c.isOpen = true → po = true) := by
  rw [ShL_append_ne (by simp), ShL_single]

/-- What `Sh` says about the end of a block. -/
theorem Sh_stop_le {setx : Bool} {src : Bytes} {lo e : Int} {b : PB} (h : Sh setx src lo e b) : b.label.stop ≤ e := by
  obtain ⟨l, bs, is⟩ := b
  rw [Sh_mk, nodeOK_iff] at h
  exact h.1.1

theorem ShL_stop_le {setx : Bool} {src : Bytes} {po : Bool} {e : Int} : ∀ {bs : List PB} {lo : Int}, ShL setx src po lo e bs →
    ∀ b ∈ bs, b.label.stop ≤ e := by
  intro bs
  induction bs with
  | nil => intro _ _ b hb; cases hb
  | cons c rest ih =>
    intro lo h b hb
    rw [ShL_cons] at h
    rcases List.mem_cons.mp hb with rfl | hb
    · exact Sh_stop_le h.1
    · exact ih h.2.2 b hb

theorem ShL_thr_le {setx : Bool} {src : Bytes} {po : Bool} {lo e : Int} {bs : List PB} (h : ShL setx src po lo e bs) (hlo : lo ≤ e) :
    thr lo bs ≤ e := thr_le hlo (ShL_stop_le h)

/-- Every member of a good list is good for some lower bound between `lo` and `e`. -/
theorem ShL_mem {setx : Bool} {src : Bytes} {po : Bool} {e : Int} : ∀ {bs : List PB} {lo : Int}, ShL setx src po lo e bs →
    ∀ b ∈ bs, ∃ lo', lo ≤ lo' ∧ (lo ≤ e → lo' ≤ e) ∧ Sh setx src lo' e b ∧ (b.isOpen = true → po = true) := by
  intro bs
  induction bs with
  | nil => intro _ _ b hb; cases hb
  | cons c rest ih =>
    intro lo h b hb
    rw [ShL_cons] at h
    rcases List.mem_cons.mp hb with rfl | hb
    · exact ⟨lo, Int.le_refl _, fun h => h, h.1, fun ho => (h.2.1 ho).2⟩
    · obtain ⟨lo', h1, h2, h3, h4⟩ := ih h.2.2 b hb
      have := Sh_stop_le h.1
      exact ⟨lo', by omega, fun hle => h2 (by omega), h3, h4⟩

/-! ### monotonicity -/

theorem ShL_imp {setx setx' : Bool} {src src' : Bytes} {po : Bool} {e e' : Int} {bs : List PB}
    (h : ∀ c ∈ bs, ∀ lo lo', lo' ≤ lo → Sh setx src lo e c → Sh setx' src' lo' e' c) :
    ∀ lo lo', lo' ≤ lo → ShL setx src po lo e bs → ShL setx' src' po lo' e' bs := by
  induction bs with
  | nil => intro _ _ _ _; exact ShL_nil _ _ _ _ _
  | cons c rest ih =>
    intro lo lo' hlo hs
    rw [ShL_cons] at hs ⊢
    exact ⟨h c (by simp) lo lo' hlo hs.1, hs.2.1,
      ih (fun c' hc' => h c' (by simp [hc'])) _ _ (by omega) hs.2.2⟩

/-- `Sh` is monotone in the upper bound and antitone in the lower bound. -/
theorem Sh_mono' {setx : Bool} {src : Bytes} : ∀ (b : PB) (lo lo' e e' : Int), lo' ≤ lo → e ≤ e' →
    Sh setx src lo e b → Sh setx src lo' e' b := by
  apply PB.ind
  intro l bs is ih lo lo' e e' hlo he h
  rw [Sh_mk] at h ⊢
  exact ⟨nodeOK_mono hlo he h.1,
    ShL_imp (fun c hc lo lo' hlo hc' => ih c hc lo lo' _ _ hlo (endOf_mono l he) hc') lo lo' hlo h.2⟩

theorem Sh_mono {setx : Bool} {src : Bytes} {e e' : Int} (he : e ≤ e') (b : PB) (lo lo' : Int) (hlo : lo' ≤ lo)
    (h : Sh setx src lo e b) : Sh setx src lo' e' b := Sh_mono' b lo lo' e e' hlo he h

theorem ShL_mono {setx : Bool} {src : Bytes} {po : Bool} {e e' lo lo' : Int} {bs : List PB} (hlo : lo' ≤ lo) (he : e ≤ e')
    (h : ShL setx src po lo e bs) : ShL setx src po lo' e' bs :=
  ShL_imp (fun c _ lo lo' hlo hc => Sh_mono he c lo lo' hlo hc) lo lo' hlo h

/-! ### relabelling -/

/-- A label change that keeps kind, span, `n` and `char` (the flags and the indent may change). -/
def SameShape (l l' : PLabel) : Prop :=
  l'.kind = l.kind ∧ l'.start = l.start ∧ l'.stop = l.stop ∧ l'.n = l.n ∧ l'.char = l.char

theorem SameShape.refl (l : PLabel) : SameShape l l := ⟨rfl, rfl, rfl, rfl, rfl⟩

theorem Sh_relabel {setx : Bool} {src : Bytes} {lo e : Int} {l l' : PLabel} {bs : List PB} {is : List Tree}
    (hl : SameShape l l') (h : Sh setx src lo e (.mk l bs is)) : Sh setx src lo e (.mk l' bs is) := by
  rw [Sh_mk] at h ⊢
  rw [nodeOK_congr hl.1 hl.2.1 hl.2.2.1 hl.2.2.2.1 hl.2.2.2.2]
  have e1 : endOf e l' = endOf e l := by unfold endOf; rw [hl.2.2.1]
  rw [e1, hl.2.2.1]
  exact h

theorem Sh_setLabel {setx : Bool} {src : Bytes} {lo e : Int} {f : PLabel → PLabel} (hf : ∀ l, SameShape l (f l))
    {b : PB} (h : Sh setx src lo e b) : Sh setx src lo e (b.setLabel f) := by
  obtain ⟨l, bs, is⟩ := b
  exact Sh_relabel (hf l) h

theorem setLabel_isOpen {f : PLabel → PLabel} (hf : ∀ l, SameShape l (f l)) (c : PB) : (c.setLabel f).isOpen = c.isOpen := by
  obtain ⟨l, bs, is⟩ := c
  show decide ((f l).stop < 0) = decide (l.stop < 0)
  rw [(hf l).2.2.1]

/-- Relabelling every block of a list (the list's looseness flag). -/
theorem ShL_map_setLabel {setx : Bool} {src : Bytes} {po : Bool} {e : Int} {f : PLabel → PLabel} (hf : ∀ l, SameShape l (f l)) :
    ∀ {bs : List PB} {lo : Int}, ShL setx src po lo e bs → ShL setx src po lo e (bs.map (PB.setLabel f)) := by
  intro bs
  induction bs with
  | nil => intro _ h; exact h
  | cons c rest ih =>
    intro lo h
    rw [List.map_cons, ShL_cons]
    rw [ShL_cons] at h
    have hs : (c.setLabel f).label.stop = c.label.stop := by
      obtain ⟨l, bs, is⟩ := c
      exact (hf l).2.2.1
    rw [hs, setLabel_isOpen hf]
    refine ⟨Sh_setLabel hf h.1, fun ho => ?_, ih h.2.2⟩
    obtain ⟨h1, h2⟩ := h.2.1 ho
    rw [h1]
    exact ⟨rfl, h2⟩

/-- Changing the inline children of a block that is not a paragraph. -/
theorem Sh_inlines {setx : Bool} {src : Bytes} {lo e : Int} {l : PLabel} {bs : List PB} {is is' : List Tree}
    (hk : paraLike l.kind = false) (h : Sh setx src lo e (.mk l bs is)) : Sh setx src lo e (.mk l bs is') := by
  rw [Sh_mk] at h ⊢
  rw [nodeOK_inl (leaf := bs.isEmpty) (is := is) hk]
  exact h

/-! ### combining two instances -/

theorem inls_combine {lo lo' e e' : Int} : ∀ {is : List Tree}, BSp.InlsOK lo e is → BSp.InlsOK lo' e' is → BSp.InlsOK lo e' is := by
  intro is
  induction is generalizing lo lo' with
  | nil => intro _ _; exact BSp.InlsOK_nil _ _
  | cons t rest ih =>
    intro h1 h2
    rw [BSp.InlsOK_cons] at h1 h2 ⊢
    exact ⟨h1.1, h1.2.1, h2.2.2.1, ih h1.2.2.2 h2.2.2.2⟩

theorem nodeOK_combine {setx : Bool} {src : Bytes} {lo lo' e e' : Int} {l : PLabel} {leaf : Bool} {is : List Tree}
    (h1 : nodeOK setx src lo e l leaf is = true) (h2 : nodeOK setx src lo' e' l leaf is = true) :
    nodeOK setx src lo e' l leaf is = true := by
  rw [nodeOK_iff, kindOK_iff, textOK_iff, openOK_iff] at h1 h2 ⊢
  refine ⟨h2.1, h1.2.1, h1.2.2.1, h2.2.2.2.1, ?_, ?_⟩
  · intro hp ho
    exact ⟨(h2.2.2.2.2.1 hp ho).1, inls_combine (h1.2.2.2.2.1 hp ho).2 (h2.2.2.2.2.1 hp ho).2⟩
  · intro ho
    exact ⟨(h1.2.2.2.2.2 ho).1, (h2.2.2.2.2.2 ho).2.1, (h1.2.2.2.2.2 ho).2.2⟩

/-- An open good block starts (or has text) at or after `lo` and at or before `e`. -/
theorem nodeOK_open_le {setx : Bool} {src : Bytes} {lo e : Int} {l : PLabel} {leaf : Bool} {is : List Tree}
    (h : nodeOK setx src lo e l leaf is = true) (ho : l.stop < 0) : lo ≤ e := by
  rw [nodeOK_iff, kindOK_iff, textOK_iff, openOK_iff] at h
  have hse := (h.2.2.2.2.2 ho).2.1
  rcases (h.2.2.2.2.2 ho).2.2 with a | a
  · have := (h.2.2.2.2.1 a.1 ho).2
    cases is with
    | nil => exact absurd rfl a.2
    | cons t rest =>
      rw [BSp.InlsOK_cons] at this
      omega
  · omega

theorem nodeOK_not_setext {setx : Bool} {src : Bytes} {lo e : Int} {l : PLabel} {leaf : Bool} {is : List Tree}
    (h : nodeOK setx src lo e l leaf is = true) (ho : l.stop < 0) : l.kind ≠ BK.setextHeading := by
  rw [nodeOK_iff, kindOK_iff, textOK_iff, openOK_iff] at h
  exact (h.2.2.2.2.2 ho).1

/-- The lower bounds of the first instance and the upper bound of the second. -/
theorem Sh_combine' {setx : Bool} {src : Bytes} : ∀ (b : PB) (lo lo' e e' : Int),
    Sh setx src lo e b → Sh setx src lo' e' b → Sh setx src lo e' b := by
  apply PB.ind
  intro l bs is ih lo lo' e e' h1 h2
  rw [Sh_mk] at h1 h2 ⊢
  refine ⟨nodeOK_combine h1.1 h2.1, ?_⟩
  have h1' := h1.2
  have h2' := h2.2
  clear h1 h2
  generalize endOf e l = f at h1'
  generalize endOf e' l = f' at h2' ⊢
  generalize decide (l.stop < 0) = po at h1' h2' ⊢
  induction bs generalizing lo lo' with
  | nil => exact ShL_nil _ _ _ _ _
  | cons c rest ihr =>
    rw [ShL_cons] at h1' h2' ⊢
    exact ⟨ih c (by simp) lo lo' f f' h1'.1 h2'.1, h2'.2.1, ihr (fun c' hc' => ih c' (by simp [hc'])) _ _ h1'.2.2 h2'.2.2⟩

theorem Sh_combine {setx : Bool} {src : Bytes} {e e' : Int} (b : PB) (lo lo' : Int)
    (h1 : Sh setx src lo e b) (h2 : Sh setx src lo' e' b) : Sh setx src lo e' b := Sh_combine' b lo lo' e e' h1 h2

/-- "Everything in `b` is from before the line that starts at `L`." -/
def Old (setx : Bool) (src : Bytes) (L : Int) (b : PB) : Prop := ∃ lo, 0 ≤ lo ∧ Sh setx src lo L b

theorem Sh_lower {setx : Bool} {src : Bytes} {lo e L : Int} {b : PB} (h : Sh setx src lo e b) (ho : Old setx src L b) :
    Sh setx src lo L b := by
  obtain ⟨lo', _, h'⟩ := ho
  exact Sh_combine b lo lo' h h'

theorem Old.mono {setx : Bool} {src : Bytes} {L L' : Int} {b : PB} (h : Old setx src L b) (hl : L ≤ L') : Old setx src L' b := by
  obtain ⟨lo, h0, h⟩ := h
  exact ⟨lo, h0, Sh_mono hl b lo lo (Int.le_refl _) h⟩

theorem Sh_open_le {setx : Bool} {src : Bytes} {lo e : Int} {b : PB} (h : Sh setx src lo e b) (ho : b.label.stop < 0) : lo ≤ e := by
  obtain ⟨l, bs, is⟩ := b
  rw [Sh_mk] at h
  exact nodeOK_open_le h.1 ho

/-! ### the last child -/

theorem ShL_getLast {setx : Bool} {src : Bytes} {po : Bool} {lo e : Int} {bs : List PB} {c : PB} (hgl : bs.getLast? = some c)
    (h : ShL setx src po lo e bs) :
    bs = bs.dropLast ++ [c] ∧ ShL setx src false lo e bs.dropLast ∧ Sh setx src (thr lo bs.dropLast) e c ∧
      (c.isOpen = true → po = true) := by
  have e := BSp.dropLast_append_getLast hgl
  have h' := h
  rw [e, ShL_snoc] at h'
  exact ⟨e, h'.1, h'.2.1, h'.2.2⟩

/-- The children of a good block. -/
theorem Sh_children {setx : Bool} {src : Bytes} {lo e : Int} {l : PLabel} {bs : List PB} {is : List Tree}
    (h : Sh setx src lo e (.mk l bs is)) : ShL setx src (decide (l.stop < 0)) lo (endOf e l) bs := (Sh_mk.mp h).2

theorem endOf_le {setx : Bool} {src : Bytes} {lo e : Int} {l : PLabel} {leaf : Bool} {is : List Tree}
    (h : nodeOK setx src lo e l leaf is = true) : endOf e l ≤ e := by
  rw [nodeOK_iff] at h
  unfold endOf
  split
  · exact Int.le_refl _
  · exact h.1

/-- An open last child has an open parent. -/
theorem Sh_parent_open {setx : Bool} {src : Bytes} {lo e : Int} {l : PLabel} {bs : List PB} {is : List Tree} {c : PB}
    (h : Sh setx src lo e (.mk l bs is)) (hgl : bs.getLast? = some c) (ho : c.label.stop < 0) : l.stop < 0 := by
  obtain ⟨_, _, _, hpo⟩ := ShL_getLast hgl (Sh_children h)
  have := hpo ((isOpen_iff c).mpr ho)
  simpa using this

/-- Sub-blocks on the last-child spine. -/
theorem Sh_spineGet {setx : Bool} {src : Bytes} {e : Int} : ∀ (d : Nat) (b : PB) (lo : Int) (c : PB),
    Sh setx src lo e b → spineGet b d = some c → ∃ lo', lo ≤ lo' ∧ (lo ≤ e → lo' ≤ e) ∧ Sh setx src lo' e c := by
  intro d
  induction d with
  | zero =>
    intro b lo c h hg
    rw [CM.Proofs.BT.spineGet_zero] at hg
    cases hg
    exact ⟨lo, Int.le_refl _, fun h => h, h⟩
  | succ d ih =>
    intro b lo c h hg
    obtain ⟨l, bs, is⟩ := b
    rw [CM.Proofs.BT.spineGet_succ] at hg
    cases hgl : bs.getLast? with
    | none => rw [hgl] at hg; cases hg
    | some c1 =>
      rw [hgl] at hg
      obtain ⟨_, hinit, hc1, _⟩ := ShL_getLast hgl (Sh_children h)
      have hle := endOf_le (Sh_mk.mp h).1
      have hc1' := Sh_mono hle c1 _ _ (Int.le_refl _) hc1
      obtain ⟨lo', h1, h2, h3⟩ := ih c1 _ c hc1' hg
      have := thr_ge lo bs.dropLast
      refine ⟨lo', by omega, fun hle' => h2 ?_, h3⟩
      have := ShL_thr_le hinit (show lo ≤ endOf e l from ?_)
      · omega
      · -- `lo ≤ endOf e l`: a closed block ends at or after `lo`, an open one is read up to `e`
        have hn := (Sh_mk.mp h).1
        rw [nodeOK_iff] at hn
        unfold endOf
        split
        · exact hle'
        · exact hn.2.1 (by omega)

/-- The blocks of the spine above an open block are open. -/
theorem Sh_spine_open {setx : Bool} {src : Bytes} : ∀ (d : Nat) (b : PB) (lo e : Int) (c : PB),
    Sh setx src lo e b → spineGet b d = some c → c.label.stop < 0 → b.label.stop < 0 := by
  intro d
  induction d with
  | zero =>
    intro b lo e c _ hg ho
    rw [CM.Proofs.BT.spineGet_zero] at hg
    cases hg
    exact ho
  | succ d ih =>
    intro b lo e c h hg ho
    obtain ⟨l, bs, is⟩ := b
    rw [CM.Proofs.BT.spineGet_succ] at hg
    cases hgl : bs.getLast? with
    | none => rw [hgl] at hg; cases hg
    | some c1 =>
      rw [hgl] at hg
      obtain ⟨_, _, hc1, _⟩ := ShL_getLast hgl (Sh_children h)
      have := ih c1 _ _ c hc1 hg ho
      exact Sh_parent_open h hgl this

end CM.Proofs.Shp
