import CM.Proofs.BlocksWellC01
import CM.Props.C01Contract
/-
C01 contract for the real block parser — positions.

`CutAt src e`: `e` is an admissible end of a child of the document (positive, inside `src`, a `GoodCut`).
`Chain src hi lo bs`: the blocks `bs` are closed and end at strictly increasing admissible positions in `(lo, hi]`.
`Gap src a b`: the bytes `src[a..b)` are blank.
From these the Boolean check `kidsOK` of the contract follows (`kidsOK_of_chain_open`, `kidsOK_of_chain_closed`), and
`kidsOK` survives cutting the first child off (`kidsOK_rebase`).
-/
namespace CM.Proofs
open CM CM.Model CM.Gen CM.Props.C01

/-! ### Lists of bytes -/

theorem getLast?_take_getD (src : Bytes) {n : Nat} (h0 : 0 < n) (hn : n ≤ src.length) :
    (src.take n).getLast? = some (src.getD (n - 1) 0) := by
  rw [List.getLast?_eq_getElem?]
  simp only [List.length_take, Nat.min_eq_left hn]
  rw [List.getElem?_take_of_lt (by omega), List.getD_eq_getElem?_getD, List.getElem?_eq_getElem (by omega)]
  rfl

theorem head?_drop_getD (src : Bytes) {n : Nat} (hn : n < src.length) : (src.drop n).head? = some (src.getD n 0) := by
  rw [List.head?_drop, List.getD_eq_getElem?_getD, List.getElem?_eq_getElem hn]
  rfl

/-! ### Padded buffers and cuts -/

theorem padded_drop {src : Bytes} {n : Nat} (hp : Padded src) (ha : Aligned src n) : Padded (src.drop n) := by
  obtain ⟨y, rfl⟩ := hp
  obtain ⟨_, y₂, _, _, h2⟩ := padNulls_split y n ha
  exact ⟨y₂, h2⟩

theorem padded_nil : Padded [] := ⟨[], rfl⟩

/-- In a padded buffer, a position right after a non-NUL byte that does not separate a CR from its LF is a good cut. -/
theorem goodCut_of_local {src : Bytes} {n : Nat} (hp : Padded src) (h0 : 0 < n) (hn : n ≤ src.length)
    (hz : src.getD (n - 1) 0 ≠ 0) (hcr : ¬ (src.getD (n - 1) 0 = CR ∧ n < src.length ∧ src.getD n 0 = LF)) :
    GoodCut src n := by
  obtain ⟨y, rfl⟩ := hp
  refine ⟨aligned_of_getLast_ne_zero y n ?_, ?_⟩
  · intro c hc
    rw [getLast?_take_getD _ h0 hn] at hc
    cases hc; exact hz
  · rintro ⟨h1, h2⟩
    rw [getLast?_take_getD _ h0 hn] at h1
    have hlt : n < (padNulls y 0).length := by
      rcases Nat.lt_or_ge n (padNulls y 0).length with h | h
      · exact h
      · rw [List.drop_eq_nil_of_le h] at h2; cases h2
    rw [head?_drop_getD _ hlt] at h2
    apply hcr
    exact ⟨Option.some.inj h1, hlt, Option.some.inj h2⟩

/-- `e` is an admissible end of a child of the document. -/
def CutAt (src : Bytes) (e : Int) : Prop := 0 < e ∧ e ≤ (src.length : Int) ∧ GoodCut src e.toNat

theorem cutAt_length {src : Bytes} (hp : Padded src) (hne : src ≠ []) : CutAt src (src.length : Int) := by
  have : 0 < src.length := List.length_pos_iff.mpr hne
  refine ⟨by omega, Int.le_refl _, ?_⟩
  rw [Int.toNat_natCast]; exact goodCut_length_of_padded hp

theorem cutAt_append {src ln : Bytes} (hp : Padded src) (hne : src ≠ []) (hns : ¬ CRLFSplit src ln) :
    CutAt (src ++ ln) (src.length : Int) := by
  have : 0 < src.length := List.length_pos_iff.mpr hne
  refine ⟨by omega, by rw [List.length_append]; omega, ?_⟩
  rw [Int.toNat_natCast]; exact goodCut_append hp hns

/-! ### Blank gaps -/

/-- The bytes `src[a..b)` are spaces, tabs and line endings. -/
def Gap (src : Bytes) (a b : Nat) : Prop := ∀ j, a ≤ j → j < b → isSpaceTabOrLineEnding (src.getD j 0) = true

theorem Gap.refl (src : Bytes) (a : Nat) : Gap src a a := fun j h1 h2 => by omega

theorem Gap.of_le {src : Bytes} {a b : Nat} (h : b ≤ a) : Gap src a b := fun j h1 h2 => by omega

theorem Gap.trans {src : Bytes} {a b c : Nat} (h1 : Gap src a b) (h2 : Gap src b c) : Gap src a c := by
  intro j hj1 hj2
  rcases Nat.lt_or_ge j b with h | h
  · exact h1 j hj1 h
  · exact h2 j h hj2

theorem isBlankLine_drop_of_gap {src : Bytes} {a : Nat} (h : Gap src a src.length) : isBlankLine (src.drop a) = true := by
  unfold isBlankLine
  rw [List.all_eq_true]
  intro c hc
  obtain ⟨i, hi, rfl⟩ := List.getElem_of_mem hc
  simp only [List.length_drop] at hi
  have := h (a + i) (by omega) (by omega)
  rw [List.getD_eq_getElem?_getD, List.getElem?_eq_getElem (by omega)] at this
  simpa using this

theorem gap_of_isBlankLine_drop {src : Bytes} {a : Nat} (h : isBlankLine (src.drop a) = true) : Gap src a src.length := by
  intro j h1 h2
  unfold isBlankLine at h
  rw [List.all_eq_true] at h
  have hm : src[j] ∈ src.drop a := by
    have : src[j] = (src.drop a)[j - a]'(by simp; omega) := by
      simp only [List.getElem_drop]; congr 1; omega
    rw [this]; exact List.getElem_mem _
  have := h _ hm
  rw [List.getD_eq_getElem?_getD, List.getElem?_eq_getElem h2]
  exact this

/-! ### Chains of closed blocks -/

/-- The blocks are closed and end at strictly increasing admissible positions in `(lo, hi]`. -/
def Chain (src : Bytes) (hi : Int) : Int → List PB → Prop
  | _, [] => True
  | lo, b :: rest => lo < b.label.stop ∧ b.label.stop ≤ hi ∧ CutAt src b.label.stop ∧ Chain src hi b.label.stop rest

/-- The end of the last block of the list (`lo` for the empty list). -/
def lastStop (lo : Int) : List PB → Int
  | [] => lo
  | b :: rest => lastStop b.label.stop rest

theorem Chain.nil (src : Bytes) (hi lo : Int) : Chain src hi lo [] := trivial

theorem lastStop_append (lo : Int) (a b : List PB) : lastStop lo (a ++ b) = lastStop (lastStop lo a) b := by
  induction a generalizing lo with
  | nil => rfl
  | cons x t ih => exact ih _

theorem lastStop_concat (lo : Int) (a : List PB) (b : PB) : lastStop lo (a ++ [b]) = b.label.stop := by
  rw [lastStop_append]; rfl

theorem chain_append {src : Bytes} {hi : Int} : ∀ {lo : Int} {a b : List PB},
    Chain src hi lo (a ++ b) ↔ Chain src hi lo a ∧ Chain src hi (lastStop lo a) b := by
  intro lo a
  induction a generalizing lo with
  | nil => intro b; simp [Chain, lastStop]
  | cons x t ih =>
    intro b
    simp only [List.cons_append, Chain, lastStop, ih, and_assoc]

theorem Chain.lastStop_le {src : Bytes} {hi : Int} : ∀ {lo : Int} {a : List PB}, Chain src hi lo a → lo ≤ hi →
    lastStop lo a ≤ hi := by
  intro lo a
  induction a generalizing lo with
  | nil => intro _ h; exact h
  | cons x t ih => intro h _; exact ih h.2.2.2 h.2.1

theorem Chain.lo_le_lastStop {src : Bytes} {hi : Int} : ∀ {lo : Int} {a : List PB}, Chain src hi lo a → lo ≤ lastStop lo a := by
  intro lo a
  induction a generalizing lo with
  | nil => intro _; exact Int.le_refl _
  | cons x t ih =>
    intro h
    have h1 := ih h.2.2.2
    have h2 := h.1
    simp only [lastStop]; omega

theorem Chain.lt_lastStop {src : Bytes} {hi : Int} {lo : Int} {a : List PB} (h : Chain src hi lo a) (hne : a ≠ []) :
    lo < lastStop lo a := by
  cases a with
  | nil => exact absurd rfl hne
  | cons x t =>
    have h1 := h.2.2.2.lo_le_lastStop
    have h2 := h.1
    simp only [lastStop]; omega

theorem Chain.closed {src : Bytes} {hi : Int} : ∀ {lo : Int} {a : List PB}, Chain src hi lo a → 0 ≤ lo →
    ∀ b ∈ a, PBClosed b := by
  intro lo a
  induction a generalizing lo with
  | nil => intro _ _ b hb; cases hb
  | cons x t ih =>
    intro h h0 b hb
    rcases List.mem_cons.mp hb with rfl | hb
    · unfold PBClosed; have := h.1; omega
    · exact ih h.2.2.2 (by have := h.1; omega) b hb

theorem Chain.all_le {src : Bytes} {hi : Int} : ∀ {lo : Int} {a : List PB}, Chain src hi lo a → ∀ b ∈ a, b.label.stop ≤ hi := by
  intro lo a
  induction a generalizing lo with
  | nil => intro _ b hb; cases hb
  | cons x t ih =>
    intro h b hb
    rcases List.mem_cons.mp hb with rfl | hb
    · exact h.2.1
    · exact ih h.2.2.2 b hb

theorem Chain.mono {src : Bytes} {hi hi' : Int} (hle : hi ≤ hi') : ∀ {lo : Int} {a : List PB}, Chain src hi lo a →
    Chain src hi' lo a := by
  intro lo a
  induction a generalizing lo with
  | nil => intro _; trivial
  | cons x t ih => intro h; exact ⟨h.1, by have := h.2.1; omega, h.2.2.1, ih h.2.2.2⟩

theorem Chain.weaken_lo {src : Bytes} {hi lo lo' : Int} {a : List PB} (h : Chain src hi lo a) (hle : lo' ≤ lo) :
    Chain src hi lo' a := by
  cases a with
  | nil => trivial
  | cons x t => exact ⟨by have := h.1; omega, h.2.1, h.2.2.1, h.2.2.2⟩

theorem chain_single {src : Bytes} {hi lo : Int} {b : PB} (h1 : lo < b.label.stop) (h2 : b.label.stop ≤ hi)
    (h3 : CutAt src b.label.stop) : Chain src hi lo [b] := ⟨h1, h2, h3, trivial⟩

/-! ### From chains to the contract's check -/

theorem isOpen_eq_false_of_closed {b : PB} (h : 0 ≤ b.label.stop) : b.isOpen = false := by
  unfold PB.isOpen; simp; exact h

theorem isOpen_eq_true_of_open {b : PB} (h : b.label.stop < 0) : b.isOpen = true := by
  unfold PB.isOpen; simp; exact h

/-- Closed blocks in a chain, then one open block. -/
theorem kidsOK_of_chain_open {src : Bytes} {hi : Int} : ∀ {lo : Int} {pre : List PB} {c : PB}, 0 ≤ lo →
    Chain src hi lo pre → c.label.stop < 0 → KidsOK src lo.toNat (pre ++ [c]) := by
  intro lo pre
  induction pre generalizing lo with
  | nil => intro c _ _ hc; exact KidsOK.last_open (isOpen_eq_true_of_open hc)
  | cons x t ih =>
    intro c h0 h hc
    obtain ⟨h1, _, ⟨c1, c2, c3⟩, h4⟩ := h
    refine KidsOK.closed (isOpen_eq_false_of_closed (by omega)) ?_ ?_ c3 (ih (by omega) h4 hc)
    · unfold stopOf; omega
    · unfold stopOf; omega

/-- Closed blocks in a chain, and only blank bytes after the last one. -/
theorem kidsOK_of_chain_closed {src : Bytes} {hi : Int} : ∀ {lo : Int} {pre : List PB}, 0 ≤ lo →
    Chain src hi lo pre → isBlankLine (src.drop (lastStop lo pre).toNat) = true → KidsOK src lo.toNat pre := by
  intro lo pre
  induction pre generalizing lo with
  | nil => intro _ _ hb; exact KidsOK.nil hb
  | cons x t ih =>
    intro h0 h hb
    obtain ⟨h1, _, ⟨c1, c2, c3⟩, h4⟩ := h
    refine KidsOK.closed (isOpen_eq_false_of_closed (by omega)) ?_ ?_ c3 (ih (by omega) h4 hb)
    · unfold stopOf; omega
    · unfold stopOf; omega

/-! ### Cutting the first child off -/

theorem offsetPB_stop_closed {n : Int} {b : PB} (h : 0 ≤ b.label.stop) : (offsetPB n b).label.stop = b.label.stop + n := by
  have := (offsetPB_fields n b).2.1
  rw [if_pos h] at this; exact this

theorem offsetPB_stop_open {n : Int} {b : PB} (h : b.label.stop < 0) : (offsetPB n b).label.stop = b.label.stop := by
  have := (offsetPB_fields n b).2.1
  rw [if_neg (by omega)] at this; exact this

theorem isOpen_false_iff' (b : PB) : b.isOpen = false ↔ 0 ≤ b.label.stop := by
  unfold PB.isOpen; simp

theorem isOpen_true_iff' (b : PB) : b.isOpen = true ↔ b.label.stop < 0 := by
  unfold PB.isOpen; simp

/-- The check of the contract survives re-basing at a good cut at or before the lower bound. -/
theorem kidsOK_rebase {src : Bytes} {s : Nat} (hs : s ≤ src.length) (hg : GoodCut src s) : ∀ {lo : Nat} {bs : List PB},
    KidsOK src lo bs → s ≤ lo → KidsOK (src.drop s) (lo - s) (offsetPBs (-(s : Int)) bs) := by
  intro lo bs h
  induction h with
  | nil hb =>
    intro hle
    refine KidsOK.nil ?_
    rw [List.drop_drop]
    have : s + (_ - s) = _ := Nat.add_sub_cancel' hle
    rw [this]; exact hb
  | last_open hk =>
    intro _
    rw [isOpen_true_iff'] at hk
    rw [show offsetPBs (-(s : Int)) [_] = [offsetPB (-(s : Int)) _] by rw [offsetPBs, offsetPBs]]
    refine KidsOK.last_open ?_
    rw [isOpen_true_iff', offsetPB_stop_open hk]; exact hk
  | @closed lo k rest hk h1 h2 h3 _ ih =>
    intro hle
    rw [isOpen_false_iff'] at hk
    have hst : stopOf (offsetPB (-(s : Int)) k) = stopOf k - s := by
      unfold stopOf at h1 ⊢
      rw [offsetPB_stop_closed hk]; omega
    rw [show offsetPBs (-(s : Int)) (k :: rest) = offsetPB (-(s : Int)) k :: offsetPBs (-(s : Int)) rest by rw [offsetPBs]]
    refine KidsOK.closed ?_ ?_ ?_ ?_ ?_
    · rw [isOpen_false_iff', offsetPB_stop_closed hk]; unfold stopOf at h1; omega
    · rw [hst]; omega
    · rw [hst, List.length_drop]; omega
    · rw [hst]; exact goodCut_drop (by omega) h2 hg h3
    · rw [hst]; exact ih (by omega)

end CM.Proofs
