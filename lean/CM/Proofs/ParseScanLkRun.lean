import CM.Proofs.InlSpanRun
import CM.Proofs.ParseScanLkBracketM

/-
C02, inline half, with `LinkScan2` / `TokScan2` — the last group of cases of the tokenizer.
(Generated from `InlSpanRun.lean`: the same proofs with `LinkScan2` in the place of `LinkScan`.)
-/

namespace CM.Proofs.InlH2
open CM CM.Model CM.Model.Inl CM.Gen CM.Spec CM.Proofs CM.Proofs.InlH
open Std.Do

set_option mvcgen.warning false

theorem charEsc_le {c : ICtx} {hi : Int} (hT : TokScan2 c hi) {pos se : Int} {r : Bytes} (h0 : 0 ≤ pos) (h1 : pos ≤ se)
    (h2 : se ≤ (c.srcA.size : Int)) (hr : r = (c.srcA.extract pos.toNat se.toNat).toList) :
    parseCharacterEscape c.x.ext r ≤ se - pos := by
  have := hT.charEsc r
  rw [hr, slice_len c.srcA pos se h0 h1 h2] at this
  rw [hr]; exact this

theorem autolink_le {c : ICtx} {hi : Int} (hT : TokScan2 c hi) {pos se : Int} {r : Bytes} (h0 : 0 ≤ pos) (h1 : pos ≤ se)
    (h2 : se ≤ (c.srcA.size : Int)) (hr : r = (c.srcA.extract pos.toNat se.toNat).toList) (hn : 0 ≤ parseAutolink r) :
    2 ≤ parseAutolink r ∧ parseAutolink r ≤ se - pos := by
  have := hT.autolink r hn
  rw [hr, slice_len c.srcA pos se h0 h1 h2] at this
  rw [hr]; exact this

@[spec 21000]
theorem tokC_specP (L : Lims) (c : ICtx) (hU : UnpOK c L) (hT : TokScan2 c L.hi) (s : IState) (b : UInt8)
    (pos plainStart : Int) (done : Bool) :
    ⦃fun st => ⌜st = s ∧ RunInv L c (pos, plainStart, done) s ∧ s.unparsedPos < c.unparsed.size ∧
        pos < spanEndOf c s⌝⦄
    tokC c s b pos plainStart done
    ⦃⇓? r st => ⌜RunInv L c r.value st⌝⦄ := by
  mvcgen [tokC, isLastSpan, addText, -CM.Proofs.InlH.refPart_specP, -CM.Proofs.InlH.parseEndBracket_specP, 
    -CM.Proofs.InlH.tokC_specP]
  all_goals (try (exact fun h => h))
  all_goals (try (exact ExceptConds.entails.refl _))
  all_goals tok_setup
  all_goals unp_norm
  all_goals (try (have hce := charEsc_le hT ‹0 ≤ pos› ‹pos ≤ _› ‹_ ≤ (c.srcA.size : Int)› ‹_ = Array.toList _›))
  all_goals (first
    | (refine ⟨trivial, ?_, ?_⟩
       · first | assumption | (apply SP.mono; assumption; omega; omega)
       · omega)
    | (refine ⟨trivial, ?_, ?_, ?_⟩
       · first | assumption | (apply SP.mono; assumption; omega; omega)
       · omega
       · omega)
    | (refine ⟨?_, ?_, ?_⟩
       · first | assumption | (apply SP.mono; assumption; omega; omega)
       · omega
       · intro _; omega)
    | skip)

end CM.Proofs.InlH2
