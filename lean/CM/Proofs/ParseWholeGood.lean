import CM.Proofs.ParseWholeLine
import CM.Proofs.InlShapes
/-
Whole-`Parse` theorems, part 5: the concrete predicate `Good S t` on the inline children of block-phase trees, and the
proof that it holds at every creation site (`Sites x Good`).

`Good S t` says, for the inline child `t` itself (`top`) and for every node below it:
* **references**: a non-empty `ref` attribute occurs only at `t` itself, and only if `t` is a LinkLabel
  (the label of a link reference definition, `refDefLoop`);
* **soft breaks**: a SoftLineBreak node with a valid end has an EMPTY span (the only soft break the block phase makes is
  the synthetic one at the end of input inside a code block; the line endings of code lines are part of the Text nodes);
* **character references**: a CharacterReference node `[a, b)` with `0 ≤ a`, `0 ≤ b` lies inside `S` and
  `S[a..b)` has the shape `&…;` (`Spec.charRefShape`) — these are made by `infoStringLoop` (info strings) and
  `collectTextNodes` (destinations and titles of definitions), both behind `parseCharacterEscape`.

The side conditions `0 ≤ …` make the predicate stable under `offsetTree (-n)` / `S.drop n` (re-basing of the left-over
blocks when a root is cut off) without any knowledge about the order of the spans; it is stable under `S ++ m` (the
source grows) because the span is inside `S`.
-/
namespace CM.Proofs.PW
open CM CM.Model CM.Gen CM.Spec
open CM.Proofs.BT CM.Proofs.BG CM.Proofs.InlH

/-- `S[a..b)` is a character reference (if the span is valid at all). -/
def CROK (S : Bytes) (a b : Int) : Prop :=
  0 ≤ a → 0 ≤ b → b ≤ (S.length : Int) ∧ charRefShape (sliceI S a b) = true

/-- The three clauses at one node; `top`: the node is an inline child of a block (not below one). -/
def NodeGood (S : Bytes) (top : Bool) (v : Tree) : Prop :=
  (v.label.ref ≠ [] → top = true ∧ v.label.kind = IK.linkLabel) ∧
  (v.label.kind = IK.softBreak → 0 ≤ v.label.stop → v.label.start = v.label.stop) ∧
  (v.label.kind = IK.charRef → CROK S v.label.start v.label.stop)

/-- Below an info string, a CharacterReference node lies inside the info string (the last clause is conditional on a
    valid end so that it survives `offsetTree`, which moves only non-negative ends). -/
def InfoInside (t : Tree) : Prop :=
  t.label.kind = IK.infoString → ∀ v ∈ T.nodesL t.children, v.label.kind = IK.charRef →
    t.label.start ≤ v.label.start ∧ v.label.start ≤ v.label.stop ∧ (0 ≤ v.label.stop → v.label.stop ≤ t.label.stop)

/-- The predicate on an inline child of a block. -/
def Good (S : Bytes) (t : Tree) : Prop :=
  NodeGood S true t ∧ (∀ v ∈ T.nodesL t.children, NodeGood S false v) ∧ InfoInside t

/-! ### leaves -/

theorem nodeGood_plain (S : Bytes) (top : Bool) (l : Label) (hr : l.ref = []) (h1 : l.kind ≠ IK.softBreak)
    (h2 : l.kind ≠ IK.charRef) (cs : List Tree) : NodeGood S top (.node l cs) :=
  ⟨fun h => absurd hr h, fun h => absurd h h1, fun h => absurd h h2⟩

theorem nodeGood_weaken {S : Bytes} {v : Tree} (h : NodeGood S true v) (hk : v.label.kind ≠ IK.linkLabel) :
    NodeGood S false v := by
  refine ⟨fun hr => ?_, h.2.1, h.2.2⟩
  exact absurd (h.1 hr).2 hk

theorem good_leaf (S : Bytes) (l : Label) (h : NodeGood S true (.node l [])) : Good S (.node l []) :=
  ⟨h, fun v hv => by simp [T.nodesL, Tree.children] at hv, fun _ v hv => by simp [T.nodesL, Tree.children] at hv⟩

theorem infoInside_of_kind {t : Tree} (h : t.label.kind ≠ IK.infoString) : InfoInside t := fun hk => absurd hk h

theorem nodesL_nil : T.nodesL [] = [] := by rw [T.nodesL]

/-- All nodes of the trees satisfy `P`. -/
theorem all_nodesL {P : Tree → Prop} {ts : List Tree} (h : ∀ c ∈ ts, ∀ u ∈ T.nodes c, P u) :
    ∀ v ∈ T.nodesL ts, P v := by
  intro v hv
  obtain ⟨c, hc, hvc⟩ := InlH.mem_nodesL hv
  exact h c hc v hvc

theorem nodes_mkInline_leaf (k : Nat) (a b : Int) : T.nodes (mkInline k a b) = [mkInline k a b] := by
  rw [mkInline, T.nodes, T.nodesL]

/-! ### character references -/

theorem sliceI_valid (S : Bytes) (a b : Int) (h0 : 0 ≤ a) (hab : a ≤ b) :
    sliceI S a b = (S.drop a.toNat).take (b - a).toNat := by
  unfold sliceI
  rw [if_pos]
  simp only [Bool.and_eq_true, decide_eq_true_eq]
  omega

theorem sliceI_invalid (S : Bytes) (a b : Int) (h : ¬ (0 ≤ a ∧ 0 ≤ b ∧ a ≤ b)) : sliceI S a b = [] := by
  unfold sliceI
  rw [if_neg]
  simp only [Bool.and_eq_true, decide_eq_true_eq]
  omega

theorem charRefShape_nil : charRefShape [] = false := rfl

/-- a character reference found at `p` in a prefix of `S.drop p` -/
theorem crok_site (ext : Ext) (S : Bytes) (p k e : Nat)
    (h : parseCharacterEscape ext ((S.drop p).take k) = Int.ofNat e) : CROK S (p : Int) ((p : Int) + (e : Int)) := by
  intro _ _
  refine ⟨?_, charRef_site ext S p k e h⟩
  obtain ⟨hle, hsh⟩ := parseCharacterEscape_shape ext _ e h
  rw [List.length_take, List.length_drop] at hle
  have he : e ≠ 0 := by
    intro h0
    rw [h0, List.take_zero] at hsh
    cases hsh
  omega

theorem CROK.mono {S : Bytes} {a b : Int} (h : CROK S a b) (m : Bytes) : CROK (S ++ m) a b := by
  intro ha hb
  obtain ⟨h1, h2⟩ := h ha hb
  refine ⟨by rw [List.length_append]; omega, ?_⟩
  by_cases hab : a ≤ b
  · rw [sliceI_valid _ _ _ ha hab] at h2 ⊢
    have h3 : a.toNat ≤ S.length := by omega
    rw [List.drop_append_of_le_length h3, List.take_append_of_le_length]
    · exact h2
    · rw [List.length_drop]; omega
  · rw [sliceI_invalid _ _ _ (by omega)] at h2
    cases h2

theorem CROK.shift {S : Bytes} {a b : Int} (h : CROK S a b) (n : Nat) (hb : 0 ≤ b) :
    CROK (S.drop n) (a + -(n : Int)) (b + -(n : Int)) := by
  intro ha' hb'
  obtain ⟨h1, h2⟩ := h (by omega) hb
  refine ⟨by rw [List.length_drop]; omega, ?_⟩
  by_cases hab : a ≤ b
  · rw [sliceI_valid _ _ _ (by omega) hab] at h2
    rw [sliceI_valid _ _ _ ha' (by omega), List.drop_drop]
    have e1 : n + (a + -(n : Int)).toNat = a.toNat := by omega
    have e2 : (b + -(n : Int) - (a + -(n : Int))).toNat = (b - a).toNat := by omega
    rw [e1, e2]
    exact h2
  · rw [sliceI_invalid _ _ _ (by omega)] at h2
    cases h2

/-! ### stability -/

theorem NodeGood.mono {S : Bytes} {top : Bool} {v : Tree} (h : NodeGood S top v) (m : Bytes) :
    NodeGood (S ++ m) top v :=
  ⟨h.1, h.2.1, fun hk => (h.2.2 hk).mono m⟩

theorem Good.mono {S : Bytes} {t : Tree} (h : Good S t) (m : Bytes) : Good (S ++ m) t :=
  ⟨h.1.mono m, fun v hv => (h.2.1 v hv).mono m, h.2.2⟩

/-- the label `offsetTree n` gives a node -/
def shl (n : Int) (l : Label) : Label :=
  { l with start := l.start + n, stop := if l.stop ≥ 0 then l.stop + n else l.stop }

mutual
theorem nodes_offsetTree (n : Int) : ∀ (t v : Tree), v ∈ T.nodes (offsetTree n t) →
    ∃ u ∈ T.nodes t, v.label = shl n u.label
  | .node l cs, v, hv => by
    rw [offsetTree, T.nodes, List.mem_cons] at hv
    rcases hv with rfl | hv
    · exact ⟨.node l cs, InlH.self_mem_nodes _, rfl⟩
    · obtain ⟨u, hu, e⟩ := nodesL_offsetTrees n cs v hv
      exact ⟨u, by rw [T.nodes]; exact List.mem_cons_of_mem _ hu, e⟩
theorem nodesL_offsetTrees (n : Int) : ∀ (cs : List Tree) (v : Tree), v ∈ T.nodesL (offsetTrees n cs) →
    ∃ u ∈ T.nodesL cs, v.label = shl n u.label
  | [], v, hv => by
    rw [offsetTrees, T.nodesL] at hv; cases hv
  | c :: cs, v, hv => by
    rw [offsetTrees, T.nodesL, List.mem_append] at hv
    rcases hv with hv | hv
    · obtain ⟨u, hu, e⟩ := nodes_offsetTree n c v hv
      exact ⟨u, by rw [T.nodesL]; exact List.mem_append_left _ hu, e⟩
    · obtain ⟨u, hu, e⟩ := nodesL_offsetTrees n cs v hv
      exact ⟨u, by rw [T.nodesL]; exact List.mem_append_right _ hu, e⟩
end

theorem NodeGood.shift {S : Bytes} {top : Bool} {u v : Tree} (h : NodeGood S top u) (n : Nat)
    (hv : v.label = shl (-(n : Int)) u.label) : NodeGood (S.drop n) top v := by
  have hr : v.label.ref = u.label.ref := by rw [hv]; rfl
  have hk : v.label.kind = u.label.kind := by rw [hv]; rfl
  have hs : v.label.start = u.label.start + -(n : Int) := by rw [hv]; rfl
  have he : v.label.stop = if u.label.stop ≥ 0 then u.label.stop + -(n : Int) else u.label.stop := by rw [hv]; rfl
  refine ⟨?_, ?_, ?_⟩
  · rw [hr, hk]; exact h.1
  · rw [hk, hs, he]
    intro hsb
    split
    · intro h0
      rw [h.2.1 hsb (by omega)]
    · intro h0; omega
  · rw [hk, hs, he]
    intro hc
    split
    · rename_i hb
      exact (h.2.2 hc).shift n hb
    · intro _ h0; omega

theorem Good.shift {S : Bytes} {t : Tree} (h : Good S t) (n : Nat) : Good (S.drop n) (offsetTree (-(n : Int)) t) := by
  obtain ⟨l, cs⟩ := t
  refine ⟨h.1.shift n (by rw [offsetTree]; rfl), ?_, ?_⟩
  · intro v hv
    have hv' : v ∈ T.nodesL (offsetTrees (-(n : Int)) cs) := by
      rw [offsetTree] at hv; exact hv
    obtain ⟨u, hu, e⟩ := nodesL_offsetTrees _ cs v hv'
    exact (h.2.1 u hu).shift n e
  · intro hk v hv hvk
    have hv' : v ∈ T.nodesL (offsetTrees (-(n : Int)) cs) := by
      rw [offsetTree] at hv; exact hv
    obtain ⟨u, hu, e⟩ := nodesL_offsetTrees _ cs v hv'
    have hk0 : l.kind = IK.infoString := by rw [offsetTree] at hk; exact hk
    have huk : u.label.kind = IK.charRef := by rw [e] at hvk; exact hvk
    obtain ⟨hA, hB, hC⟩ := h.2.2 hk0 u hu huk
    have hts : (offsetTree (-(n : Int)) (.node l cs)).label.start = l.start + -(n : Int) := by rw [offsetTree]; rfl
    have hte : (offsetTree (-(n : Int)) (.node l cs)).label.stop = if l.stop ≥ 0 then l.stop + -(n : Int) else l.stop := by
      rw [offsetTree]; rfl
    have hvs : v.label.start = u.label.start + -(n : Int) := by rw [e]; rfl
    have hve : v.label.stop = if u.label.stop ≥ 0 then u.label.stop + -(n : Int) else u.label.stop := by rw [e]; rfl
    have hA' : l.start ≤ u.label.start := hA
    have hC' : 0 ≤ u.label.stop → u.label.stop ≤ l.stop := hC
    rw [hts, hte, hvs, hve]
    refine ⟨by omega, ?_, ?_⟩
    · split <;> omega
    · split
      · intro h0
        have := hC' (by omega)
        rw [if_pos (by omega)]
        omega
      · intro h0; omega

/-! ### the creation sites -/

/-- What `infoStringLoop` appends: Text leaves, and CharacterReference leaves `[p, p+e)` behind
    `parseCharacterEscape` at positions `lo ≤ p < stop`. -/
theorem infoStringLoop_all (ext : Ext) (src : Bytes) (stop : Nat) (P : Tree → Prop) (lo : Nat)
    (hT : ∀ a b : Int, P (mkInline IK.text a b))
    (hC : ∀ (p e : Nat), lo ≤ p → p < stop → parseCharacterEscape ext ((src.take stop).drop p) = Int.ofNat e →
      P (mkInline IK.charRef (p : Int) ((p : Int) + (e : Int)))) :
    ∀ (fuel i ps : Nat) (acc : List Tree), lo ≤ i → AccP P acc →
      AccP P (LP.infoStringLoop ext src stop fuel i ps acc) := by
  intro fuel
  induction fuel with
  | zero => intro i ps acc _ h; exact h
  | succ fuel ih =>
    intro i ps acc hi h
    unfold LP.infoStringLoop
    split
    · exact AccP.ite _ h (hT _ _)
    · rename_i hlt
      simp only []
      split
      · split
        · exact ih _ _ _ (by omega) h
        · exact ih _ _ _ (by omega) ((AccP.ite _ h (hT _ _)).snoc (hT _ _))
      · split
        · split
          · rename_i e he
            split
            · exact ih _ _ _ (by omega) h
            · refine ih _ _ _ (by omega) ((AccP.ite _ h (hT _ _)).snoc ?_)
              have := hC i e hi (by omega) he
              simpa using this
          · exact ih _ _ _ (by omega) h
        · exact ih _ _ _ (by omega) h

theorem nodeGood_text (S : Bytes) (top : Bool) (a b : Int) : ∀ u ∈ T.nodes (mkInline IK.text a b), NodeGood S top u := by
  intro u hu
  rw [nodes_mkInline_leaf, List.mem_singleton] at hu
  subst hu
  exact nodeGood_plain S top _ rfl (by dsimp only; decide) (by dsimp only; decide) _

theorem nodeGood_charRef (ext : Ext) (S : Bytes) (top : Bool) (p k e : Nat)
    (h : parseCharacterEscape ext ((S.drop p).take k) = Int.ofNat e) :
    ∀ u ∈ T.nodes (mkInline IK.charRef (p : Int) ((p : Int) + (e : Int))), NodeGood S top u := by
  intro u hu
  rw [nodes_mkInline_leaf, List.mem_singleton] at hu
  subst hu
  exact ⟨fun h => absurd rfl h, (fun h => by cases h), fun _ => crok_site ext S p k e h⟩

/-- What `collectTextNodes` appends, over the inline children `is` of a paragraph that satisfy `Good S`. -/
theorem collect_nodeGood (ext : Ext) (S : Bytes) (stop : Nat) (escapes : Bool) (is : List Tree)
    (his : ∀ t ∈ is, Good S t) (fuel st ps : Nat) :
    ∀ v ∈ T.nodesL (collectTextNodes ext S stop IK.text escapes fuel (newReader is st) ps []), NodeGood S false v := by
  apply all_nodesL
  refine collectTextNodesP ext S stop IK.text escapes (fun c => ∀ u ∈ T.nodes c, NodeGood S false u)
    (fun a b => nodeGood_text S false a b) (fun p k e he => nodeGood_charRef ext S false p k e he) fuel _ _ _ ?_ AccP.nil
  intro t ht hind u hu
  have hg := his t ht
  have hk : t.label.kind = IK.indent := by
    unfold isIndent Node.isI at hind
    simp only [Bool.and_eq_true, beq_iff_eq] at hind
    exact hind.2
  rw [InlH.nodes_eq, List.mem_cons] at hu
  rcases hu with rfl | hu
  · exact nodeGood_weaken hg.1 (by rw [hk]; decide)
  · exact hg.2.1 u hu

/-- **`Good` holds wherever the block phase creates an inline node.** -/
theorem sites_good (x : PExt) : Sites x Good where
  leaf S k a b h1 h2 := good_leaf S _ (nodeGood_plain S true _ rfl h1 h2 _)
  indent S a b n := good_leaf S _ (nodeGood_plain S true _ rfl (by dsimp only; decide) (by dsimp only; decide) _)
  soft S a := good_leaf S _ ⟨fun h => absurd rfl h, fun _ _ => rfl, (fun h => by cases h)⟩
  info S start stop := by
    have key := infoStringLoop_all x.ext S stop
      (fun c => ∀ u ∈ T.nodes c, NodeGood S false u ∧
        (u.label.kind = IK.charRef → (start : Int) ≤ u.label.start ∧ u.label.start ≤ u.label.stop ∧ u.label.stop ≤ (stop : Int)))
      start
      (fun a b u hu => ⟨nodeGood_text S false a b u hu, fun hk => by
        rw [nodes_mkInline_leaf, List.mem_singleton] at hu
        subst hu
        exact absurd hk (by show IK.text ≠ IK.charRef; decide)⟩)
      (fun p e hlo hlt he u hu => by
        have he' : parseCharacterEscape x.ext ((S.drop p).take (stop - p)) = Int.ofNat e := by
          rw [← List.drop_take]; exact he
        refine ⟨nodeGood_charRef x.ext S false p (stop - p) e he' u hu, fun _ => ?_⟩
        rw [nodes_mkInline_leaf, List.mem_singleton] at hu
        subst hu
        obtain ⟨hle, _⟩ := parseCharacterEscape_shape x.ext _ e he
        rw [List.length_drop, List.length_take] at hle
        show (start : Int) ≤ (p : Int) ∧ (p : Int) ≤ (p : Int) + (e : Int) ∧ (p : Int) + (e : Int) ≤ (stop : Int)
        omega)
      (stop - start + 1) start start [] (Nat.le_refl _) AccP.nil
    refine ⟨nodeGood_plain S true _ rfl (by dsimp only; decide) (by dsimp only; decide) _, ?_, ?_⟩
    · exact all_nodesL (fun c hc u hu => (key c hc u hu).1)
    · intro _ v hv hvk
      obtain ⟨c, hc, hvc⟩ := InlH.mem_nodesL hv
      obtain ⟨h1, h2, h3⟩ := (key c hc v hvc).2 hvk
      exact ⟨h1, h2, fun _ => h3⟩
  label S is a b ref stop fuel st ps his :=
    ⟨⟨fun _ => ⟨rfl, rfl⟩, (fun h => by cases h), (fun h => by cases h)⟩,
      collect_nodeGood x.ext S stop false is his fuel st ps, infoInside_of_kind (by show IK.linkLabel ≠ IK.infoString; decide)⟩
  dest S is k a b stop fuel st ps hk his := by
    refine ⟨nodeGood_plain S true _ rfl ?_ ?_ _, collect_nodeGood x.ext S stop true is his fuel st ps,
      infoInside_of_kind ?_⟩
    · rcases hk with rfl | rfl <;> (dsimp only; decide)
    · rcases hk with rfl | rfl <;> (dsimp only; decide)
    · rcases hk with rfl | rfl
      · show IK.linkDest ≠ IK.infoString; decide
      · show IK.linkTitle ≠ IK.infoString; decide

/-! ### Non-vacuity: the predicate rejects what it should -/

-- a `ref` on a nested node, a `ref` on a Text child, a non-empty soft break, a character reference that is none
example : ¬ Good [] (mkInline IK.linkDest 0 3 [mkInlineRef IK.text 0 3 [0x61] []]) := by
  intro h
  have := (h.2.1 (mkInlineRef IK.text 0 3 [0x61] []) (by simp [mkInline, Tree.children, T.nodesL, T.nodes, mkInlineRef])).1
    (by intro h; cases h)
  cases this.1
example : ¬ Good [] (mkInlineRef IK.text 0 3 [0x61] []) := by
  intro h
  have := (h.1.1 (by intro h; cases h)).2
  revert this; decide
example : ¬ Good [0x0A] (mkInline IK.softBreak 0 1) := by
  intro h
  have := h.1.2.1 rfl (by decide)
  revert this; decide
example : ¬ Good [0x26, 0x61, 0x20] (mkInline IK.charRef 0 3) := by
  intro h
  have := (h.1.2.2 rfl (by decide) (by decide)).2
  revert this; decide
example : Good [0x26, 0x61, 0x3B] (mkInline IK.charRef 0 3) :=
  good_leaf _ _ ⟨fun h => absurd rfl h, (fun h => by cases h), fun _ _ _ => ⟨by decide, by decide +kernel⟩⟩

end CM.Proofs.PW
