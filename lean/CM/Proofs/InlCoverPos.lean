import CM.Proofs.InlSpanRunM
/-
C03, inline half — `unparsedPos` never decreases during `parseRun` (so the bounded loop of `parseBody` visits every
inline child of the container).
-/
namespace CM.Proofs.InlH
open CM CM.Model CM.Model.Inl CM.Gen
open Std.Do

set_option mvcgen.warning false

/-- `unparsedPos` is at least `r.u` -/
def UGe (r : FRp) (s : IState) : Prop := r.u ≤ s.unparsedPos

/-- close the verification conditions of a specification "`UGe r` is kept" -/
macro "uge_close" : tactic =>
  `(tactic| (
    inl_norm
    all_goals (try inl_subst)
    all_goals (try subst_vars)
    all_goals (first
      | assumption
      | exact fun h => h
      | exact False.elim
      | exact ExceptConds.entails.refl _
      | (intros; assumption)
      | trivial
      | (simp -failIfUnchanged +zetaDelta only [UGe] at *; omega)
      | (intros; simp -failIfUnchanged +zetaDelta only [UGe] at *; omega)
      | (intros; subst_vars; assumption))))

theorem addLeaf_uge (r : FRp) (kind : Nat) (a e : Int) :
    ⦃fun s => ⌜UGe r s⌝⦄ addLeaf kind a e ⦃⇓? _ s => ⌜UGe r s⌝⦄ := by
  mvcgen [addLeaf, alloc, addToRoot, nodeLen, getNode, setParent, modifyNode, -addLeaf_spec, -addLeaf_specS,
    -addToRoot_spec, -addToRoot_specS, -addLeaf_specP]
  uge_close

theorem wrap_uge (r : FRp) (kind sn : Nat) (en : Option Nat) :
    ⦃fun s => ⌜UGe r s⌝⦄ wrap kind sn en ⦃⇓? _ s => ⌜UGe r s⌝⦄ := by
  mvcgen [wrap, alloc, setParent, modifyNode, -wrap_exact', -wrap_spec, -wrap_specS]
  inl_inv (UGe r)
  uge_close

theorem processEmphasis_uge (r : FRp) (b : Nat) :
    ⦃fun s => ⌜UGe r s⌝⦄ processEmphasis b ⦃⇓? _ s => ⌜UGe r s⌝⦄ := by
  mvcgen [Inl.processEmphasis, nodeLen, getNode, modifyNode, delStack, removeNode, setParent, wrap_uge,
    -processEmphasis_spec, -processEmphasis_specS, -delStack_spec, -delStack_specS, -removeNode_spec, -removeNode_specS,
    -wrap_exact', -wrap_spec, -wrap_specS]
  inl_inv (UGe r)
  uge_close

theorem finishLink_uge (r : FRp) (kind odi : Nat) :
    ⦃fun s => ⌜UGe r s⌝⦄ finishLink kind odi ⦃⇓? _ s => ⌜UGe r s⌝⦄ := by
  mvcgen [finishLink, removeNode, delStack, setParent, modifyNode, processEmphasis_uge, -delStack_spec, -delStack_specS,
    -removeNode_spec, -removeNode_specS, -finishLink_spec, -finishLink_specS, -finishLink_specP,
    -processEmphasis_spec, -processEmphasis_specS]
  inl_inv (UGe r)
  uge_close

theorem lookForLinkOrImage_uge (r : FRp) :
    ⦃fun s => ⌜UGe r s⌝⦄ lookForLinkOrImage ⦃⇓? _ s => ⌜UGe r s⌝⦄ := by
  mvcgen [lookForLinkOrImage, delStack, -delStack_spec, -delStack_specS, -lookForLinkOrImage_spec,
    -lookForLinkOrImage_specS, -lookForLinkOrImage_specP]
  inl_inv (UGe r)
  uge_close

theorem parseInlineLink_uge (r : FRp) (c : ICtx) (start : Int) :
    ⦃fun s => ⌜UGe r s⌝⦄ parseInlineLink c start ⦃⇓? _ s => ⌜UGe r s⌝⦄ := by
  mvcgen [parseInlineLink, unparsedFrom, setUnparsedPos, -parseInlineLink_spec, -parseInlineLink_specS,
    -parseInlineLink_specP, -unparsedFrom_spec]
  uge_close

theorem parseBackslash_uge (r : FRp) (c : ICtx) (start : Int) :
    ⦃fun s => ⌜UGe r s⌝⦄ parseBackslash c start ⦃⇓? _ s => ⌜UGe r s⌝⦄ := by
  mvcgen [parseBackslash, spanEnd, isLastSpan, setIgnoreNextIndent, addLeaf_uge, -parseBackslash_spec,
    -parseBackslash_specS, -parseBackslash_specP, -addLeaf_spec, -addLeaf_specS, -addLeaf_specP]
  uge_close

theorem parseDelimiterRun_uge (r : FRp) (c : ICtx) (start : Int) :
    ⦃fun s => ⌜UGe r s⌝⦄ parseDelimiterRun c start ⦃⇓? _ s => ⌜UGe r s⌝⦄ := by
  mvcgen [parseDelimiterRun, spanEnd, alloc, addToRoot, nodeLen, getNode, setParent, modifyNode, pushStack,
    -parseDelimiterRun_spec, -parseDelimiterRun_specS, -addToRoot_spec, -addToRoot_specS, -parseDelimiterRun_specP]
  inl_inv (UGe r)
  uge_close

theorem refPart_uge (r : FRp) (c : ICtx) (start : Int) (odi : Nat) (opener : DelimE) (kind : Nat) :
    ⦃fun s => ⌜UGe r s⌝⦄ refPart c start odi opener kind ⦃⇓? _ s => ⌜UGe r s⌝⦄ := by
  mvcgen [refPart, spanEnd, getNode, modifyNode, appendFinished, alloc, delStack, setUnparsedPos, unparsedFrom,
    addLeaf_uge, wrap_uge, finishLink_uge,
    -appendFinished_spec, -appendFinished_specS, -delStack_spec, -delStack_specS, -finishLink_spec, -finishLink_specS,
    -finishLink_specP, -addLeaf_spec, -addLeaf_specS, -addLeaf_specP, -wrap_exact', -wrap_spec, -wrap_specS,
    -unparsedFrom_spec, -refPart_specP]
  uge_close

theorem parseEndBracket'_uge (r : FRp) (c : ICtx) (start : Int) :
    ⦃fun s => ⌜UGe r s⌝⦄ parseEndBracket' c start ⦃⇓? _ s => ⌜UGe r s⌝⦄ := by
  mvcgen [parseEndBracket', spanEnd, getNode, modifyNode, appendFinished, alloc, setUnparsedPos, unparsedFrom,
    addLeaf_uge, wrap_uge, finishLink_uge, lookForLinkOrImage_uge, parseInlineLink_uge, refPart_uge,
    -appendFinished_spec, -appendFinished_specS, -finishLink_spec, -finishLink_specS, -finishLink_specP,
    -addLeaf_spec, -addLeaf_specS, -addLeaf_specP, -wrap_exact', -wrap_spec, -wrap_specS, -unparsedFrom_spec,
    -lookForLinkOrImage_spec, -lookForLinkOrImage_specS, -lookForLinkOrImage_specP,
    -parseInlineLink_spec, -parseInlineLink_specS, -parseInlineLink_specP, -refPart_specP]
  uge_close

theorem parseEndBracket_uge (r : FRp) (c : ICtx) (start : Int) :
    ⦃fun s => ⌜UGe r s⌝⦄ parseEndBracket c start ⦃⇓? _ s => ⌜UGe r s⌝⦄ := by
  rw [parseEndBracket_eq]; exact parseEndBracket'_uge r c start

theorem parseCodeSpan_uge (r : FRp) (c : ICtx) (start : Int) :
    ⦃fun s => ⌜UGe r s⌝⦄ parseCodeSpan c start ⦃⇓? _ s => ⌜UGe r s⌝⦄ := by
  mvcgen [parseCodeSpan, unparsedFrom, -parseCodeSpan_spec, -unparsedFrom_spec]
  inl_inv (UGe r)
  uge_close

theorem csAddSpan_uge (r : FRp) (c : ICtx) (acc : Array CSN) (a e : Int) :
    ⦃fun s => ⌜UGe r s⌝⦄ csAddSpan c acc a e ⦃⇓? _ s => ⌜UGe r s⌝⦄ := by
  mvcgen [csAddSpan]
  uge_close

theorem stripCodeSpanSpace_uge (r : FRp) (c : ICtx) (sl : Array CSN) :
    ⦃fun s => ⌜UGe r s⌝⦄ stripCodeSpanSpace c sl ⦃⇓? _ s => ⌜UGe r s⌝⦄ := by
  mvcgen [stripCodeSpanSpace, srcSlice, srcIs, srcAt, -srcSlice_spec, -srcIs_spec, -srcAt_spec]
  inl_inv (UGe r)
  uge_close

theorem collectCodeSpan_uge (r : FRp) (c : ICtx) (cs : CodeSpan) :
    ⦃fun s => ⌜UGe r s⌝⦄ collectCodeSpan c cs ⦃⇓? _ s => ⌜UGe r s⌝⦄ := by
  mvcgen [collectCodeSpan, unparsedFrom, unparsedAt, setUnparsedPos, alloc, addToRoot, nodeLen, getNode, setParent,
    modifyNode, csAddSpan_uge, stripCodeSpanSpace_uge, -collectCodeSpan_spec, -collectCodeSpan_specS, -unparsedFrom_spec,
    -unparsedAt_spec, -addToRoot_spec, -addToRoot_specS]
  inl_inv (UGe r)
  uge_close

end CM.Proofs.InlH
