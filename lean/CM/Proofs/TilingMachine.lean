import CM.Proofs.TilingContract
/-
C01: the invariant of the in-memory stream machine and the specification of `makeRoot`, `skipBlank`, `parseLines`,
`nextBlock` and `drain` under the line-parser contract.

With `x = c ++ y` (`c` the part of the input consumed so far): `buf = padNulls y 0`, `offset = c.length`,
`lineno = 1 + lineCount c`, the parse position `i` is a `GoodCut` of the buffer, the error is `io.EOF`, the reader is
empty and nothing has panicked.
-/
namespace CM.Model
open CM CM.Gen CM.Spec

/-! ### List helpers -/

theorem take_take_of_le {α} (l : List α) {n i : Nat} (h : n ≤ i) : (l.take i).take n = l.take n := by
  rw [List.take_take]; congr 1; omega

theorem take_eq_take_append {α} (l : List α) {n i : Nat} (h : n ≤ i) :
    l.take i = l.take n ++ (l.drop n).take (i - n) := by
  have : i = n + (i - n) := by omega
  conv => lhs; rw [this, List.take_add]

theorem getLast?_append_of_ne_nil {α} (a : List α) {b : List α} (h : b ≠ []) : (a ++ b).getLast? = b.getLast? := by
  rw [List.getLast?_append]
  cases hb : b.getLast? with
  | none => simp at hb; exact absurd hb h
  | some v => simp

theorem getLast?_take_eq {α} (l : List α) {n i : Nat} (h : n < i) (hi : i ≤ l.length) :
    (l.take i).getLast? = ((l.drop n).take (i - n)).getLast? := by
  rw [take_eq_take_append l (Nat.le_of_lt h)]
  have hne : (l.drop n).take (i - n) ≠ [] := by
    intro e
    have := congrArg List.length e
    simp at this; omega
  rw [getLast?_append_of_ne_nil _ hne]

theorem head?_drop_take {α} (l : List α) {n i : Nat} (h : n < i) : ((l.take i).drop n).head? = (l.drop n).head? := by
  rw [List.drop_take, List.head?_take]
  have : i - n ≠ 0 := by omega
  simp [this]

/-- A good cut of a prefix is a good cut of the buffer, provided the end of the prefix is one. -/
theorem goodCut_of_take {b : Bytes} {n i : Nat} (hn : n ≤ i) (hg : GoodCut (b.take i) n) (hi : GoodCut b i) :
    GoodCut b n := by
  refine ⟨?_, ?_⟩
  · have := hg.1
    simp only [aligned_iff, take_take_of_le b hn] at this ⊢
    exact this
  · rcases Nat.lt_or_ge n i with hlt | hge
    · have := hg.2
      rw [take_take_of_le b hn] at this
      intro ⟨h1, h2⟩
      apply this
      exact ⟨h1, by rw [head?_drop_take b hlt]; exact h2⟩
    · have : n = i := by omega
      subst this; exact hi.2

theorem goodCut_drop {b : Bytes} {n i : Nat} (hn : n ≤ i) (hi' : i ≤ b.length) (hgn : GoodCut b n) (hgi : GoodCut b i) :
    GoodCut (b.drop n) (i - n) := by
  refine ⟨aligned_sub hgn.1 hgi.1 hn, ?_⟩
  rcases Nat.lt_or_ge n i with hlt | hge
  · intro ⟨h1, h2⟩
    apply hgi.2
    refine ⟨by rw [getLast?_take_eq b hlt hi']; exact h1, ?_⟩
    rw [List.drop_drop] at h2
    have : n + (i - n) = i := by omega
    rw [this] at h2; exact h2
  · have : i - n = 0 := by omega
    rw [this]; simp [CRLFSplit]

theorem goodCut_zero (b : Bytes) : GoodCut b 0 := ⟨aligned_zero b, by simp [CRLFSplit]⟩

/-- The end of the line that starts at an aligned position is a good cut. -/
theorem goodCut_line {y : Bytes} {i : Nat} :
    GoodCut (padNulls y 0) (i + lineLen ((padNulls y 0).drop i)) := by
  generalize hb : padNulls y 0 = b
  generalize hl : b.drop i = l
  have hd : b.drop (i + lineLen l) = l.drop (lineLen l) := by rw [← hl, List.drop_drop]
  by_cases hm : lineLen l = 0
  · have : l = [] := by
      cases l with
      | nil => rfl
      | cons c r => exact absurd hm (Nat.ne_of_gt (lineLen_pos (by simp)))
    have hlen : b.length ≤ i := by
      rw [this] at hl
      have := congrArg List.length hl
      simp at this; omega
    refine ⟨?_, ?_⟩
    · rw [aligned_iff, List.take_of_length_le (by omega), ← hb, nullCount_padNulls]; omega
    · rw [hd, this]; simp [CRLFSplit]
  · have hlast : (b.take (i + lineLen l)).getLast? = (l.take (lineLen l)).getLast? := by
      rw [List.take_add, hl]
      apply getLast?_append_of_ne_nil
      intro e
      have := congrArg List.length e
      have h1 := lineLen_le l
      rw [List.length_take, List.length_nil] at this; omega
    refine ⟨?_, ?_⟩
    · rcases line_end l with h | h | h
      · have hlen : b.length ≤ i + lineLen l := by
          have := congrArg List.length h
          rw [← hd] at this; simp at this; omega
        rw [aligned_iff, List.take_of_length_le hlen, ← hb, nullCount_padNulls]; omega
      · rw [← hb]; apply aligned_of_getLast_ne_zero
        intro c hc; rw [hb, hlast, h] at hc
        simp at hc; subst hc; decide
      · rw [← hb]; apply aligned_of_getLast_ne_zero
        intro c hc; rw [hb, hlast, h] at hc
        simp at hc; subst hc; decide
    · rw [hd]
      intro ⟨h1, h2⟩
      exact not_crlfSplit_line l ⟨by rw [← hlast]; exact h1, h2⟩

/-! ### The machine invariant -/

structure MInv (x : Bytes) (p : BP) (c y : Bytes) : Prop where
  split : x = c ++ y
  buf : p.buf = padNulls y 0
  offset : p.offset = c.length
  lineno : y ≠ [] → p.lineno = 1 + lineCount c
  nosplit : ¬ CRLFSplit (padNulls c 0) (padNulls y 0)
  i_le : p.i ≤ p.buf.length
  cut_i : GoodCut p.buf p.i
  err : p.err = some .eof
  rd_data : p.rd.data = []
  rd_sched : p.rd.sched = []
  panic : p.panic = none

/-- The initial state of `Parse`. -/
theorem MInv.init (x : Bytes) : MInv x (memParser x) [] x where
  split := rfl
  buf := rfl
  offset := rfl
  lineno := fun _ => rfl
  nosplit := by simp [CRLFSplit]
  i_le := Nat.zero_le _
  cut_i := goodCut_zero _
  err := rfl
  rd_data := rfl
  rd_sched := rfl
  panic := rfl

theorem padNulls_eq_nil {y : Bytes} (h : padNulls y 0 = []) : y = [] := by
  have := length_le_length_padNulls y
  rw [h] at this
  exact List.eq_nil_of_length_eq_zero (by simpa using this)

/-- What a good cut of the buffer means for the input. -/
theorem MInv.cut_facts {x p c y} (h : MInv x p c y) {n : Nat} (hg : GoodCut p.buf n) :
    ∃ y₁ y₂, y = y₁ ++ y₂ ∧ p.buf.take n = padNulls y₁ 0 ∧ p.buf.drop n = padNulls y₂ 0
      ∧ unpaddedNullLength (p.buf.take n) = y₁.length
      ∧ fillNulls (p.buf.take n) = replNul y₁
      ∧ lineCount (c ++ y₁) = lineCount c + lineCount (p.buf.take n)
      ∧ ¬ CRLFSplit (padNulls (c ++ y₁) 0) (padNulls y₂ 0) := by
  have hg' := hg
  rw [h.buf] at hg'
  obtain ⟨y₁, y₂, e, h1, h2⟩ := padNulls_split y n hg'.1
  rw [← h.buf] at h1 h2
  refine ⟨y₁, y₂, e, h1, h2, ?_, ?_, ?_, ?_⟩
  · rw [h1, unpaddedNullLength_padNulls]
  · rw [h1, fillNulls_padNulls]
  · rw [← lineCount_padNulls (c ++ y₁), padNulls_append, lineCount_append, lineCount_padNulls, h1]
    intro ⟨ha, hb⟩
    apply h.nosplit
    refine ⟨ha, ?_⟩
    rw [e, padNulls_append]
    cases hp : padNulls y₁ 0 with
    | nil => rw [hp] at hb; simp at hb
    | cons d r => rw [hp] at hb; simpa using hb
  · rw [padNulls_append]
    by_cases hp : padNulls y₁ 0 = []
    · have : y₁ = [] := padNulls_eq_nil hp
      subst this
      simp only [List.nil_append] at e
      subst e
      simpa using h.nosplit
    · intro ⟨ha, hb⟩
      apply hg.2
      rw [h1, h2]
      exact ⟨by rw [← ha, getLast?_append_of_ne_nil _ hp], hb⟩

/-- Dropping a good prefix of the buffer, with the bookkeeping `makeRoot` and the blank-line loop do. -/
theorem MInv.advance {x p c y} (h : MInv x p c y) {n : Nat} (hn : n ≤ p.i) (hg : GoodCut p.buf n) (p' : BP)
    (hbuf : p'.buf = p.buf.drop n)
    (hoff : p'.offset = p.offset + unpaddedNullLength (p.buf.take n))
    (hline : p.buf.drop n ≠ [] → p'.lineno = p.lineno + lineCount (p.buf.take n))
    (hi : p'.i = p.i - n) (herr : p'.err = p.err) (hrd : p'.rd = p.rd) (hpanic : p'.panic = none) :
    ∃ y₁ y₂, y = y₁ ++ y₂ ∧ p.buf.take n = padNulls y₁ 0 ∧ fillNulls (p.buf.take n) = replNul y₁ ∧
      MInv x p' (c ++ y₁) y₂ := by
  obtain ⟨y₁, y₂, e, h1, h2, h3, h4, h5, h6⟩ := h.cut_facts hg
  refine ⟨y₁, y₂, e, h1, h4, ?_⟩
  have hil := h.i_le
  exact {
    split := by rw [h.split, e]; simp
    buf := by rw [hbuf, h2]
    offset := by rw [hoff, h3, h.offset]; simp
    lineno := by
      intro hy2
      have hy : y ≠ [] := by rw [e]; simp [hy2]
      have hd : p.buf.drop n ≠ [] := by
        rw [h2]; intro e'; exact hy2 (padNulls_eq_nil e')
      rw [hline hd, h.lineno hy, h5]; omega
    nosplit := h6
    i_le := by rw [hi, hbuf]; simp; omega
    cut_i := by rw [hi, hbuf]; exact goodCut_drop hn hil hg h.cut_i
    err := by rw [herr, h.err]
    rd_data := by rw [hrd, h.rd_data]
    rd_sched := by rw [hrd, h.rd_sched]
    panic := hpanic }

/-- Moving the parse position to the end of the next line. -/
theorem MInv.readline {x p c y} (h : MInv x p c y) :
    MInv x { p with i := p.i + lineLen (p.buf.drop p.i) } c y :=
  { h with
    i_le := by
      have := lineLen_le (p.buf.drop p.i)
      have := h.i_le
      simp at *; omega
    cut_i := by
      show GoodCut p.buf (p.i + lineLen (p.buf.drop p.i))
      rw [h.buf]; exact goodCut_line }

theorem MInv.readline_eq {x p c y} (h : MInv x p c y) :
    Model.readline (p.rd.data.length + p.rd.sched.length + 2) p =
      (decide (0 < lineLen (p.buf.drop p.i)), { p with i := p.i + lineLen (p.buf.drop p.i) }) := by
  rw [h.rd_data, h.rd_sched]
  exact readline_mem 1 p (by rw [h.err]; rfl) h.i_le

/-- The line `readline` delivers is a line of a padded buffer, or empty at the end of the input. -/
theorem MInv.line_facts {x p c y} (h : MInv x p c y) :
    let ln := (p.buf.drop p.i).take (lineLen (p.buf.drop p.i))
    Padded ln ∧ (ln = [] ∨ IsLine ln) ∧ ¬ CRLFSplit (p.buf.take p.i) ln ∧
      p.buf.take (p.i + lineLen (p.buf.drop p.i)) = p.buf.take p.i ++ ln ∧
      (ln = [] ↔ p.i = p.buf.length) := by
  intro ln
  have hil := h.i_le
  refine ⟨?_, ?_, ?_, ?_, ?_⟩
  · obtain ⟨y₁, y₂, e, h1, h2, -⟩ := h.cut_facts h.cut_i
    have hg : GoodCut (padNulls y₂ 0) (lineLen ((padNulls y₂ 0).drop 0)) := by
      have := @goodCut_line y₂ 0
      simpa using this
    simp only [List.drop_zero] at hg
    obtain ⟨z₁, z₂, e', h1', h2'⟩ := padNulls_split y₂ _ hg.1
    exact ⟨z₁, by show (p.buf.drop p.i).take _ = _; rw [h2]; exact h1'⟩
  · by_cases hne : p.buf.drop p.i = []
    · left; show (p.buf.drop p.i).take _ = []; rw [hne]; rfl
    · right; exact isLine_take hne
  · intro ⟨h1, h2⟩
    apply h.cut_i.2
    refine ⟨h1, ?_⟩
    cases hd : p.buf.drop p.i with
    | nil => simp [ln, hd] at h2
    | cons d r =>
      have : 0 < lineLen (d :: r) := lineLen_pos (by simp)
      simp only [ln, hd] at h2
      rw [List.head?_take] at h2
      simp [Nat.ne_of_gt this] at h2
      simp [h2]
  · rw [List.take_add]
  · constructor
    · intro e
      by_cases hne : p.buf.drop p.i = []
      · have := congrArg List.length hne
        simp at this; omega
      · exact absurd e (isLine_take hne).1
    · intro e
      show (p.buf.drop p.i).take _ = []
      rw [e]; simp

/-! ### `makeRoot` -/

/-- The root delivered for the input range `y₁` that follows the consumed part `c`. -/
structure RootAt (c y₁ : Bytes) (r : Root) : Prop where
  source : r.source = replNul y₁
  startLine : r.startLine = 1 + lineCount c
  startOffset : r.startOffset = c.length
  endOffset : r.endOffset = c.length + y₁.length

theorem makeRoot_none_of_open (p : BP) {k : PB} {rest : List PB} (hk : k.isOpen = true) :
    makeRoot p (k :: rest) = none := by
  simp [makeRoot, hk]

theorem makeRoot_spec {x p c y} (h : MInv x p c y) (k : PB) (rest : List PB) (hk : k.isOpen = false)
    (hn0 : 0 < stopOf k) (hn : stopOf k ≤ p.i) (hg : GoodCut (p.buf.take p.i) (stopOf k)) :
    ∃ y₁ y₂ r p', makeRoot p (k :: rest) = some (r, p') ∧ y = y₁ ++ y₂ ∧ y₁ ≠ [] ∧ MInv x p' (c ++ y₁) y₂ ∧
      p'.blocks = offsetPBs (-(stopOf k : Int)) rest ∧
      p'.buf.take p'.i = (p.buf.take p.i).drop (stopOf k) ∧ RootAt c y₁ r := by
  have hgb : GoodCut p.buf (stopOf k) := goodCut_of_take hn hg h.cut_i
  have hil := h.i_le
  let n := stopOf k
  let p' : BP := { p with
      blocks := offsetPBs (-(n : Int)) rest
      offset := p.offset + unpaddedNullLength (p.buf.take n)
      lineno := p.lineno + lineCount (p.buf.take n)
      buf := p.buf.drop n
      i := p.i - n
      panic := if n > p.i || n > p.buf.length then p.panic <|> some "makeRoot: block ends beyond the parse position" else p.panic }
  let r : Root := { source := fillNulls (p.buf.take n), startLine := p.lineno, startOffset := p.offset,
                    endOffset := p.offset + unpaddedNullLength (p.buf.take n), block := k }
  have hpanic : p'.panic = none := by
    have : ¬ (n > p.i) := by show ¬ (stopOf k > p.i); omega
    have : ¬ (n > p.buf.length) := by show ¬ (stopOf k > p.buf.length); omega
    simp [p', *, h.panic]
  obtain ⟨y₁, y₂, e, h1, h4, hM⟩ := h.advance hn hgb p' rfl rfl (fun _ => rfl) rfl rfl rfl hpanic
  have hy1 : y₁ ≠ [] := by
    intro e1; subst e1
    have := congrArg List.length h1
    rw [List.length_take, padNulls_nil, List.length_nil] at this
    omega
  refine ⟨y₁, y₂, r, p', ?_, e, hy1, hM, rfl, ?_, ?_⟩
  · simp only [makeRoot, hk]
    rfl
  · show (p.buf.drop n).take (p.i - n) = _
    rw [List.drop_take]
  · have hy : y ≠ [] := by rw [e]; simp [hy1]
    exact {
      source := h4
      startLine := h.lineno hy
      startOffset := h.offset
      endOffset := by
        show p.offset + unpaddedNullLength (p.buf.take n) = _
        rw [h1, unpaddedNullLength_padNulls, h.offset] }

end CM.Model
