import CM.Proofs.EolRd13
/-
C14 (a), the paragraph hook under the position map — part 14: the `go` step of `collectTextNodes` and steps inside a node.
-/
namespace CM.Proofs.ERd
open CM CM.Model CM.Gen CM.Proofs CM.Proofs.RDS CM.Proofs.BSp

section
variable {e X : Bytes} {k : Nat} {is : List Tree} {r : Rd}

/-- The induction hypothesis of the `collectTextNodes` simulation at original fuel `f`. -/
def CollIH (e X : Bytes) (k : Nat) (is : List Tree) (ext : Ext) (stop tk : Nat) (esc : Bool) (f : Nat) : Prop :=
  ∀ (g : Nat) (r : Rd) (ps : Nat) (acc : List Tree), RJ (X.take k) is r → mu (X.take k) r < f →
    mu (toEol e (X.take k)) (mapRd e X r) < g →
    collectTextNodes ext (toEol e (X.take k)) (eolPos e X stop) tk esc g (mapRd e X r) (eolPos e X ps)
        (mapTrees (eolPosZ e X) acc) =
      mapTrees (eolPosZ e X) (collectTextNodes ext (X.take k) stop tk esc f r ps acc)

theorem isIndent_of_unparsed' {t : Tree} (h : isUnparsed t = true) : isIndent t = false := by
  unfold isUnparsed isIndent Node.isI at *
  simp only [Bool.and_eq_true, Bool.not_eq_true', beq_iff_eq] at h
  simp only [h.1, h.2, Bool.not_false, Bool.true_and]
  decide

/-- The tail of `go` after the step to `q1`. -/
theorem go_tail (ext : Ext) (stop tk : Nat) (esc : Bool) (f g : Nat)
    (ih : CollIH e X k is ext stop tk esc f) (q1 : Rd) (hq : RJ (X.take k) is q1) (hm : mu (X.take k) q1 < f)
    (hm' : mu (toEol e (X.take k)) (mapRd e X q1) < g) (ps : Nat) (acc : List Tree) :
    (if (mapRd e X q1).jumped = true then
        collectTextNodes ext (toEol e (X.take k)) (eolPos e X stop) tk esc g (mapRd e X q1) (mapRd e X q1).pos
          (if (mapRd e X q1).prev ≥ ((eolPos e X ps : Nat) : Int) then
            mapTrees (eolPosZ e X) acc ++ [mkInline tk ((eolPos e X ps : Nat) : Int) ((mapRd e X q1).prev + 1)]
           else mapTrees (eolPosZ e X) acc)
      else collectTextNodes ext (toEol e (X.take k)) (eolPos e X stop) tk esc g (mapRd e X q1) (eolPos e X ps)
        (mapTrees (eolPosZ e X) acc)) =
    mapTrees (eolPosZ e X)
      (if q1.jumped = true then
        collectTextNodes ext (X.take k) stop tk esc f q1 q1.pos
          (if q1.prev ≥ (ps : Int) then acc ++ [mkInline tk (ps : Int) (q1.prev + 1)] else acc)
      else collectTextNodes ext (X.take k) stop tk esc f q1 ps acc) := by
  rw [jumped_map hq.2.2]
  by_cases hj : q1.jumped = true
  · rw [if_pos hj, if_pos hj]
    have hacc : (if (mapRd e X q1).prev ≥ ((eolPos e X ps : Nat) : Int) then
        mapTrees (eolPosZ e X) acc ++ [mkInline tk ((eolPos e X ps : Nat) : Int) ((mapRd e X q1).prev + 1)]
        else mapTrees (eolPosZ e X) acc) =
        mapTrees (eolPosZ e X) (if q1.prev ≥ (ps : Int) then acc ++ [mkInline tk (ps : Int) (q1.prev + 1)] else acc) := by
      by_cases hp : q1.prev ≥ (ps : Int)
      · rw [if_pos hp, if_pos ((prev_ge_map hq.2.2 ps).2 hp), mapTrees_append, mapTrees_singleton, mapTree_mkInline,
          eolPosZ_ofNat]
        have : (mapRd e X q1).prev + 1 = eolPosZ e X (q1.prev + 1) := mapPrev_succ e X hq.2.2
        rw [this]
      · rw [if_neg hp, if_neg (fun hh => hp ((prev_ge_map hq.2.2 ps).1 hh))]
    rw [hacc]
    exact ih g q1 q1.pos _ hq hm hm'
  · rw [if_neg hj, if_neg hj]
    exact ih g q1 ps acc hq hm hm'

/-- **The `go` step.** -/
theorem goF_sim (he : StdEol e) (hcr : NoCR X) (hc : Ctx (X.take k) is) (htab : TabsOK (X.take k) is)
    (ext : Ext) (stop tk : Nat) (esc : Bool) (f g : Nat) (ih : CollIH e X k is ext stop tk esc f)
    (q : Rd) (hq : RJ (X.take k) is q) (hm : mu (X.take k) q ≤ f) (hm' : mu (toEol e (X.take k)) (mapRd e X q) ≤ g)
    (ps : Nat) (acc : List Tree) :
    goF ext (toEol e (X.take k)) (eolPos e X stop) tk esc g (mapRd e X q) (eolPos e X ps) (mapTrees (eolPosZ e X) acc) =
      mapTrees (eolPosZ e X) (goF ext (X.take k) stop tk esc f q ps acc) := by
  have hc' := ctx_map (e := e) he hcr hc htab
  unfold goF
  have hcond : ((mapRd e X q).pos ≥ eolPos e X stop) ↔ (q.pos ≥ stop) := by
    show eolPos e X q.pos ≥ _ ↔ _
    exact eolPos_le_iff e X
  by_cases h0 : q.pos ≥ stop
  · rw [if_pos h0, if_pos (hcond.2 h0)]
    exact finish_map stop tk ps acc
  · rw [if_neg h0, if_neg (fun hh => h0 (hcond.1 hh))]
    obtain ⟨j1, m1, st⟩ := step_full he hcr hc htab hq
    rcases hn : q.next (X.take k) with ⟨ok, q1⟩
    rw [hn] at j1 m1 st
    simp only [] at j1 m1 st ⊢
    rcases st with ⟨s, ms⟩ | ⟨_, he2, s3, s4, s5, s6, ms1, ms2, hat⟩
    · rw [s]
      simp only []
      cases ok with
      | false =>
        simp only [Bool.not_false, if_true]
        exact finish_map stop tk ps acc
      | true =>
        simp only [Bool.not_true, Bool.false_eq_true, if_false]
        have := m1 rfl
        have := ms rfl
        exact go_tail ext stop tk esc f g ih q1 j1 (by omega) (by omega) ps acc
    · rw [s3]
      simp only [Bool.not_true, Bool.false_eq_true, if_false]
      -- the mapped reader sits on the LF of a CR LF pair: not jumped, still before `stop`, in the same text node
      obtain ⟨t, rest, hs, hi, hb⟩ := hat
      have hmidj : (mid e X q).jumped = false := by
        unfold Rd.jumped mid
        simp only [Bool.and_eq_false_imp, decide_eq_true_eq, decide_eq_false_iff_not]
        intro _; omega
      rw [hmidj]
      simp only [Bool.false_eq_true, if_false]
      obtain ⟨g2, rfl⟩ : ∃ g2, g = g2 + 1 := ⟨g - 1, by omega⟩
      have hmids : (mid e X q).spans = mapTree (eolPosZ e X) t :: mapTrees (eolPosZ e X) rest := mapRd_spans hs
      have hlt : (mid e X q).pos < eolPos e X stop := by
        show eolPos e X q.pos + 1 < _
        have hp := RI.pos_lt hc hq.1 hs
        have h1 : eolPos e X (q.pos + 1) ≤ eolPos e X stop := eolPos_mono e X (by omega)
        have h2 := eolPos_succ_lf (e := e) he hp hb
        have h3 : e.length = 2 := by rw [he2]; rfl
        omega
      rw [collectTextNodes]
      have hd : (!decide ((mid e X q).pos < eolPos e X stop)) = false := by simp [hlt]
      rw [hd]
      simp only [Bool.false_eq_true, if_false]
      rw [currentNode_eq hc' s4, hmids]
      simp only [List.head?_cons]
      rw [if_neg (by rw [isIndent_map, hi]; simp), collectStep_eq, s5]
      simp only [show (LF == (92 : UInt8)) = false by decide, show (LF == (38 : UInt8)) = false by decide,
        Bool.false_eq_true, if_false, ite_self]
      unfold goF
      rw [if_neg (Nat.not_le.2 hlt), s6]
      simp only []
      cases ok with
      | false =>
        simp only [Bool.not_false, if_true]
        exact finish_map stop tk ps acc
      | true =>
        simp only [Bool.not_true, Bool.false_eq_true, if_false]
        have := m1 rfl
        have := ms2 rfl
        exact go_tail ext stop tk esc f g2 ih q1 j1 (by omega) (by omega) ps acc

end

end CM.Proofs.ERd
