import CM.Proofs.InlShapeCode
import CM.Proofs.InlShapeEm
import CM.Proofs.InlShapeTag
/-
C13, inline half — code spans: from what `parseCodeSpan` returns to the clause `Spec.shapeAt` (a code span starts and
ends with backtick runs of the same length `n ≥ 1`, and is at least `2n` bytes long), for every CodeSpan node of the
new inline children of a container (`parseInlines_shape_codeSpan`), under `CSHyp` (the inline children are in order,
disjoint, non-empty and inside the source; Indent nodes cover white space; no child but the last ends in a backtick
and no child but the first is preceded by one).
-/
namespace CM.Proofs.InlH
open CM CM.Model CM.Model.Inl CM.Spec

theorem takeWhile_length_eq {α} (p : α → Bool) : ∀ (n : Nat) (l : List α),
    (∀ i, i < n → ∃ h : i < l.length, p l[i] = true) → (∃ h : n < l.length, p l[n] = false) →
    (l.takeWhile p).length = n := by
  intro n
  induction n with
  | zero =>
    intro l _ h2
    obtain ⟨h, hp⟩ := h2
    match l, h, hp with
    | a :: r, _, hp =>
      simp only [List.getElem_cons_zero] at hp
      rw [List.takeWhile_cons_of_neg (by rw [hp]; exact Bool.false_ne_true)]
      rfl
  | succ n ih =>
    intro l h1 h2
    obtain ⟨h, hp⟩ := h2
    match l, h, hp, h1 with
    | a :: r, h, hp, h1 =>
      obtain ⟨_, h0⟩ := h1 0 (by omega)
      simp only [List.getElem_cons_zero] at h0
      rw [List.takeWhile_cons_of_pos h0, List.length_cons]
      congr 1
      refine ih r (fun i hi => ?_) ⟨by simp only [List.length_cons] at h; omega, by simpa using hp⟩
      obtain ⟨hh, hv⟩ := h1 (i + 1) (by omega)
      exact ⟨by simp only [List.length_cons] at hh; omega, by simpa using hv⟩

/-- the clause, from the result of `parseCodeSpan` -/
theorem codeSpan_of_res (src : Bytes) (start : Int) (cs : CodeSpan) (h0 : 0 ≤ start) (h : CSRes src start cs)
    (hv : cs.span.isValid = true) : codeSpanShape (sliceI src cs.span.start cs.span.stop) = true := by
  obtain ⟨hst, n, pE, hn, hr1, hnt, hstop, hlt, hr2, hpre⟩ := h hv
  obtain ⟨a, rfl⟩ := Int.eq_ofNat_of_zero_le h0
  simp only [Int.toNat_natCast] at hr1 hnt hlt
  rw [hst, hstop, sliceI_of_nat src a (pE + n) (by omega)]
  -- the closing run lies inside the source
  have hend : pE + n ≤ src.length := by
    have := hr2 (n - 1) (by omega)
    obtain ⟨hh, _⟩ := List.getElem?_eq_some_iff.1 this
    omega
  have hlen := slice_length src a (pE + n) (by omega) hend
  have hget : ∀ i, a + i < pE + n → ((src.drop a).take (pE + n - a))[i]? = src[a + i]? := by
    intro i hi
    rw [slice_getElem src a (pE + n) i hend hi, List.getElem?_eq_getElem (by omega)]
  have hgetE : ∀ i (hi : i < ((src.drop a).take (pE + n - a)).length), a + i < pE + n →
      some (((src.drop a).take (pE + n - a))[i]) = src[a + i]? := by
    intro i hi hlt'
    rw [← hget i hlt', List.getElem?_eq_getElem hi]
  unfold codeSpanShape backtickRun
  -- the opening run
  have e1 : (((src.drop a).take (pE + n - a)).takeWhile (· == 0x60)).length = n := by
    refine takeWhile_length_eq _ n _ (fun i hi => ⟨by rw [hlen]; omega, ?_⟩) ⟨by rw [hlen]; omega, ?_⟩
    · have := hgetE i (by rw [hlen]; omega) (by omega)
      rw [hr1 i hi] at this
      simp only [Option.some.injEq] at this
      rw [this]; rfl
    · have := hgetE n (by rw [hlen]; omega) (by omega)
      cases hb : (((src.drop a).take (pE + n - a))[n]'(by rw [hlen]; omega) == 0x60) with
      | false => rfl
      | true =>
        exfalso
        simp only [beq_iff_eq] at hb
        rw [hb] at this
        exact hnt this.symm
  -- the closing run
  have e2 : (((src.drop a).take (pE + n - a)).reverse.takeWhile (· == 0x60)).length = n := by
    have hrl : ((src.drop a).take (pE + n - a)).reverse.length = pE + n - a := by rw [List.length_reverse, hlen]
    refine takeWhile_length_eq _ n _ (fun i hi => ⟨by rw [hrl]; omega, ?_⟩) ⟨by rw [hrl]; omega, ?_⟩
    · rw [List.getElem_reverse]
      have hidx : a + (((src.drop a).take (pE + n - a)).length - 1 - i) = pE + (n - 1 - i) := by rw [hlen]; omega
      have := hgetE (((src.drop a).take (pE + n - a)).length - 1 - i) (by rw [hlen]; omega) (by rw [hlen]; omega)
      rw [hidx, hr2 (n - 1 - i) (by omega)] at this
      simp only [Option.some.injEq] at this
      rw [this]; rfl
    · rw [List.getElem_reverse]
      have hidx : a + (((src.drop a).take (pE + n - a)).length - 1 - n) = pE - 1 := by rw [hlen]; omega
      have := hgetE (((src.drop a).take (pE + n - a)).length - 1 - n) (by rw [hlen]; omega) (by rw [hlen]; omega)
      rw [hidx] at this
      cases hb : (((src.drop a).take (pE + n - a))[((src.drop a).take (pE + n - a)).length - 1 - n]'(by rw [hlen]; omega)
          == 0x60) with
      | false => rfl
      | true =>
        exfalso
        simp only [beq_iff_eq] at hb
        rw [hb] at this
        exact hpre (pE - 1) (by omega) this.symm
  rw [e1, e2, hlen]
  simp only [Bool.and_eq_true, decide_eq_true_eq, beq_iff_eq, and_true]
  exact ⟨hn, by omega⟩

/-- The arena invariant for code spans. -/
def φK' (src : Bytes) (m : INode) : Prop := m.kind = IK.codeSpan → shapeI src IK.codeSpan m.start m.stop = true

theorem φK'.other {src : Bytes} {m : INode} (h : m.kind ≠ IK.codeSpan) : φK' src m := fun h' => absurd h' h

theorem siteInv_K' (x : IExt) (src : Bytes) (matchRef : Bytes → Bool) (unparsed : List Tree)
    (hin : InShape src unparsed) (H : CSHyp unparsed src src.length) :
    SiteInv (inlCtx x src src.toArray matchRef unparsed) (φK' src) where
  text a b := φK'.other (by dsimp only; decide)
  hardBreakBS s start _ _ _ _ _ _ := φK'.other (by dsimp only; decide)
  hardBreakSP s pos _ _ _ _ _ := φK'.other (by dsimp only; decide)
  charRef pos se e _ _ _ _ _ := φK'.other (by dsimp only; decide)
  softBreak1 pos _ _ _ := φK'.other (by dsimp only; decide)
  softBreak2 pos _ _ _ _ := φK'.other (by dsimp only; decide)
  wrapped k a b hk := φK'.other (by rcases hk with rfl | rfl | rfl | rfl <;> (dsimp only; decide))
  imported t ht hb _ hk := by
    intro hkind
    have hu : isUnparsed t = false := by
      unfold isUnparsed Node.isI
      simp [hk]
    have := hin t (by simpa [inlCtx] using ht) hb hu t (self_mem_nodes t) hb
    rw [shapeAt_inline src t hb] at this
    have hk' : t.label.kind = IK.codeSpan := hkind
    rw [hk'] at this
    exact this
  codeSpan cs ks _ hat hv := by
    intro _
    obtain ⟨start, ⟨s0, hrun⟩, h0, h1, hb⟩ := hat
    have h1' : start.toNat < src.length := by
      have : start < (src.length : Int) := by simpa [inlCtx] using h1
      omega
    have hstart : src[start.toNat]? = some 0x60 := by
      obtain ⟨_, hh⟩ := toArray_get!_ne src start.toNat 0x60 (by decide) (by simpa [inlCtx] using hb)
      rw [List.getElem?_eq_getElem h1', hh]
    have hres : CSRes src start cs :=
      triple_run (parseCodeSpan_good (inlCtx x src src.toArray matchRef unparsed) start src.length h0 (by omega) hstart H)
        trivial hrun
    rw [shapeI_codeSpan]
    exact codeSpan_of_res src start cs h0 hres hv
  autolink pos se e _ _ _ _ _ := φK'.other (by dsimp only; decide)
  htmlTag k pos _ _ _ _ := φK'.other (by dsimp only; decide)
  linkDest a b stop fuel k p ps := φK'.other (by dsimp only; decide)
  linkDestEmpty a b := φK'.other (by dsimp only; decide)
  linkTitle a b stop fuel k p ps := φK'.other (by dsimp only; decide)
  linkTitleEmpty a b := φK'.other (by dsimp only; decide)
  linkLabel a b stop fuel k p ps ref _ := φK'.other (by dsimp only; decide)
  modKids n ks h := h
  modSpan n a b h hk := φK'.other (by show n.kind ≠ _; intro h'; rw [h'] at hk; exact absurd hk (by decide))
  modLink n a b r h hk _ := φK'.other (by show n.kind ≠ _; rcases hk with h' | h' <;> (rw [h']; decide))

/-- C13 (inline half, code spans) for one container: every CodeSpan node of the new inline children starts and ends
    with backtick runs of the same length `n ≥ 1` and is at least `2n` bytes long. -/
theorem parseInlines_shape_codeSpan (x : IExt) (src : Bytes) (matchRef : Bytes → Bool) (cstart cstop : Int)
    (unparsed kids : List Tree) (hin : InShape src unparsed) (H : CSHyp unparsed src src.length)
    (h : parseInlines x src src.toArray matchRef cstart cstop unparsed = .ok kids) :
    ∀ t ∈ T.nodesL kids, t.label.isBlock = false → t.label.kind = IK.codeSpan → shapeAt src t = true := by
  intro t ht htb hk
  obtain ⟨m, hm, hl | hs⟩ := parseInlines_nodes_site x src src.toArray matchRef cstart cstop unparsed
    (fun m => SubOK src m ∧ φK' src m)
    ((siteInv_Sub x src matchRef unparsed hin).and (siteInv_K' x src matchRef unparsed hin H))
    ⟨noSubS, φK'.other (by dsimp only; decide)⟩ kids h t ht
  · rw [shapeAt_inline src t htb, hk]
    rw [hl] at hk
    rw [hl]
    exact hm.2 hk
  · exact hm.1 t hs htb

end CM.Proofs.InlH
