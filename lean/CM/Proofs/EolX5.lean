import CM.Proofs.EolX4
import CM.Proofs.RefDefSpansStream
/-
C14 (a), discharging the `kidsOrd` and "tabs" checks — part 5: the pending blocks after `makeRoot` satisfy `XT`, and the
children of a tree with valid spans and `XT` are ordered (`kidsOrd`).
-/
namespace CM.Proofs.EolX
open CM CM.Model CM.Gen CM.Proofs CM.Proofs.RDS CM.Proofs.BSp CM.Proofs.ERd CM.Proofs.BG

theorem pbsInl_of_xt {S : Bytes} {bs : List PB} (h : ∀ b ∈ bs, XT S b) : pbsInl bs = true :=
  (pbsInl_iff bs).2 (fun b hb => (h b hb).pbInl)

theorem kidsOrd_of_xt {S : Bytes} {bs : List PB} {po : Bool} {lo hi : Int} (hs : PBSpansL QT po lo hi bs)
    (h : ∀ b ∈ bs, XT S b) : kidsOrd bs = true :=
  kidsOrd_of_spansL bs po lo hi hs (pbsInl_of_xt h)

/-- The pending blocks after `makeRoot`. -/
theorem makeRoot_xt (p : BP) (kids : List PB) (hord : kidsOrd kids = true) (hx : ∀ b ∈ kids, XT (p.buf.take p.i) b)
    (r : Root) (p' : BP) (hm : makeRoot p kids = some (r, p')) : ∀ b ∈ p'.blocks, XT (p'.buf.take p'.i) b := by
  cases kids with
  | nil => simp [makeRoot] at hm
  | cons k rest =>
    simp only [makeRoot] at hm
    split at hm
    · cases hm
    · rename_i hko
      have hko' : k.isOpen = false := by simpa using hko
      have hkc : 0 ≤ k.label.stop := by rw [← isOpen_false_iff]; exact hko'
      simp only [Option.some.injEq, Prod.mk.injEq] at hm
      obtain ⟨_, rfl⟩ := hm
      rw [kidsOrd] at hord
      simp only [hko', Bool.false_or, Bool.and_eq_true] at hord
      have hn : ((k.label.stop.toNat : Nat) : Int) = k.label.stop := Int.toNat_of_nonneg hkc
      show ∀ b ∈ offsetPBs (-(k.label.stop.toNat : Int)) rest,
        XT ((p.buf.drop k.label.stop.toNat).take (p.i - k.label.stop.toNat)) b
      have e1 : (p.buf.drop k.label.stop.toNat).take (p.i - k.label.stop.toNat) = (p.buf.take p.i).drop k.label.stop.toNat := by
        rw [List.drop_take]
      rw [e1]
      intro b hb
      obtain ⟨b0, h1, rfl⟩ := mem_offsetPBs hb
      apply xt_offset _ b0 _ (hx b0 (List.mem_cons_of_mem _ h1))
      rw [hn]
      exact pbsGE_mem hord.1 h1

end CM.Proofs.EolX
