import CM.Proofs.InlSpanBody
import CM.Proofs.InlNoMarker
/-
C02, inline half — from the arena to the exported trees, and the theorem about `parseInlines`:
the new inline children of a container are in order inside it, and so are all their descendants (`WFL`).
-/
namespace CM.Proofs.InlH
open CM CM.Model CM.Model.Inl CM.Gen CM.Spec
open Std.Do

/-- the children of a node, exported, form a well-formed list when the node's chain holds -/
theorem WFL_of_chain {a : Array INode} {f : Nat → Tree} : ∀ {ks : List Nat} {lo hi : Int}, ChainA a lo hi ks →
    (∀ k ∈ ks, WFT (f k) ∧ (f k).label.start = (a[k]!).start ∧ (f k).label.stop = (a[k]!).stop) →
    WFL lo hi (ks.map f) := by
  intro ks
  induction ks with
  | nil => intro lo hi h _; rw [List.map_nil, WFL_nil]; exact (ChainA_nil _ _ _).1 h
  | cons k ks ih =>
    intro lo hi h hf
    rw [ChainA_cons] at h
    obtain ⟨h1, h2, h3⟩ := hf k (List.mem_cons_self ..)
    rw [List.map_cons, WFL_cons, h2, h3]
    exact ⟨h.1, h1, ih h.2.2 fun j hj => hf j (List.mem_cons_of_mem _ hj)⟩

/-- Every exported sub-tree is well-formed and carries the span of its arena node. -/
theorem exportNode_WFT {lo hi F : Int} {a : Array INode} {sk : List Nat} {pm : Nat → Option Nat} {h : Nat → Nat}
    (inv : SPA lo hi none 0 0 F [] a sk pm) (hd : Dec a h) :
    ∀ (fuel id : Nat), id < a.size → h id < fuel →
      WFT (exportNode a fuel id) ∧ (exportNode a fuel id).label.start = (a[id]!).start ∧
        (exportNode a fuel id).label.stop = (a[id]!).stop := by
  intro fuel
  induction fuel with
  | zero => intro id _ hf; omega
  | succ fuel ih =>
    intro id hid hf
    rw [exportNode]
    have hget : a[id]? = some a[id] := Array.getElem?_eq_getElem hid
    have hg! : a[id]! = a[id] := getElem!_pos a id hid
    rw [hget]
    simp only []
    refine ⟨?_, by rw [hg!]; rfl, by rw [hg!]; rfl⟩
    -- what holds of every node, the root included
    have hnode : (a[id]!).start ≤ (a[id]!).stop ∧ ChainA a (a[id]!).start (a[id]!).stop (kidsLS a id) ∧
        ((a[id]!).kids = #[] → WFL (a[id]!).start (a[id]!).stop (a[id]!).sub) ∧
        ((a[id]!).kids ≠ #[] → (a[id]!).sub = []) := by
      rcases Nat.eq_zero_or_pos id with rfl | hpos
      · have hf' := inv.front
        rw [vis_none] at hf'
        have hle := hf'.le
        have hFhi := inv.Fhi
        obtain ⟨r1, r2, r3⟩ := inv.root
        rw [r1, r2, r3]
        exact ⟨by omega, hf'.mono (Int.le_refl _) hFhi, fun _ => by rw [WFL_nil]; omega, fun _ => rfl⟩
      · have n := inv.nodes id hpos hid
        exact ⟨n.valid, n.chain, n.sub, n.nosub⟩
    rw [hg!] at hnode
    obtain ⟨hv, hch, hsub, hnosub⟩ := hnode
    rw [WFT_iff]
    refine ⟨hv, ?_⟩
    show WFL a[id].start a[id].stop (a[id].kids.toList.map (exportNode a fuel) ++ a[id].sub)
    by_cases hk : a[id].kids = #[]
    · rw [hk]; simpa using hsub hk
    · rw [hnosub hk, List.append_nil]
      have hkl : kidsLS a id = a[id].kids.toList := by unfold kidsLS; rw [hg!]
      rw [hkl] at hch
      refine WFL_of_chain hch fun k hk' => ?_
      obtain ⟨h1, h2⟩ := hd id hid k (Array.mem_toList_iff.1 hk')
      exact ih k h1 (by omega)

/-- The exported children of the root. -/
theorem export_root_WFL {lo hi F : Int} {a : Array INode} {sk : List Nat} {pm : Nat → Option Nat}
    (inv : SPA lo hi none 0 0 F [] a sk pm) (hac : Acyc a) :
    WFL lo hi (exportNode a (a.size + 1) 0).children := by
  obtain ⟨h, hd, hb⟩ := hac
  have h0 := inv.pos
  have := (exportNode_WFT inv hd (a.size + 1) 0 h0 (by have := hb 0 h0; omega)).1
  rw [WFT_iff] at this
  obtain ⟨r1, r2, _⟩ := inv.root
  have e1 : (exportNode a (a.size + 1) 0).label.start = lo := by
    rw [(exportNode_WFT inv hd (a.size + 1) 0 h0 (by have := hb 0 h0; omega)).2.1, r1]
  have e2 : (exportNode a (a.size + 1) 0).label.stop = hi := by
    rw [(exportNode_WFT inv hd (a.size + 1) 0 h0 (by have := hb 0 h0; omega)).2.2, r2]
  rw [e1, e2] at this
  exact this.2

/-! ### stages A1 and A2 as statements about the state after `parseBody` -/

/-- (A1) every arena node but the root has a valid span inside the container -/
theorem SPT.node_spans {lo hi F : Int} {s : IState} (h : SPT lo hi F s) :
    ∀ i, 0 < i → i < s.nodes.size →
      lo ≤ (s.nodes[i]!).start ∧ (s.nodes[i]!).start ≤ (s.nodes[i]!).stop ∧ (s.nodes[i]!).stop ≤ hi :=
  fun i h0 hi' => ⟨(h.1.nodes i h0 hi').lo, (h.1.nodes i h0 hi').valid, (h.1.nodes i h0 hi').hi⟩

/-- (A2) the children of the root are in order, pairwise disjoint, and end by the frontier `F ≤ hi`; the children of
    every other node are in order inside it -/
theorem SPT.chains {lo hi F : Int} {s : IState} (h : SPT lo hi F s) :
    ChainA s.nodes lo F (kidsLS s.nodes 0) ∧ F ≤ hi ∧
    ∀ i, 0 < i → i < s.nodes.size → ChainA s.nodes (s.nodes[i]!).start (s.nodes[i]!).stop (kidsLS s.nodes i) := by
  have := h.1.front
  rw [vis_none] at this
  exact ⟨this, h.1.Fhi, fun i h0 hi' => (h.1.nodes i h0 hi').chain⟩

/-- (A1)/(A2) hold of the arena after `parseBody`. -/
theorem parseBody_arena (L : Lims) (c : ICtx) (hU : UnpOK c L) (hT : TokScan c L.hi) (hS : LinkScan c L.hi)
    (s s' : IState) (hs : BodyInv L c s) (hr : (parseBody c).run s = .ok ((), s')) :
    ∃ F, F ≤ L.hi ∧ ChainA s'.nodes L.lo F (kidsLS s'.nodes 0) ∧
      ∀ i, 0 < i → i < s'.nodes.size →
        L.lo ≤ (s'.nodes[i]!).start ∧ (s'.nodes[i]!).start ≤ (s'.nodes[i]!).stop ∧ (s'.nodes[i]!).stop ≤ L.hi ∧
        ChainA s'.nodes (s'.nodes[i]!).start (s'.nodes[i]!).stop (kidsLS s'.nodes i) := by
  obtain ⟨F, hsp⟩ := triple_run (parseBody_specP L c hU hT hS) hs hr
  refine ⟨F, hsp.chains.2.1, hsp.chains.1, fun i h0 hi' => ?_⟩
  obtain ⟨a, b, c'⟩ := hsp.node_spans i h0 hi'
  exact ⟨a, b, c', hsp.chains.2.2 i h0 hi'⟩

/-! ### the input -/

theorem WFL.get : ∀ {ts : List Tree} {lo hi : Int}, WFL lo hi ts → ∀ i, (hi' : i < ts.length) →
    lo ≤ ts[i].label.start ∧ ts[i].label.start ≤ ts[i].label.stop ∧ ts[i].label.stop ≤ hi ∧
    WFL ts[i].label.start ts[i].label.stop ts[i].children ∧
    ((hj : i + 1 < ts.length) → ts[i].label.stop ≤ ts[i + 1].label.start) := by
  intro ts
  induction ts with
  | nil => intro lo hi _ i hi'; simp at hi'
  | cons t rest ih =>
    intro lo hi h i hi'
    rw [WFL_cons] at h
    obtain ⟨h1, h2, h3⟩ := h
    have hle := h3.le
    rw [WFT_iff] at h2
    cases i with
    | zero =>
      refine ⟨h1, h2.1, hle, h2.2, fun hj => ?_⟩
      exact (ih h3 0 (by simpa using hj)).1
    | succ j =>
      obtain ⟨g1, g2, g3, g4, g5⟩ := ih h3 j (by simpa using hi')
      refine ⟨by simp only [List.getElem_cons_succ]; omega, g2, g3, g4, fun hj => ?_⟩
      exact g5 (by simpa using hj)

/-- A well-formed list of inline children is an admissible input of the inline phase. -/
theorem UnpOK_of_WFL (x : IExt) (src : Bytes) (srcA : Array UInt8) (matchRef : Bytes → Bool) (unparsed : List Tree)
    (L : Lims) (h : WFL L.lo L.hi unparsed) : UnpOK (inlCtx x src srcA matchRef unparsed) L := by
  have hsz : (inlCtx x src srcA matchRef unparsed).unparsed.size = unparsed.length := by simp [inlCtx]
  have hget : ∀ i (hi : i < unparsed.length), (inlCtx x src srcA matchRef unparsed).unparsed[i]! = unparsed[i] := by
    intro i hi
    show unparsed.toArray[i]! = _
    rw [getElem!_pos _ i (by simpa using hi)]; simp
  refine ⟨rfl, fun i hi => ?_, fun i hi => ?_, fun i hi => ?_⟩
  · rw [hsz] at hi
    rw [hget i hi]
    obtain ⟨g1, g2, g3, -, -⟩ := h.get i hi
    exact ⟨g1, g2, g3⟩
  · rw [hsz] at hi
    rw [hget i (by omega), hget (i + 1) hi]
    exact (h.get i (by omega)).2.2.2.2 hi
  · rw [hsz] at hi
    rw [hget i hi]
    exact (h.get i hi).2.2.2.1

/-- the initial state of the inline phase satisfies the invariant -/
theorem init_BodyInv (L : Lims) (c : ICtx) (hU : UnpOK c L) (hle : L.lo ≤ L.hi) :
    BodyInv L c { nodes := #[{ kind := 0, start := L.lo, stop := L.hi }], parentMap := #[none] } := by
  refine ⟨L.lo, ⟨?_, rfl⟩, fun hu => (hU.bounds _ hu).1⟩
  have hk : ∀ i, kidsLS #[({ kind := 0, start := L.lo, stop := L.hi } : INode)] i = [] := by
    intro i
    unfold kidsLS
    rcases Nat.eq_zero_or_pos i with rfl | hi
    · rfl
    · rw [getElem!_neg _ i (by simp; omega)]; rfl
  exact
    { pos := by simp
      root := ⟨rfl, rfl, rfl⟩
      front := by rw [vis_none, hk, ChainA_nil]; exact Int.le_refl _
      Fhi := hle
      nodes := fun i h0 hi => by simp at hi; omega
      klt := fun i _ k hk' => by rw [hk] at hk'; cases hk'
      nodup := fun i _ => by rw [hk]; exact List.nodup_nil
      uniqp := fun i j k _ _ hk' _ => by rw [hk] at hk'; cases hk'
      plain := fun k hk' => by cases hk'
      sorted := List.Pairwise.nil
      low := ⟨by simp [stkOf], fun k hk' => by simp [stkOf] at hk'⟩
      high := ⟨by simp [stkOf], fun k hk' => by simp [stkOf] at hk'⟩
      plt := by simp
      pb := fun _ => ⟨rfl, rfl⟩ }

/-- **The inline phase keeps the span discipline** (C02, inline half). If the inline children `unparsed` of a container
    with span `[cstart, cstop]` are in order inside it (with well-formed finished sub-trees), then so are the new
    inline children `parseInlines` returns, and — recursively — the children of each of them inside their parents
    (`WFL`: spans valid, children inside the parent, siblings in order and disjoint).
    `TokScan` / `LinkScan`: the facts about the byte scanners this proof does not establish. -/
theorem parseInlines_spans (x : IExt) (src : Bytes) (srcA : Array UInt8) (matchRef : Bytes → Bool)
    (cstart cstop : Int) (unparsed : List Tree) (h0 : 0 ≤ cstart) (hU : WFL cstart cstop unparsed)
    (hT : TokScan (inlCtx x src srcA matchRef unparsed) cstop) (hS : LinkScan (inlCtx x src srcA matchRef unparsed) cstop)
    (kids : List Tree) (h : parseInlines x src srcA matchRef cstart cstop unparsed = .ok kids) :
    WFL cstart cstop kids := by
  unfold parseInlines at h
  simp only [] at h
  split at h
  · cases h
  · rename_i u s hrun
    have hk : kids = (exportNode s.nodes (s.nodes.size + 1) 0).children := by
      cases h; rfl
    let L : Lims := ⟨cstart, cstop, h0⟩
    have hUL := UnpOK_of_WFL x src srcA matchRef unparsed L hU
    have hB0 := init_BodyInv L _ hUL hU.le
    have hS0 : S { nodes := #[{ kind := 0, start := cstart, stop := cstop }], parentMap := #[none] } :=
      ⟨Acyc.singleton _ rfl, by simp, PMOK.empty _⟩
    obtain ⟨F, hsp⟩ := triple_run (parseBody_specP L (inlCtx x src srcA matchRef unparsed) hUL hT hS) hB0 hrun
    have hSs : S s := triple_run (parseBody_specS (c := inlCtx x src srcA matchRef unparsed)) hS0 hrun
    rw [hk]
    exact export_root_WFL hsp.1 hSs.acyc

end CM.Proofs.InlH
