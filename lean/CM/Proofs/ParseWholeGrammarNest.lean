import CM.Proofs.ParseWholeGrammarSteps2
/-
C05, clause (iii) "no link inside a link" — the ghost invariant `CL` of the arena (pure part 1).

`C` is a set of arena nodes whose sub-trees hold no Link node ("clean"): closed under children (`c1`), the children of
every Link are clean (`c2`), and everything that FOLLOWS the node of an active `[` opener among the children of its parent
is clean (`c3`) — so that the Link `wrap` makes around it has clean children.  `A` is the list of those opener nodes.
-/
namespace CM.Proofs.InlH
open CM CM.Model CM.Model.Inl CM.Spec

/-- `k` occurs after `x` in `ks` -/
def After (ks : List Nat) (x k : Nat) : Prop := ∃ pre post, ks = pre ++ x :: post ∧ k ∈ post

theorem after_sublist {l' l : List Nat} {x k : Nat} (hs : l'.Sublist l) (h : After l' x k) : After l x k := by
  obtain ⟨pre, post, e, hk⟩ := h
  subst e
  obtain ⟨l1, l2, rfl, _, h2⟩ := List.append_sublist_iff.1 hs
  obtain ⟨l3, l4, rfl, hx3, h4⟩ := List.cons_sublist_iff.1 h2
  obtain ⟨p, q, rfl⟩ := List.append_of_mem hx3
  exact ⟨l1 ++ p, q ++ l4, by simp, List.mem_append_right _ (h4.subset hk)⟩

theorem after_snoc {l : List Nat} {n x k : Nat} (h : After (l ++ [n]) x k) : After l x k ∨ k = n := by
  obtain ⟨pre, post, e, hk⟩ := h
  rcases List.eq_nil_or_concat post with rfl | ⟨post', z, rfl⟩
  · cases hk
  · rw [List.concat_eq_append] at e hk
    rw [show pre ++ x :: (post' ++ [z]) = (pre ++ x :: post') ++ [z] by simp] at e
    obtain ⟨e1, e2⟩ := List.append_inj' e rfl
    rw [List.mem_append, List.mem_singleton] at hk
    rcases hk with hk | hk
    · exact Or.inl ⟨pre, post', e1, hk⟩
    · right; rw [hk]; exact (List.singleton_inj.1 e2).symm

theorem after_mid {L1 M L3 : List Nat} {x m : Nat} (hx : x ∈ L1) (hm : m ∈ M) : After (L1 ++ M ++ L3) x m := by
  obtain ⟨p, q, rfl⟩ := List.append_of_mem hx
  exact ⟨p, q ++ M ++ L3, by simp, by simp [hm]⟩

/-- one element `n` stands for the segment `M` -/
theorem after_insert {L1 L3 : List Nat} (M : List Nat) {n x k : Nat} (hx : x ≠ n) (h : After (L1 ++ n :: L3) x k) :
    (k = n ∧ x ∈ L1) ∨ After (L1 ++ M ++ L3) x k := by
  obtain ⟨pre, post, e, hk⟩ := h
  rcases List.append_eq_append_iff.1 e with ⟨t, rfl, e2⟩ | ⟨t, rfl, e2⟩
  · -- `L1` is a prefix of `pre`
    cases t with
    | nil =>
      simp only [List.nil_append, List.cons.injEq] at e2
      exact absurd e2.1.symm hx
    | cons y t =>
      simp only [List.cons_append, List.cons.injEq] at e2
      obtain ⟨rfl, rfl⟩ := e2
      right
      exact ⟨L1 ++ M ++ t, post, by simp, hk⟩
  · -- `pre` is a prefix of `L1`
    cases t with
    | nil =>
      simp only [List.nil_append, List.cons.injEq] at e2
      exact absurd e2.1 hx
    | cons y t =>
      simp only [List.cons_append, List.cons.injEq] at e2
      obtain ⟨rfl, rfl⟩ := e2
      simp only [List.mem_append, List.mem_cons] at hk
      rcases hk with hk | rfl | hk
      · right; exact ⟨pre, t ++ M ++ L3, by simp, by simp [hk]⟩
      · left; exact ⟨rfl, by simp⟩
      · right; exact ⟨pre, t ++ M ++ L3, by simp, by simp [hk]⟩

/-- the children list of an arena node -/
def kidsL (a : Array INode) (i : Nat) : List Nat := (a[i]!).kids.toList

/-- an active `[` opener -/
def Act3 (e : DelimE) : Prop := e.elem.typ = 3 ∧ e.elem.flags &&& 1 ≠ 0

instance (e : DelimE) : Decidable (Act3 e) := by unfold Act3; infer_instance

/-- the nodes of the active `[` openers from stack index `b3` on -/
def actN (st : Array DelimE) (b3 : Nat) : List Nat :=
  ((st.toList.drop b3).filter (fun e => decide (Act3 e))).map (·.node)

structure CL (a : Array INode) (pm : Array (Option Nat)) (A : List Nat) (C : Nat → Prop) : Prop where
  c0 : ¬ C 0
  c4 : ∀ i, C i → i < a.size
  c1 : ∀ i, C i → kindOf a i ≠ IK.link ∧ ∀ k ∈ kidsL a i, C k
  c2 : ∀ i, i < a.size → kindOf a i = IK.link → ∀ k ∈ kidsL a i, C k
  c3 : ∀ x ∈ A, ∀ P, (pm[x]?).join = some P → ∀ k, After (kidsL a P) x k → C k

/-- kinds are the same, children lists shrink (or stay), fewer openers -/
theorem CL.shrink {a a' : Array INode} {pm pm' : Array (Option Nat)} {A A' : List Nat} {C : Nat → Prop}
    (h : CL a pm A C) (hsz : a.size ≤ a'.size) (hk : ∀ i, i < a.size → kindOf a' i = kindOf a i)
    (hkids : ∀ i, i < a.size → (kidsL a' i).Sublist (kidsL a i))
    (hnew : ∀ i, a.size ≤ i → i < a'.size → kindOf a' i ≠ IK.link)
    (hA : ∀ x ∈ A', x ∈ A ∧ ∀ P, (pm'[x]?).join = some P → (pm[x]?).join = some P ∧ P < a.size) : CL a' pm' A' C where
  c0 := h.c0
  c4 i hi := Nat.lt_of_lt_of_le (h.c4 i hi) hsz
  c1 i hi := by
    have hlt := h.c4 i hi
    rw [hk i hlt]
    exact ⟨(h.c1 i hi).1, fun k hk' => (h.c1 i hi).2 k ((hkids i hlt).subset hk')⟩
  c2 i hi hl k hk' := by
    by_cases hlt : i < a.size
    · rw [hk i hlt] at hl
      exact h.c2 i hlt hl k ((hkids i hlt).subset hk')
    · exact absurd hl (hnew i (by omega) hi)
  c3 x hx P hP k hk' := by
    obtain ⟨hxA, hp⟩ := hA x hx
    obtain ⟨hp1, hp2⟩ := hp P hP
    exact h.c3 x hxA P hp1 k (after_sublist (hkids P hp2) hk')

theorem kidsL_modify_same (a : Array INode) (id i : Nat) (f : INode → INode) (hc : ∀ m, (f m).kids = m.kids) :
    kidsL (a.modify id f) i = kidsL a i := by
  unfold kidsL
  by_cases hi : id = i
  · subst hi
    by_cases hlt : id < a.size
    · rw [kids_modify_self _ hlt, hc]
    · rw [getElem!_neg _ id (by simpa using hlt), getElem!_neg _ id hlt]
  · rw [kids_modify_other _ hi]

theorem after_mem {l : List Nat} {x k : Nat} (h : After l x k) : x ∈ l ∧ k ∈ l := by
  obtain ⟨pre, post, rfl, hk⟩ := h
  exact ⟨by simp, by simp [hk]⟩

/-- the arena after a fresh node `n` was appended to the children of `Q` -/
def addKidA (a : Array INode) (n : INode) (Q : Nat) : Array INode :=
  (a.push n).modify Q (fun m => { m with kids := m.kids.push a.size })

theorem kidsL_addKidA (a : Array INode) (n : INode) {Q : Nat} (hQ : Q < a.size) (hn : n.kids = #[]) (i : Nat) :
    kidsL (addKidA a n Q) i = if i = Q then kidsL a Q ++ [a.size] else if i < a.size then kidsL a i else [] := by
  unfold kidsL addKidA
  by_cases hi : i = Q
  · subst hi
    rw [if_pos rfl, kids_modify_self _ (by simp; omega), getElem!_push_lt hQ]; simp
  · rw [if_neg hi, kids_modify_other _ (Ne.symm hi)]
    by_cases hlt : i < a.size
    · rw [if_pos hlt, getElem!_push_lt hlt]
    · rw [if_neg hlt]
      by_cases he : i = a.size
      · subst he; rw [getElem!_push_size, hn]
      · rw [getElem!_neg _ i (by simp; omega)]; rfl

theorem kindOf_addKidA (a : Array INode) (n : INode) (Q : Nat) :
    (∀ i, i < a.size → kindOf (addKidA a n Q) i = kindOf a i) ∧ kindOf (addKidA a n Q) a.size = n.kind := by
  unfold addKidA
  refine ⟨fun i hi => ?_, ?_⟩
  · rw [kindOf_modify (by intro _; rfl), kindOf_push_lt hi]
  · rw [kindOf_modify (by intro _; rfl), kindOf_push_size]

/-- a fresh clean leaf is appended to the children of `Q` -/
theorem CL.addKid {a : Array INode} {pm pm' : Array (Option Nat)} {A : List Nat} {C : Nat → Prop} (h : CL a pm A C)
    (n : INode) {Q : Nat} (hn : n.kids = #[]) (hnk : n.kind ≠ IK.link) (hQ : Q < a.size) (hpos : 0 < a.size)
    (hpm : ∀ x, x < a.size → (pm'[x]?).join = (pm[x]?).join)
    (hAv : ∀ x ∈ A, x < a.size ∧ ∀ P, (pm[x]?).join = some P → P < a.size) :
    CL (addKidA a n Q) pm' A (fun i => C i ∨ i = a.size) := by
  have hkl := kidsL_addKidA a n hQ hn
  obtain ⟨hk1, hk2⟩ := kindOf_addKidA a n Q
  have hsz : (addKidA a n Q).size = a.size + 1 := by simp [addKidA]
  have hmem : ∀ i, i < a.size → ∀ k ∈ kidsL (addKidA a n Q) i, k ∈ kidsL a i ∨ k = a.size := by
    intro i hi k hk
    rw [hkl] at hk
    split at hk
    · rename_i e; subst e
      rw [List.mem_append, List.mem_singleton] at hk; exact hk
    · exact Or.inl hk
  refine ⟨?_, ?_, ?_, ?_, ?_⟩
  · rintro (h0 | h0)
    · exact h.c0 h0
    · omega
  · rintro i (hi | hi)
    · have := h.c4 i hi; omega
    · omega
  · rintro i (hi | hi)
    · have hlt := h.c4 i hi
      rw [hk1 i hlt]
      refine ⟨(h.c1 i hi).1, fun k hk => ?_⟩
      rcases hmem i hlt k hk with hk | hk
      · exact Or.inl ((h.c1 i hi).2 k hk)
      · exact Or.inr hk
    · subst hi
      rw [hk2]
      refine ⟨hnk, fun k hk => ?_⟩
      rw [hkl, if_neg (by omega), if_neg (by omega)] at hk; cases hk
  · intro i hi hl k hk
    rw [hsz] at hi
    by_cases hlt : i < a.size
    · rw [hk1 i hlt] at hl
      rcases hmem i hlt k hk with hk | hk
      · exact Or.inl (h.c2 i hlt hl k hk)
      · exact Or.inr hk
    · have : i = a.size := by omega
      subst this
      rw [hk2] at hl; exact absurd hl hnk
  · intro x hx P hP k hk
    obtain ⟨hxl, hPv⟩ := hAv x hx
    rw [hpm x hxl] at hP
    have hPl := hPv P hP
    rw [hkl] at hk
    split at hk
    · rename_i e; subst e
      rcases after_snoc hk with hk | hk
      · exact Or.inl (h.c3 x hx P hP k hk)
      · exact Or.inr hk
    · exact Or.inl (h.c3 x hx P hP k hk)

/-- … and it is the node of a new active opener (under the root) -/
theorem CL.addActive {a : Array INode} {pm' : Array (Option Nat)} {A : List Nat} {C' : Nat → Prop} (n : INode)
    (h : CL (addKidA a n 0) pm' A C') (hn : n.kids = #[]) (hpos : 0 < a.size)
    (hv : ∀ k ∈ kidsL a 0, k < a.size) (hp : (pm'[a.size]?).join = some 0) (hC : C' a.size) :
    CL (addKidA a n 0) pm' (A ++ [a.size]) C' := by
  refine ⟨h.c0, h.c4, h.c1, h.c2, ?_⟩
  intro x hx P hP k hk
  rcases List.mem_append.1 hx with hx | hx
  · exact h.c3 x hx P hP k hk
  · rw [List.mem_singleton] at hx; subst hx
    rw [hp] at hP
    cases hP
    rw [kidsL_addKidA a n hpos hn, if_pos rfl] at hk
    rcases after_snoc hk with hk | hk
    · have := hv _ (after_mem hk).1; omega
    · rw [hk]; exact hC

end CM.Proofs.InlH
