import CM.Proofs.InlineSerBase
/-
Inline serialisation — part 2: one iteration of the tokenizer loop, for every branch of the dispatch that a canonical
inline item uses, in an arbitrary state `s` positioned in a run that ends at `E` (`At c a E last s`; `last`: it is the last
run of the container).  `parseRun_steps` extracts the loop body `f` of `parseRun` and proves `Steps c src f`.
-/
namespace CM.Proofs.InlSer
open CM CM.Gen CM.Model CM.Model.Inl CM.Proofs.EscText

/-- The state is inside a run that ends at `E`. -/
structure At (c : ICtx) (a E : Nat) (last : Bool) (s : IState) : Prop where
  lt : s.unparsedPos < c.unparsed.size
  se : spanEndOf c s = (E : Int)
  last : decide (s.unparsedPos + 1 ≥ c.unparsed.size) = last
  /-- the run: the Unparsed node `[a, E)` -/
  run : ∃ more, c.unparsedL.drop s.unparsedPos = mkInline IK.unparsed (a : Int) (E : Int) :: more

theorem At.congr {c : ICtx} {a E : Nat} {last : Bool} {s s' : IState} (h : At c a E last s)
    (hu : s'.unparsedPos = s.unparsedPos) : At c a E last s' := by
  refine ⟨by rw [hu]; exact h.lt, ?_, by rw [hu]; exact h.last, by rw [hu]; exact h.run⟩
  have := h.se
  unfold spanEndOf at this ⊢
  rw [hu]; exact this

theorem At.isLastSpan {c : ICtx} {a E : Nat} {last : Bool} {s : IState} (h : At c a E last s) :
    (isLastSpan c).run s = pure (last, s) := by
  simp [Inl.isLastSpan, h.last]

theorem getA {c : ICtx} {src : Bytes} (hA : c.srcA = src.toArray) {i : Nat} {b : UInt8} (hb : src[i]? = some b) :
    i < c.srcA.size ∧ c.srcA[i]! = b := by
  have hi := lt_of_get hb
  rw [hA]
  refine ⟨by simpa using hi, ?_⟩
  rw [getElem!_pos _ i (by simpa using hi)]
  rw [List.getElem?_eq_getElem hi] at hb
  simpa using hb

theorem sliceA {c : ICtx} {src : Bytes} (hA : c.srcA = src.toArray) (s : IState) (lo hi : Nat) (h1 : lo ≤ hi)
    (h2 : hi ≤ src.length) :
    (srcSlice c (lo : Int) (hi : Int)).run s = pure ((src.drop lo).take (hi - lo), s) := by
  rw [srcSlice_run c lo hi s h1 (by rw [hA]; simpa using h2)]
  simp [hA, List.take_drop]

/-- `source[pos:E]` -/
def upTo (src : Bytes) (pos E : Nat) : Bytes := (src.drop pos).take (E - pos)

/-- A byte the dispatch of the tokenizer does not look at. -/
def inert (b : UInt8) : Prop :=
  b ≠ 42 ∧ b ≠ 95 ∧ b ≠ 91 ∧ b ≠ 93 ∧ b ≠ 33 ∧ b ≠ SP ∧ b ≠ 96 ∧ b ≠ 60 ∧ b ≠ 92 ∧ b ≠ 38 ∧ b ≠ LF ∧ b ≠ CR

theorem parseBackslash_punct {c : ICtx} {src : Bytes} (hA : c.srcA = src.toArray) {a E : Nat} {last : Bool} {s : IState}
    (h : At c a E last s) (pos : Nat) (b : UInt8) (hlt : pos + 1 < E) (hb : src[pos + 1]? = some b)
    (hp : isASCIIPunctuation b = true) :
    (parseBackslash c (pos : Int)).run s =
      pure ((pos : Int) + 2, addLeafP IK.text ((pos : Int) + 1) ((pos : Int) + 2) s) := by
  obtain ⟨h1, h2⟩ := getA hA hb
  have hLF : b ≠ LF := by rintro rfl; revert hp; decide
  have hCR : b ≠ CR := by rintro rfl; revert hp; decide
  have hge : ¬ ((pos : Int) + 1 ≥ (E : Int)) := by omega
  have hat : ∀ s, (srcAt c ((pos : Int) + 1)).run s = pure (b, s) := by
    intro s
    have := srcAt_run c (pos + 1) s h1
    rw [h2] at this
    simpa using this
  unfold parseBackslash
  simp [spanEnd, StateT.run_bind, h.se, hge, hat, hLF, hCR, hp, addLeaf_run]

theorem parseBackslash_eol {c : ICtx} {src : Bytes} (hA : c.srcA = src.toArray) {a E : Nat} {s : IState}
    (h : At c a E false s) (pos : Nat) (hE : pos + 2 = E) (hb : src[pos + 1]? = some LF) :
    (parseBackslash c (pos : Int)).run s =
      pure ((pos : Int) + 2, addLeafP IK.hardBreak (pos : Int) ((pos : Int) + 2) (setIgnP true s)) := by
  obtain ⟨h1, h2⟩ := getA hA hb
  have hge : ¬ ((pos : Int) + 1 ≥ (E : Int)) := by omega
  have hlt : (pos : Int) + 1 < (E : Int) := by omega
  have hnlt : ¬ ((pos : Int) + 1 + 1 < (E : Int)) := by omega
  have hat : ∀ s, (srcAt c ((pos : Int) + 1)).run s = pure (LF, s) := by
    intro s
    have := srcAt_run c (pos + 1) s h1
    rw [h2] at this
    simpa using this
  have hs' : At c a E false (setIgnP true s) := h.congr rfl
  unfold parseBackslash
  simp [spanEnd, StateT.run_bind, h.se, hge, hlt, hnlt, hat, addLeaf_run, h.isLastSpan, guardAt, srcIs, LF, CR, setIgn_run]
  rfl

/-- What the iterations of the tokenizer loop do. -/
structure Steps (c : ICtx) (src : Bytes) (f : Nat → LS → IM (ForInStep LS)) : Prop where
  done : ∀ (x pos a E : Nat) (last : Bool) (ps : Int) (s : IState), At c a E last s → E ≤ pos →
    (f x ((pos : Int), ps, false)).run s = pure (.done ((pos : Int), ps, true), s)
  plain : ∀ (x pos a E : Nat) (last : Bool) (ps : Int) (s : IState) (b : UInt8), At c a E last s → pos < E →
    src[pos]? = some b → inert b →
    (f x ((pos : Int), ps, false)).run s = pure (.yield ((pos : Int) + 1, ps, false), s)
  escape : ∀ (x pos a E : Nat) (last : Bool) (ps : Int) (s : IState) (b : UInt8), At c a E last s → pos + 1 < E →
    src[pos]? = some 0x5C → src[pos + 1]? = some b → isASCIIPunctuation b = true →
    (f x ((pos : Int), ps, false)).run s =
      pure (.yield ((pos : Int) + 2, (pos : Int) + 2, false),
        addLeafP IK.text ((pos : Int) + 1) ((pos : Int) + 2) (addLeafP IK.text ps (pos : Int) s))
  bsEol : ∀ (x pos a E : Nat) (ps : Int) (s : IState), At c a E false s → pos + 2 = E →
    src[pos]? = some 0x5C → src[pos + 1]? = some LF →
    (f x ((pos : Int), ps, false)).run s =
      pure (.yield ((pos : Int) + 2, (pos : Int) + 2, false),
        addLeafP IK.hardBreak (pos : Int) ((pos : Int) + 2) (setIgnP true (addLeafP IK.text ps (pos : Int) s)))
  space : ∀ (x pos a E : Nat) (last : Bool) (ps : Int) (s : IState), At c a E last s → pos < E → E ≤ src.length →
    src[pos]? = some SP →
    (f x ((pos : Int), ps, false)).run s =
      (let r := parseHardLineBreakSpace (upTo src pos E)
       if r.2 && !last then
         pure (.yield ((pos : Int) + (r.1 : Int), (pos : Int) + (r.1 : Int), false),
           setIgnP true (addLeafP IK.hardBreak (pos : Int) ((pos : Int) + (r.1 : Int)) (addLeafP IK.text ps (pos : Int) s)))
       else pure (.yield ((pos : Int) + (r.1 : Int), ps, false), s))
  lf : ∀ (x pos a E : Nat) (last : Bool) (ps : Int) (s : IState), At c a E last s → pos < E → src[pos]? = some LF →
    (f x ((pos : Int), ps, false)).run s =
      pure (.yield ((pos : Int) + 1, (pos : Int) + 1, false),
        (if last then id else addLeafP IK.softBreak (pos : Int) ((pos : Int) + 1)) (addLeafP IK.text ps (pos : Int) s))
  amp : ∀ (x pos a E : Nat) (last : Bool) (ps : Int) (s : IState) (e : Nat), At c a E last s → pos < E → E ≤ src.length →
    src[pos]? = some 0x26 → parseCharacterEscape c.x.ext (upTo src pos E) = (e : Int) →
    (f x ((pos : Int), ps, false)).run s =
      pure (.yield ((pos : Int) + (e : Int), (pos : Int) + (e : Int), false),
        addLeafP IK.charRef (pos : Int) ((pos : Int) + (e : Int)) (addLeafP IK.text ps (pos : Int) s))
  auto : ∀ (x pos a E : Nat) (last : Bool) (ps : Int) (s : IState) (e : Nat), At c a E last s → pos < E → E ≤ src.length →
    src[pos]? = some 0x3C → parseAutolink (upTo src pos E) = (e : Int) → 0 < e →
    (f x ((pos : Int), ps, false)).run s =
      pure (.yield ((e : Int) + (pos : Int), (e : Int) + (pos : Int), false),
        pushP { kind := IK.autolink, start := (pos : Int), stop := (e : Int) + (pos : Int),
                sub := [mkInline IK.text ((pos : Int) + 1) ((e : Int) + (pos : Int) - 1)] }
          (addLeafP IK.text ps (pos : Int) s))
  code : ∀ (x pos a E : Nat) (last : Bool) (ps : Int) (s : IState) (cs : CodeSpan) (Tc : IState → IState),
    At c a E last s → pos < E → src[pos]? = some 0x60 →
    (parseCodeSpan c (pos : Int)).run s = pure (cs, s) → cs.span.isValid = true →
    (collectCodeSpan c cs).run (addLeafP IK.text ps cs.span.start s) = pure ((), Tc (addLeafP IK.text ps cs.span.start s)) →
    (f x ((pos : Int), ps, false)).run s =
      pure (.yield (cs.span.stop, cs.span.stop, false), Tc (addLeafP IK.text ps cs.span.start s))
  delim : ∀ (x pos a E : Nat) (last : Bool) (ps : Int) (s : IState) (b : UInt8) (q : Int) (Td : IState → IState),
    At c a E last s → pos < E → src[pos]? = some b → (b = 0x2A ∨ b = 0x5F) →
    (parseDelimiterRun c (pos : Int)).run (addLeafP IK.text ps (pos : Int) s) = pure (q, Td (addLeafP IK.text ps (pos : Int) s)) →
    (f x ((pos : Int), ps, false)).run s = pure (.yield (q, q, false), Td (addLeafP IK.text ps (pos : Int) s))
  openB : ∀ (x pos a E : Nat) (last : Bool) (ps : Int) (s : IState), At c a E last s → pos < E → src[pos]? = some 0x5B →
    (f x ((pos : Int), ps, false)).run s =
      pure (.yield ((pos : Int) + 1, (pos : Int) + 1, false),
        pushStkP { elem := { typ := 3, flags := 1, n := 0 }, node := (addLeafP IK.text ps (pos : Int) s).nodes.size }
          (pushP { kind := IK.text, start := (pos : Int), stop := (pos : Int) + 1 } (addLeafP IK.text ps (pos : Int) s)))
  closeB : ∀ (x pos a E : Nat) (last : Bool) (ps : Int) (s : IState) (q : Int) (Tb : IState → IState),
    At c a E last s → pos < E → src[pos]? = some 0x5D →
    (parseEndBracket c (pos : Int)).run (addLeafP IK.text ps (pos : Int) s) = pure (q, Tb (addLeafP IK.text ps (pos : Int) s)) →
    (f x ((pos : Int), ps, false)).run s = pure (.yield (q, q, false), Tb (addLeafP IK.text ps (pos : Int) s))
  bang : ∀ (x pos a E : Nat) (last : Bool) (ps : Int) (s : IState), At c a E last s → pos + 1 < E → src[pos]? = some 0x21 →
    src[pos + 1]? = some 0x5B →
    (f x ((pos : Int), ps, false)).run s =
      pure (.yield ((pos : Int) + 2, (pos : Int) + 2, false),
        pushStkP { elem := { typ := 4, flags := 1, n := 0 }, node := (addLeafP IK.text ps (pos : Int) s).nodes.size }
          (pushP { kind := IK.text, start := (pos : Int), stop := (pos : Int) + 2 } (addLeafP IK.text ps (pos : Int) s)))

theorem parseRun_steps (c : ICtx) (src : Bytes) (hA : c.srcA = src.toArray) : ∃ f : Nat → LS → IM (ForInStep LS),
    (∀ s t, s.ignoreNextIndent = false → c.unparsed[s.unparsedPos]? = some t →
      (parseRun c).run s = (tokLoop c f).run s) ∧
    (∀ s t (p a E : Nat) (last : Bool) (b : UInt8), c.unparsed[s.unparsedPos]? = some t → t.label.start = (p : Int) →
      At c a E last s → p < E → src[p]? = some b → b ≠ SP → b ≠ TAB →
      (parseRun c).run s = (tokLoop c f).run s) ∧ Steps c src f := by
  unfold parseRun
  refine ⟨?f, ?eq, ?eqT, ?spec⟩
  case eqT =>
    intro s t p a E last b ht hp h hlt hb hsp htab
    obtain ⟨h1, h2⟩ := getA hA hb
    unfold tokLoop
    simp only [StateT.run_bind, StateT.run_get, unparsedAt_run c s t ht]
    simp only [pure_bind]
    cases hig : s.ignoreNextIndent
    · simp only [Bool.false_eq_true, if_false, StateT.run_bind]
      rfl
    · have hr : ([:c.srcA.size + 1] : Std.Legacy.Range).size = c.srcA.size + 1 := by simp [Std.Legacy.Range.size]
      have hl : ((p : Int) < (E : Int)) := by omega
      simp only [if_true, StateT.run_bind, Std.Legacy.Range.forIn_eq_forIn_range', hr, List.range'_succ, List.forIn_cons,
        hp, spanEnd, StateT.run_get, pure_bind, StateT.run_pure, h.se, hl, decide_true, Bool.not_true, Bool.false_eq_true,
        if_false, srcAt_run c p s h1, h2]
      have e1 : (b == SP) = false := by simpa using hsp
      have e2 : (b == TAB) = false := by simpa using htab
      simp only [e1, e2, Bool.or_self, Bool.not_false, if_true, StateT.run_pure, pure_bind]
  case eq =>
    intro s t hs ht
    unfold tokLoop
    simp only [StateT.run_bind, StateT.run_get, unparsedAt_run c s t ht]
    simp only [pure_bind, hs, Bool.false_eq_true, if_false, StateT.run_bind]
  case spec =>
    constructor
    · intro x pos a E last ps s h hle
      simp [StateT.run_bind, h.se, hle]
    · intro x pos a E last ps s b h hlt hb ⟨p1, p2, p3, p4, p5, p6, p7, p8, p9, p10, p11, p12⟩
      obtain ⟨h1, h2⟩ := getA hA hb
      have hl := Nat.not_le.2 hlt
      have hu := Nat.not_le.2 h.lt
      simp [StateT.run_bind, h.se, hu, hl, srcAt_run c pos s h1, h2, p1, p2, p3, p4, p5, p6, p7, p8, p9, p10, p11, p12]
    · intro x pos a E last ps s b h hlt hb0 hb hp
      obtain ⟨h1, h2⟩ := getA hA hb0
      have hl : ¬ E ≤ pos := by omega
      have hu := Nat.not_le.2 h.lt
      have hs' : At c a E last (addLeafP IK.text ps (pos : Int) s) := h.congr (by simp)
      simp [StateT.run_bind, h.se, hu, hl, srcAt_run c pos s h1, h2, addText, addLeaf_run,
        parseBackslash_punct hA hs' pos b hlt hb hp, SP]
    · intro x pos a E ps s h hE hb0 hb
      obtain ⟨h1, h2⟩ := getA hA hb0
      have hl : ¬ E ≤ pos := by omega
      have hu := Nat.not_le.2 h.lt
      have hs' : At c a E false (addLeafP IK.text ps (pos : Int) s) := h.congr (by simp)
      simp [StateT.run_bind, h.se, hu, hl, srcAt_run c pos s h1, h2, addText, addLeaf_run,
        parseBackslash_eol hA hs' pos hE hb, SP]
    · intro x pos a E last ps s h hlt hE hb
      obtain ⟨h1, h2⟩ := getA hA hb
      have hl : ¬ E ≤ pos := by omega
      have hu := Nat.not_le.2 h.lt
      simp only [upTo]
      cases last
      · simp [StateT.run_bind, h.se, hu, hl, srcAt_run c pos s h1, h2, sliceA hA s pos E (Nat.le_of_lt hlt) hE,
          h.isLastSpan, SP, addText]
        split <;> simp [StateT.run_bind, addLeaf_run, setIgn_run]
      · simp [StateT.run_bind, h.se, hu, hl, srcAt_run c pos s h1, h2, sliceA hA s pos E (Nat.le_of_lt hlt) hE,
          h.isLastSpan, SP]
    · intro x pos a E last ps s h hlt hb
      obtain ⟨h1, h2⟩ := getA hA hb
      have hl : ¬ E ≤ pos := by omega
      have hu := Nat.not_le.2 h.lt
      have hs' : At c a E last (addLeafP IK.text ps (pos : Int) s) := h.congr (by simp)
      cases last <;>
      simp [StateT.run_bind, h.se, hu, hl, srcAt_run c pos s h1, h2, addText, addLeaf_run, hs'.isLastSpan, LF, SP]
    · intro x pos a E last ps s e h hlt hE hb he
      obtain ⟨h1, h2⟩ := getA hA hb
      have hl : ¬ E ≤ pos := by omega
      have hu := Nat.not_le.2 h.lt
      simp only [upTo] at he
      have hne : ¬ ((e : Int) < 0) := by omega
      simp [StateT.run_bind, h.se, hu, hl, srcAt_run c pos s h1, h2, sliceA hA s pos E (Nat.le_of_lt hlt) hE, he, SP, LF, CR,
        addText, addLeaf_run, hne]
    · intro x pos a E last ps s e h hlt hE hb he hpos
      obtain ⟨h1, h2⟩ := getA hA hb
      have hl : ¬ E ≤ pos := by omega
      have hu := Nat.not_le.2 h.lt
      simp only [upTo] at he
      have hlen : spanLenI (pos : Int) ((e : Int) + (pos : Int)) ≠ 0 := by
        have : (e : Int) + (pos : Int) = ((e + pos : Nat) : Int) := by simp
        rw [this, spanLenI_cast]; omega
      simp [StateT.run_bind, h.se, hu, hl, srcAt_run c pos s h1, h2, sliceA hA s pos E (Nat.le_of_lt hlt) hE, he, SP,
        addText, addLeaf_run, alloc, addToRoot, nodeLen, getNode, setParent, modifyNode, pushP, hlen]
    · intro x pos a E last ps s cs Tc h hlt hb hcs hv hcol
      obtain ⟨h1, h2⟩ := getA hA hb
      have hl : ¬ E ≤ pos := by omega
      have hu := Nat.not_le.2 h.lt
      simp [StateT.run_bind, h.se, hu, hl, srcAt_run c pos s h1, h2, SP, hcs, hv, addText, addLeaf_run, hcol]
    · intro x pos a E last ps s b q Td h hlt hb hb2 hd
      obtain ⟨h1, h2⟩ := getA hA hb
      have hl : ¬ E ≤ pos := by omega
      have hu := Nat.not_le.2 h.lt
      simp [StateT.run_bind, h.se, hu, hl, srcAt_run c pos s h1, h2, hb2, addText, addLeaf_run, hd]
    · intro x pos a E last ps s h hlt hb
      obtain ⟨h1, h2⟩ := getA hA hb
      have hl : ¬ E ≤ pos := by omega
      have hu := Nat.not_le.2 h.lt
      have hlen : spanLenI (pos : Int) ((pos : Int) + 1) ≠ 0 := by
        have : (pos : Int) + 1 = ((pos + 1 : Nat) : Int) := by simp
        rw [this, spanLenI_cast]; omega
      simp [StateT.run_bind, h.se, hu, hl, srcAt_run c pos s h1, h2, addText, addLeaf_run, alloc, addToRoot, nodeLen,
        getNode, setParent, modifyNode, pushP, pushStkP, pushStack, hlen]
    · intro x pos a E last ps s q Tb h hlt hb hd
      obtain ⟨h1, h2⟩ := getA hA hb
      have hl : ¬ E ≤ pos := by omega
      have hu := Nat.not_le.2 h.lt
      simp [StateT.run_bind, h.se, hu, hl, srcAt_run c pos s h1, h2, addText, addLeaf_run, hd]
    · intro x pos a E last ps s h hlt hb hb1
      obtain ⟨h1, h2⟩ := getA hA hb
      obtain ⟨h3, h4⟩ := getA hA hb1
      have hl : ¬ E ≤ pos := by omega
      have hu := Nat.not_le.2 h.lt
      have hlen : spanLenI (pos : Int) ((pos : Int) + 2) ≠ 0 := by
        have : (pos : Int) + 2 = ((pos + 2 : Nat) : Int) := by simp
        rw [this, spanLenI_cast]; omega
      have hlt' : (pos : Int) + 1 < (E : Int) := by omega
      have hat : ∀ s, (srcAt c ((pos : Int) + 1)).run s = pure (0x5B, s) := by
        intro s
        have := srcAt_run c (pos + 1) s h3
        rw [h4] at this
        simpa using this
      simp [StateT.run_bind, h.se, hu, hl, srcAt_run c pos s h1, h2, addText, addLeaf_run, alloc, addToRoot, nodeLen,
        getNode, setParent, modifyNode, pushP, pushStkP, pushStack, hlen, guardAt, srcIs, hlt', hat]

end CM.Proofs.InlSer
