import CM.Proofs.QuoteGClose
import CM.Proofs.QuoteStep2
/-
C09 (block-quote half, with link reference definitions): one line through both line parsers in the coordinates of the
stream machine, without the hypothesis `CloseParaSim`: the bare side carries the one-sided invariant
`TP (GL (D[c:][:s]) s)`, and no line of `D` is a setext heading underline.
-/
namespace CM.Proofs.Quote
open CM CM.Model CM.Gen CM.Proofs.BT CM.Proofs.BSp CM.Proofs.Nest

variable {D a b qa : Bytes} {c : Nat} {x : PExt}

/-- The one-sided invariant of the bare side after `s` bytes of `D[c:]`. -/
abbrev GLs (D : Bytes) (c s : Nat) : List Tree → Prop := GL ((D.drop c).take s) (s : Int)

theorem whole_drop {a : Bytes} (h : Whole a) (c : Nat) : Whole (a.drop c) := by
  rcases h with h | h
  · left; rw [h]; simp
  · by_cases hc : c < a.length
    · right
      rw [List.getLast?_drop, if_neg (by omega)]; exact h
    · left; exact List.drop_eq_nil_of_le (by omega)

/-- The line of the bare side is clean: no NUL, no CR, a line feed only at the end. -/
theorem LineAt.lineClean (h : LineAt D a b qa c) : LineClean (b.take (lineLen b)) := by
  intro j hj
  have hmem : (b.take (lineLen b)).getD j 0 ∈ D := by
    rw [h.split]
    apply List.mem_append_right
    apply List.mem_of_mem_take (i := lineLen b)
    rw [List.getD_eq_getElem?_getD, List.getElem?_eq_getElem hj]
    exact List.getElem_mem _
  have hcl := h.clean _ hmem
  refine ⟨hcl.2.2, hcl.2.1, fun hlf => ?_⟩
  have hl : (b.take (lineLen b)).length = lineLen b := by rw [List.length_take]; exact Nat.min_eq_left (lineLen_le b)
  rw [hl] at hj ⊢
  -- a line feed before the end would end the line earlier
  apply Decidable.byContradiction
  intro hne
  have hlt : j + 1 < lineLen b + 1 := by omega
  have := take_lineLen_noLF b h.noCRb (j + 1) (by omega) ((b.take (lineLen b)).getD j 0) (by
    rw [List.getD_eq_getElem?_getD, List.getElem?_eq_getElem (by rw [hl]; exact hj)]
    simp only [Option.getD_some, List.getElem_take]
    apply List.mem_iff_getElem.mpr
    refine ⟨j, by rw [List.length_take]; have := lineLen_le b; omega, ?_⟩
    simp only [List.getElem_take])
  exact this hlf

theorem tp_docRoot_nil (G : List Tree → Prop) : TP G (docRoot []) := by
  unfold docRoot
  rw [TP_mk]
  refine ⟨fun hp => ?_, fun _ h => by cases h⟩
  exfalso
  have hp' : PKind BK.document := hp
  revert hp'; decide

theorem GL_bd {src : Bytes} {bd bd2 : Int} (hb : bd ≤ bd2) {is : List Tree} (h : GL src bd is) : GL src bd2 is :=
  ⟨h.1, fun t ht => ⟨(h.2 t ht).1, by have := (h.2 t ht).2; omega⟩⟩

/-- **One line through both parsers**: the relation, the panic-freedom of both, and the one-sided invariant. -/
theorem step_relG (h : LineAt D a b qa c) (hul : NoUL (b.take (lineLen b))) (done : List Tree) (lpD lpQ : LP)
    (hDi : LPInv' lpD) (hQ : LPInv' lpQ)
    (hT : lpD.state = stateDescendTerminated → ∃ c0, spineGet lpD.root 1 = some c0 ∧ c0.isOpen = true ∧ hasMatch c0.label.kind)
    (hroot : RootR (envOf (DRq D) D c (a.length - c) qa.length done) lpD.root lpQ.root)
    (htp : TP (GLs D c (a.length - c)) lpD.root) :
    LPInv' ((blocksLP x).line lpD ((D.drop c).take (a.length - c + lineLen b)) (a.length - c)) ∧
    LPInv' ((blocksLP x).line lpQ ((quote D).take (qa.length + (lineLen b + 2))) qa.length) ∧
    RootR (envOf (DRq D) D c (a.length - c + lineLen b) (qa.length + (lineLen b + 2)) done)
      ((blocksLP x).line lpD ((D.drop c).take (a.length - c + lineLen b)) (a.length - c)).root
      ((blocksLP x).line lpQ ((quote D).take (qa.length + (lineLen b + 2))) qa.length).root ∧
    TP (GLs D c (a.length - c + lineLen b))
      ((blocksLP x).line lpD ((D.drop c).take (a.length - c + lineLen b)) (a.length - c)).root := by
  have hls := lineStart_of h (DRq D) done lpD lpQ hDi hQ hroot
  obtain ⟨p1, p2, p3, p4, p5, p6⟩ := reset_fields lpD ((D.drop c).take (a.length - c + lineLen b)) (a.length - c)
  have hlD := h.lineD
  have hpos := lineLen_pos h.bne
  have hlenD : ((D.drop c).take (a.length - c + lineLen b)).length = a.length - c + lineLen b := by
    rw [List.length_take, List.length_drop]; have := h.lenD; omega
  have hline : (lpD.reset ((D.drop c).take (a.length - c + lineLen b)) (a.length - c)).line = b.take (lineLen b) := by
    rw [p4, hlD]
  have hpl : (lpD.reset ((D.drop c).take (a.length - c + lineLen b)) (a.length - c)).line ≠ [] := by
    rw [hline]
    intro e
    have := congrArg List.length e
    rw [List.length_take] at this
    have h3 : 0 < b.length := List.length_pos_iff.mpr h.bne
    simp only [List.length_nil] at *
    omega
  -- the environment of the line
  have hcs : c + (a.length - c + lineLen b) ≤ D.length := h.lenD
  have hs' : qa.length + (lineLen b + 2) ≤ psiE D (c + (a.length - c + lineLen b)) := by
    have e : c + (a.length - c + lineLen b) = a.length + lineLen b := by have := h.cle; omega
    rw [e, psiE_line h.split h.clean.noCR h.whole (lineLen b) hpos (Nat.le_refl _), h.qlen]
    omega
  have HG := gok_envOf x D c (a.length - c + lineLen b) (qa.length + (lineLen b + 2)) done ((a.length - c : Nat) : Int) hcs hs'
  -- the one-sided invariant at the start of the line: a longer source
  have hpre : (D.drop c).take (a.length - c) <+: (D.drop c).take (a.length - c + lineLen b) :=
    List.take_prefix_take_left (by omega)
  have hwh : Whole ((D.drop c).take (a.length - c)) := by
    have e : (D.drop c).take (a.length - c) = a.drop c := by
      rw [h.split, List.drop_append_of_le_length h.cle, List.take_append_of_le_length (by simp)]
      exact List.take_of_length_le (by simp)
    rw [e]; exact whole_drop h.whole c
  have htp1 : TP (GL ((D.drop c).take (a.length - c + lineLen b)) ((a.length - c : Nat) : Int))
      (lpD.reset ((D.drop c).take (a.length - c + lineLen b)) (a.length - c)).root := by
    rw [p1]
    exact TP.mono (fun is hg => GL_mono hpre hwh (Int.le_refl _) hg) _ htp
  have hm : ∀ is, GL ((D.drop c).take (a.length - c + lineLen b)) ((a.length - c : Nat) : Int) is →
      GL ((D.drop c).take (a.length - c + lineLen b)) (((D.drop c).take (a.length - c + lineLen b)).length : Int) is :=
    fun is hg => GL_bd (by rw [hlenD]; omega) hg
  have hA : AppendOK (GL ((D.drop c).take (a.length - c + lineLen b)) ((a.length - c : Nat) : Int))
      (GL ((D.drop c).take (a.length - c + lineLen b)) (((D.drop c).take (a.length - c + lineLen b)).length : Int))
      (lpD.reset ((D.drop c).take (a.length - c + lineLen b)) (a.length - c)).lineStart
      (lpD.reset ((D.drop c).take (a.length - c + lineLen b)) (a.length - c)).line := by
    rw [p3, p4]
    apply GL_append (by rw [hlenD]; omega)
    rw [hlD]; exact h.lineClean
  have hgi : RDS.GI ((D.drop c).take (a.length - c + lineLen b)) ((a.length - c : Nat) : Int) (a.length - c)
      (lpD.reset ((D.drop c).take (a.length - c + lineLen b)) (a.length - c)) :=
    ⟨reset_source _ _ _, p3, p4, goodT_of_tp _ htp1⟩
  have hsim := processLine_simG (x := x) HG hm hA hls htp1 (by rw [hline]; exact hul) hpl
    (reset_LPInv lpD hDi _ _).toInv (reset_LPInv lpQ hQ _ _).toInv (by rw [p6, p1]; exact hT) hgi (Int.le_refl _)
    (by rw [hlenD]; omega)
  refine ⟨blocksLP_line_LPInv' x lpD hDi _ _, blocksLP_line_LPInv' x lpQ hQ _ _, hsim.btw.root, ?_⟩
  have := hsim.tp
  rw [hlenD] at this
  exact this

end CM.Proofs.Quote
