import CM.Proofs.NestTP
/-
C09 (nested documents, with link reference definitions): `closeBlock` on related blocks whose bare side satisfies `TP G`.
(Port of `QuoteClose.closeBlock_rel`; the hypothesis on `onCloseParagraph` is `GOK.close`.)
-/
namespace CM.Proofs.Nest
open CM CM.Model CM.Gen CM.Proofs.BT CM.Proofs.Quote

variable {E : Env} {G : List Tree → Prop}

mutual
theorem closeBlock_rel {x : PExt} (HG : GOK x E G) {e e' : Int} (he : 0 ≤ e) (he' : 0 ≤ e') (hp : E.PR e e') :
    ∀ (b b' : PB), BR E b b' → TP G b → L2 (BR E) (closeBlock x E.src e b) (closeBlock x E.src' e' b')
  | .mk l bs is, .mk l' bs' is', h, htp => by
    have htp' := (TP_mk l bs is).mp htp
    have hb := (BR_mk E _ _ _ _ _ _).mp h
    rw [closeBlock, closeBlock]
    by_cases hc : l.stop ≥ 0
    · have hc' : l'.stop ≥ 0 := by
        have := hb.1.openIff
        by_cases h0 : l'.stop < 0
        · have := this.mp h0; omega
        · omega
      rw [if_pos hc, if_pos hc']
      exact L2.single h
    · have hc' : ¬ l'.stop ≥ 0 := by
        have := hb.1.openIff
        have : l'.stop < 0 := this.mpr (by omega)
        omega
      rw [if_neg hc, if_neg hc']
      simp only []
      have hkids := closeLast_rel HG he he' hp bs bs' hb.2.1 htp'.2
      have hlc := hb.1.close he he' hp
      by_cases hk : (l.kind == BK.list) = true
      · -- list
        have hk' : (l'.kind == BK.list) = true := by rw [hb.1.kind]; exact hk
        rw [if_pos hk, if_pos hk']
        have hloose : listLooseAtClose { l' with stop := e' } bs' = listLooseAtClose { l with stop := e } bs := by
          unfold listLooseAtClose
          rw [listIsLoose_rel hb.2.1]
          show (l'.loose || _) = (l.loose || _)
          rw [hb.1.loose]
        rw [hloose]
        split
        · apply L2.single
          rw [BR_mk]
          exact ⟨hlc.setLoose true, hkids.map₂ _ _ fun a b r => r.setLoose, hb.2.2⟩
        · apply L2.single
          rw [BR_mk]
          exact ⟨hlc, hkids, hb.2.2⟩
      · have hk' : ¬ (l'.kind == BK.list) = true := by rw [hb.1.kind]; exact hk
        rw [if_neg hk, if_neg hk']
        by_cases hk2 : (l.kind == BK.paragraph || l.kind == BK.setextHeading) = true
        · -- paragraph / setext heading
          have hk2' : (l'.kind == BK.paragraph || l'.kind == BK.setextHeading) = true := by rw [hb.1.kind]; exact hk2
          rw [if_pos hk2, if_pos hk2']
          have hk3 : l.kind = BK.paragraph ∨ l.kind = BK.setextHeading := by simpa using hk2
          have hi : L2 (IR E) is is' := by
            have := hb.2.2
            unfold InlR at this
            rw [if_neg (by rcases hk3 with h | h <;> rw [h] <;> decide)] at this
            exact this
          exact HG.close _ _ bs bs' is is' hlc he (htp'.1 hk3).2 hb.2.1 hi (htp'.1 hk3).1
        · have hk2' : ¬ (l'.kind == BK.paragraph || l'.kind == BK.setextHeading) = true := by rw [hb.1.kind]; exact hk2
          rw [if_neg hk2, if_neg hk2']
          by_cases hk4 : (l.kind == BK.indentedCode) = true
          · -- indented code
            have hk4' : (l'.kind == BK.indentedCode) = true := by rw [hb.1.kind]; exact hk4
            rw [if_pos hk4, if_pos hk4']
            have hk5 : l.kind = BK.indentedCode := by simpa using hk4
            have hi : L2 (IR E) is is' := by
              have := hb.2.2
              unfold InlR at this
              rw [if_neg (by rw [hk5]; decide)] at this
              exact this
            apply L2.single
            exact indentedOnClose_rel hlc (by show l.kind ≠ _; rw [hk5]; decide) hb.2.1 hi
          · have hk4' : ¬ (l'.kind == BK.indentedCode) = true := by rw [hb.1.kind]; exact hk4
            rw [if_neg hk4, if_neg hk4']
            apply L2.single
            rw [BR_mk]
            exact ⟨hlc, hkids, hb.2.2⟩
theorem closeLast_rel {x : PExt} (HG : GOK x E G) {e e' : Int} (he : 0 ≤ e) (he' : 0 ≤ e') (hp : E.PR e e') :
    ∀ (bs bs' : List PB), L2 (BR E) bs bs' → (∀ b ∈ bs, TP G b) → L2 (BR E) (closeLast x E.src e bs) (closeLast x E.src' e' bs')
  | [], _, h, _ => by
    cases h
    rw [BSp.closeLast_nil, BSp.closeLast_nil]; exact .nil
  | [b], _, h, htp => by
    cases h with
    | cons r t =>
      cases t
      rw [BSp.closeLast_single, BSp.closeLast_single]
      exact closeBlock_rel HG he he' hp b _ r (htp b (by simp))
  | b :: c :: rest, _, h, htp => by
    cases h with
    | cons r t =>
      cases t with
      | cons r2 t2 =>
        rw [BSp.closeLast_cons, BSp.closeLast_cons]
        exact .cons r (closeLast_rel HG he he' hp (c :: rest) _ (.cons r2 t2) (fun b hb => htp b (List.mem_cons_of_mem _ hb)))
end


end CM.Proofs.Nest
