import CM.Proofs.QuoteGDef
import CM.Proofs.QuoteStep
/-
C09 (with link reference definitions): the position maps `psiS` / `psiE` inside one line, and what the relation `PRabs`
between the ends of corresponding inline nodes says when the node of the bare side lies inside one line: the image
starts behind the prefix (`psiS`) and every position inside corresponds to the position at the same offset.
-/
namespace CM.Proofs.Quote
open CM CM.Model CM.Gen

/-- No line feed in `D[a, a + o)`. -/
def NoLFIn (D : Bytes) (a o : Nat) : Prop := ∀ j, a ≤ j → j < a + o → D.getD j 0 ≠ LF

theorem nLF_noLF (D : Bytes) (a o : Nat) (h : NoLFIn D a o) : nLF D (a + o) = nLF D a := by
  unfold nLF
  rw [List.take_add, List.filter_append, List.length_append]
  have : ((D.drop a).take o).filter (· == LF) = [] := by
    rw [List.filter_eq_nil_iff]
    intro x hx
    obtain ⟨i, hi, rfl⟩ := List.getElem_of_mem hx
    simp only [List.length_take, List.length_drop] at hi
    simp only [List.getElem_take, List.getElem_drop]
    have := h (a + i) (by omega) (by omega)
    rw [List.getD_eq_getElem?_getD, List.getElem?_eq_getElem (by omega)] at this
    simpa using this
  rw [this]; rfl

theorem psiS_add (D : Bytes) (a o : Nat) (h : NoLFIn D a o) : psiS D (a + o) = psiS D a + o := by
  unfold psiS
  rw [nLF_noLF D a o h]; omega

theorem psiE_end (D : Bytes) (a n : Nat) (hn : 1 ≤ n) (h : NoLFIn D a (n - 1)) : psiE D (a + n) = psiS D a + n := by
  unfold psiE psiS
  rw [if_neg (by omega)]
  have e : a + n - 1 = a + (n - 1) := by omega
  rw [e, nLF_noLF D a (n - 1) h]; omega

theorem NoLFIn.mono {D : Bytes} {a o o2 : Nat} (h : NoLFIn D a o2) (ho : o ≤ o2) : NoLFIn D a o :=
  fun j h1 h2 => h j h1 (by omega)

theorem psiS_mono (D : Bytes) {i j : Nat} (h : i ≤ j) : psiS D i ≤ psiS D j := by
  unfold psiS
  have := nLF_le_of_le D h
  omega

/-- **The image of a node that lies inside one line.** -/
theorem prabs_exact {D : Bytes} {c : Nat} {s e s' e' : Int} (hs : PRabs D c s s') (he : PRabs D c e e') (hlt : s < e)
    (hlen : e' - s' = e - s) (hno : NoLFIn D (s.toNat + c) ((e - s).toNat - 1)) :
    s' = (psiS D (s.toNat + c) : Nat) ∧
    ∀ o : Nat, (o : Int) ≤ e - s → PRabs D c (s + o) (s' + o) := by
  obtain ⟨s0, hs'⟩ := hs
  obtain ⟨e0, he'⟩ := he
  have hn : 1 ≤ (e - s).toNat := by omega
  have eB : e.toNat + c = (s.toNat + c) + (e - s).toNat := by omega
  have hE := psiE_end D (s.toNat + c) (e - s).toNat hn hno
  have h1 := psiE_le_psiS D (s.toNat + c)
  have h2 := psiE_le_psiS D (e.toNat + c)
  rw [eB] at he' h2
  have hstart : s' = (psiS D (s.toNat + c) : Nat) := by
    rcases hs' with hs' | hs'
    · exact hs'
    · rcases he' with he' | he' <;> omega
  refine ⟨hstart, ?_⟩
  intro o ho
  refine ⟨by omega, ?_⟩
  have eo : (s + (o : Int)).toNat + c = (s.toNat + c) + o := by omega
  rw [eo]
  by_cases hoe : (o : Int) < e - s
  · left
    rw [psiS_add D _ o (hno.mono (by omega)), hstart]
    omega
  · right
    have : o = (e - s).toNat := by omega
    rw [this, hE, hstart]
    omega

/-- Bytes of a prefix of a suffix of `D`. -/
theorem getD_take_drop (D : Bytes) (c s j : Nat) (hj : j < s) : ((D.drop c).take s).getD j 0 = D.getD (c + j) 0 := by
  simp only [List.getD_eq_getElem?_getD, List.getElem?_take, List.getElem?_drop, hj, if_true]

end CM.Proofs.Quote
