import CM.Proofs.NestRoot
/-
C09 (nested documents): the simulation relation `Sim F E G k p q` between the line parser `p` on a line of the bare
document and the line parser `q` on the prefixed line, after `q` has consumed the `k` bytes of the prefix
(port of `Quote.Sim`: the container of `q` is `F.d` levels deeper; the bare side satisfies `TP G`).
-/
namespace CM.Proofs.Nest
open CM CM.Model CM.Gen CM.Proofs.BT CM.Proofs.Quote

variable {F : Frame} {E : Env} {G : List Tree → Prop}

/-- No suffix of the line is a setext heading underline. -/
def NoUL (l : Bytes) : Prop :=
  ∀ i : Nat, parseSetextHeadingUnderline ((l.drop i).dropWhile (fun c => c == SP || c == TAB)) = 0

structure Sim (F : Frame) (E : Env) (G : List Tree → Prop) (k : Nat) (p q : LP) : Prop where
  cur : CRel k p q
  depth : q.depth = p.depth + F.d
  valid : (spineGet p.root p.depth).isSome
  root : RootR F E p.root q.root
  /-- the one-sided invariant of the bare side -/
  tp : TP G p.root
  /-- the line of the bare side is not a setext heading underline -/
  noul : NoUL p.line
  srcp : p.source = E.src
  srcq : q.source = E.src'
  linep : p.line = p.source.drop p.lineStart
  lsp : p.lineStart ≤ p.source.length
  lineq : q.line = q.source.drop q.lineStart
  lsq : q.lineStart ≤ q.source.length
  here : ∀ j : Nat, j ≤ p.line.length → E.PR ((p.lineStart + j : Nat) : Int) ((q.lineStart + k + j : Nat) : Int)
  start : E.PR (p.lineStart : Int) (q.lineStart : Int)
  /-- corresponding positions lie on the same side of the current line start -/
  ord : ∀ a a' : Int, E.PR a a' → ((p.lineStart : Int) ≤ a ↔ (q.lineStart : Int) ≤ a')

namespace Sim
variable {k : Nat} {p q : LP}

theorem treeOK_p (h : Sim F E G k p q) : TreeOK p := ⟨h.root.pkind, h.valid⟩

theorem validq (h : Sim F E G k p q) : (spineGet q.root q.depth).isSome := by
  rw [h.depth]
  obtain ⟨Qb, ht, hg⟩ := h.root.top
  rw [hg]
  cases hd : p.depth with
  | zero => rw [spineGet_zero]; rfl
  | succ d =>
    have hv := h.valid
    rw [hd] at hv
    cases hc : spineGet p.root (d + 1) with
    | none => rw [hc] at hv; cases hv
    | some c =>
      obtain ⟨c', e', _⟩ := ht.spineGet_succ d hc
      rw [e']; rfl

theorem treeOK_q (h : Sim F E G k p q) : TreeOK q := ⟨h.root.qkind, h.validq⟩

/-- Positions of the current line, in the form `↑lineStart + ↑j`. -/
theorem here' (h : Sim F E G k p q) (j : Nat) (hj : j ≤ p.line.length) :
    E.PR ((p.lineStart : Int) + (j : Int)) ((q.lineStart : Int) + ((j + k : Nat) : Int)) := by
  have := h.here j hj
  have e1 : ((p.lineStart + j : Nat) : Int) = (p.lineStart : Int) + (j : Int) := by omega
  have e2 : ((q.lineStart + k + j : Nat) : Int) = (q.lineStart : Int) + ((j + k : Nat) : Int) := by omega
  rw [e1, e2] at this
  exact this

/-- The position of the cursor. -/
theorem pos (h : Sim F E G k p q) : E.PR ((p.lineStart : Int) + (p.i : Int)) ((q.lineStart : Int) + (q.i : Int)) := by
  have := h.here' p.i h.cur.ile
  rw [← h.cur.i] at this
  exact this

/-- A cursor operation: the tree parts are untouched. -/
theorem cursorOp {p' q' : LP} (h : Sim F E G k p q) (hc : CRel k p' q') (hp : tree p' = tree p) (hq : tree q' = tree q)
    (hlp : p'.line = p.line) (hlq : q'.line = q.line) : Sim F E G k p' q' := by
  simp only [tree, Prod.mk.injEq] at hp hq
  obtain ⟨p1, p2, p3, p4⟩ := hp
  obtain ⟨q1, q2, q3, q4⟩ := hq
  exact ⟨hc, by rw [q3, p3]; exact h.depth, by rw [p2, p3]; exact h.valid, by rw [p2, q2]; exact h.root,
    by rw [p2]; exact h.tp, by rw [hlp]; exact h.noul,
    by rw [p1]; exact h.srcp, by rw [q1]; exact h.srcq, by rw [hlp, p1, p4]; exact h.linep, by rw [p1, p4]; exact h.lsp,
    by rw [hlq, q1, q4]; exact h.lineq, by rw [q1, q4]; exact h.lsq, by rw [hlp, p4, q4]; exact h.here,
    by rw [p4, q4]; exact h.start, by rw [p4, q4]; exact h.ord⟩

theorem advance (h : Sim F E G k p q) (n : Nat) : Sim F E G k (p.advance n) (q.advance n) :=
  h.cursorOp (h.cur.advance n) (advance_tree p n) (advance_tree q n) (advance_line p n) (advance_line q n)

theorem consumeIndentN (h : Sim F E G k p q) (n : Nat) : Sim F E G k (p.consumeIndentN n) (q.consumeIndentN n) :=
  h.cursorOp (h.cur.consumeIndentN n) (consumeIndentN_tree p n) (consumeIndentN_tree q n) (consumeIndentN_line p n)
    (consumeIndentN_line q n)

theorem consumeLine (h : Sim F E G k p q) : Sim F E G k p.consumeLine q.consumeLine :=
  h.cursorOp h.cur.consumeLine (consumeLine_tree p) (consumeLine_tree q) (consumeLine_line p) (consumeLine_line q)

theorem markMatched (h : Sim F E G k p q) : Sim F E G k p.markMatched q.markMatched :=
  h.cursorOp h.cur.markMatched (markMatched_tree p) (markMatched_tree q) (markMatched_line p) (markMatched_line q)

theorem setPanic (h : Sim F E G k p q) (m : String) : Sim F E G k (p.setPanic m) (q.setPanic m) :=
  h.cursorOp (h.cur.setPanic m) (setPanic_tree p m) (setPanic_tree q m) (setPanic_line p m) (setPanic_line q m)

theorem setState (h : Sim F E G k p q) (s : Nat) : Sim F E G k { p with state := s } { q with state := s } :=
  h.cursorOp (h.cur.setState s) rfl rfl rfl rfl

/-- New roots and depths. -/
theorem setRoot (h : Sim F E G k p q) (P2 Q2 : PB) (d2 : Nat) (hr : RootR F E P2 Q2) (htp : TP G P2)
    (hv : (spineGet P2 d2).isSome) :
    Sim F E G k { p with root := P2, depth := d2 } { q with root := Q2, depth := d2 + F.d } :=
  ⟨h.cur.of_eq rfl rfl rfl rfl h.cur.state h.cur.panic, rfl, hv, hr, htp, h.noul, h.srcp, h.srcq, h.linep, h.lsp, h.lineq, h.lsq,
    h.here, h.start, h.ord⟩

/-- The containers: related below the top; document / the frame's container at the top. -/
theorem container (h : Sim F E G k p q) :
    (p.depth = 0 ∧ p.container = p.root ∧ TopR F E p.root q.container) ∨
    (1 ≤ p.depth ∧ BR E p.container q.container) := by
  obtain ⟨Qb, ht, hg⟩ := h.root.top
  cases hd : p.depth with
  | zero =>
    left
    refine ⟨rfl, ?_, ?_⟩
    · simp only [LP.container, hd, spineGet_zero, Option.getD_some]
    · have e : spineGet q.root q.depth = some Qb := by rw [h.depth, hd, hg, spineGet_zero]
      simp only [LP.container, e, Option.getD_some]; exact ht
  | succ d =>
    right
    have hv := h.valid
    rw [hd] at hv
    cases hc : spineGet p.root (d + 1) with
    | none => rw [hc] at hv; cases hv
    | some c =>
      obtain ⟨c', e', r⟩ := h.root.spineGet_succ d hc
      refine ⟨by omega, ?_⟩
      simp only [LP.container, h.depth, hd, hc, e', Option.getD_some]
      exact r

theorem containerKind_pos (h : Sim F E G k p q) (hd : 1 ≤ p.depth) : q.containerKind = p.containerKind := by
  rcases h.container with ⟨h0, _⟩ | ⟨_, r⟩
  · omega
  · exact r.kind

theorem containerKind_zero (h : Sim F E G k p q) (hd : p.depth = 0) :
    p.containerKind = BK.document ∧ q.containerKind = F.top.kind := by
  rcases h.container with ⟨_, e, ht⟩ | ⟨h1, _⟩
  · exact ⟨by simp only [LP.containerKind, e]; exact ht.pkind, ht.qlab.kind⟩
  · omega

theorem top_canContain (F : Frame) (kind : Nat) : canContain F.top.kind kind = Gen.canContain BK.document kind := by
  rcases F.kind_ok with h | h <;> rw [h] <;> rfl

theorem top_acceptsLines (F : Frame) : acceptsLines F.top.kind = Gen.acceptsLines BK.document := by
  rcases F.kind_ok with h | h <;> rw [h] <;> rfl

theorem canContain_eq (h : Sim F E G k p q) (kind : Nat) : canContain q.containerKind kind = Gen.canContain p.containerKind kind := by
  by_cases hd : p.depth = 0
  · obtain ⟨e1, e2⟩ := h.containerKind_zero hd
    rw [e1, e2]; exact top_canContain F kind
  · rw [h.containerKind_pos (by omega)]

theorem acceptsLines_eq (h : Sim F E G k p q) : acceptsLines q.containerKind = Gen.acceptsLines p.containerKind := by
  by_cases hd : p.depth = 0
  · obtain ⟨e1, e2⟩ := h.containerKind_zero hd
    rw [e1, e2]; exact top_acceptsLines F
  · rw [h.containerKind_pos (by omega)]

theorem containerKind_eq_iff (h : Sim F E G k p q) (kd : Nat) (h1 : kd ≠ BK.document) (h2 : kd ≠ F.top.kind) :
    (q.containerKind = kd) ↔ (p.containerKind = kd) := by
  by_cases hd : p.depth = 0
  · obtain ⟨e1, e2⟩ := h.containerKind_zero hd
    rw [e1, e2]
    constructor
    · intro e; exact absurd e.symm h2
    · intro e; exact absurd e.symm h1
  · rw [h.containerKind_pos (by omega)]

/-- Kinds other than the document's and the two possible kinds of the frame's container. -/
theorem containerKind_eq_iff' (h : Sim F E G k p q) (kd : Nat) (h1 : kd ≠ BK.document) (h2 : kd ≠ BK.blockQuote)
    (h3 : kd ≠ BK.listItem) : (q.containerKind = kd) ↔ (p.containerKind = kd) := by
  apply h.containerKind_eq_iff kd h1
  rcases F.kind_ok with e | e <;> rw [e]
  · exact h2
  · exact h3

end Sim

end CM.Proofs.Nest
