import CM.Proofs.InlSpanBracketM
import CM.Proofs.InlSpanRunDefs
/-
C02, inline half — the tokenizer keeps the span invariant: hypotheses (`UnpOK`: the runs of the container are in order
inside it; `TokScan`: facts about the scanners), the invariant `RunInv` of the tokenizer loop, the last group of cases
(`tokC`).
-/
namespace CM.Proofs.InlH
open CM CM.Model CM.Model.Inl CM.Gen
open Std.Do

set_option mvcgen.warning false

/-- The inline children of the container (the input of the inline phase): in order, inside the container, finished
    sub-trees well-formed. -/
structure UnpOK (c : ICtx) (L : Lims) : Prop where
  arr : c.unparsed = c.unparsedL.toArray
  bounds : ∀ i, i < c.unparsed.size → L.lo ≤ (c.unparsed[i]!).label.start ∧
    (c.unparsed[i]!).label.start ≤ (c.unparsed[i]!).label.stop ∧ (c.unparsed[i]!).label.stop ≤ L.hi
  ordered : ∀ i, i + 1 < c.unparsed.size → (c.unparsed[i]!).label.stop ≤ (c.unparsed[i + 1]!).label.start
  kids : ∀ i, i < c.unparsed.size →
    WFL (c.unparsed[i]!).label.start (c.unparsed[i]!).label.stop (c.unparsed[i]!).children

theorem UnpOK.se_le {c : ICtx} {L : Lims} (h : UnpOK c L) {s : IState} (hu : s.unparsedPos < c.unparsed.size) :
    spanEndOf c s ≤ L.hi := by
  rw [spanEndOf_lt c s hu]; exact (h.bounds _ hu).2.2

/-- The invariant of the tokenizer loop on `(pos, plainStart, done)`: the frontier is `plainStart`, which is not beyond
    `pos` nor the end of the current run. -/
def RunInv (L : Lims) (c : ICtx) (v : TokSt) (s : IState) : Prop :=
  SPT L.lo L.hi v.2.1 s ∧ v.2.1 ≤ v.1 ∧ PosOK c s v.2.1

/-- **Hypotheses about the scanners of the tokenizer** (facts about pure code; the first two are proved in
    `InlSpanScan`, see `TokScan.mk'`). The facts about `parseHTMLTag` and `parseCodeSpan` are only asked for where the
    tokenizer calls them: at a `<` resp. at a backtick of the source. -/
structure TokScan (c : ICtx) (hi : Int) : Prop where
  charEsc : ∀ l : Bytes, parseCharacterEscape c.x.ext l ≤ (l.length : Int)
  autolink : ∀ l : Bytes, 0 ≤ parseAutolink l → 2 ≤ parseAutolink l ∧ parseAutolink l ≤ (l.length : Int)
  /-- an HTML tag starts where the reader started, ends inside the container, and the pieces `collectTextNodes` cuts
      it into are in order inside it -/
  html : ∀ (u : Nat) (pos : Int) (span : SpanI) (r' : Rd),
    0 ≤ pos → pos < c.srcA.size → c.srcA[pos.toNat]! = 0x3C →
    parseHTMLTag c.src c.fl (newReader (c.unparsedL.drop u) pos.toNat) = (span, r') → span.isValid = true →
    span.start = pos ∧ pos < span.stop ∧ span.stop ≤ hi ∧
    WFL span.start span.stop
      (collectTextNodes c.x.ext c.src span.stop.toNat IK.rawHTML false c.fl
        (newReader (c.unparsedL.drop u) span.start.toNat) span.start.toNat [])
  /-- a code span starts where the scan started and ends inside the container; `collectCodeSpan` appends one finished
      node with that span, whose children are in order inside it, and leaves the tokenizer in a run that does not end
      before the code span does; an unsuccessful scan does not move backwards -/
  code : ∀ (s s' : IState) (pos : Int) (cs : CodeSpan),
    0 ≤ pos → pos < c.srcA.size → c.srcA[pos.toNat]! = 0x60 →
    (parseCodeSpan c pos).run s = .ok (cs, s') → s.unparsedPos < c.unparsed.size → pos < spanEndOf c s →
    (cs.span.isValid = true →
      cs.span.start = pos ∧ pos < cs.span.stop ∧ cs.span.stop ≤ hi ∧
      ∀ t t' : IState, t.unparsedPos = s.unparsedPos → (collectCodeSpan c cs).run t = .ok ((), t') →
        ∃ n : INode, n.kids = #[] ∧ n.start = cs.span.start ∧ n.stop = cs.span.stop ∧ WFL n.start n.stop n.sub ∧
          t'.nodes = addRootA t.nodes n ∧ t'.stack = t.stack ∧ t'.parentMap.size = t.parentMap.size + 1 ∧
          (∀ i, i < t.parentMap.size → t'.parentMap[i]? = t.parentMap[i]?) ∧ PosOK c t' cs.span.stop) ∧
    (cs.span.isValid = false → pos ≤ cs.content.start)

/-- `spanEndOf` as a function of `unparsedPos` -/
def seAt (c : ICtx) (u : Nat) : Int :=
  if u ≥ c.unparsed.size then
    (match c.unparsed.back? with
     | none => 0
     | some t => t.label.stop)
  else (c.unparsed[u]!).label.stop

theorem spanEndOf_eq_seAt (c : ICtx) (s : IState) : spanEndOf c s = seAt c s.unparsedPos := rfl

theorem PosOK_iff (c : ICtx) (s : IState) (r : Int) :
    PosOK c s r ↔ (s.unparsedPos < c.unparsed.size → r ≤ seAt c s.unparsedPos) := by
  unfold PosOK seAt
  constructor
  · intro h hlt; rw [if_neg (by omega)]; exact h hlt
  · intro h hlt; have := h hlt; rwa [if_neg (by omega)] at this

open Lean Elab Tactic Meta in
/-- Split all conjunctions among the hypotheses. -/
elab "split_ands" : tactic => do
  for _ in [0:96] do
    let g ← getMainGoal
    let found ← g.withContext do
      let mut r : Option FVarId := none
      for d in (← getLCtx) do
        if d.isImplementationDetail then continue
        let ty ← instantiateMVars d.type
        if ty.isAppOfArity ``And 2 then
          r := some d.fvarId
          break
      pure r
    match found with
    | none => return
    | some fv =>
      let subgoals ← g.cases fv
      let some sg := subgoals[0]? | return
      replaceMainGoal [sg.mvarId]

open Lean Elab Tactic Meta in
/-- Express every `spanEndOf` and `PosOK` by `unparsedPos` and rewrite with all the equations `s'.unparsedPos = …` among
    the hypotheses (so that `omega` sees one atom per run). -/
elab "unp_norm" : tactic => do
  evalTactic (← `(tactic| split_ands))
  let g ← getMainGoal
  let ids ← g.withContext do
    let mut r : Array (TSyntax `term) := #[]
    for d in (← getLCtx) do
      if d.isImplementationDetail then continue
      let ty ← instantiateMVars d.type
      if ty.isAppOfArity ``Eq 3 then
        let lhs := ty.getArg! 1
        if lhs.isAppOfArity ``CM.Model.Inl.IState.unparsedPos 1 && (lhs.getArg! 0).isFVar then
          r := r.push (mkIdent d.userName)
    pure r
  -- inaccessible names cannot be written: refer to the hypotheses by their types instead
  evalTactic (← `(tactic| simp -failIfUnchanged only [RunInv, ForInStep.value, spanEndOf_eq_seAt, PosOK_iff] at *))
  for _ in [0:ids.size] do
    evalTactic (← `(tactic| try (
      have hq := ‹IState.unparsedPos _ = _›
      simp -failIfUnchanged only [hq] at *
      clear hq)))

theorem slice_len (a : Array UInt8) (lo hi : Int) (h0 : 0 ≤ lo) (h1 : lo ≤ hi) (h2 : hi ≤ (a.size : Int)) :
    (((a.extract lo.toNat hi.toNat).toList.length : Nat) : Int) = hi - lo := by
  simp only [Array.length_toList, Array.size_extract]
  omega

theorem charEsc_le {c : ICtx} {hi : Int} (hT : TokScan c hi) {pos se : Int} {r : Bytes} (h0 : 0 ≤ pos) (h1 : pos ≤ se)
    (h2 : se ≤ (c.srcA.size : Int)) (hr : r = (c.srcA.extract pos.toNat se.toNat).toList) :
    parseCharacterEscape c.x.ext r ≤ se - pos := by
  have := hT.charEsc r
  rw [hr, slice_len c.srcA pos se h0 h1 h2] at this
  rw [hr]; exact this

theorem autolink_le {c : ICtx} {hi : Int} (hT : TokScan c hi) {pos se : Int} {r : Bytes} (h0 : 0 ≤ pos) (h1 : pos ≤ se)
    (h2 : se ≤ (c.srcA.size : Int)) (hr : r = (c.srcA.extract pos.toNat se.toNat).toList) (hn : 0 ≤ parseAutolink r) :
    2 ≤ parseAutolink r ∧ parseAutolink r ≤ se - pos := by
  have := hT.autolink r hn
  rw [hr, slice_len c.srcA pos se h0 h1 h2] at this
  rw [hr]; exact this

/-- `SPT … F s` from a hypothesis about the same tree (the frontier may have to be raised) -/
macro "sp_here" : tactic =>
  `(tactic| first
    | assumption
    | (apply SP.mono; assumption; omega; omega)
    | (refine SP.congr ?_ rfl rfl rfl; first | assumption | (apply SP.mono; assumption; omega; omega)))

set_option hygiene false in
/-- the common start of the verification conditions of the `tok` functions -/
macro "tok_setup" : tactic =>
  `(tactic| (
    obtain ⟨hs0, ⟨hsp, hpp, hpo⟩, hu, hlt⟩ := ‹_ = _ ∧ RunInv _ _ _ _ ∧ _›
    subst hs0
    have hhi := hU.se_le hu
    have hnn := L.nn
    have hlo := hsp.lo_le
    inl_subst
    simp -failIfUnchanged only [Bool.not_eq_true, Bool.not_eq_false', Bool.not_eq_true', Bool.not_eq_false] at *
    subst_vars
    simp -failIfUnchanged +zetaDelta only [forall_const, true_implies, decide_eq_true_eq, ge_iff_le, Int.not_le,
      Int.not_lt, Bool.not_eq_true] at *))

@[spec 20000]
theorem tokC_specP (L : Lims) (c : ICtx) (hU : UnpOK c L) (hT : TokScan c L.hi) (s : IState) (b : UInt8)
    (pos plainStart : Int) (done : Bool) :
    ⦃fun st => ⌜st = s ∧ RunInv L c (pos, plainStart, done) s ∧ s.unparsedPos < c.unparsed.size ∧
        pos < spanEndOf c s⌝⦄
    tokC c s b pos plainStart done
    ⦃⇓? r st => ⌜RunInv L c r.value st⌝⦄ := by
  mvcgen [tokC, isLastSpan, addText]
  all_goals (try (exact fun h => h))
  all_goals (try (exact ExceptConds.entails.refl _))
  all_goals tok_setup
  all_goals unp_norm
  all_goals (try (have hce := charEsc_le hT ‹0 ≤ pos› ‹pos ≤ _› ‹_ ≤ (c.srcA.size : Int)› ‹_ = Array.toList _›))
  all_goals (first
    | (refine ⟨trivial, ?_, ?_⟩
       · first | assumption | (apply SP.mono; assumption; omega; omega)
       · omega)
    | (refine ⟨trivial, ?_, ?_, ?_⟩
       · first | assumption | (apply SP.mono; assumption; omega; omega)
       · omega
       · omega)
    | (refine ⟨?_, ?_, ?_⟩
       · first | assumption | (apply SP.mono; assumption; omega; omega)
       · omega
       · intro _; omega)
    | skip)

end CM.Proofs.InlH
