import CM.Proofs.EolStream1
import CM.Proofs.EolSim
/-
Towards discharging the `kidsOrd` hypothesis of the stream theorem for inputs without `[` — part 1.

`pbInl b`: every inline tree of the block under construction `b` (at any depth) is *start-minimal*: all the positions of
its nested children are at or after its own start (`inlOK`). Inline trees are created by `CollectInline` (with the
children of an info string) and `addLineText`, and never changed afterwards; this file shows that the tree operations of
the line parser keep `pbInl`.
-/
namespace CM.Proofs
open CM CM.Model CM.Gen CM.Proofs.BT

/-- The nested children of an inline tree lie at or after its start. -/
def inlOK (t : Tree) : Bool := treeGE t.label.start t

mutual
def pbInl : PB → Bool
  | .mk _ bs is => is.all inlOK && pbsInl bs
def pbsInl : List PB → Bool
  | [] => true
  | b :: bs => pbInl b && pbsInl bs
end

theorem pbsInl_iff (bs : List PB) : pbsInl bs = true ↔ ∀ b ∈ bs, pbInl b = true := by
  induction bs with
  | nil => simp [pbsInl]
  | cons b t ih => simp [pbsInl, ih]

theorem pbInl_mk (l : PLabel) (bs : List PB) (is : List Tree) :
    pbInl (.mk l bs is) = true ↔ (∀ t ∈ is, inlOK t = true) ∧ ∀ b ∈ bs, pbInl b = true := by
  rw [pbInl, Bool.and_eq_true, pbsInl_iff, List.all_eq_true]

theorem pbInl_setLabel (f : PLabel → PLabel) (b : PB) : pbInl (b.setLabel f) = pbInl b := by
  cases b; simp only [PB.setLabel, pbInl]

/-! ### The spine -/

theorem mem_dropLast_append {α : Type} {a : α} {l m : List α} (h : a ∈ l.dropLast ++ m) : a ∈ l ∨ a ∈ m := by
  rcases List.mem_append.1 h with h | h
  · exact Or.inl ((List.dropLast_sublist l).subset h)
  · exact Or.inr h

theorem pbInl_spineModify (f : PB → PB) (hf : ∀ c, pbInl c = true → pbInl (f c) = true) :
    ∀ (d : Nat) (b : PB), pbInl b = true → pbInl (spineModify f b d) = true := by
  intro d
  induction d with
  | zero => intro b h; cases b; exact hf _ h
  | succ d ih =>
    intro b h
    obtain ⟨l, bs, is⟩ := b
    simp only [spineModify]
    cases hg : bs.getLast? with
    | none => exact h
    | some c =>
      simp only []
      rw [pbInl_mk] at h ⊢
      refine ⟨h.1, ?_⟩
      intro b' hb'
      rcases mem_dropLast_append hb' with h1 | h1
      · exact h.2 b' h1
      · simp only [List.mem_singleton] at h1
        subst h1
        exact ih c (h.2 c (List.mem_of_getLast? hg))

theorem pbInl_spineReplaceLast (f : PB → List PB) (hf : ∀ c, pbInl c = true → ∀ b' ∈ f c, pbInl b' = true)
    (root : PB) (d : Nat) (h : pbInl root = true) : pbInl (spineReplaceLast f root d) = true := by
  unfold spineReplaceLast
  apply pbInl_spineModify _ _ d root h
  intro c hc
  obtain ⟨l, bs, is⟩ := c
  simp only []
  cases hg : bs.getLast? with
  | none => exact hc
  | some c' =>
    simp only []
    rw [pbInl_mk] at hc ⊢
    refine ⟨hc.1, ?_⟩
    intro b' hb'
    rcases mem_dropLast_append hb' with h1 | h1
    · exact hc.2 b' h1
    · exact hf c' (hc.2 c' (List.mem_of_getLast? hg)) b' h1

theorem pbInl_setBlankFlags (v : Bool) : ∀ (d : Nat) (b : PB), pbInl b = true → pbInl (setBlankFlags v b d) = true := by
  intro d
  induction d with
  | zero => intro b h; cases b; exact h
  | succ d ih =>
    intro b h
    obtain ⟨l, bs, is⟩ := b
    simp only [setBlankFlags]
    cases hg : bs.getLast? with
    | none => exact h
    | some c =>
      simp only []
      rw [pbInl_mk] at h ⊢
      refine ⟨h.1, ?_⟩
      intro b' hb'
      rcases mem_dropLast_append hb' with h1 | h1
      · exact h.2 b' h1
      · simp only [List.mem_singleton] at h1
        subst h1
        exact ih c (h.2 c (List.mem_of_getLast? hg))

/-! ### `close` -/

theorem trim_subset (src : Bytes) : ∀ (ts : List Tree), ∀ t ∈ indentedOnClose.trim src ts, t ∈ ts := by
  intro ts
  induction ts with
  | nil => intro t h; simp [indentedOnClose.trim] at h
  | cons c rest ih =>
    intro t h
    simp only [indentedOnClose.trim] at h
    split at h
    · exact List.mem_cons_of_mem _ (ih t h)
    · exact h

theorem pbInl_indentedOnClose (src : Bytes) (b : PB) (h : pbInl b = true) : pbInl (indentedOnClose src b) = true := by
  obtain ⟨l, bs, is⟩ := b
  simp only [indentedOnClose]
  rw [pbInl_mk] at h ⊢
  refine ⟨?_, h.2⟩
  intro t ht
  rw [List.mem_reverse] at ht
  have h1 := trim_subset src _ t ht
  rw [List.mem_reverse] at h1
  apply h.1
  split at h1
  · rename_i sb prev rest hr
    split at h1
    · rw [List.mem_reverse] at h1
      have : t ∈ is.reverse := by rw [hr]; exact List.mem_cons_of_mem _ h1
      exact List.mem_reverse.1 this
    · exact h1
  · exact h1

/-- The paragraph hook keeps `pbInl` (hypothesis; holds when the source has no `[`). -/
def ParaInl (x : PExt) (src : Bytes) : Prop :=
  ∀ b, pbInl b = true → ∀ b' ∈ onCloseParagraph x src b, pbInl b' = true

theorem paraInl_of_noBracket (x : PExt) {src : Bytes} (h : NoBracket src) : ParaInl x src := by
  intro b hb b' hb'
  obtain ⟨l, bs, is⟩ := b
  rw [onCloseParagraph_noBracket x h] at hb'
  cases is with
  | nil => simp only [List.mem_singleton] at hb'; subst hb'; exact hb
  | cons t rest =>
    simp only [List.mem_singleton] at hb'
    subst hb'
    rw [pbInl_mk] at hb ⊢
    exact ⟨hb.1, by intro b hb; cases hb⟩

theorem pbInl_closeBlock (x : PExt) (src : Bytes) (hP : ParaInl x src) (endPos : Int) :
    ∀ b : PB, pbInl b = true → ∀ b' ∈ closeBlock x src endPos b, pbInl b' = true := by
  intro b
  induction hn : sizeOf b using Nat.strongRecOn generalizing b with
  | ind n ih =>
    obtain ⟨l, bs, is⟩ := b
    intro h
    have hh := (pbInl_mk l bs is).1 h
    have hlast : ∀ b' ∈ closeLast x src endPos bs, pbInl b' = true := by
      have hsz : ∀ c ∈ bs, sizeOf c < n := by
        intro c hc
        subst hn
        have := List.sizeOf_lt_of_mem hc
        simp; omega
      have hbs := hh.2
      clear hn h hh
      induction bs with
      | nil => intro b' hb'; rw [closeLast_nil] at hb'; cases hb'
      | cons c rest ihl =>
        cases rest with
        | nil =>
          rw [closeLast_singleton]
          exact ih (sizeOf c) (hsz c (by simp)) c rfl (hbs c (by simp))
        | cons d rest' =>
          rw [closeLast_cons_cons]
          intro b' hb'
          rcases List.mem_cons.1 hb' with h1 | h1
          · subst h1; exact hbs _ (by simp)
          · exact ihl (fun c' hc' => hsz c' (by simp [hc'])) (fun c' hc' => hbs c' (by simp [hc'])) b' h1
    rw [closeBlock]
    split
    · intro b' hb'; simp only [List.mem_singleton] at hb'; subst hb'; exact h
    · simp only []
      split
      · split
        · intro b' hb'
          simp only [List.mem_singleton] at hb'
          subst hb'
          rw [pbInl_mk]
          refine ⟨hh.1, ?_⟩
          intro c hc
          obtain ⟨c0, hc0, rfl⟩ := List.mem_map.1 hc
          rw [pbInl_setLabel]
          exact hlast c0 hc0
        · intro b' hb'
          simp only [List.mem_singleton] at hb'
          subst hb'
          rw [pbInl_mk]
          exact ⟨hh.1, hlast⟩
      · split
        · exact hP _ (by rw [pbInl_mk]; exact hh)
        · split
          · intro b' hb'
            simp only [List.mem_singleton] at hb'
            subst hb'
            exact pbInl_indentedOnClose src _ (by rw [pbInl_mk]; exact hh)
          · intro b' hb'
            simp only [List.mem_singleton] at hb'
            subst hb'
            rw [pbInl_mk]
            exact ⟨hh.1, hlast⟩

/-! ### The tree operations of the line parser -/

section
variable {x : PExt}

theorem closeContainer_inl (p : LP) (hP : ParaInl x p.source) (endPos : Int) (h : pbInl p.root = true) :
    pbInl (p.closeContainer x endPos).root = true := by
  unfold LP.closeContainer
  split
  · show pbInl ((closeBlock x p.source endPos p.root).headD p.root) = true
    cases hc : closeBlock x p.source endPos p.root with
    | nil => exact h
    | cons b t => exact pbInl_closeBlock x p.source hP endPos p.root h b (by rw [hc]; simp)
  · exact pbInl_spineReplaceLast _ (pbInl_closeBlock x p.source hP endPos) _ _ h

theorem closeLastChild_inl (p : LP) (hP : ParaInl x p.source) (endPos : Int) (h : pbInl p.root = true) :
    pbInl (p.closeLastChild x endPos).root = true :=
  pbInl_spineReplaceLast _ (pbInl_closeBlock x p.source hP endPos) _ _ h

theorem setPanic_root (p : LP) (m : String) : (p.setPanic m).root = p.root := by
  unfold LP.setPanic; split <;> rfl

theorem setPanic_source' (p : LP) (m : String) : (p.setPanic m).source = p.source := by
  unfold LP.setPanic; split <;> rfl

theorem markMatched_root (p : LP) : p.markMatched.root = p.root := by rw [markMatched_eq]

theorem openBlockLoop_inl (kind : Nat) : ∀ (fuel : Nat) (p : LP), ParaInl x p.source → pbInl p.root = true →
    pbInl (LP.openBlockLoop x kind fuel p).root = true := by
  intro fuel
  induction fuel with
  | zero => intro p _ h; exact h
  | succ fuel ih =>
    intro p hP h
    unfold LP.openBlockLoop
    split
    · exact h
    · split
      · rw [setPanic_root]; exact h
      · exact ih _ (by rw [closeContainer_source]; exact hP) (closeContainer_inl p hP _ h)

theorem openBlock_inl (p : LP) (hP : ParaInl x p.source) (kind : Nat) (f : PLabel → PLabel) (h : pbInl p.root = true) :
    pbInl (p.openBlock x kind f).root = true := by
  unfold LP.openBlock
  split
  · rw [setPanic_root]; exact h
  · simp only []
    have h1 : pbInl (LP.openBlockLoop x kind (p.markMatched.depth + 1) p.markMatched).root = true :=
      openBlockLoop_inl kind _ _ (by rw [markMatched_source]; exact hP) (by rw [markMatched_root]; exact h)
    have hs : (LP.openBlockLoop x kind (p.markMatched.depth + 1) p.markMatched).source = p.source := by
      have key : ∀ (fuel : Nat) (q : LP), (LP.openBlockLoop x kind fuel q).source = q.source := by
        intro fuel
        induction fuel with
        | zero => intro q; rfl
        | succ fuel ih =>
          intro q
          unfold LP.openBlockLoop
          split
          · rfl
          · split
            · exact setPanic_source' _ _
            · rw [ih, closeContainer_source]
      rw [key, markMatched_source]
    generalize LP.openBlockLoop x kind (p.markMatched.depth + 1) p.markMatched = q2 at h1 hs
    have h2 := closeLastChild_inl q2 (by rw [hs]; exact hP) (q2.lineStart : Int) h1
    generalize q2.closeLastChild x (q2.lineStart : Int) = q3 at h2
    show pbInl (spineModify _ q3.root q3.depth) = true
    apply pbInl_spineModify _ _ _ _ h2
    intro c hc
    obtain ⟨l, bs, is⟩ := c
    simp only []
    rw [pbInl_mk] at hc ⊢
    refine ⟨hc.1, ?_⟩
    intro b hb
    rcases List.mem_append.1 hb with h3 | h3
    · exact hc.2 b h3
    · simp only [List.mem_singleton] at h3
      subst h3
      rw [pbInl_mk]
      exact ⟨fun t ht => absurd ht (List.not_mem_nil), fun b hb => absurd hb (List.not_mem_nil)⟩

theorem modifyContainer_setLabel_inl (p : LP) (f : PLabel → PLabel) (h : pbInl p.root = true) :
    pbInl (p.modifyContainer (PB.setLabel f)).root = true :=
  pbInl_spineModify _ (fun c hc => by rw [pbInl_setLabel]; exact hc) _ _ h

theorem appendInline_inl (p : LP) (t : Tree) (ht : inlOK t = true) (h : pbInl p.root = true) :
    pbInl (p.appendInline t).root = true := by
  unfold LP.appendInline LP.modifyContainer
  apply pbInl_spineModify _ _ _ _ h
  intro c hc
  obtain ⟨l, bs, is⟩ := c
  simp only []
  rw [pbInl_mk] at hc ⊢
  refine ⟨?_, hc.2⟩
  intro t' ht'
  rcases List.mem_append.1 ht' with h1 | h1
  · exact hc.1 t' h1
  · simp only [List.mem_singleton] at h1; subst h1; exact ht

theorem setContainerIndent_inl (p : LP) (n : Int) (h : pbInl p.root = true) : pbInl (p.setContainerIndent n).root = true := by
  unfold LP.setContainerIndent
  split
  · rw [setPanic_root]; exact h
  · split
    · rw [setPanic_root]; exact h
    · exact modifyContainer_setLabel_inl p _ h

theorem endBlock_inl (p : LP) (hP : ParaInl x p.source) (h : pbInl p.root = true) : pbInl (p.endBlock x).root = true := by
  unfold LP.endBlock
  split
  · rw [setPanic_root]; exact h
  · simp only []
    exact closeContainer_inl _ (by rw [markMatched_source]; exact hP) _ (by rw [markMatched_root]; exact h)

end

end CM.Proofs
