import CM.Proofs.InlSpanRunM
import CM.Proofs.ParseScanLkRunB

/-
C02, inline half, with `LinkScan2` / `TokScan2` — the tokenizer loop and `parseRun`.
(Generated from `InlSpanRunM.lean`: the same proofs with `LinkScan2` in the place of `LinkScan`.)
-/

namespace CM.Proofs.InlH2
open CM CM.Model CM.Model.Inl CM.Gen CM.Spec CM.Proofs CM.Proofs.InlH
open Std.Do

set_option mvcgen.warning false

theorem tokB_specP (L : Lims) (c : ICtx) (hU : UnpOK c L) (hT : TokScan2 c L.hi) (s : IState) (b : UInt8)
    (pos plainStart : Int) (done : Bool) (hb : 0 ≤ pos ∧ pos < c.srcA.size ∧ b = c.srcA[pos.toNat]!) :
    ⦃fun st => ⌜st = s ∧ RunInv L c (pos, plainStart, done) s ∧ s.unparsedPos < c.unparsed.size ∧
        pos < spanEndOf c s⌝⦄
    tokB c s b pos plainStart done
    ⦃⇓? r st => ⌜RunInv L c r.value st⌝⦄ := by
  unfold tokB
  split
  · exact tokSp_specP L c hU s pos plainStart done
  · split
    · rename_i h60
      exact tokCode_specP L c hU hT s pos plainStart done ⟨hb.1, hb.2.1, by rw [← hb.2.2]; simpa using h60⟩
    · split
      · rename_i h3c
        exact tokLt_specP L c hU hT s pos plainStart done ⟨hb.1, hb.2.1, by rw [← hb.2.2]; simpa using h3c⟩
      · exact tokC_specP L c hU hT s b pos plainStart done

/-- One iteration of the tokenizer loop. -/
@[spec 21000]
theorem runBody_specP (L : Lims) (c : ICtx) (hU : UnpOK c L) (hT : TokScan2 c L.hi) (hS : LinkScan2 c L.hi) (x : Nat)
    (st : TokSt) :
    ⦃fun s => ⌜RunInv L c st s⌝⦄ runBody c x st ⦃⇓? r s => ⌜RunInv L c r.value s⌝⦄ := by
  mvcgen [runBody, tokA_specP, -CM.Proofs.InlH.refPart_specP, -CM.Proofs.InlH.parseEndBracket_specP, 
    -CM.Proofs.InlH.tokC_specP, -CM.Proofs.InlH.tokA_specP, -CM.Proofs.InlH.tokCode_specP, 
    -CM.Proofs.InlH.tokLt_specP, -CM.Proofs.InlH.runBody_specP]
  all_goals (try (intros; assumption))
  · -- the precondition of `tokA`
    have hg := ‹¬(!(decide _ && decide _)) = true›
    simp only [Bool.not_eq_true', Bool.not_eq_false', Bool.and_eq_true, decide_eq_true_eq, Bool.not_eq_false] at hg
    inl_subst
    exact ⟨rfl, ‹RunInv _ _ _ _›, hg.1, hg.2⟩
  · -- the specification of `tokB`
    intro s hs h1 h2 h3
    obtain ⟨-, b1, b2, b3⟩ := ‹_ = _ ∧ (0 : Int) ≤ _ ∧ _ ∧ _›
    exact tokB_specP L c hU hT _ _ _ _ _ ⟨b1, b2, b3⟩ s ⟨hs, h1, h2, h3⟩

/-- `parseRun` from the tokenizer loop on. -/
theorem runMain_specP (L : Lims) (c : ICtx) (hU : UnpOK c L) (hT : TokScan2 c L.hi) (hS : LinkScan2 c L.hi) (pos : Int) :
    ⦃fun s => ⌜SPT L.lo L.hi pos s ∧ PosOK c s pos⌝⦄ runMain c pos
    ⦃⇓? _ s => ⌜∃ F, SPT L.lo L.hi F s ∧ PosOK c s F⌝⦄ := by
  mvcgen [runMain, setIgnoreNextIndent, spanEnd, addText, -CM.Proofs.InlH.refPart_specP, 
    -CM.Proofs.InlH.parseEndBracket_specP, -CM.Proofs.InlH.tokC_specP, -CM.Proofs.InlH.tokA_specP, 
    -CM.Proofs.InlH.tokCode_specP, -CM.Proofs.InlH.tokLt_specP, -CM.Proofs.InlH.runBody_specP]
  case inv1 => exact PostCond.mayThrow (fun (q : _ × TokSt) s => ⌜RunInv L c q.2 s⌝)
  case vc4 => exact fun _ _ => L
  inl_norm
  all_goals (try (intros; assumption))
  all_goals (try (exact fun h => h))
  · intro s h
    cases ‹ForInStep TokSt› <;> exact h
  · obtain ⟨h1, h2⟩ := ‹SPT _ _ _ _ ∧ _›
    exact ⟨h1.congr rfl rfl rfl, Int.le_refl _, h2⟩
  · obtain ⟨h1, h2, h3⟩ := ‹RunInv _ _ _ _›
    exact ⟨trivial, h1, hU.se_le' _ (by have := h1.lo_le; have := h1.F_le; omega)⟩
  · intro hq hq2 _
    obtain ⟨h1, h2, h3⟩ := ‹RunInv _ _ _ _›
    refine ⟨_, hq, ?_⟩
    intro hlt
    rw [hq2] at hlt ⊢
    have := h3 hlt
    rw [spanEndOf_lt c _ hlt]
    omega

theorem parseRun'_specP (L : Lims) (c : ICtx) (hU : UnpOK c L) (hT : TokScan2 c L.hi) (hS : LinkScan2 c L.hi)
    (s0 : IState) :
    ⦃fun s => ⌜s = s0 ∧ SPT L.lo L.hi (c.unparsed[s0.unparsedPos]!).label.start s ∧
        s0.unparsedPos < c.unparsed.size⌝⦄
    parseRun' c
    ⦃⇓? _ s => ⌜∃ F, SPT L.lo L.hi F s ∧ PosOK c s F⌝⦄ := by
  mvcgen [parseRun', spanEnd, runMain_specP, -CM.Proofs.InlH.refPart_specP, -CM.Proofs.InlH.parseEndBracket_specP, 
    -CM.Proofs.InlH.tokC_specP, -CM.Proofs.InlH.tokA_specP, -CM.Proofs.InlH.tokCode_specP, 
    -CM.Proofs.InlH.tokLt_specP, -CM.Proofs.InlH.runBody_specP]
  case inv1 =>
    exact PostCond.mayThrow (fun (q : _ × Int) s =>
      ⌜s = s0 ∧ (c.unparsed[s0.unparsedPos]!).label.start ≤ q.2 ∧ q.2 ≤ spanEndOf c s0⌝)
  inl_norm
  all_goals (try (intros; assumption))
  all_goals (try (exact fun h => h))
  · obtain ⟨rfl, h⟩ := ‹_ = s0 ∧ _ ≤ _ ∧ _›
    obtain ⟨rfl, -⟩ := ‹_ = _ ∧ (0 : Int) ≤ _ ∧ _›
    exact ⟨rfl, h⟩
  · obtain ⟨rfl, h1, h2⟩ := ‹_ = s0 ∧ _ ≤ _ ∧ _›
    obtain ⟨rfl, -⟩ := ‹_ = _ ∧ (0 : Int) ≤ _ ∧ _›
    have hg := ‹¬(!decide (_ < _)) = true›
    simp only [Bool.not_eq_true', Bool.not_eq_false', decide_eq_true_eq, Bool.not_eq_false] at hg
    refine ⟨rfl, ?_, ?_⟩
    · show _ ≤ _ + 1; omega
    · show _ + 1 ≤ _; omega
  · obtain ⟨rfl, hsp, hu⟩ := ‹_ = s0 ∧ SPT _ _ _ _ ∧ _›
    obtain ⟨rfl, hr⟩ := ‹_ = _ ∧ _[_]? = some _›
    have e := get!_of_get? hr
    refine ⟨rfl, ?_, ?_⟩
    · show _ ≤ (Tree.label _).start; rw [e]; exact Int.le_refl _
    · show (Tree.label _).start ≤ _
      rw [← e, spanEndOf_lt c _ hu]; exact (hU.bounds _ hu).2.1
  · obtain ⟨rfl, hsp, hu⟩ := ‹_ = s0 ∧ SPT _ _ _ _ ∧ _›
    obtain ⟨rfl, h1, h2⟩ := ‹_ = _ ∧ _ ≤ _ ∧ _›
    have := hU.se_le hu
    exact ⟨hsp.mono h1 (by omega), posOK_of rfl h2⟩
  · obtain ⟨rfl, hsp, hu⟩ := ‹_ = s0 ∧ SPT _ _ _ _ ∧ _›
    obtain ⟨rfl, hr⟩ := ‹_ = _ ∧ _[_]? = some _›
    have e := get!_of_get? hr
    show SPT L.lo L.hi (Tree.label _).start _ ∧ PosOK c _ (Tree.label _).start
    rw [← e]
    refine ⟨hsp, posOK_of rfl ?_⟩
    rw [spanEndOf_lt c _ hu]; exact (hU.bounds _ hu).2.1

/-- **`parseRun` keeps the span invariant**: from a frontier not beyond the start of the run to a frontier not beyond
    the end of the run the tokenizer is in afterwards. -/
theorem parseRun_specP (L : Lims) (c : ICtx) (hU : UnpOK c L) (hT : TokScan2 c L.hi) (hS : LinkScan2 c L.hi)
    (s0 : IState) :
    ⦃fun s => ⌜s = s0 ∧ SPT L.lo L.hi (c.unparsed[s0.unparsedPos]!).label.start s ∧
        s0.unparsedPos < c.unparsed.size⌝⦄
    parseRun c
    ⦃⇓? _ s => ⌜∃ F, SPT L.lo L.hi F s ∧ PosOK c s F⌝⦄ := by
  rw [parseRun_eq]
  exact parseRun'_specP L c hU hT hS s0

end CM.Proofs.InlH2
