import CM.Proofs.EscapedTextRun
/-
C06, the corollary the property names explicitly: **backslash-escaping every ASCII punctuation character of a text
yields that text literally.**  `parseInlines_esc`: the inline phase, run on the paragraph whose source is `esc s`
(followed by the line ending the block phase leaves in the run), returns — no panic, no fuel exhaustion — exactly the
Text leaves `leaves 0 0 s`; `escaped_text_literal`: they are childless Text nodes in source order whose source slices
concatenate to `s`.
-/
namespace CM.Proofs.EscText
open CM CM.Gen CM.Model CM.Model.Inl

/-- The context `parseInlines` builds. -/
def ctxOf (x : IExt) (src : Bytes) (matchRef : Bytes → Bool) (unparsed : List Tree) : ICtx :=
  { x := x, src := src, srcA := src.toArray, unparsed := unparsed.toArray, unparsedL := unparsed,
    matchRef := matchRef, fl := rdFuel src unparsed }

theorem parseBody_esc {c : ICtx} (s tail : Bytes) (cs ce : Int) (h : OneRun c (esc s ++ tail)) (hok : TextOK s tail) :
    (parseBody c).run (mkState cs ce 0 []) = pure ((), mkState cs ce 1 (leaves 0 0 s)) := by
  unfold parseBody
  have hsz : c.unparsed.size = 1 := by rw [h.unparsed]; rfl
  have hrange : ([:c.unparsed.size + 1] : Std.Legacy.Range) = [:2] := by rw [hsz]
  rw [hrange]
  have hup : ∀ up L, (mkState cs ce up L).unparsedPos = up := fun _ _ => rfl
  have hstk : ∀ up L, (mkState cs ce up L).stack = #[] := fun _ _ => rfl
  have h0 : ∀ hh, c.unparsed[0]'hh = mkInline IK.unparsed 0 ((esc s ++ tail).length : Int) := by
    intro hh
    rw [← getElem!_pos c.unparsed 0 hh, h.unparsed]; rfl
  have hk : ∀ k a b, (mkInline k a b).label.kind = k := fun _ _ _ => rfl
  have hb : ∀ k a b, (mkInline k a b).label.isBlock = false := fun _ _ _ => rfl
  simp [StateT.run_bind, Std.Legacy.Range.forIn_eq_forIn_range', Std.Legacy.Range.size, List.range', hsz, hup, h0,
    hk, hb, IK.unparsed, IK.indent, parseRun_esc s tail cs ce h hok, setUnparsedPos_mkState, processEmphasis_empty, hstk]

/-- **The inline phase on an escaped text, as an equation**: no panic, no fuel exhaustion, and the new inline children
    are exactly the Text leaves `leaves 0 0 s`. -/
theorem parseInlines_esc (x : IExt) (matchRef : Bytes → Bool) (s tail : Bytes) (cs ce : Int) (hok : TextOK s tail) :
    parseInlines x (esc s ++ tail) (esc s ++ tail).toArray matchRef cs ce
        [mkInline IK.unparsed 0 ((esc s ++ tail).length : Int)] =
      .ok ((leaves 0 0 s).map textTree) := by
  unfold parseInlines
  have h : OneRun (ctxOf x (esc s ++ tail) matchRef [mkInline IK.unparsed 0 ((esc s ++ tail).length : Int)]) (esc s ++ tail) :=
    ⟨rfl, rfl⟩
  have hrun := parseBody_esc s tail cs ce h hok
  have hs0 : ({ nodes := #[{ kind := 0, start := cs, stop := ce }], parentMap := #[none] } : IState) = mkState cs ce 0 [] := rfl
  simp only [hs0]
  unfold ctxOf at hrun
  rw [hrun]
  simp only [pure, Except.pure]
  rw [export_mkState]

theorem flatMap_congr' {α β} {l : List α} {f g : α → List β} (h : ∀ a ∈ l, f a = g a) : l.flatMap f = l.flatMap g := by
  induction l with
  | nil => rfl
  | cons a l ih =>
    rw [List.flatMap_cons, List.flatMap_cons, h a (by simp), ih (fun b hb => h b (List.mem_cons_of_mem _ hb))]

theorem slice_textTree (src : Bytes) (p : Nat × Nat) (h : p.1 ≤ p.2) : Node.slice src (textTree p) = sl src p := by
  simp [Node.slice, Node.spanValid, textTree, mkInline, Tree.label, sl, h]

/-- **C06, escaped text is literal text.**  Let `s` be a text without line endings and `esc s` the same text with a
    backslash before every ASCII punctuation byte.  The inline phase, run on a paragraph whose source is `esc s`
    (`tail = []`) or `esc s` and the line ending that the block phase leaves in the run (`tail = [LF]`; then `s` must not
    end with two spaces), returns normally; every new inline child is a childless Text node inside the source, the
    children are in source order and disjoint, and their source slices — which is what `(*Inline).Text` returns for
    them and what the renderer escapes and writes — concatenate to `s`. -/
theorem escaped_text_literal (x : IExt) (matchRef : Bytes → Bool) (s tail : Bytes) (cs ce : Int) (hok : TextOK s tail) :
    ∃ kids : List Tree,
      parseInlines x (esc s ++ tail) (esc s ++ tail).toArray matchRef cs ce
        [mkInline IK.unparsed 0 ((esc s ++ tail).length : Int)] = .ok kids ∧
      (∀ t ∈ kids, Node.isI t IK.text = true ∧ t.children = [] ∧
        0 ≤ t.label.start ∧ t.label.start < t.label.stop ∧ t.label.stop ≤ ((esc s).length : Int)) ∧
      kids.Pairwise (fun a b => a.label.stop ≤ b.label.start) ∧
      kids.flatMap (Node.slice (esc s ++ tail)) = s ∧
      kids.flatMap (Node.text x.ext (esc s ++ tail)) = s := by
  refine ⟨_, parseInlines_esc x matchRef s tail cs ce hok, ?_, ?_, ?_, ?_⟩
  · intro t ht
    obtain ⟨p, hp, rfl⟩ := List.mem_map.1 ht
    have := leaves_bounds s 0 0 (Nat.le_refl _) p hp
    refine ⟨rfl, rfl, ?_, ?_, ?_⟩
    · show (0 : Int) ≤ (p.1 : Int); omega
    · show (p.1 : Int) < (p.2 : Int); omega
    · show (p.2 : Int) ≤ _; omega
  · rw [List.pairwise_map]
    exact (leaves_sorted s 0 0 (Nat.le_refl _)).imp (fun {a b} h => by
      show (a.2 : Int) ≤ (b.1 : Int); omega)
  · have := leaves_slices tail s [] 0 (Nat.le_refl _)
    simp only [List.length_nil, List.nil_append, List.drop_nil] at this
    refine Eq.trans ?_ this
    rw [List.flatMap_map]
    apply flatMap_congr'
    intro p hp
    exact slice_textTree _ p (Nat.le_of_lt (leaves_bounds s 0 0 (Nat.le_refl _) p hp).2.1)
  · have := leaves_slices tail s [] 0 (Nat.le_refl _)
    simp only [List.length_nil, List.nil_append, List.drop_nil] at this
    refine Eq.trans ?_ this
    rw [List.flatMap_map]
    apply flatMap_congr'
    intro p hp
    rw [← slice_textTree _ p (Nat.le_of_lt (leaves_bounds s 0 0 (Nat.le_refl _) p hp).2.1)]
    rfl

/-! ### non-vacuity, and the side condition `trail` is needed -/

namespace Examples

/-- tables: every name is an entity, identity case folding, no Unicode classes -/
def x0 : IExt :=
  { ext := { unescape := fun _ => [] }, fold := fun b => b, u := { isZs := fun _ => false, isP := fun _ => false } }

/-- `a*b [c]  <d> 1. e!` (two interior spaces) -/
def s0 : Bytes := "a*b [c]  <d> 1. e! ".toUTF8.toList

example : TextOK s0 [LF] := ⟨by decide +kernel, Or.inr rfl, Or.inr (by decide +kernel)⟩
example : TextOK s0 [] := ⟨by decide +kernel, Or.inl rfl, Or.inl rfl⟩

def slicesOf (src : Bytes) (r : Except IErr (List Tree)) : Option (List Bytes) :=
  match r with
  | .ok k => some (k.map (Node.slice src))
  | .error _ => none

/-- the model evaluated on the instance (independently of the theorem) -/
example : (slicesOf (esc s0 ++ [LF]) (parseInlines x0 (esc s0 ++ [LF]) (esc s0 ++ [LF]).toArray (fun _ => true) 0 27
    [mkInline IK.unparsed 0 ((esc s0 ++ [LF]).length : Int)])).map List.flatten = some s0 := by decide +kernel

/-- **The side condition is needed**: for `s = "a  "` (two trailing spaces) and the run ending in LF, the tokenizer
    skips spaces and line ending together (`parseHardLineBreakSpace`), no hard break is made in the last run, and the
    final Text node is `"a  \n"` — the line ending becomes part of the text. -/
theorem trail_needed :
    slicesOf [0x61, SP, SP, LF] (parseInlines x0 [0x61, SP, SP, LF] #[0x61, SP, SP, LF] (fun _ => true) 0 4
      [mkInline IK.unparsed 0 4]) = some [[0x61, SP, SP, LF]] := by decide +kernel

end Examples

end CM.Proofs.EscText
