import CM.Proofs.RefDefSpansTree
import CM.Proofs.BlocksWellRd
/-
C02, block half — `onCloseParagraph` and `closeBlock` keep `GoodT`.
-/
namespace CM.Proofs.RDS
open CM CM.Model CM.Gen CM.Proofs.BSp CM.Proofs.BT CM.Proofs.BG

/-- The reader of a `NoBracket` paragraph does not see a `[`. -/
theorem current_of_noBracket {src : Bytes} {is : List Tree} (h : NoBracket src is) :
    ∀ first rest, is = first :: rest → ((newReader is first.label.start.toNat).current src).1 ≠ 0x5B := by
  obtain ⟨f, r, e, h1, h2, h3, h4, h5⟩ := h
  intro first rest e'
  rw [e] at e'
  cases e'
  rw [e]
  have hn : ((f.label.start.toNat : Nat) : Int) = f.label.start := Int.toNat_of_nonneg h2
  have hlt : ¬ f.label.start.toNat ≥ src.length := by omega
  have hni : nodeIndexForPosition (f :: r) f.label.start.toNat 0 = some 0 := by
    simp only [nodeIndexForPosition]
    rw [if_neg (by omega)]
    have : spanContains f f.label.start.toNat = true := by
      simp only [spanContains, Node.spanValid, Bool.and_eq_true, decide_eq_true_eq]
      omega
    rw [if_pos this]
  have hcn := currentNode_some_eq (r := newReader (f :: r) f.label.start.toNat) (i := 0) hni
  unfold Rd.current
  split
  · rename_i hge
    exact absurd hge hlt
  · rw [hcn]
    simp only [newReader, List.drop_zero, List.head?_cons, h1, Bool.false_eq_true, if_false]
    split
    · show nullReplacementString.getD 0 0 ≠ 0x5B
      decide
    · exact h5

/-- The orphan paragraph of `onCloseParagraph` (only used for a setext heading). -/
def orphanOf (src : Bytes) (l : PLabel) (is : List Tree) : PB :=
  let blockStart := (is.getLast?.map (·.label.stop)).getD 0
  let endPos := l.stop.toNat
  let body := (src.take endPos).drop blockStart.toNat
  let noWs := (body.reverse.dropWhile isSpaceTabOrLineEnding)
  let lineStartPos : Nat :=
    match noWs with
    | [] => blockStart.toNat
    | u :: _ => blockStart.toNat + (noWs.dropWhile (· == u)).length
  mkPB BK.paragraph blockStart (-1) [mkInline IK.unparsed lineStartPos l.stop]

theorem onCloseParagraph_cons (x : PExt) (src : Bytes) (l : PLabel) (bs : List PB) (first : Tree) (rest : List Tree) :
    onCloseParagraph x src (.mk l bs (first :: rest)) =
      refDefLoop x src (if l.kind == BK.setextHeading then some (orphanOf src l (first :: rest)) else none)
        ((first :: rest).length + 2) (newReader (first :: rest) first.label.start.toNat) l (first :: rest) [] := rfl

/-- `onCloseParagraph` on a good paragraph (or on a closed setext heading with a good orphan). -/
theorem onCloseParagraph_good (x : PExt) (src : Bytes) (bd : Int) (l : PLabel) (bs : List PB) (is : List Tree)
    (hk : PKind l) (hP : ParaGood src bd is) (hbs : ∀ c ∈ bs, GoodT src bd c)
    (ho : l.kind = BK.setextHeading → (∀ t ∈ is, NodeOK src t ∧ t.label.stop ≤ bd) → GoodAll src bd [orphanOf src l is]) :
    GoodAll src bd (onCloseParagraph x src (.mk l bs is)) := by
  cases is with
  | nil =>
    unfold onCloseParagraph
    apply GoodAll.single
    rw [GoodT_mk]
    refine ⟨⟨fun _ => hP, fun hs => ?_⟩, hbs⟩
    rcases hk with hk | ⟨_, hk⟩
    · simp only [PB.kind, PB.label]; rw [hk]; decide
    · simp only [PB.label] at hs; omega
  | cons first rest =>
    rw [onCloseParagraph_cons]
    rcases hP with hN | hNB
    · apply refDefLoop_good x src bd _ _ _ l _ [] _ hk hN (GoodAll.nil src bd)
      intro o ho'
      split at ho'
      · rename_i hks
        simp only [Option.some.injEq] at ho'
        subst ho'
        exact ho (by simpa using hks) hN
      · cases ho'
    · have hc := current_of_noBracket hNB first rest rfl
      simp only [List.length_cons]
      rw [refDefLoop_no_bracket x src _ _ _ l _ hc]
      exact good_whole hk (Or.inr hNB)

/-! ### closeBlock -/

/-- **`closeBlock` keeps `GoodT`**. -/
theorem closeBlock_good (x : PExt) (src : Bytes) (bd : Int) (e : Int) : ∀ b : PB, GoodT src bd b →
    GoodAll src bd (closeBlock x src e b) := by
  apply PB.ind
  intro l bs is ih h
  rw [closeBlock]
  split
  · exact GoodAll.single h
  rename_i hopen
  have hop : l.stop < 0 := by omega
  simp only []
  rw [GoodT_mk] at h
  have hns : l.kind ≠ BK.setextHeading := h.1.2 hop
  -- the children after `closeLast`
  have hcl : ∀ c ∈ closeLast x src e bs, GoodT src bd c := by
    cases hgl : bs.getLast? with
    | none => rw [closeLast_none x src e bs hgl]; exact h.2
    | some c =>
      rw [closeLast_some x src e bs c hgl]
      have hcm : c ∈ bs := List.mem_of_getLast? hgl
      intro c' hc'
      rcases List.mem_append.mp hc' with h' | h'
      · exact h.2 c' ((List.dropLast_sublist bs).subset h')
      · exact ih c hcm (h.2 c hcm) c' h'
  split
  · -- a list
    rename_i hk
    have hkl : l.kind = BK.list := by simpa using hk
    have hb : ∀ (l' : PLabel) (bs' : List PB), l'.kind = BK.list → BlockOK src bd (.mk l' bs' is) := by
      intro l' bs' hk'
      apply BlockOK_of_kind
      · simp only [PB.kind, PB.label]; rw [hk']; decide
      · simp only [PB.kind, PB.label]; rw [hk']; decide
    split
    · apply GoodAll.single
      rw [GoodT_mk]
      refine ⟨hb _ _ hkl, ?_⟩
      intro b hb'
      rw [List.mem_map] at hb'
      obtain ⟨c, hc, rfl⟩ := hb'
      exact GoodT_setLabel (f := fun il => { il with loose := true }) (fun _ => rfl) (fun _ => rfl) (hcl c hc)
    · apply GoodAll.single
      rw [GoodT_mk]
      exact ⟨hb _ _ hkl, hcl⟩
  split
  · -- paragraph (an open block is not a setext heading)
    rename_i hk
    have hkp : l.kind = BK.paragraph := by
      simp only [Bool.or_eq_true, beq_iff_eq] at hk
      rcases hk with hk | hk
      · exact hk
      · exact absurd hk hns
    have hP : ParaGood src bd is := h.1.1 hkp
    apply onCloseParagraph_good x src bd { l with stop := e } bs is (Or.inl hkp) hP h.2
    intro hs _
    exact absurd (show l.kind = BK.setextHeading from hs) hns
  split
  · -- indented code
    rename_i hk
    have hki : l.kind = BK.indentedCode := by simpa using hk
    obtain ⟨is', heq, _⟩ := indentedOnClose_eq src { l with stop := e } bs is
    rw [heq]
    apply GoodAll.single
    rw [GoodT_mk]
    refine ⟨BlockOK_of_kind ?_ ?_, h.2⟩
    · simp only [PB.kind, PB.label]; rw [hki]; decide
    · simp only [PB.kind, PB.label]; rw [hki]; decide
  · rename_i hk1 hk2 hk3
    apply GoodAll.single
    rw [GoodT_mk]
    refine ⟨BlockOK_of_kind ?_ ?_, hcl⟩
    · simp only [PB.kind, PB.label]
      intro hh; apply hk2; simp [hh]
    · simp only [PB.kind, PB.label]; exact hns

end CM.Proofs.RDS
