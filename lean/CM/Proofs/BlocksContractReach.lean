import CM.Proofs.BlocksContractProcess
import CM.Proofs.BlocksContractSource
import CM.Proofs.BlocksTotal
/-
C01 contract for the real block parser — one `L.line` call of the stream machine (a line, or the end of input), and
cutting the first child off.
-/
namespace CM.Proofs
open CM CM.Model CM.Gen CM.Props.C01

/-- What is known about the children `bs` of the document after a line over the source `src`. -/
structure KidsEnd (src : Bytes) (bs : List PB) : Prop where
  ok : bs ≠ [] → KidsOK src 0 bs
  para : ∀ c, bs.getLast? = some c → c.label.stop < 0 → ParaT src.length c
  room : ∀ c, bs.getLast? = some c → c.label.stop < 0 → ∀ a ∈ bs.dropLast, a.label.stop < (src.length : Int)

theorem reset_fields2 (p : LP) (source : Bytes) (ls : Nat) :
    (p.reset source ls).source = source ∧ (p.reset source ls).tabPartial = false := by
  unfold LP.reset LP.updateTabRemaining
  split <;> exact ⟨rfl, rfl⟩

/-- The start of a line: no child, or one open child. -/
def StartKids (src : Bytes) (σ : LP) : Prop :=
  (σ.root.blocks = [] ∧ src = [] ∧ σ.state ≠ stateDescendTerminated) ∨
  (∃ k, σ.root.blocks = [k] ∧ k.label.stop < 0 ∧ src ≠ [] ∧ ParaT src.length k)

/-- **One line.** -/
theorem line_step (H : onCloseParagraph_cuts_target) (x : PExt) (σ : LP) (src ln : Bytes)
    (hroot : RootOK src.length src.length src.length σ.root) (hT : σ.state = stateDescendTerminated → TermOK σ.root)
    (hpad : Padded src) (hpl : Padded ln) (hl : IsLine ln) (hns : ¬ CRLFSplit src ln) (hk : StartKids src σ) :
    KidsEnd (src ++ ln) (processLine x (σ.reset (src ++ ln) src.length)).root.blocks := by
  obtain ⟨r1, r2, r3, r4, r5, r6⟩ := reset_fields σ (src ++ ln) src.length
  obtain ⟨r7, r8⟩ := reset_fields2 σ (src ++ ln) src.length
  have hlnne : ln ≠ [] := hl.1
  have hlen : 0 < ln.length := List.length_pos_iff.mpr hlnne
  have hla := la_reset σ (src ++ ln) hroot (by simp)
  have hs : SrcOK (src ++ ln).length (σ.reset (src ++ ln) src.length) := by
    refine ⟨by rw [r7], by rw [r4, r7, r3], by rw [r3, List.length_append]; omega, by rw [r7]; exact padded_append hpad hpl,
      by rw [r7]; simp [hlnne], fun _ => by rw [r7, r3]; exact goodCut_append hpad hns⟩
  have hto : TopO (σ.reset (src ++ ln) src.length) := by
    rcases hk with ⟨h1, _, _⟩ | ⟨k, h1, h2, h3, h4⟩
    · exact Or.inl (by rw [r1]; exact h1)
    · refine Or.inr ⟨k, by rw [r1]; exact h1, h2, ?_, by rw [r3]; exact h4⟩
      rw [r3]; exact List.length_pos_iff.mpr h3
  have hE : (σ.reset (src ++ ln) src.length).root.blocks = [] → (σ.reset (src ++ ln) src.length).state ≠ stateDescendTerminated := by
    intro he
    rw [r6]
    rcases hk with ⟨_, _, h3⟩ | ⟨k, h1, _⟩
    · exact h3
    · rw [r1, h1] at he; cases he
  have ht := processLine_T H x _ hla hs hto (by rw [r6, r1]; exact hT) hE r5 r8
  have hsrc : (processLine x (σ.reset (src ++ ln) src.length)).source = src ++ ln := by rw [processLine_source, r7]
  exact ⟨fun hne => by have := ht.ok hne; rw [hsrc] at this; exact this, ht.para, ht.room⟩

/-- **The end of input.** -/
theorem eof_step (H : onCloseParagraph_cuts_target) (x : PExt) (σ : LP) (src : Bytes)
    (hroot : RootOK src.length src.length src.length σ.root) (hT : σ.state = stateDescendTerminated → TermOK σ.root)
    (hpad : Padded src) (k : PB) (hb : σ.root.blocks = [k]) (ho : k.label.stop < 0) (hne : src ≠ [])
    (hp : ParaT src.length k) :
    KidsEnd src (processLine x (σ.reset src src.length)).root.blocks := by
  obtain ⟨r1, r2, r3, r4, r5, r6⟩ := reset_fields σ src src.length
  obtain ⟨r7, _⟩ := reset_fields2 σ src src.length
  have hline : (σ.reset src src.length).line = [] := by rw [r4]; simp
  have hl : σ.root.blocks.getLast? = some k := by rw [hb]; rfl
  -- the blocks after the line
  have hblocks : (processLine x (σ.reset src src.length)).root.blocks = closeBlock x src src.length k := by
    generalize hp0 : σ.reset src src.length = p at r1 r2 r3 r6 r7 hline
    unfold processLine
    obtain ⟨d, s, h1, h2⟩ := descend_empty_top x p hline
    generalize descendOpenBlocks x p = r at h1
    obtain ⟨b, p1⟩ := r
    simp only at h1
    subst h1
    simp only
    split
    · rename_i hterm
      have hs' : s = stateDescendTerminated := by simpa using hterm
      obtain ⟨t1, t2⟩ := h2 hs'
      exfalso
      rcases hT (by rw [← r6]; exact t1) with hlc | ⟨c, hc, hm⟩
      · have := hlc k hl
        unfold PBClosed at this; omega
      · rw [hl] at hc; cases hc
        exact t2 k (by rw [r1]; exact hl) (isOpen_eq_true_of_open ho) hm
    · unfold openNewBlocks
      simp only [hline, List.isEmpty_nil, if_true]
      unfold LP.closeContainer
      simp only [beq_self_eq_true, if_true, Bool.false_eq_true, if_false]
      rw [eof_root_blocks x _ _ p.root (by rw [r1]; exact hroot.kind) (by rw [r1]; exact hroot.stop)]
      have hb' : p.root.blocks = [] ++ [k] := by rw [r1]; exact hb
      rw [replLast_blocks_append _ _ hb', r7, r3]; rfl
  rw [hblocks]
  have hns : k.label.kind ≠ BK.setextHeading := (hroot.kids.kid k (by rw [hb]; simp)).notSetext ho
  -- closing the child at the end of the source
  let q : LP := { source := src, root := σ.root, lineStart := src.length, line := [] }
  obtain ⟨c1, c2, c3⟩ := close_old_ls' (p := q) H x hpad (cutAt_length hpad hne) (Nat.le_refl _) hns ho hp
  have c2' : Chain src (src.length : Int) 0 (closeBlock x src src.length k) := c2
  have c3' : Gap src (lastStop 0 (closeBlock x src src.length k)).toNat src.length := c3
  have hcl := c2'.closed (Int.le_refl _)
  refine ⟨fun _ => ?_, fun c hc hco => ?_, fun c hc hco => ?_⟩
  · have := kidsOK_of_chain_closed (Int.le_refl 0) c2' (isBlankLine_drop_of_gap c3')
    simpa using this
  · have := hcl c (List.mem_of_getLast? hc)
    unfold PBClosed at this; omega
  · have := hcl c (List.mem_of_getLast? hc)
    unfold PBClosed at this; omega

end CM.Proofs
