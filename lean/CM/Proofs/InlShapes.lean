import CM.Proofs.InlExport
import CM.Proofs.InlCollect
import CM.Proofs.InlCharRef
import CM.Proofs.InlRefs
import CM.Spec.HtmlWF
/-
Invariant C (part of C07 / C13, the renderer's precondition `Spec.safePre`): every CharacterReference node the inline
phase makes spans `&…;` (`Spec.charRefShape` of its source slice) and every SoftLineBreak node spans exactly a line
ending (LF, CR or CR LF).  `parseInlines_safePre` for one container, `rewriteE_safePre` for `Rewrite`
(`srcA` must be the source as an array, as in `CM.Model.rewrite`).
-/
namespace CM.Proofs.InlH
open CM CM.Model CM.Model.Inl CM.Spec

/-- `spanSlice(src, [a, b))` as `Node.slice` computes it. -/
def sliceI (src : Bytes) (a b : Int) : Bytes :=
  if (decide (a ≥ 0) && decide (b ≥ 0) && decide (a ≤ b)) = true then (src.drop a.toNat).take (b - a).toNat else []

theorem slice_eq (src : Bytes) (t : Tree) : Node.slice src t = sliceI src t.label.start t.label.stop := rfl

def isEolByte (c : UInt8) : Bool := c == LF || c == CR

/-- `safePreAt` read on the fields of a label. -/
def SafeAt (src : Bytes) (kind : Nat) (a b : Int) : Prop :=
  (kind = IK.charRef → charRefShape (sliceI src a b) = true) ∧
  (kind = IK.softBreak → (sliceI src a b).all isEolByte = true)

theorem safePreAt_iff (src : Bytes) (t : Tree) (hb : t.label.isBlock = false) :
    safePreAt src t = true ↔ SafeAt src t.label.kind t.label.start t.label.stop := by
  unfold safePreAt SafeAt T.isI
  rw [slice_eq, hb]
  simp only [Bool.not_false, Bool.true_and, beq_iff_eq, Bool.and_eq_true]
  constructor
  · rintro ⟨h1, h2⟩
    exact ⟨fun hk => by rw [if_pos hk] at h1; exact h1, fun hk => by rw [if_pos hk] at h2; exact h2⟩
  · rintro ⟨h1, h2⟩
    refine ⟨?_, ?_⟩
    · split
      · exact h1 ‹_›
      · rfl
    · split
      · exact h2 ‹_›
      · rfl

theorem safePreAt_block (src : Bytes) (t : Tree) (hb : t.label.isBlock = true) : safePreAt src t = true := by
  unfold safePreAt T.isI
  rw [hb]; rfl

theorem SafeAt.other {src : Bytes} {k : Nat} {a b : Int} (h1 : k ≠ IK.charRef) (h2 : k ≠ IK.softBreak) :
    SafeAt src k a b := ⟨fun h => absurd h h1, fun h => absurd h h2⟩

/-- The arena invariant. -/
def φC (src : Bytes) (m : INode) : Prop :=
  SafeAt src m.kind m.start m.stop ∧ ∀ t ∈ T.nodesL m.sub, safePreAt src t = true

/-- Hypothesis on the block-phase inline children (they are Text / Indent / … leaves there). -/
def InSafe (src : Bytes) (unparsed : List Tree) : Prop :=
  ∀ u ∈ unparsed, u.label.isBlock = false → isUnparsed u = false → ∀ t ∈ T.nodes u, safePreAt src t = true

/-! ### the two sites -/

theorem sliceI_nat (src : Bytes) (p e : Nat) : sliceI src (p : Int) ((p : Int) + (e : Int)) = (src.drop p).take e := by
  unfold sliceI
  have h1 : (decide ((p : Int) ≥ 0) && decide ((p : Int) + (e : Int) ≥ 0) && decide ((p : Int) ≤ (p : Int) + (e : Int))) = true := by
    simp only [Bool.and_eq_true, decide_eq_true_eq]
    omega
  rw [if_pos h1]
  have h2 : ((p : Int) + (e : Int) - (p : Int)).toNat = e := by omega
  rw [h2, Int.toNat_natCast]

/-- a character reference found in a prefix of `src.drop p` -/
theorem charRef_site (ext : Ext) (src : Bytes) (p k e : Nat)
    (h : parseCharacterEscape ext ((src.drop p).take k) = Int.ofNat e) :
    charRefShape (sliceI src (p : Int) ((p : Int) + (e : Int))) = true := by
  obtain ⟨hle, hsh⟩ := parseCharacterEscape_shape ext _ e h
  rw [sliceI_nat]
  rw [List.take_take] at hsh
  have : min e k = e := by
    rw [List.length_take] at hle
    omega
  rw [this] at hsh
  exact hsh

theorem softBreak_one (src : Bytes) (p : Nat) (hp : p < src.length) (hc : isEolByte src[p] = true) :
    (sliceI src (p : Int) ((p : Int) + 1)).all isEolByte = true := by
  have h := sliceI_nat src p 1
  have h' : ((1 : Nat) : Int) = 1 := rfl
  rw [h'] at h
  rw [h, List.drop_eq_getElem_cons hp, List.take_succ_cons, List.take_zero, List.all_cons, hc]
  rfl

theorem softBreak_two (src : Bytes) (p : Nat) (hp : p + 1 < src.length) (h1 : src[p] = CR) (h2 : src[p + 1] = LF) :
    (sliceI src (p : Int) ((p : Int) + 2)).all isEolByte = true := by
  have h := sliceI_nat src p 2
  have h' : ((2 : Nat) : Int) = 2 := rfl
  rw [h'] at h
  rw [h, List.drop_eq_getElem_cons (by omega : p < src.length), List.drop_eq_getElem_cons hp]
  simp [h1, h2, isEolByte]

/-! ### the invariant -/

theorem φC.other {src : Bytes} {m : INode} (h1 : m.kind ≠ IK.charRef) (h2 : m.kind ≠ IK.softBreak)
    (hs : ∀ t ∈ T.nodesL m.sub, safePreAt src t = true) : φC src m := ⟨SafeAt.other h1 h2, hs⟩

theorem noSub {src : Bytes} : ∀ t ∈ T.nodesL ([] : List Tree), safePreAt src t = true :=
  fun t ht => by simp [T.nodesL] at ht

theorem safe_mkInline (src : Bytes) (k : Nat) (a b : Int) (hk : SafeAt src k a b) :
    ∀ u ∈ T.nodes (Model.mkInline k a b), safePreAt src u = true := by
  intro u hu
  rw [Model.mkInline, T.nodes, T.nodesL, List.mem_singleton] at hu
  subst hu
  exact (safePreAt_iff src _ rfl).2 hk

theorem safe_all {src : Bytes} {ts : List Tree} (h : ∀ c ∈ ts, ∀ u ∈ T.nodes c, safePreAt src u = true) :
    ∀ t ∈ T.nodesL ts, safePreAt src t = true := by
  intro t ht
  obtain ⟨c, hc, htc⟩ := mem_nodesL ht
  exact h c hc t htc

theorem collect_safe (ext : Ext) (src : Bytes) (stop textKind : Nat) (escapes : Bool)
    (h1 : textKind ≠ IK.charRef) (h2 : textKind ≠ IK.softBreak)
    (spans : List Tree) (hin : InSafe src spans) (fuel k p ps : Nat) :
    ∀ t ∈ T.nodesL (collectTextNodes ext src stop textKind escapes fuel (newReader (spans.drop k) p) ps []),
      safePreAt src t = true := by
  apply safe_all
  exact collect_all ext src stop textKind escapes (fun c => ∀ u ∈ T.nodes c, safePreAt src u = true)
    (fun a b => safe_mkInline src _ a b (SafeAt.other h1 h2))
    (fun p k e he => safe_mkInline src _ _ _ ⟨fun _ => charRef_site ext src p k e he, fun h => by cases h⟩) spans
    (fun t ht hi => hin t ht (isIndent_inline hi).1 (isIndent_inline hi).2) fuel k p ps

/-- `φC` is an invariant of the arena (for `srcA` the source as an array). -/
theorem nodeInv_C (x : IExt) (src : Bytes) (matchRef : Bytes → Bool) (unparsed : List Tree)
    (hin : InSafe src unparsed) : NodeInv (inlCtx x src src.toArray matchRef unparsed) (φC src) where
  text a b := φC.other (by dsimp only; decide) (by dsimp only; decide) noSub
  hardBreak a b := φC.other (by dsimp only; decide) (by dsimp only; decide) noSub
  charRef pos se e h0 h1 h2 he hp := by
    refine ⟨⟨fun _ => ?_, fun h => absurd h (by dsimp only; decide)⟩, noSub⟩
    obtain ⟨p, rfl⟩ := Int.eq_ofNat_of_zero_le h0
    obtain ⟨e', rfl⟩ := Int.eq_ofNat_of_zero_le he
    have hp' : parseCharacterEscape x.ext ((src.drop p).take (se.toNat - p)) = Int.ofNat e' := by
      have : ((inlCtx x src src.toArray matchRef unparsed).srcA.extract (p : Int).toNat se.toNat).toList
          = (src.drop p).take (se.toNat - p) := by
        simp [inlCtx, List.extract_eq_take_drop]
      rw [← this]; exact hp
    exact charRef_site x.ext src p _ e' hp'
  softBreak1 pos h0 h1 hc := by
    refine ⟨⟨fun h => absurd h (by dsimp only; decide), fun _ => ?_⟩, noSub⟩
    obtain ⟨p, rfl⟩ := Int.eq_ofNat_of_zero_le h0
    have hp : p < src.length := by simpa [inlCtx] using h1
    have hget : (inlCtx x src src.toArray matchRef unparsed).srcA[(p : Int).toNat]! = src[p] := by
      simp only [inlCtx, Int.toNat_natCast, List.getElem!_toArray]
      rw [getElem!_pos src p hp]
    rw [hget] at hc
    exact softBreak_one src p hp (by unfold isEolByte; rcases hc with h | h <;> simp [h])
  softBreak2 pos h0 h1 hc hl := by
    refine ⟨⟨fun h => absurd h (by dsimp only; decide), fun _ => ?_⟩, noSub⟩
    obtain ⟨p, rfl⟩ := Int.eq_ofNat_of_zero_le h0
    have hp : p + 1 < src.length := by
      have : ((p : Int) + 1) < (src.length : Int) := by simpa [inlCtx] using h1
      omega
    have hget1 : (inlCtx x src src.toArray matchRef unparsed).srcA[(p : Int).toNat]! = src[p] := by
      simp only [inlCtx, Int.toNat_natCast, List.getElem!_toArray]
      rw [getElem!_pos src p (by omega)]
    have hget2 : (inlCtx x src src.toArray matchRef unparsed).srcA[((p : Int) + 1).toNat]! = src[p + 1] := by
      have : ((p : Int) + 1).toNat = p + 1 := by omega
      simp only [inlCtx, this, List.getElem!_toArray]
      rw [getElem!_pos src (p + 1) hp]
    rw [hget1] at hc
    rw [hget2] at hl
    exact softBreak_two src p hp hc hl
  wrapped k a b hk := φC.other (by rcases hk with rfl | rfl | rfl | rfl <;> (dsimp only; decide))
    (by rcases hk with rfl | rfl | rfl | rfl <;> (dsimp only; decide)) noSub
  imported t ht hb _ hk := by
    have hu : isUnparsed t = false := by
      unfold isUnparsed Node.isI
      simp [hk]
    have hall := hin t (by simpa [inlCtx] using ht) hb hu
    exact ⟨(safePreAt_iff src t hb).1 (hall t (self_mem_nodes t)), fun u hu' => hall u (nodesL_children_sub hu')⟩
  codeSpan a b ks hks := by
    refine φC.other (by dsimp only; decide) (by dsimp only; decide) (safe_all fun c hc u hu => ?_)
    obtain ⟨k, hk, rfl⟩ := List.mem_map.1 hc
    rw [CSN.toTree, T.nodes, T.nodesL, List.mem_singleton] at hu
    subst hu
    refine (safePreAt_iff src _ rfl).2 (SafeAt.other ?_ ?_)
    · rcases hks k (Array.mem_toList_iff.1 hk) with h | h <;> (show k.kind ≠ _; rw [h]; decide)
    · rcases hks k (Array.mem_toList_iff.1 hk) with h | h <;> (show k.kind ≠ _; rw [h]; decide)
  autolink a b a' b' := by
    refine φC.other (by dsimp only; decide) (by dsimp only; decide) (safe_all fun c hc u hu => ?_)
    rw [List.mem_singleton] at hc
    subst hc
    exact safe_mkInline src _ _ _ (SafeAt.other (by decide) (by decide)) u hu
  htmlTag a b stop fuel k p ps := φC.other (by dsimp only; decide) (by dsimp only; decide)
    (collect_safe _ _ _ _ _ (by decide) (by decide) unparsed hin fuel k p ps)
  linkDest a b stop fuel k p ps := φC.other (by dsimp only; decide) (by dsimp only; decide)
    (collect_safe _ _ _ _ _ (by decide) (by decide) unparsed hin fuel k p ps)
  linkDestEmpty a b := φC.other (by dsimp only; decide) (by dsimp only; decide) noSub
  linkTitle a b stop fuel k p ps := φC.other (by dsimp only; decide) (by dsimp only; decide)
    (collect_safe _ _ _ _ _ (by decide) (by decide) unparsed hin fuel k p ps)
  linkTitleEmpty a b := φC.other (by dsimp only; decide) (by dsimp only; decide) noSub
  linkLabel a b stop fuel k p ps ref _ := φC.other (by dsimp only; decide) (by dsimp only; decide)
    (collect_safe _ _ _ _ _ (by decide) (by decide) unparsed hin fuel k p ps)
  modKids n ks h := h
  modSpan n a b h hk := by
    refine ⟨SafeAt.other ?_ ?_, h.2⟩
    · show n.kind ≠ IK.charRef
      intro h'; rw [h'] at hk; exact absurd hk (by decide)
    · show n.kind ≠ IK.softBreak
      intro h'; rw [h'] at hk; exact absurd hk (by decide)
  modLink n a b r h hk _ := by
    refine ⟨SafeAt.other ?_ ?_, h.2⟩
    · show n.kind ≠ IK.charRef
      rcases hk with h' | h' <;> (rw [h']; decide)
    · show n.kind ≠ IK.softBreak
      rcases hk with h' | h' <;> (rw [h']; decide)

theorem safe_of_fromArena {src : Bytes} {t : Tree} (h : FromArena (φC src) t) : safePreAt src t = true := by
  rcases h with (rfl | rfl) | ⟨m, hm, hl | hs⟩
  · rfl
  · rfl
  · have hb : t.label.isBlock = false := by rw [hl]; rfl
    rw [safePreAt_iff src t hb, hl]
    exact hm.1
  · exact hm.2 t hs

/-- INVARIANT C for one container: every node (any depth) of the new children satisfies the renderer's
    precondition `safePreAt`: a CharacterReference spans `&…;`, a SoftLineBreak spans a line ending. -/
theorem parseInlines_safePre (x : IExt) (src : Bytes) (matchRef : Bytes → Bool) (cstart cstop : Int)
    (unparsed kids : List Tree) (hin : InSafe src unparsed)
    (h : parseInlines x src src.toArray matchRef cstart cstop unparsed = .ok kids) :
    ∀ t ∈ T.nodesL kids, safePreAt src t = true := fun t ht =>
  safe_of_fromArena
    (parseInlines_nodes x src src.toArray matchRef cstart cstop unparsed (φC src) (nodeInv_C x src matchRef unparsed hin)
      (φC.other (by dsimp only; decide) (by dsimp only; decide) noSub) kids h t ht)

/-- …spelled out. -/
theorem parseInlines_charRef_softBreak (x : IExt) (src : Bytes) (matchRef : Bytes → Bool) (cstart cstop : Int)
    (unparsed kids : List Tree) (hin : InSafe src unparsed)
    (h : parseInlines x src src.toArray matchRef cstart cstop unparsed = .ok kids) :
    ∀ t ∈ T.nodesL kids,
      (T.isI t IK.charRef = true → charRefShape (Node.slice src t) = true) ∧
      (T.isI t IK.softBreak = true → ∀ c ∈ Node.slice src t, c = LF ∨ c = CR) := by
  intro t ht
  have hs := parseInlines_safePre x src matchRef cstart cstop unparsed kids hin h t ht
  unfold safePreAt at hs
  simp only [Bool.and_eq_true] at hs
  refine ⟨fun hk => by rw [if_pos hk] at hs; exact hs.1, fun hk c hc => ?_⟩
  have h2 := hs.2
  rw [if_pos hk, List.all_eq_true] at h2
  simpa using h2 c hc

/-- INVARIANT C for `Rewrite`: `Spec.safePre` is established, provided the CharacterReference nodes the block phase
    made itself (in info strings and link reference definitions) have it. -/
theorem rewriteE_safePre (x : IExt) (src : Bytes) (matchRef : Bytes → Bool) (t t' : Tree)
    (hpre : safePre src t = true)
    (h : rewriteE x src src.toArray matchRef t = .ok t') :
    safePre src t' = true := by
  unfold safePre at hpre ⊢
  rw [List.all_eq_true] at hpre ⊢
  obtain ⟨hs, hcont⟩ := surv_conts_of_all (Q := fun u => safePreAt src u = true) t hpre
  exact rewriteE_nodes x src src.toArray matchRef (fun u => safePreAt src u = true) (fun _ cs => InSafe src cs)
    (fun l cs kids hR hp => parseInlines_safePre x src matchRef l.start l.stop cs kids hR hp)
    (fun l cs cs' _ hb => safePreAt_block src _ hb) t.size t t' (Nat.le_refl _) hs
    (fun p hp c hc _ _ v hv => hcont p hp c hc v hv) h

/-- For the model's `rewrite` (which marks a panic or an exhausted bound by a childless marker block). -/
theorem rewrite_safePre (x : IExt) (src : Bytes) (matchRef : Bytes → Bool) (t : Tree)
    (hpre : safePre src t = true) : safePre src (CM.Model.rewrite x src t matchRef) = true := by
  unfold CM.Model.rewrite
  split
  · rename_i t' h
    exact rewriteE_safePre x src matchRef t t' hpre h
  · rename_i e _
    cases e <;> rfl

end CM.Proofs.InlH
