import CM.Model.Filter
import CM.Spec.Tokenizer
import CM.Basic.Forall
/-
Definitions and basic facts for the "sites" argument about the stateless tag filter:
a *site* is a `<` directly followed by an ASCII letter; the filter shows `nameAt rest` (the lower-cased
`[A-Za-z][A-Za-z0-9-]*` run after the `<`) to the predicate. `sitesOK p html` says that no site of `html`
has a name that `p` rejects.
-/
namespace CM.Proofs
open CM CM.Model

/-! ### Definitions -/

/-- A character that `htmlTagNameEnd` accepts after the first letter of a tag name. -/
def nameChar (c : UInt8) : Bool := Gen.isASCIILetter c || Gen.isASCIIDigit c || c == 0x2D

/-- What the filter shows to the predicate for a `<` followed by `rest`. -/
def nameAt (rest : Bytes) : Bytes := Model.lower (rest.take (Model.htmlTagNameEnd rest))

/-- No `<` + letter whose name candidate `p` rejects. -/
def sitesOK (p : Bytes → Bool) : Bytes → Bool
  | [] => true
  | c :: rest =>
    (!(c == 0x3C && (match rest with | d :: _ => Gen.isASCIILetter d | [] => false) && p (nameAt rest)))
      && sitesOK p rest

/-- `p` is closed under cutting a name at its first byte that is not a letter, a digit or `-`
    (the filter's notion of where a tag name ends). -/
def NameClosed (p : Bytes → Bool) : Prop := ∀ n, p n = true → p (n.takeWhile nameChar) = true

/-- Does the text start with an ASCII letter? -/
def startsLetter : Bytes → Bool
  | d :: _ => Gen.isASCIILetter d
  | [] => false

/-- Does the text start with a name character? -/
def startsNameChar : Bytes → Bool
  | d :: _ => nameChar d
  | [] => false

/-- The text after one `<` is not a rejected site. -/
def siteOK (p : Bytes → Bool) (rest : Bytes) : Bool := !(startsLetter rest && p (nameAt rest))

/-- No `<` at all. -/
def noLt (a : Bytes) : Bool := a.all (fun c => c != 0x3C)

/-- Not a delimiter of the tokenizer's tag-name state. -/
def notDelim (c : UInt8) : Bool := !(Spec.isHtmlWs c || c == 0x2F || c == 0x3E)

namespace FilterSites

/-! ### Byte facts (all 256 bytes, kernel evaluation) -/

theorem letter_eq : ∀ c : UInt8, Spec.isASCIILetter c = Gen.isASCIILetter c := by
  apply forall_uint8; decide +kernel

theorem lower_eq : ∀ c : UInt8, (if 0x41 ≤ c && c ≤ 0x5A then c - 0x41 + 0x61 else c) = Spec.lowerByte c := by
  apply forall_uint8; decide +kernel

theorem nameChar_lower : ∀ c : UInt8, nameChar (Spec.lowerByte c) = nameChar c := by
  apply forall_uint8; decide +kernel

theorem nameChar_notDelim : ∀ c : UInt8, nameChar c = true → notDelim c = true := by
  apply forall_uint8; decide +kernel

theorem letter_nameChar : ∀ c : UInt8, Gen.isASCIILetter c = true → nameChar c = true := by
  apply forall_uint8; decide +kernel

theorem not_nameChar_not_letter : ∀ c : UInt8, nameChar c = false → Gen.isASCIILetter c = false := by
  apply forall_uint8; decide +kernel

/-- What a letter is not. -/
theorem letter_facts : ∀ c : UInt8, Gen.isASCIILetter c = true →
    c ≠ 0x3E ∧ c ≠ 0x2F ∧ c ≠ 0x21 ∧ c ≠ 0x3F ∧ c ≠ 0x3C ∧ c ≠ 0x3D ∧ Spec.isHtmlWs c = false := by
  apply forall_uint8; decide +kernel

theorem nameChar_ne_lt : ∀ c : UInt8, nameChar c = true → c ≠ 0x3C := by
  apply forall_uint8; decide +kernel

theorem nameChar_lt : nameChar 0x3C = false := by decide +kernel
theorem nameChar_amp : nameChar 0x26 = false := by decide +kernel
theorem nameChar_cr : nameChar 0x0D = false := by decide +kernel
theorem nameChar_lf : nameChar 0x0A = false := by decide +kernel
theorem letter_lt : Gen.isASCIILetter 0x3C = false := by decide +kernel
theorem letter_amp : Gen.isASCIILetter 0x26 = false := by decide +kernel
theorem letter_cr : Gen.isASCIILetter 0x0D = false := by decide +kernel
theorem letter_lf : Gen.isASCIILetter 0x0A = false := by decide +kernel

theorem lower_map (x : Bytes) : lower x = x.map Spec.lowerByte := by
  unfold lower
  apply List.map_congr_left
  intro c _
  exact lower_eq c

/-! ### Closed forms -/

theorem htmlTagNameEnd_cons (b : UInt8) (rest : Bytes) :
    htmlTagNameEnd (b :: rest) = if !Gen.isASCIILetter b then 0 else 1 + (rest.takeWhile nameChar).length := rfl

theorem take_length_takeWhile (f : UInt8 → Bool) : ∀ r : Bytes, r.take (r.takeWhile f).length = r.takeWhile f
  | [] => by simp
  | c :: r => by
    by_cases h : f c = true
    · simp [h, take_length_takeWhile f r]
    · simp [h]

end FilterSites
open FilterSites

@[simp] theorem nameAt_nil : nameAt [] = [] := rfl

theorem nameAt_cons (c : UInt8) (r : Bytes) :
    nameAt (c :: r) = if Gen.isASCIILetter c then Spec.lowerByte c :: (r.takeWhile nameChar).map Spec.lowerByte else [] := by
  unfold nameAt
  rw [htmlTagNameEnd_cons]
  by_cases h : Gen.isASCIILetter c = true
  · simp only [h, Bool.not_true, Bool.false_eq_true, if_false, if_true]
    rw [Nat.add_comm, List.take_succ_cons, take_length_takeWhile, lower_map, List.map_cons]
  · simp only [Bool.not_eq_true] at h
    simp [h, lower]

/-- The name candidate is the lower-cased `takeWhile nameChar`, when the text starts with a letter. -/
theorem nameAt_eq_takeWhile (X : Bytes) (h : startsLetter X = true) :
    nameAt X = (X.takeWhile nameChar).map Spec.lowerByte := by
  cases X with
  | nil => simp [startsLetter] at h
  | cons c r =>
    simp only [startsLetter] at h
    rw [nameAt_cons, if_pos h, List.takeWhile_cons, if_pos (letter_nameChar c h), List.map_cons]

theorem nameAt_of_not_startsLetter (X : Bytes) (h : startsLetter X = false) : nameAt X = [] := by
  cases X with
  | nil => rfl
  | cons c r =>
    simp only [startsLetter] at h
    rw [nameAt_cons]; simp [h]

theorem sitesOK_nil (p : Bytes → Bool) : sitesOK p [] = true := rfl

theorem sitesOK_cons (p : Bytes → Bool) (c : UInt8) (rest : Bytes) :
    sitesOK p (c :: rest) = ((!(c == 0x3C && !siteOK p rest)) && sitesOK p rest) := by
  cases rest with
  | nil => simp [sitesOK, siteOK, startsLetter]
  | cons d r =>
    rw [sitesOK]
    simp [siteOK, startsLetter, Bool.or_assoc]

theorem sitesOK_cons_ne (p : Bytes → Bool) (c : UInt8) (rest : Bytes) (h : c ≠ 0x3C) :
    sitesOK p (c :: rest) = sitesOK p rest := by
  rw [sitesOK_cons]; simp [h]

theorem sitesOK_cons_lt (p : Bytes → Bool) (rest : Bytes) :
    sitesOK p (0x3C :: rest) = (siteOK p rest && sitesOK p rest) := by
  rw [sitesOK_cons]; simp

theorem sitesOK_tail {p : Bytes → Bool} {c : UInt8} {rest : Bytes} (h : sitesOK p (c :: rest) = true) :
    sitesOK p rest = true := by
  rw [sitesOK_cons] at h
  simp only [Bool.and_eq_true] at h
  exact h.2

theorem sitesOK_drop {p : Bytes → Bool} : ∀ (k : Nat) {X : Bytes}, sitesOK p X = true → sitesOK p (X.drop k) = true
  | 0, _, h => by simpa using h
  | _+1, [], h => by simpa using h
  | k+1, _ :: r, h => by simpa using sitesOK_drop k (sitesOK_tail h)

/-! ### `takeWhile` helpers -/

namespace FilterSites

theorem takeWhile_notDelim_nameChar : ∀ r : Bytes, (r.takeWhile notDelim).takeWhile nameChar = r.takeWhile nameChar
  | [] => by simp
  | c :: r => by
    by_cases h : nameChar c = true
    · simp [h, nameChar_notDelim c h, takeWhile_notDelim_nameChar r]
    · by_cases h' : notDelim c = true <;> simp [h, h']

theorem takeWhile_eq_self_of_all (f : UInt8 → Bool) : ∀ l : Bytes, l.all f = true → l.takeWhile f = l
  | [], _ => rfl
  | c :: l, h => by
    simp only [List.all_cons, Bool.and_eq_true] at h
    rw [List.takeWhile_cons, if_pos h.1, takeWhile_eq_self_of_all f l h.2]

end FilterSites
open FilterSites

/-- The two notions of tag name: the filter tests the longest `[A-Za-z][A-Za-z0-9-]*` prefix of what follows
    `<`; the tokenizer's tag name is everything up to white space, `/` or `>`. If `p` is name-closed,
    accepting the former implies accepting the latter. -/
theorem name_agree (p : Bytes → Bool) (hp : NameClosed p) (X : Bytes) (hl : startsLetter X = true)
    (hF : p (nameAt X) = false) : p ((X.takeWhile notDelim).map Spec.lowerByte) = false := by
  cases hN : p ((X.takeWhile notDelim).map Spec.lowerByte) with
  | false => rfl
  | true =>
    have h := hp _ hN
    have hfun : (nameChar ∘ Spec.lowerByte) = nameChar := funext nameChar_lower
    rw [List.takeWhile_map, hfun, takeWhile_notDelim_nameChar, ← nameAt_eq_takeWhile X hl, hF] at h
    exact absurd h (by simp)

end CM.Proofs
