import CM.Proofs.ParseWholeGrammarNest2
/-
C05, clause (iii) — the ghost invariant on states: `CLE s b3` ("there is a clean set for the arena of `s` and the active
`[` openers from stack index `b3` on"), under the state changes of the inline parser (part 1).
-/
namespace CM.Proofs.InlH
open CM CM.Model CM.Model.Inl CM.Spec

def CLE (s : IState) (b3 : Nat) : Prop := ∃ C, CL s.nodes s.parentMap (actN s.stack b3) C

theorem actN_sub (st : Array DelimE) (b3 : Nat) : ∀ x ∈ actN st b3, x ∈ stN st := by
  intro x hx
  unfold actN at hx
  unfold stN
  obtain ⟨e, he, rfl⟩ := List.mem_map.1 hx
  exact List.mem_map_of_mem ((List.drop_sublist _ _).subset (List.mem_filter.1 he).1)

theorem SOK.parent {a : Array INode} {pm : Array (Option Nat)} {N : List Nat} {b P0 : Nat} (h : SOK a pm N b P0)
    {x : Nat} (hx : x ∈ N) : (pm[x]?).join = some 0 ∨ (pm[x]?).join = some P0 := by
  rw [← List.take_append_drop b N] at hx
  rcases List.mem_append.1 hx with hx | hx
  · exact Or.inl (h.lowerP x hx)
  · exact Or.inr (h.upperP x hx)

theorem Om.actv {s : IState} {b P0 : Nat} (h : Om s b P0) (b3 : Nat) :
    ∀ x ∈ actN s.stack b3, x < s.nodes.size ∧ ∀ Q, (s.parentMap[x]?).join = some Q → Q < s.nodes.size := by
  intro x hx
  have hxN := actN_sub _ _ x hx
  refine ⟨(h.2.stk x hxN).1, fun Q hQ => ?_⟩
  rcases h.2.parent hxN with e | e
  · rw [e] at hQ; cases hQ; exact h.1.pos
  · rw [e] at hQ; cases hQ; exact h.2.p0

/-- kinds stay, children lists shrink or stay, new nodes are no Links, fewer active openers -/
theorem CLE.shrink {s s' : IState} {b P0 b3 b3' : Nat} (hO : Om s b P0) (h : CLE s b3)
    (hsz : s.nodes.size ≤ s'.nodes.size)
    (hk : ∀ i, i < s.nodes.size → kindOf s'.nodes i = kindOf s.nodes i)
    (hkids : ∀ i, i < s.nodes.size → (kidsL s'.nodes i).Sublist (kidsL s.nodes i))
    (hnew : ∀ i, s.nodes.size ≤ i → i < s'.nodes.size → kindOf s'.nodes i ≠ IK.link)
    (hact : ∀ x ∈ actN s'.stack b3', x ∈ actN s.stack b3 ∧
      ∀ P, (s'.parentMap[x]?).join = some P → (s.parentMap[x]?).join = some P) : CLE s' b3' := by
  obtain ⟨C, hC⟩ := h
  refine ⟨C, hC.shrink hsz hk hkids hnew ?_⟩
  intro x hx
  obtain ⟨h1, h2⟩ := hact x hx
  exact ⟨h1, fun P hP => ⟨h2 P hP, (hO.actv b3 x h1).2 P (h2 P hP)⟩⟩

theorem actN_mono (st : Array DelimE) {b3 b3' : Nat} (h : b3 ≤ b3') : ∀ x ∈ actN st b3', x ∈ actN st b3 := by
  intro x hx
  unfold actN at hx ⊢
  obtain ⟨e, he, rfl⟩ := List.mem_map.1 hx
  obtain ⟨he1, he2⟩ := List.mem_filter.1 he
  refine List.mem_map_of_mem (List.mem_filter.2 ⟨?_, he2⟩)
  have : st.toList.drop b3' = (st.toList.drop b3).drop (b3' - b3) := by
    rw [List.drop_drop]; congr 1; omega
  rw [this] at he1
  exact (List.drop_sublist _ _).subset he1

theorem actN_del (st : Array DelimE) {b3 i j : Nat} (hbi : b3 ≤ i) (hij : i ≤ j) :
    ∀ x ∈ actN (st.extract 0 i ++ st.extract j st.size) b3, x ∈ actN st b3 := by
  intro x hx
  unfold actN at hx ⊢
  obtain ⟨e, he, rfl⟩ := List.mem_map.1 hx
  obtain ⟨he1, he2⟩ := List.mem_filter.1 he
  refine List.mem_map_of_mem (List.mem_filter.2 ⟨?_, he2⟩)
  have hsub : ((st.extract 0 i ++ st.extract j st.size).toList.drop b3).Sublist (st.toList.drop b3) := by
    rw [Array.toList_append, Array.toList_extract, Array.toList_extract]
    simp only [List.extract_eq_take_drop, Nat.sub_zero, List.drop_zero]
    rw [List.take_of_length_le (l := List.drop j st.toList) (by simp)]
    by_cases hil : i ≤ st.toList.length
    · rw [List.drop_append_of_le_length (by rw [List.length_take]; omega)]
      have e : st.toList.drop b3 = (st.toList.take i).drop b3 ++ st.toList.drop i := by
        conv => lhs; rw [← List.take_append_drop i st.toList]
        rw [List.drop_append_of_le_length (by rw [List.length_take]; omega)]
      rw [e]
      exact (List.Sublist.refl _).append (List.drop_sublist_drop_left _ hij)
    · have hj : st.toList.drop j = [] := List.drop_eq_nil_of_le (by omega)
      rw [List.take_of_length_le (by omega), hj, List.append_nil]
      exact List.Sublist.refl _
  exact hsub.subset he1

theorem actN_push (st : Array DelimE) (e : DelimE) {b3 : Nat} (hb : b3 ≤ st.size) :
    actN (st.push e) b3 = actN st b3 ++ (if Act3 e then [e.node] else []) := by
  unfold actN
  rw [Array.toList_push, List.drop_append_of_le_length (by simpa using hb), List.filter_append, List.map_append]
  congr 1
  by_cases ha : Act3 e
  · rw [if_pos ha]; simp [ha]
  · rw [if_neg ha]; simp [ha]

/-! ### the state changes that keep the clean set -/

theorem CLE.congr {s s' : IState} {b3 : Nat} (h : CLE s b3) (hn : s'.nodes = s.nodes) (hp : s'.parentMap = s.parentMap)
    (hs : s'.stack = s.stack) : CLE s' b3 := by
  unfold CLE at h ⊢
  rw [hn, hp, hs]; exact h

theorem CLE.modify {s : IState} {b P0 b3 : Nat} (hO : Om s b P0) (h : CLE s b3) (id : Nat) (f : INode → INode)
    (hk : ∀ m, (f m).kind = m.kind) (hc : ∀ m, (f m).kids = m.kids) :
    CLE { s with nodes := s.nodes.modify id f } b3 :=
  h.shrink hO (by simp) (fun i _ => kindOf_modify hk)
    (fun i _ => by rw [kidsL_modify_same _ _ _ _ hc]; exact List.Sublist.refl _)
    (fun i h1 h2 => by simp at h2; omega) (fun x hx => ⟨hx, fun P hP => hP⟩)

theorem CLE.setStack {s : IState} {b P0 b3 b3' : Nat} (hO : Om s b P0) (h : CLE s b3) (st : Array DelimE)
    (hact : ∀ x ∈ actN st b3', x ∈ actN s.stack b3) : CLE { s with stack := st } b3' :=
  h.shrink hO (Nat.le_refl _) (fun _ _ => rfl) (fun _ _ => List.Sublist.refl _)
    (fun _ h1 h2 => absurd h2 (Nat.not_lt.2 h1)) (fun x hx => ⟨hact x hx, fun _ hP => hP⟩)

theorem CLE.del {s : IState} {b P0 b3 i j : Nat} (hO : Om s b P0) (h : CLE s b3) (hbi : b3 ≤ i) (hij : i ≤ j) :
    CLE (delState s i j) b3 :=
  h.setStack hO _ (actN_del _ hbi hij)

theorem pm_set_none (pm : Array (Option Nat)) (x y Q : Nat) (h : ((pm.set! x none)[y]?).join = some Q) :
    (pm[y]?).join = some Q := by
  by_cases hxy : x = y
  · subst hxy
    rw [Array.set!_eq_setIfInBounds, Array.getElem?_setIfInBounds, if_pos rfl] at h
    split at h <;> cases h
  · rw [pm_set_other _ _ hxy] at h; exact h

theorem CLE.remove {s : IState} {b P0 b3 : Nat} (hO : Om s b P0) (h : CLE s b3) {idx x P : Nat} (hb : b3 ≤ idx) :
    CLE (delState (removeState s x P) idx (idx + 1)) b3 := by
  refine h.shrink hO (by simp [delState, removeState]) (fun i _ => kindOf_modify (by intro _; rfl)) ?_
    (fun i h1 h2 => by simp [delState, removeState] at h2; omega) ?_
  · intro i hi
    show (kidsL (s.nodes.modify P _) i).Sublist _
    unfold kidsL
    by_cases hiP : P = i
    · subst hiP
      rw [kids_modify_self _ hi]
      simp only [Array.toList_filter]
      exact List.filter_sublist
    · rw [kids_modify_other _ hiP]; exact List.Sublist.refl _
  · intro y hy
    exact ⟨actN_del _ hb (Nat.le_succ _) y hy, fun Q hQ => pm_set_none _ _ _ _ hQ⟩

theorem pm_push_some (pm : Array (Option Nat)) (y Q : Nat) (h : ((pm.push none)[y]?).join = some Q) :
    (pm[y]?).join = some Q := by
  rw [Array.getElem?_push] at h
  split at h
  · cases h
  · exact h

theorem CLE.alloc {s : IState} {b P0 b3 : Nat} (hO : Om s b P0) (h : CLE s b3) (n : INode) (hnk : n.kind ≠ IK.link) :
    CLE (allocState s n) b3 := by
  refine h.shrink hO (by simp [allocState]) (fun i hi => kindOf_push_lt hi)
    (fun i hi => by unfold kidsL; rw [show (allocState s n).nodes = s.nodes.push n from rfl, getElem!_push_lt hi]
                    exact List.Sublist.refl _) ?_ (fun x hx => ⟨hx, fun Q hQ => pm_push_some _ _ _ hQ⟩)
  intro i h1 h2
  have : i = s.nodes.size := by simp [allocState] at h2; omega
  subst this
  rw [show (allocState s n).nodes = s.nodes.push n from rfl, kindOf_push_size]; exact hnk

/-- a fresh clean leaf under `Q` (`addToRoot`, `importNode`, `appendFinished`) -/
theorem CLE.addKid {s : IState} {b P0 b3 : Nat} (hO : Om s b P0) (h : CLE s b3) (n : INode) {Q : Nat}
    (hn : n.kids = #[]) (hnk : n.kind ≠ IK.link) (hQ : Q < s.nodes.size) (pm' : Array (Option Nat))
    (hpm : ∀ x, x < s.nodes.size → (pm'[x]?).join = (s.parentMap[x]?).join) :
    CLE { s with nodes := addKidA s.nodes n Q, parentMap := pm' } b3 := by
  obtain ⟨C, hC⟩ := h
  exact ⟨_, hC.addKid n hn hnk hQ hO.1.pos hpm (hO.actv b3)⟩

theorem CLE.addRoot {s : IState} {b3 : Nat} (hO : Om s 0 0) (h : CLE s b3) (n : INode) (hn : n.kids = #[])
    (hnk : n.kind ≠ IK.link) : CLE (addRootState (allocState s n) s.nodes.size) b3 := by
  unfold addRootState
  split
  · exact h.alloc hO n hnk
  · exact h.addKid hO n hn hnk hO.1.pos _
      (fun x hx => pm_push_set_other _ _ _ _ (by rw [hO.2.pmsz]; exact hx) (by rw [hO.2.pmsz]; exact Nat.le_refl _))

theorem CLE.importNode {s : IState} {b3 : Nat} (hO : Om s 0 0) (h : CLE s b3) (n : INode) (hn : n.kids = #[])
    (hnk : n.kind ≠ IK.link) :
    CLE { s with nodes := (s.nodes.push n).modify 0 (fun r => { r with kids := r.kids.push s.nodes.size }),
                 parentMap := s.parentMap.push none } b3 :=
  h.addKid hO n hn hnk hO.1.pos _ (fun x hx => pm_push_get _ (by rw [hO.2.pmsz]; exact hx))

theorem CLE.appendTail {s : IState} {b L b3 : Nat} (hO : Om s b L) (h : CLE s b3) (n : INode) (hn : n.kids = #[])
    (hnk : n.kind ≠ IK.link) : CLE (appendState s L n) b3 :=
  h.addKid hO n hn hnk hO.2.p0 _ (fun x hx => pm_push_get _ (by rw [hO.2.pmsz]; exact hx))

/-- a Text node under the root and its stack entry (a delimiter run, `[`, `![`) -/
theorem CLE.pushDelim {s : IState} {b3 : Nat} (hO : Om s 0 0) (h : CLE s b3) (n : INode) (e : DelimE) (hn : n.kids = #[])
    (hk : n.kind = IK.text) (hlen : spanLenI n.start n.stop ≠ 0) (he : e.node = s.nodes.size)
    (hb3 : b3 ≤ s.stack.size) :
    CLE { (addRootState (allocState s n) s.nodes.size) with
          stack := (addRootState (allocState s n) s.nodes.size).stack.push e } b3 := by
  have hget : (allocState s n).nodes[s.nodes.size]! = n := getElem!_push_size
  have hlen' : ¬ (spanLenI ((allocState s n).nodes[s.nodes.size]!).start ((allocState s n).nodes[s.nodes.size]!).stop == 0) = true := by
    rw [hget]; simpa using hlen
  unfold addRootState
  rw [if_neg hlen']
  obtain ⟨C, hC⟩ := h
  have hnk : n.kind ≠ IK.link := by rw [hk]; decide
  have hpm : ∀ x, x < s.nodes.size → ((((s.parentMap.push none).set! s.nodes.size (some 0)))[x]?).join = (s.parentMap[x]?).join :=
    fun x hx => pm_push_set_other _ _ _ _ (by rw [hO.2.pmsz]; exact hx) (by rw [hO.2.pmsz]; exact Nat.le_refl _)
  have h1 := hC.addKid n hn hnk hO.1.pos hO.1.pos hpm (hO.actv b3)
  refine ⟨fun i => C i ∨ i = s.nodes.size, ?_⟩
  show CL (addKidA s.nodes n 0) _ (actN (s.stack.push e) b3) _
  rw [actN_push _ _ hb3]
  split
  · rw [he]
    refine CL.addActive n h1 hn hO.1.pos (fun k hk' => (hO.1.get! hO.1.pos).1 k hk') ?_ (Or.inr rfl)
    have hlt : s.nodes.size < (allocState s n).parentMap.size := by
      show s.nodes.size < (s.parentMap.push none).size
      rw [Array.size_push, hO.2.pmsz]; exact Nat.lt_succ_self _
    rw [Array.set!_eq_setIfInBounds, Array.getElem?_setIfInBounds, if_pos rfl, if_pos hlt]
    rfl
  · rw [List.append_nil]; exact h1

end CM.Proofs.InlH
