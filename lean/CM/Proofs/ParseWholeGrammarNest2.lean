import CM.Proofs.ParseWholeGrammarNest
/-
C05, clause (iii) — the ghost invariant `CL` under `wrap` (pure part 2).
-/
namespace CM.Proofs.InlH
open CM CM.Model CM.Model.Inl CM.Spec

theorem kidsL_wrapArena (a : Array INode) (nd : INode) {P : Nat} (si ei : Nat) (hP : P < a.size) :
    kidsL (wrapArena a nd P si ei) a.size = mvL (kidsL a P) si ei ∧
    kidsL (wrapArena a nd P si ei) P = newPL (kidsL a P) si ei a.size ∧
    ∀ i, i < a.size → i ≠ P → kidsL (wrapArena a nd P si ei) i = kidsL a i := by
  unfold kidsL
  refine ⟨?_, ?_, ?_⟩
  · rw [wrapArena_new a nd P si ei hP]
    show (wrapMoved a P si ei).toList = _
    unfold wrapMoved; rw [extract_toList]
  · rw [wrapArena_P a nd P si ei hP]
    show (wrapLeft a P si ei).toList = _
    unfold wrapLeft; rw [wrapP_toList]
  · intro i hi hne
    rw [wrapArena_other a nd P si ei i hi hne]

theorem kindOf_wrapArena (a : Array INode) (nd : INode) {P : Nat} (si ei : Nat) (hP : P < a.size) :
    (∀ i, i < a.size → kindOf (wrapArena a nd P si ei) i = kindOf a i) ∧
    kindOf (wrapArena a nd P si ei) a.size = nd.kind := by
  refine ⟨(wrapArena_ksame a nd P si ei).2, ?_⟩
  unfold kindOf
  rw [wrapArena_new a nd P si ei hP]

theorem newPL_eq (l : List Nat) (si ei n : Nat) : newPL l si ei n = l.take si ++ n :: l.drop ei := by
  unfold newPL; simp

theorem mem_newPL {l : List Nat} {si ei n k : Nat} (_hse : si ≤ ei) (h : k ∈ newPL l si ei n) : k ∈ l ∨ k = n := by
  rw [newPL_eq, List.mem_append, List.mem_cons] at h
  rcases h with h | h | h
  · exact Or.inl ((List.take_sublist _ _).subset h)
  · exact Or.inr h
  · exact Or.inl ((List.drop_sublist _ _).subset h)

/-- `wrap` for emphasis / strong emphasis inside the children of `P` -/
theorem CL.wrapEmph {a : Array INode} {pm pm' : Array (Option Nat)} {A A' : List Nat} {C : Nat → Prop} (h : CL a pm A C)
    {nd : INode} {P si ei : Nat} (hP : P < a.size) (hse : si ≤ ei)
    (hnd : nd.kind = IK.emphasis ∨ nd.kind = IK.strong) (hpm : WrapPM a pm pm' P si ei)
    (hA' : ∀ x ∈ A', x ∈ A ∧ x < a.size ∧ x ∉ mvL (kidsL a P) si ei ∧ ∀ Q, (pm[x]?).join = some Q → Q < a.size) :
    CL (wrapArena a nd P si ei) pm' A' (fun i => C i ∨ (i = a.size ∧ ∀ m ∈ mvL (kidsL a P) si ei, C m)) := by
  obtain ⟨hkn, hkP, hko⟩ := kidsL_wrapArena a nd si ei hP
  obtain ⟨hk1, hk2⟩ := kindOf_wrapArena a nd si ei hP
  have hsz := wrapArena_size a nd P si ei
  have hndl : nd.kind ≠ IK.link := by rcases hnd with e | e <;> (rw [e]; decide)
  have hl := split3 (kidsL a P) hse
  -- the children of an old node that is clean, or a Link
  have hold : ∀ i, i < a.size → (∀ k ∈ kidsL a i, C k) → ∀ k ∈ kidsL (wrapArena a nd P si ei) i,
      C k ∨ (k = a.size ∧ ∀ m ∈ mvL (kidsL a P) si ei, C m) := by
    intro i hi hall k hk
    by_cases hiP : i = P
    · subst hiP
      rw [hkP] at hk
      rcases mem_newPL hse hk with hk | hk
      · exact Or.inl (hall k hk)
      · exact Or.inr ⟨hk, fun m hm => hall m ((mvL_sublist _ _ _).subset hm)⟩
    · rw [hko i hi hiP] at hk
      exact Or.inl (hall k hk)
  refine ⟨?_, ?_, ?_, ?_, ?_⟩
  · rintro (h0 | ⟨h0, _⟩)
    · exact h.c0 h0
    · omega
  · rintro i (hi | ⟨hi, _⟩)
    · have := h.c4 i hi; omega
    · omega
  · rintro i (hi | ⟨hi, hall⟩)
    · have hlt := h.c4 i hi
      rw [hk1 i hlt]
      exact ⟨(h.c1 i hi).1, hold i hlt (h.c1 i hi).2⟩
    · subst hi
      rw [hk2, hkn]
      exact ⟨hndl, fun k hk => Or.inl (hall k hk)⟩
  · intro i hi hlk
    rw [hsz] at hi
    by_cases hlt : i < a.size
    · rw [hk1 i hlt] at hlk
      exact hold i hlt (h.c2 i hlt hlk)
    · have : i = a.size := by omega
      subst this
      rw [hk2] at hlk; exact absurd hlk hndl
  · intro x hx Q hQ k hk
    obtain ⟨hxA, hxl, hxm, hQv⟩ := hA' x hx
    rw [hpm.other x hxl (by unfold wrapMoved; rw [extract_toList]; exact hxm)] at hQ
    have hQl := hQv Q hQ
    by_cases hQP : Q = P
    · subst hQP
      rw [hkP, newPL_eq] at hk
      rcases after_insert (mvL (kidsL a Q) si ei) (by omega) hk with ⟨hkn', hxt⟩ | hk
      · refine Or.inr ⟨hkn', fun m hm => ?_⟩
        refine h.c3 x hxA Q hQ m ?_
        rw [hl]; exact after_mid hxt hm
      · rw [← hl] at hk
        exact Or.inl (h.c3 x hxA Q hQ k hk)
    · rw [hko Q hQl hQP] at hk
      exact Or.inl (h.c3 x hxA Q hQ k hk)

/-- `wrap` for a link / image around everything behind an opener under the root -/
theorem CL.wrapTop {a : Array INode} {pm pm' : Array (Option Nat)} {A A' : List Nat} {C : Nat → Prop} (h : CL a pm A C)
    (hroot : kindOf a 0 = 0) {nd : INode} {si ei : Nat} (hpos : 0 < a.size) (hse : si ≤ ei)
    (hpm : WrapPM a pm pm' 0 si ei)
    (hclean : nd.kind = IK.link → ∀ m ∈ mvL (kidsL a 0) si ei, C m)
    (hA' : ∀ x ∈ A', x ∈ A ∧ x < a.size ∧ (pm[x]?).join = some 0 ∧
      (nd.kind = IK.link → x ∈ mvL (kidsL a 0) si ei)) :
    CL (wrapArena a nd 0 si ei) pm' A'
      (fun i => C i ∨ (i = a.size ∧ nd.kind ≠ IK.link ∧ ∀ m ∈ mvL (kidsL a 0) si ei, C m)) := by
  obtain ⟨hkn, hkP, hko⟩ := kidsL_wrapArena a nd si ei hpos
  obtain ⟨hk1, hk2⟩ := kindOf_wrapArena a nd si ei hpos
  have hsz := wrapArena_size a nd 0 si ei
  have hl := split3 (kidsL a 0) hse
  refine ⟨?_, ?_, ?_, ?_, ?_⟩
  · rintro (h0 | ⟨h0, _⟩)
    · exact h.c0 h0
    · omega
  · rintro i (hi | ⟨hi, _⟩)
    · have := h.c4 i hi; omega
    · omega
  · rintro i (hi | ⟨hi, hnl, hall⟩)
    · have hlt := h.c4 i hi
      have hi0 : i ≠ 0 := fun e => h.c0 (e ▸ hi)
      rw [hk1 i hlt, hko i hlt hi0]
      exact ⟨(h.c1 i hi).1, fun k hk => Or.inl ((h.c1 i hi).2 k hk)⟩
    · subst hi
      rw [hk2, hkn]
      exact ⟨hnl, fun k hk => Or.inl (hall k hk)⟩
  · intro i hi hlk k hk
    rw [hsz] at hi
    by_cases hlt : i < a.size
    · rw [hk1 i hlt] at hlk
      have hi0 : i ≠ 0 := by
        intro e; rw [e, hroot] at hlk; cases hlk
      rw [hko i hlt hi0] at hk
      exact Or.inl (h.c2 i hlt hlk k hk)
    · have : i = a.size := by omega
      subst this
      rw [hk2] at hlk
      rw [hkn] at hk
      exact Or.inl (hclean hlk k hk)
  · intro x hx Q hQ k hk
    obtain ⟨hxA, hxl, hx0, hxm⟩ := hA' x hx
    by_cases hmv : x ∈ mvL (kidsL a 0) si ei
    · rw [hpm.moved x (by unfold wrapMoved; rw [extract_toList]; exact hmv) hxl] at hQ
      cases hQ
      rw [hkn] at hk
      exact Or.inl (h.c3 x hxA 0 hx0 k (after_sublist (mvL_sublist _ _ _) hk))
    · have hnl : nd.kind ≠ IK.link := fun e => hmv (hxm e)
      rw [hpm.other x hxl (by unfold wrapMoved; rw [extract_toList]; exact hmv), hx0] at hQ
      cases hQ
      rw [hkP, newPL_eq] at hk
      rcases after_insert (mvL (kidsL a 0) si ei) (by omega) hk with ⟨hkn', hxt⟩ | hk
      · refine Or.inr ⟨hkn', hnl, fun m hm => ?_⟩
        refine h.c3 x hxA 0 hx0 m ?_
        rw [hl]; exact after_mid hxt hm
      · rw [← hl] at hk
        exact Or.inl (h.c3 x hxA 0 hx0 k hk)

end CM.Proofs.InlH
