import CM.Proofs.ParseWholeGrammarRewrite
/-
C05 — `Spec.grammarAt` through `Rewrite`, part 2: inline nodes have inline children; the induction over `rewriteE`.
-/
namespace CM.Proofs.InlH
open CM CM.Model CM.Model.Inl CM.Spec

theorem isPhrasing_nb {c : Tree} (h : isPhrasing c = true) : c.label.isBlock = false := by
  unfold isPhrasing T.isBlock at h
  simp only [Bool.and_eq_true, Bool.not_eq_true'] at h
  exact h.1

theorem inlineOf_nb {ks : List Nat} {c : Tree} (h : inlineOf ks c = true) : c.label.isBlock = false := by
  unfold inlineOf T.isBlock at h
  simp only [Bool.and_eq_true, Bool.not_eq_true'] at h
  exact h.1

theorem isI_nb {c : Tree} {k : Nat} (h : T.isI c k = true) : c.label.isBlock = false := by
  unfold T.isI at h
  simp only [Bool.and_eq_true, Bool.not_eq_true'] at h
  exact h.1

theorem all_nb {cs : List Tree} {p : Tree → Bool} (hp : ∀ c, p c = true → c.label.isBlock = false)
    (h : cs.all p = true) : ∀ c ∈ cs, c.label.isBlock = false :=
  fun c hc => hp c (List.all_eq_true.1 h c hc)

theorem linkTail_nb : ∀ cs : List Tree, linkTail cs = true → ∀ c ∈ cs, c.label.isBlock = false := by
  intro cs
  fun_induction linkTail cs with
  | case1 => intro _ c hc; cases hc
  | case2 a =>
    intro h c hc
    rw [List.mem_singleton] at hc; subst hc
    simp only [Bool.or_eq_true] at h
    rcases h with ((h | h) | h) | h
    · exact isI_nb h
    · exact isI_nb h
    · exact isI_nb h
    · exact isPhrasing_nb h
  | case3 a b =>
    intro h c hc
    simp only [Bool.or_eq_true, Bool.and_eq_true] at h
    simp only [List.mem_cons, List.mem_nil_iff, or_false] at hc
    rcases h with ⟨ha, hb⟩ | ⟨ha, hb⟩
    · rcases hc with rfl | rfl
      · exact isPhrasing_nb ha
      · rcases hb with ((h | h) | h) | h
        · exact isI_nb h
        · exact isI_nb h
        · exact isI_nb h
        · exact isPhrasing_nb h
    · rcases hc with rfl | rfl
      · exact isI_nb ha
      · exact isI_nb hb
  | case4 a rest _ _ ih =>
    intro h c hc
    simp only [Bool.and_eq_true] at h
    rcases List.mem_cons.1 hc with rfl | hc
    · exact isPhrasing_nb h.1
    · exact ih h.2 c hc

/-- an inline node that satisfies the rule has inline children only -/
theorem grammarAt_inline_children {l : Label} {cs : List Tree} (hb : l.isBlock = false)
    (h : grammarAt (.node l cs) = true) : ∀ c ∈ cs, c.label.isBlock = false := by
  unfold grammarAt at h
  dsimp only [children_node, label_node] at h
  simp only [hb, Bool.false_eq_true, if_false] at h
  by_cases k1 : (l.kind == IK.text || l.kind == IK.softBreak || l.kind == IK.hardBreak || l.kind == IK.indent
       || l.kind == IK.charRef || l.kind == IK.rawHTML) = true
  · rw [if_pos k1, List.isEmpty_iff] at h; subst h; intro c hc; cases hc
  rw [if_neg k1] at h
  by_cases k2 : (l.kind == IK.infoString) = true
  · rw [if_pos k2] at h; exact all_nb (fun c => inlineOf_nb) h
  rw [if_neg k2] at h
  by_cases k3 : (l.kind == IK.emphasis || l.kind == IK.strong) = true
  · rw [if_pos k3] at h; exact all_nb (fun c => isPhrasing_nb) h
  rw [if_neg k3] at h
  by_cases k4 : (l.kind == IK.link || l.kind == IK.image) = true
  · rw [if_pos k4] at h
    simp only [Bool.and_eq_true] at h
    exact linkTail_nb cs h.1
  rw [if_neg k4] at h
  by_cases k5 : (l.kind == IK.linkDest || l.kind == IK.linkTitle) = true
  · rw [if_pos k5] at h; exact all_nb (fun c => inlineOf_nb) h
  rw [if_neg k5] at h
  by_cases k6 : (l.kind == IK.linkLabel) = true
  · rw [if_pos k6] at h; exact all_nb (fun c => inlineOf_nb) h
  rw [if_neg k6] at h
  by_cases k7 : (l.kind == IK.codeSpan) = true
  · rw [if_pos k7] at h; exact all_nb (fun c => inlineOf_nb) h
  rw [if_neg k7] at h
  by_cases k8 : (l.kind == IK.autolink) = true
  · rw [if_pos k8] at h
    rcases cs with _ | ⟨a, _ | ⟨b, r⟩⟩
    · cases h
    · intro c hc; rw [List.mem_singleton] at hc; subst hc; exact isI_nb h
    · cases h
  rw [if_neg k8] at h
  by_cases k9 : (l.kind == IK.htmlTag) = true
  · rw [if_pos k9] at h; exact all_nb (fun c => inlineOf_nb) h
  · rw [if_neg k9] at h; cases h

theorem size_child_lt {l : Label} : ∀ {cs : List Tree} {c : Tree}, c ∈ cs → c.size < (Tree.node l cs).size := by
  intro cs
  induction cs with
  | nil => intro c hc; cases hc
  | cons a r ih =>
    intro c hc
    have hr := @ih
    simp only [Tree.size, Tree.sizeL] at hr ⊢
    rcases List.mem_cons.1 hc with rfl | hc
    · omega
    · have := hr hc; omega

/-- what is known about a block-phase tree -/
structure Pre1 (S : Bytes) (t : Tree) : Prop where
  p1 : ∀ u ∈ T.nodes t, phase1At u = true ∧ orderedItemOK S u = true
  flat : ∀ u ∈ T.nodes t, u.label.isBlock = false → ∀ v ∈ T.nodesL u.children, T.isI v IK.unparsed = false

theorem Pre1.child {S : Bytes} {l : Label} {cs : List Tree} (h : Pre1 S (.node l cs)) {c : Tree} (hc : c ∈ cs) :
    Pre1 S c where
  p1 u hu := h.p1 u (nodesL_children_sub (u := .node l cs) (nodesL_of_mem hc hu))
  flat u hu := h.flat u (nodesL_children_sub (u := .node l cs) (nodesL_of_mem hc hu))

/-- the final rule at every node -/
def NodeOK (S : Bytes) (u : Tree) : Prop := grammarAt u = true ∧ orderedItemOK S u = true

/-- an inline sub-tree of a block-phase tree (not an `Unparsed` run) is final already -/
theorem inline_tree_ok (S : Bytes) : ∀ (n : Nat) (t : Tree), t.size ≤ n → Pre1 S t → t.label.isBlock = false →
    T.isI t IK.unparsed = false → ∀ u ∈ T.nodes t, NodeOK S u := by
  intro n
  induction n with
  | zero => intro t ht; obtain ⟨l, cs⟩ := t; simp [Tree.size] at ht
  | succ n ih =>
    intro t hsz hP hb hnu u hu
    obtain ⟨l, cs⟩ := t
    change l.isBlock = false at hb
    have hself := hP.p1 _ (self_mem_nodes _)
    have hk : ¬ (l.kind == IK.unparsed) = true := by
      unfold T.isI at hnu
      simp only [label_node, hb, Bool.not_false, Bool.true_and] at hnu
      rw [hnu]; simp
    have hg : grammarAt (.node l cs) = true := by
      have := hself.1
      unfold phase1At at this
      dsimp only [children_node, label_node] at this
      simp only [hb, Bool.false_eq_true, if_false] at this
      rw [if_neg hk] at this
      exact this
    rw [nodes_eq, List.mem_cons] at hu
    rcases hu with rfl | hu
    · exact ⟨hg, hself.2⟩
    · obtain ⟨c, hc', huc⟩ := mem_nodesL hu
      have hc : c ∈ cs := hc'
      have hcb := grammarAt_inline_children hb hg c hc
      have hcu : T.isI c IK.unparsed = false :=
        hP.flat _ (self_mem_nodes _) hb c (nodesL_of_mem hc (self_mem_nodes c))
      have hlt := size_child_lt (l := l) hc
      exact ih c (by omega) (hP.child hc) hcb hcu u huc

end CM.Proofs.InlH
