import CM.Proofs.ParseAsmMain
import CM.Proofs.ParseWholeGrammarMain
/-
C02 / C04, inline halves, for the whole of `Parse` — **the assembly**, part 3: the remaining hypotheses (the tail facts) are
decidable, and hold on concrete documents (non-vacuity of `parse_spansOK_nodes_of_tails` / `parse_rewrite_noPanic_of_tails`).
-/
namespace CM.Proofs.PSc
open CM CM.Model CM.Gen CM.Spec CM.Model.Inl
open CM.Proofs CM.Proofs.PW CM.Proofs.RK CM.Proofs.InlH CM.Proofs.InlH2 CM.Proofs.PS CM.Proofs.PSh

instance (S : Bytes) (e : Int) : Decidable (EolEnd S e) := by unfold EolEnd; exact inferInstance
instance (S : Bytes) (p : Nat) : Decidable (PSc.SafeAt S p) := by unfold PSc.SafeAt; exact inferInstance

/-- `TailNP`, read on the last child. -/
def TailNPAt (src : Bytes) : Option Tree → Prop
  | none => True
  | some t => src.length ≤ t.label.stop.toNat ∨ src.getD t.label.stop.toNat 0 ≠ 0x29

/-- `TailSafe`, read on the last child. -/
def TailSafeAt (src : Bytes) : Option Tree → Prop
  | none => True
  | some t => isIndent t = false → EolEnd src t.label.stop ∨ PSc.SafeAt src t.label.stop.toNat

instance (src : Bytes) : (o : Option Tree) → Decidable (TailNPAt src o)
  | none => isTrue trivial
  | some t => by unfold TailNPAt; exact inferInstance
instance (src : Bytes) : (o : Option Tree) → Decidable (TailSafeAt src o)
  | none => isTrue trivial
  | some t => by unfold TailSafeAt; exact inferInstance

theorem tailNP_iff (src : Bytes) (L : List Tree) : TailNP src L ↔ TailNPAt src L.getLast? := by
  unfold TailNP
  cases L.getLast? with
  | none => simp [TailNPAt]
  | some t => simp [TailNPAt]

theorem tailSafe_iff (src : Bytes) (L : List Tree) : TailSafe src L ↔ TailSafeAt src L.getLast? := by
  unfold TailSafe
  cases L.getLast? with
  | none => simp [TailSafeAt]
  | some t => simp [TailSafeAt]

instance (src : Bytes) (L : List Tree) : Decidable (TailNP src L) :=
  decidable_of_iff _ (tailNP_iff src L).symm
instance (src : Bytes) (L : List Tree) : Decidable (TailSafe src L) :=
  decidable_of_iff _ (tailSafe_iff src L).symm
instance (src : Bytes) (t : Tree) : Decidable (TailsOK src t) := by unfold TailsOK; exact inferInstance

/-- The hypothesis of the two `…_of_tails` theorems, as a decidable property of the block-phase output. -/
def ParseTails (x : PExt) (ix : IExt) (inp : Bytes) : Prop :=
  ∀ pr ∈ (parseDoc x ix inp).roots, TailsOK pr.root.source (pbToTree pr.root.block)

instance (x : PExt) (ix : IExt) (inp : Bytes) : Decidable (ParseTails x ix inp) := by
  unfold ParseTails; exact inferInstance

theorem parse_spansOK_nodes_of_parseTails (x : PExt) (ix : IExt) (inp : Bytes) (hT : ParseTails x ix inp) :
    ∀ pr ∈ (parseDoc x ix inp).roots, ∀ t', pr.tree = .ok t' →
      ∀ u ∈ T.nodes t', spanValid pr.root.source.length u = true ∧ childrenInside u = true ∧
        siblingsOrdered u.children = true :=
  parse_spansOK_nodes_of_tails x ix inp hT

theorem parse_rewrite_noPanic_of_parseTails (x : PExt) (ix : IExt) (inp : Bytes) (hT : ParseTails x ix inp) :
    ∀ pr ∈ (parseDoc x ix inp).roots, ∀ msg, pr.tree ≠ .error (.panic msg) :=
  parse_rewrite_noPanic_of_tails x ix inp hT

/-! ### Non-vacuity -/

section Examples
open CM.Proofs.PW

/-- An ATX heading with content and closing `#`s, a content-less ATX heading (`EmptyRun`), a block quote with two paragraphs
    (the second one `()`: the witness against the original `LinkScan`), a setext heading, a list item with a code span. -/
def asmDoc : Bytes := Bytes.ofString "# H *a* ##\n#\n> a\n>\n> ()\n\nt\n==\n- x `c`\n"

example : ParseTails exX exIX asmDoc := by decide +kernel
-- the containers (kind, span, inline children): the second one is the content-less heading, an `EmptyRun`
example : (parseDoc exX exIX asmDoc).roots.map (fun pr => (conts (pbToTree pr.root.block)).map (fun p =>
    [(p.1.kind : Int), p.1.start, p.1.stop] ++ p.2.flatMap (fun t => [(t.label.kind : Int), t.label.start, t.label.stop]))) =
    [[[3, 0, 11, 18, 2, 7]], [[3, 0, 2, 18, 1, 1]], [[1, 2, 4, 18, 2, 4], [1, 8, 11, 18, 8, 11]],
      [[4, 0, 5, 18, 0, 2]], [[1, 2, 8, 18, 2, 8]]] := by decide +kernel

-- the two theorems, on that document
example : ∀ pr ∈ (parseDoc exX exIX asmDoc).roots, ∀ t', pr.tree = .ok t' →
    ∀ u ∈ T.nodes t', spanValid pr.root.source.length u = true ∧ childrenInside u = true ∧
      siblingsOrdered u.children = true :=
  parse_spansOK_nodes_of_tails exX exIX asmDoc (by decide +kernel : ParseTails exX exIX asmDoc)
example : ∀ pr ∈ (parseDoc exX exIX asmDoc).roots, ∀ msg, pr.tree ≠ .error (.panic msg) :=
  parse_rewrite_noPanic_of_tails exX exIX asmDoc (by decide +kernel : ParseTails exX exIX asmDoc)

/-- Lines that start with `)` after a paragraph in a block quote / list item (lazy continuation lines: they join the
    paragraph, so the paragraph's last run is not followed by `)`), and an ATX heading whose content ends with `)`. -/
def asmDoc2 : Bytes := Bytes.ofString "> a\n)\n\n- b\n)\n\n# c)\n"
example : ParseTails exX exIX asmDoc2 := by decide +kernel

/-- The tail facts are real conditions: `TailNP` fails of a run followed by `)`. -/
example : ¬ TailNP [0x61, 0x29] [mkInline IK.unparsed 0 1] := by decide +kernel
example : ¬ TailSafe [0x61, 0x62] [mkInline IK.unparsed 0 1] := by decide +kernel

end Examples

end CM.Proofs.PSc

#print axioms CM.Proofs.PSc.parse_spansOK_nodes_of_parseTails
#print axioms CM.Proofs.PSc.parse_rewrite_noPanic_of_parseTails
