import CM.Proofs.InlSpanEmphM
import CM.Proofs.InlSpanLeaf
/-
C02, inline half — the tokenizer's leaf operations keep the span invariant: `addLeaf`, `importNode`,
`parseDelimiterRun`, `parseBackslash` (third chain of specifications, priority 20000; the parameters `lo hi` are fixed by
the hypothesis `Lim lo hi` that `mvcgen` finds in the context).
-/
namespace CM.Proofs.InlH
open CM CM.Model CM.Model.Inl CM.Gen
open Std.Do

set_option mvcgen.warning false

/-- The container's span `[lo, hi]`: a parameter of every specification of this chain. It is a structure so that
    `mvcgen` instantiates it with the only local hypothesis of this type (separate `Int` parameters are instantiated
    with arbitrary local integers). -/
structure Lims where
  lo : Int
  hi : Int
  nn : 0 ≤ lo

/-- The invariant between two tokens: no pending link. -/
abbrev SPT (lo hi F : Int) (s : IState) : Prop := SP lo hi none 0 0 F s

theorem SP.mono {lo hi : Int} {x : Option Nat} {b p : Nat} {F F' : Int} {s : IState} (h : SP lo hi x b p F s)
    (h1 : F ≤ F') (h2 : F' ≤ hi) : SP lo hi x b p F' s := ⟨h.1.mono h1 h2, h.2⟩

theorem SP.F_le {lo hi : Int} {x : Option Nat} {b p : Nat} {F : Int} {s : IState} (h : SP lo hi x b p F s) : F ≤ hi :=
  h.1.Fhi

theorem SP.lo_le {lo hi : Int} {x : Option Nat} {b p : Nat} {F : Int} {s : IState} (h : SP lo hi x b p F s) : lo ≤ F :=
  h.1.lo_le

theorem pmOf_ext {s s' : IState} (hsz : s.parentMap.size = s.nodes.size)
    (h : ∀ i, i < s.parentMap.size → s'.parentMap[i]? = s.parentMap[i]?) (i : Nat) (hi : i ≠ s.nodes.size)
    (hbig : ∀ i, s.parentMap.size < i → s'.parentMap[i]? = none) : pmOf s' i = pmOf s i := by
  unfold pmOf
  rcases Nat.lt_or_ge i s.parentMap.size with hlt | hge
  · rw [h i hlt]
  · rw [hbig i (by omega), Array.getElem?_eq_none (by omega)]

/-- `alloc n; (setParent id pmv;) modifyNode 0 (kids.push id)` -/
theorem SP.addRoot {lo hi F : Int} {s s' : IState} (h : SPT lo hi F s) (n : INode) (hk : n.kids = #[])
    (hs : F ≤ n.start) (hv : n.start ≤ n.stop) (hh : n.stop ≤ hi) (hsub : WFL n.start n.stop n.sub)
    (hn : s'.nodes = addRootA s.nodes n) (hst : s'.stack = s.stack) (hps : s'.parentMap.size = s.parentMap.size + 1)
    (hpm : ∀ i, i < s.parentMap.size → s'.parentMap[i]? = s.parentMap[i]?) : SPT lo hi n.stop s' := by
  obtain ⟨inv, hsz⟩ := h
  refine ⟨?_, by rw [hps, hn, addRootA_size, hsz]⟩
  have : stkOf s' = stkOf s := by unfold stkOf; rw [hst]
  rw [hn, this]
  exact inv.addRoot n hk hs hv hh hsub fun i hi =>
    pmOf_ext hsz hpm i hi fun j hj => Array.getElem?_eq_none (by omega)

/-- …with a push on the delimiter stack -/
theorem SP.addRootPush {lo hi F : Int} {s s' : IState} (h : SPT lo hi F s) (n : INode) (hk : n.kids = #[])
    (hs : F ≤ n.start) (hv : n.start < n.stop) (hh : n.stop ≤ hi) (hsub : n.sub = []) (e : DelimElem)
    (hn : s'.nodes = addRootA s.nodes n) (hst : s'.stack = s.stack.push ⟨e, s.nodes.size⟩)
    (hps : s'.parentMap.size = s.parentMap.size + 1)
    (hpm : ∀ i, i < s.parentMap.size → s'.parentMap[i]? = s.parentMap[i]?)
    (hnew : s'.parentMap[s.nodes.size]? = some (some 0)) : SPT lo hi n.stop s' := by
  obtain ⟨inv, hsz⟩ := h
  refine ⟨?_, by rw [hps, hn, addRootA_size, hsz]⟩
  have : stkOf s' = stkOf s ++ [s.nodes.size] := by unfold stkOf; rw [hst]; simp
  rw [hn, this]
  refine inv.addRootPush n hk hs hv hh hsub (fun i hi =>
    pmOf_ext hsz hpm i hi fun j hj => Array.getElem?_eq_none (by omega)) ?_
  unfold pmOf; rw [hnew]; rfl

theorem SP.congr {lo hi : Int} {x : Option Nat} {b p : Nat} {F : Int} {s s' : IState} (h : SP lo hi x b p F s)
    (h1 : s'.nodes = s.nodes) (h2 : s'.stack = s.stack) (h3 : s'.parentMap = s.parentMap) : SP lo hi x b p F s' := by
  unfold SP stkOf at *
  have : pmOf s' = pmOf s := funext fun i => pmOf_congr h3 i
  rw [h1, h2, h3, this]; exact h

theorem spanLen_zero {a e : Int} (h : (spanLenI a e == 0) = true) (h0 : 0 ≤ a) : e ≤ a := by
  unfold spanLenI at h
  split at h
  · rename_i hc
    simp only [Bool.and_eq_true, decide_eq_true_eq] at hc
    have : (e - a).toNat = 0 := by simpa using h
    omega
  · rename_i hc
    simp only [Bool.and_eq_true, decide_eq_true_eq, not_and] at hc
    omega

/-- normalise the verification conditions of this chain: substitute the state equations and the Boolean results,
    unfold the `let`s -/
macro "sp_norm" : tactic =>
  `(tactic| (inl_subst; subst_vars
             simp -failIfUnchanged +zetaDelta only [forall_const, true_implies, decide_eq_true_eq, ge_iff_le, Int.not_le,
               Int.not_lt] at *))

/-! ### specifications -/

section

@[spec 20000]
theorem addLeaf_specP (L : Lims) (kind : Nat) (a e : Int) (s0 : IState) :
    ⦃fun s => ⌜s = s0 ∧ SPT L.lo L.hi a s ∧ e ≤ L.hi⌝⦄ addLeaf kind a e
    ⦃⇓? _ s => ⌜SPT L.lo L.hi (max a e) s ∧ s.unparsedPos = s0.unparsedPos ∧ s.ignoreNextIndent = s0.ignoreNextIndent⌝⦄ := by
  mvcgen [addLeaf, alloc, addToRoot, nodeLen, getNode, setParent, modifyNode, -addLeaf_spec, -addLeaf_specS,
    -addToRoot_spec, -addToRoot_specS]
  · obtain ⟨rfl, hsp, he⟩ := ‹_ = s0 ∧ _›
    have hem := ‹(spanLenI a e == 0) = true›
    have h1 := hsp.lo_le
    have h2 := hsp.F_le
    have h0 := L.nn
    have : max a e = a := by
      unfold spanLenI at hem
      split at hem
      · rename_i hc
        simp only [Bool.and_eq_true, decide_eq_true_eq] at hc
        have : (e - a).toNat = 0 := by simpa using hem
        omega
      · rename_i hc
        simp only [Bool.and_eq_true, decide_eq_true_eq, not_and] at hc
        omega
    rw [this]
    exact ⟨hsp, rfl, rfl⟩
  · exfalso
    have h1 := ‹¬(spanLenI a e == 0) = true›
    have h2 := ‹(spanLenI _ _ == 0) = true›
    rw [get!_push_eq] at h2
    exact h1 h2
  · obtain ⟨rfl, hsp, he⟩ := ‹_ = s0 ∧ _›
    have hlt := spanLen_posS ‹¬(spanLenI a e == 0) = true›
    have : max a e = e := by omega
    rw [this]
    simp -failIfUnchanged +zetaDelta only [] at *
    refine ⟨SP.addRoot hsp { kind := kind, start := a, stop := e } rfl (Int.le_refl _) (Int.le_of_lt hlt) he
      (by rw [WFL_nil]; exact Int.le_of_lt hlt) rfl rfl (by simp) (fun i hlt' => ?_), trivial, trivial⟩
    have hsz := hsp.2
    simp only [Array.set!_eq_setIfInBounds]
    rw [Array.getElem?_setIfInBounds_ne (by omega), Array.getElem?_push_lt hlt', Array.getElem?_eq_getElem hlt']

@[spec 20000]
theorem parseBackslash_specP (L : Lims) (c : ICtx) (start : Int) (s0 : IState) :
    ⦃fun s => ⌜s = s0 ∧ SPT L.lo L.hi start s ∧ start < spanEndOf c s0 ∧ spanEndOf c s0 ≤ L.hi⌝⦄ parseBackslash c start
    ⦃⇓? r s => ⌜SPT L.lo L.hi r s ∧ start < r ∧ r ≤ spanEndOf c s0 ∧ s.unparsedPos = s0.unparsedPos⌝⦄ := by
  mvcgen [parseBackslash, spanEnd, isLastSpan, setIgnoreNextIndent, -parseBackslash_spec, -parseBackslash_specS]
  all_goals sp_norm
  all_goals (
    obtain ⟨hsp, hlt, hhi⟩ := ‹SPT _ _ _ _ ∧ _ < _ ∧ _ ≤ _›
    first
    | (refine ⟨trivial, ?_, by omega⟩
       first
       | exact hsp
       | exact SP.congr hsp rfl rfl rfl
       | exact SP.mono hsp (by omega) (by omega)
       | exact SP.congr (SP.mono hsp (by omega) (by omega)) rfl rfl rfl)
    | (obtain ⟨hq, hu, -⟩ := ‹SPT _ _ (max _ _) _ ∧ _ ∧ _›
       exact ⟨SP.mono hq (by omega) (by omega), by omega, by omega, hu⟩))

theorem pm_push_set_lt (pm : Array (Option Nat)) (n : Nat) (v : Option Nat) (hn : pm.size ≤ n) (i : Nat)
    (hi : i < pm.size) : ((pm.push none).set! n v)[i]? = pm[i]? := by
  simp only [Array.set!_eq_setIfInBounds]
  rw [Array.getElem?_setIfInBounds_ne (by omega), Array.getElem?_push_lt hi, Array.getElem?_eq_getElem hi]

theorem pm_push_set_new (pm : Array (Option Nat)) (v : Option Nat) :
    ((pm.push none).set! pm.size v)[pm.size]? = some v := by
  simp only [Array.set!_eq_setIfInBounds]
  rw [Array.getElem?_setIfInBounds_self_of_lt (by simp)]

@[spec 20000]
theorem parseDelimiterRun_specP (L : Lims) (c : ICtx) (start : Int) (s0 : IState) :
    ⦃fun s => ⌜s = s0 ∧ SPT L.lo L.hi start s ∧ start < spanEndOf c s0 ∧ spanEndOf c s0 ≤ L.hi⌝⦄
    parseDelimiterRun c start
    ⦃⇓? r s => ⌜SPT L.lo L.hi r s ∧ start < r ∧ r ≤ spanEndOf c s0 ∧ s.unparsedPos = s0.unparsedPos ∧
        s.ignoreNextIndent = s0.ignoreNextIndent⌝⦄ := by
  mvcgen [parseDelimiterRun, spanEnd, alloc, addToRoot, nodeLen, getNode, setParent, modifyNode, pushStack,
    -parseDelimiterRun_spec, -parseDelimiterRun_specS, -addToRoot_spec, -addToRoot_specS]
  case inv1 =>
    exact PostCond.mayThrow (fun (q : _ × Int) s => ⌜s = s0 ∧ start + 1 ≤ q.2 ∧ q.2 ≤ spanEndOf c s0⌝)
  inl_norm
  all_goals sp_norm
  all_goals (try (exact fun h => h))
  all_goals (try (
    refine ⟨trivial, ?_, ?_⟩ <;>
      first | omega | (simp only [Bool.not_eq_true', decide_eq_false_iff_not, Int.not_lt] at *; omega)))
  · exfalso
    have h2 := ‹(spanLenI _ _ == 0) = true›
    rw [get!_push_eq] at h2
    dsimp only at h2
    have := spanLen_zero h2 (by omega)
    omega
  · obtain ⟨hsp, hlt, hhi⟩ := ‹SPT _ _ _ _ ∧ _ < _ ∧ _ ≤ _›
    refine ⟨SP.addRootPush hsp { kind := IK.text, start := start, stop := _ } rfl (Int.le_refl _) (by dsimp only; omega)
      (by dsimp only; omega) rfl _ rfl rfl (by simp) (fun i hlt' => pm_push_set_lt _ _ _ (by rw [hsp.2]; exact Nat.le_refl _) i hlt') ?_,
      by omega, by omega, trivial, trivial⟩
    have := pm_push_set_new (‹IState›).parentMap (some 0)
    rw [hsp.2] at this
    exact this

@[spec 20000]
theorem importNode_specP (L : Lims) (t : Tree) (s0 : IState) :
    ⦃fun s => ⌜s = s0 ∧ SPT L.lo L.hi t.label.start s ∧ t.label.start ≤ t.label.stop ∧ t.label.stop ≤ L.hi ∧
        WFL t.label.start t.label.stop t.children⌝⦄ importNode t
    ⦃⇓? _ s => ⌜SPT L.lo L.hi t.label.stop s ∧ s.unparsedPos = s0.unparsedPos ∧
        s.ignoreNextIndent = s0.ignoreNextIndent⌝⦄ := by
  mvcgen [importNode, alloc, modifyNode, -importNode_spec, -importNode_specS]
  sp_norm
  obtain ⟨hsp, h1, h2, h3⟩ := ‹SPT _ _ _ _ ∧ _›
  exact ⟨SP.addRoot hsp (ofTree t) rfl (Int.le_refl _) h1 h2 h3 rfl rfl (by simp)
      (fun i hlt' => by simp only []; rw [Array.getElem?_push_lt hlt', Array.getElem?_eq_getElem hlt']), trivial, trivial⟩

end
end CM.Proofs.InlH
