import CM.Proofs.ReparseBlocksSess
import CM.Proofs.ReparseGap
import CM.Proofs.ReparseParaClose
/-
C16 — "a root block can be re-parsed on its own" — for the model of the real block parser (`blocksLP x`), block phase,
and the lifting to `Parse` (`parseDoc`).

Scope of `C16_blocks_fresh` / `C16_blocks_call` (everything else is stated as `C16_blocks_target`):
* inputs without NUL bytes;
* roots delivered by a `NextBlock` call that started with NO pending blocks (the previous root was closed by a blank
  line, by its own last line, or there is none) — this excludes in particular every root that starts where a link
  reference definition split off the same paragraph ends (the excluded class of the property);
* roots whose block is a leaf block: a paragraph, a setext heading, a fenced code block, an indented code block, an
  HTML block, an ATX heading or a thematic break (`GoodK`: every kind except block quotes, lists and link reference
  definitions). (Paragraphs that begin with `[` are covered by `paraCloseLocal`: closing a top-level paragraph
  whose text ends in a line ending does not look at the following line.)
-/
namespace CM.Proofs.Rp
open CM CM.Model CM.Gen CM.Proofs

/-- **C16, block phase, one `NextBlock` call.** `inp` has no NUL byte; `q` is a state of `Parse` on `inp` (`MemOK`)
    with no pending blocks; the call delivers the root `r` whose block is `Good`. Then parsing `r.Source` alone delivers
    exactly one root `r'` and then end of input, and `r'` has the same `Source`, `StartOffset 0`, `EndOffset |Source|`,
    `StartLine 1` and the same block-phase tree. -/
theorem C16_blocks_fresh (x : PExt) {inp : Bytes} (hnn : NoNul inp) {q : BP} (h : MemOK inp q) (hbl : q.blocks = [])
    {r : Root} {p' : BP} (hn : nextBlock (blocksLP x) q = (.block r, p')) (hgood : Good x r.block) (f : Nat) :
    ∃ r' pB, drain (blocksLP x) (f + 2) (memParser r.source) [] = ([r'], .err .eof, pB) ∧ Reparsed r r' := by
  obtain ⟨r', pB, hd, e1, e2, e3, e4, e5⟩ := reparse_fresh_call (closeIndepB x) hnn h hbl hn hgood (good2_all x _ _) f
  exact ⟨r', pB, hd, ⟨e1, e2, e3, e4, e5⟩⟩

/-- The same for the `(n+1)`-th call of `Parse` (`stateBefore`: the state that call starts from). -/
theorem C16_blocks_call (x : PExt) {inp : Bytes} (hnn : NoNul inp) (n : Nat)
    (hp : (callN (blocksLP x) n (memParser inp)).2.panic = none)
    (hbl : (stateBefore (blocksLP x) inp n).blocks = [])
    {r : Root} (hn : (callN (blocksLP x) n (memParser inp)).1 = .block r) (hgood : Good x r.block) (f : Nat) :
    ∃ r' pB, drain (blocksLP x) (f + 2) (memParser r.source) [] = ([r'], .err .eof, pB) ∧ Reparsed r r' := by
  have hM := stateBefore_memOK (blocksLP x) hnn n hp
  have hc := callN_eq_before (blocksLP x) inp n
  rcases hq : nextBlock (blocksLP x) (stateBefore (blocksLP x) inp n) with ⟨o, p'⟩
  rw [hq] at hc
  rw [hc] at hn
  simp only at hn
  subst hn
  exact C16_blocks_fresh x hnn hM hbl hq hgood f

/-- **Lifting to `Parse`.** The final tree of the re-parsed root under the document's reference matcher is the final
    tree of the root in the document. -/
theorem C16_lift {r r' : Root} (h : Reparsed r r') (ix : IExt) (matchRef : Bytes → Bool) :
    Inl.rewriteE ix r'.source r'.source.toArray matchRef (pbToTree r'.block) =
      Inl.rewriteE ix r.source r.source.toArray matchRef (pbToTree r.block) :=
  h.rewrite ix matchRef

/-- For the kinds other than paragraphs the second condition is void. -/
theorem good2_of_kind (x : PExt) (src : Bytes) (k : PB) (h : k.kind ≠ BK.paragraph) : Good2 x src k :=
  fun hp => absurd hp h

theorem good2_noBracket (x : PExt) (src : Bytes) (k : PB) (h : NoBracket src k) : Good2 x src k := fun _ => Or.inr h

theorem good2_para (x : PExt) (src : Bytes) (k : PB) (hpl : ParaCloseLocal x) : Good2 x src k := fun _ => Or.inl hpl

instance (k : Nat) : Decidable (GoodK k) := by unfold GoodK; infer_instance

instance (src : Bytes) (k : PB) : Decidable (NoBracket src k) := by
  unfold NoBracket
  cases h : k.inlines with
  | nil => exact isTrue (fun _ _ e => by cases e)
  | cons first rest =>
    by_cases hb : src.getD first.label.start.toNat 0 ≠ 0x5B
    · exact isTrue (fun f r e => by cases e; exact hb)
    · exact isFalse (fun hh => hb (hh first rest rfl))

/-- The full block-phase statement of C16 on the model (all kinds, all roots outside the excluded class, inputs with
    NUL bytes): not proved here. -/
def C16_blocks_target : Prop :=
  ∀ (x : PExt) (inp : Bytes) (r : Root), r ∈ (drain (blocksLP x) (inp.length + 8) (memParser inp) []).1 →
    (¬ ∃ d ∈ (drain (blocksLP x) (inp.length + 8) (memParser inp) []).1, d.block.kind = BK.linkRefDef ∧
        d.endOffset = r.startOffset) →
    ∃ r' pB, drain (blocksLP x) (r.source.length + 8) (memParser r.source) [] = ([r'], .err .eof, pB) ∧
      r'.source = r.source ∧ r'.startOffset = 0 ∧ r'.startLine = 1 ∧ pbToTree r'.block = pbToTree r.block

end CM.Proofs.Rp

/-! ### Non-vacuity: the theorems applied to concrete documents -/

namespace CM.Proofs.Rp
open CM CM.Model CM.Gen CM.Proofs

def getRoot : NBOut → Root
  | .block r => r
  | _ => default

def isBlock : NBOut → Bool
  | .block _ => true
  | _ => false

theorem eq_block_of_isBlock {o : NBOut} (h : isBlock o = true) : o = .block (getRoot o) := by
  cases o <;> simp_all [isBlock, getRoot]

instance (b : Bytes) : Decidable (NoNul b) := by unfold NoNul; infer_instance

/-- `# h⏎⏎```⏎a⏎```⏎⏎<!-- c -->⏎x⏎`: an ATX heading, a fenced code block, an HTML block, a paragraph. -/
def c16Doc : Bytes := Bytes.ofString "# h\n\n```\na\n```\n\n<!-- c -->\nx\n"

example : ((drain (blocksLP demoExt) 60 (memParser c16Doc) []).1.map fun r => (r.block.kind, r.startOffset, r.endOffset)) =
    [(BK.atxHeading, 0, 4), (BK.fencedCode, 5, 15), (BK.htmlBlock, 16, 27), (BK.paragraph, 27, 29)] := by decide +kernel

/-- The heading (first call; closed by its own line). -/
example : ∃ r' pB, drain (blocksLP demoExt) 2 (memParser (getRoot (callN (blocksLP demoExt) 0 (memParser c16Doc)).1).source) [] =
      ([r'], .err .eof, pB) ∧ Reparsed (getRoot (callN (blocksLP demoExt) 0 (memParser c16Doc)).1) r' :=
  C16_blocks_call demoExt (inp := c16Doc) (by decide +kernel) 0 (by decide +kernel) (by decide +kernel)
    (eq_block_of_isBlock (by decide +kernel))
    (show GoodK _ from by decide +kernel) 0

/-- The fenced code block (second call; closed by its closing fence), -/
example : ∃ r' pB, drain (blocksLP demoExt) 2 (memParser (getRoot (callN (blocksLP demoExt) 1 (memParser c16Doc)).1).source) [] =
      ([r'], .err .eof, pB) ∧ Reparsed (getRoot (callN (blocksLP demoExt) 1 (memParser c16Doc)).1) r' :=
  C16_blocks_call demoExt (inp := c16Doc) (by decide +kernel) 1 (by decide +kernel) (by decide +kernel)
    (eq_block_of_isBlock (by decide +kernel))
    (show GoodK _ from by decide +kernel) 0

/-- … and an unclosed fenced code block that the end of the document closes. -/
example : ∃ r' pB, drain (blocksLP demoExt) 2
      (memParser (getRoot (callN (blocksLP demoExt) 0 (memParser (Bytes.ofString "~~~\na\n\nb"))).1).source) [] =
      ([r'], .err .eof, pB) ∧ Reparsed (getRoot (callN (blocksLP demoExt) 0 (memParser (Bytes.ofString "~~~\na\n\nb"))).1) r' :=
  C16_blocks_call demoExt (inp := Bytes.ofString "~~~\na\n\nb") (by decide +kernel) 0 (by decide +kernel) (by decide +kernel)
    (eq_block_of_isBlock (by decide +kernel))
    (show GoodK _ from by decide +kernel) 0

/-- A paragraph closed by the heading that follows it (the closing line opens a new block). -/
example : ∃ r' pB, drain (blocksLP demoExt) 2
      (memParser (getRoot (callN (blocksLP demoExt) 0 (memParser (Bytes.ofString "a\nb\n# h\n"))).1).source) [] =
      ([r'], .err .eof, pB) ∧ Reparsed (getRoot (callN (blocksLP demoExt) 0 (memParser (Bytes.ofString "a\nb\n# h\n"))).1) r' :=
  C16_blocks_call demoExt (inp := Bytes.ofString "a\nb\n# h\n") (by decide +kernel) 0 (by decide +kernel) (by decide +kernel)
    (eq_block_of_isBlock (by decide +kernel))
    (show GoodK _ from by decide +kernel) 0

/-- An indented code block with trailing blank lines (they belong to its `Source`), closed by the paragraph that
    follows; the trailing blank text nodes are trimmed from both trees. -/
example : ∃ r' pB, drain (blocksLP demoExt) 2
      (memParser (getRoot (callN (blocksLP demoExt) 0 (memParser (Bytes.ofString "    a\n\n      b\n\n\nc\n"))).1).source) [] =
      ([r'], .err .eof, pB) ∧
      Reparsed (getRoot (callN (blocksLP demoExt) 0 (memParser (Bytes.ofString "    a\n\n      b\n\n\nc\n"))).1) r' :=
  C16_blocks_call demoExt (inp := Bytes.ofString "    a\n\n      b\n\n\nc\n") (by decide +kernel) 0 (by decide +kernel)
    (by decide +kernel) (eq_block_of_isBlock (by decide +kernel))
    (show GoodK _ from by decide +kernel) 0

example : (getRoot (callN (blocksLP demoExt) 0 (memParser (Bytes.ofString "    a\n\n      b\n\n\nc\n"))).1).block.kind = BK.indentedCode ∧
    (getRoot (callN (blocksLP demoExt) 0 (memParser (Bytes.ofString "    a\n\n      b\n\n\nc\n"))).1).source =
      Bytes.ofString "    a\n\n      b\n\n\n" := by decide +kernel

end CM.Proofs.Rp

/-! ### The literal statement with equality of the `PB` records is false (`lastLineBlank`) -/

namespace CM.Proofs.Rp
open CM CM.Model CM.Gen CM.Proofs

/-- The statement of the task with `r.block` compared as a record of the model: the re-parsed root is
    `{ r with startOffset := 0, endOffset := r.source.length, startLine := 1 }`. -/
def C16_blocks_record_target : Prop :=
  ∀ (x : PExt) (inp : Bytes), NoNul inp → ∀ r ∈ (drain (blocksLP x) (inp.length + 8) (memParser inp) []).1,
    r.block.kind ≠ BK.linkRefDef →
    (¬ ∃ d ∈ (drain (blocksLP x) (inp.length + 8) (memParser inp) []).1, d.block.kind = BK.linkRefDef ∧
        d.endOffset = r.startOffset) →
    ((drain (blocksLP x) (r.source.length + 8) (memParser r.source) []).1.map fun r' => r'.block.label.lastLineBlank) =
      [r.block.label.lastLineBlank]

theorem headD_mem {α} (l : List α) (d : α) (h : 0 < l.length) : l.headD d ∈ l := by
  cases l with
  | nil => simp at h
  | cons a t => simp

/-- `a⏎⏎b`: the paragraph `a` is closed by the blank line, which sets the model's `lastLineBlank` flag on it (the flag
    of `addLineText`, read by the looseness computation of lists); re-parsed alone it is closed by the end of input and
    the flag stays clear. The flag is not part of the exported tree (`pbToTree` drops it): the theorems above compare
    `pbToTree`. -/
theorem C16_blocks_record_target_false : ¬ C16_blocks_record_target := by
  intro h
  have := h demoExt (Bytes.ofString "a\n\nb") (by decide +kernel) _
    (headD_mem (drain (blocksLP demoExt) ((Bytes.ofString "a\n\nb").length + 8) (memParser (Bytes.ofString "a\n\nb")) []).1
      default (by decide +kernel))
    (by decide +kernel) (by decide +kernel)
  revert this
  decide +kernel

end CM.Proofs.Rp

namespace CM.Proofs.Rp
open CM CM.Model CM.Gen CM.Proofs

/-- A paragraph that begins with `[` (and is not a definition), closed by a blank line (`paraCloseLocal`). -/
example : ∃ r' pB, drain (blocksLP demoExt) 2
      (memParser (getRoot (callN (blocksLP demoExt) 0 (memParser (Bytes.ofString "[a] b\n\nc\n"))).1).source) [] =
      ([r'], .err .eof, pB) ∧ Reparsed (getRoot (callN (blocksLP demoExt) 0 (memParser (Bytes.ofString "[a] b\n\nc\n"))).1) r' :=
  C16_blocks_call demoExt (inp := Bytes.ofString "[a] b\n\nc\n") (by decide +kernel) 0 (by decide +kernel) (by decide +kernel)
    (eq_block_of_isBlock (by decide +kernel))
    (show GoodK _ from by decide +kernel) 0

end CM.Proofs.Rp

/-! ### The same for the roots of `drain` (no panic hypothesis) -/

namespace CM.Proofs.Rp
open CM CM.Model CM.Gen CM.Proofs

/-- The `(n+1)`-th root of `drain` is what the `(n+1)`-th call returns, and all the calls before returned roots. -/
theorem drain_getElem (L : LineParserI) : ∀ (F : Nat) (p : BP) (acc : List Root) (n : Nat) (r : Root),
    (drain L F p acc).1[acc.length + n]? = some r →
    (callN L n p).1 = .block r ∧ ∀ m, m ≤ n → isBlock (callN L m p).1 = true := by
  intro F
  induction F with
  | zero =>
    intro p acc n r h
    simp [drain] at h
  | succ F ih =>
    intro p acc n r h
    rcases hq : nextBlock L p with ⟨o, p'⟩
    cases o with
    | block r0 =>
      simp only [drain, hq] at h
      cases n with
      | zero =>
        -- the root is the one just delivered: it stays at its index in the result
        have key : ∀ (G : Nat) (q : BP) (a : List Root) (i : Nat) (y : Root), a.reverse[i]? = some y →
            (drain L G q a).1[i]? = some y := by
          intro G
          induction G with
          | zero => intro q a i y hy; simpa [drain] using hy
          | succ G ihG =>
            intro q a i y hy
            rcases hq2 : nextBlock L q with ⟨o2, q'⟩
            cases o2 with
            | block r2 =>
              simp only [drain, hq2]
              apply ihG
              rw [List.reverse_cons, List.getElem?_append_left (by
                have := (List.getElem?_eq_some_iff.mp hy).1; simpa using this)]
              exact hy
            | err e => simpa [drain, hq2] using hy
            | panic m => simpa [drain, hq2] using hy
        have := key F p' (r0 :: acc) acc.length r0 (by simp)
        rw [Nat.add_zero] at h
        rw [this] at h
        simp only [Option.some.injEq] at h
        subst h
        refine ⟨by simp [callN, hq], fun m hm => ?_⟩
        have : m = 0 := by omega
        subst this
        simp [callN, hq, isBlock]
      | succ n =>
        have h' : (drain L F p' (r0 :: acc)).1[(r0 :: acc).length + n]? = some r := by
          rw [List.length_cons]
          have : acc.length + 1 + n = acc.length + (n + 1) := by omega
          rw [this]; exact h
        obtain ⟨a1, a2⟩ := ih p' (r0 :: acc) n r h'
        refine ⟨by simp only [callN, hq]; exact a1, fun m hm => ?_⟩
        cases m with
        | zero => simp [callN, hq, isBlock]
        | succ m => simp only [callN, hq]; exact a2 m (by omega)
    | err e =>
      exfalso
      simp only [drain, hq] at h
      have := (List.getElem?_eq_some_iff.mp h).1
      simp at this
      omega
    | panic m =>
      exfalso
      simp only [drain, hq] at h
      have := (List.getElem?_eq_some_iff.mp h).1
      simp at this
      omega

/-- The in-memory run of the real block parser records no panic as long as it delivers roots. -/
theorem callN_blocks_noPanic (x : PExt) (inp : Bytes) : ∀ n, (∀ m, m ≤ n → isBlock (callN (blocksLP x) m (memParser inp)).1 = true) →
    (callN (blocksLP x) n (memParser inp)).2.panic = none ∧ (callN (blocksLP x) n (memParser inp)).2.err.isSome = true ∧
    (callN (blocksLP x) n (memParser inp)).2.i ≤ (callN (blocksLP x) n (memParser inp)).2.buf.length ∧
    BlocksJ (blocksLP_wellS x) (callN (blocksLP x) n (memParser inp)).2 := by
  have step : ∀ p : BP, p.panic = none → p.err.isSome = true → p.i ≤ p.buf.length → BlocksJ (blocksLP_wellS x) p →
      isBlock (nextBlock (blocksLP x) p).1 = true →
      (nextBlock (blocksLP x) p).2.panic = none ∧ (nextBlock (blocksLP x) p).2.err.isSome = true ∧
      (nextBlock (blocksLP x) p).2.i ≤ (nextBlock (blocksLP x) p).2.buf.length ∧
      BlocksJ (blocksLP_wellS x) (nextBlock (blocksLP x) p).2 := by
    intro p hp he hi hb hblk
    have hg := bpFuel_mem_ge p
    have := (nextBlockF_memS (blocksLP_wellS x) p he hi hb (bpFuel p) (bpFuel p) (bpFuel p) (bpFuel p)
      (by omega) (by omega) hg hg).2
    rw [← nextBlock_eq_F] at this
    obtain ⟨g1, g2⟩ := this.good _ (eq_block_of_isBlock hblk)
    exact ⟨by rw [this.panic]; exact hp, by rw [this.err]; exact he, g1, g2⟩
  intro n
  induction n with
  | zero =>
    intro h
    exact step (memParser inp) rfl rfl (Nat.zero_le _) (blocksJ_init (blocksLP_wellS x) inp) (h 0 (Nat.le_refl _))
  | succ n ih =>
    intro h
    obtain ⟨a1, a2, a3, a4⟩ := ih (fun m hm => h m (by omega))
    rw [callN_succ]
    exact step _ a1 a2 a3 a4 (by rw [← callN_succ]; exact h (n + 1) (Nat.le_refl _))

/-- **C16, block phase, for the roots of `Parse`.** `r` is the `(n+1)`-th root of the NUL-free input `inp`; the call that
    delivered it started with no pending blocks; its block is of a kind `GoodK`. Then `r.Source` parses to exactly one root, `Reparsed r r'`. -/
theorem C16_blocks_drain (x : PExt) {inp : Bytes} (hnn : NoNul inp) (F n : Nat) (r : Root)
    (hr : (drain (blocksLP x) F (memParser inp) []).1[n]? = some r)
    (hbl : (stateBefore (blocksLP x) inp n).blocks = []) (hgood : Good x r.block)
    (f : Nat) :
    ∃ r' pB, drain (blocksLP x) (f + 2) (memParser r.source) [] = ([r'], .err .eof, pB) ∧ Reparsed r r' := by
  obtain ⟨h1, h2⟩ := drain_getElem (blocksLP x) F (memParser inp) [] n r (by simpa using hr)
  exact C16_blocks_call x hnn n (callN_blocks_noPanic x inp n h2).1 hbl h1 hgood f

end CM.Proofs.Rp

/-! ### Observable forms of "no pending blocks": the first root, and a root after blank lines -/

namespace CM.Proofs.Rp
open CM CM.Model CM.Gen CM.Proofs

/-- The first root of a document. -/
theorem C16_blocks_first (x : PExt) {inp : Bytes} (hnn : NoNul inp) (F : Nat) (r : Root)
    (hr : (drain (blocksLP x) F (memParser inp) []).1[0]? = some r) (hgood : Good x r.block) (f : Nat) :
    ∃ r' pB, drain (blocksLP x) (f + 2) (memParser r.source) [] = ([r'], .err .eof, pB) ∧ Reparsed r r' :=
  C16_blocks_drain x hnn F 0 r hr (by simp [stateBefore, memParser]) hgood f

/-- A root that does not start where the root before it ends (blank lines in between). -/
theorem C16_blocks_gap (x : PExt) {inp : Bytes} (hnn : NoNul inp) (F n : Nat) (rp r : Root)
    (hrp : (drain (blocksLP x) F (memParser inp) []).1[n]? = some rp)
    (hr : (drain (blocksLP x) F (memParser inp) []).1[n + 1]? = some r) (hgap : r.startOffset ≠ rp.endOffset)
    (hgood : Good x r.block) (f : Nat) :
    ∃ r' pB, drain (blocksLP x) (f + 2) (memParser r.source) [] = ([r'], .err .eof, pB) ∧ Reparsed r r' := by
  obtain ⟨h1, _⟩ := drain_getElem (blocksLP x) F (memParser inp) [] n rp (by simpa using hrp)
  obtain ⟨h2, h3⟩ := drain_getElem (blocksLP x) F (memParser inp) [] (n + 1) r (by simpa using hr)
  have hp := (callN_blocks_noPanic x inp (n + 1) h3).1
  exact C16_blocks_drain x hnn F (n + 1) r hr (fresh_of_gap (blocksLP x) hnn n rp r hp h1 h2 hgap) hgood f

end CM.Proofs.Rp

/-! ### `Parse`: the final tree of the re-parsed root under the document's reference matcher -/

namespace CM.Proofs.Rp
open CM CM.Model CM.Gen CM.Proofs

/-- **C16 for `Parse`** (`parseDoc`). `pr` is the `(n+1)`-th root of `Parse(inp)` (NUL-free), delivered by a call that
    started with no pending blocks, of a kind `GoodK`.
    Then the block phase on `pr.root.Source` alone delivers exactly one root `r'` (same `Source`, offsets `0 … |Source|`,
    line 1, same block-phase tree), and `Rewrite` with the DOCUMENT's reference matcher turns it into the very tree the
    root has in the document. -/
theorem C16_parse (x : PExt) (ix : IExt) {inp : Bytes} (hnn : NoNul inp) (n : Nat) (pr : ParsedRoot)
    (hpr : (parseDoc x ix inp).roots[n]? = some pr)
    (hbl : (stateBefore (blocksLP x) inp n).blocks = []) (hgood : Good x pr.root.block) (f : Nat) :
    ∃ r' pB, drain (blocksLP x) (f + 2) (memParser pr.root.source) [] = ([r'], .err .eof, pB) ∧ Reparsed pr.root r' ∧
      Inl.rewriteE ix r'.source r'.source.toArray (fun k => ((parseDoc x ix inp).refs.lookup k).isSome) (pbToTree r'.block) =
        pr.tree := by
  unfold parseDoc at hpr
  simp only [List.getElem?_map] at hpr
  cases hr : (drain (blocksLP x) (inp.length + 8) (memParser inp) []).1[n]? with
  | none => rw [hr] at hpr; cases hpr
  | some r =>
    rw [hr] at hpr
    simp only [Option.map_some, Option.some.injEq] at hpr
    subst hpr
    obtain ⟨r', pB, hd, hrep⟩ := C16_blocks_drain x hnn _ n r hr hbl hgood f
    exact ⟨r', pB, hd, hrep, hrep.rewrite ix _⟩

end CM.Proofs.Rp

/-! ### More instances: the `drain` forms, a root after a blank line, `Parse`, and Layer U itself -/

namespace CM.Proofs.Rp
open CM CM.Model CM.Gen CM.Proofs

theorem getElem?_getD {α} (l : List α) (n : Nat) (d : α) (h : n < l.length) : l[n]? = some (l.getD n d) := by
  rw [List.getD_eq_getElem?_getD, List.getElem?_eq_getElem h]; rfl

/-- The roots of `c16Doc`. -/
def c16Roots : List Root := (drain (blocksLP demoExt) 60 (memParser c16Doc) []).1

/-- The fenced code block of `c16Doc` (second root) starts after a blank line: `C16_blocks_gap`. -/
example : ∃ r' pB, drain (blocksLP demoExt) 2 (memParser (c16Roots.getD 1 default).source) [] = ([r'], .err .eof, pB) ∧
    Reparsed (c16Roots.getD 1 default) r' :=
  C16_blocks_gap demoExt (inp := c16Doc) (by decide +kernel) 60 0 (c16Roots.getD 0 default) (c16Roots.getD 1 default)
    (getElem?_getD _ _ _ (by decide +kernel)) (getElem?_getD _ _ _ (by decide +kernel)) (by decide +kernel)
    (show GoodK _ from by decide +kernel) 0

/-- The HTML block (third root), `C16_blocks_drain`; and the heading (first root), `C16_blocks_first`. -/
example : ∃ r' pB, drain (blocksLP demoExt) 2 (memParser (c16Roots.getD 2 default).source) [] = ([r'], .err .eof, pB) ∧
    Reparsed (c16Roots.getD 2 default) r' :=
  C16_blocks_drain demoExt (inp := c16Doc) (by decide +kernel) 60 2 _ (getElem?_getD _ _ _ (by decide +kernel))
    (by decide +kernel) (show GoodK _ from by decide +kernel) 0

example : ∃ r' pB, drain (blocksLP demoExt) 2 (memParser (c16Roots.getD 0 default).source) [] = ([r'], .err .eof, pB) ∧
    Reparsed (c16Roots.getD 0 default) r' :=
  C16_blocks_first demoExt (inp := c16Doc) (by decide +kernel) 60 _ (getElem?_getD _ _ _ (by decide +kernel))
    (show GoodK _ from by decide +kernel) 0

/-- Layer U on the real parser: `x` = the fenced block, `t` = what follows it in the document. -/
example : ∃ r' pB, drain (blocksLP demoExt) 2 (memParser (Bytes.ofString "```\na\n```\n")) [] = ([r'], .err .eof, pB) ∧
    r'.source = Bytes.ofString "```\na\n```\n" ∧ r'.startOffset = 0 ∧ r'.startLine = 1 := by
  obtain ⟨r', pB, h1, _, h3, h4, _, h6, _⟩ :=
    reparse_first (closeIndepB demoExt) (Bytes.ofString "```\na\n```\n") (Bytes.ofString "\nx\n") (by decide +kernel)
      (by decide +kernel) (Or.inr ⟨by decide +kernel, by decide +kernel⟩)
      (getRoot (nextBlock (blocksLP demoExt) (memParser (Bytes.ofString "```\na\n```\n" ++ Bytes.ofString "\nx\n"))).1)
      (nextBlock (blocksLP demoExt) (memParser (Bytes.ofString "```\na\n```\n" ++ Bytes.ofString "\nx\n"))).2
      (by
        have : isBlock (nextBlock (blocksLP demoExt) (memParser (Bytes.ofString "```\na\n```\n" ++ Bytes.ofString "\nx\n"))).1 = true := by
          decide +kernel
        rw [← eq_block_of_isBlock this])
      (by decide +kernel) (show GoodK _ from by decide +kernel) (good2_all demoExt _ _) 0
  exact ⟨r', pB, h1, h3, h4, h6⟩

end CM.Proofs.Rp

/-! ### `onCloseParagraph` does look at the byte that follows the paragraph -/

namespace CM.Proofs.Rp
open CM CM.Model CM.Gen CM.Proofs

/-- `ParaCloseLocal` without the hypothesis that the source ends in a line ending. -/
def ParaCloseLocal_unterminated (x : PExt) : Prop :=
  ∀ (src : Bytes) (σ : LP) (k0 : PB) (ln : Bytes), BI src σ → σ.root.blocks = [k0] → k0.label.stop < 0 →
    k0.label.kind = BK.paragraph → ln ≠ [] → NoNul ln →
    closeBlock x (src ++ ln) (src.length : Int) k0 = closeBlock x src (src.length : Int) k0

/-- The source `[a]: /u` WITHOUT a final line ending, then the line `x⏎`: closed at offset 7 with the longer source the
    paragraph stays a paragraph (the destination is followed by `x`: the reader's `current()` returns `source[7]` after
    the last inline run), with the source `[a]: /u` alone it is a link reference definition. The stream machine never
    produces this situation (`readline` delivers an unterminated line only at the end of the input, and then nothing
    follows); this is why `Feed` / `Sess.step` record `terminated src`. -/
theorem paraCloseLocal_unterminated_false : ¬ ParaCloseLocal_unterminated demoExt := by
  intro h
  have hBI : BI (Bytes.ofString "[a]: /u") ((blocksLP demoExt).line ((blocksLP demoExt).new []) (Bytes.ofString "[a]: /u") 0) :=
    BI.fresh demoExt _ (by decide +kernel) (by decide +kernel) (by decide +kernel)
  obtain ⟨k0, hb, hko⟩ := headOpen_single (x := demoExt) hBI.inv (by decide +kernel)
  have hk0 : k0 = (((blocksLP demoExt).line ((blocksLP demoExt).new []) (Bytes.ofString "[a]: /u") 0).root.blocks.headD default) := by
    rw [hb]; rfl
  have := h _ _ k0 (Bytes.ofString "x\n") hBI hb hko (by rw [hk0]; decide +kernel) (by decide +kernel) (by decide +kernel)
  rw [hk0] at this
  have h2 := congrArg (List.map PB.kind) this
  revert h2
  decide +kernel

end CM.Proofs.Rp
