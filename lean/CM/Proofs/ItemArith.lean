import CM.Proofs.ItemClose
import CM.Proofs.QuoteArith
/-
C09 (list-item half): the line structure of `item m N D` and the arithmetic of the position maps `psiSk` / `psiEk`
(port of `QuoteArith`, prefixes of width `k = |m| + N`).
-/
namespace CM.Proofs.Item
open CM CM.Model CM.Gen CM.Proofs.Quote

/-- The parameters of the list item: the marker `m` (delimiter `dl`, number `nn`) and the padding `N`. -/
structure IP where
  m : Bytes
  N : Nat
  dl : UInt8
  nn : Nat
  mlen : 1 ≤ m.length
  n1 : 1 ≤ N
  n4 : N ≤ 4
  /-- the first byte of the marker -/
  m0 : m.getD 0 0 ≠ SP ∧ m.getD 0 0 ≠ 0x3E ∧ m.getD 0 0 ≠ 0x23 ∧ m.getD 0 0 ≠ 0x60 ∧ m.getD 0 0 ≠ 0x7E ∧ m.getD 0 0 ≠ 0x3C
  /-- no tab, carriage return, NUL or line feed in the marker -/
  mclean : ∀ c ∈ m, c ≠ TAB ∧ c ≠ CR ∧ c ≠ 0 ∧ c ≠ LF
  /-- followed by a space the marker is recognised in full -/
  parse : ∀ rest : Bytes, parseListMarker (m ++ SP :: rest) = ⟨dl, nn, (m.length : Int)⟩

/-- The width of the prefixes. -/
def IP.k (I : IP) : Nat := I.m.length + I.N

/-- The rest of `item m N D` from a line start on: the prefix `pre` of that line, then `spaces k` before the others. -/
def ifrom (pre : Bytes) (k : Nat) (b : Bytes) : Bytes := if b = [] then [] else pre ++ igo (spaces k) b

/-- `item m N D`. -/
def iq (I : IP) (D : Bytes) : Bytes := item I.m I.N D

/-- The prefix of the line that starts behind `a`. -/
def IP.pre (I : IP) (a : Bytes) : Bytes := if a = [] then I.m ++ spaces I.N else spaces I.k

theorem iq_eq (I : IP) (D : Bytes) : iq I D = ifrom (I.pre []) I.k D := by
  unfold iq item ifrom IP.pre IP.k
  simp

theorem IP.pre_length (I : IP) (a : Bytes) : (I.pre a).length = I.k := by
  unfold IP.pre IP.k
  split <;> simp [spaces]

theorem spaces_mem {n : Nat} {c : UInt8} (h : c ∈ spaces n) : c = SP := by
  unfold spaces at h
  exact (List.mem_replicate.mp h).2

theorem IP.pre_clean (I : IP) (a : Bytes) : ∀ c ∈ I.pre a, c ≠ TAB ∧ c ≠ CR ∧ c ≠ 0 ∧ c ≠ LF := by
  intro c hc
  unfold IP.pre at hc
  split at hc
  · rcases List.mem_append.mp hc with h | h
    · exact I.mclean c h
    · rw [spaces_mem h]; decide
  · rw [spaces_mem hc]; decide

theorem IP.pre_ne (I : IP) {a : Bytes} (h : a ≠ []) : I.pre a = spaces I.k := by unfold IP.pre; rw [if_neg h]

/-! ### lines -/

theorem igo_noLF (pre : Bytes) : ∀ (l : Bytes), (∀ c ∈ l, c ≠ LF) → igo pre l = l := by
  intro l
  induction l with
  | nil => intro _; rfl
  | cons a rest ih =>
    intro h
    simp only [igo]
    rw [if_neg (h a (List.mem_cons_self ..)), ih fun c hc => h c (List.mem_cons_of_mem _ hc)]

/-- `igo` line by line. -/
theorem igo_line (k : Nat) : ∀ (b : Bytes), NoCR b → b ≠ [] →
    igo (spaces k) b = b.take (lineLen b) ++ ifrom (spaces k) k (b.drop (lineLen b)) := by
  intro b
  induction b with
  | nil => intro _ h; exact absurd rfl h
  | cons a rest ih =>
    intro h _
    rw [lineLen_noCR_cons h]
    by_cases ha : a = LF
    · subst ha
      simp only [igo, if_true, List.take_succ_cons, List.take_zero, List.drop_succ_cons, List.drop_zero]
      unfold ifrom
      by_cases hr : rest = []
      · subst hr; rfl
      · rw [if_neg hr, if_neg hr]; rfl
    · rw [if_neg ha]
      simp only [igo, if_neg ha, List.take_succ_cons, List.drop_succ_cons]
      by_cases hr : rest = []
      · subst hr
        simp [igo, ifrom, lineLen]
      · rw [ih h.tail hr]; rfl

/-- **`ifrom` line by line.** -/
theorem ifrom_line (pre : Bytes) (k : Nat) (b : Bytes) (h : NoCR b) (hne : b ≠ []) :
    ifrom pre k b = pre ++ (b.take (lineLen b) ++ ifrom (spaces k) k (b.drop (lineLen b))) := by
  conv => lhs; unfold ifrom
  rw [if_neg hne, igo_line k b h hne]

theorem ifrom_nil (pre : Bytes) (k : Nat) : ifrom pre k [] = [] := rfl

theorem lineLen_take_ifrom (pre : Bytes) (k : Nat) : ∀ (l : Bytes), NoCR l →
    lineLen (l.take (lineLen l) ++ ifrom pre k (l.drop (lineLen l))) = lineLen l := by
  intro l
  induction l with
  | nil => intro _; rfl
  | cons a rest ih =>
    intro hl
    rw [lineLen_noCR_cons hl]
    by_cases ha : a = LF
    · subst ha
      simp only [if_true, List.take_succ_cons, List.take_zero, List.cons_append, List.nil_append]
      rw [lineLen_LF]
    · rw [if_neg ha]
      simp only [List.take_succ_cons, List.drop_succ_cons, List.cons_append]
      rw [lineLen_other ha (hl a (List.mem_cons_self ..)), ih hl.tail]

theorem lineLen_prefix : ∀ (pre rest : Bytes), (∀ c ∈ pre, c ≠ LF ∧ c ≠ CR) → lineLen (pre ++ rest) = pre.length + lineLen rest := by
  intro pre
  induction pre with
  | nil => intro rest _; simp
  | cons a p ih =>
    intro rest h
    have ha := h a (List.mem_cons_self ..)
    rw [List.cons_append, lineLen_other ha.1 ha.2, ih rest fun c hc => h c (List.mem_cons_of_mem _ hc)]
    simp only [List.length_cons]; omega

/-- The first line of `ifrom pre k b` is `pre` followed by the first line of `b`. -/
theorem lineLen_ifrom (pre : Bytes) (k : Nat) (b : Bytes) (hp : ∀ c ∈ pre, c ≠ LF ∧ c ≠ CR) (h : NoCR b) (hne : b ≠ []) :
    lineLen (ifrom pre k b) = lineLen b + pre.length := by
  rw [ifrom_line pre k b h hne, lineLen_prefix pre _ hp, lineLen_take_ifrom _ k b h]; omega

theorem take_line_ifrom (pre : Bytes) (k : Nat) (b : Bytes) (hp : ∀ c ∈ pre, c ≠ LF ∧ c ≠ CR) (h : NoCR b) (hne : b ≠ []) :
    (ifrom pre k b).take (lineLen (ifrom pre k b)) = pre ++ b.take (lineLen b) := by
  rw [lineLen_ifrom pre k b hp h hne, ifrom_line pre k b h hne]
  have hl : (b.take (lineLen b)).length = lineLen b := by
    rw [List.length_take]; exact Nat.min_eq_left (lineLen_le b)
  rw [← List.append_assoc, List.take_append_of_le_length (by simp [hl]; omega)]
  exact List.take_of_length_le (by simp [hl]; omega)

theorem IP.pre_noLF (I : IP) (a : Bytes) : ∀ c ∈ I.pre a, c ≠ LF ∧ c ≠ CR :=
  fun c hc => ⟨(I.pre_clean a c hc).2.2.2, (I.pre_clean a c hc).2.1⟩

/-! ### the position maps on a line -/

section line
variable {k : Nat} {D a b : Bytes} (hD : D = a ++ b) (hcr : NoCR D) (ha : Whole a)
include hD hcr ha

omit hcr in
/-- The start of the line in `item m N D`. -/
theorem psiEk_lineStart : psiEk k D a.length = a.length + k * nLF a a.length := by
  unfold psiEk
  rcases ha with rfl | hl
  · simp [nLF_zero]
  · have hne : a ≠ [] := by intro e; rw [e] at hl; cases hl
    have hpos : 0 < a.length := List.length_pos_iff.mpr hne
    rw [if_neg (by omega), hD, nLF_append_le a b _ (by omega)]
    have := nLF_last hl
    have e : 1 + nLF a (a.length - 1) = nLF a a.length := by omega
    rw [e]

/-- Positions inside the line, as starts. -/
theorem psiSk_line (t : Nat) (ht : t < lineLen b ∨ t = 0) : psiSk k D (a.length + t) = a.length + k * nLF a a.length + k + t := by
  unfold psiSk
  rw [hD, nLF_append_left]
  have : nLF b t = 0 := by
    rcases ht with ht | rfl
    · exact nLF_line b (noCR_b hD hcr) t ht
    · rfl
  rw [this, Nat.add_zero, Nat.mul_add, Nat.mul_one]
  omega

/-- Positions inside the line (or at its end), as ends. -/
theorem psiEk_line (t : Nat) (ht1 : 1 ≤ t) (ht : t ≤ lineLen b) :
    psiEk k D (a.length + t) = a.length + k * nLF a a.length + k + t := by
  unfold psiEk
  rw [if_neg (by omega)]
  have e : a.length + t - 1 = a.length + (t - 1) := by omega
  rw [e, hD, nLF_append_left, nLF_line b (noCR_b hD hcr) (t - 1) (by omega), Nat.add_zero, Nat.mul_add, Nat.mul_one]
  omega

theorem prabsK_here (c : Nat) (hc : c ≤ a.length) (t : Nat) (ht : t ≤ lineLen b) :
    PRabsK k D c ((a.length - c + t : Nat) : Int) ((a.length + k * nLF a a.length + k + t : Nat) : Int) := by
  refine ⟨Int.natCast_nonneg _, ?_⟩
  have e : ((a.length - c + t : Nat) : Int).toNat + c = a.length + t := by omega
  rw [e]
  by_cases h0 : t = 0
  · left; rw [psiSk_line hD hcr ha t (Or.inr h0)]
  · right; rw [psiEk_line hD hcr ha t (by omega) ht]

omit hcr in
theorem prabsK_start (c : Nat) (hc : c ≤ a.length) :
    PRabsK k D c ((a.length - c : Nat) : Int) ((a.length + k * nLF a a.length : Nat) : Int) := by
  refine ⟨Int.natCast_nonneg _, Or.inr ?_⟩
  have e : ((a.length - c : Nat) : Int).toNat + c = a.length := by omega
  rw [e, psiEk_lineStart hD ha]

omit hcr in
theorem prabsK_ord (c : Nat) (hc : c ≤ a.length) (x x' : Int) (h : PRabsK k D c x x') :
    (((a.length - c : Nat) : Int) ≤ x ↔ ((a.length + k * nLF a a.length : Nat) : Int) ≤ x') := by
  obtain ⟨h0, hx⟩ := h
  have hSE := psiEk_le_psiSk k D (x.toNat + c)
  by_cases hge : a.length ≤ x.toNat + c
  · -- at or after the line start
    have hE : a.length + k * nLF a a.length ≤ psiEk k D (x.toNat + c) := by
      obtain ⟨t, ht⟩ : ∃ t, x.toNat + c = a.length + t := ⟨x.toNat + c - a.length, by omega⟩
      rw [ht]
      by_cases h0 : t = 0
      · subst h0; rw [Nat.add_zero, psiEk_lineStart hD ha]; exact Nat.le_refl _
      · unfold psiEk
        rw [if_neg (by omega)]
        have e : a.length + t - 1 = a.length + (t - 1) := by omega
        rw [e]
        have h1 : nLF a a.length ≤ 1 + nLF D (a.length + (t - 1)) := by
          rw [hD, nLF_append_left]; omega
        have := Nat.mul_le_mul_left k h1
        omega
    constructor
    · intro _
      rcases hx with hx | hx <;> rw [hx] <;> omega
    · intro _; omega
  · -- before the line start: `a` is not empty and ends with LF
    have hlt : x.toNat + c < a.length := by omega
    have hl : a.getLast? = some LF := by
      rcases ha with rfl | hl
      · simp at hlt
      · exact hl
    have hS : psiSk k D (x.toNat + c) < a.length + k * nLF a a.length := by
      unfold psiSk
      have h1 : nLF D (x.toNat + c) ≤ nLF a (a.length - 1) := by
        rw [hD, nLF_append_le a b _ (by omega)]
        exact nLF_le_of_le a (by omega)
      have h2 := nLF_last hl
      have h3 : 1 + nLF D (x.toNat + c) ≤ nLF a a.length := by omega
      have := Nat.mul_le_mul_left k h3
      omega
    constructor
    · intro h; omega
    · intro h
      rcases hx with hx | hx <;> rw [hx] at h <;> omega

end line

end CM.Proofs.Item
