import CM.Proofs.CoverageOps
/-
C03, part B — the tree operations of the line parser transport `CI`: `closeContainer`, `closeLastChild`, `endBlock`,
`openBlockLoop`, `openBlock`, `setContainerIndent`; and the list marker (`openBlock marker; advance; endBlock`), whose
bytes are covered by the marker block itself.
-/
namespace CM.Proofs.Cov
open CM CM.Model CM.Gen CM.Spec CM.Spec.T CM.Proofs.BT
open CM.Proofs.BSp (ParaPred QT isContainerKind)

/-- Coverage of the edited block shows through the spine. -/
theorem spineModify_cov (f : PB → PB) (j : Nat) : ∀ (d : Nat) (b c : PB), spineGet b d = some c →
    covPB (f c) j = true → covPB (spineModify f b d) j = true := by
  intro d
  induction d with
  | zero =>
    intro b c hc h
    rw [spineGet_zero] at hc; cases hc
    rw [spineModify_zero]; exact h
  | succ d ih =>
    intro b c hc h
    obtain ⟨l, bs, is⟩ := b
    rw [spineGet_succ] at hc
    rw [spineModify_succ]
    cases hgl : bs.getLast? with
    | none => rw [hgl] at hc; cases hc
    | some c0 =>
      rw [hgl] at hc
      simp only []
      have := ih c0 c hc h
      rw [covPB_mk_blocks _ _ _ _ (by simp), covPBs_append, covPBs_cons, this]
      simp

/-- Coverage of the blocks that replace the last child shows through. -/
theorem spineReplaceLast_cov (g : PB → List PB) (j : Nat) (d : Nat) (b c : PB) (hc : spineGet b (d + 1) = some c)
    (h : covPBs (g c) j = true) : covPB (spineReplaceLast g b d) j = true := by
  rw [spineReplaceLast_eq]
  rw [BSp.spineGet_succ_eq] at hc
  cases hp : spineGet b d with
  | none => rw [hp] at hc; cases hc
  | some p =>
    rw [hp] at hc
    simp only [Option.bind_some] at hc
    apply spineModify_cov _ j d b p hp
    obtain ⟨l, bs, is⟩ := p
    have hgl : bs.getLast? = some c := hc
    simp only [replaceLastFn, hgl]
    have hne : bs.dropLast ++ g c ≠ [] := by
      intro e
      have : g c = [] := (List.append_eq_nil_iff.mp e).2
      rw [this] at h; cases h
    rw [covPB_mk_blocks _ _ _ _ hne, covPBs_append, h]
    simp

/-! ### closing -/

/-- Closing the last child of the block at depth `d` (general form, with the paragraph contract). -/
theorem closeAt_ok {Q Q' : ParaPred} (x : PExt) (src : Bytes) (e : Int) (he : 0 ≤ e)
    (hq : ∀ l is, Q l is = true → Q' l is = true) (hP : ParaClose Q Q' x src e) (root : PB) (d : Nat) (h : WF Q root) :
    WF Q' (spineReplaceLast (closeBlock x src e) root d) ∧ Le (NP src) root (spineReplaceLast (closeBlock x src e) root d) := by
  apply spineReplaceLast_ok hq _ d root h
  intro c _ hcw
  have r := closeBlock_ok x src e he hq hP c hcw
  exact ⟨r.1, r.2, fun hk => closeBlock_item_kind x src e c hk⟩

theorem closeContainer_C {Q Q' : ParaPred} (x : PExt) (p : LP) (e : Int) (h : CI Q S L Z p) (hd : p.depth ≠ 0) (he : 0 ≤ e)
    (hq : ∀ l is, Q l is = true → Q' l is = true) (hP : ParaClose Q Q' x p.source e) : CI Q' S L Z (p.closeContainer x e) := by
  have cc := closeContainer_post x p e h.inv.tree
  have hs := BSp.closeContainer_src x p e
  have r := closeAt_ok x p.source e he hq hP p.root (p.depth - 1) h.wf
  have hroot : (p.closeContainer x e).root = spineReplaceLast (closeBlock x p.source e) p.root (p.depth - 1) := by
    rw [BSp.closeContainer_eq x p e hd]
  exact h.edit (cc.inv h.inv) hs.1 hs.2.1 cc.cur (by rw [hroot]; exact r.1) (by rw [hroot]; exact r.2)
    (fun h2 => by rw [cc.state] at h2; exact h2)

theorem closeLastChild_C {Q Q' : ParaPred} (x : PExt) (p : LP) (e : Int) (h : CI Q S L Z p) (he : 0 ≤ e)
    (hq : ∀ l is, Q l is = true → Q' l is = true) (hP : ParaClose Q Q' x p.source e) : CI Q' S L Z (p.closeLastChild x e) := by
  have r := closeAt_ok x p.source e he hq hP p.root p.depth h.wf
  have hi : Inv (p.closeLastChild x e) := h.inv.of_treeOp rfl rfl (closeLastChild_ok x p e h.inv.tree)
  exact h.edit hi rfl rfl rfl r.1 r.2 (fun h2 => h2)

/-- The block at depth `d` of the spine is a leaf block (no block children) of a kind whose `close` has no hook. -/
def LeafKind (k : Nat) : Prop :=
  isContainerKind k = false ∧ k ≠ BK.paragraph ∧ k ≠ BK.setextHeading ∧ k ≠ BK.indentedCode

theorem LeafKind.ne_list {k : Nat} (h : LeafKind k) : k ≠ BK.list := by
  intro e
  have := h.1
  rw [e] at this
  revert this; decide

/-- Closing a leaf block at `e`: no contract needed. -/
theorem closeLeaf_ok {Q : ParaPred} (x : PExt) (src : Bytes) (e : Int) (he : 0 ≤ e) (c : PB) (hk : LeafKind c.kind) (h : WF Q c) :
    (∀ c' ∈ closeBlock x src e c, WF Q c') ∧ LeL (NP src) [c] (closeBlock x src e c) ∧
    (c.kind = BK.listItem → ∀ c' ∈ closeBlock x src e c, c'.kind = BK.listItem) ∧
    (c.label.stop < 0 → closeBlock x src e c = [.mk { c.label with stop := e } [] c.inlines]) := by
  obtain ⟨l, bs, is⟩ := c
  have hk' : LeafKind l.kind := hk
  have hbs : bs = [] := by
    have := (WF_mk.mp h).1.1
    rw [hk'.1] at this
    simpa using this
  subst hbs
  refine ⟨?_, ?_, fun hk2 => closeBlock_item_kind x src e _ hk2, ?_⟩
  · by_cases ho : l.stop < 0
    · rw [closeBlock_leaf x src e l is ho ⟨hk'.2.1, hk'.2.2.1, hk'.2.2.2, hk'.ne_list⟩]
      intro c' hc'
      simp only [List.mem_singleton] at hc'
      subst hc'
      exact WF_closed_label h rfl he (fun _ hc => by cases hc) (fun h' => h') (fun _ _ hc => by cases hc)
    · rw [BSp.closeBlock_closed x src e _ (by show 0 ≤ l.stop; omega)]
      intro c' hc'
      simp only [List.mem_singleton] at hc'
      subst hc'
      exact h
  · by_cases ho : l.stop < 0
    · rw [closeBlock_leaf x src e l is ho ⟨hk'.2.1, hk'.2.2.1, hk'.2.2.2, hk'.ne_list⟩]
      apply LeL.single
      apply Le.label
      exact fun j hc => markerCov_close ho e j hc
    · rw [BSp.closeBlock_closed x src e _ (by show 0 ≤ l.stop; omega)]
      exact LeL.refl _ _
  · intro ho
    exact closeBlock_leaf x src e l is ho ⟨hk'.2.1, hk'.2.2.1, hk'.2.2.2, hk'.ne_list⟩

theorem containerKind_eq (p : LP) : p.containerKind = p.container.kind := rfl

/-- `closeContainer` when the container is a leaf block. -/
theorem closeContainer_leaf_C {Q : ParaPred} (x : PExt) (p : LP) (e : Int) (h : CI Q S L Z p) (hd : p.depth ≠ 0) (he : 0 ≤ e)
    (hk : LeafKind p.containerKind) : CI Q S L Z (p.closeContainer x e) := by
  have cc := closeContainer_post x p e h.inv.tree
  have hs := BSp.closeContainer_src x p e
  have hroot : (p.closeContainer x e).root = spineReplaceLast (closeBlock x p.source e) p.root (p.depth - 1) := by
    rw [BSp.closeContainer_eq x p e hd]
  have hg := container_get p h.inv.tree
  have r := spineReplaceLast_ok (N := NP p.source) (Q' := Q) (fun _ _ h => h) (closeBlock x p.source e) (p.depth - 1) p.root h.wf (by
    intro c hc hcw
    have e1 : p.depth - 1 + 1 = p.depth := by omega
    rw [e1, hg] at hc
    cases hc
    have := closeLeaf_ok x p.source e he p.container hk hcw
    exact ⟨this.1, this.2.1, this.2.2.1⟩)
  exact h.edit (cc.inv h.inv) hs.1 hs.2.1 cc.cur (by rw [hroot]; exact r.1) (by rw [hroot]; exact r.2)
    (fun h2 => by rw [cc.state] at h2; exact h2)

theorem endBlock_leaf_C {Q : ParaPred} (x : PExt) (p : LP) (h : CI Q S L Z p) (hst : p.state ≤ 2) (hd : p.depth ≠ 0)
    (hk : LeafKind p.containerKind) : CI Q S L Z (p.endBlock x) := by
  rw [BSp.endBlock_eq x p hst]
  exact closeContainer_leaf_C x _ _ h.setMM hd (BSp.curPos_nonneg p) hk

/-! ### openBlock -/

theorem openBlockLoop_C {Q : ParaPred} (x : PExt) (kind : Nat) : ∀ (fuel : Nat) (p : LP), CI Q S L Z p →
    ParaClose Q Q x p.source p.lineStart → (kind ≠ BK.listItem ∨ canContain p.containerKind kind = true) →
    CI Q S L Z (LP.openBlockLoop x kind fuel p) ∧ (LP.openBlockLoop x kind fuel p).source = p.source ∧
    (LP.openBlockLoop x kind fuel p).lineStart = p.lineStart := by
  intro fuel
  induction fuel with
  | zero => intro p h _ _; exact ⟨h, rfl, rfl⟩
  | succ fuel ih =>
    intro p h hP hk
    unfold LP.openBlockLoop
    split
    · exact ⟨h, rfl, rfl⟩
    · rename_i hcc
      have hkind : kind ≠ BK.listItem := by
        rcases hk with hk | hk
        · exact hk
        · exact absurd hk hcc
      split
      · rename_i hd
        have hd0 : p.depth = 0 := by simpa using hd
        rw [containerKind_zero p hd0, h.inv.tree.root, doc_canContain kind hkind] at hcc
        exact absurd rfl hcc
      · rename_i hd
        have hd0 : p.depth ≠ 0 := by simpa using hd
        have c1 := closeContainer_C (Q' := Q) x p p.lineStart h hd0 (Int.natCast_nonneg _) (fun _ _ h => h) hP
        have hs := BSp.closeContainer_src x p p.lineStart
        have r := ih _ c1 (by rw [hs.1, hs.2.1]; exact hP) (Or.inl hkind)
        exact ⟨r.1, by rw [r.2.1, hs.1], by rw [r.2.2, hs.2.1]⟩

theorem appendChild_eq : (appendChild : PB → PB → PB) = BG.appendChild := rfl

/-- The state in which `openBlock` appends the new child. -/
theorem obPre_C {Q : ParaPred} (x : PExt) (p : LP) (kind : Nat) (h : CI Q S L Z p) (hP : ParaClose Q Q x p.source p.lineStart)
    (hk : kind ≠ BK.listItem ∨ canContain p.containerKind kind = true) :
    CI Q S L Z (BG.obPre x p kind) ∧ canContain (BG.obPre x p kind).containerKind kind = true ∧
    (BG.obPre x p kind).source = p.source ∧ (BG.obPre x p kind).lineStart = p.lineStart ∧ (BG.obPre x p kind).i = p.i := by
  unfold BG.obPre
  have h1 : CI Q S L Z ({ p with state := mm p.state } : LP) := h.setMM
  have ol := openBlockLoop_C x kind (p.depth + 1) _ h1 hP hk
  have olp := openBlockLoop_post x kind (p.depth + 1) { p with state := mm p.state } h1.inv.tree hk
  have oc := BG.openBlockLoop_cc x kind (p.depth + 1) { p with state := mm p.state } h1.inv.tree (Nat.lt_succ_self _) hk
  generalize LP.openBlockLoop x kind (p.depth + 1) { p with state := mm p.state } = p2 at ol olp oc
  obtain ⟨c2, s2, l2⟩ := ol
  have s2' : p2.source = p.source := s2
  have l2' : p2.lineStart = p.lineStart := l2
  have c3 := closeLastChild_C (Q' := Q) x p2 p2.lineStart c2 (Int.natCast_nonneg _) (fun _ _ h => h) (by rw [s2', l2']; exact hP)
  refine ⟨c3, ?_, s2', l2', ?_⟩
  · rw [closeLastChild_containerKind x p2 _ olp.ok]; exact oc
  · show p2.i = p.i
    exact cur_i olp.cur

/-- **`openBlock`** of a childless block. -/
theorem openBlock_C {Q Q' : ParaPred} (x : PExt) (p : LP) (kind : Nat) (attrs : PLabel → PLabel) (h : CI Q S L Z p)
    (hP : ParaClose Q Q x p.source p.lineStart) (hst : p.state ≤ 2)
    (hk : kind ≠ BK.listItem ∨ canContain p.containerKind kind = true) (hattr : ∀ l, (attrs l).kind = l.kind)
    (hq : ∀ l is, Q l is = true → Q' l is = true) (hnew : kind ≠ BK.paragraph ∨ ∀ l is, Q' l is = true)
    (hns : kind ≠ BK.setextHeading) :
    CI Q' S L Z (p.openBlock x kind attrs) ∧
    (p.openBlock x kind attrs).container = .mk (attrs { kind := kind, start := (p.lineStart : Int) + (p.i : Int) }) [] [] ∧
    (p.openBlock x kind attrs).depth ≠ 0 ∧ (p.openBlock x kind attrs).source = p.source ∧
    (p.openBlock x kind attrs).lineStart = p.lineStart := by
  have ob := openBlock_inv x p kind attrs hattr h.inv hst hk
  obtain ⟨cq, hcc, hs, hl, hi⟩ := obPre_C x p kind h hP hk
  rw [BG.openBlock_eq x p kind attrs hst]
  rw [BG.openBlock_eq x p kind attrs hst] at ob
  generalize BG.obPre x p kind = q at cq hcc hs hl hi ob
  have hg := container_get q cq.inv.tree
  generalize hchild : (PB.mk (attrs { kind := kind, start := (q.lineStart : Int) + (q.i : Int) }) [] [] : PB) = child at ob
  have hchild' : child = .mk (attrs { kind := kind, start := (p.lineStart : Int) + (p.i : Int) }) [] [] := by
    rw [← hchild, hl, hi]
  have hck : child.kind = kind := by rw [← hchild]; exact hattr _
  have hcw : WF Q' child := by
    rw [← hchild, WF_mk]
    refine ⟨⟨?_, ?_⟩, ⟨?_, ?_⟩, fun _ => ?_, ?_⟩
    · split <;> rfl
    · intro _ c hc; cases hc
    · intro c hc; cases hc
    · intro _ c hc; cases hc
    rotate_left
    · intro c hc; cases hc
    have e1 : (attrs { kind := kind, start := (q.lineStart : Int) + (q.i : Int) }).kind = kind := hattr _
    rw [e1]
    refine ⟨hns, fun hp => ?_⟩
    rcases hnew with hnew | hnew
    · exact absurd hp hnew
    · exact hnew _ _
  have key := spineModify_ok (N := NP p.source) hq (BG.appendChild child) q.depth q.root cq.wf (by
    intro c hc hcwf
    rw [hg] at hc; cases hc
    have hkq : canContain q.container.kind kind = true := hcc
    generalize q.container = c at hcwf hkq
    obtain ⟨l, bs, is⟩ := c
    have hkq' : canContain l.kind kind = true := hkq
    have hcon := BSp.canContain_container hkq'
    rw [WF_mk] at hcwf
    obtain ⟨a1, a2, a3, a4⟩ := hcwf
    have his : is = [] := by
      have := a1.1
      rw [if_pos hcon] at this; exact this
    refine ⟨?_, ?_, rfl⟩
    · show WF Q' (.mk l (bs ++ [child]) is)
      rw [WF_mk]
      refine ⟨⟨by rw [if_pos hcon]; exact his, ?_⟩, a2, fun _ => ?_, ?_⟩
      · intro hlk b hb
        rw [List.mem_append] at hb
        rcases hb with hb | hb
        · exact a1.2 hlk b hb
        · simp only [List.mem_singleton] at hb
          subst hb
          rw [hck]
          rw [hlk] at hkq'
          simpa [canContain, BK.list, BK.listItem] using hkq'
      · exact ⟨(isContainerKind_not_para hcon).2, fun hp => absurd hp (isContainerKind_not_para hcon).1⟩
      · intro b hb
        rw [List.mem_append] at hb
        rcases hb with hb | hb
        · exact WF.mono hq b (a4 b hb)
        · simp only [List.mem_singleton] at hb; subst hb; exact hcw
    · exact appendChild_le _ child _ (Or.inr his))
  have hvalid : (spineGet q.root q.depth).isSome := cq.inv.tree.valid
  have hnest : BG.Nest q ({ q with root := spineModify (BG.appendChild child) q.root q.depth, depth := q.depth + 1 } : LP) child 0 :=
    ⟨rfl, rfl, hvalid, rfl, rfl⟩
  refine ⟨?_, ?_, ?_, hs, hl⟩
  · refine ⟨ob.inv h.inv, ?_, ?_, ?_, key.1, ?_, cq.seq, cq.leq, cq.cons⟩
    · show q.line = q.source.drop q.lineStart
      exact cq.src
    · exact cq.ls
    · exact cq.eol
    · intro j hj hn
      have : j < q.lineStart + q.i := hj
      exact key.2.1 j ⟨by
        have := cq.line_length
        have := cq.inv.cur.hi
        rw [← hs]; omega, by rw [← hs]; exact hn⟩ (cq.cov j this hn)
  · unfold LP.container
    rw [hnest.container, spineGet_zero]
    exact hchild'
  · show q.depth + 1 ≠ 0
    omega

/-! ### setContainerIndent -/

theorem setContainerIndent_C {Q : ParaPred} (p : LP) (n : Int) (h : CI Q S L Z p) (h1 : 1 ≤ p.state) (h2 : p.state ≤ 2)
    (hk : p.containerKind = BK.listItem ∨ p.containerKind = BK.fencedCode) : CI Q S L Z (p.setContainerIndent n) := by
  have sc := setContainerIndent_post p n h.inv.tree h1 h2 hk
  rw [BSp.setContainerIndent_eq p n h1 h2 hk] at sc ⊢
  have hg := container_get p h.inv.tree
  have key := spineModify_ok (N := NP p.source) (Q' := Q) (fun _ _ h => h) (PB.setLabel fun l => { l with indent := n })
    p.depth p.root h.wf (by
    intro c hc hcw
    rw [hg] at hc; cases hc
    have hnp : p.container.kind ≠ BK.paragraph := by
      have : p.containerKind = p.container.kind := rfl
      rw [← this]
      rcases hk with hk | hk <;> rw [hk] <;> decide
    refine ⟨WF_setLabel_np (fun l => { l with indent := n }) (fun _ => rfl) (fun _ => rfl) _ hnp hcw,
      Le.of_eq (fun j => covPB_setLabel (fun l => { l with indent := n }) (fun _ => rfl) (fun _ => rfl) (fun _ => rfl) _ j), ?_⟩
    generalize p.container = c
    obtain ⟨l, bs, is⟩ := c; rfl)
  exact h.edit (sc.inv h.inv) rfl rfl sc.cur key.1 key.2.1 (fun h2 => by rw [sc.state] at h2; exact h2)

end CM.Proofs.Cov
