import CM.Proofs.ParseWholeGrammarExport
/-
C05, inline half — the export theorem and `parseInlines`.
-/
namespace CM.Proofs.InlH
open CM CM.Model CM.Model.Inl CM.Spec

/-- the tail of a link's children: `[dest][title]` or one label -/
theorem tail_rules {ts : List Tree} (hnb : ∀ t ∈ ts, t.label.isBlock = false)
    (hk : tailOK (ts.map (·.label.kind)) = true) :
    linkTail ts = true ∧ (hasKind IK.linkLabel ts = false ∨ (hasKind IK.linkDest ts = false ∧ hasKind IK.linkTitle ts = false)) := by
  unfold tailOK at hk
  simp only [Bool.or_eq_true, beq_iff_eq] at hk
  match ts, hnb, hk with
  | [], _, _ => exact ⟨rfl, Or.inl rfl⟩
  | [a], hnb, hk =>
    have ha := hnb a (List.mem_cons_self ..)
    simp only [List.map_cons, List.map_nil, List.cons.injEq, and_true, reduceCtorEq, and_false, or_false, false_or] at hk
    rcases hk with (h | h) | h <;> simp [linkTail, hasKind, T.isI, ha, h, IK.linkDest, IK.linkTitle, IK.linkLabel]
  | [a, b], hnb, hk =>
    have ha := hnb a (List.mem_cons_self ..)
    have hb := hnb b (List.mem_cons_of_mem _ (List.mem_cons_self ..))
    simp only [List.map_cons, List.map_nil, List.cons.injEq, and_true, reduceCtorEq, and_false, or_false, false_or] at hk
    simp [linkTail, hasKind, T.isI, ha, hb, hk.1, hk.2, IK.linkDest, IK.linkTitle, IK.linkLabel]
  | a :: b :: c :: r, _, hk =>
    simp at hk

theorem tailOK_ne_zero {ks : List Nat} (h : tailOK ks = true) : ∀ k ∈ ks, k ≠ 0 := by
  unfold tailOK at h
  simp only [Bool.or_eq_true, beq_iff_eq] at h
  rcases h with (((h | h) | h) | h) | h <;> (subst h; decide)

/-- what the export of the arena node `id` looks like -/
structure EX (a : Array INode) (t : Tree) (id : Nat) : Prop where
  nb : t.label.isBlock = false
  kd : t.label.kind = kindOf a id
  gr : kindOf a id ≠ 0 → grammarAt t = true
  ds : ∀ u ∈ T.nodesL t.children, grammarAt u = true
  top : kindOf a id = 0 → t.children.all isPhrasing = true

theorem phr_ne_zero {k : Nat} (h : phr k = true) : k ≠ 0 := by
  intro e; subst e; cases h

theorem EX.phrasing {a : Array INode} {t : Tree} {id : Nat} (h : EX a t id) (hp : phr (kindOf a id) = true) :
    isPhrasing t = true := by
  unfold isPhrasing T.isBlock T.kind
  rw [h.nb, h.kd]
  exact hp

theorem export_ok {a : Array INode} {h : Nat → Nat} (hA : AOK a) (hφ : ANodes φS a) (hd : Dec a h) :
    ∀ fuel id, id < a.size → h id < fuel → EX a (exportNode a fuel id) id := by
  intro fuel
  induction fuel with
  | zero => intro id _ hf; omega
  | succ fuel ih =>
    intro id hid hf
    have hget : a[id]? = some a[id] := Array.getElem?_eq_getElem hid
    have hko : kindOf a id = a[id].kind := by unfold kindOf; rw [getElem!_pos a id hid]
    rw [exportNode, hget]
    simp only []
    have hkid : ∀ k ∈ a[id].kids.toList, EX a (exportNode a fuel k) k := by
      intro k hk
      obtain ⟨h1, h2⟩ := hd id hid k (Array.mem_toList_iff.1 hk)
      exact ih k h1 (by omega)
    have hS : subOK a[id].kind a[id].sub = true := hφ id hid
    have hK := hA.kids id hid
    have hds : (∀ k ∈ a[id].kids.toList, kindOf a k ≠ 0) →
        ∀ u ∈ T.nodesL (a[id].kids.toList.map (exportNode a fuel) ++ a[id].sub), grammarAt u = true := by
      intro hne u hu
      rcases nodesL_append_iff.1 hu with hu | hu
      · obtain ⟨c, hc, huc⟩ := mem_nodesL hu
        obtain ⟨k, hk, rfl⟩ := List.mem_map.1 hc
        rw [nodes_eq, List.mem_cons] at huc
        rcases huc with rfl | huc
        · exact (hkid k hk).gr (hne k hk)
        · exact (hkid k hk).ds u huc
      · exact subOK_nodes hS u hu
    unfold KidsOK at hK
    split at hK
    · -- root / emphasis / strong
      rename_i hw
      have hsub : a[id].sub = [] := by
        have : a[id].sub.isEmpty = true := by
          rcases hw with h | h | h <;> (rw [h] at hS; exact hS)
        exact List.isEmpty_iff.1 this
      have hall : (a[id].kids.toList.map (exportNode a fuel) ++ a[id].sub).all isPhrasing = true := by
        rw [hsub, List.append_nil, List.all_eq_true]
        intro c hc
        obtain ⟨k, hk, rfl⟩ := List.mem_map.1 hc
        exact (hkid k hk).phrasing (hK k hk)
      have hne : ∀ k ∈ a[id].kids.toList, kindOf a k ≠ 0 := fun k hk => phr_ne_zero (hK k hk)
      refine { nb := rfl, kd := hko.symm, gr := ?_, ds := hds hne, top := fun _ => hall }
      intro h0; rw [hko] at h0
      rcases hw with h | h | h
      · exact absurd h h0
      · exact grammarAt_emph rfl (Or.inl h) hall
      · exact grammarAt_emph rfl (Or.inr h) hall
    · split at hK
      · -- link / image
        rename_i hnw hl
        obtain ⟨pre, tl, hks, hpre, htl, href⟩ := hK
        have hsub : a[id].sub = [] := by
          have : a[id].sub.isEmpty = true := by
            rcases hl with h | h <;> (rw [h] at hS; exact hS)
          exact List.isEmpty_iff.1 this
        have hmp : ∀ k ∈ pre, k ∈ a[id].kids.toList := fun k hk => by rw [hks]; exact List.mem_append_left _ hk
        have hmt : ∀ k ∈ tl, k ∈ a[id].kids.toList := fun k hk => by rw [hks]; exact List.mem_append_right _ hk
        have hp : ∀ t ∈ pre.map (exportNode a fuel), isPhrasing t = true := by
          intro c hc
          obtain ⟨k, hk, rfl⟩ := List.mem_map.1 hc
          exact (hkid k (hmp k hk)).phrasing (hpre k hk)
        have hnb : ∀ t ∈ tl.map (exportNode a fuel), t.label.isBlock = false := by
          intro c hc
          obtain ⟨k, hk, rfl⟩ := List.mem_map.1 hc
          exact (hkid k (hmt k hk)).nb
        have hkk : (tl.map (exportNode a fuel)).map (·.label.kind) = tl.map (kindOf a) := by
          rw [List.map_map]
          apply List.map_congr_left
          intro k hk
          exact (hkid k (hmt k hk)).kd
        obtain ⟨hlt, hdis⟩ := tail_rules hnb (by rw [hkk]; exact htl)
        have hne : ∀ k ∈ a[id].kids.toList, kindOf a k ≠ 0 := by
          intro k hk
          rw [hks] at hk
          rcases List.mem_append.1 hk with hk | hk
          · exact phr_ne_zero (hpre k hk)
          · exact tailOK_ne_zero htl _ (List.mem_map.2 ⟨k, hk, rfl⟩)
        refine { nb := rfl, kd := hko.symm, gr := ?_, ds := hds hne, top := ?_ }
        · intro _
          apply grammarAt_link rfl hl
          show (linkTail (a[id].kids.toList.map (exportNode a fuel) ++ a[id].sub) && _) = true
          rw [hsub, List.append_nil, hks, List.map_append, linkTail_append hp hlt, Bool.true_and,
            hasKind_append, hasKind_append, hasKind_append, hasKind_phr hp (k := IK.linkLabel) rfl,
            hasKind_phr hp (k := IK.linkDest) rfl, hasKind_phr hp (k := IK.linkTitle) rfl]
          simp only [Bool.false_or]
          by_cases hr : a[id].ref = []
          · rcases hdis with h1 | ⟨h1, h2⟩
            · show ((a[id].ref.isEmpty && _) || _) = true
              rw [hr, h1]; rfl
            · rw [h1, h2]; simp
          · rw [href hr]; simp [hasKind]
        · intro h0; rw [hko] at h0
          rcases hl with h | h <;> (rw [h] at h0; cases h0)
      · -- the other kinds have no arena children
        rename_i hnw hnl
        have hk0 : a[id].kids.toList = [] := by rw [hK]
        refine { nb := rfl, kd := hko.symm, gr := ?_, ds := ?_, top := ?_ }
        · intro _
          show grammarAt (.node _ (a[id].kids.toList.map _ ++ a[id].sub)) = true
          rw [hk0]
          exact subOK_grammarAt rfl hnw hnl hS
        · apply hds; rw [hk0]; intro k hk; cases hk
        · intro h0; rw [hko] at h0; exact absurd (Or.inl h0) hnw

/-! ### `parseInlines` -/

theorem Om.initial (root : INode) (hk : root.kind = 0) (hkids : root.kids = #[]) :
    Om { nodes := #[root], parentMap := #[none] } 0 0 := by
  have hget : ∀ i (h : i < (#[root] : Array INode).size), (#[root] : Array INode)[i] = root := by
    intro i h
    have : i = 0 := by simpa using h
    subst this; rfl
  refine ⟨⟨by simp, ?_, ?_, ?_, ?_⟩, ?_⟩
  · show ((#[root] : Array INode)[0]!).kind = 0
    exact hk
  · intro i h k hk'; rw [hget i h, hkids] at hk'; simp at hk'
  · intro i h; rw [hget i h, hkids]; exact List.nodup_nil
  · intro i h
    rw [hget i h]
    unfold KidsOK
    rw [if_pos (show isWrapKind root.kind from Or.inl hk), hkids]
    intro k hk'; simp at hk'
  · exact {
      pmsz := rfl
      stk := by intro x hx; simp [stN] at hx
      p0 := by simp
      p0k := Or.inl rfl
      bz := fun _ => rfl
      ble := Nat.zero_le _
      lower := by simp
      lowerP := by intro x hx; simp at hx
      upper := by simp [stN]
      upperP := by intro x hx; simp [stN] at hx
      disj := fun hne => absurd rfl hne }

theorem UOK.uphr {x : IExt} {src : Bytes} {srcA : Array UInt8} {matchRef : Bytes → Bool} {unparsed : List Tree}
    (hU : UOK unparsed) : UPhr (inlCtx x src srcA matchRef unparsed) := by
  intro t ht _ _ hk
  obtain ⟨_, hki, _⟩ := hU t (by simpa [inlCtx] using ht)
  rcases hki with h | h
  · exact absurd h hk
  · rw [h]; rfl

/-- **(i) + (ii) for one container**: every tree `parseInlines` returns is phrasing content, and every node below
    (at any depth) satisfies the inline branch of `Spec.grammarAt` — whenever the block-phase inline children are
    `Unparsed` runs and `Indent` leaves. -/
theorem parseInlines_grammar (x : IExt) (src : Bytes) (srcA : Array UInt8) (matchRef : Bytes → Bool)
    (cstart cstop : Int) (unparsed kids : List Tree) (hU : UOK unparsed)
    (h : parseInlines x src srcA matchRef cstart cstop unparsed = .ok kids) :
    kids.all isPhrasing = true ∧ ∀ u ∈ T.nodesL kids, grammarAt u = true := by
  unfold parseInlines at h
  simp only [] at h
  split at h
  · cases h
  · rename_i u s hrun
    have hk : kids = (exportNode s.nodes (s.nodes.size + 1) 0).children := by
      cases h; rfl
    have hG0 : G φS { nodes := #[{ kind := 0, start := cstart, stop := cstop }], parentMap := #[none] } :=
      ⟨ANodes.singleton (show subOK 0 [] = true from rfl), StackOK.empty, ⟨by simp, rfl⟩⟩
    have hS0 : S { nodes := #[{ kind := 0, start := cstart, stop := cstop }], parentMap := #[none] } :=
      ⟨Acyc.singleton _ rfl, by simp, PMOK.empty _⟩
    have hO0 : Om { nodes := #[{ kind := 0, start := cstart, stop := cstop }], parentMap := #[none] } 0 0 :=
      Om.initial _ rfl rfl
    have hG : G φS s :=
      triple_run (parseBody_spec (c := inlCtx x src srcA matchRef unparsed) (nodeInv_S x src srcA matchRef unparsed hU)) hG0 hrun
    have hS : S s := triple_run (parseBody_specS (c := inlCtx x src srcA matchRef unparsed)) hS0 hrun
    have hO : Om s 0 0 := triple_run (parseBody_specO (c := inlCtx x src srcA matchRef unparsed) hU.uphr) hO0 hrun
    obtain ⟨f, hd, hb⟩ := hS.acyc
    have hE := export_ok hO.1 hG.nodes hd (s.nodes.size + 1) 0 hS.pos (by have := hb 0 hS.pos; omega)
    rw [hk]
    exact ⟨hE.top hO.1.root, hE.ds⟩

/-! ### Non-vacuity -/

section Examples

def giIX : IExt :=
  { ext := { unescape := fun s => s }, fold := fun s => s, u := { isZs := fun _ => false, isP := fun _ => false } }

def giSrc : Bytes := Bytes.ofString "*a* `b` **c**"
def giUn : List Tree := [mkInline IK.unparsed 0 13]

theorem giUOK : UOK giUn := by
  intro t ht
  simp only [giUn, List.mem_singleton] at ht
  subst ht
  exact ⟨rfl, Or.inl rfl, rfl⟩

-- the run is parsed into Emphasis, Text, CodeSpan, Text, Strong
example : (match parseInlines giIX giSrc giSrc.toArray (fun _ => false) 0 13 giUn with
    | .ok kids => kids.map (fun t => t.label.kind)
    | .error _ => []) = [IK.emphasis, IK.text, IK.codeSpan, IK.text, IK.strong] := by decide +kernel

example : ∀ kids, parseInlines giIX giSrc giSrc.toArray (fun _ => false) 0 13 giUn = .ok kids →
    kids.all isPhrasing = true ∧ ∀ u ∈ T.nodesL kids, grammarAt u = true :=
  fun kids h => parseInlines_grammar giIX giSrc giSrc.toArray (fun _ => false) 0 13 giUn kids giUOK h

end Examples

end CM.Proofs.InlH
