import CM.Proofs.InlSpanEmph2
/-
C02, inline half — removing a delimiter node that has become empty (`removeNode` + `delStack`), and the arena of
`emph_core` read off the term symbolic execution produces.
-/
namespace CM.Proofs.InlH
open CM CM.Model CM.Model.Inl

section
variable {lo hi : Int} {x : Option Nat} {b p : Nat} {F : Int} {Z : List Nat} {a a' : Array INode} {sk : List Nat}
  {pm pm' : Nat → Option Nat}

/-- `removeNode k` (a stack node at index `≥ b`, child of `p`) followed by the deletion of its stack entry. -/
theorem SPA.removeLeaf (h : SPA lo hi x b p F Z a sk pm) (X Y : List Nat) (k : Nat)
    (hsk : sk.drop b = X ++ k :: Y)
    (ha' : a' = a.modify p (fun n => { n with kids := n.kids.filter (· != k) }))
    (hpm : ∀ i, pm' i = if i = k then none else pm i) :
    SPA lo hi x b p F Z a' (sk.take (b + X.length) ++ sk.drop (b + X.length + 1)) pm' := by
  subst ha'
  -- the stack
  have hb : b < sk.length := by
    rcases Nat.lt_or_ge b sk.length with h' | h'
    · exact h'
    · rw [List.drop_of_length_le h'] at hsk; simp at hsk
  have hT : (sk.take b).length = b := by rw [List.length_take]; omega
  have e : sk = (sk.take b ++ X) ++ k :: Y := by
    conv => lhs; rw [← List.take_append_drop b sk, hsk]
    simp
  have hlen : (sk.take b ++ X).length = b + X.length := by simp [hT]
  have t1S : sk.take (b + X.length) = sk.take b ++ X := by
    conv => lhs; rw [e]
    rw [← hlen]; exact List.take_left' rfl
  have t2 : sk.drop (b + X.length + 1) = Y := by
    conv => lhs; rw [e]
    rw [← hlen, ← List.drop_drop, List.drop_left' rfl]
    rfl
  rw [t1S, t2, List.append_assoc]
  have hsubD : (X ++ Y).Sublist (sk.drop b) := by
    rw [hsk]; exact List.Sublist.append_left (List.sublist_cons_self k Y) X
  have hsub : (sk.take b ++ (X ++ Y)).Sublist sk := by
    have := List.Sublist.append_left hsubD (sk.take b)
    rw [List.take_append_drop] at this
    exact this
  have hkd : k ∈ sk.drop b := by rw [hsk]; exact List.mem_append_right _ (List.mem_cons_self ..)
  have pk := h.plain k (List.mem_of_mem_drop hkd)
  have hkK : k ∈ kidsLS a p := h.high.1.subset hkd
  have hkp : k ≠ p := by
    rintro rfl
    have : kidsLS a k = [] := by unfold kidsLS; rw [pk.kids]
    rw [this] at hkK; cases hkK
  -- reading the new arena
  have rd : ∀ i : Nat, i ≠ p → (a.modify p (fun n => { n with kids := n.kids.filter (· != k) }))[i]! = a[i]! :=
    fun i hi => get!_modify_neS hi
  have rdp : (a.modify p (fun n => { n with kids := n.kids.filter (· != k) }))[p]! =
      { a[p]! with kids := (a[p]!).kids.filter (· != k) } := get!_modify_eqS h.plt
  have spans : ∀ i : Nat, ((a.modify p (fun n => { n with kids := n.kids.filter (· != k) }))[i]!).start = (a[i]!).start ∧
      ((a.modify p (fun n => { n with kids := n.kids.filter (· != k) }))[i]!).stop = (a[i]!).stop := by
    intro i
    by_cases hi : i = p
    · subst hi; rw [rdp]; exact ⟨rfl, rfl⟩
    · rw [rd i hi]; exact ⟨rfl, rfl⟩
  have chn : ∀ {ks : List Nat} {L H : Int}, ChainA a L H ks →
      ChainA (a.modify p (fun n => { n with kids := n.kids.filter (· != k) })) L H ks :=
    fun hc => hc.congr (fun i _ => spans i)
  have kidsSame : ∀ i : Nat, i ≠ p → kidsLS (a.modify p (fun n => { n with kids := n.kids.filter (· != k) })) i = kidsLS a i := by
    intro i hi; unfold kidsLS; rw [rd i hi]
  have kidsP : kidsLS (a.modify p (fun n => { n with kids := n.kids.filter (· != k) })) p = (kidsLS a p).filter (· != k) := by
    unfold kidsLS; rw [rdp]; simp
  have hfs : ((kidsLS a p).filter (· != k)).Sublist (kidsLS a p) := List.filter_sublist
  have kidsSub : ∀ i : Nat, (kidsLS (a.modify p (fun n => { n with kids := n.kids.filter (· != k) })) i).Sublist (kidsLS a i) := by
    intro i
    by_cases hi : i = p
    · subst hi; rw [kidsP]; exact hfs
    · rw [kidsSame i hi]; exact List.Sublist.refl _
  have hsize : (a.modify p (fun n => { n with kids := n.kids.filter (· != k) })).size = a.size := by simp
  refine { pos := by rw [hsize]; exact h.pos, root := ?_, front := ?_, Fhi := h.Fhi, nodes := ?_, klt := ?_, nodup := ?_,
           uniqp := ?_, plain := ?_, sorted := ?_, low := ?_, high := ?_, plt := by rw [hsize]; exact h.plt, pb := h.pb }
  · by_cases hp0 : p = 0
    · subst hp0; rw [rdp]; exact h.root
    · rw [rd 0 (fun h' => hp0 h'.symm)]; exact h.root
  · refine chn (h.front.sublist ?_)
    unfold vis
    exact (kidsSub 0).filter _
  · intro i hi0 hi
    rw [hsize] at hi
    have ni := h.nodes i hi0 hi
    by_cases hip : i = p
    · subst hip
      refine ⟨by rw [rdp]; exact ni.valid, by rw [rdp]; exact ni.lo, by rw [rdp]; exact ni.hi, ?_, ?_, ?_⟩
      · rw [kidsP, rdp]; exact chn (ni.chain.sublist hfs)
      · intro _
        have hne : (a[i]!).kids ≠ #[] := by
          intro he
          have : kidsLS a i = [] := by unfold kidsLS; rw [he]
          rw [this] at hkK; cases hkK
        rw [rdp]; simp only []
        rw [ni.nosub hne, WFL_nil]; exact ni.valid
      · intro _
        have hne : (a[i]!).kids ≠ #[] := by
          intro he
          have : kidsLS a i = [] := by unfold kidsLS; rw [he]
          rw [this] at hkK; cases hkK
        rw [rdp]; exact ni.nosub hne
    · have e := rd i hip
      refine ⟨by rw [e]; exact ni.valid, by rw [e]; exact ni.lo, by rw [e]; exact ni.hi, ?_, by rw [e]; exact ni.sub,
        by rw [e]; exact ni.nosub⟩
      rw [kidsSame i hip, e]; exact chn ni.chain
  · intro i hi j hj
    rw [hsize] at hi ⊢
    exact h.klt i hi j ((kidsSub i).subset hj)
  · intro i hi
    rw [hsize] at hi
    exact (h.nodup i hi).sublist (kidsSub i)
  · intro i j t hi hj hti htj
    rw [hsize] at hi hj
    exact h.uniqp i j t hi hj ((kidsSub i).subset hti) ((kidsSub j).subset htj)
  · intro t ht
    have pt := h.plain t (hsub.subset ht)
    have htp : t ≠ p := by
      rintro rfl
      have : kidsLS a t = [] := by unfold kidsLS; rw [pt.kids]
      rw [this] at hkK; cases hkK
    have e := rd t htp
    exact ⟨by rw [hsize]; exact pt.lt, pt.ne0, by rw [e]; exact pt.kids, by rw [e]; exact pt.sub,
      fun hz => by rw [e]; exact pt.len hz⟩
  · exact (h.sorted.sublist hsub).imp (fun {i j} hij => by rw [(spans i).2, (spans j).1]; exact hij)
  · have ht : (sk.take b ++ (X ++ Y)).take b = sk.take b := List.take_left' hT
    rw [ht]
    by_cases hp0 : p = 0
    · obtain ⟨hb0, _⟩ := h.pb hp0
      subst hb0
      exact ⟨by simp, fun t ht => by simp at ht⟩
    · refine ⟨by rw [kidsSame 0 (fun h' => hp0 h'.symm)]; exact h.low.1, fun t ht => ?_⟩
      rw [hpm t, if_neg]
      · exact h.low.2 t ht
      · rintro rfl
        have h0 := h.low.2 t ht
        have hp := h.high.2 t hkd
        rw [h0] at hp
        exact hp0 (Option.some.inj hp).symm
  · have hd : (sk.take b ++ (X ++ Y)).drop b = X ++ Y := List.drop_left' hT
    rw [hd, kidsP]
    have hnd : (sk.drop b).Nodup := (h.nodup p h.plt).sublist h.high.1
    rw [hsk] at hnd
    have hkX : k ∉ X := by
      intro hm
      exact (List.nodup_append.1 hnd).2.2 k hm k (List.mem_cons_self ..) rfl
    have hkY : k ∉ Y := (List.nodup_cons.1 (List.nodup_append.1 hnd).2.1).1
    constructor
    · have h1 : ((X ++ Y).filter (· != k)).Sublist ((kidsLS a p).filter (· != k)) := (hsubD.trans h.high.1).filter _
      have h2 : (X ++ Y).filter (· != k) = X ++ Y := by
        rw [List.filter_eq_self]
        intro t ht
        rcases List.mem_append.1 ht with ht | ht
        · have : t ≠ k := by rintro rfl; exact hkX ht
          simpa using this
        · have : t ≠ k := by rintro rfl; exact hkY ht
          simpa using this
      rw [h2] at h1; exact h1
    · intro t ht
      rw [hpm t, if_neg]
      · exact h.high.2 t (hsubD.subset ht)
      · rintro rfl
        rcases List.mem_append.1 ht with ht | ht
        · exact hkX ht
        · exact hkY ht

end

/-- The arena after the two shortenings and `wrap`, as `emph_core` wants it. -/
theorem emphArena_of (a : Array INode) (s2 : IState) (o c p : Nat) (w : Int) (kind : Nat) (A M B : List Nat)
    (hs2 : s2.nodes = (a.modify o (fun n => { n with stop := n.stop - w })).modify c
      (fun n => { n with start := n.start + w }))
    (ho : o < a.size) (hc : c < a.size) (hp : p < a.size) (hoc : o ≠ c) (hpo : p ≠ o) (hpc : p ≠ c) :
    EmphArena a (wrapNodes s2 kind o (some c) p A M (c :: B)) o c p w kind A M B := by
  have hsz : s2.nodes.size = a.size := by rw [hs2]; simp
  have r2 : ∀ i : Nat, i ≠ o → i ≠ c → s2.nodes[i]! = a[i]! := by
    intro i h1 h2; rw [hs2, get!_modify_neS h2, get!_modify_neS h1]
  have r2o : s2.nodes[o]! = { a[o]! with stop := (a[o]!).stop - w } := by
    rw [hs2, get!_modify_neS hoc, get!_modify_eqS ho]
  have r2c : s2.nodes[c]! = { a[c]! with start := (a[c]!).start + w } := by
    rw [hs2, get!_modify_eqS (by simpa using hc), get!_modify_neS (fun h => hoc h.symm)]
  have rdOld : ∀ i : Nat, i < a.size → i ≠ p → (wrapNodes s2 kind o (some c) p A M (c :: B))[i]! = s2.nodes[i]! := by
    intro i hi hip
    unfold wrapNodes
    rw [get!_modify_neS hip, get!_modify_neS (by omega), get!_push_lt (by omega)]
  refine ⟨by unfold wrapNodes; simp [hsz], ?_, ?_, ?_, ?_, ?_⟩
  · unfold wrapNodes
    rw [get!_modify_neS (by omega), ← hsz, get!_modify_eqS (by simp), get!_push_eq]
    unfold wrapNode
    simp only [r2o, r2c, hsz]
  · unfold wrapNodes
    rw [get!_modify_eqS (by simp; omega), get!_modify_neS (by omega), get!_push_lt (by omega), r2 p hpo hpc, hsz]
  · rw [rdOld o ho (fun h => hpo h.symm), r2o]
  · rw [rdOld c hc (fun h => hpc h.symm), r2c]
  · intro i hi hip hio hic
    rw [rdOld i hi hip, r2 i hio hic]

end CM.Proofs.InlH
