import CM.Model.Inlines
/-
C02, inline half — `parseRun` cut into named pieces (`parseRun_eq : parseRun c = parseRun' c` holds by `rfl`): the body of
the tokenizer loop `runBody`, and the chain of cases on the current byte in three parts `tokA`, `tokB`, `tokC`.
-/
namespace CM.Proofs.InlH
open CM CM.Model CM.Model.Inl CM.Gen

/-- the loop state of the tokenizer: `(pos, plainStart, done)` -/
abbrev TokSt := Int × Int × Bool

/-- `\`, `&`, line endings, any other byte -/
def tokC (c : ICtx) (s : IState) (b : UInt8) (pos plainStart : Int) (done : Bool) : IM (ForInStep TokSt) := do
  if b == 0x5C then
    addText plainStart pos
    let pos ← parseBackslash c pos
    pure (ForInStep.yield (pos, pos, done))
  else if b == 0x26 then
    let e := parseCharacterEscape c.x.ext (← srcSlice c pos (spanEndOf c s))
    if e < 0 then
      pure (ForInStep.yield (pos + 1, plainStart, done))
    else
      addText plainStart pos
      addLeaf IK.charRef pos (pos + e)
      pure (ForInStep.yield (pos + e, pos + e, done))
  else if b == LF then
    addText plainStart pos
    if !(← isLastSpan c) then addLeaf IK.softBreak pos (pos + 1)
    pure (ForInStep.yield (pos + 1, pos + 1, done))
  else if b == CR then
    addText plainStart pos
    if (← guardAt (pos + 1 < spanEndOf c s) c (pos + 1) LF) then
      if !(← isLastSpan c) then addLeaf IK.softBreak pos (pos + 2)
      pure (ForInStep.yield (pos + 2, pos + 2, done))
    else
      if !(← isLastSpan c) then addLeaf IK.softBreak pos (pos + 1)
      pure (ForInStep.yield (pos + 1, pos + 1, done))
  else
    pure (ForInStep.yield (pos + 1, plainStart, done))

/-- a space: maybe a hard line break -/
def tokSp (c : ICtx) (s : IState) (pos plainStart : Int) (done : Bool) : IM (ForInStep TokSt) := do
  let (e, ok) := parseHardLineBreakSpace (← srcSlice c pos (spanEndOf c s))
  if ok && !(← isLastSpan c) then
    addText plainStart pos
    addLeaf IK.hardBreak pos (pos + e)
    setIgnoreNextIndent true
    pure (ForInStep.yield (pos + e, pos + e, done))
  else
    pure (ForInStep.yield (pos + e, plainStart, done))

/-- a backtick: maybe a code span -/
def tokCode (c : ICtx) (pos plainStart : Int) (done : Bool) : IM (ForInStep TokSt) := do
  let cs ← parseCodeSpan c pos
  if cs.span.isValid then
    addText plainStart cs.span.start
    collectCodeSpan c cs
    pure (ForInStep.yield (cs.span.stop, cs.span.stop, done))
  else
    pure (ForInStep.yield (cs.content.start, plainStart, done))

/-- `<`: maybe an autolink or an HTML tag -/
def tokLt (c : ICtx) (s : IState) (pos plainStart : Int) (done : Bool) : IM (ForInStep TokSt) := do
  let e := parseAutolink (← srcSlice c pos (spanEndOf c s))
  if e ≥ 0 then
    let e := e + pos
    addText plainStart pos
    let id ← alloc { kind := IK.autolink, start := pos, stop := e, sub := [mkInline IK.text (pos + 1) (e - 1)] }
    addToRoot id
    pure (ForInStep.yield (e, e, done))
  else
    let spans ← unparsedFrom c
    let (span, _) := parseHTMLTag c.src c.fl (newReader spans pos.toNat)
    if !span.isValid then
      pure (ForInStep.yield (pos + 1, plainStart, done))
    else
      addText plainStart span.start
      let kids := collectTextNodes c.x.ext c.src span.stop.toNat IK.rawHTML false c.fl
        (newReader spans span.start.toNat) span.start.toNat []
      let id ← alloc { kind := IK.htmlTag, start := span.start, stop := span.stop, sub := kids }
      addToRoot id
      match nodeIndexForPosition spans span.stop.toNat 0 with
      | some i =>
        setUnparsedPos (s.unparsedPos + i)
        pure (ForInStep.yield (span.stop, span.stop, done))
      | none =>
        setUnparsedPos c.unparsed.size
        pure (ForInStep.yield (span.stop, span.stop, done))

/-- space, backtick, `<` -/
def tokB (c : ICtx) (s : IState) (b : UInt8) (pos plainStart : Int) (done : Bool) : IM (ForInStep TokSt) :=
  if b == SP then tokSp c s pos plainStart done
  else if b == 0x60 then tokCode c pos plainStart done
  else if b == 0x3C then tokLt c s pos plainStart done
  else tokC c s b pos plainStart done

/-- `*`/`_`, `[`, `]`, `!` -/
def tokA (c : ICtx) (s : IState) (b : UInt8) (pos plainStart : Int) (done : Bool) : IM (ForInStep TokSt) := do
  if b == 0x2A || b == 0x5F then
    addText plainStart pos
    let pos ← parseDelimiterRun c pos
    pure (ForInStep.yield (pos, pos, done))
  else if b == 0x5B then
    addText plainStart pos
    let id ← alloc { kind := IK.text, start := pos, stop := pos + 1 }
    addToRoot id
    pushStack { elem := { typ := 3, flags := 1, n := 0 }, node := id }
    pure (ForInStep.yield (pos + 1, pos + 1, done))
  else if b == 0x5D then
    addText plainStart pos
    let pos ← parseEndBracket c pos
    pure (ForInStep.yield (pos, pos, done))
  else if b == 0x21 then
    if !(← guardAt (pos + 1 < spanEndOf c s) c (pos + 1) 0x5B) then
      pure (ForInStep.yield (pos + 1, plainStart, done))
    else
      addText plainStart pos
      let id ← alloc { kind := IK.text, start := pos, stop := pos + 2 }
      addToRoot id
      pushStack { elem := { typ := 4, flags := 1, n := 0 }, node := id }
      pure (ForInStep.yield (pos + 2, pos + 2, done))
  else tokB c s b pos plainStart done

/-- the body of the tokenizer loop -/
def runBody (c : ICtx) (_x : Nat) (st : TokSt) : IM (ForInStep TokSt) := do
  let s ← get
  if !(s.unparsedPos < c.unparsed.size && st.1 < spanEndOf c s) then
    pure (ForInStep.done (st.1, st.2.1, true))
  else
    let b ← srcAt c st.1
    tokA c s b st.1 st.2.1 st.2.2

/-- `parseRun` from the tokenizer loop on -/
def runMain (c : ICtx) (pos : Int) : IM Unit := do
  setIgnoreNextIndent false
  let r ← forIn [0:c.srcA.size + 2] ((pos, pos, false) : TokSt) (runBody c)
  if !r.2.2 then outOfFuel "parse: tokenizer loop"
  addText r.2.1 (← spanEnd c)

/-- `parseRun` with named parts -/
def parseRun' (c : ICtx) : IM Unit := do
  let node ← unparsedAt c
  let mut pos : Int := node.label.start
  if (← get).ignoreNextIndent then
    for _ in [0:c.srcA.size + 1] do
      if !(pos < (← spanEnd c)) then break
      let b ← srcAt c pos
      if !(b == SP || b == TAB) then break
      pos := pos + 1
  runMain c pos

theorem parseRun_eq (c : ICtx) : parseRun c = parseRun' c := rfl

end CM.Proofs.InlH
