import CM.Proofs.EolG6
/-
C14 (a), block phase with link reference definitions — part 7: `tryStarts`, `openingLoop`, the match functions and
`descendOpenBlocks` under the invariant `LG`.
-/
namespace CM.Proofs.EolG
open CM CM.Model CM.Gen CM.Proofs CM.Proofs.RDS CM.Proofs.BSp CM.Proofs.ERd CM.Proofs.BG CM.Proofs.BT

section
variable {x : PExt} {e X body nl : Bytes} {k : Nat} {bd : Int}

/-- The start of the line is determined by the static facts. -/
theorem LG.lineStart_eq {p : LP} (h : LG e X body nl k bd p) : p.lineStart = (X.take k).length - (body ++ nl).length := by
  have h1 := h.ok.line
  rw [h.ok.shape, h.src] at h1
  have h2 := congrArg List.length h1
  simp only [List.length_drop] at h2
  have h3 := h.ok.ls
  rw [h.src] at h3
  omega

/-- A block start that commutes with the position map on the states of the block phase and keeps the invariant. -/
def StartSimG (e X body nl : Bytes) (k : Nat) (bd : Int) (f : LP → LP) : Prop :=
  ∀ q : LP, BT.Inv q → q.state = 0 → LG e X body nl k bd q → f (mapLP e X q) = mapLP e X (f q) ∧ LG e X body nl k bd (f q)

theorem blockStartFnsG (he : StdEol e) (hbd : bd ≤ (((X.take k).length - (body ++ nl).length : Nat) : Int)) :
    ∀ f ∈ blockStartFns x, StartSimG e X body nl k bd f := by
  intro f hf q h hs hg
  simp only [blockStartFns, List.mem_cons, List.mem_nil_iff, or_false] at hf
  rcases hf with rfl | rfl | rfl | rfl | rfl | rfl | rfl | rfl
  · exact startBlockQuoteG he h hs hg
  · exact startATXG he h hs hg
  · exact startFencedG he h hs hg
  · exact startHTMLG he h hs hg
  · exact startSetextG he h hs hg (by rw [hg.lineStart_eq]; exact hbd)
  · exact startThematicBreakG he h hs hg
  · exact startListItemG he h hg
  · exact startIndentedCodeG he hg

theorem tryStartsG : ∀ (fs : List (LP → LP)), (∀ f ∈ fs, StartSimG e X body nl k bd f) →
    (∀ f ∈ fs, ∀ q, BT.Inv q → q.state = 0 → SPost q (f q)) →
    ∀ p : LP, BT.Inv p → LG e X body nl k bd p →
      tryStarts fs (mapLP e X p) = mapLP e X (tryStarts fs p) ∧ LG e X body nl k bd (tryStarts fs p) := by
  intro fs
  induction fs with
  | nil => intro _ _ p _ hg; exact ⟨rfl, hg⟩
  | cons f rest ih =>
    intro hsim hpost p h hg
    unfold tryStarts
    simp only []
    have h0 : BT.Inv { p with state := stateOpening } := h.setState _
    have hg0 : LG e X body nl k bd { p with state := stateOpening } := hg.setState _
    obtain ⟨a1, a2⟩ := hsim f (List.mem_cons_self ..) { p with state := stateOpening } h0 rfl hg0
    have sp := hpost f (List.mem_cons_self ..) { p with state := stateOpening } h0 rfl
    have hm : ({ mapLP e X p with state := stateOpening } : LP) = mapLP e X { p with state := stateOpening } := rfl
    rw [hm, a1]
    generalize f { p with state := stateOpening } = p' at a2 sp ⊢
    by_cases c : (p'.state == stateOpenMatched || p'.state == stateLineConsumed) = true
    · have c' : ((mapLP e X p').state == stateOpenMatched || (mapLP e X p').state == stateLineConsumed) = true := c
      rw [if_pos c', if_pos c]; exact ⟨rfl, a2⟩
    · have c' : ¬ ((mapLP e X p').state == stateOpenMatched || (mapLP e X p').state == stateLineConsumed) = true := c
      rw [if_neg c', if_neg c]
      exact ih (fun g hg => hsim g (List.mem_cons_of_mem _ hg)) (fun g hg => hpost g (List.mem_cons_of_mem _ hg)) p' sp.inv a2

theorem openingLoopG (he : StdEol e) (hbd : bd ≤ (((X.take k).length - (body ++ nl).length : Nat) : Int)) :
    ∀ (fuel : Nat) (p : LP), BT.Inv p → LG e X body nl k bd p →
    openingLoop x fuel (mapLP e X p) = ((openingLoop x fuel p).1, mapLP e X (openingLoop x fuel p).2) ∧
      LG e X body nl k bd (openingLoop x fuel p).2 := by
  intro fuel
  induction fuel with
  | zero => intro p _ hg; exact ⟨rfl, hg⟩
  | succ fuel ih =>
    intro p h hg
    unfold openingLoop
    by_cases c : (!(p.containerKind == BK.paragraph || !acceptsLines p.containerKind)) = true
    · have c' : (!((mapLP e X p).containerKind == BK.paragraph || !acceptsLines (mapLP e X p).containerKind)) = true := by
        rw [mapLP_containerKind]; exact c
      rw [if_pos c', if_pos c]; exact ⟨rfl, hg⟩
    · have c' : ¬ (!((mapLP e X p).containerKind == BK.paragraph || !acceptsLines (mapLP e X p).containerKind)) = true := by
        rw [mapLP_containerKind]; exact c
      rw [if_neg c', if_neg c]
      simp only []
      obtain ⟨a1, a2⟩ := tryStartsG _ (blockStartFnsG (x := x) he hbd) (blockStartFns_post x) p h hg
      have ts := tryStarts_blockStarts x p h
      rw [a1]
      generalize tryStarts (blockStartFns x) p = p' at a2 ts ⊢
      by_cases c1 : (p'.state == stateOpenMatched) = true
      · have c1' : ((mapLP e X p').state == stateOpenMatched) = true := c1
        rw [if_pos c1', if_pos c1]
        exact ih p' ts.inv a2
      · have c1' : ¬ ((mapLP e X p').state == stateOpenMatched) = true := c1
        rw [if_neg c1', if_neg c1]
        by_cases c2 : (p'.state == stateLineConsumed) = true
        · have c2' : ((mapLP e X p').state == stateLineConsumed) = true := c2
          rw [if_pos c2', if_pos c2]; exact ⟨rfl, a2⟩
        · have c2' : ¬ ((mapLP e X p').state == stateLineConsumed) = true := c2
          rw [if_neg c2', if_neg c2]; exact ⟨rfl, a2⟩

end

end CM.Proofs.EolG
