import CM.Proofs.BlankSuffixBase
/-
Trailing blank lines: the loops of `NextBlock` on `extBP t q` vs. `q`.
-/
namespace CM.Proofs
open CM CM.Model CM.Gen

/-! ### The blank-line loop -/

/-- On a buffer of blank bytes the blank-line loop runs to the end of the input. -/
theorem skipBlank_all_blank : ∀ (F : Nat) (q : BP), isBlankLine q.buf = true → q.i = 0 → q.err.isSome = true →
    q.buf.length + 1 ≤ F → ∃ q', skipBlank F q = (none, q') ∧ q'.panic = q.panic ∧ q'.err = q.err := by
  intro F
  induction F with
  | zero => intro q _ _ _ h; omega
  | succ F ih =>
    intro q hb hi herr hF
    obtain ⟨buf, offset, lineno, i, err, rd, blocks, panic⟩ := q
    simp only at hb hi herr hF
    subst hi
    have hrl := Model.readline_mem (rd.data.length + rd.sched.length + 1)
      { buf := buf, offset := offset, lineno := lineno, i := 0, err := err, rd := rd, blocks := blocks,
        panic := panic } herr (Nat.zero_le _)
    simp only [skipBlank]
    rw [hrl]
    simp only [List.drop_zero, Nat.zero_add]
    by_cases hne : buf = []
    · subst hne
      simp only [lineLen_nil, Nat.lt_irrefl, decide_false, Bool.not_false, if_true]
      exact ⟨_, rfl, rfl, rfl⟩
    · have hpos := lineLen_pos hne
      have hle := lineLen_le buf
      have hb1 : isBlankLine (buf.take (lineLen buf)) = true := isBlankLine_take hb _
      simp only [hpos, decide_true, Bool.not_true, Bool.false_eq_true, if_false, hb1]
      obtain ⟨q', h1, h2, h3⟩ := ih
        { buf := buf.drop (lineLen buf), offset := offset + unpaddedNullLength (buf.take (lineLen buf)),
          lineno := lineno + 1, i := 0, err := err, rd := rd, blocks := blocks, panic := panic }
        (isBlankLine_drop hb _) rfl herr (by simp only [List.length_drop]; omega)
      exact ⟨q', h1, h2, h3⟩

/-- At the end of the input the blank-line loop stops at once. -/
theorem skipBlank_nil (F : Nat) (q : BP) (hb : q.buf = []) (hi : q.i = 0) (herr : q.err.isSome = true) :
    skipBlank (F + 1) q = (none, q) := by
  obtain ⟨buf, offset, lineno, i, err, rd, blocks, panic⟩ := q
  simp only at hb hi herr
  subst hb; subst hi
  have hrl := Model.readline_mem (rd.data.length + rd.sched.length + 1)
    { buf := [], offset := offset, lineno := lineno, i := 0, err := err, rd := rd, blocks := blocks,
      panic := panic } herr (Nat.zero_le _)
  simp only [skipBlank]
  rw [hrl]
  simp

/-- The blank-line loop on `extBP t q` and on `q`: both find the same first non-blank line, or `q` reaches the end
    of its input (in a state `q'` with an empty buffer) while the other run goes on from `extBP t q'`. -/
theorem skipBlank_lockG {t : Bytes} : ∀ (fB fA : Nat) (q : BP), LockInv t q → q.i = 0 →
    q.buf.length + 1 ≤ fB → q.buf.length + t.length + 1 ≤ fA →
    (∃ qB, skipBlank fB q = (some qB, qB) ∧ skipBlank fA (extBP t q) = (some (extBP t qB), extBP t qB) ∧ LockInv t qB) ∨
    (∃ q' fA', LockInv t q' ∧ q'.buf = [] ∧ q'.i = 0 ∧ q'.panic = q.panic ∧ q'.err = q.err ∧
      skipBlank fB q = (none, q') ∧ skipBlank fA (extBP t q) = skipBlank fA' (extBP t q') ∧ t.length + 1 ≤ fA') := by
  intro fB
  induction fB with
  | zero => intro fA q _ _ h; omega
  | succ fB ih =>
    intro fA q hinv hi hB hA
    obtain ⟨fA, rfl⟩ : ∃ g, fA = g + 1 := ⟨fA - 1, by omega⟩
    by_cases hlt : q.i < q.buf.length
    · -- a line of `q.buf`
      obtain ⟨r1, r2, hinv1⟩ := rl_lock hinv hlt
      have hle : q.i + lineLen (q.buf.drop q.i) ≤ q.buf.length := hinv1.ile
      have hpos : 0 < lineLen (q.buf.drop q.i) := lineLen_pos (by
        intro e; have := congrArg List.length e; simp at this; omega)
      have htake : List.take (q.i + lineLen (q.buf.drop q.i)) (q.buf ++ t) =
          List.take (q.i + lineLen (q.buf.drop q.i)) q.buf := List.take_append_of_le_length hle
      have hdrop : List.drop (q.i + lineLen (q.buf.drop q.i)) (q.buf ++ t) =
          List.drop (q.i + lineLen (q.buf.drop q.i)) q.buf ++ t := List.drop_append_of_le_length hle
      simp only [skipBlank, r1, r2]
      simp only [Bool.not_true, Bool.false_eq_true, if_false, extBP, htake, hdrop]
      by_cases hb : isBlankLine (List.take (q.i + lineLen (q.buf.drop q.i)) q.buf) = true
      · simp only [hb, Bool.not_true, Bool.false_eq_true, if_false]
        have hinv2 : LockInv t { q with offset := q.offset + unpaddedNullLength (List.take (q.i + lineLen (q.buf.drop q.i)) q.buf),
                                        lineno := q.lineno + 1,
                                        buf := List.drop (q.i + lineLen (q.buf.drop q.i)) q.buf, i := 0 } :=
          ⟨Nat.zero_le _, terminated_drop hinv.term _, not_crlfSplit_drop hinv.nosplit _, hinv.err⟩
        have := ih fA _ hinv2 rfl (by simp only [List.length_drop]; omega) (by simp only [List.length_drop]; omega)
        exact this
      · simp only [hb]
        left
        exact ⟨_, rfl, rfl, hinv1⟩
    · -- the end of `q.buf`
      have hb0 : q.buf = [] := List.eq_nil_of_length_eq_zero (by omega)
      right
      exact ⟨q, fA + 1, hinv, hb0, hi, rfl, rfl, skipBlank_nil fB q hb0 hi hinv.err, rfl, by omega⟩

/-! ### The per-line loop -/

/-- The hypothesis on the line parser under which trailing blank lines cannot be observed: fed a blank line where
    the input would end, it behaves as at the end of input (same panic, same children), and at the end of input it
    panics or closes all the children, with non-decreasing ends. -/
structure EOFBlank (L : LineParserI) : Prop where
  panicked : ∀ (s : L.σ) (src l : Bytes), IsLine l → isBlankLine l = true →
    L.panicked (L.line s (src ++ l) src.length) = L.panicked (L.line s src src.length)
  kids : ∀ (s : L.σ) (src l : Bytes), IsLine l → isBlankLine l = true →
    L.kids (L.line s (src ++ l) src.length) = L.kids (L.line s src src.length)
  closed : ∀ (s : L.σ) (src : Bytes), L.panicked (L.line s src src.length) = none →
    L.kids (L.line s src src.length) ≠ [] ∧ closedChain 0 (L.kids (L.line s src src.length)) = true

/-- The results of a loop on the two runs agree: same outcome; if it is a block, the states are still in lockstep
    or have parted in the controlled way. -/
def Step (t : Bytes) (rA rB : NBOut × BP) : Prop :=
  rA.1 = rB.1 ∧ ∀ r, rB.1 = .block r → (rA.2 = extBP t rB.2 ∧ LockInv t rB.2) ∨ Tail rA.2 rB.2

section
variable {L : LineParserI} (H : EOFBlank L)
include H

/-- The iteration at which the runs part: `q` is at the end of its buffer and feeds the end-of-input line; the other
    run feeds the first line of `t`. -/
theorem parseLines_diverge {t : Bytes} (htne : t ≠ []) (htb : isBlankLine t = true) {q : BP} (hinv : LockInv t q)
    (heq : q.i = q.buf.length) (fB k : Nat) (lp : L.σ)
    (hfp : isFuelPanic (parseLines L fB lp q.i q).1 = false) (hpn : (parseLines L fB lp q.i q).2.panic = none) :
    Step t (parseLines L (fB + k) lp q.i (tailBP t (lineLen t) q)) (parseLines L fB lp q.i q) := by
  cases fB with
  | zero => simp [parseLines, isFuelPanic] at hfp
  | succ fB =>
    have hk : fB + 1 + k = (fB + k) + 1 := by omega
    rw [hk]
    have hsB : q.buf.take q.i = q.buf := by rw [heq]; exact List.take_length
    have hsA : (tailBP t (lineLen t) q).buf.take (tailBP t (lineLen t) q).i = q.buf ++ t.take (lineLen t) :=
      List.take_length_add_append _
    have hl : IsLine (t.take (lineLen t)) := isLine_take htne
    have hlb : isBlankLine (t.take (lineLen t)) = true := isBlankLine_take htb _
    have e1 := H.panicked lp q.buf _ hl hlb
    have e2 := H.kids lp q.buf _ hl hlb
    rw [← heq] at e1 e2
    cases hpan : L.panicked (L.line lp q.buf q.i) with
    | some m =>
      have hA : L.panicked (L.line lp ((tailBP t (lineLen t) q).buf.take (tailBP t (lineLen t) q).i) q.i) = some m := by
        rw [hsA, e1, hpan]
      have hB : L.panicked (L.line lp (q.buf.take q.i) q.i) = some m := by rw [hsB, hpan]
      rw [parseLines_panicked L hA, parseLines_panicked L hB]
      exact ⟨rfl, fun r h => by cases h⟩
    | none =>
      have hA : L.panicked (L.line lp ((tailBP t (lineLen t) q).buf.take (tailBP t (lineLen t) q).i) q.i) = none := by
        rw [hsA, e1, hpan]
      have hB : L.panicked (L.line lp (q.buf.take q.i) q.i) = none := by rw [hsB, hpan]
      have hc := H.closed lp q.buf (by rw [← heq]; exact hpan)
      rw [← heq] at hc
      obtain ⟨hne, hchain⟩ := hc
      cases hk : L.kids (L.line lp q.buf q.i) with
      | nil => exact absurd hk hne
      | cons k rest =>
        rw [hk] at hchain
        obtain ⟨hclosed, _, hrest⟩ := closedChain_cons hchain
        have mB : makeRoot q (L.kids (L.line lp (q.buf.take q.i) q.i)) = some (rootOf q k, afterRoot q k rest) := by
          rw [hsB, hk]; exact makeRoot_closed _ _ _ hclosed
        have mA : makeRoot (tailBP t (lineLen t) q)
            (L.kids (L.line lp ((tailBP t (lineLen t) q).buf.take (tailBP t (lineLen t) q).i) q.i)) =
            some (rootOf (tailBP t (lineLen t) q) k, afterRoot (tailBP t (lineLen t) q) k rest) := by
          rw [hsA, e2, hk]; exact makeRoot_closed _ _ _ hclosed
        rw [parseLines_root L hB mB] at hpn ⊢
        rw [parseLines_root L hA mA]
        obtain ⟨_, hn⟩ := afterRoot_panic_none hpn
        rw [rootOf_tail _ _ _ _ hn, afterRoot_tail _ _ _ _ _ hn heq]
        refine ⟨rfl, fun r _ => Or.inr ⟨t, lineLen t, rfl, lineLen_le t, htb, ?_⟩⟩
        have hT : TailInv { q with blocks := k :: rest } := ⟨heq, hinv.err, hchain⟩
        exact hT.afterRoot k rest rfl

end

/-! ### The per-line loop, generically

`P rA rB` is what is to be shown about the results of a loop on the two runs. `LockSpec` collects the three
situations: the loops ended in lockstep; the runs parted in the per-line loop; the run on `q` met the end of its
input in the blank-line loop. -/

structure LockSpec (L : LineParserI) (t : Bytes) (P : NBOut × BP → NBOut × BP → Prop) : Prop where
  lock : ∀ (o : NBOut) (qB : BP), LockInv t qB → P (o, extBP t qB) (o, qB)
  div : ∀ (q : BP), LockInv t q → q.i = q.buf.length → ∀ (fB k : Nat) (lp : L.σ),
    isFuelPanic (parseLines L fB lp q.i q).1 = false → (parseLines L fB lp q.i q).2.panic = none →
    P (parseLines L (fB + k) lp q.i (tailBP t (lineLen t) q)) (parseLines L fB lp q.i q)
  eof : ∀ (q' : BP), LockInv t q' → q'.buf = [] → q'.i = 0 → ∀ (fsA fpA fpB : Nat), t.length + 1 ≤ fsA →
    P (afterSkip L fpA (skipBlank fsA (extBP t q'))) (afterSkip L fpB (none, q'))

/-- The per-line loop on the two runs, the run on `extBP t q` with at least as much fuel. -/
theorem parseLines_lockG {L : LineParserI} {t : Bytes} {P : NBOut × BP → NBOut × BP → Prop} (S : LockSpec L t P) :
    ∀ (fB k : Nat) (lp : L.σ) (ls : Nat)
    (q : BP), LockInv t q → isFuelPanic (parseLines L fB lp ls q).1 = false →
    (parseLines L fB lp ls q).2.panic = none →
    P (parseLines L (fB + k) lp ls (extBP t q)) (parseLines L fB lp ls q) := by
  intro fB
  induction fB with
  | zero => intro k lp ls q _ hfp; simp [parseLines, isFuelPanic] at hfp
  | succ fB ih =>
    intro k lp ls q hinv hfp hpn
    have hk : fB + 1 + k = (fB + k) + 1 := by omega
    rw [hk]
    have hsA : (extBP t q).buf.take (extBP t q).i = q.buf.take q.i := List.take_append_of_le_length hinv.ile
    cases hpan : L.panicked (L.line lp (q.buf.take q.i) ls) with
    | some m =>
      have hA : L.panicked (L.line lp ((extBP t q).buf.take (extBP t q).i) ls) = some m := by rw [hsA, hpan]
      rw [parseLines_panicked L hA, parseLines_panicked L hpan]
      exact S.lock _ _ hinv
    | none =>
      have hA : L.panicked (L.line lp ((extBP t q).buf.take (extBP t q).i) ls) = none := by rw [hsA, hpan]
      have hnext : makeRoot q (L.kids (L.line lp (q.buf.take q.i) ls)) = none →
          makeRoot (extBP t q) (L.kids (L.line lp ((extBP t q).buf.take (extBP t q).i) ls)) = none →
          P (parseLines L (fB + k + 1) lp ls (extBP t q)) (parseLines L (fB + 1) lp ls q) := by
        intro mB mA
        rw [parseLines_next L hpan mB] at hfp hpn ⊢
        rw [parseLines_next L hA mA, hsA]
        by_cases hlt : q.i < q.buf.length
        · obtain ⟨r1, r2, hinv1⟩ := rl_lock hinv hlt
          rw [r1] at hfp hpn ⊢
          rw [r2]
          exact ih k _ _ _ hinv1 hfp hpn
        · have heq : q.i = q.buf.length := by have := hinv.ile; omega
          obtain ⟨r1, r2⟩ := rl_eof hinv heq
          rw [r1] at hfp hpn ⊢
          rw [r2]
          exact S.div q hinv heq fB k _ hfp hpn
      cases hkids : L.kids (L.line lp (q.buf.take q.i) ls) with
      | nil =>
        apply hnext
        · rw [hkids]; rfl
        · rw [hsA, hkids]; rfl
      | cons k' rest =>
        cases ho : k'.isOpen with
        | true =>
          apply hnext
          · rw [hkids]; exact makeRoot_open _ _ _ ho
          · rw [hsA, hkids]; exact makeRoot_open _ _ _ ho
        | false =>
          have mB : makeRoot q (L.kids (L.line lp (q.buf.take q.i) ls)) = some (rootOf q k', afterRoot q k' rest) := by
            rw [hkids]; exact makeRoot_closed _ _ _ ho
          have mA : makeRoot (extBP t q) (L.kids (L.line lp ((extBP t q).buf.take (extBP t q).i) ls)) =
              some (rootOf (extBP t q) k', afterRoot (extBP t q) k' rest) := by
            rw [hsA, hkids]; exact makeRoot_closed _ _ _ ho
          rw [parseLines_root L hpan mB] at hpn ⊢
          rw [parseLines_root L hA mA]
          obtain ⟨hn1, hn2⟩ := afterRoot_panic_none hpn
          rw [rootOf_ext _ _ _ hn2, afterRoot_ext _ _ _ _ hn1 hinv.ile]
          exact S.lock _ _ (hinv.afterRoot k' rest hn1)

end CM.Proofs
