import CM.Proofs.InlHoare
/-
Specifications of the read-only parts of code-span parsing (`parseCodeSpan`, `csAddSpan`, `stripCodeSpanSpace`):
the state is unchanged, the pieces of a code span are Text / Indent. Independent of any invariant.
-/
namespace CM.Proofs.InlH
open CM CM.Model CM.Model.Inl
open Std.Do

set_option mvcgen.warning false

/-- Children of a code span under construction are Text / Indent. -/
def CSNOK (ks : Array CSN) : Prop := ∀ k ∈ ks, k.kind = IK.text ∨ k.kind = IK.indent

/-- closes the verification conditions that are literally hypotheses (no invariant involved) -/
macro "inl_triv0" : tactic =>
  `(tactic| all_goals (try (first
      | assumption
      | exact ExceptConds.entails.refl _
      | (intros
         inl_subst
         first
          | assumption
          | contradiction))))

section
variable {c : ICtx}


theorem parseCodeSpan_ro (c : ICtx) (start : Int) : RO (parseCodeSpan c start) := by
  unfold parseCodeSpan
  inl_ro

/-- `parseCodeSpan` only reads. -/
@[spec]
theorem parseCodeSpan_spec (c : ICtx) (start : Int) (s0 : IState) :
    ⦃fun s => ⌜s = s0⌝⦄ parseCodeSpan c start ⦃⇓? _ s => ⌜s = s0 ∧ True⌝⦄ :=
  RO.spec (parseCodeSpan_ro c start) (triple_true _) s0

theorem CSNOK.push {ks : Array CSN} {k : CSN} (h : CSNOK ks) (hk : k.kind = IK.text ∨ k.kind = IK.indent) :
    CSNOK (ks.push k) := by
  intro x hx
  rcases Array.mem_push.1 hx with h' | h'
  · exact h x h'
  · subst h'; exact hk

theorem CSNOK.ite {p : Prop} [Decidable p] {a b : Array CSN} (ha : CSNOK a) (hb : CSNOK b) :
    CSNOK (if p then a else b) := by
  split
  · exact ha
  · exact hb

theorem CSNOK.empty : CSNOK #[] := fun k hk => by simp at hk

theorem CSNOK.set! {ks : Array CSN} {i : Nat} {k : CSN} (h : CSNOK ks) (hk : k.kind = IK.text ∨ k.kind = IK.indent) :
    CSNOK (ks.set! i k) := by
  intro x hx
  rw [Array.set!_eq_setIfInBounds] at hx
  rcases Array.mem_or_eq_of_mem_setIfInBounds hx with h' | h'
  · exact h x h'
  · subst h'; exact hk

theorem CSNOK.extract {ks : Array CSN} (h : CSNOK ks) (i j : Nat) : CSNOK (ks.extract i j) := by
  intro e he
  obtain ⟨k, hk, rfl⟩ := Array.mem_extract_iff_getElem.1 he
  exact h _ (Array.getElem_mem _)

theorem CSNOK.get! {ks : Array CSN} (h : CSNOK ks) (i : Nat) (hi : i < ks.size) :
    (ks[i]!).kind = IK.text ∨ (ks[i]!).kind = IK.indent := by
  rw [getElem!_pos ks i hi]; exact h _ (Array.getElem_mem hi)

/-- `sl.set! i (f sl[i]!)` for a kind-preserving `f` (out of range: nothing happens) -/
theorem CSNOK.set!_upd {ks : Array CSN} (h : CSNOK ks) (i : Nat) (k' : CSN) (hk : k'.kind = (ks[i]!).kind) :
    CSNOK (ks.set! i k') := by
  by_cases hi : i < ks.size
  · refine CSNOK.set! h ?_
    rw [hk]; exact CSNOK.get! h i hi
  · rw [Array.set!_eq_setIfInBounds, Array.setIfInBounds_eq_of_size_le (by omega)]
    exact h

theorem CSNOK.ite_eq {p : Prop} [Decidable p] {a b x : Array CSN} (ha : CSNOK a) (hb : CSNOK b)
    (h : if p then True ∧ x = a else True ∧ x = b) : CSNOK x := by
  split at h
  · rw [h.2]; exact ha
  · rw [h.2]; exact hb

@[spec]
theorem csAddSpan_spec (acc : Array CSN) (a b : Int) (s0 : IState) :
    ⦃fun s => ⌜s = s0⌝⦄ csAddSpan c acc a b ⦃⇓? r s => ⌜s = s0 ∧ (CSNOK acc → CSNOK r)⌝⦄ := by
  mvcgen [csAddSpan]
  inl_triv0
  · rename_i h
    refine ⟨h, fun hacc => ?_⟩
    rename_i a1 a2 _
    have h1 : CSNOK a1 := CSNOK.ite (CSNOK.push hacc (Or.inl rfl)) hacc
    exact CSNOK.ite (CSNOK.push h1 (Or.inr rfl)) h1

theorem stripCodeSpanSpace_ro (c : ICtx) (slice : Array CSN) : RO (stripCodeSpanSpace c slice) := by
  unfold stripCodeSpanSpace
  inl_ro

/-- The kinds of the pieces survive `stripCodeSpanSpace` (state-free: proved with `mvcgen +jp`). -/
theorem stripCodeSpanSpace_csn (c : ICtx) (slice : Array CSN) :
    ⦃fun _ => ⌜True⌝⦄ stripCodeSpanSpace c slice ⦃⇓? r _ => ⌜CSNOK slice → CSNOK r⌝⦄ := by
  mvcgen +jp [stripCodeSpanSpace]
  all_goals (try (exact (PostCond.mayThrow (fun _ _ => ⌜True⌝))))
  inl_norm
  inl_triv0
  all_goals (try (exact id))
  all_goals
    rename_i x s h2 h1 h
    intro hs
    have hx3 := CSNOK.ite_eq (CSNOK.extract (CSNOK.set!_upd hs 0 _ (by simp -failIfUnchanged +zetaDelta only []; split <;> rfl)) 1 _)
      (CSNOK.set!_upd hs 0 _ (by simp -failIfUnchanged +zetaDelta only []; split <;> rfl)) h2
    exact CSNOK.ite_eq (CSNOK.extract (CSNOK.set!_upd hx3 _ _ (by simp -failIfUnchanged +zetaDelta only []; split <;> rfl)) 0 _)
      (CSNOK.set!_upd hx3 _ _ (by simp -failIfUnchanged +zetaDelta only []; split <;> rfl)) h

@[spec]
theorem stripCodeSpanSpace_spec (c : ICtx) (slice : Array CSN) (s0 : IState) :
    ⦃fun s => ⌜s = s0⌝⦄ stripCodeSpanSpace c slice ⦃⇓? r s => ⌜s = s0 ∧ (CSNOK slice → CSNOK r)⌝⦄ :=
  RO.spec (stripCodeSpanSpace_ro c slice) (stripCodeSpanSpace_csn c slice) s0

end

end CM.Proofs.InlH
