import CM.Proofs.RefDefCoverLoop
/-
C03, block half — `RefDefCoverOK`: the induction over `refDefLoop`.
-/
namespace CM.Proofs.RDC
open CM CM.Model CM.Gen CM.Spec CM.Spec.T CM.Proofs CM.Proofs.BSp CM.Proofs.RDS CM.Proofs.Cov

theorem good2_drop {src : Bytes} {is : List Tree} {N p : Nat} {r : Rd} (h : Good2 src is N p r) {fc : Nat}
    (hri : RI src (is.drop fc) r) : Good2 src (is.drop fc) N r.pos r :=
  ⟨⟨Nat.le_refl _, h.good.rd, hri⟩, fun hs u hu => h.2 hs u (List.mem_of_mem_drop hu)⟩

theorem wf_snoc {Q : ParaPred} {result : List PB} {b : PB} (hres : ∀ c ∈ result, WF Q c) (hb : WF Q b) :
    ∀ c ∈ result ++ [b], WF Q c := by
  intro c hc
  rcases List.mem_append.mp hc with h | h
  · exact hres c h
  · simp only [List.mem_singleton] at h; subst h; exact hb

/-- **The loop of `onCloseParagraph`**: the blocks it returns are well formed and cover every byte that needs to be
    covered and that the inline children (or the blocks split off before) covered. -/
theorem refDefLoop_cover (x : PExt) (src : Bytes) (orphan : Option PB) (Q : ParaPred) (HI : Int) (N : Nat)
    (hHI : 0 ≤ HI) (ho : ∀ o, orphan = some o → WF Q o) :
    ∀ (fuel : Nat) (r : Rd) (l : PLabel) (is : List Tree) (result : List PB) (p : Nat),
      Ctx2 src is → Good2 src is N p r → l.stop = HI → (l.kind = BK.paragraph ∨ l.kind = BK.setextHeading) →
      InlsOK r.pos HI is → (∀ t ∈ is, inlOK t = true) → (∀ c ∈ result, WF Q c) →
      LoopOut src is result Q (refDefLoop x src orphan fuel r l is result) := by
  intro fuel
  induction fuel with
  | zero =>
    intro r l is result p hc hg hstop hk hi hinl hres
    exact giveUp_out hk (by omega) hinl hres
  | succ fuel ih =>
    intro r l is result p hc hg hstop hk hi hinl hres
    have hgive : LoopOut src is result Q (result ++ [PB.mk l [] is]) := giveUp_out hk (by omega) hinl hres
    have IT := @ite_prop (List PB) (LoopOut src is result Q)
    have cl := fun q => good2_closed hc N q
    have hlo : ∀ t ∈ is, ((r.pos : Nat) : Int) ≤ t.label.start := fun t ht => (inls_bounds hi t ht).1
    have hleaf : BG.SpLeaf is := fun t ht => (hc.leaf t ht).1
    rcases e1 : parseLinkLabel src (rdFuel src is) r with ⟨label, r1⟩
    rcases e2 : r1.current src with ⟨c2, r2⟩
    rcases e3 : r2.next src with ⟨ok3, r3⟩
    rcases e4 : skipLinkSpace src (rdFuel src is) r3 with ⟨ok4, r4⟩
    rcases e5 : parseLinkDestination src (rdFuel src is) r4 with ⟨dest, r5⟩
    rcases e6 : readEOL src (rdFuel src is) r5 with ⟨destEOL, r6⟩
    rcases e7 : r6.current src with ⟨c7, r7⟩
    rcases e8 : skipLinkSpace src (rdFuel src is) r7 with ⟨ok8, r8⟩
    rcases e9 : parseLinkTitle src (rdFuel src is) r8 with ⟨title, r9⟩
    rcases e10 : readEOL src (rdFuel src is) r9 with ⟨titleEOL, r10⟩
    -- the readers
    have g1 : Good2 src is N r.pos r1 := by
      have := parseLinkLabel_cl (cl r.pos) (rdFuel src is) r hg.here; rw [e1] at this; exact this
    have g2 : Good2 src is N r1.pos r2 := (cl r1.pos).cur' g1.here e2
    have g3 : Good2 src is N r1.pos r3 := (cl r1.pos).nxt' g2 e3
    have g4 : Good2 src is N r1.pos r4 := by
      have := skipLinkSpace_cl (cl r1.pos) (rdFuel src is) r3 g3; rw [e4] at this; exact this
    have g5 : Good2 src is N r4.pos r5 := by
      have := parseLinkDestination_cl (cl r4.pos) (rdFuel src is) r4 g4.here; rw [e5] at this; exact this
    have g6 : Good2 src is N r5.pos r6 := by
      have := readEOL_cl (cl r5.pos) (rdFuel src is) r5 g5.here; rw [e6] at this; exact this
    have g7 : Good2 src is N r6.pos r7 := (cl r6.pos).cur' g6.here e7
    have g8 : Good2 src is N r6.pos r8 := by
      have := skipLinkSpace_cl (cl r6.pos) (rdFuel src is) r7 g7; rw [e8] at this; exact this
    have g9 : Good2 src is N r8.pos r9 := by
      have := parseLinkTitle_cl (cl r8.pos) (rdFuel src is) r8 g8.here; rw [e9] at this; exact this
    have g10 : Good2 src is N r9.pos r10 := by
      have := readEOL_cl (cl r9.pos) (rdFuel src is) r9 g9.here; rw [e10] at this; exact this
    have hr2 : r2 = r1 := by have := current_snd (src := src) hc.base g1.ri; rw [e2] at this; exact this
    have hr7 : r7 = r6 := by have := current_snd (src := src) hc.base g6.ri; rw [e7] at this; exact this
    subst hr2; subst hr7
    -- what the scanners skip
    have nColon : c2 = 0x3A → NN src is r2.pos r3.pos := by
      intro hcc
      refine step_NN hc g1.ri ?_ e3
      rw [e2, hcc]; exact need_colon
    have nWs1 : NN src is r3.pos r4.pos := by
      have := skipLinkSpace_NN hc (rdFuel src is) r3 g3.ri; rw [e4] at this; exact this
    have nEol1 : NN src is r5.pos r7.pos := by
      have := readEOL_NN hc (rdFuel src is) r5 g5.ri; rw [e6] at this; exact this
    have nWs2 : NN src is r7.pos r8.pos := by
      have := skipLinkSpace_NN hc (rdFuel src is) r7 g6.ri; rw [e8] at this; exact this
    have nEol2 : NN src is r9.pos r10.pos := by
      have := readEOL_NN hc (rdFuel src is) r9 g9.ri; rw [e10] at this; exact this
    -- a negative `destEOL` makes the second `skipLinkSpace` succeed
    have hneg : destEOL < 0 → ok8 = true := by
      intro hn
      obtain ⟨c, hcc, c0, cs⟩ := readEOL_neg (rdFuel src is) r5 g5.good.rd e6 hn
      rw [hcc] at e7
      simp only [Prod.mk.injEq] at e7
      obtain ⟨rfl, _⟩ := e7
      obtain ⟨k, hk'⟩ := rdFuel_pos src is
      rw [hk', skipLinkSpace_true k hcc c0 cs] at e8
      simp only [Prod.mk.injEq] at e8
      exact e8.1.symm
    -- a failed second `skipLinkSpace` leaves a dead reader
    have hdead8 : ok8 = false → ∀ t ∈ is, t.label.stop ≤ (r8.pos : Int) := by
      intro hf; subst hf
      exact g8.2 (skipLinkSpace_false hc (rdFuel src is) r7 r8 g6.ri (mu_lt_fuel g6.ri) e8)
    -- the children of the three inline nodes
    have F1 : label.span.isValid = true →
        Piece src is (mkInlineRef IK.linkLabel label.inner.start label.inner.stop
          (transformLinkReferenceSpan x.fold src is label.inner.start.toNat label.inner.stop.toNat)
          (collectTextNodes x.ext src label.inner.stop.toNat IK.text false (rdFuel src is)
            (newReader is label.inner.start.toNat) label.inner.start.toNat []))
          label.inner.start.toNat label.inner.stop.toNat ∧
        NN src is r.pos label.inner.start.toNat ∧ NN src is label.inner.stop.toNat r2.pos ∧
        label.span.start = (r.pos : Int) := by
      intro hv
      obtain ⟨L1, L2, L3, L4⟩ := parseLinkLabel_spec hc.base (rdFuel src is) hg.good e1 hv
      obtain ⟨M1, M2, M3⟩ := parseLinkLabel_NN hc (rdFuel src is) hg.good e1 hv
      refine ⟨?_, M1, M2, L1⟩
      unfold mkInlineRef
      exact piece_of (leaves_of_all (BG.collect_label_ok x.ext src _ _ is _ _ hleaf))
        (collect_ok hc x.ext _ _ IK.text false (fun h => by cases h) (fun _ => M3))
        (by show 0 ≤ label.inner.start; omega) (by show label.inner.start ≤ _; omega)
        (by show _ ≤ label.inner.stop; omega) L3
    have F2 : dest.span.isValid = true →
        Piece src is (mkInline IK.linkDest dest.span.start dest.span.stop
          (collectTextNodes x.ext src dest.text.stop.toNat IK.text true (rdFuel src is)
            (newReader is dest.text.start.toNat) dest.text.start.toNat []))
          dest.text.start.toNat dest.text.stop.toNat ∧
        NN src is r4.pos dest.text.start.toNat ∧ NN src is dest.text.stop.toNat r5.pos := by
      intro hv
      have D := parseLinkDestination_X hc (rdFuel src is) g4.ri (mu_lt_fuel g4.ri) e5 hv
      have D0 := D.start; have D1 := D.o1; have D2 := D.o2; have D3 := D.o3
      refine ⟨?_, D.nn1, D.nn2⟩
      unfold mkInline
      exact piece_of (leaves_of_all (BG.collect_dest_ok x.ext src _ _ is _ _ hleaf))
        (collect_ok hc x.ext _ _ IK.text true (fun _ => D.stop) (fun hab => D.inn (by omega)))
        (by show 0 ≤ dest.span.start; omega) (by show dest.span.start ≤ _; omega)
        (by show _ ≤ dest.span.stop; omega) (by show dest.span.start ≤ dest.span.stop; omega)
    have F3 : title.span.isValid = true →
        Piece src is (mkInline IK.linkTitle title.span.start title.span.stop
          (collectTextNodes x.ext src title.text.stop.toNat IK.text true (rdFuel src is)
            (newReader is title.text.start.toNat) title.text.start.toNat []))
          title.text.start.toNat title.text.stop.toNat ∧
        NN src is r8.pos title.text.start.toNat ∧ NN src is title.text.stop.toNat r9.pos := by
      intro hv
      have D := parseLinkTitle_X hc (rdFuel src is) g8.ri e9 hv
      have D0 := D.start; have D1 := D.o1; have D2 := D.o2; have D3 := D.o3
      refine ⟨?_, D.nn1, D.nn2⟩
      unfold mkInline
      exact piece_of (leaves_of_all (BG.collect_dest_ok x.ext src _ _ is _ _ hleaf))
        (collect_ok hc x.ext _ _ IK.text true (fun _ => D.stop) (fun hab => D.inn (by omega)))
        (by show 0 ≤ title.span.start; omega) (by show title.span.start ≤ _; omega)
        (by show _ ≤ title.span.stop; omega) (by show title.span.start ≤ title.span.stop; omega)
    rw [refDefLoop]
    simp only [e1]
    simp only [e2]
    simp only [e3]
    simp only [e4]
    simp only [e5]
    simp only [e6]
    simp only [e7]
    simp only [e8]
    simp only [e9]
    simp only [e10]
    generalize hti1 : mkInlineRef IK.linkLabel label.inner.start label.inner.stop
          (transformLinkReferenceSpan x.fold src is label.inner.start.toNat label.inner.stop.toNat)
          (collectTextNodes x.ext src label.inner.stop.toNat IK.text false (rdFuel src is)
            (newReader is label.inner.start.toNat) label.inner.start.toNat []) = ti1 at F1 ⊢
    generalize hti2 : mkInline IK.linkDest dest.span.start dest.span.stop
          (collectTextNodes x.ext src dest.text.stop.toNat IK.text true (rdFuel src is)
            (newReader is dest.text.start.toNat) dest.text.start.toNat []) = ti2 at F2 ⊢
    generalize hti3 : mkInline IK.linkTitle title.span.start title.span.stop
          (collectTextNodes x.ext src title.text.stop.toNat IK.text true (rdFuel src is)
            (newReader is title.text.start.toNat) title.text.start.toNat []) = ti3 at F3 ⊢
    refine IT (fun _ => hgive) (fun hv => ?_)
    have hv' : label.span.isValid = true := by simpa using hv
    obtain ⟨P1, n0, nLab, hstart⟩ := F1 hv'
    refine IT (fun _ => hgive) (fun hcol => ?_)
    have hcol' : c2 = 0x3A := by simpa using hcol
    refine IT (fun _ => hgive) (fun _ => ?_)
    refine IT (fun _ => hgive) (fun hdv => ?_)
    have hdv' : dest.span.isValid = true := by simpa using hdv
    obtain ⟨P2, nD1, nD2⟩ := F2 hdv'
    refine IT (fun _ => hgive) (fun _ => ?_)
    have n1 : NN src is label.inner.stop.toNat dest.text.start.toNat :=
      ((nLab.trans (nColon hcol')).trans nWs1).trans nD1
    -- the block ending at `destEOL`
    have blk1 : 0 ≤ destEOL → ∀ pe : Nat, NN src is r7.pos pe →
        WF Q (mkPB BK.linkRefDef label.span.start destEOL [ti1, ti2]) ∧
        ∀ j, r.pos ≤ j → j < pe → covTs is j = true → need (src.getD j 0) = true →
          covPB (mkPB BK.linkRefDef label.span.start destEOL [ti1, ti2]) j = true :=
      fun h0 pe hpe => refdef_block2 P1 P2 h0 n0 n1 ((nD2.trans nEol1).trans hpe)
    -- stopping after the block ending at `destEOL`
    have stop6 : 0 ≤ destEOL → ∀ pe : Nat, NN src is r7.pos pe → (∀ t ∈ is, t.label.stop ≤ (pe : Int)) →
        LoopOut src is result Q (orphan.elim (result ++ [mkPB BK.linkRefDef label.span.start destEOL [ti1, ti2]])
          (fun o => (result ++ [mkPB BK.linkRefDef label.span.start destEOL [ti1, ti2]]) ++ [o])) := by
      intro h0 pe hpe hpast
      obtain ⟨B1, B2⟩ := blk1 h0 pe hpe
      exact stop_out hc ho hres B1 hlo hpast B2
    -- continuing after the block ending at `destEOL`
    have cont6 : 0 ≤ destEOL → ∀ fc, nodeIndexForPosition is r7.pos 0 = some fc →
        LoopOut src is result Q ((result ++ [mkPB BK.linkRefDef label.span.start destEOL [ti1, ti2]]) ++
          [PB.mk { l with start := r7.pos } [] (is.drop fc)]) ∧
        LoopOut src is result Q (refDefLoop x src orphan fuel r7 { l with start := r7.pos } (is.drop fc)
          (result ++ [mkPB BK.linkRefDef label.span.start destEOL [ti1, ti2]])) := by
      intro h0 fc hfc
      obtain ⟨B1, B2⟩ := blk1 h0 r7.pos (NN.refl _ _ _)
      obtain ⟨E1, E2, E3⟩ := readEOL_spec hc.base (rdFuel src is) g5.good (mu_lt_fuel g5.ri) e6 h0
      obtain ⟨I1, I2⟩ := drop_at_bdry hc.base g6.ri E3 hfc hi
      have hinl' : ∀ t ∈ is.drop fc, inlOK t = true := fun t ht => hinl t (List.mem_of_mem_drop ht)
      have hres' := wf_snoc hres B1
      have hpast := take_past hc.base E3 hfc
      constructor
      · exact cont_out hc hlo hpast B2 (giveUp_out (l := { l with start := r7.pos }) hk (by show 0 ≤ l.stop; omega) hinl' hres')
      · exact cont_out hc hlo hpast B2
          (ih r7 { l with start := r7.pos } (is.drop fc) _ r7.pos (hc.drop fc) (good2_drop g6 I2) hstop hk I1 hinl' hres')
    refine IT (fun hok => ?_) (fun _ => ?_)
    · have hok8 : ok8 = false := by simpa using hok
      have hd0 : 0 ≤ destEOL := by
        by_cases hn : destEOL < 0
        · have := hneg hn; rw [hok8] at this; cases this
        · omega
      have := stop6 hd0 r8.pos nWs2 (hdead8 hok8)
      revert this
      cases orphan <;> exact fun h => h
    · refine IT (fun _ => ?_) (fun htv => ?_)
      · refine IT (fun _ => hgive) (fun hd => ?_)
        have hd0 : 0 ≤ destEOL := by omega
        cases hfc : nodeIndexForPosition is r7.pos 0 with
        | none =>
          have := stop6 hd0 r7.pos (NN.refl _ _ _) (none_past hc g6 hfc)
          revert this
          cases orphan <;> exact fun h => h
        | some fc => exact (cont6 hd0 fc hfc).2
      · have htv' : title.span.isValid = true := by simpa using htv
        obtain ⟨P3, nT1, nT2⟩ := F3 htv'
        refine IT (fun _ => ?_) (fun ht => ?_)
        · refine IT (fun _ => hgive) (fun hd => ?_)
          have hd0 : 0 ≤ destEOL := by omega
          cases hfc : nodeIndexForPosition is r7.pos 0 with
          | none =>
            have := stop6 hd0 r7.pos (NN.refl _ _ _) (none_past hc g6 hfc)
            revert this
            cases orphan <;> exact fun h => h
          | some fc => exact (cont6 hd0 fc hfc).1
        · have ht0 : 0 ≤ titleEOL := by omega
          obtain ⟨E1, E2, E3⟩ := readEOL_spec hc.base (rdFuel src is) g9.good (mu_lt_fuel g9.ri) e10 ht0
          have n2 : NN src is dest.text.stop.toNat title.text.start.toNat :=
            ((nD2.trans nEol1).trans nWs2).trans nT1
          obtain ⟨B1, B2⟩ := refdef_block3 (Q := Q) (s := label.span.start) P1 P2 P3 ht0 n0 n1 n2 (nT2.trans nEol2)
          cases hfc : nodeIndexForPosition is r10.pos 0 with
          | none =>
            have := stop_out hc ho hres B1 hlo (none_past hc g10 hfc) B2
            revert this
            cases orphan <;> exact fun h => h
          | some fc =>
            obtain ⟨I1, I2⟩ := drop_at_bdry hc.base g10.ri E3 hfc hi
            have hinl' : ∀ t ∈ is.drop fc, inlOK t = true := fun t ht => hinl t (List.mem_of_mem_drop ht)
            exact cont_out hc hlo (take_past hc.base E3 hfc) B2
              (ih r10 { l with start := r10.pos } (is.drop fc) _ r10.pos (hc.drop fc) (good2_drop g10 I2) hstop hk I1 hinl'
                (wf_snoc hres B1))

end CM.Proofs.RDC
