import CM.Proofs.BGLocal
/-
C05, block half — the grammar under edits along the last-child spine (`spineModify`, `spineReplaceLast`,
`setBlankFlags`), and under `offsetPB` (re-basing of left-over blocks).
-/
namespace CM.Proofs.BG
open CM CM.Model CM.Gen
open CM.Proofs.BT

/-- Replacing the last child by blocks that satisfy the grammar and are compatible with the parent. -/
theorem PBG_replaceLast {l : PLabel} {bs new : List PB} {is : List Tree} {c : PB} (h : PBGrammar (.mk l bs is))
    (hl : bs.getLast? = some c) (hr : CloseRes c new) (hn : ∀ c' ∈ new, PBGrammar c') :
    PBGrammar (.mk l (bs.dropLast ++ new) is) := by
  rw [PBGrammar_mk] at h ⊢
  obtain ⟨hloc, hkids⟩ := h
  unfold localOK at hloc ⊢
  simp only [Bool.and_eq_true] at hloc ⊢
  refine ⟨⟨blocksOK_replaceLast hloc.1 hl hr, hloc.2⟩, ?_⟩
  intro b hb
  rw [List.mem_append] at hb
  rcases hb with hb | hb
  · exact hkids b (List.dropLast_subset bs hb)
  · exact hn b hb

theorem PBG_relabel {l l' : PLabel} {bs : List PB} {is : List Tree} (hk : l'.kind = l.kind) (hn : l'.n = l.n)
    (hc : l'.char = l.char) (h : PBGrammar (.mk l bs is)) : PBGrammar (.mk l' bs is) := by
  rw [PBGrammar_mk] at h ⊢
  rw [localOK_congr hk hn hc]
  exact h

theorem PBG_setLabel {f : PLabel → PLabel} (hk : ∀ l, (f l).kind = l.kind) (hn : ∀ l, (f l).n = l.n)
    (hc : ∀ l, (f l).char = l.char) {b : PB} (h : PBGrammar b) : PBGrammar (b.setLabel f) := by
  obtain ⟨l, bs, is⟩ := b
  exact PBG_relabel (hk l) (hn l) (hc l) h

theorem setLabel_same {f : PLabel → PLabel} (hk : ∀ l, (f l).kind = l.kind) (hc : ∀ l, (f l).char = l.char) (b : PB) :
    CloseRes b [b.setLabel f] := by
  obtain ⟨l, bs, is⟩ := b
  exact CloseRes.same (hk l) (hc l)

/-- The grammar under an edit of the block at depth `d` of the spine: the edit must keep the grammar of that block and
    its interface to the parent. -/
theorem PBG_spineModify (f : PB → PB) : ∀ (d : Nat) (b : PB),
    (∀ c, spineGet b d = some c → PBGrammar c → PBGrammar (f c) ∧ CloseRes c [f c]) →
    PBGrammar b → PBGrammar (spineModify f b d) ∧ CloseRes b [spineModify f b d] := by
  intro d
  induction d with
  | zero =>
    intro b hf h
    rw [spineModify_zero]
    exact hf b (spineGet_zero b) h
  | succ d ih =>
    intro b hf h
    obtain ⟨l, bs, is⟩ := b
    rw [spineModify_succ]
    rw [spineGet_succ] at hf
    cases hgl : bs.getLast? with
    | none => exact ⟨h, CloseRes.refl _⟩
    | some c =>
      rw [hgl] at hf
      simp only [] at hf ⊢
      have hc : PBGrammar c := ((PBGrammar_mk l bs is).1 h).2 c (List.mem_of_getLast? hgl)
      have r := ih c hf hc
      refine ⟨PBG_replaceLast h hgl r.2 ?_, CloseRes.same rfl rfl⟩
      intro c' hc'
      simp only [List.mem_singleton] at hc'
      subst hc'
      exact r.1

/-- Two edits, the second one at or below the first, are one edit. -/
theorem spineModify_comp (f g : PB → PB) : ∀ (d : Nat) (b : PB) (k : Nat),
    spineModify g (spineModify f b d) (d + k) = spineModify (fun c => spineModify g (f c) k) b d := by
  intro d
  induction d with
  | zero => intro b k; rw [spineModify_zero, spineModify_zero, Nat.zero_add]
  | succ d ih =>
    intro b k
    obtain ⟨l, bs, is⟩ := b
    have e : d + 1 + k = (d + k) + 1 := by omega
    rw [spineModify_succ, spineModify_succ, e]
    cases hgl : bs.getLast? with
    | none => simp only []; rw [spineModify_succ, hgl]
    | some c =>
      simp only []
      rw [spineModify_succ]
      simp only [List.getLast?_append, List.getLast?_singleton, Option.some_or, List.dropLast_concat]
      rw [ih c k]

/-- An edit that does nothing to the block it is applied to. -/
theorem spineModify_id (f : PB → PB) : ∀ (d : Nat) (b : PB), (∀ c, spineGet b d = some c → f c = c) →
    spineModify f b d = b := by
  intro d
  induction d with
  | zero => intro b hf; rw [spineModify_zero]; exact hf b (spineGet_zero b)
  | succ d ih =>
    intro b hf
    obtain ⟨l, bs, is⟩ := b
    rw [spineModify_succ]
    rw [spineGet_succ] at hf
    cases hgl : bs.getLast? with
    | none => rfl
    | some c =>
      rw [hgl] at hf
      simp only [] at hf ⊢
      rw [ih c hf, ← eq_dropLast_append_of_getLast? hgl]

/-- Two edits at the same place. -/
theorem spineModify_comp0 (f g : PB → PB) (d : Nat) (b : PB) :
    spineModify g (spineModify f b d) d = spineModify (fun c => g (f c)) b d := by
  have := spineModify_comp f g d b 0
  rw [Nat.add_zero] at this
  rw [this]
  have e : (fun c => spineModify g (f c) 0) = (fun c => g (f c)) := by
    funext c; exact spineModify_zero g (f c)
  rw [e]

/-! ### setBlankFlags -/

theorem PBG_setBlankFlags (v : Bool) : ∀ (d : Nat) (b : PB), PBGrammar b →
    PBGrammar (setBlankFlags v b d) ∧ CloseRes b [setBlankFlags v b d] := by
  intro d
  induction d with
  | zero =>
    intro b h
    obtain ⟨l, bs, is⟩ := b
    simp only [setBlankFlags]
    exact ⟨PBG_relabel rfl rfl rfl h, CloseRes.same rfl rfl⟩
  | succ d ih =>
    intro b h
    obtain ⟨l, bs, is⟩ := b
    simp only [setBlankFlags]
    cases hgl : bs.getLast? with
    | none => exact ⟨PBG_relabel rfl rfl rfl h, CloseRes.same rfl rfl⟩
    | some c =>
      simp only []
      have hc : PBGrammar c := ((PBGrammar_mk l bs is).1 h).2 c (List.mem_of_getLast? hgl)
      have r := ih c hc
      have h' : PBGrammar (.mk { l with lastLineBlank := v } bs is) := PBG_relabel rfl rfl rfl h
      refine ⟨PBG_replaceLast h' hgl r.2 ?_, CloseRes.same rfl rfl⟩
      intro c' hc'
      simp only [List.mem_singleton] at hc'
      subst hc'
      exact r.1

/-! ### offsetPB -/

theorem offsetTrees_eq_map (n : Int) (ts : List Tree) : offsetTrees n ts = ts.map (offsetTree n) := by
  induction ts with
  | nil => rfl
  | cons t ts ih => rw [offsetTrees, ih]; rfl

theorem offsetPBs_eq_map (n : Int) (bs : List PB) : offsetPBs n bs = bs.map (offsetPB n) := by
  induction bs with
  | nil => rfl
  | cons b bs ih => rw [offsetPBs, ih]; rfl

theorem offsetTree_label (n : Int) (t : Tree) :
    (offsetTree n t).label.isBlock = t.label.isBlock ∧ (offsetTree n t).label.kind = t.label.kind := by
  obtain ⟨l, cs⟩ := t
  rw [offsetTree]
  exact ⟨rfl, rfl⟩

theorem offsetTree_children (n : Int) (t : Tree) : (offsetTree n t).children = t.children.map (offsetTree n) := by
  obtain ⟨l, cs⟩ := t
  rw [offsetTree, offsetTrees_eq_map]
  rfl

theorem inl_offset (n : Int) (ks : List Nat) (t : Tree) : inl ks (offsetTree n t) = inl ks t := by
  unfold inl
  rw [(offsetTree_label n t).1, (offsetTree_label n t).2, offsetTree_children]
  simp

theorem isInl_offset (n : Int) (k : Nat) (t : Tree) : isInl k (offsetTree n t) = isInl k t := by
  unfold isInl
  rw [(offsetTree_label n t).1, (offsetTree_label n t).2]

theorem all_inl_offset (n : Int) (ks : List Nat) (ts : List Tree) : (ts.map (offsetTree n)).all (inl ks) = ts.all (inl ks) := by
  rw [List.all_map]
  congr 1
  funext t
  exact inl_offset n ks t

theorem infoOK_offset (n : Int) (t : Tree) : infoOK (offsetTree n t) = infoOK t := by
  unfold infoOK
  rw [(offsetTree_label n t).1, (offsetTree_label n t).2, offsetTree_children, all_inl_offset]

theorem fencedKids_offset (n : Int) (ts : List Tree) : fencedKids (ts.map (offsetTree n)) = fencedKids ts := by
  cases ts with
  | nil => rfl
  | cons c rest =>
    simp only [List.map_cons, fencedKids]
    rw [infoOK_offset, inl_offset, all_inl_offset]

theorem labelOK_offset (n : Int) (t : Tree) : labelOK (offsetTree n t) = labelOK t := by
  unfold labelOK
  rw [isInl_offset, offsetTree_children, all_inl_offset]

theorem destOK_offset (n : Int) (k : Nat) (t : Tree) : destOK k (offsetTree n t) = destOK k t := by
  unfold destOK
  rw [isInl_offset, offsetTree_children, all_inl_offset]

theorem refDefKids_offset (n : Int) (ts : List Tree) : refDefKids (ts.map (offsetTree n)) = refDefKids ts := by
  match ts with
  | [] => rfl
  | [a] => rfl
  | [a, b] => simp only [List.map_cons, List.map_nil, refDefKids, labelOK_offset, destOK_offset]
  | [a, b, c] => simp only [List.map_cons, List.map_nil, refDefKids, labelOK_offset, destOK_offset]
  | a :: b :: c :: d :: rest => rfl

theorem inlinesOK_offset (n : Int) (l l' : PLabel) (hk : l'.kind = l.kind) (hn : l'.n = l.n) (hc : l'.char = l.char)
    (is : List Tree) : inlinesOK l' (is.map (offsetTree n)) = inlinesOK l is := by
  unfold inlinesOK
  rw [hk, hn, hc, all_inl_offset, all_inl_offset, all_inl_offset, fencedKids_offset, refDefKids_offset]
  simp

theorem offsetPB_label (n : Int) (b : PB) : (offsetPB n b).kind = b.kind ∧ (offsetPB n b).label.char = b.label.char := by
  obtain ⟨l, bs, is⟩ := b
  rw [offsetPB]
  exact ⟨rfl, rfl⟩

theorem blocksOK_offset (n : Int) (l l' : PLabel) (hk : l'.kind = l.kind) (hc : l'.char = l.char) (bs : List PB) :
    blocksOK l' (bs.map (offsetPB n)) = blocksOK l bs := by
  unfold blocksOK
  rw [hk, hc]
  have e1 : (bs.map (offsetPB n)).all (fun c => cck c.kind) = bs.all (fun c => cck c.kind) := by
    rw [List.all_map]; congr 1; funext c; simp [(offsetPB_label n c).1]
  have e2 : (bs.map (offsetPB n)).all (fun c => c.kind == BK.listItem && c.label.char == l.char)
      = bs.all (fun c => c.kind == BK.listItem && c.label.char == l.char) := by
    rw [List.all_map]; congr 1; funext c; simp [(offsetPB_label n c).1, (offsetPB_label n c).2]
  have e3 : itemKids (bs.map (offsetPB n)) = itemKids bs := by
    cases bs with
    | nil => rfl
    | cons m rest =>
      simp only [List.map_cons, itemKids, (offsetPB_label n m).1]
      congr 1
      rw [List.all_map]; congr 1; funext c; simp [(offsetPB_label n c).1]
  rw [e1, e2, e3]
  simp

/-- Re-basing a block keeps the grammar. -/
theorem PBG_offsetPB (n : Int) : ∀ b : PB, PBGrammar b → PBGrammar (offsetPB n b) := by
  apply PB.ind
  intro l bs is ih h
  rw [offsetPB, offsetPBs_eq_map, offsetTrees_eq_map]
  rw [PBGrammar_mk] at h ⊢
  refine ⟨?_, ?_⟩
  · unfold localOK at h ⊢
    generalize hl' : ({ l with start := l.start + n, stop := if l.stop ≥ 0 then l.stop + n else l.stop } : PLabel) = l'
    have hk : l'.kind = l.kind := by rw [← hl']
    have hn : l'.n = l.n := by rw [← hl']
    have hc : l'.char = l.char := by rw [← hl']
    rw [blocksOK_offset n l l' hk hc, inlinesOK_offset n l l' hk hn hc]
    exact h.1
  · intro b hb
    rw [List.mem_map] at hb
    obtain ⟨c, hc, rfl⟩ := hb
    exact ih c hc (h.2 c hc)

end CM.Proofs.BG
