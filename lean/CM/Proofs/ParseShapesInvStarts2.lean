import CM.Proofs.ParseShapesInvStarts
/-
C13 for the whole of `Parse`, part 9 (block phase): the list-item start keeps `GQ` and consumes no backtick (the marker is
a bullet or digits and a delimiter: `Shp.parseListMarker_text`); the list of all block starts.  Follows
`RefDefSpansStarts2.lean`.
-/
namespace CM.Proofs.PSh
open CM CM.Model CM.Gen CM.Spec
open CM.Proofs.BSp CM.Proofs.BT CM.Proofs.BG CM.Proofs.RDS

variable {S : Bytes} {bd : Int} {ls : Nat}

/-! ### the text of a list marker holds no backtick -/

theorem mem_takeWhile_or_drop {α} (p : α → Bool) : ∀ (s : List α) (c : α), c ∈ s →
    c ∈ s.takeWhile p ∨ c ∈ s.drop (s.takeWhile p).length := by
  intro s
  induction s with
  | nil => intro c h; cases h
  | cons a r ih =>
    intro c hc
    by_cases hp : p a = true
    · rw [List.takeWhile_cons_of_pos hp]
      rcases List.mem_cons.1 hc with rfl | hc
      · exact Or.inl (List.mem_cons_self ..)
      · rcases ih c hc with h | h
        · exact Or.inl (List.mem_cons_of_mem _ h)
        · exact Or.inr (by simpa using h)
    · rw [List.takeWhile_cons_of_neg hp]
      exact Or.inr (by simpa using hc)

theorem markerText_noTick (s : Bytes) (h : Shp.markerText s = true) : ∀ c ∈ s, c ≠ 0x60 := by
  intro c hc e
  subst e
  unfold Shp.markerText at h
  simp only [Bool.or_eq_true, beq_iff_eq, Bool.and_eq_true, decide_eq_true_eq] at h
  rcases h with ((h | h) | h) | h
  · rw [h] at hc; revert hc; decide
  · rw [h] at hc; revert hc; decide
  · rw [h] at hc; revert hc; decide
  · rcases mem_takeWhile_or_drop Gen.isASCIIDigit s _ hc with h' | h'
    · have := mem_takeWhile_p _ _ _ h'
      revert this; decide
    · rcases h.2 with h'' | h'' <;> (rw [h''] at h'; revert h'; decide)

theorem marker_bytes (l : Bytes) (h : 0 ≤ (parseListMarker l).stop) :
    ∀ k, k < (parseListMarker l).stop.toNat → l[k]? ≠ some 0x60 := by
  intro k hk hc
  obtain ⟨hm, hle⟩ := Shp.parseListMarker_text l h
  have hmem : (0x60 : UInt8) ∈ l.take (parseListMarker l).stop.toNat := by
    have : (l.take (parseListMarker l).stop.toNat)[k]? = some 0x60 := by
      rw [List.getElem?_take_of_lt hk]; exact hc
    exact List.mem_of_getElem? this
  exact markerText_noTick _ hm _ hmem rfl

/-! ### list items -/

theorem listItemTail_q (x : PExt) (p0 p : LP) (delim : UInt8) (stop ind : Nat)
    (h : BT.Inv p) (hk : p.containerKind = BK.list) (hs : p.state ≤ 2) (hb : p.i + stop ≤ p.line.length)
    (hbytes : ∀ k, k < stop → (p.line.drop p.i)[k]? ≠ some 0x60)
    (hn0 : NoTickPref p0 → NoTickPref p)
    (hg : GQ S bd ls p) : StQ S bd ls p0 (listItemTail x delim stop ind p) := by
  unfold listItemTail
  simp only []
  have cc1 : canContain p.containerKind BK.listItem = true := by rw [hk]; decide
  have ob1 := openBlock_inv x p BK.listItem (fun l => { l with char := delim }) (fun _ => rfl) h hs (Or.inr cc1)
  have g1 := openBlock_GQ x p BK.listItem (fun l => { l with char := delim }) (fun _ => rfl) kind_li_ne hg
  generalize p.openBlock x BK.listItem (fun l => { l with char := delim }) = q1 at ob1 g1
  have i1 := ob1.inv h
  have s1 := ob1.st hs
  have k1 := ob1.ckind
  have cc2 : canContain q1.containerKind BK.listMarker = true := by rw [k1]; decide
  have ob2 := openBlock_inv x q1 BK.listMarker id id_kind i1 s1.2.1 (Or.inl (by decide))
  have g2 := openBlock_GQ x q1 BK.listMarker id id_kind kind_lm_ne g1
  generalize q1.openBlock x BK.listMarker = q2 at ob2 g2
  have i2 := ob2.inv i1
  have s2 := ob2.st s1.2.1
  have d2 := ob2.depth cc2
  have lab2 := ob2.label cc2
  have e2i : q2.i = p.i := by rw [cur_i ob2.cur, cur_i ob1.cur]
  have e2l : q2.line = p.line := by rw [cur_line ob2.cur, cur_line ob1.cur]
  have ad := advance_post q2 stop i2.cur (by rw [e2i, e2l]; exact hb)
  have g3 := g2.of_fr (fr_advance q2 stop)
  have n3 : NoTickPref p0 → NoTickPref (q2.advance stop) := by
    intro h0
    refine NoTickPref.adv ad ?_ (((hn0 h0).of_cur ob1.cur).of_cur ob2.cur)
    intro k hk'
    rw [e2i, e2l]
    exact hbytes k hk'
  generalize q2.advance stop = q3 at ad g3 n3
  have i3 := ad.inv i2
  have s3 := ad.st s2.2.1
  have eb := endBlock_inv x q3 i3 s3.2
  have g4 := endBlock_GQ x q3 g3
  have n4 : NoTickPref p0 → NoTickPref (q3.endBlock x) := fun h0 => (n3 h0).of_cur eb.cur
  generalize q3.endBlock x = q4 at eb g4 n4
  have i4 := eb.inv i3
  have s4 := eb.st s3.2
  have d3 : q3.depth = q1.depth + 1 := by rw [tree_depth ad.tree, d2]
  have k4 : q4.containerKind = BK.listItem := by
    have l4 := eb.label (by omega)
    rw [d3, tree_root ad.tree, Nat.add_sub_cancel, lab2, labelAt_container q1 i1.tree.valid] at l4
    rw [containerKind_of_labelAt q4 _ l4]
    exact k1
  have fin : ∀ (q5 : LP) (n : Int), BT.Inv q5 → q5.containerKind = BK.listItem → 1 ≤ q5.state → q5.state ≤ 2 →
      (NoTickPref p0 → NoTickPref q5) → GQ S bd ls q5 → StQ S bd ls p0 (q5.setContainerIndent n) := by
    intro q5 n i5 k5 s5a s5b n5 g5
    have sc := setContainerIndent_post q5 n i5.tree s5a s5b (Or.inl k5)
    exact ⟨setContainerIndent_GQ q5 n g5, fun _ h0 => (n5 h0).of_cur sc.cur⟩
  split
  · have sc := setContainerIndent_post q4 (↑ind + ↑stop + 1) i4.tree s4.2.2 s4.2.1 (Or.inl k4)
    have g5 := setContainerIndent_GQ q4 (↑ind + ↑stop + 1) g4
    generalize q4.setContainerIndent (↑ind + ↑stop + 1) = q5 at sc g5
    have i5 := sc.inv i4
    have cl := consumeLine_post q5 i5.cur
    have g6 := g5.of_fr (fr_consumeLine q5)
    generalize q5.consumeLine = q6 at cl g6
    have s6 := cl.st (by rw [sc.state]; exact s4.2.1)
    exact ⟨g6, fun h2 => absurd s6 h2⟩
  · split
    · exact fin q4 _ i4 k4 s4.2.2 s4.2.1 n4 g4
    · split
      · have c5 := consumeIndentN_post q4 1 i4.cur (by omega)
        have g5 := g4.of_fr (fr_consumeIndentN q4 1)
        have n5 : NoTickPref p0 → NoTickPref (q4.consumeIndentN 1) := fun h0 => NoTickPref.ci i4.cur c5 (n4 h0)
        generalize q4.consumeIndentN 1 = q5 at c5 g5 n5
        have s5 := c5.st s4.2.1
        exact fin q5 _ (c5.inv i4) (by rw [c5.ckind, k4]) (by omega) s5.2 n5 g5
      · have c5 := consumeIndentN_post q4 q4.indent i4.cur (Nat.le_refl _)
        have g5 := g4.of_fr (fr_consumeIndentN q4 q4.indent)
        have n5 : NoTickPref p0 → NoTickPref (q4.consumeIndentN q4.indent) := fun h0 => NoTickPref.ci i4.cur c5 (n4 h0)
        generalize q4.consumeIndentN q4.indent = q5 at c5 g5 n5
        have s5 := c5.st s4.2.1
        exact fin q5 _ (c5.inv i4) (by rw [c5.ckind, k4]) (by omega) s5.2 n5 g5

theorem startListItem_q (x : PExt) (q : LP) (h : BT.Inv q) (hs : q.state = 0) (hg : GQ S bd ls q) :
    StQ S bd ls q (startListItem x q) := by
  unfold startListItem
  simp only []
  split
  · exact StQ.refl hg
  split
  · exact StQ.refl hg
  rename_i _ hc1
  split
  · exact StQ.refl hg
  have hb := parseListMarker_toNat_le q.bytesAfterIndent
  have hpos := parseListMarker_pos q.bytesAfterIndent
  have hmb := marker_bytes q.bytesAfterIndent
  generalize parseListMarker q.bytesAfterIndent = m at hb hpos hc1 hmb ⊢
  have hm : 1 ≤ m.stop := by
    rcases hpos with h' | h'
    · rw [h'] at hc1; simp at hc1
    · exact h'
  have hmb := hmb (by omega)
  obtain ⟨ci, hdrop, hil⟩ := consumeAll q h
  have g1 := hg.of_fr (fr_consumeIndentN q q.indent)
  have n1 : NoTickPref q → NoTickPref (q.consumeIndentN q.indent) := NoTickPref.ci h.cur ci
  generalize q.consumeIndentN q.indent = p1 at ci hdrop hil g1 n1 ⊢
  have i1 := ci.inv h
  have s1 := ci.st (by omega)
  generalize hcond : (p1.containerKind != BK.list || (if (p1.containerKind != BK.list && p1.containerKind != BK.listItem) = true
      then (0 : UInt8) else p1.container.label.char) != m.delim) = c
  have hcf : c = false → p1.containerKind = BK.list := by
    intro hc; rw [hc] at hcond
    simp only [Bool.or_eq_false_iff] at hcond
    simpa using hcond.1
  have key : ∀ p2 : LP, BT.Inv p2 → p2.containerKind = BK.list → p2.state ≤ 2 → cur p2 = cur p1 → GQ S bd ls p2 →
      StQ S bd ls q (listItemTail x m.delim m.stop.toNat q.indent p2) := by
    intro p2 i2 k2 s2 c2 g2
    apply listItemTail_q x q p2 _ _ _ i2 k2 s2
    · rw [cur_i c2, cur_line c2, ci.line]; omega
    · intro k hk
      rw [cur_i c2, cur_line c2, hdrop]
      exact hmb k hk
    · exact fun h0 => (n1 h0).of_cur c2
    · exact g2
  cases c with
  | true =>
    have ob := openBlock_inv x p1 BK.list (fun l => { l with char := m.delim }) (fun _ => rfl) i1 s1.2 (Or.inl (by decide))
    have g2 := openBlock_GQ x p1 BK.list (fun l => { l with char := m.delim }) (fun _ => rfl) kind_list_ne g1
    exact key _ (ob.inv i1) ob.ckind (ob.st s1.2).2.1 ob.cur g2
  | false => exact key p1 i1 (hcf rfl) s1.2 rfl g1

end CM.Proofs.PSh
