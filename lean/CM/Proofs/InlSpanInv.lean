import CM.Proofs.InlSpanWrap
/-
C02, inline half — the relational arena invariant `SPA` ("span discipline"): every node's span is valid and inside the
container `[lo, hi]`; the children of every node form a chain inside it (`ChainA`); the top-level children form a chain
inside `[lo, F]` (`F`: the frontier of the tokenizer); finished sub-trees are well-formed (`WFL`); the delimiter stack
holds plain Text leaves, sorted by position, that are children of the root (below `b`) resp. of `p` (from `b` on).
Stated on the components `(a, sk, pm)` = (arena, node ids on the stack, parent map as a function).
-/
namespace CM.Proofs.InlH
open CM CM.Model CM.Model.Inl

/-- node ids on the delimiter stack -/
def stkOf (s : IState) : List Nat := s.stack.toList.map (·.node)

/-- the `kids` of arena node `i` as a list -/
def kidsLS (a : Array INode) (i : Nat) : List Nat := (a[i]!).kids.toList

/-- the list without the pending node `x` (the opener of a link under construction overlaps the link node until
    `finishLink` removes it) -/
def vis (x : Option Nat) (l : List Nat) : List Nat := l.filter (fun k => some k != x)

theorem vis_none (l : List Nat) : vis none l = l := by
  unfold vis
  rw [List.filter_eq_self]
  intro a _; rfl

/-- What holds of every node but the root. -/
structure NodeSP (lo hi : Int) (a : Array INode) (i : Nat) : Prop where
  valid : (a[i]!).start ≤ (a[i]!).stop
  lo : lo ≤ (a[i]!).start
  hi : (a[i]!).stop ≤ hi
  chain : ChainA a (a[i]!).start (a[i]!).stop (kidsLS a i)
  sub : (a[i]!).kids = #[] → WFL (a[i]!).start (a[i]!).stop (a[i]!).sub
  nosub : (a[i]!).kids ≠ #[] → (a[i]!).sub = []

/-- A delimiter node: a Text leaf of the arena, not the root; non-empty unless it is in `Z` (about to be removed). -/
structure PlainLeaf (a : Array INode) (Z : List Nat) (k : Nat) : Prop where
  lt : k < a.size
  ne0 : k ≠ 0
  kids : (a[k]!).kids = #[]
  sub : (a[k]!).sub = []
  len : k ∉ Z → (a[k]!).start < (a[k]!).stop

/-- The invariant. `x`: pending opener; `b`, `p`: the stack entries from `b` on are children of `p`, the others of the
    root; `F`: frontier; `Z`: stack nodes that may be empty. -/
structure SPA (lo hi : Int) (x : Option Nat) (b p : Nat) (F : Int) (Z : List Nat)
    (a : Array INode) (sk : List Nat) (pm : Nat → Option Nat) : Prop where
  pos : 0 < a.size
  root : (a[0]!).start = lo ∧ (a[0]!).stop = hi ∧ (a[0]!).sub = []
  front : ChainA a lo F (vis x (kidsLS a 0))
  Fhi : F ≤ hi
  nodes : ∀ i, 0 < i → i < a.size → NodeSP lo hi a i
  klt : ∀ i, i < a.size → ∀ k ∈ kidsLS a i, k < a.size
  nodup : ∀ i, i < a.size → (kidsLS a i).Nodup
  uniqp : ∀ i j k, i < a.size → j < a.size → k ∈ kidsLS a i → k ∈ kidsLS a j → i = j
  plain : ∀ k ∈ sk, PlainLeaf a Z k
  sorted : sk.Pairwise (fun i j => (a[i]!).stop ≤ (a[j]!).start)
  low : (sk.take b).Sublist (kidsLS a 0) ∧ ∀ k ∈ sk.take b, pm k = some 0
  high : (sk.drop b).Sublist (kidsLS a p) ∧ ∀ k ∈ sk.drop b, pm k = some p
  plt : p < a.size
  pb : p = 0 → b = 0 ∧ x = none

/-- The invariant of the state. -/
def SP (lo hi : Int) (x : Option Nat) (b p : Nat) (F : Int) (s : IState) : Prop :=
  SPA lo hi x b p F [] s.nodes (stkOf s) (pmOf s) ∧ s.parentMap.size = s.nodes.size

/-! ### reading arrays -/

theorem get!_push_lt {a : Array INode} {n : INode} {i : Nat} (h : i < a.size) : (a.push n)[i]! = a[i]! :=
  getElem!_push_lt h

theorem get!_push_eq {a : Array INode} {n : INode} : (a.push n)[a.size]! = n := getElem!_push_size

theorem get!_modify {a : Array INode} {j i : Nat} {f : INode → INode} :
    (a.modify j f)[i]! = if i = j ∧ j < a.size then f (a[i]!) else a[i]! := by
  by_cases hi : i < a.size
  · rw [getElem!_pos (a.modify j f) i (by simpa using hi), getElem!_pos a i hi, Array.getElem_modify]
    by_cases hij : j = i
    · subst hij; simp [hi]
    · rw [if_neg hij, if_neg (fun h => hij h.1.symm)]
  · rw [getElem!_neg (a.modify j f) i (by simpa using hi), getElem!_neg a i hi]
    split
    · rename_i h; exact absurd (h.1 ▸ h.2) hi
    · rfl

theorem get!_modify_neS {a : Array INode} {j i : Nat} {f : INode → INode} (h : i ≠ j) : (a.modify j f)[i]! = a[i]! := by
  rw [get!_modify, if_neg (fun h' => h h'.1)]

theorem get!_modify_eqS {a : Array INode} {j : Nat} {f : INode → INode} (h : j < a.size) :
    (a.modify j f)[j]! = f (a[j]!) := by
  rw [get!_modify, if_pos ⟨rfl, h⟩]

/-! ### chains when the arena changes -/

/-- Spans of the listed nodes unchanged (e.g. a push, or a modification of other nodes / of `kids` only). -/
theorem ChainA.of_same {a a' : Array INode} {ks : List Nat} {lo hi : Int}
    (h : ∀ k ∈ ks, (a'[k]!).start = (a[k]!).start ∧ (a'[k]!).stop = (a[k]!).stop) :
    ChainA a lo hi ks → ChainA a' lo hi ks := ChainA.congr h

theorem ChainA.push {a : Array INode} {n : INode} {ks : List Nat} {lo hi : Int} (hk : ∀ k ∈ ks, k < a.size)
    (h : ChainA a lo hi ks) : ChainA (a.push n) lo hi ks :=
  h.congr fun k hk' => by rw [get!_push_lt (hk k hk')]; exact ⟨rfl, rfl⟩

end CM.Proofs.InlH
