import CM.Proofs.BlocksSpine
/-
The working invariant `Inv` of the line parser inside a line (no panic, cursor invariant, tree invariant), how every
operation transports it, and `collectInline`.
-/
namespace CM.Proofs.BT
open CM CM.Model CM.Gen

structure Inv (p : LP) : Prop where
  panic : p.panic = none
  cur : CurOK p
  tree : TreeOK p

theorem Inv.of_cursorOp {p p' : LP} (h : Inv p) (hp : p'.panic = p.panic) (hc : CurOK p') (ht : BT.tree p' = BT.tree p) : Inv p' :=
  ⟨by rw [hp]; exact h.panic, hc, TreeOK.of_tree ht h.tree⟩

theorem Inv.of_treeOp {p p' : LP} (h : Inv p) (hp : p'.panic = p.panic) (hc : BT.cur p' = BT.cur p) (ht : TreeOK p') : Inv p' :=
  ⟨by rw [hp]; exact h.panic, CurOK.of_cur hc h.cur, ht⟩

/-! ### state arithmetic -/

theorem ite_mm_le (c : Prop) [Decidable c] (s : Nat) (h : s ≤ 2) :
    s ≤ (if c then s else mm s) ∧ (if c then s else mm s) ≤ 2 := by
  have := mm_le s h
  split <;> omega

theorem mm_two : mm 2 = 2 := by decide
theorem mm_of_pos (s : Nat) (h : 1 ≤ s) : mm s = s := by
  unfold mm; simp only [stateOpening]
  have : (s == 0) = false := by simp; omega
  simp [this]

/-! ### glue: cursor operations -/

theorem AdvPost.inv {p p' : LP} {n : Nat} (a : AdvPost p p' n) (h : Inv p) : Inv p' := h.of_cursorOp a.panic a.cur a.tree
theorem AdvPost.st {p p' : LP} {n : Nat} (a : AdvPost p p' n) (h : p.state ≤ 2) : p.state ≤ p'.state ∧ p'.state ≤ 2 := by
  rw [a.state]; exact ite_mm_le _ _ h
theorem AdvPost.st_pos {p p' : LP} {n : Nat} (a : AdvPost p p' n) (hn : 0 < n) (h : p.state ≤ 2) : 1 ≤ p'.state := by
  rw [a.state, if_neg (by omega)]; exact (mm_le _ h).2.2
theorem AdvPost.st3 {p p' : LP} {n : Nat} (a : AdvPost p p' n) (h : p.state = 3) : p'.state = 3 := by
  rw [a.state, h, mm_three]; simp
theorem AdvPost.ckind {p p' : LP} {n : Nat} (a : AdvPost p p' n) : p'.containerKind = p.containerKind :=
  containerKind_of_tree a.tree

theorem CIPost.inv {p p' : LP} {n : Nat} (a : CIPost p p' n) (h : Inv p) : Inv p' := h.of_cursorOp a.panic a.cur a.tree
theorem CIPost.st {p p' : LP} {n : Nat} (a : CIPost p p' n) (h : p.state ≤ 2) : p.state ≤ p'.state ∧ p'.state ≤ 2 := by
  rw [a.state]; exact ite_mm_le _ _ h
theorem CIPost.st3 {p p' : LP} {n : Nat} (a : CIPost p p' n) (h : p.state = 3) : p'.state = 3 := by
  rw [a.state, h, mm_three]; simp
theorem CIPost.ckind {p p' : LP} {n : Nat} (a : CIPost p p' n) : p'.containerKind = p.containerKind :=
  containerKind_of_tree a.tree

theorem CLPost.inv {p p' : LP} (a : CLPost p p') (h : Inv p) : Inv p' := h.of_cursorOp a.panic a.cur a.tree
theorem CLPost.st {p p' : LP} (a : CLPost p p') (h : p.state ≤ 2) : p'.state = 2 := by
  rw [a.state]; exact clState_le _ (ite_mm_le _ _ h).2
theorem CLPost.st3 {p p' : LP} (a : CLPost p p') (h : p.state = 3) : p'.state = 4 := by
  rw [a.state, h, mm_three]; simp [clState_three]
theorem CLPost.ckind {p p' : LP} (a : CLPost p p') : p'.containerKind = p.containerKind :=
  containerKind_of_tree a.tree
theorem CLPost.ile {p p' : LP} (a : CLPost p p') (h : CurOK p) : p.i ≤ p'.i := by rw [a.i]; exact h.hi

/-! ### glue: tree operations -/

theorem OBPost.inv {p p' : LP} {k : Nat} (a : OBPost p p' k) (h : Inv p) : Inv p' := h.of_treeOp a.panic a.cur a.ok
theorem OBPost.st {p p' : LP} {k : Nat} (a : OBPost p p' k) (h : p.state ≤ 2) : p.state ≤ p'.state ∧ p'.state ≤ 2 ∧ 1 ≤ p'.state := by
  rw [a.state]; exact mm_le _ h
theorem CCPost.inv {p p' : LP} (a : CCPost p p') (h : Inv p) : Inv p' := h.of_treeOp a.panic a.cur a.ok
theorem SCPost.inv {p p' : LP} (a : SCPost p p') (h : Inv p) : Inv p' := h.of_treeOp a.panic a.cur a.ok

theorem openBlock_inv (x : PExt) (p : LP) (kind : Nat) (setAttrs : PLabel → PLabel)
    (hattr : ∀ l, (setAttrs l).kind = l.kind) (h : Inv p) (hst : p.state ≤ 2)
    (hk : kind ≠ BK.listItem ∨ canContain p.containerKind kind = true) :
    OBPost p (p.openBlock x kind setAttrs) kind := openBlock_post x p kind setAttrs hattr h.tree hst hk

/-- `endBlock` in an opening state. -/
structure EBPost (p p' : LP) : Prop where
  panic : p'.panic = p.panic
  cur : cur p' = cur p
  state : p'.state = mm p.state
  ok : TreeOK p'
  depth : p'.depth = p.depth - 1
  label : 0 < p.depth → labelAt p'.root p'.depth = labelAt p.root (p.depth - 1)

theorem endBlock_inv (x : PExt) (p : LP) (h : Inv p) (hst : p.state ≤ 2) : EBPost p (p.endBlock x) := by
  have e := endBlock_post x p h.tree hst
  exact ⟨e.panic, e.cur, e.state, e.ok, e.depth, e.label⟩

theorem EBPost.inv {p p' : LP} (a : EBPost p p') (h : Inv p) : Inv p' := h.of_treeOp a.panic a.cur a.ok
theorem EBPost.st {p p' : LP} (a : EBPost p p') (h : p.state ≤ 2) : p.state ≤ p'.state ∧ p'.state ≤ 2 ∧ 1 ≤ p'.state := by
  rw [a.state]; exact mm_le _ h

/-! ### appendInline -/

theorem appendInline_cur (p : LP) (t : Tree) : cur (p.appendInline t) = cur p := rfl
theorem appendInline_panic (p : LP) (t : Tree) : (p.appendInline t).panic = p.panic := rfl
theorem appendInline_state (p : LP) (t : Tree) : (p.appendInline t).state = p.state := rfl
theorem appendInline_depth (p : LP) (t : Tree) : (p.appendInline t).depth = p.depth := rfl
theorem appendInline_inv (p : LP) (t : Tree) (h : Inv p) : Inv (p.appendInline t) :=
  h.of_treeOp rfl rfl (appendInline_ok p t h.tree)

/-! ### collectInline -/

/-- Number of bytes `collectInline` skips before the collected range. -/
def ciSkip (p : LP) : Nat := if p.indent > 0 then indentLength (p.line.drop p.i) else 0

structure CInPost (p p' : LP) (n : Nat) : Prop where
  inv : Inv p'
  line : p'.line = p.line
  i : p'.i = p.i + ciSkip p + n
  state : p'.state = mm p.state
  ckind : p'.containerKind = p.containerKind
  depth : p'.depth = p.depth

theorem collectInline_post (x : PExt) (p : LP) (kind n : Nat) (h : Inv p) (hst : p.state ≠ 4)
    (hb : p.i + ciSkip p + n ≤ p.line.length) : CInPost p (p.collectInline x kind n) n := by
  unfold LP.collectInline
  have hs : (p.state == stateDescendTerminated) = false := by simpa [stateDescendTerminated] using hst
  simp only [hs, Bool.false_eq_true, if_false]
  rw [markMatched_eq]
  let p1 : LP := { p with state := mm p.state }
  have h1 : Inv p1 := ⟨h.panic, ⟨h.cur.hi, h.cur.htab⟩, ⟨h.tree.root, h.tree.valid⟩⟩
  have hind : p1.indent = p.indent := indent_of_cur rfl
  -- the optional indent node
  let p2 : LP := if p1.indent > 0 then
      (p1.advance (indentLength (p1.line.drop p1.i))).appendInline
        (.node { isBlock := false, kind := IK.indent, start := p1.lineStart + p1.i,
                 stop := (p1.advance (indentLength (p1.line.drop p1.i))).lineStart + (p1.advance (indentLength (p1.line.drop p1.i))).i,
                 indent := p1.indent } [])
    else p1
  have h2 : Inv p2 ∧ p2.line = p.line ∧ p2.i = p.i + ciSkip p ∧ p2.state = mm p.state ∧
      p2.containerKind = p.containerKind ∧ p2.depth = p.depth := by
    by_cases hpos : p1.indent > 0
    · have hsk : ciSkip p = indentLength (p.line.drop p.i) := by
        unfold ciSkip; rw [if_pos (by rw [← hind]; exact hpos)]
      have a := advance_post p1 (indentLength (p1.line.drop p1.i)) h1.cur (by
        show p.i + indentLength (p.line.drop p.i) ≤ p.line.length
        rw [← hsk]; omega)
      have ha := a.inv h1
      simp only [p2, if_pos hpos]
      refine ⟨appendInline_inv _ _ ha, a.line, ?_, ?_, ?_, ?_⟩
      · show (p1.advance _).i = _; rw [a.i, hsk]
      · show (p1.advance _).state = _; rw [a.state]
        show (if _ = 0 then mm p.state else mm (mm p.state)) = mm p.state
        rw [mm_mm]; simp
      · rw [appendInline_containerKind _ _ ha.tree, a.ckind]; rfl
      · show (p1.advance _).depth = _
        have := a.tree; simp [BT.tree] at this; rw [this.2.2.1]
    · have hsk : ciSkip p = 0 := by
        unfold ciSkip; rw [if_neg (by rw [← hind]; exact hpos)]
      simp only [p2, if_neg hpos]
      exact ⟨h1, rfl, by rw [hsk]; rfl, rfl, rfl, rfl⟩
  obtain ⟨i2, l2, e2, s2, k2, d2⟩ := h2
  have a3 := advance_post p2 n i2.cur (by rw [l2, e2]; exact hb)
  have i3 := a3.inv i2
  have key : ∀ t : Tree, CInPost p ((p2.advance n).appendInline t) n := by
    intro t
    refine ⟨appendInline_inv _ _ i3, ?_, ?_, ?_, ?_, ?_⟩
    · show (p2.advance n).line = _; rw [a3.line, l2]
    · show (p2.advance n).i = _; rw [a3.i, e2]
    · show (p2.advance n).state = _; rw [a3.state, s2, mm_mm]; simp
    · rw [appendInline_containerKind _ _ i3.tree, a3.ckind, k2]
    · show (p2.advance n).depth = _
      have := a3.tree; simp [BT.tree] at this; rw [this.2.2.1, d2]
  show CInPost p (if (kind == IK.infoString) = true then (p2.advance n).appendInline _ else (p2.advance n).appendInline _) n
  split
  · exact key _
  · exact key _

theorem CInPost.st {p p' : LP} {n : Nat} (a : CInPost p p' n) (h : p.state ≤ 2) : p.state ≤ p'.state ∧ p'.state ≤ 2 ∧ 1 ≤ p'.state := by
  rw [a.state]; exact mm_le _ h
theorem CInPost.st3 {p p' : LP} {n : Nat} (a : CInPost p p' n) (h : p.state = 3) : p'.state = 3 := by
  rw [a.state, h, mm_three]
theorem CInPost.ile {p p' : LP} {n : Nat} (a : CInPost p p' n) : p.i ≤ p'.i := by rw [a.i]; omega

/-- `ciSkip` when the cursor is not on a space or tab. -/
theorem ciSkip_zero (p : LP) (h : p.indent = 0) : ciSkip p = 0 := by
  unfold ciSkip; rw [if_neg (by omega)]

/-- Collecting the whole rest of the line after the indentation is within bounds. -/
theorem ciSkip_bai (p : LP) (hc : CurOK p) : p.i + ciSkip p + p.bytesAfterIndent.length = p.line.length := by
  unfold ciSkip
  split
  · exact bai_skip p hc
  · have h0 : p.indent = 0 := by omega
    rw [bai_of_indent_zero p hc h0, List.length_drop]
    have := hc.hi; omega

end CM.Proofs.BT
