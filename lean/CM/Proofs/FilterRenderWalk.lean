import CM.Proofs.FilterRenderSegs
/-
The right-to-left induction over `Spec.renderNode` / `Spec.renderForest`: under `seamsNode`, the rendering of a
node followed by any site-free text is site-free.
-/
namespace CM.Proofs
open CM CM.Model CM.Spec CM.Gen Node
open FilterSites

/-- Nodes that are descended into are not of a copied kind. -/
theorem inlineCopyOK_of_descend (cx : RCtx) (t : Tree) (nc : Bool) (hd : (preInline cx t).2 = true) :
    inlineCopyOK cx t nc = true := by
  unfold inlineCopyOK
  simp only []
  by_cases h1 : (t.label.kind == IK.charRef) = true
  · have hk := eq_of_beq h1
    simp [preInline, hk, IK.charRef, IK.text, IK.unparsed] at hd
  rw [if_neg h1]
  by_cases h2 : (t.label.kind == IK.rawHTML) = true
  · have hk := eq_of_beq h2
    simp [preInline, hk, IK.charRef, IK.text, IK.unparsed, IK.rawHTML] at hd
  rw [if_neg h2]
  by_cases h3 : (t.label.kind == IK.softBreak) = true
  · have hk := eq_of_beq h3
    simp [preInline, hk, IK.charRef, IK.text, IK.unparsed, IK.rawHTML, IK.softBreak] at hd
  rw [if_neg h3]

section
variable (p : Bytes → Bool) (cx : RCtx) (hf : cx.filter = some p)
include hf

theorem openBytes_seam (cur : Cursor) (nc : Bool)
    (h : (openBytes cx cur).2 = true ∨ copyOK cx cur.node nc = true) : SeamTo p (openBytes cx cur).1 nc := by
  unfold openBytes at h ⊢
  by_cases hb : cur.node.label.isBlock = true
  · rw [if_pos hb]
    exact (closed_preBlock p cx hf cur).seamTo nc
  · rw [if_neg hb] at h ⊢
    apply preInline_seam p cx hf
    rcases h with h | h
    · exact inlineCopyOK_of_descend cx _ nc h
    · simpa [copyOK, hb] using h

omit hf in
theorem closeBytes_closed (cur : Cursor) : Closed p (closeBytes cx cur) := by
  unfold closeBytes
  split
  · exact closed_postBlock p cx cur
  · exact closed_postInline p cx _

end

mutual
theorem renderNode_sites (p : Bytes → Bool) (cx : RCtx) (hf : cx.filter = some p) (t : Tree) (parent block : Option Tree) (index : Int) (follow : Bytes)
    (hfollow : sitesOK p follow = true)
    (h : seamsNode cx t parent block index (startsNameChar follow) = true) :
    sitesOK p (renderNode cx t parent block index ++ follow) = true := by
  match t with
  | .node l cs =>
    simp only [seamsNode] at h
    simp only [renderNode]
    split
    · rename_i hd
      rw [if_pos hd] at h
      rw [← startsNameChar_append] at h
      have hclose : sitesOK p (closeBytes cx { node := .node l cs, parent := parent, block := block, index := index }
          ++ follow) = true := (closeBytes_closed p cx _).sitesOK_append hfollow
      have hkids := renderForest_sites p cx hf (.node l cs) _ cs 0 _ hclose h
      rw [List.append_assoc, List.append_assoc]
      exact (openBytes_seam p cx hf _ _ (Or.inl hd)).sitesOK_append hkids
    · rename_i hd
      rw [if_neg hd] at h
      exact (openBytes_seam p cx hf _ _ (Or.inr h)).sitesOK_append hfollow
theorem renderForest_sites (p : Bytes → Bool) (cx : RCtx) (hf : cx.filter = some p) (parent : Tree) (block : Option Tree) (cs : List Tree) (i : Nat) (follow : Bytes)
    (hfollow : sitesOK p follow = true)
    (h : seamsForest cx parent block cs i (startsNameChar follow) = true) :
    sitesOK p (renderForest cx parent block cs i ++ follow) = true := by
  match cs with
  | [] => simpa [renderForest] using hfollow
  | c :: cs =>
    simp only [seamsForest, Bool.and_eq_true] at h
    simp only [renderForest, List.append_assoc]
    have hrest := renderForest_sites p cx hf parent block cs (i + 1) follow hfollow h.2
    apply renderNode_sites p cx hf c (some parent) block i _ hrest
    rw [startsNameChar_append]
    exact h.1
end

end CM.Proofs
