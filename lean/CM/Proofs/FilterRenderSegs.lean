import CM.Proofs.FilterRenderBase
/-
Every segment the renderer writes (`preBlock`, `postBlock`, `preInline`, `postInline`) is `Closed` — except the
three kinds of inline nodes whose source slice is copied, for which `inlineCopyOK` gives `SeamTo`.
-/
namespace CM.Proofs
open CM CM.Model CM.Spec CM.Gen Node
open FilterSites

section
variable (p : Bytes → Bool) (cx : RCtx) (hf : cx.filter = some p)
include hf

theorem filterPred_eq : filterPred cx = p := by simp [filterPred, hf]

theorem closed_br : Closed p (openTag cx (str "br") ++ [LF]) :=
  (closed_openTag p cx hf (str "br") (by decide +kernel) (by decide +kernel)).append
    (Closed.of_noLt p [LF] (by decide +kernel))

theorem closed_preBlock (cur : Cursor) : Closed p (preBlock cx cur).1 := by
  unfold preBlock
  simp only []
  split
  · split
    · exact closed_openTag p cx hf _ (by decide +kernel) (by decide +kernel)
    · exact Closed.nil p
  split
  · exact closed_openTag p cx hf _ (by decide +kernel) (by decide +kernel)
  split
  · exact closed_openTag p cx hf _ (headingTag_clean _).1 (headingTag_clean _).2.1
  split
  · -- <pre><code class="language-…">
    simp only [List.append_assoc]
    apply (closed_openTag p cx hf (str "pre") (by decide +kernel) (by decide +kernel)).append
    rw [← List.append_assoc]
    apply closed_openTagAttr p cx hf (str "code") _ (by decide +kernel) (by decide +kernel)
    · split
      · split
        · rfl
        · simp only [noLt_append, noLt_escapeString]
          decide +kernel
      · rfl
    · split
      · split
        · decide +kernel
        · have h : str " class=\"language-" = SP :: str "class=\"language-" := by decide +kernel
          simp only [h, List.cons_append, startsNameChar]
          decide +kernel
      · decide +kernel
  split
  · exact closed_openTag p cx hf _ (by decide +kernel) (by decide +kernel)
  split
  · split
    · apply closed_openTagAttr p cx hf (str "ol") _ (by decide +kernel) (by decide +kernel)
      · split
        · simp only [noLt_append, noLt_decimal, Bool.and_true]
          decide +kernel
        · rfl
      · split
        · have h : str " start=\"" = SP :: str "start=\"" := by decide +kernel
          simp only [h, List.cons_append, startsNameChar]
          decide +kernel
        · decide +kernel
    · exact closed_openTag p cx hf _ (by decide +kernel) (by decide +kernel)
  split
  · exact closed_openTag p cx hf _ (by decide +kernel) (by decide +kernel)
  split
  · exact Closed.nil p
  · exact Closed.nil p

omit hf in
theorem closed_postBlock (cur : Cursor) : Closed p (postBlock cx cur) := by
  unfold postBlock
  simp only []
  split
  · split
    · exact closed_closeTag p cx _ (by decide +kernel)
    · exact Closed.nil p
  split
  · exact closed_closeTag p cx _ (headingTag_clean _).2.2
  split
  · exact (closed_closeTag p cx _ (by decide +kernel)).append (closed_closeTag p cx _ (by decide +kernel))
  split
  · exact closed_closeTag p cx _ (by decide +kernel)
  split
  · apply closed_closeTag p cx
    split <;> decide +kernel
  split
  · exact closed_closeTag p cx _ (by decide +kernel)
  · exact Closed.nil p

omit hf in
theorem closed_postInline (t : Tree) : Closed p (postInline cx t) := by
  unfold postInline
  simp only []
  split
  · exact closed_closeTag p cx _ (by decide +kernel)
  split
  · exact closed_closeTag p cx _ (by decide +kernel)
  split
  · exact closed_closeTag p cx _ (by decide +kernel)
  split
  · exact closed_closeTag p cx _ (by decide +kernel)
  · exact Closed.nil p

/-- `<a href="…">text</a>` of an autolink. -/
theorem closed_autolink (dest : Bytes) :
    Closed p (openTagAttr cx (str "a") ++ str " href=\"" ++ (if Model.isEmailAddress dest then str "mailto:" else [])
      ++ escapeString (normalizeURI dest) ++ str "\">" ++ escapeString dest ++ closeTag cx (str "a")) := by
  have hq : str "\">" = [0x22] ++ [0x3E] := by decide +kernel
  have hh : str " href=\"" = SP :: str "href=\"" := by decide +kernel
  apply Closed.append _ (closed_closeTag p cx _ (by decide +kernel))
  apply Closed.append _ (Closed.of_noLt p _ (noLt_escapeString _))
  rw [hq, ← List.append_assoc]
  have := closed_openTagAttr p cx hf (str "a")
    (str " href=\"" ++ (if Model.isEmailAddress dest then str "mailto:" else []) ++ escapeString (normalizeURI dest) ++ [0x22])
    (by decide +kernel) (by decide +kernel)
    (by
      simp only [noLt_append, noLt_escapeString, Bool.and_true]
      split <;> decide +kernel)
    (by simp only [hh, List.cons_append, startsNameChar]; decide +kernel)
  simpa only [List.append_assoc] using this

/-- What an inline node writes first: closed, or a copied source slice satisfying the seam condition. -/
theorem preInline_seam (t : Tree) (nc : Bool) (h : inlineCopyOK cx t nc = true) : SeamTo p (preInline cx t).1 nc := by
  have hp := filterPred_eq p cx hf
  unfold inlineCopyOK at h
  simp only [] at h
  rw [hp] at h
  unfold preInline
  simp only []
  by_cases h1 : (t.label.kind == IK.text || t.label.kind == IK.unparsed) = true
  · rw [if_pos h1]
    exact (Closed.of_noLt p _ (noLt_escapeHTML _)).seamTo nc
  rw [if_neg h1]
  by_cases h2 : (t.label.kind == IK.charRef) = true
  · rw [if_pos h2]
    rw [if_pos h2] at h
    simp only [verbatimOK, Bool.and_eq_true, Bool.not_eq_true'] at h
    exact h
  rw [if_neg h2]
  rw [if_neg h2] at h
  by_cases h3 : (t.label.kind == IK.rawHTML) = true
  · rw [if_pos h3]
    rw [if_pos h3] at h
    simp only [Bool.or_eq_true, Bool.not_eq_true'] at h
    simp only [hf]
    split
    · exact SeamTo.nil p nc
    · rename_i hi
      rcases h with h | h
      · exact absurd h hi
      · exact ⟨filterRaw_sitesOK p _, h⟩
  rw [if_neg h3]
  rw [if_neg h3] at h
  by_cases h4 : (t.label.kind == IK.softBreak) = true
  · rw [if_pos h4]
    rw [if_pos h4] at h
    simp only [Bool.or_eq_true, beq_iff_eq, verbatimOK, Bool.and_eq_true, Bool.not_eq_true'] at h
    simp only [beq_iff_eq]
    split
    · exact (closed_br p cx hf).seamTo nc
    split
    · exact (Closed.of_noLt p [SP] (by decide +kernel)).seamTo nc
    split
    · rename_i hs2 hs1 hlen
      rcases h with ((h | h) | h) | h
      · exact absurd h hs2
      · exact absurd h hs1
      · omega
      · exact h
    · exact (Closed.of_noLt p [LF] (by decide +kernel)).seamTo nc
  rw [if_neg h4]
  clear h
  by_cases h5 : (t.label.kind == IK.hardBreak) = true
  · rw [if_pos h5]
    exact (closed_br p cx hf).seamTo nc
  rw [if_neg h5]
  by_cases h6 : (t.label.kind == IK.emphasis) = true
  · rw [if_pos h6]
    exact (closed_openTag p cx hf _ (by decide +kernel) (by decide +kernel)).seamTo nc
  rw [if_neg h6]
  by_cases h7 : (t.label.kind == IK.strong) = true
  · rw [if_pos h7]
    exact (closed_openTag p cx hf _ (by decide +kernel) (by decide +kernel)).seamTo nc
  rw [if_neg h7]
  by_cases h8 : (t.label.kind == IK.codeSpan) = true
  · rw [if_pos h8]
    exact (closed_openTag p cx hf _ (by decide +kernel) (by decide +kernel)).seamTo nc
  rw [if_neg h8]
  by_cases h9 : (t.label.kind == IK.link) = true
  · rw [if_pos h9]
    exact (closed_openTagAttr p cx hf (str "a") _ (by decide +kernel) (by decide +kernel)
      (noLt_linkAttrs_href _) (startsNameChar_linkAttrs_href _ _)).seamTo nc
  rw [if_neg h9]
  by_cases h10 : (t.label.kind == IK.image) = true
  · rw [if_pos h10]
    refine Closed.seamTo ?_ nc
    simp only [List.append_assoc]
    rw [← List.append_assoc (linkAttrs _ _), ← List.append_assoc (openTagAttr _ _)]
    apply closed_openTagAttr p cx hf (str "img") _ (by decide +kernel) (by decide +kernel)
    · rw [noLt_append, noLt_linkAttrs_src, noLt_altText]; rfl
    · rw [List.append_assoc]; exact startsNameChar_linkAttrs_src _ _
  rw [if_neg h10]
  by_cases h11 : (t.label.kind == IK.autolink) = true
  · rw [if_pos h11]
    refine Closed.seamTo ?_ nc
    exact closed_autolink p cx hf _
  rw [if_neg h11]
  by_cases h12 : (t.label.kind == IK.indent) = true
  · rw [if_pos h12]
    exact (Closed.of_noLt p _ (noLt_spaces _)).seamTo nc
  rw [if_neg h12]
  split
  · exact SeamTo.nil p nc
  · exact SeamTo.nil p nc

end

end CM.Proofs
