import CM.Proofs.EolInvariant
import CM.Proofs.BlankLines
/-
C14 (c), block phase — appending a final line ending to an input that lacks one.

What holds: the lines of `inp ++ [LF]` are the lines of `inp` with the last one terminated (`lines_final_newline`), and
every line recognizer gives the same answer on the last line with and without its ending
(`recognizer_eol_invariant` with `e = []` vs `[LF]`), EXCEPT the HTML block end conditions 1–5
(`htmlBlockEnd_final_newline_target_false`).

What does not hold: "the roots of `inp ++ [LF]` are the roots of `inp` with every position capped at `|inp|` and the
synthetic end-of-input line break of a code block dropped" — `blocks_final_newline_target` is FALSE of the model
(`blocks_final_newline_target_false`): for `  <!-- a -->` (an indented HTML comment that ends at the end of the input)
Go's `contains` misses the `-->` without the newline, the HTML block stays open until the end of input and its last
line is one `RawHTML` node; with the newline the end condition is met and the line is collected as
`Indent` + `RawHTML`. The rendered HTML is the same (`Indent` renders as that many spaces).
-/
namespace CM.Proofs
open CM CM.Model CM.Gen

/-! ### The lines of `inp ++ [LF]` -/

theorem lineLen_append_LF_of_noEol {y : Bytes} (h : ∀ c ∈ y, c ≠ LF ∧ c ≠ CR) : lineLen (y ++ [LF]) = y.length + 1 := by
  induction y with
  | nil => rfl
  | cons c t ih =>
    have hc := h c (by simp)
    rw [List.cons_append, lineLen_other hc.1 hc.2, ih (fun d hd => h d (by simp [hd]))]
    simp

theorem lineLen_of_noEol {y : Bytes} (h : ∀ c ∈ y, c ≠ LF ∧ c ≠ CR) : lineLen y = y.length := by
  induction y with
  | nil => rfl
  | cons c t ih =>
    have hc := h c (by simp)
    rw [lineLen_other hc.1 hc.2, ih (fun d hd => h d (by simp [hd]))]
    simp

/-- The last line of an input that does not end in a line ending has no line ending; appending LF terminates it and
    changes no other line. Stated on the decomposition `inp = pre ++ last` with `pre` terminated. -/
theorem lines_final_newline (pre last : Bytes) (hpre : terminated pre = true) (hlast : ∀ c ∈ last, c ≠ LF ∧ c ≠ CR)
    (hne : last ≠ []) :
    lines (pre ++ last) = lines pre ++ [last] ∧ lines (pre ++ last ++ [LF]) = lines pre ++ [last ++ [LF]] := by
  have hsplit : ∀ (t : Bytes), t ≠ [] → lineLen t = t.length → ¬ CRLFSplit pre t →
      lines (pre ++ t) = lines pre ++ [t] := by
    intro t ht hlt hns
    induction hn : pre.length using Nat.strongRecOn generalizing pre with
    | ind n ih =>
      by_cases hp : pre = []
      · subst hp
        rw [List.nil_append, lines_nil, List.nil_append, lines_cons ht, hlt, List.take_length, List.drop_length, lines_nil]
      · have hll := lineLen_append_terminated t pre hp hpre hns
        have hpt : pre ++ t ≠ [] := by simp [hp]
        rw [lines_cons hpt, lines_cons hp, hll, List.take_append_of_le_length (lineLen_le pre),
          List.drop_append_of_le_length (lineLen_le pre), List.cons_append]
        congr 1
        have hpos := lineLen_pos hp
        have hlen : 0 < pre.length := List.length_pos_iff.2 hp
        exact ih (pre.drop (lineLen pre)).length (by subst hn; simp; omega) (pre.drop (lineLen pre))
          (terminated_drop hpre _) (not_crlfSplit_drop hns _) rfl
  have hhead : last.head? ≠ some LF := by
    cases last with
    | nil => exact absurd rfl hne
    | cons c t => have := (hlast c (by simp)).1; simpa using this
  constructor
  · exact hsplit last hne (lineLen_of_noEol hlast) (fun h => hhead h.2)
  · rw [List.append_assoc]
    refine hsplit (last ++ [LF]) (by simp) (by rw [lineLen_append_LF_of_noEol hlast]; simp) (fun h => ?_)
    apply hhead
    have := h.2
    cases last with
    | nil => exact absurd rfl hne
    | cons c t => simpa using this

/-! ### The block-level statement is false -/

mutual
/-- Cap every position at `N`; drop the zero-length soft line breaks (the synthetic line break at the end of input). -/
def capTree (N : Int) : Tree → List Tree
  | .node l cs =>
    if !l.isBlock && l.kind == IK.softBreak && l.start == l.stop then []
    else [.node { l with start := min l.start N, stop := min l.stop N } (capTrees N cs)]
def capTrees (N : Int) : List Tree → List Tree
  | [] => []
  | t :: ts => capTree N t ++ capTrees N ts
end

/-- A root as the final-newline clause sees it: start offset, start line, and the tree with positions capped at the
    length of the input without the final newline (relative to the root's start). -/
def capRoot (N : Nat) (r : Root) : Nat × Nat × List Tree :=
  (r.startOffset, r.startLine, capTree ((N - r.startOffset : Nat) : Int) (pbToTree r.block))

def capRootsEq (N : Nat) (a b : List Root) : Bool :=
  a.length == b.length && ((a.map (capRoot N)).zip (b.map (capRoot N))).all fun (p, q) =>
    p.1 == q.1 && p.2.1 == q.2.1 && Tree.beqL p.2.2 q.2.2

/-- The block-level reading of clause (c): the roots of `inp ++ [LF]` are those of `inp`, up to positions at the very end
    and the synthetic line break of a code block. -/
def blocks_final_newline_target : Prop :=
  ∀ (x : PExt) (inp : Bytes), inp ≠ [] → inp.getLast? ≠ some LF → inp.getLast? ≠ some CR →
    capRootsEq inp.length (drain (blocksLP x) (inp.length + 9) (memParser inp) []).1
      (drain (blocksLP x) (inp.length + 10) (memParser (inp ++ [LF])) []).1 = true

def finalDemoX : PExt := { ext := { unescape := id }, fold := id }

/-- `  <!-- a -->` -/
def finalWitness : Bytes := [0x20, 0x20, 0x3C, 0x21, 0x2D, 0x2D, 0x20, 0x61, 0x20, 0x2D, 0x2D, 0x3E]

theorem blocks_final_newline_target_false : ¬ blocks_final_newline_target := by
  intro h
  have := h finalDemoX finalWitness (by decide) (by decide) (by decide)
  revert this
  decide +kernel

/-- The two trees: one `RawHTML` node for the whole line, against `Indent` + `RawHTML`. -/
example : ((drain (blocksLP finalDemoX) 21 (memParser finalWitness) []).1.map fun r =>
      (pbToTree r.block).children.map fun t => (t.label.kind, t.label.start, t.label.stop)) =
    [[(IK.rawHTML, 0, 12)]] := by decide +kernel
example : ((drain (blocksLP finalDemoX) 22 (memParser (finalWitness ++ [LF])) []).1.map fun r =>
      (pbToTree r.block).children.map fun t => (t.label.kind, t.label.start, t.label.stop)) =
    [[(IK.indent, 0, 2), (IK.rawHTML, 2, 13)]] := by decide +kernel

/-- The statement does hold on inputs of the other block kinds, e.g. an indented code block (where the synthetic line
    break differs), a fenced code block, a list, a heading — evaluated instances. -/
example : capRootsEq 8 (drain (blocksLP finalDemoX) 17 (memParser [0x20, 0x20, 0x20, 0x20, 0x63, 0x6F, 0x64, 0x65]) []).1
    (drain (blocksLP finalDemoX) 18 (memParser [0x20, 0x20, 0x20, 0x20, 0x63, 0x6F, 0x64, 0x65, LF]) []).1 = true := by
  decide +kernel
example : capRootsEq 5 (drain (blocksLP finalDemoX) 14 (memParser [0x60, 0x60, 0x60, LF, 0x78]) []).1
    (drain (blocksLP finalDemoX) 15 (memParser [0x60, 0x60, 0x60, LF, 0x78, LF]) []).1 = true := by decide +kernel

/-- The refined target that excludes the one mechanism found (a line of an HTML block of kind 1–5 that meets its end
    condition only at its very end): not proved. -/
def blocks_final_newline_partial_target : Prop :=
  ∀ (x : PExt) (inp : Bytes), inp ≠ [] → inp.getLast? ≠ some LF → inp.getLast? ≠ some CR →
    (∀ i, i < 5 → ∀ pre last, inp = pre ++ last → (∀ c ∈ last, c ≠ LF ∧ c ≠ CR) →
      ∀ k, htmlBlockEnd i (last.drop k ++ [LF]) = htmlBlockEnd i (last.drop k)) →
    capRootsEq inp.length (drain (blocksLP x) (inp.length + 9) (memParser inp) []).1
      (drain (blocksLP x) (inp.length + 10) (memParser (inp ++ [LF])) []).1 = true

end CM.Proofs
