import CM.Proofs.ShapesFresh
/-
C13, block half — the list item start keeps the shape invariant: the marker is closed at once and selects a bullet or
1–9 digits and a delimiter.
-/
namespace CM.Proofs.Shp
open CM CM.Model CM.Gen CM.Proofs.BG CM.Proofs.BT
open CM.Proofs.BSp (curPos)

/-- `startListItem` from the point where the container is the new list item. -/
def markerTail (x : PExt) (stop : Nat) (ind : Nat) (q1 : LP) : LP :=
  let p := q1.openBlock x BK.listMarker
  let p := p.advance stop
  let p := p.endBlock x
  if p.isRestBlank then
    let p := p.setContainerIndent (ind + stop + 1)
    p.consumeLine
  else
    let padding := p.indent
    if padding < 1 then p.setContainerIndent (ind + stop + 1)
    else if padding > 4 then (p.consumeIndentN 1).setContainerIndent (ind + stop + 1)
    else (p.consumeIndentN padding).setContainerIndent (ind + stop + padding)

theorem listItemTail_marker (x : PExt) (delim : UInt8) (stop ind : Nat) (p : LP) :
    listItemTail x delim stop ind p = markerTail x stop ind (p.openBlock x BK.listItem (fun l => { l with char := delim })) := rfl

theorem setContainerIndent_V {setx : Bool} (p : LP) (n : Int) {e : Int} (h : V setx e p) (hi : Inv (p.setContainerIndent n))
    (hc : cur (p.setContainerIndent n) = cur p) :
    V setx e (p.setContainerIndent n) ∧ (ChB setx p → ChB setx (p.setContainerIndent n)) ∧
    (p.setContainerIndent n).lineStart = p.lineStart := by
  have h0e : (0 : Int) ≤ e := by have := h.le; omega
  have hs := setContainerIndent_source p n
  have hls : (p.setContainerIndent n).lineStart = p.lineStart := by
    unfold LP.setContainerIndent
    split
    · unfold LP.setPanic; split <;> rfl
    · split
      · unfold LP.setPanic; split <;> rfl
      · rfl
  obtain ⟨f, hfk, scC⟩ := setContainerIndent_container' p n h.inv.tree
  refine ⟨⟨hi, h.src.of_eq hs hls (cur_line hc), by rw [hls]; exact h.le, ?_, ?_⟩, setContainerIndent_chB p n h.inv.tree, hls⟩
  · rw [hs]
    exact setContainerIndent_Sh p n h0e h.inv.tree h.sh h.co
  · rw [scC]
    generalize hcq : p.container = cq
    have : cq.label.stop < 0 := by rw [← hcq]; exact h.co
    obtain ⟨lq, bq, iq⟩ := cq
    show (f lq).stop < 0
    rw [hfk]; exact this

/-- The closed marker satisfies its rule. -/
theorem nodeOK_marker {setx : Bool} {src : Bytes} {lo : Int} {s n : Nat} (hlo : lo ≤ s) (hn : s + n ≤ src.length)
    (hm : markerText ((src.drop s).take n) = true) :
    nodeOK setx src lo ((s : Int) + n) { kind := BK.listMarker, start := s, stop := (s : Int) + n } true [] = true := by
  rw [nodeOK_iff, kindOK_iff, textOK_iff, openOK_iff]
  refine ⟨Int.le_refl _, fun _ => (by show lo ≤ (s : Int) + n; omega),
    fun _ => (by rw [anchor_start (Or.inr (show BK.listMarker ≠ BK.setextHeading by decide))]; exact hlo), ?_,
    fun hp => (by exfalso; have : paraLike BK.listMarker = true := hp; revert this; decide), fun ho => (by exfalso; have : (s : Int) + n < 0 := ho; omega)⟩
  unfold shapeOK
  have e1 : (BK.listMarker == BK.blockQuote) = false := by decide
  have e2 : (BK.listMarker == BK.atxHeading) = false := by decide
  have e3 : (BK.listMarker == BK.fencedCode) = false := by decide
  simp only [e1, e2, e3, Bool.false_eq_true, if_false, beq_self_eq_true, if_true, Bool.and_eq_true]
  refine ⟨closedIn_iff.mpr ⟨by show (0 : Int) ≤ s; omega, by show (s : Int) ≤ s + n; omega, by show (s : Int) + n ≤ _; omega⟩, ?_⟩
  have : sliceI src (s : Int) ((s : Int) + n) = (src.drop s).take n := by
    unfold sliceI
    have e1 : ((s : Int)).toNat = s := by omega
    have e2 : ((s : Int) + n - s).toNat = n := by omega
    rw [e1, e2]
  show markerText (sliceI src (s : Int) ((s : Int) + n)) = true
  rw [this]; exact hm

/-- The marker and the rest of `startListItem`, from a fresh list item. -/
theorem markerTail_V {setx : Bool} (x : PExt) (q1 : LP) (stop ind : Nat) {lab : PLabel} {e : Int} (h : V setx e q1)
    (hc : q1.container = .mk lab [] []) (hk : lab.kind = BK.listItem) (hst : 1 ≤ q1.state ∧ q1.state ≤ 2)
    (hb : q1.i + stop ≤ q1.line.length) (hec : e ≤ curPos q1)
    (hm : markerText ((q1.line.drop q1.i).take stop) = true) :
    V setx (curPos (markerTail x stop ind q1)) (markerTail x stop ind q1) ∧ ChB setx (markerTail x stop ind q1) ∧
    (markerTail x stop ind q1).containerKind = BK.listItem ∧
    1 ≤ (markerTail x stop ind q1).state ∧ (markerTail x stop ind q1).state ≤ 2 := by
  unfold markerTail
  simp only []
  have hkk : q1.containerKind = BK.listItem := by unfold LP.containerKind; rw [hc]; exact hk
  have hcc : canContain q1.containerKind BK.listMarker = true := by rw [hkk]; decide
  obtain ⟨a1, a2, a3, a4, a5, a6⟩ := marker_atomic_eq x q1 stop h.inv hc hcc hst.2 hb
  -- the invariant of `BlocksOps` along the three steps
  have ob2 := openBlock_inv x q1 BK.listMarker id id_kind h.inv hst.2 (Or.inr hcc)
  have i2 := ob2.inv h.inv
  have s2 := ob2.st hst.2
  have ad := advance_post (q1.openBlock x BK.listMarker) stop i2.cur (by rw [cur_i ob2.cur, cur_line ob2.cur]; exact hb)
  have i3 := ad.inv i2
  have s3 := ad.st s2.2.1
  have eb := endBlock_inv x ((q1.openBlock x BK.listMarker).advance stop) i3 s3.2
  have i4 := eb.inv i3
  have s4 := eb.st s3.2
  generalize ((q1.openBlock x BK.listMarker).advance stop).endBlock x = q4 at a1 a2 a3 a4 a5 a6 i4 s4
  have hcur : curPos q1 = ((q1.lineStart + q1.i : Nat) : Int) := curPos_cast q1
  have hc4 : curPos q4 = curPos q1 + stop := by unfold curPos; rw [a4, a6]; omega
  have hsl := h.src.len
  have hsd := src_drop_cur h.src
  have h0e : (0 : Int) ≤ e := by have := h.le; omega
  -- the tree: the closed marker appended to the list item
  have hsh4 : Sh setx q4.source 0 (curPos q4) q4.root := by
    rw [a1, a3, hc4]
    apply spineModify_Sh (by omega) _ h.co q1.depth q1.root 0 (Int.le_refl _) h0e h.sh (BG.container_eq q1 h.inv.tree.valid)
    intro lo' hlo' hle' hs
    apply appendChild_Sh (by omega) hle' (by rw [hc]; show paraLike lab.kind = false; rw [hk]; rfl) h.co
      (by rw [hc]; intro b hb; cases hb) hs
    intro lo'' h1' h2'
    rw [Sh_mk]
    refine ⟨?_, ShL_nil _ _ _ _ _⟩
    rw [hcur]
    exact nodeOK_marker (by rw [← hcur]; omega) (by omega) (by rw [hsd]; exact hm)
  have hcont4 : q4.container = .mk lab [.mk { kind := BK.listMarker, start := curPos q1, stop := curPos q1 + stop } [] []] [] := by
    unfold LP.container
    rw [a1, a2, spineGet_modify_self, BG.container_eq q1 h.inv.tree.valid, hc]
    rfl
  have hlab4 : q4.container.label = lab := by rw [hcont4]; rfl
  have v4 : V setx (curPos q4) q4 := ⟨i4, h.src.of_eq a3 a4 a5, by rw [a4, hc4]; have := h.le; omega, hsh4,
    by rw [hlab4]; have := h.co; rw [hc] at this; exact this⟩
  have b4 : ChB setx q4 := by
    intro c hc' ho
    rw [hcont4] at hc'
    simp only [PB.blocks, List.getLast?_singleton, Option.some.injEq] at hc'
    subst hc'
    exfalso
    have : curPos q1 + stop < 0 := ho
    have := curPos_nonneg q1
    omega
  have k4 : q4.containerKind = BK.listItem := by unfold LP.containerKind; rw [hcont4]; exact hk
  -- the endings
  have fin : ∀ (q5 : LP) (n : Int), V setx (curPos q5) q5 → ChB setx q5 → q5.containerKind = BK.listItem → 1 ≤ q5.state →
      q5.state ≤ 2 → V setx (curPos (q5.setContainerIndent n)) (q5.setContainerIndent n) ∧ ChB setx (q5.setContainerIndent n) ∧
        (q5.setContainerIndent n).containerKind = BK.listItem ∧ 1 ≤ (q5.setContainerIndent n).state ∧
        (q5.setContainerIndent n).state ≤ 2 := by
    intro q5 n v5 b5 k5 s5a s5b
    have sc := setContainerIndent_post q5 n v5.inv.tree s5a s5b (Or.inl k5)
    obtain ⟨v6, b6, l6⟩ := setContainerIndent_V (setx := setx) q5 n v5 (sc.inv v5.inv) sc.cur
    obtain ⟨f, hfk, scC⟩ := setContainerIndent_container q5 n v5.inv.tree
    have hc6 : curPos (q5.setContainerIndent n) = curPos q5 := curPos_of_cur sc.cur l6
    refine ⟨by rw [hc6]; exact v6, b6 b5, ?_, by rw [sc.state]; exact s5a, by rw [sc.state]; exact s5b⟩
    unfold LP.containerKind
    rw [scC]
    generalize hcq : q5.container = cq
    have : cq.kind = BK.listItem := by rw [← hcq]; exact k5
    obtain ⟨lq, bq, iq⟩ := cq
    show (f lq).kind = _
    rw [hfk]; exact this
  split
  · obtain ⟨v5, b5, k5, s5a, s5b⟩ := fin q4 (↑ind + ↑stop + 1) v4 b4 k4 s4.2.2 s4.2.1
    generalize q4.setContainerIndent (↑ind + ↑stop + 1) = q5 at v5 b5 k5 s5a s5b
    have cl := consumeLine_post q5 v5.inv.cur
    generalize q5.consumeLine = q6 at cl
    have s6 := cl.st s5b
    have hc6 : curPos q5 ≤ curPos q6 := by
      have := cl.ile v5.inv.cur
      unfold curPos; rw [tree_lineStart cl.tree]; omega
    exact ⟨(v5.of_cursor (cl.inv v5.inv) cl.tree cl.line).mono hc6, chB_cl cl b5, by rw [cl.ckind]; exact k5, by omega, by omega⟩
  · split
    · exact fin q4 _ v4 b4 k4 s4.2.2 s4.2.1
    · split
      · have c5 := consumeIndentN_post q4 1 v4.inv.cur (by omega)
        generalize q4.consumeIndentN 1 = q5 at c5
        have s5 := c5.st s4.2.1
        exact fin q5 _ ((v4.of_cursor (c5.inv v4.inv) c5.tree c5.line).mono (curPos_ci c5)) (chB_ci c5 b4)
          (by rw [c5.ckind, k4]) (by omega) s5.2
      · have c5 := consumeIndentN_post q4 q4.indent v4.inv.cur (Nat.le_refl _)
        generalize q4.consumeIndentN q4.indent = q5 at c5
        have s5 := c5.st s4.2.1
        exact fin q5 _ ((v4.of_cursor (c5.inv v4.inv) c5.tree c5.line).mono (curPos_ci c5)) (chB_ci c5 b4)
          (by rw [c5.ckind, k4]) (by omega) s5.2

/-- The rule at a new list or list item (kinds without a rule). -/
theorem nodeOK_new_list {setx : Bool} {src : Bytes} {lo e : Int} {k : Nat} {d : UInt8} (hk : k = BK.list ∨ k = BK.listItem)
    (h1 : lo ≤ e) (h0 : -1 ≤ e) :
    nodeOK setx src lo e ((fun l : PLabel => { l with char := d }) { kind := k, start := e }) true [] = true := by
  apply nodeOK_new_free _ rfl h1 (Int.le_refl _) h0
  rcases hk with rfl | rfl <;> rfl

theorem startListItem_LI {setx am : Bool} (x : PExt) (p : LP) (h : SPre setx am p) (hs : p.state = 0) :
    LI setx am (startListItem x p) := by
  have hG := startListItem_G x p h.w.gi hs
  unfold startListItem at hG ⊢
  simp only [] at hG ⊢
  split
  · exact h.li
  split
  · exact h.li
  rename_i _ hc1
  split
  · exact h.li
  rename_i hx1 hx3
  rw [if_neg hx1, if_neg hc1, if_neg hx3] at hG
  have hb := parseListMarker_toNat_le p.bytesAfterIndent
  have hpos := parseListMarker_pos p.bytesAfterIndent
  have htext := parseListMarker_text p.bytesAfterIndent
  generalize parseListMarker p.bytesAfterIndent = m at hb hpos hc1 htext hG ⊢
  have hm : 1 ≤ m.stop := by
    rcases hpos with h' | h'
    · rw [h'] at hc1; simp at hc1
    · exact h'
  have htext := (htext (by omega)).1
  obtain ⟨ci, hdrop, hil⟩ := consumeAll p h.w.inv
  generalize p.consumeIndentN p.indent = p1 at ci hdrop hil hG ⊢
  have w1 := h.w.ci ci
  have s1 := ci.st (by omega)
  have hc1' := curPos_ci ci
  have hbound : p1.i + m.stop.toNat ≤ p1.line.length := by rw [ci.line]; omega
  have hmt : markerText ((p1.line.drop p1.i).take m.stop.toNat) = true := by rw [hdrop]; exact htext
  have b1 := chB_ci (setx := setx) ci h.chB
  have c1 := chC_ci (setx := setx) ci h.chC
  -- from the list item on
  have key : ∀ (q1 : LP) (lab : PLabel) (e : Int), V setx e q1 → q1.container = .mk lab [] [] → lab.kind = BK.listItem →
      1 ≤ q1.state ∧ q1.state ≤ 2 → cur q1 = cur p1 → q1.lineStart = p1.lineStart → e ≤ curPos q1 →
      PBGrammar (markerTail x m.stop.toNat p.indent q1).root → LI setx am (markerTail x m.stop.toNat p.indent q1) := by
    intro q1 lab e v1 hcq hkq sq cq lq hec hGq
    obtain ⟨v, b, k, sa, sb⟩ := markerTail_V x q1 m.stop.toNat p.indent v1 hcq hkq sq
      (by rw [cur_i cq, cur_line cq]; exact hbound) hec (by rw [cur_i cq, cur_line cq]; exact hmt)
    have hw : W setx (curPos (markerTail x m.stop.toNat p.indent q1)) (markerTail x m.stop.toNat p.indent q1) :=
      ⟨v.inv, hGq, v.src, v.le, v.sh, v.co⟩
    exact li_of_univ hw b (by rw [k]; exact item_univ)
  generalize hcond : (p1.containerKind != BK.list || (if (p1.containerKind != BK.list && p1.containerKind != BK.listItem) = true
      then (0 : UInt8) else p1.container.label.char) != m.delim) = c at hG
  cases c with
  | true =>
    show LI setx am (listItemTail x m.delim m.stop.toNat p.indent (p1.openBlock x BK.list (fun l => { l with char := m.delim })))
    have hG' : PBGrammar (listItemTail x m.delim m.stop.toNat p.indent (p1.openBlock x BK.list (fun l => { l with char := m.delim }))).root := hG
    rw [listItemTail_marker] at hG' ⊢
    -- the new list
    have obS := openBlock_Sh (setx := setx) (e' := curPos p1) x p1 BK.list (fun l => { l with char := m.delim })
      (w1.oi b1 c1) s1.2 (Or.inl (by decide)) hc1' (by
        intro lo h0 hlo
        exact nodeOK_new_list (Or.inl rfl) (by omega) (by have := curPos_nonneg p1; omega))
    have ob := openBlock_inv x p1 BK.list (fun l => { l with char := m.delim }) (fun _ => rfl) w1.inv s1.2 (Or.inl (by decide))
    generalize p1.openBlock x BK.list (fun l => { l with char := m.delim }) = q0 at obS ob hG' ⊢
    obtain ⟨sh0, r0⟩ := obS
    have v0 : V setx (curPos p1) q0 :=
      ⟨ob.inv w1.inv, w1.src.of_eq r0.source r0.lineStart (cur_line ob.cur), by rw [r0.lineStart]; exact (W.mono w1 hc1').le,
       by rw [r0.source]; exact sh0, by rw [r0.container]; show (-1 : Int) < 0; decide⟩
    have hc0 : curPos q0 = curPos p1 := curPos_of_cur ob.cur r0.lineStart
    have s0 := ob.st s1.2
    have hcc0 : canContain q0.containerKind BK.listItem = true := by rw [ob.ckind]; decide
    -- the new list item
    obtain ⟨v1', r1, ob1⟩ := openBlock_fresh_V (setx := setx) (e' := curPos p1) x q0 BK.listItem (fun l => { l with char := m.delim })
      v0 r0.container hcc0 s0.2.1 (fun _ => rfl) (fun _ => rfl) (Int.le_refl _) (by
        intro lo h0 hlo
        rw [hc0]
        exact nodeOK_new_list (Or.inr rfl) hlo (by have := curPos_nonneg p1; omega))
    generalize q0.openBlock x BK.listItem (fun l => { l with char := m.delim }) = q1 at v1' r1 ob1 hG' ⊢
    have s1q := ob1.st s0.2.1
    exact key q1 _ _ v1' r1.container rfl ⟨s1q.2.2, s1q.2.1⟩ (by rw [ob1.cur, ob.cur]) (by rw [r1.lineStart, r0.lineStart])
      (by rw [curPos_of_cur ob1.cur r1.lineStart, hc0]; exact Int.le_refl _) hG'
  | false =>
    show LI setx am (listItemTail x m.delim m.stop.toNat p.indent p1)
    have hG' : PBGrammar (listItemTail x m.delim m.stop.toNat p.indent p1).root := hG
    rw [listItemTail_marker] at hG' ⊢
    simp only [Bool.or_eq_false_iff] at hcond
    have hk : p1.containerKind = BK.list := by simpa using hcond.1
    have cc1 : canContain p1.containerKind BK.listItem = true := by rw [hk]; decide
    have obS := openBlock_Sh (setx := setx) (e' := curPos p1) x p1 BK.listItem (fun l => { l with char := m.delim })
      (w1.oi b1 c1) s1.2 (Or.inr cc1) hc1' (by
        intro lo h0 hlo
        exact nodeOK_new_list (Or.inr rfl) (by omega) (by have := curPos_nonneg p1; omega))
    have ob := openBlock_inv x p1 BK.listItem (fun l => { l with char := m.delim }) (fun _ => rfl) w1.inv s1.2 (Or.inr cc1)
    generalize p1.openBlock x BK.listItem (fun l => { l with char := m.delim }) = q1 at obS ob hG' ⊢
    obtain ⟨sh1, r1⟩ := obS
    have v1' : V setx (curPos p1) q1 :=
      ⟨ob.inv w1.inv, w1.src.of_eq r1.source r1.lineStart (cur_line ob.cur), by rw [r1.lineStart]; exact (W.mono w1 hc1').le,
       by rw [r1.source]; exact sh1, by rw [r1.container]; show (-1 : Int) < 0; decide⟩
    have s1q := ob.st s1.2
    exact key q1 _ _ v1' r1.container rfl ⟨s1q.2.2, s1q.2.1⟩ ob.cur r1.lineStart
      (by rw [curPos_of_cur ob.cur r1.lineStart]; exact Int.le_refl _) hG'

end CM.Proofs.Shp
