import CM.Proofs.EolRd8
/-
C14 (a), the paragraph hook under the position map — part 9: `parseLinkDestination` and `parseLinkTitle`.
-/
namespace CM.Proofs.ERd
open CM CM.Model CM.Gen CM.Proofs CM.Proofs.RDS CM.Proofs.BSp

def mapDest (e X : Bytes) (d : LinkDest) : LinkDest := ⟨mapSpanI e X d.span, mapSpanI e X d.text⟩
def mapTitle (e X : Bytes) (d : LinkTitle) : LinkTitle := ⟨mapSpanI e X d.span, mapSpanI e X d.text⟩

theorem mapDest_no (e X : Bytes) : mapDest e X noDest = noDest := by
  unfold mapDest noDest; rw [mapSpanI_null]
theorem mapTitle_no (e X : Bytes) : mapTitle e X noTitle = noTitle := by
  unfold mapTitle noTitle; rw [mapSpanI_null]

section
variable {e X : Bytes} {k : Nat} {is : List Tree} {r : Rd}

/-- After a successful `next` the reader is live. -/
theorem next_live_after {src : Bytes} (hc : Ctx src is) (h : RI src is r) (hok : (r.next src).1 = true) :
    (r.next src).2.spans ≠ [] := by
  intro hs
  cases hsp : r.spans with
  | nil => rw [next_dead hc h hsp] at hok; cases hok
  | cons t rest =>
    rw [next_live hc h hsp] at hok hs
    by_cases c1 : (isIndent t && decide ((r.vpos : Int) < t.label.indent)) = true
    · rw [if_pos c1] at hs
      have : r.spans = [] := hs
      rw [hsp] at this; cases this
    · rw [if_neg c1] at hs hok
      by_cases c2 : (!isIndent t && decide (((r.pos + 1 : Nat) : Int) < t.label.stop)) = true
      · rw [if_pos c2] at hs
        have : r.spans = [] := hs
        rw [hsp] at this; cases this
      · rw [if_neg c2] at hs hok
        cases hnt : nextTextNode rest with
        | none => rw [hnt] at hok; cases hok
        | some pr =>
          obtain ⟨t', sp⟩ := pr
          obtain ⟨_, rest', _, h2⟩ := nextTextNode_spec' hnt
          rw [hnt] at hs
          have : sp = [] := hs
          rw [h2] at this; cases this

/-- The values `(prev + 1, prev)` after the `next` that consumes a closing byte `c` (not a blank, not a line ending). -/
theorem close_vals (he : StdEol e) (hc : Ctx (X.take k) is) (h : RI (X.take k) is r) (hlive : r.spans ≠ [])
    (h0 : (r.current (X.take k)).1 ≠ 0) (hlf : (r.current (X.take k)).1 ≠ LF) (hsp : (r.current (X.take k)).1 ≠ SP) :
    (mapRd e X (r.next (X.take k)).2).prev + 1 = eolPosZ e X ((r.next (X.take k)).2.prev + 1) ∧
    (mapRd e X (r.next (X.take k)).2).prev = eolPosZ e X (r.next (X.take k)).2.prev := by
  have hp := (next_spec hc h).2.2.1 hlive
  have hps := pos_succ (e := e) he hc h h0 hlf hsp
  show mapPrev e X (r.next (X.take k)).2.prev + 1 = _ ∧ mapPrev e X (r.next (X.take k)).2.prev = _
  rw [hp, mapPrev_nat]
  have e1 : ((r.pos : Int) + 1) = ((r.pos + 1 : Nat) : Int) := by omega
  rw [e1, eolPosZ_ofNat] at hps
  rw [e1, eolPosZ_ofNat, eolPosZ_ofNat]
  omega

/-! ### `destAngle` -/

theorem destAngle_sim (he : StdEol e) (hcr : NoCR X) (hc : Ctx (X.take k) is) (htab : TabsOK (X.take k) is)
    (start : Nat) (hst : ((eolPos e X start : Nat) : Int) + 1 = eolPosZ e X ((start : Int) + 1)) :
    ∀ (f f' : Nat) (r : Rd), RJ (X.take k) is r → (r.current (X.take k)).1 ≠ LF → mu (X.take k) r < f →
      mu (toEol e (X.take k)) (mapRd e X r) < f' →
      destAngle (toEol e (X.take k)) (eolPos e X start) f' (mapRd e X r) =
        (mapDest e X (destAngle (X.take k) start f r).1, mapRd e X (destAngle (X.take k) start f r).2) ∧
      RJ (X.take k) is (destAngle (X.take k) start f r).2 := by
  intro f
  induction f with
  | zero => intro f' r _ _ hm; omega
  | succ f ih =>
    intro f' r h hne hm hm'
    obtain ⟨g, rfl⟩ : ∃ g, f' = g + 1 := ⟨f' - 1, by omega⟩
    obtain ⟨j1, m1, st⟩ := step_full he hcr hc htab h
    have hlv1 := next_live_after hc h.1
    rcases hn : r.next (X.take k) with ⟨ok, r1⟩
    rw [hn] at j1 m1 st hlv1
    simp only [] at j1 m1 st hlv1
    rw [destAngle, destAngle, hn]
    simp only []
    obtain ⟨s, ms⟩ : Rd.next (toEol e (X.take k)) (mapRd e X r) = (ok, mapRd e X r1) ∧
        (ok = true → mu (toEol e (X.take k)) (mapRd e X r1) < mu (toEol e (X.take k)) (mapRd e X r)) := by
      rcases st with x | ⟨s1, _⟩
      · exact x
      · exact absurd s1 hne
    rw [s]
    simp only []
    cases ok with
    | false =>
      simp only [Bool.not_false, if_true]
      exact ⟨by rw [mapDest_no], j1⟩
    | true =>
      simp only [Bool.not_true, Bool.false_eq_true, if_false]
      have hm1 := m1 rfl
      have hms := ms rfl
      have hcur1 := j1.cur hc
      have hcur1' := current_map_eq (e := e) he hcr hc htab j1.1
      rw [hcur1, hcur1']
      simp only []
      generalize hcv : (r1.current (X.take k)).1 = c at hcur1 hcur1'
      have hccr : c ≠ CR := by rw [← hcv]; exact cur_ne_CR hcr hc j1.1
      rw [trB_eol he c, trB_beq he c 0x5C (by decide) (by decide), trB_beq he c 0x3E (by decide) (by decide)]
      by_cases c0 : (c == CR || c == LF) = true
      · rw [if_pos c0, if_pos c0]
        exact ⟨by rw [mapDest_no], j1⟩
      · rw [if_neg c0, if_neg c0]
        have hclf : c ≠ LF := by
          intro hh; subst hh; exact c0 (by decide)
        by_cases c1 : (c == 0x5C) = true
        · rw [if_pos c1, if_pos c1]
          have hstep := step_plain (e := e) he hcr hc htab j1 (by rw [hcv]; exact hclf)
          obtain ⟨j2, m2, _⟩ := step_full (e := e) he hcr hc htab j1
          have hmu2 := (next_spec (ctx_map (e := e) he hcr hc htab) (ri_map (e := e) j1.1)).2.2.2.2.2.1
          rw [hstep] at hmu2 ⊢
          rcases hn2 : r1.next (X.take k) with ⟨ok2, r2⟩
          rw [hn2] at j2 m2 hmu2
          simp only [] at j2 m2 hmu2 ⊢
          cases ok2 with
          | false =>
            simp only [Bool.not_false, if_true]
            exact ⟨by rw [mapDest_no], j2⟩
          | true =>
            simp only [Bool.not_true, Bool.false_eq_true, if_false]
            have hcur2 := j2.cur hc
            have hcur2' := current_map_eq (e := e) he hcr hc htab j2.1
            rw [hcur2, hcur2']
            simp only []
            have hc2cr : (r2.current (X.take k)).1 ≠ CR := cur_ne_CR hcr hc j2.1
            have hsw : (trB e (r2.current (X.take k)).1 == LF || trB e (r2.current (X.take k)).1 == CR) =
                ((r2.current (X.take k)).1 == LF || (r2.current (X.take k)).1 == CR) := by
              rw [Bool.or_comm, trB_eol he, Bool.or_comm]
            rw [hsw]
            by_cases c2 : ((r2.current (X.take k)).1 == LF || (r2.current (X.take k)).1 == CR) = true
            · rw [if_pos c2, if_pos c2]
              exact ⟨by rw [mapDest_no], j2⟩
            · rw [if_neg c2, if_neg c2]
              have h2lf : (r2.current (X.take k)).1 ≠ LF := by
                intro hh; rw [hh] at c2; exact c2 (by decide)
              have := m2 rfl
              have := hmu2 rfl
              exact ih g r2 j2 h2lf (by omega) (by omega)
        · rw [if_neg c1, if_neg c1]
          by_cases c2 : (c == 0x3E) = true
          · rw [if_pos c2, if_pos c2]
            have hc3e : c = 0x3E := by simpa using c2
            have hstep := step_plain (e := e) he hcr hc htab j1 (by rw [hcv]; exact hclf)
            rw [hstep]
            obtain ⟨v1, v2⟩ := close_vals (e := e) he hc j1.1 (hlv1 rfl) (by rw [hcv, hc3e]; decide) (by rw [hcv, hc3e]; decide)
              (by rw [hcv, hc3e]; decide)
            refine ⟨Prod.ext ?_ rfl, j1.next hc⟩
            show (⟨⟨((eolPos e X start : Nat) : Int), (mapRd e X (r1.next (X.take k)).2).prev + 1⟩,
              ⟨((eolPos e X start : Nat) : Int) + 1, (mapRd e X (r1.next (X.take k)).2).prev⟩⟩ : LinkDest) =
              mapDest e X ⟨⟨(start : Int), (r1.next (X.take k)).2.prev + 1⟩, ⟨(start : Int) + 1, (r1.next (X.take k)).2.prev⟩⟩
            unfold mapDest mapSpanI
            simp only []
            rw [v1, v2, hst, eolPosZ_ofNat]
          · rw [if_neg c2, if_neg c2]
            exact ih g r1 j1 (by rw [hcv]; exact hclf) (by omega) (by omega)

/-- One direct step (the byte is not a line feed), with everything the loops need. -/
theorem plain_pack (he : StdEol e) (hcr : NoCR X) (hc : Ctx (X.take k) is) (htab : TabsOK (X.take k) is)
    (h : RJ (X.take k) is r) (hne : (r.current (X.take k)).1 ≠ LF) :
    Rd.next (toEol e (X.take k)) (mapRd e X r) = ((r.next (X.take k)).1, mapRd e X (r.next (X.take k)).2) ∧
    RJ (X.take k) is (r.next (X.take k)).2 ∧
    ((r.next (X.take k)).1 = true → mu (X.take k) (r.next (X.take k)).2 < mu (X.take k) r ∧
      mu (toEol e (X.take k)) (mapRd e X (r.next (X.take k)).2) < mu (toEol e (X.take k)) (mapRd e X r)) := by
  obtain ⟨j1, m1, st⟩ := step_full he hcr hc htab h
  rcases st with ⟨s, ms⟩ | ⟨s1, _⟩
  · exact ⟨s, j1, fun hok => ⟨m1 hok, ms hok⟩⟩
  · exact absurd s1 hne

theorem ne_LF_of_not_ctl {c : UInt8} (h : isASCIIControl c = false) : c ≠ LF := by
  intro hc; subst hc; exact absurd h (by decide)

/-! ### `destBare` -/

theorem destBare_sim (he : StdEol e) (hcr : NoCR X) (hc : Ctx (X.take k) is) (htab : TabsOK (X.take k) is) :
    ∀ (f f' : Nat) (r : Rd) (parens : Int), RJ (X.take k) is r → mu (X.take k) r < f →
      mu (toEol e (X.take k)) (mapRd e X r) < f' →
      destBare (toEol e (X.take k)) f' (mapRd e X r) parens = mapRd e X (destBare (X.take k) f r parens) ∧
      RJ (X.take k) is (destBare (X.take k) f r parens) := by
  intro f
  induction f with
  | zero => intro f' r _ _ hm; omega
  | succ f ih =>
    intro f' r parens h hm hm'
    obtain ⟨g, rfl⟩ : ∃ g, f' = g + 1 := ⟨f' - 1, by omega⟩
    have hcur := h.cur hc
    have hcur' := current_map_eq (e := e) he hcr hc htab h.1
    rw [destBare, destBare, hcur, hcur']
    simp only []
    generalize hcv : (r.current (X.take k)).1 = c at hcur hcur'
    rw [trB_ctl he, trB_beq he c SP (by decide) (by decide), trB_beq he c 0x5C (by decide) (by decide),
      trB_beq he c 0x28 (by decide) (by decide), trB_beq he c 0x29 (by decide) (by decide)]
    by_cases c0 : (isASCIIControl c || c == SP) = true
    · rw [if_pos c0, if_pos c0]; exact ⟨rfl, h⟩
    · rw [if_neg c0, if_neg c0]
      have hnctl : isASCIIControl c = false := by
        cases hh : isASCIIControl c with
        | false => rfl
        | true => rw [hh] at c0; exact absurd rfl c0
      obtain ⟨p1, p2, p3⟩ := plain_pack (e := e) he hcr hc htab h (by rw [hcv]; exact ne_LF_of_not_ctl hnctl)
      rcases hn : r.next (X.take k) with ⟨ok, r1⟩
      rw [hn] at p1 p2 p3
      simp only [] at p1 p2 p3
      -- the common ending: after the step to `r1`
      have cont : ∀ pz : Int, (if (!ok) = true then mapRd e X r1 else destBare (toEol e (X.take k)) g (mapRd e X r1) pz) =
          mapRd e X (if (!ok) = true then r1 else destBare (X.take k) f r1 pz) ∧
          RJ (X.take k) is (if (!ok) = true then r1 else destBare (X.take k) f r1 pz) := by
        intro pz
        cases ok with
        | false => exact ⟨rfl, p2⟩
        | true =>
          simp only [Bool.not_true, Bool.false_eq_true, if_false]
          obtain ⟨q1, q2⟩ := p3 rfl
          exact ih g r1 pz p2 (by omega) (by omega)
      by_cases c1 : (c == 0x5C) = true
      · rw [if_pos c1, if_pos c1, p1]
        simp only []
        cases ok with
        | false => exact ⟨rfl, p2⟩
        | true =>
          simp only [Bool.not_true, Bool.false_eq_true, if_false]
          obtain ⟨q1, q2⟩ := p3 rfl
          have hcur1 := p2.cur hc
          have hcur1' := current_map_eq (e := e) he hcr hc htab p2.1
          rw [hcur1, hcur1']
          simp only []
          rw [trB_ctl he, trB_beq he _ SP (by decide) (by decide)]
          by_cases c2 : (isASCIIControl (r1.current (X.take k)).1 || (r1.current (X.take k)).1 == SP) = true
          · rw [if_pos c2, if_pos c2]; exact ⟨rfl, p2⟩
          · rw [if_neg c2, if_neg c2]
            have hnctl2 : isASCIIControl (r1.current (X.take k)).1 = false := by
              cases hh : isASCIIControl (r1.current (X.take k)).1 with
              | false => rfl
              | true => rw [hh] at c2; exact absurd rfl c2
            obtain ⟨u1, u2, u3⟩ := plain_pack (e := e) he hcr hc htab p2 (ne_LF_of_not_ctl hnctl2)
            rw [u1]
            rcases hn2 : r1.next (X.take k) with ⟨ok2, r2⟩
            rw [hn2] at u2 u3
            simp only [] at u2 u3 ⊢
            cases ok2 with
            | false => exact ⟨rfl, u2⟩
            | true =>
              simp only [Bool.not_true, Bool.false_eq_true, if_false]
              obtain ⟨w1, w2⟩ := u3 rfl
              exact ih g r2 parens u2 (by omega) (by omega)
      · rw [if_neg c1, if_neg c1]
        by_cases c2 : (c == 0x28) = true
        · rw [if_pos c2, if_pos c2, p1]
          exact cont (parens + 1)
        · rw [if_neg c2, if_neg c2]
          by_cases c3 : (c == 0x29) = true
          · rw [if_pos c3, if_pos c3]
            by_cases c4 : parens - 1 < 0
            · rw [if_pos c4, if_pos c4]; exact ⟨rfl, h⟩
            · rw [if_neg c4, if_neg c4, p1]
              exact cont (parens - 1)
          · rw [if_neg c3, if_neg c3, p1]
            exact cont parens

/-! ### `parseLinkDestination` -/

theorem parseLinkDestination_sim (he : StdEol e) (hcr : NoCR X) (hc : Ctx (X.take k) is) (htab : TabsOK (X.take k) is)
    (f f' : Nat) (r : Rd) (h : RJ (X.take k) is r) (hm : mu (X.take k) r < f)
    (hm' : mu (toEol e (X.take k)) (mapRd e X r) < f') :
    parseLinkDestination (toEol e (X.take k)) f' (mapRd e X r) =
      (mapDest e X (parseLinkDestination (X.take k) f r).1, mapRd e X (parseLinkDestination (X.take k) f r).2) ∧
    RJ (X.take k) is (parseLinkDestination (X.take k) f r).2 := by
  have hcur := h.cur hc
  have hcur' := current_map_eq (e := e) he hcr hc htab h.1
  unfold parseLinkDestination
  rw [hcur, hcur']
  simp only []
  generalize hcv : (r.current (X.take k)).1 = c at hcur hcur'
  rw [trB_beq he c 0x3C (by decide) (by decide), trB_ctl he, trB_bne he c SP (by decide) (by decide),
    trB_bne he c 0x29 (by decide) (by decide)]
  by_cases c0 : (c == 0x3C) = true
  · rw [if_pos c0, if_pos c0]
    have hc3c : c = 0x3C := by simpa using c0
    have hst := pos_succ (e := e) he hc h.1 (by rw [hcv, hc3c]; decide) (by rw [hcv, hc3c]; decide) (by rw [hcv, hc3c]; decide)
    exact destAngle_sim he hcr hc htab r.pos hst f f' r h (by rw [hcv, hc3c]; decide) hm hm'
  · rw [if_neg c0, if_neg c0]
    by_cases c1 : (!isASCIIControl c && c != SP && c != 0x29) = true
    · rw [if_pos c1, if_pos c1]
      obtain ⟨d1, d2⟩ := destBare_sim he hcr hc htab f f' r 0 h hm hm'
      rw [d1]
      refine ⟨Prod.ext ?_ rfl, d2⟩
      show (⟨⟨((eolPos e X r.pos : Nat) : Int), ((eolPos e X (destBare (X.take k) f r 0).pos : Nat) : Int)⟩,
        ⟨((eolPos e X r.pos : Nat) : Int), ((eolPos e X (destBare (X.take k) f r 0).pos : Nat) : Int)⟩⟩ : LinkDest) = _
      unfold mapDest mapSpanI
      simp only [eolPosZ_ofNat]
    · rw [if_neg c1, if_neg c1]
      exact ⟨by rw [mapDest_no], h⟩

end

end CM.Proofs.ERd
