import CM.Proofs.RenderTotal
/-
The panic-aware renderer and the total model on EVERY tree (no precondition): whenever `appendBlockP` does
not panic it returns exactly what `appendBlock` returns. Together with `render_total` this is the whole
relation between the two: inside `renderSafe` they are equal, outside the panic-aware one either panics or is
still equal — the total model is the panic-aware one with the panics replaced by clamped slices.
-/
namespace CM.Proofs.RenderTotal
open CM CM.Model CM.Model.RenderP CM.Spec CM.Gen Node

/-- `e` is either a panic or the value `a`. -/
def Agrees {α : Type} (e : Except String α) (a : α) : Prop := ∀ r, e = .ok r → r = a

theorem Agrees.ok {α : Type} (a : α) : Agrees (.ok a : Except String α) a := by
  intro r h; cases h; rfl

theorem Agrees.error {α : Type} (m : String) (a : α) : Agrees (.error m : Except String α) a := by
  intro r h; cases h

theorem Agrees.map {α β : Type} {e : Except String α} {a : α} (h : Agrees e a) (f : α → β) : Agrees (e.map f) (f a) := by
  intro r hr
  cases e with
  | error m => cases hr
  | ok v => cases hr; rw [h v rfl]

theorem Agrees.bind {α β : Type} {e : Except String α} {a : α} {k : α → Except String β} {b : β}
    (h : Agrees e a) (hk : Agrees (k a) b) : Agrees (e.bind k) b := by
  intro r hr
  cases e with
  | error m => cases hr
  | ok v => rw [h v rfl] at hr; exact hk r hr

theorem Agrees.ite {α : Type} {c : Prop} [Decidable c] {e1 e2 : Except String α} {a1 a2 : α}
    (h1 : Agrees e1 a1) (h2 : Agrees e2 a2) : Agrees (if c then e1 else e2) (if c then a1 else a2) := by
  split
  · exact h1
  · exact h2

theorem Agrees.of_eq {α : Type} {e : Except String α} {a : α} (h : e = .ok a) : Agrees e a := by
  rw [h]; exact Agrees.ok a

theorem agrees_sliceP (src : Bytes) (t : Tree) : Agrees (sliceP src t) (slice src t) := by
  unfold sliceP
  split
  · exact Agrees.ok _
  · exact Agrees.error _ _

theorem agrees_mapM {α β : Type} (f : α → Except String β) (g : α → β) (l : List α) (h : ∀ a ∈ l, Agrees (f a) (g a)) :
    Agrees (l.mapM f) (l.map g) := by
  induction l with
  | nil => exact Agrees.ok _
  | cons a as ih =>
    have h1 := h a List.mem_cons_self
    have h2 := ih (fun b hb => h b (List.mem_cons_of_mem _ hb))
    simp only [List.mapM_cons, List.map_cons]
    intro r hr
    cases hfa : f a with
    | error m => rw [hfa] at hr; cases hr
    | ok v =>
      rw [hfa] at hr
      cases hrest : List.mapM f as with
      | error m => rw [hrest] at hr; cases hr
      | ok vs =>
        rw [hrest] at hr
        cases hr
        rw [h1 v hfa, h2 vs hrest]

/-- Closes goals `Agrees eP e` built from `.ok`, `sliceP`, `Except.map` and `if`. -/
macro "rt_agree" : tactic =>
  `(tactic| repeat' first
      | exact Agrees.ok _
      | exact Agrees.error _ _
      | exact agrees_sliceP _ _
      | assumption
      | apply Agrees.map
      | apply Agrees.ite)

theorem agrees_textP (ext : Ext) (src : Bytes) (t : Tree) : Agrees (textP ext src t) (text ext src t) := by
  have hkids : Agrees (t.children.mapM fun c =>
      if isI c IK.text then sliceP src c
      else if isI c IK.charRef then (sliceP src c).map ext.unescape
      else (.ok [] : Except String Bytes))
      (t.children.map fun c =>
        if isI c IK.text then slice src c
        else if isI c IK.charRef then ext.unescape (slice src c)
        else []) := by
    apply agrees_mapM
    intro c _
    rt_agree
  unfold textP text
  simp only [List.flatMap]
  repeat' split
  all_goals first
    | exact hkids.map List.flatten
    | rt_agree

theorem agrees_listItemNumberP (src : Bytes) (t : Option Tree) :
    Agrees (listItemNumberP src t) (listItemNumber src t) := by
  cases t with
  | none => exact Agrees.ok _
  | some u =>
    unfold listItemNumberP listItemNumber
    simp only
    split
    · exact Agrees.ok _
    · cases hm : u.children.head? with
      | none => exact Agrees.ok _
      | some m =>
        simp only
        split
        · exact Agrees.ok _
        · exact (agrees_sliceP src m).map _

mutual
theorem agrees_altPiecesP (cx : RCtx) (t : Tree) : Agrees (altPiecesP cx t) (altPieces cx t) := by
  match t with
  | .node l cs =>
    have hk := agrees_altPiecesLP cx cs
    have ht := agrees_textP cx.ext cx.src (.node l cs)
    simp only [altPiecesP, altPieces]
    repeat' split
    all_goals first
      | exact hk
      | exact ht.map _
      | exact Agrees.ok _
theorem agrees_altPiecesLP (cx : RCtx) (cs : List Tree) : Agrees (altPiecesLP cx cs) (altPiecesL cx cs) := by
  match cs with
  | [] => exact Agrees.ok _
  | c :: cs =>
    simp only [altPiecesLP, altPiecesL]
    exact Agrees.bind (agrees_altPiecesP cx c) ((agrees_altPiecesLP cx cs).map _)
end

theorem agrees_altTextP (cx : RCtx) (t : Tree) : Agrees (altTextP cx t) (altText cx t) :=
  (agrees_altPiecesP cx t).map _

theorem agrees_linkDefP (cx : RCtx) (t : Tree) : Agrees (linkDefP cx t) (linkDef cx t) := by
  unfold linkDefP linkDef
  simp only
  split
  · exact Agrees.ok _
  · cases hld : linkDestination t with
    | none =>
      cases hlt : linkTitle t with
      | none => exact Agrees.ok _
      | some tt => exact Agrees.bind (Agrees.ok _) ((agrees_textP cx.ext cx.src tt).map _)
    | some d =>
      cases hlt : linkTitle t with
      | none => exact Agrees.bind (agrees_textP cx.ext cx.src d) ((Agrees.ok _).map _)
      | some tt => exact Agrees.bind (agrees_textP cx.ext cx.src d) ((agrees_textP cx.ext cx.src tt).map _)

theorem agrees_preBlockP (cx : RCtx) (cur : Cursor) : Agrees (preBlockP cx cur) (preBlock cx cur) := by
  have hnum := agrees_listItemNumberP cx.src (cur.node.children.head?.filter (·.label.isBlock))
  unfold preBlockP preBlock
  simp only
  cases hi : infoString cur.node with
  | none =>
    simp only
    rt_agree
  | some info =>
    have ht := agrees_textP cx.ext cx.src info
    simp only
    rt_agree

theorem agrees_preInlineP (cx : RCtx) (t : Tree) : Agrees (preInlineP cx t) (preInline cx t) := by
  have hs := agrees_sliceP cx.src t
  have hl := agrees_linkDefP cx t
  have ha := agrees_altTextP cx t
  have himg : Agrees ((linkDefP cx t).bind fun d => (altTextP cx t).map fun alt =>
      (openTagAttr cx (str "img") ++ linkAttrs d "src" ++ alt ++ [0x3E], false))
      (openTagAttr cx (str "img") ++ linkAttrs (linkDef cx t) "src" ++ altText cx t ++ [0x3E], false) :=
    Agrees.bind hl (ha.map _)
  unfold preInlineP preInline
  simp only
  cases hf : cx.filter <;> cases hh : t.children.head? <;> simp only
  · rt_agree
  · rename_i c
    have hc := agrees_textP cx.ext cx.src c
    rt_agree
  · rt_agree
  · rename_i c
    have hc := agrees_textP cx.ext cx.src c
    rt_agree

/-! ### the walk: an error state is never left; an ok state is the total model's -/

theorem callPre_err (cx : RCtx) (cur : Cursor) (m : String) :
    callPre (renderOptsP cx) cur (.error m) = (false, .error m) := rfl

theorem callPost_err (cx : RCtx) (cur : Cursor) (m : String) :
    callPost (renderOptsP cx) cur (.error m) = (false, .error m) := rfl

mutual
theorem walkNode_err (cx : RCtx) (t : Tree) (p b : Option Tree) (i : Int) (m : String) :
    (walkNode (renderOptsP cx) t p b i (.error m)).2 = .error m := by
  match t with
  | .node l cs => simp only [walkNode, callPre_err]
theorem walkForest_err (cx : RCtx) (parent : Tree) (b : Option Tree) (cs : List Tree) (i : Nat) (m : String) :
    (walkForest (renderOptsP cx) parent b cs i (.error m)).2 = .error m := by
  match cs with
  | [] => rfl
  | c :: cs =>
    simp only [walkForest]
    have h1 := walkNode_err cx c (some parent) b i m
    rcases hw : walkNode (renderOptsP cx) c (some parent) b (↑i) (.error m) with ⟨ok, s1⟩
    rw [hw] at h1
    simp only at h1
    subst h1
    cases ok
    · rfl
    · exact walkForest_err cx parent b cs (i + 1) m
end

/-- The pre callback on an ok state: a panic (and no descent), or the total model's step. -/
theorem callPre_cases (cx : RCtx) (cur : Cursor) (dst : Bytes) :
    (∃ m, callPre (renderOptsP cx) cur (.ok dst) = (false, .error m)) ∨
    callPre (renderOptsP cx) cur (.ok dst) = ((openBytes cx cur).2, .ok (dst ++ (openBytes cx cur).1)) := by
  simp only [callPre, renderOptsP, openBytes]
  by_cases hb : cur.node.label.isBlock = true
  · simp only [hb, if_true]
    have := agrees_preBlockP cx cur
    cases hp : preBlockP cx cur with
    | error m => exact Or.inl ⟨m, rfl⟩
    | ok r => right; rw [this r hp]
  · have hb' : cur.node.label.isBlock = false := by simpa using hb
    simp only [hb', Bool.false_eq_true, if_false]
    have := agrees_preInlineP cx cur.node
    cases hp : preInlineP cx cur.node with
    | error m => exact Or.inl ⟨m, rfl⟩
    | ok r => right; rw [this r hp]

mutual
theorem walkNode_sound (cx : RCtx) (t : Tree) (p b : Option Tree) (i : Int) (dst : Bytes) :
    (∃ m, (walkNode (renderOptsP cx) t p b i (.ok dst)).2 = .error m) ∨
    walkNode (renderOptsP cx) t p b i (.ok dst) = (true, .ok (dst ++ renderNode cx t p b i)) := by
  match t with
  | .node l cs =>
    simp only [walkNode, renderNode]
    rcases callPre_cases cx { node := .node l cs, parent := p, block := b, index := i } dst with ⟨m, hm⟩ | hpre
    · left; exact ⟨m, by rw [hm]⟩
    · rw [hpre]
      cases ho : (openBytes cx { node := .node l cs, parent := p, block := b, index := i }).2 with
      | false => right; simp
      | true =>
        simp only
        rcases walkForest_sound cx (.node l cs)
          (blockFor { node := .node l cs, parent := p, block := b, index := i }) cs 0
          (dst ++ (openBytes cx { node := .node l cs, parent := p, block := b, index := i }).1) with ⟨m, hm⟩ | hf
        · left
          rcases hw : walkForest (renderOptsP cx) (.node l cs)
            (blockFor { node := .node l cs, parent := p, block := b, index := i }) cs 0
            (.ok (dst ++ (openBytes cx { node := .node l cs, parent := p, block := b, index := i }).1)) with ⟨ok, s2⟩
          rw [hw] at hm
          simp only at hm
          subst hm
          cases ok
          · exact ⟨m, rfl⟩
          · exact ⟨m, by simp only [callPost_err]⟩
        · right
          rw [hf]
          simp [callPost_renderP, List.append_assoc]
theorem walkForest_sound (cx : RCtx) (parent : Tree) (b : Option Tree) (cs : List Tree) (i : Nat) (dst : Bytes) :
    (∃ m, (walkForest (renderOptsP cx) parent b cs i (.ok dst)).2 = .error m) ∨
    walkForest (renderOptsP cx) parent b cs i (.ok dst) = (true, .ok (dst ++ renderForest cx parent b cs i)) := by
  match cs with
  | [] => right; simp [walkForest, renderForest]
  | c :: cs =>
    simp only [walkForest, renderForest]
    rcases walkNode_sound cx c (some parent) b i dst with ⟨m, hm⟩ | hn
    · left
      rcases hw : walkNode (renderOptsP cx) c (some parent) b (↑i) (.ok dst) with ⟨ok, s1⟩
      rw [hw] at hm
      simp only at hm
      subst hm
      cases ok
      · exact ⟨m, rfl⟩
      · exact ⟨m, walkForest_err cx parent b cs (i + 1) m⟩
    · rw [hn]
      simp only
      rcases walkForest_sound cx parent b cs (i + 1) (dst ++ renderNode cx c (some parent) b i) with ⟨m, hm⟩ | hf
      · left; exact ⟨m, hm⟩
      · right; rw [hf]; simp [List.append_assoc]
end

/-- On every tree: the panic-aware renderer panics, or returns what the total model returns. -/
theorem render_panic_or_eq (cx : RCtx) (root : Tree) (dst : Bytes) :
    (∃ m, appendBlockP cx dst root = .error m) ∨ appendBlockP cx dst root = .ok (appendBlock cx dst root) := by
  rw [Props.C10.render_eq_spec]
  simp only [appendBlockP, Props.C18.walk_refines_spec, walkSpec, renderSpec]
  rcases walkNode_sound cx root none none (-1) dst with ⟨m, hm⟩ | h
  · exact Or.inl ⟨m, hm⟩
  · right; rw [h]

/-- If `AppendBlock` returns at all, it returns the total model's bytes (no precondition). -/
theorem render_sound (cx : RCtx) (root : Tree) (dst out : Bytes) (h : appendBlockP cx dst root = .ok out) :
    out = appendBlock cx dst root := by
  rcases render_panic_or_eq cx root dst with ⟨m, hm⟩ | he
  · rw [hm] at h; cases h
  · rw [he] at h; cases h; rfl

end CM.Proofs.RenderTotal
