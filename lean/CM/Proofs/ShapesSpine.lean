import CM.Proofs.ShapesClose
import CM.Proofs.BGOps
/-
C13, block half — edits along the last-child spine (`spineModify`, `spineReplaceLast`) and the tree operations of the
line parser that close blocks or edit the container (`closeContainer`, `closeLastChild`, `endBlock`, `appendInline`,
`setContainerIndent`, `setBlankFlags`).
-/
namespace CM.Proofs.Shp
open CM CM.Model CM.Gen CM.Proofs.BG CM.Proofs.BT

/-- A block with block children does not use the "no block children" flag. -/
theorem nodeOK_leaf {setx : Bool} {src : Bytes} {lo e : Int} {l : PLabel} {leaf' : Bool} {is : List Tree}
    (h : nodeOK setx src lo e l false is = true) : nodeOK setx src lo e l leaf' is = true := by
  rw [nodeOK_iff, kindOK_iff, textOK_iff] at h ⊢
  refine ⟨h.1, h.2.1, h.2.2.1, h.2.2.2.1, ?_, h.2.2.2.2.2⟩
  intro hp ho
  have := (h.2.2.2.2.1 hp ho).1
  cases this

/-! ### the spine above an open block is open -/

theorem spineGet_add : ∀ (j : Nat) (b : PB) (k : Nat), spineGet b (j + k) = (spineGet b j).bind (fun a => spineGet a k) := by
  intro j
  induction j with
  | zero => intro b k; rw [Nat.zero_add, spineGet_zero]; rfl
  | succ j ih =>
    intro b k
    obtain ⟨l, bs, is⟩ := b
    have e1 : j + 1 + k = (j + k) + 1 := by omega
    rw [e1, spineGet_succ, spineGet_succ]
    cases bs.getLast? with
    | none => rfl
    | some c => exact ih c k

theorem Sh_spine_open_at {setx : Bool} {src : Bytes} {lo e : Int} {root : PB} {d : Nat} {c : PB} (h : Sh setx src lo e root)
    (hc : spineGet root d = some c) (ho : c.label.stop < 0) : ∀ j, j ≤ d → ∀ a, spineGet root j = some a → a.label.stop < 0 := by
  intro j hj a ha
  have e1 : d = j + (d - j) := by omega
  rw [e1, spineGet_add, ha] at hc
  simp only [Option.bind_some] at hc
  obtain ⟨lo', _, _, hs⟩ := Sh_spineGet j root lo a h ha
  exact Sh_spine_open (d - j) a lo' e c hs hc ho

/-- `spineModify` at depth `d`, where the block `c0` is open, keeps `Sh` if the edit does (the bound may grow). -/
theorem spineModify_Sh {setx : Bool} {src : Bytes} {e e' : Int} (he : e ≤ e') (f : PB → PB) {c0 : PB} (ho : c0.label.stop < 0) :
    ∀ (d : Nat) (root : PB) (lo : Int), 0 ≤ lo → lo ≤ e → Sh setx src lo e root → spineGet root d = some c0 →
    (∀ lo', lo ≤ lo' → lo' ≤ e → Sh setx src lo' e c0 → Sh setx src lo' e' (f c0)) →
    Sh setx src lo e' (spineModify f root d) := by
  intro d
  induction d with
  | zero =>
    intro root lo _ hle h hc hf
    rw [spineGet_zero] at hc
    cases hc
    rw [spineModify_zero]
    exact hf lo (Int.le_refl _) hle h
  | succ d ih =>
    intro root lo h0 hle h hc0 hf
    have hlo : root.label.stop < 0 := Sh_spine_open (d + 1) root lo e c0 h hc0 ho
    obtain ⟨l, bs, is⟩ := root
    have hlo' : l.stop < 0 := hlo
    rw [spineModify_succ]
    rw [spineGet_succ] at hc0
    cases hgl : bs.getLast? with
    | none => rw [hgl] at hc0; cases hc0
    | some c =>
      rw [hgl] at hc0
      simp only [] at hc0 ⊢
      rw [Sh_mk] at h ⊢
      have hE : endOf e l = e := endOf_open hlo'
      have hE' : endOf e' l = e' := endOf_open hlo'
      have hd : decide (l.stop < 0) = true := by simp [hlo']
      rw [hE, hd] at h
      rw [hE', hd]
      obtain ⟨e1, hinit, hc, _⟩ := ShL_getLast hgl h.2
      have hne : bs.isEmpty = false := by
        cases bs with
        | nil => cases hgl
        | cons a t => rfl
      have hne' : (bs.dropLast ++ [spineModify f c d]).isEmpty = false := by simp
      rw [hne] at h
      rw [hne']
      refine ⟨nodeOK_mono (Int.le_refl _) he h.1, ?_⟩
      rw [ShL_snoc]
      refine ⟨ShL_mono (Int.le_refl _) he hinit, ?_, fun _ => rfl⟩
      have hge := thr_ge lo bs.dropLast
      apply ih c _ (by omega) (ShL_thr_le hinit hle) hc hc0
      intro lo' hlo'' hle' hs
      exact hf lo' (by omega) hle' hs

/-- Replacing the last child of an open block by a good list. -/
theorem replaceLastFn_Sh {setx : Bool} {src : Bytes} {lo e e' : Int} (he : e ≤ e') (g : PB → List PB) {b : PB}
    (h0 : 0 ≤ lo) (h : Sh setx src lo e b) (hbo : b.label.stop < 0)
    (hg : ∀ c lo', b.blocks.getLast? = some c → lo ≤ lo' → Sh setx src lo' e c → ShL setx src true lo' e' (g c)) :
    Sh setx src lo e' (replaceLastFn g b) := by
  obtain ⟨l, bs, is⟩ := b
  have hlo' : l.stop < 0 := hbo
  simp only [replaceLastFn]
  cases hgl : bs.getLast? with
  | none => exact Sh_mono he _ lo lo (Int.le_refl _) h
  | some c =>
    simp only []
    rw [Sh_mk] at h ⊢
    have hE : endOf e l = e := endOf_open hlo'
    have hE' : endOf e' l = e' := endOf_open hlo'
    have hd : decide (l.stop < 0) = true := by simp [hlo']
    rw [hE, hd] at h
    rw [hE', hd]
    obtain ⟨e1, hinit, hc, _⟩ := ShL_getLast hgl h.2
    have hne : bs.isEmpty = false := by
      cases bs with
      | nil => cases hgl
      | cons a t => rfl
    rw [hne] at h
    refine ⟨nodeOK_leaf (nodeOK_mono (Int.le_refl _) he h.1), ?_⟩
    have hres := hg c _ hgl (thr_ge lo _) hc
    by_cases hnil : g c = []
    · rw [hnil, List.append_nil]
      exact ShL_po (ShL_mono (Int.le_refl _) he hinit)
    · rw [ShL_append_ne hnil]
      exact ⟨ShL_mono (Int.le_refl _) he hinit, hres⟩

/-- Closing a block at `e'' ≤ e`: if it is open, everything in it must be closable at `e''`. -/
theorem closeBlock_at {setx : Bool} (x : PExt) (src : Bytes) {lo e e'' : Int} (h0 : 0 ≤ lo) (h1 : e'' ≤ e)
    (h2 : e'' ≤ src.length) {c : PB} (hg : PBGrammar c) (h : Sh setx src lo e c)
    (hold : c.label.stop < 0 → Old setx src e'' c) : ShL setx src false lo e (closeBlock x src e'' c) := by
  by_cases hc : 0 ≤ c.label.stop
  · rw [closeBlock_closed x src e'' c hc, ShL_single]
    refine ⟨h, fun ho => ?_⟩
    rw [isOpen_iff] at ho; omega
  · have hlow := Sh_lower h (hold (by omega))
    exact ShL_mono (Int.le_refl _) h1 (closeBlock_Sh x src e'' e'' (Int.le_refl _) h2 c lo h0 hg hlow)

/-- `spineReplaceLast (closeBlock …)` at depth `d`, where the block `b0` is open. -/
theorem spineClose_Sh {setx : Bool} (x : PExt) (src : Bytes) {e e'' : Int} (h1 : e'' ≤ e) (h2 : e'' ≤ src.length) (h0e : 0 ≤ e)
    (root : PB) (d : Nat) (hG : PBGrammar root) (h : Sh setx src 0 e root) {b0 : PB} (hb0 : spineGet root d = some b0)
    (hbo : b0.label.stop < 0)
    (hold : ∀ c, spineGet root (d + 1) = some c → c.label.stop < 0 → Old setx src e'' c) :
    Sh setx src 0 e (spineReplaceLast (closeBlock x src e'') root d) := by
  rw [spineReplaceLast_eq]
  apply spineModify_Sh (Int.le_refl _) _ hbo d root 0 (Int.le_refl _) h0e h hb0
  intro lo' hlo' _ hs
  apply replaceLastFn_Sh (Int.le_refl _) _ hlo' hs hbo
  intro c lo'' hc hlo'' hsc
  have hbG := PBG_spineGet d root b0 hG hb0
  have hcG : PBGrammar c := by
    obtain ⟨l, bs, is⟩ := b0
    exact ((PBGrammar_mk l bs is).1 hbG).2 c (List.mem_of_getLast? hc)
  apply ShL_po
  apply closeBlock_at x src (by omega) h1 h2 hcG hsc
  apply hold c
  rw [BSp.spineGet_succ_eq, hb0]
  exact hc

/-! ### the operations of the line parser -/

/-- Source, line start and line of the line parser agree (`reset`). -/
structure SrcOK (p : LP) : Prop where
  line : p.line = p.source.drop p.lineStart
  le : p.lineStart ≤ p.source.length

theorem SrcOK.len {p : LP} (h : SrcOK p) : p.lineStart + p.line.length = p.source.length := by
  rw [h.line, List.length_drop]; have := h.le; omega

theorem SrcOK.of_eq {p q : LP} (h : SrcOK p) (h1 : q.source = p.source) (h2 : q.lineStart = p.lineStart)
    (h3 : q.line = p.line) : SrcOK q := ⟨by rw [h3, h1, h2]; exact h.line, by rw [h1, h2]; exact h.le⟩

/-- The parent of the container. -/
theorem parent_of_container {p : LP} (hd : p.depth ≠ 0) (hT : TreeOK p) :
    ∃ P, spineGet p.root (p.depth - 1) = some P ∧ P.blocks.getLast? = some p.container := by
  have hv : (spineGet p.root (p.depth - 1)).isSome := spineGet_isSome_of_le p.depth p.root _ (by omega) hT.valid
  cases hP : spineGet p.root (p.depth - 1) with
  | none => rw [hP] at hv; cases hv
  | some P =>
    refine ⟨P, rfl, ?_⟩
    have hc := BG.container_eq p hT.valid
    have e1 : p.depth = (p.depth - 1) + 1 := by omega
    rw [e1, BSp.spineGet_succ_eq, hP] at hc
    exact hc

/-- Closing the (open) container at `e''`. -/
theorem closeContainer_Sh {setx : Bool} (x : PExt) (p : LP) {e e'' : Int} (h1 : e'' ≤ e) (h2 : e'' ≤ p.source.length) (h0e : 0 ≤ e)
    (hT : TreeOK p) (hG : PBGrammar p.root) (h : Sh setx p.source 0 e p.root) (hco : p.container.label.stop < 0)
    (hold : Old setx p.source e'' p.container) :
    Sh setx p.source 0 e (p.closeContainer x e'').root := by
  unfold LP.closeContainer
  by_cases hd : p.depth = 0
  · rw [if_pos (by simp [hd])]
    show Sh setx p.source 0 e ((closeBlock x p.source e'' p.root).headD p.root)
    have hc : p.container = p.root := by
      unfold LP.container; rw [hd, spineGet_zero]; rfl
    rw [hc] at hold
    have r := closeBlock_at x p.source (Int.le_refl _) h1 h2 hG h (fun _ => hold)
    cases hcb : closeBlock x p.source e'' p.root with
    | nil => exact h
    | cons a rest =>
      rw [hcb, ShL_cons] at r
      exact r.1
  · have hd' : (p.depth == 0) = false := by simp [hd]
    simp only [hd', Bool.false_eq_true, if_false]
    obtain ⟨P, hP, hPl⟩ := parent_of_container hd hT
    have hcc := BG.container_eq p hT.valid
    have hPo : P.label.stop < 0 := Sh_spine_open_at h hcc hco (p.depth - 1) (by omega) P hP
    apply spineClose_Sh x p.source h1 h2 h0e p.root (p.depth - 1) hG h hP hPo
    intro c hc _
    have e1 : p.depth - 1 + 1 = p.depth := by omega
    rw [e1] at hc
    have : p.container = c := by unfold LP.container; rw [hc]; rfl
    rw [← this]
    exact hold

theorem closeLastChild_Sh {setx : Bool} (x : PExt) (p : LP) {e e'' : Int} (h1 : e'' ≤ e) (h2 : e'' ≤ p.source.length) (h0e : 0 ≤ e)
    (hT : TreeOK p) (hG : PBGrammar p.root) (h : Sh setx p.source 0 e p.root) (hco : p.container.label.stop < 0)
    (hold : ∀ c, spineGet p.root (p.depth + 1) = some c → c.label.stop < 0 → Old setx p.source e'' c) :
    Sh setx p.source 0 e (p.closeLastChild x e'').root :=
  spineClose_Sh x p.source h1 h2 h0e p.root p.depth hG h (BG.container_eq p hT.valid) hco hold

/-- `modifyContainer`: an edit of the (open) container that keeps `Sh`. -/
theorem modifyContainer_Sh {setx : Bool} (p : LP) (f : PB → PB) {e e' : Int} (he : e ≤ e') (h0e : 0 ≤ e) (hT : TreeOK p)
    (h : Sh setx p.source 0 e p.root) (hco : p.container.label.stop < 0)
    (hf : ∀ lo', 0 ≤ lo' → lo' ≤ e → Sh setx p.source lo' e p.container → Sh setx p.source lo' e' (f p.container)) :
    Sh setx p.source 0 e' (p.modifyContainer f).root := by
  unfold LP.modifyContainer
  exact spineModify_Sh he f hco p.depth p.root 0 (Int.le_refl _) h0e h (BG.container_eq p hT.valid)
    (fun lo' hlo' hle' hs => hf lo' hlo' hle' hs)

/-- Appending an inline child to a container that is not a paragraph. -/
theorem appendInline_Sh {setx : Bool} (p : LP) (t : Tree) {e : Int} (h0e : 0 ≤ e) (hT : TreeOK p) (h : Sh setx p.source 0 e p.root)
    (hco : p.container.label.stop < 0) (hk : paraLike p.containerKind = false) : Sh setx p.source 0 e (p.appendInline t).root := by
  rw [BG.appendInline_eq]
  apply modifyContainer_Sh p _ (Int.le_refl _) h0e hT h hco
  intro lo' _ _ hs
  generalize hc : p.container = c at hs
  have hk' : paraLike c.kind = false := by rw [← hc]; exact hk
  obtain ⟨l, bs, is⟩ := c
  exact Sh_inlines hk' hs

theorem setLabel_container_Sh {setx : Bool} (p : LP) (f : PLabel → PLabel) (hf : ∀ l, SameShape l (f l)) {e : Int} (h0e : 0 ≤ e)
    (hT : TreeOK p) (h : Sh setx p.source 0 e p.root) (hco : p.container.label.stop < 0) :
    Sh setx p.source 0 e (p.modifyContainer (PB.setLabel f)).root := by
  apply modifyContainer_Sh p _ (Int.le_refl _) h0e hT h hco
  intro lo' _ _ hs
  exact Sh_setLabel hf hs

theorem setPanic_source (p : LP) (m : String) : (p.setPanic m).source = p.source := by
  unfold LP.setPanic; split <;> rfl

theorem setContainerIndent_Sh {setx : Bool} (p : LP) (n : Int) {e : Int} (h0e : 0 ≤ e) (hT : TreeOK p) (h : Sh setx p.source 0 e p.root)
    (hco : p.container.label.stop < 0) : Sh setx p.source 0 e (p.setContainerIndent n).root := by
  unfold LP.setContainerIndent
  split
  · rw [(setPanic_root p _).1]; exact h
  · split
    · rw [(setPanic_root p _).1]; exact h
    · exact setLabel_container_Sh p (fun l => { l with indent := n }) (fun _ => ⟨rfl, rfl, rfl, rfl, rfl⟩) h0e hT h hco

theorem setContainerIndent_source (p : LP) (n : Int) : (p.setContainerIndent n).source = p.source := by
  unfold LP.setContainerIndent
  split
  · exact setPanic_source _ _
  · split
    · exact setPanic_source _ _
    · rfl

/-! ### setBlankFlags and the blank mark -/

theorem setBlankFlags_Sh {setx : Bool} {src : Bytes} (v : Bool) : ∀ (d : Nat) (b : PB) (lo e : Int), 0 ≤ lo →
    Sh setx src lo e b → Sh setx src lo e (setBlankFlags v b d) ∧ (setBlankFlags v b d).label.stop = b.label.stop := by
  intro d
  induction d with
  | zero =>
    intro b lo e _ h
    obtain ⟨l, bs, is⟩ := b
    simp only [setBlankFlags]
    exact ⟨Sh_relabel ⟨rfl, rfl, rfl, rfl, rfl⟩ h, rfl⟩
  | succ d ih =>
    intro b lo e h0 h
    obtain ⟨l, bs, is⟩ := b
    simp only [setBlankFlags]
    cases hgl : bs.getLast? with
    | none => exact ⟨Sh_relabel ⟨rfl, rfl, rfl, rfl, rfl⟩ h, rfl⟩
    | some c =>
      simp only []
      refine ⟨?_, rfl⟩
      have h' : Sh setx src lo e (.mk { l with lastLineBlank := v } bs is) := Sh_relabel ⟨rfl, rfl, rfl, rfl, rfl⟩ h
      rw [Sh_mk] at h' ⊢
      obtain ⟨e1, hinit, hc, hpo⟩ := ShL_getLast hgl h'.2
      have hne : bs.isEmpty = false := by
        cases bs with
        | nil => cases hgl
        | cons a t => rfl
      have hne' : (bs.dropLast ++ [setBlankFlags v c d]).isEmpty = false := by simp
      rw [hne] at h'
      rw [hne']
      refine ⟨h'.1, ?_⟩
      rw [ShL_snoc]
      have r := ih c _ _ (by have := thr_ge lo bs.dropLast; omega) hc
      refine ⟨hinit, r.1, fun ho => hpo ?_⟩
      rw [isOpen_iff] at ho ⊢
      rw [r.2] at ho
      exact ho

/-- Marking the last child of a block as ending in a blank line. -/
theorem blankFn_Sh {setx : Bool} {src : Bytes} {lo e : Int} (c : PB) (h : Sh setx src lo e c) :
    Sh setx src lo e ((fun b => match b with
      | PB.mk l bs is => match bs.getLast? with
        | some c => PB.mk l (bs.dropLast ++ [c.setLabel fun cl => { cl with lastLineBlank := true }]) is
        | none => PB.mk l bs is) c) := by
  obtain ⟨l, bs, is⟩ := c
  simp only []
  cases hgl : bs.getLast? with
  | none => exact h
  | some c0 =>
    simp only []
    rw [Sh_mk] at h ⊢
    obtain ⟨e1, hinit, hc, hpo⟩ := ShL_getLast hgl h.2
    have hne : bs.isEmpty = false := by
      cases bs with
      | nil => cases hgl
      | cons a t => rfl
    have hne' : (bs.dropLast ++ [c0.setLabel fun cl => { cl with lastLineBlank := true }]).isEmpty = false := by simp
    rw [hne] at h
    rw [hne']
    refine ⟨h.1, ?_⟩
    rw [ShL_snoc]
    have hf : ∀ l : PLabel, SameShape l ((fun cl : PLabel => { cl with lastLineBlank := true }) l) := fun _ => ⟨rfl, rfl, rfl, rfl, rfl⟩
    refine ⟨hinit, Sh_setLabel hf hc, fun ho => hpo ?_⟩
    rw [setLabel_isOpen hf] at ho
    exact ho

end CM.Proofs.Shp
