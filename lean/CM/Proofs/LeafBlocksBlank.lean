import CM.Proofs.LeafBlocksPara
import CM.Proofs.LeafBlocksHTML
/-
C06 (block piece, leaf blocks): a paragraph or an HTML block of type 6/7 ended by a blank line (one LF) before the end of
input. The blank line closes the block at its own start: the root delivered spans the lines of the block, the blank line
is skipped by the next `NextBlock`, which reports the end of input.
-/
namespace CM.Proofs.Leaf
open CM CM.Model CM.Gen
open CM.Proofs CM.Proofs.BT

/-! ### the blank line through the line parser -/

/-- The closed block with the `lastLineBlank` mark `addLineText` puts on it. -/
def leafClosedB (kind : Nat) (n : Int) (e : Int) (inl : List Tree) : PB :=
  .mk { kind := kind, start := 0, stop := e, n := n, lastLineBlank := true } [] inl

theorem noBlockStart_blank : noBlockStart false [LF] = true := by decide +kernel

/-- A blank line `"\n"` on a document whose only child is an open leaf block that the blank line does not continue and
    whose `close` leaves it as it is. -/
theorem processLine_blank (x : PExt) (p : LP) (kind : Nat) (n : Int) (inl : List Tree)
    (hroot : p.root = doc1 (leafOpen kind n inl)) (hi : p.i = 0) (hc : CurOK p) (hline : p.line = [LF])
    (hrm : ruleMatch x kind { p with depth := 1, state := stateDescending } =
      some (false, { p with depth := 1, state := stateDescending }))
    (hclose : closeBlock x p.source (p.lineStart : Nat) (leafOpen kind n inl) = [leafClosed kind n (p.lineStart : Nat) inl]) :
    (processLine x p).root = .mk { kind := BK.document, start := 0, stop := -1, lastLineBlank := true }
      [leafClosedB kind n (p.lineStart : Nat) inl] [] ∧
    (processLine x p).panic = p.panic := by
  unfold processLine
  rw [descend_doc1 x p kind n inl false hroot hrm]
  simp only [Bool.false_eq_true, if_false, show (stateDescending == stateDescendTerminated) = false from rfl]
  have hemp : p.line.isEmpty = false := by rw [hline]; rfl
  unfold openNewBlocks
  simp only [hemp, Bool.false_eq_true, if_false]
  -- no block starts on the blank line
  have hk3 : ({ p with depth := 0, state := stateDescending } : LP).containerKind = BK.document := by
    simp [LP.containerKind, LP.container, hroot, spineGet, doc1, docRoot, PB.kind, PB.label]
  have hk0 : ({ p with depth := 0, state := stateOpening } : LP).containerKind = BK.document := by
    simp [LP.containerKind, LP.container, hroot, spineGet, doc1, docRoot, PB.kind, PB.label]
  obtain ⟨hind, hbai⟩ := noIndent p LF [] hc hi hline (by decide) (by decide)
  have hts : tryStarts (blockStartFns x) { p with depth := 0, state := stateDescending } =
      { p with depth := 0, state := stateOpening } := by
    unfold blockStartFns
    rw [tryStarts_state]
    exact tryStarts_none x { p with depth := 0, state := stateOpening } rfl (by rw [← hind]; exact indent_of_cur rfl) (by
      rw [hk0, show ({ p with depth := 0, state := stateOpening } : LP).bytesAfterIndent = p.bytesAfterIndent from bai_of_cur rfl,
        hbai, hline]
      exact noBlockStart_blank)
  rw [show p.line.length + 8 = (p.line.length + 7) + 1 from rfl,
    openingLoop_step x _ _ (Or.inr (by rw [hk3]; decide)), hts]
  simp only [show (stateOpening == stateOpenMatched) = false from rfl, show (stateOpening == stateLineConsumed) = false from rfl,
    Bool.false_eq_true, if_false]
  have hrb : ({ p with depth := 0, state := stateOpening } : LP).isRestBlank = true := by
    show isBlankLine (p.line.drop p.i) = true
    rw [hi, hline]; decide
  simp only [hrb, Bool.not_true, Bool.false_and, Bool.false_eq_true, if_false]
  obtain ⟨source, root, depth, lineStart, line, i, col, tabRem, tabPartial, state, panic⟩ := p
  simp only at hroot hi hline hclose
  subst hroot hi hline
  simp only [LP.closeLastChild, spineReplaceLast, spineModify, doc1, docRoot, List.getLast?_singleton, List.dropLast_singleton,
    List.nil_append, hclose]
  rw [addLineText_eq]
  simp [LP.isRestBlank, isBlankLine, isWs_LF, altBlank, altFlags, altCont, spineModify, setBlankFlags, LP.containerKind, LP.container,
    spineGet, PB.kind, PB.label, PB.setLabel, leafClosed, leafClosedB, BK.document, BK.blockQuote, BK.fencedCode, BK.listItem,
    acceptsLines]

/-! ### the stream machine -/

/-- The parser state after the root has been cut off in front of the final blank line. -/
def blankTailBP (off ln : Nat) : BP := { buf := [LF], offset := off, lineno := ln, i := 1, err := some .eof, blocks := [] }

theorem nextBlock_blankTail (L : LineParserI) (off ln : Nat) :
    nextBlock L (blankTailBP off ln) = (.err .eof, doneBP (off + 1) (ln + 1)) := by
  simp [nextBlock, blankTailBP, doneBP, makeRoot, bpFuel, skipBlank, readline, eolEnd?, indexEOL, unpaddedNullLength, nullCount,
    lineCount, LF]

/-- `makeRoot` when the only child was closed in front of the final blank line. -/
theorem makeRoot_memBP_blank (buf : Bytes) (s : Nat) (k : PB) (hnul : ∀ b ∈ buf, b ≠ 0) (hk : k.label.stop = (s : Nat))
    (hdrop : buf.drop s = [LF]) :
    makeRoot (memBP buf buf.length) [k] =
      some ({ source := buf.take s, startLine := 1, startOffset := 0, endOffset := s, block := k },
            blankTailBP s (1 + lineCount (buf.take s))) := by
  have hlen : s + 1 = buf.length := by
    have := congrArg List.length hdrop
    simp only [List.length_drop, List.length_singleton] at this
    omega
  have ho : k.isOpen = false := by
    simp only [PB.isOpen, hk]
    exact decide_eq_false (by omega)
  have hnt : ∀ b ∈ buf.take s, b ≠ 0 := fun b hb => hnul b (List.mem_of_mem_take hb)
  rw [makeRoot_closed _ _ _ ho]
  have h1 : ¬ (s > buf.length) := by omega
  have h2 : buf.length - s = 1 := by omega
  simp [rootOf, afterRoot, memBP, blankTailBP, hk, fillNulls_eq_self hnt, unpaddedNullLength_eq hnt, offsetPBs, hdrop, h1, h2]
  omega

theorem parseLines_last_blank (x : PExt) (fuel : Nat) (lp : LP) (buf : Bytes) (s : Nat) (dl : PLabel) (k : PB)
    (hroot : ((blocksLP x).line lp buf s).root = .mk dl [k] [])
    (hpanic : ((blocksLP x).line lp buf s).panic = none)
    (hnul : ∀ b ∈ buf, b ≠ 0) (hk : k.label.stop = (s : Nat)) (hdrop : buf.drop s = [LF]) :
    parseLines (blocksLP x) (fuel + 1) lp s (memBP buf buf.length) =
      (.block { source := buf.take s, startLine := 1, startOffset := 0, endOffset := s, block := k },
       blankTailBP s (1 + lineCount (buf.take s))) := by
  have hsrc : (memBP buf buf.length).buf.take (memBP buf buf.length).i = buf := List.take_length
  have key := @parseLines_root (blocksLP x) fuel lp s (memBP buf buf.length)
  rw [hsrc] at key
  apply key hpanic
  show makeRoot _ (LP.root ((blocksLP x).line lp buf s)).blocks = _
  rw [hroot]
  exact makeRoot_memBP_blank buf s _ hnul hk hdrop

/-- `leaf_run` for a block ended by one blank line: the closing step is the blank line, the root stops in front of it. -/
theorem leaf_run_blank (x : PExt) (kind : Nat) (n : Int) (ik : Nat) (ok : Bytes → Prop) (l0 : Bytes) (ls : List Bytes)
    (fuel : Nat) (inl0 : List Tree) (dl : PLabel) (kfin : PB)
    (hpl0 : plainLine l0 = true) (hnb0 : isBlankLine l0 = false) (hls : ∀ l ∈ ls, plainLine l = true ∧ ok l)
    (hfirst : ((blocksLP x).line ((blocksLP x).new []) (l0 ++ [LF]) 0).root = doc1 (leafOpen kind n inl0) ∧
      ((blocksLP x).line ((blocksLP x).new []) (l0 ++ [LF]) 0).panic = none)
    (hstep : StepOK x kind n ik ok)
    (hlast : ∀ lp : LP, lp.root = doc1 (leafOpen kind n (inl0 ++ runNodes ik (l0.length + 1) ls)) → lp.panic = none →
      ((blocksLP x).line lp (leafDoc l0 ls [LF]) (l0.length + 1 + (body ls).length)).root = .mk dl [kfin] [] ∧
      ((blocksLP x).line lp (leafDoc l0 ls [LF]) (l0.length + 1 + (body ls).length)).panic = none)
    (hk : kfin.label.stop = ((leafDoc l0 ls []).length : Nat)) (hfuel : 2 ≤ fuel) :
    drain (blocksLP x) fuel (memParser (leafDoc l0 ls [LF])) [] =
      ([{ source := leafDoc l0 ls [], startLine := 1, startOffset := 0, endOffset := (leafDoc l0 ls []).length,
          block := kfin }],
       .err .eof, doneBP (leafDoc l0 ls [LF]).length (1 + lineCount (leafDoc l0 ls []) + 1)) := by
  have hd0 : leafDoc l0 ls [LF] = leafDoc l0 ls [] ++ [LF] := by simp [leafDoc]
  have hlen0 : (leafDoc l0 ls []).length = l0.length + 1 + (body ls).length := by simp [leafDoc]; omega
  generalize hdoc : leafDoc l0 ls [LF] = doc at hlast ⊢
  have hdoc' : doc = (l0 ++ [LF]) ++ (body ls ++ [LF]) := hdoc.symm
  have hdoc'' : doc = l0 ++ LF :: (body ls ++ [LF]) := by rw [hdoc']; simp
  have hnul : ∀ b ∈ doc, b ≠ 0 := by
    intro b hb
    rw [hdoc'] at hb
    rcases List.mem_append.1 hb with hb | hb
    · exact noNul_line hpl0 b hb
    · rcases List.mem_append.1 hb with hb | hb
      · exact noNul_mem (body_noNul ls (fun l hl => (hls l hl).1)) b hb
      · simp at hb; subst hb; decide
  have hll : lineLen doc = l0.length + 1 := by rw [hdoc'']; exact lineLen_plain l0 _ hpl0
  have hdl : doc.length = (l0.length + 1) + ((body ls).length + 1) := by
    rw [hdoc']; simp; omega
  have hbl := body_length_ge ls
  have htake : doc.take (l0.length + 1 + (body ls).length) = leafDoc l0 ls [] := by
    rw [← hdoc, hd0, ← hlen0, List.take_left' rfl]
  have hdrop : doc.drop (l0.length + 1 + (body ls).length) = [LF] := by
    rw [← hdoc, hd0, ← hlen0, List.drop_left' rfl]
  rw [memParser_eq doc hnul]
  obtain ⟨f, rfl⟩ : ∃ f, fuel = f + 2 := ⟨fuel - 2, by omega⟩
  have e0 := nextBlock_first (blocksLP x) doc (by rw [hll]; omega) (by
    rw [hll, hdoc'', take_line, blank_of_append_LF]; exact hnb0)
  rw [hll] at e0
  obtain ⟨g, hg⟩ : ∃ g, doc.length + 4 = ((g + 1) + ls.length) + 1 := ⟨doc.length + 2 - ls.length, by omega⟩
  rw [hg] at e0
  have htake0 : doc.take (0 + (l0.length + 1)) = l0 ++ [LF] := by rw [Nat.zero_add, hdoc'', take_line]
  obtain ⟨lp1, r1, p1, e1⟩ := parseLines_line x ((g + 1) + ls.length) ((blocksLP x).new []) doc 0 l0 (body ls ++ [LF])
    (leafOpen kind n inl0) (by rw [List.drop_zero]; exact hdoc'') (by rw [htake0]; exact hfirst.1) (by rw [htake0]; exact hfirst.2)
    (by simp [leafOpen, PB.isOpen, PB.label])
  rw [Nat.zero_add] at e1
  have hdrop1 : doc.drop (l0.length + 1) = body ls ++ [LF] := by rw [hdoc'', drop_line]
  obtain ⟨lp2, r2, p2, e2⟩ := parseLines_cont x kind n ik ok hstep doc [LF] ls (g + 1) lp1 inl0 (l0.length + 1) r1 p1 hdrop1 hls
  have hend : l0.length + 1 + (body ls).length + lineLen [LF] = doc.length := by rw [hdl]; simp [lineLen_LF]; omega
  rw [hend] at e2
  obtain ⟨h1, h2⟩ := hlast lp2 r2 p2
  have e3 := parseLines_last_blank x g lp2 doc (l0.length + 1 + (body ls).length) dl kfin h1 h2 hnul (by rw [hk, hlen0]) hdrop
  rw [e1, e2, e3, htake, ← hlen0] at e0
  have e4 := nextBlock_blankTail (blocksLP x) (leafDoc l0 ls []).length (1 + lineCount (leafDoc l0 ls []))
  have hfin : (leafDoc l0 ls []).length + 1 = doc.length := by rw [hlen0, hdl]; omega
  rw [hfin] at e4
  exact drain_two (blocksLP x) f _ _ _ _ _ e0 e4

/-! ### paragraphs and HTML blocks ended by a blank line -/

theorem para_blank (x : PExt) (lp : LP) (first : Tree) (rest : List Tree) (src : Bytes) (s : Nat)
    (hroot : lp.root = doc1 (leafOpen BK.paragraph 0 (first :: rest))) (hsrc : src.drop s = [LF])
    (hb : src.getD first.label.start.toNat 0 ≠ 0x5B) :
    ((blocksLP x).line lp src s).root = .mk { kind := BK.document, start := 0, stop := -1, lastLineBlank := true }
        [leafClosedB BK.paragraph 0 (s : Nat) (first :: rest)] [] ∧
    ((blocksLP x).line lp src s).panic = lp.panic := by
  rw [blocksLP_line]
  have r := reset_facts lp src s
  generalize lp.reset src s = p at r
  have hline : p.line = [LF] := by rw [r.line, hsrc]
  have hrm : ruleMatch x BK.paragraph { p with depth := 1, state := stateDescending } =
      some (false, { p with depth := 1, state := stateDescending }) := by
    rw [ruleMatch_para]
    have : ({ p with depth := 1, state := stateDescending } : LP).isRestBlank = true := by
      show isBlankLine (p.line.drop p.i) = true
      rw [r.i, hline]; decide
    rw [this]; rfl
  have h := processLine_blank x p BK.paragraph 0 (first :: rest) (by rw [r.root, hroot]) r.i r.cur hline hrm
    (by rw [r.source, r.lineStart]; exact closeBlock_doc1_para x src _ BK.paragraph 0 first rest (Or.inl rfl) hb)
  rw [r.lineStart, r.panic] at h
  exact h

/-- **Paragraph ended by a blank line**: the same root as in `paragraph_run` (spanning the lines of the paragraph; the
    block carries the `lastLineBlank` mark), the blank line is skipped, then the end of input. -/
theorem paragraph_blank_run (x : PExt) (l0 : Bytes) (ls : List Bytes) (fuel : Nat)
    (h0 : paraFirstOK l0 = true) (hb : l0.head? ≠ some 0x5B)
    (hls : ∀ l ∈ ls, plainLine l = true ∧ paraContOK l = true) (hfuel : 2 ≤ fuel) :
    drain (blocksLP x) fuel (memParser (leafDoc l0 ls [LF])) [] =
      ([{ source := leafDoc l0 ls [], startLine := 1, startOffset := 0, endOffset := (leafDoc l0 ls []).length,
          block := leafClosedB BK.paragraph 0 ((leafDoc l0 ls []).length : Nat) (runNodes IK.unparsed 0 (l0 :: ls)) }],
       .err .eof, doneBP (leafDoc l0 ls [LF]).length (1 + lineCount (leafDoc l0 ls []) + 1)) := by
  have h0' := h0
  simp only [paraFirstOK, Bool.and_eq_true] at h0'
  obtain ⟨⟨hpl, hs⟩, _⟩ := h0'
  obtain ⟨c, rest, rfl, h1, h2⟩ := lineStartOK_elim hs
  have hlen : (leafDoc (c :: rest) ls []).length = (c :: rest).length + 1 + (body ls).length := by
    simp [leafDoc]; omega
  have hnb0 : isBlankLine (c :: rest) = false := by
    have := not_blank_of_start h1 h2 hpl []; rwa [List.append_nil] at this
  refine leaf_run_blank x BK.paragraph 0 IK.unparsed (fun l => paraContOK l = true) (c :: rest) ls fuel
    [mkInline IK.unparsed (0 : Nat) ((0 + ((c :: rest).length + 1) : Nat) : Int)]
    { kind := BK.document, start := 0, stop := -1, lastLineBlank := true }
    (leafClosedB BK.paragraph 0 ((leafDoc (c :: rest) ls []).length : Nat) (runNodes IK.unparsed 0 ((c :: rest) :: ls)))
    hpl hnb0 hls (para_first x _ h0) (para_stepOK x) ?_ rfl hfuel
  intro lp hroot hpanic
  have hroot' : lp.root = doc1 (leafOpen BK.paragraph 0
      (mkInline IK.unparsed (0 : Nat) ((0 + ((c :: rest).length + 1) : Nat) : Int) :: runNodes IK.unparsed ((c :: rest).length + 1) ls)) := hroot
  have := para_blank x lp _ _ (leafDoc (c :: rest) ls [LF]) ((c :: rest).length + 1 + (body ls).length) hroot'
    (by
      have : leafDoc (c :: rest) ls [LF] = leafDoc (c :: rest) ls [] ++ [LF] := by simp [leafDoc]
      rw [this, ← hlen, List.drop_left' rfl])
    (by
      show (leafDoc (c :: rest) ls [LF]).getD 0 0 ≠ 0x5B
      intro h; apply hb; rw [← h]; rfl)
  refine ⟨?_, this.2.trans hpanic⟩
  rw [this.1, hlen]
  simp [runNodes]

theorem html_blank (x : PExt) (lp : LP) (i0 : Nat) (hi0 : i0 = 5 ∨ i0 = 6) (inl : List Tree) (src : Bytes) (s : Nat)
    (hroot : lp.root = doc1 (leafOpen BK.htmlBlock i0 inl)) (hsrc : src.drop s = [LF]) :
    ((blocksLP x).line lp src s).root = .mk { kind := BK.document, start := 0, stop := -1, lastLineBlank := true }
        [leafClosedB BK.htmlBlock i0 (s : Nat) inl] [] ∧
    ((blocksLP x).line lp src s).panic = lp.panic := by
  rw [blocksLP_line]
  have r := reset_facts lp src s
  generalize lp.reset src s = p at r
  have hline : p.line = [LF] := by rw [r.line, hsrc]
  have hroot' : p.root = doc1 (leafOpen BK.htmlBlock i0 inl) := by rw [r.root, hroot]
  have hrm : ruleMatch x BK.htmlBlock { p with depth := 1, state := stateDescending } =
      some (false, { p with depth := 1, state := stateDescending }) := by
    apply ruleMatch_html_blank
    · rw [container_doc1 { p with depth := 1, state := stateDescending } _ hroot' rfl]
      show htmlBlockEnd (i0 : Int).toNat ((p.line.drop p.i).dropWhile _) = true
      rw [r.i, hline, Int.toNat_natCast]
      rcases hi0 with h | h <;> subst h <;> decide
    · show isBlankLine (p.line.drop p.i) = true
      rw [r.i, hline]; decide
  have h := processLine_blank x p BK.htmlBlock i0 inl hroot' r.i r.cur hline hrm
    (closeBlock_leaf x _ _ BK.htmlBlock i0 inl (by decide) (by decide) (by decide) (by decide))
  rw [r.lineStart, r.panic] at h
  exact h

/-- **HTML block of type 6 or 7 ended by a blank line.** -/
theorem html_block_blank_run (x : PExt) (i0 : Nat) (hi0 : i0 = 5 ∨ i0 = 6) (l0 : Bytes) (ls : List Bytes) (fuel : Nat)
    (h0 : htmlFirstOK i0 l0 = true) (hls : ∀ l ∈ ls, plainLine l = true ∧ isBlankLine l = false) (hfuel : 2 ≤ fuel) :
    drain (blocksLP x) fuel (memParser (leafDoc l0 ls [LF])) [] =
      ([{ source := leafDoc l0 ls [], startLine := 1, startOffset := 0, endOffset := (leafDoc l0 ls []).length,
          block := leafClosedB BK.htmlBlock i0 ((leafDoc l0 ls []).length : Nat) (runNodes IK.rawHTML 0 (l0 :: ls)) }],
       .err .eof, doneBP (leafDoc l0 ls [LF]).length (1 + lineCount (leafDoc l0 ls []) + 1)) := by
  obtain ⟨hpl, hh, _, _, _, _⟩ := htmlFirstOK_elim h0
  have hnb0 : isBlankLine l0 = false := by
    cases l0 with
    | nil => simp at hh
    | cons b t => simp at hh; subst hh; exact not_blank_lt _
  have hlen : (leafDoc l0 ls []).length = l0.length + 1 + (body ls).length := by
    simp [leafDoc]; omega
  refine leaf_run_blank x BK.htmlBlock i0 IK.rawHTML (fun l => htmlContOK i0 l = true) l0 ls fuel
    [mkInline IK.rawHTML (0 : Nat) ((0 + (l0.length + 1) : Nat) : Int)]
    { kind := BK.document, start := 0, stop := -1, lastLineBlank := true }
    (leafClosedB BK.htmlBlock i0 ((leafDoc l0 ls []).length : Nat) (runNodes IK.rawHTML 0 (l0 :: ls)))
    hpl hnb0 (fun l hl => ⟨(hls l hl).1, htmlContOK_67 i0 l hi0 (hls l hl).2⟩) (html_first x i0 l0 h0) (html_stepOK x i0) ?_ rfl hfuel
  intro lp hroot hpanic
  have := html_blank x lp i0 hi0 _ (leafDoc l0 ls [LF]) (l0.length + 1 + (body ls).length) hroot (by
    have : leafDoc l0 ls [LF] = leafDoc l0 ls [] ++ [LF] := by simp [leafDoc]
    rw [this, ← hlen, List.drop_left' rfl])
  refine ⟨?_, this.2.trans hpanic⟩
  rw [this.1, hlen]
  simp [runNodes]

end CM.Proofs.Leaf
