import CM.Proofs.ParseWholeGrammarOm
/-
C05, inline half — list lemmas for the delimiter-stack discipline: how "the stack nodes are a sublist of the parent's
children" survives the surgery of `wrap` (a range of a duplicate-free children list is replaced by one new node).
-/
namespace CM.Proofs.InlH
open CM CM.Model CM.Model.Inl CM.Spec

theorem mem_of_getElem?_eq {l : List Nat} {p x : Nat} (h : l[p]? = some x) : x ∈ l := List.mem_of_getElem? h

/-- In a duplicate-free list, a sublist `X ++ [o] ++ Y` splits at the position of `o`. -/
theorem sublist_split_at {ks X Y : List Nat} {o p : Nat} (hn : ks.Nodup) (hsub : (X ++ [o] ++ Y).Sublist ks)
    (hp : ks[p]? = some o) : (X ++ [o]).Sublist (ks.take (p + 1)) ∧ Y.Sublist (ks.drop (p + 1)) := by
  obtain ⟨r1, r2, e1, s1, s2⟩ := List.append_sublist_iff.1 hsub
  obtain ⟨q1, q2, e2, s3, s4⟩ := List.append_sublist_iff.1 s1
  have ho2 : o ∈ q2 := List.singleton_sublist.1 s4
  subst e2; subst e1
  rw [List.append_assoc] at hn hp
  have hd := List.nodup_append.1 hn
  have hd2 := List.nodup_append.1 hd.2.1
  have hlo : q1.length ≤ p := by
    rcases Nat.lt_or_ge p q1.length with h | h
    · exfalso
      rw [List.getElem?_append_left h] at hp
      exact hd.2.2 o (List.mem_of_getElem? hp) o (List.mem_append_left _ ho2) rfl
    · exact h
  have hhi : p < q1.length + q2.length := by
    rcases Nat.lt_or_ge p (q1.length + q2.length) with h | h
    · exact h
    · exfalso
      rw [List.getElem?_append_right hlo, List.getElem?_append_right (by omega)] at hp
      exact hd2.2.2 o ho2 o (List.mem_of_getElem? hp) rfl
  have hq2 : q2[p - q1.length]? = some o := by
    rw [List.getElem?_append_right hlo, List.getElem?_append_left (by omega)] at hp
    exact hp
  constructor
  · rw [List.take_append, List.take_append]
    have h1 : List.take (p + 1) q1 = q1 := List.take_of_length_le (by omega)
    rw [h1]
    refine ((s3.append ?_).trans (List.sublist_append_left _ _))
    apply List.singleton_sublist.2
    have hlt : p - q1.length < q2.length := by omega
    rw [List.getElem?_eq_getElem hlt] at hq2
    have e : q2[p - q1.length] = o := Option.some.inj hq2
    rw [← e]
    apply List.mem_take_iff_getElem.2
    exact ⟨p - q1.length, by rw [Nat.lt_min]; omega, rfl⟩
  · rw [List.drop_append]
    refine s2.trans ?_
    have : p + 1 - (q1 ++ q2).length = 0 := by simp; omega
    rw [this, List.drop_zero]
    exact List.sublist_append_right _ _

/-- A sublist that starts with `c` survives dropping a prefix that does not contain `c`. -/
theorem sublist_drop_head {c : Nat} {Y : List Nat} : ∀ (k : Nat) (D : List Nat), (c :: Y).Sublist D →
    (∀ j, j < k → D[j]? ≠ some c) → (c :: Y).Sublist (D.drop k) := by
  intro k
  induction k with
  | zero => intro D h _; exact h
  | succ k ih =>
    intro D h hne
    cases D with
    | nil => simp at h
    | cons d D' =>
      rw [List.drop_succ_cons]
      refine ih D' ?_ (fun j hj => by have := hne (j + 1) (by omega); simpa using this)
      rcases List.sublist_cons_iff.1 h with h' | ⟨r, e, _⟩
      · exact h'
      · exfalso
        have hd : c = d := by cases e; rfl
        have := hne 0 (by omega)
        simp [hd] at this

/-- **`wrap` between an opener and a closer** keeps "the stack nodes are a sublist of the children": the nodes up to the
    opener stay before the new node, the nodes from the closer on stay behind it. -/
theorem sublist_wrap {ks X M Y : List Nat} {o c si ei new : Nat} (hn : ks.Nodup)
    (hsub : (X ++ [o] ++ (M ++ c :: Y)).Sublist ks) (hsi : 1 ≤ si) (hso : ks[si - 1]? = some o) (hse : si ≤ ei)
    (hne : ∀ j, si ≤ j → j < ei → ks[j]? ≠ some c) :
    (X ++ [o] ++ c :: Y).Sublist (newPL ks si ei new) := by
  obtain ⟨h1, h2⟩ := sublist_split_at hn hsub hso
  have e1 : si - 1 + 1 = si := by omega
  rw [e1] at h1 h2
  have h3 : (c :: Y).Sublist (ks.drop si) := (List.sublist_append_right _ _).trans h2
  have h4 := sublist_drop_head (ei - si) (ks.drop si) h3 (fun j hj => by
    rw [List.getElem?_drop]
    exact hne (si + j) (by omega) (by omega))
  rw [List.drop_drop] at h4
  have e2 : si + (ei - si) = ei := by omega
  rw [e2] at h4
  unfold newPL
  rw [List.append_assoc (ks.take si)]
  exact h1.append ((List.sublist_append_right _ _).trans (List.Sublist.refl _ |>.append h4 |>.trans (by
    exact List.Sublist.refl _)))

/-- `wrap` without an end node (a link / image takes everything behind its opener). -/
theorem sublist_wrap_none {ks X Y : List Nat} {o si : Nat} (hn : ks.Nodup) (hsub : (X ++ [o] ++ Y).Sublist ks)
    (hsi : 1 ≤ si) (hso : ks[si - 1]? = some o) :
    (X ++ [o]).Sublist (ks.take si) ∧ Y.Sublist (ks.drop si) := by
  have := sublist_split_at hn hsub hso
  have e1 : si - 1 + 1 = si := by omega
  rw [e1] at this
  exact this

/-- the elements of a duplicate-free sublist other than `x` survive filtering `x` out -/
theorem sublist_filter_ne {l ks : List Nat} {x : Nat} (h : l.Sublist ks) :
    (l.filter (· != x)).Sublist (ks.filter (· != x)) := h.filter _

theorem filter_ne_of_not_mem {l : List Nat} {x : Nat} (h : x ∉ l) : l.filter (· != x) = l := by
  rw [List.filter_eq_self]
  intro a ha
  simp only [bne_iff_ne, ne_eq]
  intro e; subst e; exact h ha

end CM.Proofs.InlH
