import CM.Proofs.EolG2
import CM.Proofs.RefDefSpansOps
import CM.Proofs.EolX3
/-
C14 (a), block phase with link reference definitions — part 3: the tree operations of the line parser under the invariant
`LG` (the static facts of the line, the source is `X.take k`, the tree is `FineT`): they commute with the map and keep `LG`.
-/
namespace CM.Proofs.EolG
open CM CM.Model CM.Gen CM.Proofs CM.Proofs.RDS CM.Proofs.BSp CM.Proofs.ERd CM.Proofs.BG CM.Proofs.BT CM.Proofs.EolX

/-! ### The spine under a predicate inherited by children -/

theorem spineModify_mapP (g : Int → Int) (P : PB → Prop) (hsub : ∀ l bs is, P (.mk l bs is) → ∀ c ∈ bs, P c)
    (f f' : PB → PB) (hf : ∀ b, P b → f' (mapPB g b) = mapPB g (f b)) :
    ∀ (d : Nat) (b : PB), P b → spineModify f' (mapPB g b) d = mapPB g (spineModify f b d) := by
  intro d
  induction d with
  | zero => intro b hb; cases b; exact hf _ hb
  | succ d ih =>
    intro b hb
    obtain ⟨l, bs, is⟩ := b
    simp only [mapPB, spineModify, mapPBs_getLast?]
    cases hg : bs.getLast? with
    | none => rfl
    | some c =>
      simp only [Option.map_some, mapPB, mapPBs_append, mapPBs_dropLast, mapPBs_singleton,
        ih c (hsub l bs is hb c (List.mem_of_getLast? hg))]

theorem spineReplaceLast_mapP (g : Int → Int) (P : PB → Prop) (hsub : ∀ l bs is, P (.mk l bs is) → ∀ c ∈ bs, P c)
    (f f' : PB → List PB) (hf : ∀ b, P b → f' (mapPB g b) = mapPBs g (f b)) (root : PB) (d : Nat) (hr : P root) :
    spineReplaceLast f' (mapPB g root) d = mapPB g (spineReplaceLast f root d) := by
  unfold spineReplaceLast
  apply spineModify_mapP g P hsub _ _ _ d root hr
  intro b hb
  obtain ⟨l, bs, is⟩ := b
  simp only [mapPB, mapPBs_getLast?]
  cases hg : bs.getLast? with
  | none => rfl
  | some c => simp only [Option.map_some, mapPB, mapPBs_append, mapPBs_dropLast, hf c (hsub l bs is hb c (List.mem_of_getLast? hg))]

section
variable {e X body nl : Bytes} {k : Nat} {bd : Int} {p : LP}

theorem fineT_sub : ∀ l bs is, FineT e X k bd (.mk l bs is) → ∀ c ∈ bs, FineT e X k bd c :=
  fun l bs is h => ((FineT_mk l bs is).1 h).2

/-- `FineT` after a change at depth `d` of the spine that keeps the block there fine. -/
theorem fineT_spineModify_at (f : PB → PB) : ∀ (d : Nat) (b : PB), FineT e X k bd b →
    (∀ c, spineGet b d = some c → FineT e X k bd c → FineT e X k bd (f c)) → FineT e X k bd (spineModify f b d) := by
  intro d
  induction d with
  | zero => intro b h hf; cases b; exact hf _ rfl h
  | succ d ih =>
    intro b h hf
    obtain ⟨l, bs, is⟩ := b
    simp only [spineModify]
    cases hg : bs.getLast? with
    | none => exact h
    | some c =>
      simp only []
      rw [FineT_mk] at h ⊢
      refine ⟨h.1, ?_⟩
      intro b' hb'
      rcases mem_dropLast_append hb' with h1 | h1
      · exact h.2 b' h1
      · simp only [List.mem_singleton] at h1
        subst h1
        apply ih c (h.2 c (List.mem_of_getLast? hg))
        intro c' hc'
        apply hf c'
        simp only [spineGet, hg]
        exact hc'

/-- The invariant of the line parser while it processes a line. -/
structure LG (e X body nl : Bytes) (k : Nat) (bd : Int) (p : LP) : Prop where
  ok : LineOK X body nl p
  src : p.source = X.take k
  fine : FineT e X k bd p.root
  xt : XT (X.take k) p.root

theorem LG.frame {q : LP} (h : LG e X body nl k bd p) (hok : LineOK X body nl q) (hs : q.source = p.source) (hr : q.root = p.root) :
    LG e X body nl k bd q := ⟨hok, by rw [hs]; exact h.src, by rw [hr]; exact h.fine, by rw [hr]; exact h.xt⟩

theorem LG.advance (h : LG e X body nl k bd p) (n : Nat) : LG e X body nl k bd (p.advance n) :=
  h.frame (h.ok.advance n) (CM.Proofs.advance_source p n) (advance_root p n)

theorem LG.consumeLine (h : LG e X body nl k bd p) : LG e X body nl k bd p.consumeLine :=
  h.frame h.ok.consumeLine (CM.Proofs.consumeLine_source p) (consumeLine_root p)

theorem LG.consumeIndentN (h : LG e X body nl k bd p) (he : StdEol e) (n : Nat) : LG e X body nl k bd (p.consumeIndentN n) := by
  obtain ⟨a, b⟩ := consumeIndent_root_source (n + 1) p n
  exact h.frame (h.ok.consumeIndentN he n) b a

theorem LG.markMatched (h : LG e X body nl k bd p) : LG e X body nl k bd p.markMatched :=
  h.frame h.ok.markMatched (markMatched_source p) (markMatched_root p)

theorem LG.setPanic (h : LG e X body nl k bd p) (m : String) : LG e X body nl k bd (p.setPanic m) :=
  h.frame (h.ok.setPanic m) (setPanic_source' p m) (setPanic_root p m)

theorem LG.setState (h : LG e X body nl k bd p) (s : Nat) : LG e X body nl k bd { p with state := s } :=
  ⟨h.ok.frame rfl rfl rfl h.ok.hi, h.src, h.fine, h.xt⟩

theorem LG.setDepth (h : LG e X body nl k bd p) (d : Nat) : LG e X body nl k bd { p with depth := d } :=
  ⟨h.ok.frame rfl rfl rfl h.ok.hi, h.src, h.fine, h.xt⟩

/-! ### `closeContainer`, `closeLastChild` -/

/-- `closeContainer` commutes with the map under the weaker invariant `FineS`. -/
theorem closeContainer_simS (x : PExt) (hok : LineOK X body nl p) (hsrc : p.source = X.take k) (hS : FineS e X k bd p.root)
    (he : StdEol e) (endPos : Int) :
    (mapLP e X p).closeContainer x (eolPosZ e X endPos) = mapLP e X (p.closeContainer x endPos) := by
  have hcb : ∀ b, FineS e X k bd b → closeBlock x (toEol e p.source) (eolPosZ e X endPos) (mapPB (eolPosZ e X) b) =
      mapPBs (eolPosZ e X) (closeBlock x p.source endPos b) := by
    intro b hb
    rw [hsrc]
    exact closeBlock_mapS x he hok.noCR endPos b hb
  unfold LP.closeContainer
  by_cases hd : (p.depth == 0) = true
  · have hd' : ((mapLP e X p).depth == 0) = true := hd
    rw [if_pos hd', if_pos hd]
    have hroot : (closeBlock x (mapLP e X p).source (eolPosZ e X endPos) (mapLP e X p).root).headD (mapLP e X p).root =
        mapPB (eolPosZ e X) ((closeBlock x p.source endPos p.root).headD p.root) := by
      rw [mapLP_root, mapLP_source, hcb _ hS, headD_mapPBs]
    rw [hroot]
    rfl
  · have hd' : ¬ ((mapLP e X p).depth == 0) = true := hd
    rw [if_neg hd', if_neg hd]
    have hroot : spineReplaceLast (closeBlock x (mapLP e X p).source (eolPosZ e X endPos)) (mapLP e X p).root ((mapLP e X p).depth - 1) =
        mapPB (eolPosZ e X) (spineReplaceLast (closeBlock x p.source endPos) p.root (p.depth - 1)) := by
      rw [mapLP_root, mapLP_source, mapLP_depth, spineReplaceLast_mapP _ _ fineS_sub _ _ hcb _ _ hS]
    rw [hroot]
    rfl

/-- What `FineT` says about the paragraphs `close` hands to the hook. -/
theorem fineT_hook (endPos : Int) : ∀ l bs is, FineT e X k bd (.mk l bs is) → l.stop < 0 →
    (l.kind = BK.paragraph ∨ l.kind = BK.setextHeading) →
    RDS.NoBracket (X.take k) is ∨
      (Ctx (X.take k) is ∧ (l.kind = BK.setextHeading → 0 ≤ endPos ∧ ∀ t ∈ is, t.label.stop ≤ endPos)) := by
  intro l bs is h hop hk
  rw [FineT_mk] at h
  have hns := h.1.2 hop
  rcases hk with hk | hk
  · rcases h.1.1 hop hk with h1 | ⟨h1, _⟩
    · exact Or.inl h1
    · exact Or.inr ⟨h1, fun hs => absurd hs hns⟩
  · exact absurd hk hns

/-- The same for `FineS`, when the end position is at or after the start of the line. -/
theorem fineS_hook (endPos : Int) (h0 : 0 ≤ endPos) (hbdE : bd ≤ endPos) : ∀ l bs is, FineS e X k bd (.mk l bs is) →
    l.stop < 0 → (l.kind = BK.paragraph ∨ l.kind = BK.setextHeading) →
    RDS.NoBracket (X.take k) is ∨
      (Ctx (X.take k) is ∧ (l.kind = BK.setextHeading → 0 ≤ endPos ∧ ∀ t ∈ is, t.label.stop ≤ endPos)) := by
  intro l bs is h hop hk
  rw [FineS_mk] at h
  rcases h.1 hop hk with h1 | ⟨h1, _, _, h4⟩
  · exact Or.inl h1
  · exact Or.inr ⟨h1, fun _ => ⟨h0, fun t ht => Int.le_trans (h4 t ht) hbdE⟩⟩

theorem closeBlock_xtG (x : PExt) (endPos : Int) : ∀ b, FineT e X k bd b → XT (X.take k) b →
    AllX (X.take k) (closeBlock x (X.take k) endPos b) :=
  closeBlock_xq x endPos (FineT e X k bd) fineT_sub (fineT_hook endPos)

theorem hcbG (x : PExt) (h : LG e X body nl k bd p) (he : StdEol e) (endPos : Int) :
    ∀ b, FineT e X k bd b → closeBlock x (toEol e p.source) (eolPosZ e X endPos) (mapPB (eolPosZ e X) b) =
      mapPBs (eolPosZ e X) (closeBlock x p.source endPos b) := by
  intro b hb
  rw [h.src]
  exact closeBlock_mapG x he h.ok.noCR endPos b hb

theorem closeContainerG (x : PExt) (h : LG e X body nl k bd p) (he : StdEol e) (endPos : Int) (h0 : 0 ≤ endPos) :
    (mapLP e X p).closeContainer x (eolPosZ e X endPos) = mapLP e X (p.closeContainer x endPos) ∧
    LG e X body nl k bd (p.closeContainer x endPos) := by
  have hfine := closeBlock_fine (e := e) (X := X) (k := k) (bd := bd) x p.source endPos h0
  have hxt := closeBlock_xtG (e := e) (X := X) (k := k) (bd := bd) x endPos
  refine ⟨closeContainer_simS x h.ok h.src h.fine.toS he endPos, h.ok.closeContainer x endPos,
    by rw [closeContainer_source]; exact h.src, ?_, ?_⟩
  · unfold LP.closeContainer
    split
    · show FineT e X k bd ((closeBlock x p.source endPos p.root).headD p.root)
      cases hc : closeBlock x p.source endPos p.root with
      | nil => exact h.fine
      | cons b t => exact hfine p.root h.fine b (by rw [hc]; simp)
    · exact fineT_spineReplaceLast _ hfine _ _ h.fine
  · unfold LP.closeContainer
    rw [h.src]
    split
    · show XT (X.take k) ((closeBlock x (X.take k) endPos p.root).headD p.root)
      cases hc : closeBlock x (X.take k) endPos p.root with
      | nil => exact h.xt
      | cons b t => exact hxt p.root h.fine h.xt b (by rw [hc]; simp)
    · exact xt_spineReplaceLast_R (FineT e X k bd) fineT_sub _ hxt _ _ h.fine h.xt

theorem closeLastChildG (x : PExt) (h : LG e X body nl k bd p) (he : StdEol e) (endPos : Int) (h0 : 0 ≤ endPos) :
    (mapLP e X p).closeLastChild x (eolPosZ e X endPos) = mapLP e X (p.closeLastChild x endPos) ∧
    LG e X body nl k bd (p.closeLastChild x endPos) := by
  have hcb := hcbG x h he endPos
  have hfine := closeBlock_fine (e := e) (X := X) (k := k) (bd := bd) x p.source endPos h0
  constructor
  · unfold LP.closeLastChild
    have hroot : spineReplaceLast (closeBlock x (mapLP e X p).source (eolPosZ e X endPos)) (mapLP e X p).root (mapLP e X p).depth =
        mapPB (eolPosZ e X) (spineReplaceLast (closeBlock x p.source endPos) p.root p.depth) := by
      rw [mapLP_root, mapLP_source, mapLP_depth, spineReplaceLast_mapP _ _ fineT_sub _ _ hcb _ _ h.fine]
    rw [hroot]
    rfl
  · refine ⟨h.ok.closeLastChild x endPos, h.src, fineT_spineReplaceLast _ hfine _ _ h.fine, ?_⟩
    show XT (X.take k) (spineReplaceLast (closeBlock x p.source endPos) p.root p.depth)
    rw [h.src]
    exact xt_spineReplaceLast_R (FineT e X k bd) fineT_sub _
      (closeBlock_xtG (e := e) (X := X) (k := k) (bd := bd) x endPos) _ _ h.fine h.xt

/-! ### `openBlock` -/

theorem openBlockLoopG (x : PExt) (he : StdEol e) (kind : Nat) : ∀ (fuel : Nat) (p : LP), LG e X body nl k bd p →
    LP.openBlockLoop x kind fuel (mapLP e X p) = mapLP e X (LP.openBlockLoop x kind fuel p) ∧
      LG e X body nl k bd (LP.openBlockLoop x kind fuel p) := by
  intro fuel
  induction fuel with
  | zero => intro p h; exact ⟨rfl, h⟩
  | succ fuel ih =>
    intro p h
    unfold LP.openBlockLoop
    rw [mapLP_containerKind]
    by_cases h1 : canContain p.containerKind kind = true
    · rw [if_pos h1, if_pos h1]; exact ⟨rfl, h⟩
    · rw [if_neg h1, if_neg h1]
      by_cases h2 : (p.depth == 0) = true
      · have h2' : ((mapLP e X p).depth == 0) = true := h2
        rw [if_pos h2', if_pos h2, mapLP_setPanic]
        exact ⟨rfl, h.setPanic _⟩
      · have h2' : ¬ ((mapLP e X p).depth == 0) = true := h2
        rw [if_neg h2', if_neg h2]
        obtain ⟨hc, hg⟩ := closeContainerG x h he (p.lineStart : Int) (Int.natCast_nonneg _)
        rw [mapLP_lineStart_cast] at hc
        rw [hc]
        exact ih _ hg

theorem fineT_appendChild {child : PB} {l : PLabel} {bs : List PB} {is : List Tree} (hc : FineT e X k bd child)
    (hb : FineT e X k bd (.mk l bs is)) : FineT e X k bd (.mk l (bs ++ [child]) is) := by
  rw [FineT_mk] at hb ⊢
  refine ⟨hb.1, ?_⟩
  intro c hc'
  rcases List.mem_append.1 hc' with h1 | h1
  · exact hb.2 c h1
  · simp only [List.mem_singleton] at h1; subst h1; exact hc

/-- Label attributes set by the `Open…Block` wrappers do not involve positions. `hnew`: the new block is fine (it has no
    children; if it is a paragraph its — empty — text is fine; it is not a setext heading). -/
theorem openBlockG (x : PExt) (h : LG e X body nl k bd p) (he : StdEol e) (kind : Nat) (setAttrs : PLabel → PLabel)
    (hf : PosFree setAttrs) (hk : ∀ l, (setAttrs l).kind = l.kind) (hkind : kind ≠ BK.setextHeading) :
    (mapLP e X p).openBlock x kind setAttrs = mapLP e X (p.openBlock x kind setAttrs) ∧
    LG e X body nl k bd (p.openBlock x kind setAttrs) := by
  unfold LP.openBlock
  by_cases h1 : (p.state == stateDescending || p.state == stateDescendTerminated) = true
  · have h1' : ((mapLP e X p).state == stateDescending || (mapLP e X p).state == stateDescendTerminated) = true := h1
    rw [if_pos h1', if_pos h1, mapLP_setPanic]
    exact ⟨rfl, h.setPanic _⟩
  · have h1' : ¬ ((mapLP e X p).state == stateDescending || (mapLP e X p).state == stateDescendTerminated) = true := h1
    rw [if_neg h1', if_neg h1]
    simp only []
    rw [mapLP_markMatched]
    have hq := h.markMatched
    generalize p.markMatched = q at hq
    obtain ⟨a1, a2⟩ := openBlockLoopG x he kind (q.depth + 1) q hq
    rw [mapLP_depth, a1]
    generalize LP.openBlockLoop x kind (q.depth + 1) q = q2 at a2
    obtain ⟨hc, hq3⟩ := closeLastChildG x a2 he (q2.lineStart : Int) (Int.natCast_nonneg _)
    rw [mapLP_lineStart_cast] at hc
    rw [hc]
    generalize q2.closeLastChild x (q2.lineStart : Int) = q3 at hq3
    have hchild : (PB.mk (setAttrs { kind := kind, start := ((mapLP e X q3).lineStart : Int) + ((mapLP e X q3).i : Int) }) [] []) =
        mapPB (eolPosZ e X) (PB.mk (setAttrs { kind := kind, start := (q3.lineStart : Int) + (q3.i : Int) }) [] []) := by
      rw [mapPB]
      have hl := hf { kind := kind, start := (q3.lineStart : Int) + (q3.i : Int) }
        (eolPosZ e X ((q3.lineStart : Int) + (q3.i : Int))) (eolPosZ e X (-1))
      have hl0 := hf { kind := kind, start := (q3.lineStart : Int) + (q3.i : Int) }
        ((q3.lineStart : Int) + (q3.i : Int)) (-1)
      have hid : ({ ({ kind := kind, start := (q3.lineStart : Int) + (q3.i : Int) } : PLabel) with
          start := (q3.lineStart : Int) + (q3.i : Int), stop := -1 } : PLabel) =
          { kind := kind, start := (q3.lineStart : Int) + (q3.i : Int) } := rfl
      rw [hid] at hl0
      have hs1 : (setAttrs { kind := kind, start := (q3.lineStart : Int) + (q3.i : Int) }).start =
          (q3.lineStart : Int) + (q3.i : Int) := by rw [hl0]
      have hs2 : (setAttrs { kind := kind, start := (q3.lineStart : Int) + (q3.i : Int) }).stop = -1 := by rw [hl0]
      rw [hs1, hs2, ← hl, mapLP_cursor_cast hq3.ok, eolPosZ_neg_one]
      rfl
    constructor
    · rw [hchild]
      simp only [mapLP]
      congr 1
      apply spineModify_map
      intro b
      obtain ⟨l, bs, is⟩ := b
      simp only [mapPB, mapPBs_append, mapPBs_singleton]
    · refine ⟨hq3.ok.frame rfl rfl rfl hq3.ok.hi, hq3.src, ?_, ?_⟩
      · show FineT e X k bd (spineModify _ q3.root q3.depth)
        apply fineT_spineModify _ _ _ _ hq3.fine
        intro c hc'
        obtain ⟨l, bs, is⟩ := c
        apply fineT_appendChild _ hc'
        rw [FineT_mk]
        refine ⟨⟨fun _ _ => paraFineB_nil e X k bd, fun _ => ?_⟩, fun _ h' => absurd h' List.not_mem_nil⟩
        rw [hk]; exact hkind
      · exact xt_appendChild _ (XT.leaf (XQ.nil _ _)) _ _ hq3.xt

/-! ### `endBlock`, label changes, inline children of blocks other than paragraphs -/

theorem endBlockG (x : PExt) (h : LG e X body nl k bd p) (he : StdEol e) :
    (mapLP e X p).endBlock x = mapLP e X (p.endBlock x) ∧ LG e X body nl k bd (p.endBlock x) := by
  unfold LP.endBlock
  by_cases h1 : (p.state == stateDescending || p.state == stateDescendTerminated) = true
  · have h1' : ((mapLP e X p).state == stateDescending || (mapLP e X p).state == stateDescendTerminated) = true := h1
    rw [if_pos h1', if_pos h1, mapLP_setPanic]
    exact ⟨rfl, h.setPanic _⟩
  · have h1' : ¬ ((mapLP e X p).state == stateDescending || (mapLP e X p).state == stateDescendTerminated) = true := h1
    rw [if_neg h1', if_neg h1]
    simp only []
    rw [mapLP_markMatched]
    have hq := h.markMatched
    generalize p.markMatched = q at hq
    obtain ⟨a, b⟩ := closeContainerG x hq he ((q.lineStart : Int) + (q.i : Int)) (by omega)
    rw [mapLP_cursor_cast hq.ok] at a
    exact ⟨a, b⟩

theorem LG.modifyLabel (h : LG e X body nl k bd p) (f : PLabel → PLabel) (hk : ∀ l, (f l).kind = l.kind)
    (hs : ∀ l, (f l).stop = l.stop) : LG e X body nl k bd (p.modifyContainer (PB.setLabel f)) :=
  ⟨h.ok.modifyContainer _, h.src, fineT_spineModify _ (fun _ hc => FineT_setLabel hk hs hc) _ _ h.fine,
    xt_spineModify _ (fun _ hc => XT_setLabel (fun l => Or.inl (hk l)) hc) _ _ h.xt⟩

theorem LG.setContainerIndent (h : LG e X body nl k bd p) (n : Int) : LG e X body nl k bd (p.setContainerIndent n) := by
  unfold LP.setContainerIndent
  split
  · exact h.setPanic _
  · split
    · exact h.setPanic _
    · exact h.modifyLabel _ (fun _ => rfl) (fun _ => rfl)

theorem LG.appendInline_np (h : LG e X body nl k bd p) (hn : NotPara p) (t : Tree) (ht : inlOK t = true) :
    LG e X body nl k bd (p.appendInline t) := by
  refine ⟨h.ok.appendInline t, h.src, ?_, ?_⟩
  · unfold LP.appendInline LP.modifyContainer
    apply fineT_spineModify_at _ _ _ h.fine
    intro c hc hf
    obtain ⟨l, bs, is⟩ := c
    simp only []
    rw [FineT_mk] at hf ⊢
    refine ⟨⟨fun _ hk => absurd hk (hn _ hc), hf.1.2⟩, hf.2⟩
  · exact xt_appendInline t ht _ _ h.xt (fun _ => Or.inl hn)

theorem notPara_appendInline (h : NotPara p) (t : Tree) : NotPara (p.appendInline t) := by
  intro c hc hk
  have hc' : spineGet (spineModify (fun b => match b with | .mk l bs is => .mk l bs (is ++ [t])) p.root p.depth) p.depth = some c := hc
  rw [spineGet_modify_self] at hc'
  cases hg : spineGet p.root p.depth with
  | none => rw [hg] at hc'; cases hc'
  | some c0 =>
    rw [hg] at hc'
    simp only [Option.map_some, Option.some.injEq] at hc'
    subst hc'
    obtain ⟨l, bs, is⟩ := c0
    exact h _ hg hk

theorem LG.collectInline_np (x : PExt) (h : LG e X body nl k bd p) (hn : NotPara p) (kind n : Nat) :
    LG e X body nl k bd (p.collectInline x kind n) := by
  rw [CM.Proofs.collectInline_eq]
  split
  · exact h.setPanic _
  · have hq := h.markMatched
    have hnq : NotPara p.markMatched := hn.of_fr (fr_markMatched p)
    generalize p.markMatched = q at hq hnq
    have h2 : LG e X body nl k bd (collectIndent q) ∧ NotPara (collectIndent q) := by
      unfold collectIndent
      split
      · have hn1 := hnq.of_fr (fr_advance q (indentLength (q.line.drop q.i)))
        refine ⟨(hq.advance _).appendInline_np hn1 _ ?_, notPara_appendInline hn1 _⟩
        have h1 := advance_i_ge q (indentLength (q.line.drop q.i))
        have h3 := CM.Proofs.advance_lineStart q (indentLength (q.line.drop q.i))
        apply inlOK_leaf
        show ((q.lineStart + q.i : Nat) : Int) ≤ ((q.advance (indentLength (q.line.drop q.i))).lineStart : Int) +
          ((q.advance (indentLength (q.line.drop q.i))).i : Int)
        rw [h3]; omega
      · exact ⟨hq, hnq⟩
    obtain ⟨h2a, h2b⟩ := h2
    unfold collectTail
    simp only []
    have hn3 := h2b.of_fr (fr_advance (collectIndent q) n)
    have h1 := advance_i_ge (collectIndent q) n
    have h3 := CM.Proofs.advance_lineStart (collectIndent q) n
    have hle : (((collectIndent q).lineStart + (collectIndent q).i : Nat) : Int) ≤
        ((((collectIndent q).advance n).lineStart + ((collectIndent q).advance n).i : Nat) : Int) := by
      rw [h3]; omega
    split
    · apply (h2a.advance n).appendInline_np hn3
      apply inlOK_mkInline _ _ _ _ hle
      exact infoStringLoop_ge _ _ _ _ _ _ _ _ rfl (Int.le_refl _) (Int.le_refl _)
    · apply (h2a.advance n).appendInline_np hn3
      exact inlOK_mkInline _ _ _ _ hle rfl

end

end CM.Proofs.EolG
