import CM.Proofs.RefDefSpansRd4
/-
C02, block half — `RefDefSpansOK` for paragraphs made of lines, part 5: the blocks `refDefLoop` produces
(assembly lemmas), the induction over `refDefLoop`.
-/
namespace CM.Proofs.RDS
open CM CM.Model CM.Gen CM.Proofs CM.Proofs.BSp

/-! ### Inline children: consequences of `InlsOK` -/

theorem inls_bounds {lo hi : Int} : ∀ {is : List Tree}, InlsOK lo hi is →
    ∀ t ∈ is, lo ≤ t.label.start ∧ t.label.start ≤ t.label.stop ∧ t.label.stop ≤ hi := by
  intro is
  induction is generalizing lo with
  | nil => intro _ t ht; cases ht
  | cons a rest ih =>
    intro h t ht
    rw [InlsOK_cons] at h
    rcases List.mem_cons.mp ht with rfl | ht'
    · exact ⟨h.1, h.2.1, h.2.2.1⟩
    · have := ih h.2.2.2 t ht'
      exact ⟨by omega, this.2.1, this.2.2⟩

theorem inls_sorted {lo hi : Int} : ∀ {is : List Tree}, InlsOK lo hi is → SortedSpans is := by
  intro is
  induction is generalizing lo with
  | nil => intro _; exact List.Pairwise.nil
  | cons a rest ih =>
    intro h
    rw [InlsOK_cons] at h
    exact List.pairwise_cons.mpr ⟨fun u hu => (inls_bounds h.2.2.2 u hu).1, ih h.2.2.2⟩

theorem ctx_of_inls {src : Bytes} {lo hi : Int} {is : List Tree} (h0 : 0 ≤ lo) (hi' : InlsOK lo hi is)
    (hN : ∀ t ∈ is, NodeOK src t) : Ctx src is :=
  ⟨inls_sorted hi', hN, fun t ht => by have := (inls_bounds hi' t ht).1; omega⟩

theorem inlLast_eq_getLast (d : Int) : ∀ (is : List Tree) (lo : Int), is ≠ [] →
    (is.getLast?.map (·.label.stop)).getD d = inlLast lo is := by
  intro is
  induction is with
  | nil => intro _ h; exact absurd rfl h
  | cons a rest ih =>
    intro lo _
    cases rest with
    | nil => simp [inlLast]
    | cons b rest' =>
      rw [List.getLast?_cons_cons]
      simp only [inlLast]
      have := ih a.label.stop (by simp)
      simpa [inlLast] using this

/-- Every inline child ends at or before the end of the last one. -/
theorem inls_le_last {lo hi : Int} {is : List Tree} (h : InlsOK lo hi is) :
    ∀ t ∈ is, t.label.start ≤ inlLast lo is ∧ t.label.stop ≤ inlLast lo is := by
  have h' := InlsOK_lower h (Int.le_refl (inlLast lo is))
  intro t ht
  have := inls_bounds h' t ht
  omega

/-! ### Assembling the blocks -/

@[simp] theorem mkInlineRef_start (k : Nat) (a b : Int) (ref : Bytes) (ks : List Tree) :
    (mkInlineRef k a b ref ks).label.start = a := rfl
@[simp] theorem mkInlineRef_stop (k : Nat) (a b : Int) (ref : Bytes) (ks : List Tree) :
    (mkInlineRef k a b ref ks).label.stop = b := rfl

/-- A closed block without block children. -/
theorem leaf_spans {lo HI : Int} {l : PLabel} {is : List Tree} (h1 : lo ≤ l.start) (h2 : l.start ≤ l.stop)
    (h3 : 0 ≤ l.stop) (h4 : l.stop ≤ HI) (hi : InlsOK l.start l.stop is) : PBSpans QT lo HI (.mk l [] is) := by
  rw [PBSpans_mk, endOf_closed h3]
  exact ⟨h1, h2, h4, hi, PBSpansL_nil _ _ _ _, Or.inr rfl, fun ho => by omega⟩

theorem refdef_spans {lo HI s e : Int} {kids : List Tree} (h1 : lo ≤ s) (h2 : s ≤ e) (h3 : 0 ≤ e) (h4 : e ≤ HI)
    (hk : InlsOK s e kids) : PBSpans QT lo HI (mkPB BK.linkRefDef s e kids) :=
  leaf_spans (l := { kind := BK.linkRefDef, start := s, stop := e }) h1 h2 h3 h4 hk

theorem kids2 {s e a1 a2 b1 b2 : Int} {ref : Bytes} {k1 k2 : List Tree} (c1 : s ≤ a1) (c2 : a1 ≤ a2) (c3 : a2 ≤ b1)
    (c4 : b1 ≤ b2) (c5 : b2 ≤ e) :
    InlsOK s e [mkInlineRef IK.linkLabel a1 a2 ref k1, mkInline IK.linkDest b1 b2 k2] := by
  simp only [InlsOK_cons, mkInlineRef_start, mkInlineRef_stop, mkInline_start, mkInline_stop]
  exact ⟨c1, c2, by omega, c3, c4, c5, InlsOK_nil _ _⟩

theorem kids3 {s e a1 a2 b1 b2 d1 d2 : Int} {ref : Bytes} {k1 k2 k3 : List Tree} (c1 : s ≤ a1) (c2 : a1 ≤ a2)
    (c3 : a2 ≤ b1) (c4 : b1 ≤ b2) (c5 : b2 ≤ d1) (c6 : d1 ≤ d2) (c7 : d2 ≤ e) :
    InlsOK s e [mkInlineRef IK.linkLabel a1 a2 ref k1, mkInline IK.linkDest b1 b2 k2, mkInline IK.linkTitle d1 d2 k3] := by
  simp only [InlsOK_cons, mkInlineRef_start, mkInlineRef_stop, mkInline_start, mkInline_stop]
  exact ⟨c1, c2, by omega, c3, c4, by omega, c5, c6, c7, InlsOK_nil _ _⟩

/-- Appending a closed block. -/
theorem snoc_closed {lo HI : Int} {result : List PB} {b : PB} (hres : PBSpansL QT false lo HI result)
    (hb : PBSpans QT (pbLast lo result) HI b) (hc : 0 ≤ b.label.stop) :
    PBSpansL QT false lo HI (result ++ [b]) ∧ pbLast lo (result ++ [b]) = b.label.stop := by
  constructor
  · rw [PBSpansL_snoc]
    refine ⟨hres, hb, fun ho => ?_⟩
    rw [isOpen_iff] at ho; omega
  · rw [pbLast_append]; rfl

/-- Giving up: the rest of the paragraph is the last block. -/
theorem giveUp_spans {lo HI : Int} {po : Bool} {result : List PB} {l : PLabel} {is : List Tree}
    (hres : PBSpansL QT false lo HI result) (hl : pbLast lo result ≤ l.start) (hs : l.start ≤ HI) (hstop : l.stop = HI)
    (hHI : 0 ≤ HI) (hi : InlsOK l.start HI is) : PBSpansL QT po lo HI (result ++ [.mk l [] is]) := by
  have hb : PBSpans QT (pbLast lo result) HI (.mk l [] is) :=
    leaf_spans hl (by omega) (by omega) (by omega) (by rw [hstop]; exact hi)
  exact PBSpansL_po (snoc_closed hres hb (by show 0 ≤ l.stop; omega)).1

/-- The orphan paragraph (if any) may follow any list of closed blocks ending at or before `N`. -/
def OrphOK (N : Nat) (HI : Int) (po : Bool) (orphan : Option PB) : Prop :=
  ∀ o, orphan = some o → po = true ∧ ∀ e : Int, e ≤ (N : Int) → PBSpans QT e HI o

theorem withOrphan_spans {lo HI : Int} {po : Bool} {N : Nat} {orphan : Option PB} (ho : OrphOK N HI po orphan)
    {res : List PB} (hres : PBSpansL QT false lo HI res) (hl : pbLast lo res ≤ (N : Int)) :
    PBSpansL QT po lo HI (orphan.elim res (fun o => res ++ [o])) := by
  cases orphan with
  | none => exact PBSpansL_po hres
  | some o =>
    obtain ⟨hpo, hsp⟩ := ho o rfl
    show PBSpansL QT po lo HI (res ++ [o])
    rw [PBSpansL_snoc]
    exact ⟨hres, hsp _ hl, fun _ => hpo⟩

theorem orphan_blk {B HI e : Int} {lsp : Nat} (he : e ≤ B) (h1 : B ≤ (lsp : Int)) (h2 : (lsp : Int) ≤ HI) :
    PBSpans QT e HI (mkPB BK.paragraph B (-1) [mkInline IK.unparsed lsp HI]) := by
  unfold mkPB
  have hl : ({ kind := BK.paragraph, start := B, stop := -1 } : PLabel).stop < 0 := by
    show (-1 : Int) < 0; decide
  rw [PBSpans_mk, endOf_open hl]
  refine ⟨he, by show B ≤ HI; omega, Int.le_refl _, ?_, PBSpansL_nil _ _ _ _, Or.inr rfl, fun _ => ⟨?_, fun _ => rfl⟩⟩
  · show InlsOK B HI _
    simp only [InlsOK_cons, mkInline_start, mkInline_stop]
    exact ⟨h1, h2, Int.le_refl _, InlsOK_nil _ _⟩
  · show BK.paragraph ≠ BK.setextHeading
    decide

theorem ite_prop {α : Type} {P : α → Prop} {c : Prop} [Decidable c] {a b : α} (h1 : c → P a) (h2 : ¬ c → P b) :
    P (if c then a else b) := by
  split
  · exact h1 ‹_›
  · exact h2 ‹_›

theorem valid_le {s : SpanI} (h : s.isValid = true) : s.start ≤ s.stop := by
  simp only [SpanI.isValid, Bool.and_eq_true, decide_eq_true_eq] at h
  exact h.2

/-! ### The loop -/

theorem refDefLoop_spans (x : PExt) (src : Bytes) (orphan : Option PB) (lo HI : Int) (po : Bool) (N : Nat)
    (hHI : 0 ≤ HI) (hNH : (N : Int) ≤ HI) (ho : OrphOK N HI po orphan) :
    ∀ (fuel : Nat) (r : Rd) (l : PLabel) (is : List Tree) (result : List PB) (p : Nat),
      Ctx src is → Good src is N p r → l.stop = HI → InlsOK l.start HI is →
      PBSpansL QT false lo HI result → pbLast lo result ≤ l.start → l.start ≤ (r.pos : Int) →
      PBSpansL QT po lo HI (refDefLoop x src orphan fuel r l is result) := by
  intro fuel
  induction fuel with
  | zero =>
    intro r l is result p hc hg hstop hi hres hl hlr
    have := hg.pos_le
    exact giveUp_spans hres hl (by omega) hstop hHI hi
  | succ fuel ih =>
    intro r l is result p hc hg hstop hi hres hl hlr
    have hrN := hg.pos_le
    have hgive : PBSpansL QT po lo HI (result ++ [PB.mk l [] is]) := giveUp_spans hres hl (by omega) hstop hHI hi
    have IT := @ite_prop (List PB) (PBSpansL QT po lo HI)
    have cl := fun q => good_closed hc N q
    rcases e1 : parseLinkLabel src (rdFuel src is) r with ⟨label, r1⟩
    rcases e2 : r1.current src with ⟨c2, r2⟩
    rcases e3 : r2.next src with ⟨ok3, r3⟩
    rcases e4 : skipLinkSpace src (rdFuel src is) r3 with ⟨ok4, r4⟩
    rcases e5 : parseLinkDestination src (rdFuel src is) r4 with ⟨dest, r5⟩
    rcases e6 : readEOL src (rdFuel src is) r5 with ⟨destEOL, r6⟩
    rcases e7 : r6.current src with ⟨c7, r7⟩
    rcases e8 : skipLinkSpace src (rdFuel src is) r7 with ⟨ok8, r8⟩
    rcases e9 : parseLinkTitle src (rdFuel src is) r8 with ⟨title, r9⟩
    rcases e10 : readEOL src (rdFuel src is) r9 with ⟨titleEOL, r10⟩
    -- the readers
    have g1 : Good src is N r.pos r1 := by
      have := parseLinkLabel_cl (cl r.pos) (rdFuel src is) r hg.here; rw [e1] at this; exact this
    have g2 : Good src is N r1.pos r2 := (cl r1.pos).cur' g1.here e2
    have g3 : Good src is N r1.pos r3 := (cl r1.pos).nxt' g2 e3
    have g4 : Good src is N r1.pos r4 := by
      have := skipLinkSpace_cl (cl r1.pos) (rdFuel src is) r3 g3; rw [e4] at this; exact this
    have g5 : Good src is N r4.pos r5 := by
      have := parseLinkDestination_cl (cl r4.pos) (rdFuel src is) r4 g4.here; rw [e5] at this; exact this
    have g6 : Good src is N r5.pos r6 := by
      have := readEOL_cl (cl r5.pos) (rdFuel src is) r5 g5.here; rw [e6] at this; exact this
    have g7 : Good src is N r6.pos r7 := (cl r6.pos).cur' g6.here e7
    have g8 : Good src is N r6.pos r8 := by
      have := skipLinkSpace_cl (cl r6.pos) (rdFuel src is) r7 g7; rw [e8] at this; exact this
    have g9 : Good src is N r8.pos r9 := by
      have := parseLinkTitle_cl (cl r8.pos) (rdFuel src is) r8 g8.here; rw [e9] at this; exact this
    have g10 : Good src is N r9.pos r10 := by
      have := readEOL_cl (cl r9.pos) (rdFuel src is) r9 g9.here; rw [e10] at this; exact this
    have p1 := g1.le; have p4 := g4.le; have p5 := g5.le; have p6 := g6.le; have p8 := g8.le; have p9 := g9.le
    have p10 := g10.le
    have n6 := g6.pos_le; have n10 := g10.pos_le
    -- a negative `destEOL` makes the second `skipLinkSpace` succeed
    have hneg : destEOL < 0 → ok8 = true := by
      intro hn
      obtain ⟨c, hcc, c0, cs⟩ := readEOL_neg (rdFuel src is) r5 g5.rd e6 hn
      rw [hcc] at e7
      simp only [Prod.mk.injEq] at e7
      obtain ⟨rfl, rfl⟩ := e7
      obtain ⟨k, hk⟩ := rdFuel_pos src is
      rw [hk, skipLinkSpace_true k hcc c0 cs] at e8
      simp only [Prod.mk.injEq] at e8
      exact e8.1.symm
    rw [refDefLoop]
    simp only [e1]
    simp only [e2]
    simp only [e3]
    simp only [e4]
    simp only [e5]
    simp only [e6]
    simp only [e7]
    simp only [e8]
    simp only [e9]
    simp only [e10]
    generalize (transformLinkReferenceSpan x.fold src is label.inner.start.toNat label.inner.stop.toNat) = ref
    generalize (collectTextNodes x.ext src label.inner.stop.toNat IK.text false (rdFuel src is)
      (newReader is label.inner.start.toNat) label.inner.start.toNat []) = k1
    generalize (collectTextNodes x.ext src dest.text.stop.toNat IK.text true (rdFuel src is)
      (newReader is dest.text.start.toNat) dest.text.start.toNat []) = k2
    generalize (collectTextNodes x.ext src title.text.stop.toNat IK.text true (rdFuel src is)
      (newReader is title.text.start.toNat) title.text.start.toNat []) = k3
    generalize hb1 : mkPB BK.linkRefDef label.span.start destEOL
      [mkInlineRef IK.linkLabel label.inner.start label.inner.stop ref k1,
       mkInline IK.linkDest dest.span.start dest.span.stop k2] = b1
    generalize hb2 : mkPB BK.linkRefDef label.span.start titleEOL
      [mkInlineRef IK.linkLabel label.inner.start label.inner.stop ref k1,
       mkInline IK.linkDest dest.span.start dest.span.stop k2,
       mkInline IK.linkTitle title.span.start title.span.stop k3] = b2
    refine IT (fun _ => hgive) (fun hv => ?_)
    have hv' : label.span.isValid = true := by simpa using hv
    obtain ⟨L1, L2, L3, L4⟩ := parseLinkLabel_spec hc (rdFuel src is) hg e1 hv'
    refine IT (fun _ => hgive) (fun _ => ?_)
    refine IT (fun _ => hgive) (fun _ => ?_)
    refine IT (fun _ => hgive) (fun hdv => ?_)
    have hdv' : dest.span.isValid = true := by simpa using hdv
    obtain ⟨D1, D2⟩ := parseLinkDestination_spec hc (rdFuel src is) g4 e5 hdv'
    have D3 := valid_le hdv'
    refine IT (fun _ => hgive) (fun _ => ?_)
    -- the block ending at `destEOL`
    have blk1 : 0 ≤ destEOL → (r5.pos : Int) ≤ destEOL ∧ destEOL ≤ (r6.pos : Int) ∧ Bdry is r6.pos ∧
        PBSpansL QT false lo HI (result ++ [b1]) ∧ pbLast lo (result ++ [b1]) = destEOL := by
      intro h0
      obtain ⟨E1, E2, E3⟩ := readEOL_spec hc (rdFuel src is) g5 (mu_lt_fuel g5.ri) e6 h0
      have hb := refdef_spans (lo := pbLast lo result) (HI := HI) (s := label.span.start) (e := destEOL)
        (by omega) (by omega) h0 (by omega)
        (kids2 (ref := ref) (k1 := k1) (k2 := k2) (a1 := label.inner.start) (a2 := label.inner.stop)
          (b1 := dest.span.start) (b2 := dest.span.stop) (by omega) L3 (by omega) D3 (by omega))
      rw [hb1] at hb
      have := snoc_closed hres hb (by rw [← hb1]; exact h0)
      refine ⟨E1, E2, E3, this.1, ?_⟩
      rw [this.2, ← hb1]; rfl
    -- stopping after the block ending at `destEOL`: the orphan (if any) follows
    have stop6 : 0 ≤ destEOL → PBSpansL QT po lo HI (orphan.elim (result ++ [b1]) (fun o => (result ++ [b1]) ++ [o])) := by
      intro h0
      obtain ⟨E1, E2, E3, B1, B2⟩ := blk1 h0
      exact withOrphan_spans ho B1 (by rw [B2]; omega)
    -- continuing after the block ending at `destEOL`
    have cont6 : 0 ≤ destEOL → ∀ fc, nodeIndexForPosition is r6.pos 0 = some fc →
        PBSpansL QT po lo HI ((result ++ [b1]) ++ [PB.mk { l with start := r6.pos } [] (is.drop fc)]) ∧
        PBSpansL QT po lo HI (refDefLoop x src orphan fuel r6 { l with start := r6.pos } (is.drop fc) (result ++ [b1])) := by
      intro h0 fc hfc
      obtain ⟨E1, E2, E3, B1, B2⟩ := blk1 h0
      obtain ⟨I1, I2⟩ := drop_at_bdry hc g6.ri E3 hfc hi
      constructor
      · exact giveUp_spans (l := { l with start := r6.pos }) B1 (by rw [B2]; exact E2) (by show (r6.pos : Int) ≤ HI; omega)
          hstop hHI I1
      · exact ih r6 { l with start := r6.pos } (is.drop fc) _ r6.pos (hc.drop fc) ⟨Nat.le_refl _, g6.rd, I2⟩ hstop I1 B1
          (by rw [B2]; exact E2) (Int.le_refl _)
    refine IT (fun hok => ?_) (fun _ => ?_)
    · have hd0 : 0 ≤ destEOL := by
        by_cases hn : destEOL < 0
        · have := hneg hn; simp [this] at hok
        · omega
      have := stop6 hd0
      revert this
      cases orphan <;> exact fun h => h
    · refine IT (fun _ => ?_) (fun htv => ?_)
      · refine IT (fun _ => hgive) (fun hd => ?_)
        have hd0 : 0 ≤ destEOL := by omega
        cases hfc : nodeIndexForPosition is r6.pos 0 with
        | none =>
          have := stop6 hd0
          revert this
          cases orphan <;> exact fun h => h
        | some fc => exact (cont6 hd0 fc hfc).2
      · have htv' : title.span.isValid = true := by simpa using htv
        obtain ⟨T1, T2⟩ := parseLinkTitle_spec hc (rdFuel src is) g8 e9 htv'
        have T3 := valid_le htv'
        refine IT (fun _ => ?_) (fun ht => ?_)
        · refine IT (fun _ => hgive) (fun hd => ?_)
          have hd0 : 0 ≤ destEOL := by omega
          cases hfc : nodeIndexForPosition is r6.pos 0 with
          | none =>
            have := stop6 hd0
            revert this
            cases orphan <;> exact fun h => h
          | some fc => exact (cont6 hd0 fc hfc).1
        · have ht0 : 0 ≤ titleEOL := by omega
          obtain ⟨E1, E2, E3⟩ := readEOL_spec hc (rdFuel src is) g9 (mu_lt_fuel g9.ri) e10 ht0
          have hb := refdef_spans (lo := pbLast lo result) (HI := HI) (s := label.span.start) (e := titleEOL)
            (by omega) (by omega) ht0 (by omega)
            (kids3 (ref := ref) (k1 := k1) (k2 := k2) (k3 := k3) (a1 := label.inner.start) (a2 := label.inner.stop)
              (b1 := dest.span.start) (b2 := dest.span.stop) (d1 := title.span.start) (d2 := title.span.stop)
              (by omega) L3 (by omega) D3 (by omega) T3 (by omega))
          rw [hb2] at hb
          obtain ⟨B1, B2'⟩ := snoc_closed hres hb (by rw [← hb2]; exact ht0)
          have B2 : pbLast lo (result ++ [b2]) = titleEOL := by rw [B2', ← hb2]; rfl
          cases hfc : nodeIndexForPosition is r10.pos 0 with
          | none =>
            have := withOrphan_spans ho B1 (by rw [B2]; omega)
            revert this
            cases orphan <;> exact fun h => h
          | some fc =>
            obtain ⟨I1, I2⟩ := drop_at_bdry hc g10.ri E3 hfc hi
            exact ih r10 { l with start := r10.pos } (is.drop fc) _ r10.pos (hc.drop fc) ⟨Nat.le_refl _, g10.rd, I2⟩ hstop I1
              B1 (by rw [B2]; exact E2) (Int.le_refl _)

end CM.Proofs.RDS
