import CM.Model.Stream
/-
C02, block half — definitions.

`PBSpans Q lo hi b`: the block `b` of the tree under construction has a valid span inside `[lo, hi]`
(an open block is read as `[start, hi)`), its block children are in order, pairwise non-overlapping and inside the
block's span, only the last block child may be open and only if the block itself is open, its inline children
(`Tree` labels `start`/`stop`) are in order, valid and inside the block's span.

Besides the spans, `PBSpans` carries the little shape information the block phase needs to keep the spans valid:
  * a block that is not a container (document, list, list item, block quote) has no block children;
  * no *open* block is a setext heading (a setext heading is closed in the same step that creates it);
  * every *open paragraph* satisfies the parameter `Q` (a Boolean predicate on its label and inline children).
    `Q := QT` (always true) gives the plain span predicate; the block phase instantiates `Q` with
    "`onCloseParagraph` on this paragraph returns blocks with valid spans" (`RefDefSpansOK`).

Everything is Boolean (`pbSpans`), so all statements about concrete trees are decidable by evaluation.
-/
namespace CM.Proofs.BSp
open CM CM.Model CM.Gen

/-- A Boolean predicate on (the label and the inline children of) an open paragraph. -/
abbrev ParaPred := PLabel → List Tree → Bool

/-- The trivial predicate. -/
def QT : ParaPred := fun _ _ => true

/-- The kinds whose blocks have block children. -/
def isContainerKind (k : Nat) : Bool :=
  k == BK.document || k == BK.list || k == BK.listItem || k == BK.blockQuote

/-- Inline children: each `lo ≤ start ≤ stop ≤ hi`, in order, non-overlapping (`stopᵢ ≤ startᵢ₊₁`). -/
def inlsOK : Int → Int → List Tree → Bool
  | _, _, [] => true
  | lo, hi, t :: rest =>
    decide (lo ≤ t.label.start) && decide (t.label.start ≤ t.label.stop) && decide (t.label.stop ≤ hi)
      && inlsOK t.label.stop hi rest

/-- The end of a block's span: `hi` while the block is open. -/
def endOf (hi : Int) (l : PLabel) : Int := if l.stop < 0 then hi else l.stop

mutual
/-- Boolean version of `PBSpans`. -/
def pbSpans (Q : ParaPred) (lo hi : Int) : PB → Bool
  | .mk l bs is =>
    decide (lo ≤ l.start) && decide (l.start ≤ endOf hi l) && decide (endOf hi l ≤ hi)
      && inlsOK l.start (endOf hi l) is
      && pbSpansL Q (decide (l.stop < 0)) l.start (endOf hi l) bs
      && (isContainerKind l.kind || bs.isEmpty)
      && (!decide (l.stop < 0) || (l.kind != BK.setextHeading && (l.kind != BK.paragraph || Q l is)))
/-- The block children of a block whose span is `[lo, hi]`: in order (`lo` is threaded through the list as the end of
    the previous sibling), only the last may be open, and only if the parent is. -/
def pbSpansL (Q : ParaPred) (parentOpen : Bool) (lo hi : Int) : List PB → Bool
  | [] => true
  | b :: rest =>
    pbSpans Q lo hi b
      && (!b.isOpen || (rest.isEmpty && parentOpen))
      && pbSpansL Q parentOpen b.label.stop hi rest
end

/-- **Valid, nested, ordered spans** of a block under construction (see the header of this file). -/
def PBSpans (Q : ParaPred) (lo hi : Int) (b : PB) : Prop := pbSpans Q lo hi b = true
def PBSpansL (Q : ParaPred) (parentOpen : Bool) (lo hi : Int) (bs : List PB) : Prop := pbSpansL Q parentOpen lo hi bs = true
def InlsOK (lo hi : Int) (is : List Tree) : Prop := inlsOK lo hi is = true

instance (Q lo hi b) : Decidable (PBSpans Q lo hi b) := by unfold PBSpans; infer_instance
instance (Q po lo hi bs) : Decidable (PBSpansL Q po lo hi bs) := by unfold PBSpansL; infer_instance
instance (lo hi is) : Decidable (InlsOK lo hi is) := by unfold InlsOK; infer_instance

/-! ### Reading the Boolean definitions -/

theorem InlsOK_nil (lo hi : Int) : InlsOK lo hi [] := rfl

theorem InlsOK_cons {lo hi : Int} {t : Tree} {rest : List Tree} :
    InlsOK lo hi (t :: rest) ↔ lo ≤ t.label.start ∧ t.label.start ≤ t.label.stop ∧ t.label.stop ≤ hi ∧
      InlsOK t.label.stop hi rest := by
  simp only [InlsOK, inlsOK, Bool.and_eq_true, decide_eq_true_eq, and_assoc]

/-- The shape part of `PBSpans` at one block. -/
def ShapeOK (Q : ParaPred) (l : PLabel) (bs : List PB) (is : List Tree) : Prop :=
  (isContainerKind l.kind = true ∨ bs = []) ∧
  (l.stop < 0 → l.kind ≠ BK.setextHeading ∧ (l.kind = BK.paragraph → Q l is = true))

theorem PBSpans_mk {Q : ParaPred} {lo hi : Int} {l : PLabel} {bs : List PB} {is : List Tree} :
    PBSpans Q lo hi (.mk l bs is) ↔
      lo ≤ l.start ∧ l.start ≤ endOf hi l ∧ endOf hi l ≤ hi ∧ InlsOK l.start (endOf hi l) is ∧
      PBSpansL Q (decide (l.stop < 0)) l.start (endOf hi l) bs ∧ ShapeOK Q l bs is := by
  simp only [PBSpans, pbSpans, PBSpansL, InlsOK, ShapeOK, Bool.and_eq_true, decide_eq_true_eq, Bool.or_eq_true,
    Bool.not_eq_true', decide_eq_false_iff_not, bne_iff_ne, ne_eq, List.isEmpty_iff, and_assoc]
  constructor
  · rintro ⟨h1, h2, h3, h4, h5, h6, h7⟩
    refine ⟨h1, h2, h3, h4, h5, h6, ?_⟩
    intro ho
    rcases h7 with h7 | h7
    · exact absurd ho h7
    · refine ⟨h7.1, fun hk => ?_⟩
      rcases h7.2 with h8 | h8
      · exact absurd hk h8
      · exact h8
  · rintro ⟨h1, h2, h3, h4, h5, h6, h7⟩
    refine ⟨h1, h2, h3, h4, h5, h6, ?_⟩
    by_cases ho : l.stop < 0
    · right
      refine ⟨(h7 ho).1, ?_⟩
      by_cases hk : l.kind = BK.paragraph
      · right; exact (h7 ho).2 hk
      · left; exact hk
    · left; exact ho

theorem PBSpansL_nil (Q : ParaPred) (po : Bool) (lo hi : Int) : PBSpansL Q po lo hi [] := rfl

theorem PBSpansL_cons {Q : ParaPred} {po : Bool} {lo hi : Int} {b : PB} {rest : List PB} :
    PBSpansL Q po lo hi (b :: rest) ↔
      PBSpans Q lo hi b ∧ (b.isOpen = true → rest = [] ∧ po = true) ∧ PBSpansL Q po b.label.stop hi rest := by
  simp only [PBSpansL, pbSpansL, PBSpans, Bool.and_eq_true, Bool.or_eq_true, Bool.not_eq_true', List.isEmpty_iff,
    and_assoc]
  constructor
  · rintro ⟨h1, h2, h3⟩
    refine ⟨h1, fun ho => ?_, h3⟩
    rcases h2 with h2 | h2
    · rw [ho] at h2; cases h2
    · exact h2
  · rintro ⟨h1, h2, h3⟩
    refine ⟨h1, ?_, h3⟩
    cases ho : b.isOpen
    · left; rfl
    · right; exact h2 ho

theorem isOpen_mk (l : PLabel) (bs : List PB) (is : List Tree) : (PB.mk l bs is).isOpen = decide (l.stop < 0) := rfl

theorem isOpen_iff (b : PB) : b.isOpen = true ↔ b.label.stop < 0 := by
  cases b; exact decide_eq_true_iff

theorem isOpen_false_iff (b : PB) : b.isOpen = false ↔ 0 ≤ b.label.stop := by
  cases b
  show decide (_ < 0) = false ↔ _
  rw [decide_eq_false_iff_not]; exact Int.not_lt

theorem endOf_open {hi : Int} {l : PLabel} (h : l.stop < 0) : endOf hi l = hi := by simp [endOf, h]
theorem endOf_closed {hi : Int} {l : PLabel} (h : 0 ≤ l.stop) : endOf hi l = l.stop := by
  have : ¬ l.stop < 0 := by omega
  simp [endOf, this]

end CM.Proofs.BSp
