import CM.Spec.HtmlWF
import CM.Basic.Forall
/-
Escaping lemmas: what `escapeHTML` (cases regenerated from the Go source), `html.EscapeString`,
`decimal`, `spaces` produce is escaped character data.
-/
namespace CM.Proofs
open CM CM.Model CM.Spec CM.Gen

theorem markupFree_append (a b : Bytes) : markupFree (a ++ b) = (markupFree a && markupFree b) := by
  simp [markupFree]

theorem markupFree_nil : markupFree [] = true := rfl

theorem hasBytePrefix_append_right (a e b : Bytes) (h : hasBytePrefix a e = true) : hasBytePrefix (a ++ b) e = true := by
  induction e generalizing a with
  | nil => cases a <;> simp [hasBytePrefix]
  | cons p ps ih =>
    cases a with
    | nil => simp [hasBytePrefix] at h
    | cons c cs =>
      simp only [hasBytePrefix, List.cons_append, Bool.and_eq_true] at h ⊢
      exact ⟨h.1, ih cs h.2⟩

theorem hasBytePrefix_self_append (e b : Bytes) : hasBytePrefix (e ++ b) e = true := by
  induction e with
  | nil => cases b <;> simp [hasBytePrefix]
  | cons p ps ih => simp [hasBytePrefix, ih]

theorem ampOK_append (a b : Bytes) (ha : ampOK a = true) (hb : ampOK b = true) : ampOK (a ++ b) = true := by
  induction a with
  | nil => simpa using hb
  | cons c rest ih =>
    simp only [ampOK, Bool.and_eq_true, Bool.or_eq_true, List.cons_append] at ha ⊢
    refine ⟨?_, ih ha.2⟩
    rcases ha.1 with h | h
    · exact Or.inl h
    · right
      simp only [List.any_eq_true] at h ⊢
      obtain ⟨e, he, hp⟩ := h
      exact ⟨e, he, hasBytePrefix_append_right rest e b hp⟩

theorem safeData_append (a b : Bytes) (ha : safeData a = true) (hb : safeData b = true) : safeData (a ++ b) = true := by
  simp only [safeData, Bool.and_eq_true, markupFree_append] at *
  exact ⟨⟨ha.1, hb.1⟩, ampOK_append a b ha.2 hb.2⟩

theorem safeData_nil : safeData [] = true := rfl

/-- A string without `&` does not affect `ampOK` of what follows. -/
theorem ampOK_noAmp_append (e b : Bytes) (h : e.all (· != 0x26) = true) : ampOK (e ++ b) = ampOK b := by
  induction e with
  | nil => rfl
  | cons c cs ih =>
    simp only [List.all_cons, Bool.and_eq_true] at h
    simp only [List.cons_append, ampOK, h.1, Bool.true_or, Bool.true_and, ih h.2]

/-- An escape `&name` followed by escaped data is escaped data. -/
theorem ampOK_escape (e b : Bytes) (he : escapeNames.contains e = true) (hn : e.all (· != 0x26) = true) :
    ampOK (0x26 :: (e ++ b)) = ampOK b := by
  simp only [ampOK, bne_self_eq_false, Bool.false_or, ampOK_noAmp_append e b hn]
  have : escapeNames.any (hasBytePrefix (e ++ b)) = true := by
    simp only [List.any_eq_true]
    exact ⟨e, by simpa using he, hasBytePrefix_self_append e b⟩
  simp [this]

/-- Per-byte shape of an escaping function: the byte itself (not `&`, not markup) or `&` + an escape name. -/
def EscShape (f : UInt8 → Bytes) (c : UInt8) : Bool :=
  (f c == [c] && c != 0x26 && !isMarkupByte c) ||
  escapeNames.any (fun e => f c == 0x26 :: e && e.all (fun x => x != 0x26 && !isMarkupByte x))

theorem safeData_flatMap (f : UInt8 → Bytes) (h : ∀ c, EscShape f c = true) (s : Bytes) :
    safeData (s.flatMap f) = true := by
  induction s with
  | nil => rfl
  | cons c cs ih =>
    simp only [List.flatMap_cons]
    have hc := h c
    simp only [EscShape, Bool.or_eq_true, Bool.and_eq_true, List.any_eq_true] at hc
    simp only [safeData, Bool.and_eq_true] at ih ⊢
    rcases hc with ⟨⟨h1, h2⟩, h3⟩ | ⟨e, he, h1, h2⟩
    · have h1' : f c = [c] := by simpa using h1
      rw [h1']
      simp only [List.cons_append, List.nil_append, markupFree, List.all_cons, ampOK, h2, Bool.true_or, Bool.true_and, h3]
      exact ⟨by simpa [markupFree] using ih.1, ih.2⟩
    · have h1' : f c = 0x26 :: e := by simpa using h1
      rw [h1']
      have hall : e.all (· != 0x26) = true := by
        simp only [List.all_eq_true, Bool.and_eq_true] at h2 ⊢
        intro x hx; exact (h2 x hx).1
      have hmf : markupFree e = true := by
        simp only [markupFree, List.all_eq_true, Bool.and_eq_true] at h2 ⊢
        intro x hx; exact (h2 x hx).2
      constructor
      · have hm0 : markupFree [(0x26 : UInt8)] = true := by decide
        have : markupFree ((0x26 :: e) ++ List.flatMap f cs) = true := by
          rw [show (0x26 :: e : Bytes) = [0x26] ++ e from rfl, markupFree_append, markupFree_append, hm0, hmf, ih.1]; rfl
        exact this
      · rw [List.cons_append, ampOK_escape e _ (by simpa using he) hall]
        exact ih.2

def escapeHTMLByte (b : UInt8) : Bytes := match escapeHTMLCases.lookup b with
  | some r => r
  | none => [b]

theorem escapeHTML_eq (s : Bytes) : escapeHTML s = s.flatMap escapeHTMLByte := rfl

/-- `escapeHTML`'s switch, as regenerated from the Go source, escapes `& ' < > "` and nothing else unsafely. -/
theorem escapeHTMLByte_shape : ∀ c, EscShape escapeHTMLByte c = true := by
  apply forall_uint8; decide +kernel

theorem safeData_escapeHTML (s : Bytes) : safeData (escapeHTML s) = true :=
  safeData_flatMap _ escapeHTMLByte_shape s

def escapeStringByte (b : UInt8) : Bytes :=
  if b == 0x26 then "&amp;".toUTF8.toList
  else if b == 0x27 then "&#39;".toUTF8.toList
  else if b == 0x3C then "&lt;".toUTF8.toList
  else if b == 0x3E then "&gt;".toUTF8.toList
  else if b == 0x22 then "&#34;".toUTF8.toList
  else [b]

theorem escapeString_eq (s : Bytes) : escapeString s = s.flatMap escapeStringByte := rfl

theorem escapeStringByte_shape : ∀ c, EscShape escapeStringByte c = true := by
  apply forall_uint8; decide +kernel

theorem safeData_escapeString (s : Bytes) : safeData (escapeString s) = true :=
  safeData_flatMap _ escapeStringByte_shape s

theorem safeData_of_plain (b : Bytes) (h : b.all (fun c => c != 0x26 && !isMarkupByte c) = true) : safeData b = true := by
  induction b with
  | nil => rfl
  | cons c cs ih =>
    simp only [List.all_cons, Bool.and_eq_true] at h
    have := ih h.2
    simp only [safeData, markupFree, List.all_cons, ampOK, Bool.and_eq_true] at this ⊢
    exact ⟨⟨h.1.2, this.1⟩, ⟨by simp [h.1.1], this.2⟩⟩

theorem safeData_spaces (n : Nat) : safeData (Node.spaces n) = true := by
  apply safeData_of_plain
  simp [Node.spaces, isMarkupByte, SP]

theorem digit_plain : ∀ d : Fin 10, ((UInt8.ofNat (48 + d.val)) != 0x26 && !isMarkupByte (UInt8.ofNat (48 + d.val))) = true := by
  decide

theorem digitsRev_plain (fuel n : Nat) : (digitsRev fuel n).all (fun c => c != 0x26 && !isMarkupByte c) = true := by
  induction fuel generalizing n with
  | zero => rfl
  | succ f ih =>
    simp only [digitsRev, List.all_cons, Bool.and_eq_true]
    refine ⟨by simpa using digit_plain ⟨n % 10, Nat.mod_lt _ (by omega)⟩, ?_⟩
    split
    · rfl
    · exact ih _

theorem safeData_decimal (n : Nat) : safeData (Model.decimal n) = true := by
  apply safeData_of_plain
  simp only [Model.decimal, List.all_reverse]
  exact digitsRev_plain _ _

end CM.Proofs
