import CM.Proofs.InlInvTok
/-
The generic arena invariant, part 3: brackets (`lookForLinkOrImage`, `parseInlineLink`, `finishLink`,
`parseEndBracket`).
-/
namespace CM.Proofs.InlH
open CM CM.Model CM.Model.Inl
open Std.Do

set_option mvcgen.warning false

section
variable {c : ICtx} {φ : INode → Prop}

@[spec]
theorem lookForLinkOrImage_spec :
    ⦃fun s => ⌜G φ s⌝⦄ lookForLinkOrImage ⦃⇓? _ s => ⌜G φ s⌝⦄ := by
  mvcgen [lookForLinkOrImage]
  inl_inv (G φ)
  inl_norm
  inl_triv

/-- `parseInlineLink` only moves `unparsedPos`. -/
@[spec]
theorem parseInlineLink_spec (start : Int) :
    ⦃fun s => ⌜G φ s⌝⦄ parseInlineLink c start ⦃⇓? _ s => ⌜G φ s⌝⦄ := by
  mvcgen [parseInlineLink, setUnparsedPos]
  inl_triv
  all_goals (inl_subst; first | assumption | (inl_state; assumption))

/-- `st.set! i e'` where `e'` points to the same node as `st[i]!` (out of range: nothing happens) -/
theorem StackOK.set!_upd {a : Array INode} {st : Array DelimE} (h : StackOK a st) (i : Nat) (e' : DelimE)
    (he : e'.node = (st[i]!).node) : StackOK a (st.set! i e') := by
  by_cases hi : i < st.size
  · refine StackOK.set! h ?_
    rw [he, getElem!_pos st i hi]; exact h _ (Array.getElem_mem hi)
  · rw [Array.set!_eq_setIfInBounds, Array.setIfInBounds_eq_of_size_le (by omega)]
    exact h

@[spec]
theorem finishLink_spec (hN : NodeInv c φ) (kind odi : Nat) :
    ⦃fun s => ⌜G φ s⌝⦄ finishLink kind odi ⦃⇓? _ s => ⌜G φ s⌝⦄ := by
  mvcgen [finishLink]
  all_goals (try (exact (PostCond.mayThrow (fun p s => ⌜G φ s ∧ StackOK s.nodes p.2⌝))))
  inl_norm
  inl_triv
  · obtain ⟨h, hst⟩ := ‹G φ _ ∧ StackOK _ _›
    exact ⟨h, StackOK.set!_upd hst _ _ rfl⟩
  · exact ⟨‹G φ _›, (‹G φ _›).stack⟩
  · obtain ⟨h, hst⟩ := ‹G φ _ ∧ StackOK _ _›
    inl_state
    exact GA.setStack h hst

/-- `appendFinished`, with the frame -/
@[spec]
theorem appendFinished_spec (hN : NodeInv c φ) (parent : Nat) (n : INode) (hφ : φ n) (s0 : IState) :
    ⦃fun s => ⌜s = s0 ∧ G φ s⌝⦄ appendFinished parent n ⦃⇓? _ s => ⌜G φ s ∧ KExt s0.nodes s.nodes⌝⦄ := by
  mvcgen [appendFinished, alloc, modifyNode]
  obtain ⟨rfl, h⟩ := ‹_ = s0 ∧ G φ _›
  refine ⟨?_, ?_⟩
  · inl_modkids (GA.push h hφ) with hN
  · simp -failIfUnchanged +zetaDelta only []
    exact (KExt.push _ _).trans (KExt.modify _ _ (by intro _; rfl))

theorem linkKind_or (t : Int) :
    (if (t == 4) = true then IK.image else IK.link) = IK.link ∨ (if (t == 4) = true then IK.image else IK.link) = IK.image := by
  split
  · exact Or.inr rfl
  · exact Or.inl rfl

theorem linkKind_wrap (t : Int) :
    (if (t == 4) = true then IK.image else IK.link) = IK.emphasis ∨ (if (t == 4) = true then IK.image else IK.link) = IK.strong ∨
    (if (t == 4) = true then IK.image else IK.link) = IK.link ∨ (if (t == 4) = true then IK.image else IK.link) = IK.image :=
  Or.inr (Or.inr (linkKind_or t))

/-- the span (and reference) update of a fresh link: closes `G φ s'` -/
macro "inl_modlink " hN:term : tactic =>
  `(tactic| (
    inl_subst
    simp -failIfUnchanged +zetaDelta only [] at *
    first
      | (have hx := ‹G _ _ ∧ KExt _ _›
         have hy := ‹G _ _ ∧ KindP _ _ _›
         obtain ⟨h', he⟩ := hx
         obtain ⟨h, hk⟩ := hy
         show GA _ _ _
         try dsimp only
         refine GA.modifyK h' (hk.ext he) (by intro _; rfl) (fun n hn hk => ?_))
      | (have hy := ‹G _ _ ∧ KindP _ _ _›
         obtain ⟨h, hk⟩ := hy
         show GA _ _ _
         try dsimp only
         refine GA.modifyK h hk (by intro _; rfl) (fun n hn hk => ?_))
      | fail "inl_modlink: no fresh link in the context"
    have hk' : n.kind = IK.link ∨ n.kind = IK.image := by rw [hk]; exact linkKind_or _
    first
      | exact NodeInv.modLink $hN n _ _ _ hn hk' (Or.inl rfl)
      | (have hm := ‹¬(!ICtx.matchRef _ _) = true›
         simp only [Bool.not_eq_true', Bool.not_eq_true, Bool.not_eq_false] at hm
         exact NodeInv.modLink $hN n _ _ _ hn hk' (Or.inr hm))
      | fail "inl_modlink: modLink does not apply"))

@[spec]
theorem parseEndBracket_spec (hN : NodeInv c φ) (start : Int) :
    ⦃fun s => ⌜G φ s⌝⦄ parseEndBracket c start ⦃⇓? _ s => ⌜G φ s⌝⦄ := by
  mvcgen [parseEndBracket, spanEnd, getNode, modifyNode, setUnparsedPos]
  inl_triv
  all_goals first
    | (intro _; exact hN.text _ _)
    | (simp -failIfUnchanged +zetaDelta only []; exact linkKind_wrap _)
    | (refine ⟨trivial, ?_⟩; inl_modlink hN)
    | (inl_modlink hN)
    | (inl_subst; subst_vars; simp -failIfUnchanged +zetaDelta only []
       first
        | (split
           · first | exact hN.linkDest _ _ _ _ _ _ _ | exact hN.linkTitle _ _ _ _ _ _ _
           · first | exact hN.linkDestEmpty _ _ | exact hN.linkTitleEmpty _ _)
        | (have hm := ‹¬(!ICtx.matchRef _ _) = true›
           simp only [Bool.not_eq_true', Bool.not_eq_false] at hm
           exact hN.linkLabel _ _ _ _ _ _ _ _ hm)
        | fail "parseEndBracket: unexpected condition")
    | skip

end

end CM.Proofs.InlH
