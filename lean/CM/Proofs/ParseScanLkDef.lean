import CM.Proofs.InlSpanRun
/-
C02 / C04, inline halves, for the whole of `Parse` — part 1: **the hypothesis `LinkScan.inline` of `rewrite_spans` is FALSE
on a block-phase tree**, and its repair `LinkScan2`.

`InlH.LinkScan.inline` asks, for EVERY state `s` and EVERY position `start` of the source holding a `(`, that a successful
`parseInlineLink c start` ends inside the container.  Nothing ties `start` to the container: when `start + 1` lies in none of
the container's runs the reader is dead from the beginning, `Rd.current` of a dead reader returns `src[pos]`, and `()`
is accepted as the inline link `[start, start + 2)` wherever it stands.  Witness (`linkScan_inline_false`, kernel-checked):
the block quote `> a⏎>⏎> ()` — its first paragraph is the container `[2, 4)`, the `()` of the second paragraph at `8` gives
the link span `[8, 10)`.  So `ContsOK` does not hold of that parser output and `rewrite_spans` cannot be instantiated on it.

The tokenizer only calls `parseInlineLink` at a `(` of the run it is in: `s.unparsedPos < c.unparsed.size` and
`start < spanEndOf c s` (the guard of `parseEndBracket`).  `LinkScan2` is `LinkScan` with these two facts added to `inline`;
the files `ParseScanLk*` re-run the part of the inline-phase proofs that mentions `LinkScan` with `LinkScan2` in its place
(`rewriteE_spansOK_nodes2`, `rewriteE_noPanic2`).
-/
namespace CM.Proofs.InlH2
open CM CM.Model CM.Model.Inl CM.Gen CM.Spec CM.Proofs CM.Proofs.InlH

/-- `InlH.LinkScan` with `inline` restricted to the calls the tokenizer makes: in a run of the container, at a `(` before
    the end of that run. -/
structure LinkScan2 (c : ICtx) (hi : Int) : Prop where
  inline : ∀ (s s' : IState) (start : Int) (info : InlineLinkInfo),
    0 ≤ start → start < c.srcA.size → c.srcA[start.toNat]! = 0x28 →
    s.unparsedPos < c.unparsed.size → start < spanEndOf c s →
    (parseInlineLink c start).run s = .ok (info, s') → info.span.isValid = true →
    start ≤ info.span.stop ∧ info.span.stop ≤ hi ∧
    (info.destination.span.isValid = true →
      start ≤ info.destination.span.start ∧ info.destination.span.start ≤ info.destination.span.stop ∧
      info.destination.span.stop ≤ info.span.stop ∧
      WFL info.destination.span.start info.destination.span.stop
        (textKids c (c.unparsedL.drop s.unparsedPos) info.destination.text)) ∧
    (info.title.span.isValid = true →
      start ≤ info.title.span.start ∧
      (info.destination.span.isValid = true → info.destination.span.stop ≤ info.title.span.start) ∧
      info.title.span.start ≤ info.title.span.stop ∧ info.title.span.stop ≤ info.span.stop ∧
      WFL info.title.span.start info.title.span.stop
        (textKids c (c.unparsedL.drop s.unparsedPos) info.title.text))
  label : ∀ (u : Nat) (start : Int) (label : LinkLabel) (r' : Rd),
    0 ≤ start → start < c.srcA.size → c.srcA[start.toNat]! = 0x5B →
    parseLinkLabel c.src c.fl (newReader (c.unparsedL.drop u) start.toNat) = (label, r') →
    label.span.isValid = true →
    start ≤ label.span.start ∧ label.span.start ≤ label.span.stop ∧ label.span.stop ≤ hi ∧
    WFL label.span.start label.span.stop
      (collectTextNodes c.x.ext c.src label.inner.stop.toNat IK.text false c.fl
        (newReader (c.unparsedL.drop u) label.inner.start.toNat) label.inner.start.toNat []) ∧
    (nodeIndexForPosition (c.unparsedL.drop u) (label.span.stop - 1).toNat 0 = none → u < c.unparsed.size →
      label.span.stop ≤ (c.unparsed[u]!).label.stop)

/-- `InlH.TokScan` with `code` restricted to arena states (`parentMap` as long as `nodes`): `collectCodeSpan` registers the
    new node's parent at index `nodes.size` of `parentMap`, so the clause "the old entries of `parentMap` are unchanged" of
    `InlH.TokScan.code` is FALSE for a state whose `parentMap` is longer than its arena (`Witness.tokScan_code_false`) — the
    tokenizer only runs on arena states. -/
structure TokScan2 (c : ICtx) (hi : Int) : Prop where
  charEsc : ∀ l : Bytes, parseCharacterEscape c.x.ext l ≤ (l.length : Int)
  autolink : ∀ l : Bytes, 0 ≤ parseAutolink l → 2 ≤ parseAutolink l ∧ parseAutolink l ≤ (l.length : Int)
  html : ∀ (u : Nat) (pos : Int) (span : SpanI) (r' : Rd),
    0 ≤ pos → pos < c.srcA.size → c.srcA[pos.toNat]! = 0x3C →
    parseHTMLTag c.src c.fl (newReader (c.unparsedL.drop u) pos.toNat) = (span, r') → span.isValid = true →
    span.start = pos ∧ pos < span.stop ∧ span.stop ≤ hi ∧
    WFL span.start span.stop
      (collectTextNodes c.x.ext c.src span.stop.toNat IK.rawHTML false c.fl
        (newReader (c.unparsedL.drop u) span.start.toNat) span.start.toNat [])
  code : ∀ (s s' : IState) (pos : Int) (cs : CodeSpan),
    0 ≤ pos → pos < c.srcA.size → c.srcA[pos.toNat]! = 0x60 →
    (parseCodeSpan c pos).run s = .ok (cs, s') → s.unparsedPos < c.unparsed.size → pos < spanEndOf c s →
    (cs.span.isValid = true →
      cs.span.start = pos ∧ pos < cs.span.stop ∧ cs.span.stop ≤ hi ∧
      ∀ t t' : IState, t.unparsedPos = s.unparsedPos → t.parentMap.size = t.nodes.size →
        (collectCodeSpan c cs).run t = .ok ((), t') →
        ∃ n : INode, n.kids = #[] ∧ n.start = cs.span.start ∧ n.stop = cs.span.stop ∧ WFL n.start n.stop n.sub ∧
          t'.nodes = addRootA t.nodes n ∧ t'.stack = t.stack ∧ t'.parentMap.size = t.parentMap.size + 1 ∧
          (∀ i, i < t.parentMap.size → t'.parentMap[i]? = t.parentMap[i]?) ∧ PosOK c t' cs.span.stop) ∧
    (cs.span.isValid = false → pos ≤ cs.content.start)

theorem TokScan.to2 {c : ICtx} {hi : Int} (h : TokScan c hi) : TokScan2 c hi :=
  ⟨h.charEsc, h.autolink, h.html, fun s s' pos cs h0 h1 h2 hr hu hlt =>
    ⟨fun hv => by
      obtain ⟨a1, a2, a3, a4⟩ := (h.code s s' pos cs h0 h1 h2 hr hu hlt).1 hv
      exact ⟨a1, a2, a3, fun t t' ht _ hrun => a4 t t' ht hrun⟩,
     (h.code s s' pos cs h0 h1 h2 hr hu hlt).2⟩⟩

/-- The old hypothesis implies the new one. -/
theorem LinkScan.to2 {c : ICtx} {hi : Int} (h : LinkScan c hi) : LinkScan2 c hi :=
  ⟨fun s s' start info h0 h1 h2 _ _ hr hv => h.inline s s' start info h0 h1 h2 hr hv, h.label⟩

end CM.Proofs.InlH2
