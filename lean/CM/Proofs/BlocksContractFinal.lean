import CM.Proofs.BlocksContract
import CM.Proofs.BlocksContractRefDef
/-
C01 — **the model of the real block parser satisfies the contract of the tiling theorem, unconditionally**, and the
tiling theorem for the real parser.

* `blocksLP_contract x : Nonempty (LPContract (blocksLP x))` (= `blocksLP_contract_target x` of `BlocksWellC01.lean`);
* `C01_tiling_blocks`: draining the in-memory parser over the real block parser ends with `io.EOF`, without any panic,
  and the roots delivered tile the input.
-/
namespace CM.Proofs
open CM CM.Model CM.Gen CM.Props.C01

/-- **The contract of the C01 tiling theorem holds for the model of the real block parser**: after every `L.line`
    call of every session of the stream machine the line parser has not panicked, the document has a child, every
    closed child ends strictly after the previous one at a good cut of the padded source, an open child is the last
    one, only blank bytes follow the last child when all are closed, the end-of-input line leaves nothing open; and
    the same for the re-based left-over blocks. -/
theorem blocksLP_contract (x : PExt) : Nonempty (LPContract (blocksLP x)) :=
  blocksLP_contract_of onCloseParagraph_cuts x

/-- The target stated in `BlocksWellC01.lean`. -/
theorem blocksLP_contract_target_holds (x : PExt) : blocksLP_contract_target x := blocksLP_contract x

/-- The per-step check on every state the machine can reach. -/
theorem blocksLP_reach_check (x : PExt) {σ : LP} {src : Bytes} {ls : Nat} (h : Reach (blocksLP x) σ src ls) :
    checkLPContractStep (blocksLP x) σ src ls = true := by
  obtain ⟨C⟩ := blocksLP_contract x
  exact C.reach_check h

/-- **C01 for the real block parser.** For every input and every fuel of at least `|input| + 1` calls of `NextBlock`,
    draining the parser `Parse` builds ends with `io.EOF` — no panic of the line parser, none recorded by `makeRoot`,
    no loop out of fuel — and the root blocks delivered tile the input. -/
theorem C01_tiling_blocks (x : PExt) (inp : Bytes) (fuel : Nat) (hf : inp.length + 1 ≤ fuel) :
    ∃ rs p', drain (blocksLP x) fuel (memParser inp) [] = (rs, .err .eof, p') ∧ p'.panic = none ∧ Tiling inp rs := by
  obtain ⟨C⟩ := blocksLP_contract x
  exact C01_tiling_mem (blocksLP x) C inp fuel hf

theorem C01_tiling_blocks' (x : PExt) (inp : Bytes) (fuel : Nat) (hf : inp.length + 1 ≤ fuel) :
    Tiling inp (drain (blocksLP x) fuel (memParser inp) []).1 := by
  obtain ⟨C⟩ := blocksLP_contract x
  exact C01_tiling_mem' (blocksLP x) C inp fuel hf

/-- The same through the executable checker of CM/Spec/Tiling.lean. -/
theorem C01_tiling_blocks_spec (x : PExt) (inp : Bytes) (fuel : Nat) (hf : inp.length + 1 ≤ fuel) :
    Spec.tiling inp ((drain (blocksLP x) fuel (memParser inp) []).1.map rootInfo) = true := by
  obtain ⟨C⟩ := blocksLP_contract x
  exact C01_tiling_mem_spec (blocksLP x) C inp fuel hf

/-! ### Non-vacuity: concrete runs -/

/-- `[a]: b⏎[c]: d⏎===⏎x⏎⏎> y⏎` — two link reference definitions split off a setext heading (whose orphan underline
    becomes a paragraph that continues), a blank line, a block quote. -/
def docC : Bytes := [91, 97, 93, 58, 32, 98, 10, 91, 99, 93, 58, 32, 100, 10, 61, 61, 61, 10, 120, 10, 10, 62, 32, 121, 10]

/-- The theorem applied to it … -/
example : Tiling docC (drain (blocksLP x0) 26 (memParser docC) []).1 := C01_tiling_blocks' x0 docC 26 (by decide)

/-- … and the roots it talks about: the two definitions (cut off one after the other while the paragraph is still
    open: `cut`, `cut'`, `resume`), the paragraph `===⏎x⏎`, the block quote. -/
example : (drain (blocksLP x0) 26 (memParser docC) []).1.map (fun r => (r.startOffset, r.endOffset, r.startLine))
    = [(0, 7, 1), (7, 14, 2), (14, 20, 3), (21, 25, 6)] := by decide +kernel

#guard (drain (blocksLP x0) 26 (memParser docC) []).1.map (fun r => r.block.kind)
    = [BK.linkRefDef, BK.linkRefDef, BK.paragraph, BK.blockQuote]

-- The checker of the contract agrees on this run (as it must, by `blocksLP_reach_check`).
#guard checkDoc (blocksLP x0) docC

end CM.Proofs
