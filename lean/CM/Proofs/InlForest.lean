import CM.Proofs.InlHoare
import CM.Spec.TreeWF
/-
The structural invariant of the arena: child indices are valid and there is a height function that strictly
decreases along child edges and is bounded by the arena size (`Acyc`) — so `exportNode` with fuel `size + 1` never
produces its markers 996 (dangling index) / 997 (out of fuel).  Part 1: the pure lemmas (how the height function is
re-ranked by each kind of tree surgery).
-/
namespace CM.Proofs.InlH
open CM CM.Model CM.Model.Inl

/-- `h` strictly decreases along child edges; child indices are valid. -/
def Dec (a : Array INode) (h : Nat → Nat) : Prop :=
  ∀ i, (hi : i < a.size) → ∀ k ∈ a[i].kids, k < a.size ∧ h k < h i

/-- The arena is acyclic with depth below its size. -/
def Acyc (a : Array INode) : Prop := ∃ h : Nat → Nat, Dec a h ∧ ∀ i, i < a.size → h i < a.size

/-- A fresh leaf (`alloc` of a node without arena children). -/
theorem Acyc.push {a : Array INode} {n : INode} (h : Acyc a) (hn : n.kids = #[]) : Acyc (a.push n) := by
  obtain ⟨f, hd, hb⟩ := h
  refine ⟨fun i => if i < a.size then f i else 0, ?_, ?_⟩
  · intro i hi k hk
    simp only [Array.size_push] at hi
    by_cases hia : i < a.size
    · rw [Array.getElem_push_lt hia] at hk
      obtain ⟨h1, h2⟩ := hd i hia k hk
      refine ⟨by simp only [Array.size_push]; omega, ?_⟩
      simp only [h1, hia, if_true]
      exact h2
    · have : i = a.size := by omega
      subst this
      rw [Array.getElem_push_eq, hn] at hk
      simp at hk
  · intro i hi
    simp only [Array.size_push] at hi ⊢
    by_cases hia : i < a.size
    · simp only [hia, if_true]; have := hb i hia; omega
    · simp only [hia, if_false]; omega

/-- A fresh leaf hung under an existing node (`alloc` + `kids := kids.push id`: `addToRoot`, `importNode`,
    `appendFinished`). -/
theorem Acyc.push_edge {a : Array INode} {n : INode} {p : Nat} (h : Acyc a) (hn : n.kids = #[]) (hp : p < a.size) :
    Acyc ((a.push n).modify p (fun m => { m with kids := m.kids.push a.size })) := by
  obtain ⟨f, hd, hb⟩ := h
  refine ⟨fun i => if i < a.size then f i + 1 else 0, ?_, ?_⟩
  · intro i hi k hk
    simp only [Array.size_modify, Array.size_push] at hi ⊢
    rw [Array.getElem_modify] at hk
    by_cases hia : i < a.size
    · rw [Array.getElem_push_lt hia] at hk
      have old : ∀ k ∈ a[i].kids, k < a.size + 1 ∧
          (if k < a.size then f k + 1 else 0) < (if i < a.size then f i + 1 else 0) := by
        intro k hk
        obtain ⟨h1, h2⟩ := hd i hia k hk
        simp only [h1, hia, if_true]
        omega
      split at hk
      · rename_i hpi
        simp only [Array.mem_push] at hk
        rcases hk with hk | rfl
        · exact old k hk
        · simp only [hia, if_true, Nat.lt_irrefl, if_false]
          omega
      · exact old k hk
    · have : i = a.size := by omega
      subst this
      rw [if_neg (by omega), Array.getElem_push_eq, hn] at hk
      simp at hk
  · intro i hi
    simp only [Array.size_modify, Array.size_push] at hi ⊢
    by_cases hia : i < a.size
    · simp only [hia, if_true]; have := hb i hia; omega
    · simp only [hia, if_false]; omega

/-- A node's children are replaced by some of its children (`removeNode`), or its other fields change. -/
theorem Acyc.modify_sub {a : Array INode} {i : Nat} {g : INode → INode} (h : Acyc a)
    (hg : ∀ m, ∀ k ∈ (g m).kids, k ∈ m.kids) : Acyc (a.modify i g) := by
  obtain ⟨f, hd, hb⟩ := h
  refine ⟨f, ?_, by simp only [Array.size_modify]; exact hb⟩
  intro j hj k hk
  simp only [Array.size_modify] at hj ⊢
  rw [Array.getElem_modify] at hk
  split at hk
  · exact hd j hj k (hg _ k hk)
  · exact hd j hj k hk

theorem Acyc.modify_same {a : Array INode} {i : Nat} {g : INode → INode} (h : Acyc a)
    (hg : ∀ m, (g m).kids = m.kids) : Acyc (a.modify i g) :=
  h.modify_sub (fun m k hk => by rw [hg m] at hk; exact hk)

/-- `wrap`: a fresh node takes over a range of the children of `P` and becomes a child of `P` in their place. -/
theorem Acyc.wrap {a : Array INode} {n : INode} {P : Nat} (h : Acyc a) (hP : P < a.size)
    (ks : Array Nat) (hks : ks = (a[P]!).kids) (si ei : Nat) :
    Acyc (((a.push n).modify a.size (fun m => { m with kids := ks.extract si ei })).modify P
      (fun m => { m with kids := (ks.extract 0 si).push a.size ++ ks.extract ei ks.size })) := by
  obtain ⟨f, hd, hb⟩ := h
  rw [getElem!_pos a P hP] at hks
  have hsub : ∀ (i j : Nat), ∀ k ∈ ks.extract i j, k < a.size ∧ f k < f P := by
    intro i j k hk
    obtain ⟨m, hm, rfl⟩ := Array.mem_extract_iff_getElem.1 hk
    exact hd P hP _ (by rw [← hks]; exact Array.getElem_mem _)
  refine ⟨fun i => if i = a.size then f P else if f P ≤ f i then f i + 1 else f i, ?_, ?_⟩
  · intro i hi k hk
    simp only [Array.size_modify, Array.size_push] at hi ⊢
    rw [Array.getElem_modify] at hk
    have hPne : P ≠ a.size := by omega
    by_cases hiP : P = i
    · -- the parent
      subst hiP
      rw [if_pos rfl] at hk
      simp only [Array.mem_append, Array.mem_push] at hk
      simp only [if_neg hPne, Nat.le_refl, if_true]
      rcases hk with (hk | rfl) | hk
      · obtain ⟨h1, h2⟩ := hsub _ _ k hk
        refine ⟨by omega, ?_⟩
        rw [if_neg (by omega), if_neg (by omega)]
        omega
      · refine ⟨by omega, ?_⟩
        rw [if_pos rfl]; omega
      · obtain ⟨h1, h2⟩ := hsub _ _ k hk
        refine ⟨by omega, ?_⟩
        rw [if_neg (by omega), if_neg (by omega)]
        omega
    · rw [if_neg hiP] at hk
      rw [Array.getElem_modify] at hk
      by_cases hia : i < a.size
      · -- an old node other than the parent: same children
        rw [if_neg (by omega), Array.getElem_push_lt hia] at hk
        obtain ⟨h1, h2⟩ := hd i hia k hk
        refine ⟨by omega, ?_⟩
        rw [if_neg (by omega : ¬ k = a.size), if_neg (by omega : ¬ i = a.size)]
        split <;> split <;> omega
      · -- the fresh node
        have : i = a.size := by omega
        subst this
        rw [if_pos rfl] at hk
        simp only at hk
        obtain ⟨h1, h2⟩ := hsub _ _ k hk
        refine ⟨by omega, ?_⟩
        rw [if_neg (by omega), if_neg (by omega), if_pos rfl]
        exact h2
  · intro i hi
    simp only [Array.size_modify, Array.size_push] at hi ⊢
    by_cases hia : i < a.size
    · rw [if_neg (by omega)]
      have := hb i hia
      split <;> omega
    · have : i = a.size := by omega
      subst this
      rw [if_pos rfl]
      have := hb P hP
      omega

theorem Acyc.singleton (n : INode) (hn : n.kids = #[]) : Acyc #[n] := by
  refine ⟨fun _ => 0, ?_, fun _ _ => by simp⟩
  intro i hi k hk
  have : i = 0 := by simpa using hi
  subst this
  simp [hn] at hk

/-! ### `parentMap` only names existing nodes -/

def PMOK (pm : Array (Option Nat)) (n : Nat) : Prop := ∀ (i p : Nat), (pm[i]?).join = some p → p < n

theorem PMOK.mono {pm : Array (Option Nat)} {n n' : Nat} (h : PMOK pm n) (hn : n ≤ n') : PMOK pm n' :=
  fun i p hp => Nat.lt_of_lt_of_le (h i p hp) hn

theorem PMOK.push_none {pm : Array (Option Nat)} {n : Nat} (h : PMOK pm n) : PMOK (pm.push none) n := by
  intro i p hp
  rw [Array.getElem?_push] at hp
  split at hp
  · simp at hp
  · exact h i p hp

theorem PMOK.set! {pm : Array (Option Nat)} {n : Nat} (h : PMOK pm n) (j : Nat) (v : Option Nat)
    (hv : ∀ p, v = some p → p < n) : PMOK (pm.set! j v) n := by
  intro i p hp
  rw [Array.set!_eq_setIfInBounds, Array.getElem?_setIfInBounds] at hp
  split at hp
  · split at hp
    · simp only [Option.join_some] at hp
      exact hv p hp
    · simp at hp
  · exact h i p hp

theorem PMOK.empty (n : Nat) : PMOK #[none] n := by
  intro i p hp
  cases i with
  | zero => simp at hp
  | succ i => simp at hp

end CM.Proofs.InlH
