import CM.Proofs.QuoteGood
/-
C09 (block-quote half), step (2) for the block starts: block quote, ATX heading, fenced code block, HTML block, setext
heading, thematic break. Each start rule takes `Sim`-related parsers (in an opening state) to `Sim`-related parsers.
-/
namespace CM.Proofs.Quote
open CM CM.Model CM.Gen CM.Proofs.BT

variable {E : Env} {k : Nat} {p q : LP} {x : PExt}

theorem LR.id_sa {l l' : PLabel} (h : LR E l l') : LR E (id l) (id l') := h

theorem LR.setN {l l' : PLabel} (h : LR E l l') (n : Int) : LR E { l with n := n } { l' with n := n } :=
  ⟨h.kind, rfl, h.char, h.indent, h.loose, h.blank, h.start, h.openIff, h.stop⟩

theorem LR.setCharN {l l' : PLabel} (h : LR E l l') (c : UInt8) (n : Int) :
    LR E { l with char := c, n := n } { l' with char := c, n := n } :=
  ⟨h.kind, rfl, rfl, h.indent, h.loose, h.blank, h.start, h.openIff, h.stop⟩

theorem LR.setChar {l l' : PLabel} (h : LR E l l') (c : UInt8) : LR E { l with char := c } { l' with char := c } :=
  ⟨h.kind, h.n, rfl, h.indent, h.loose, h.blank, h.start, h.openIff, h.stop⟩

/-! ### block quote -/

theorem startBlockQuote_sim (HC : CloseParaSim x E) (h : Sim E k p q) :
    Sim E k (startBlockQuote x p) (startBlockQuote x q) := by
  unfold startBlockQuote
  simp only []
  rw [h.cur.indent, h.cur.bai]
  split
  · exact h
  · split
    · exact h
    · have h1 := h.consumeIndentN p.indent
      have h2 := h1.openBlock HC BK.blockQuote id (fun _ _ r => r) (fun _ => rfl) (Or.inl (by decide)) (by decide)
      have h3 := h2.advance blockQuotePrefix.length
      rw [h3.cur.indent]
      split
      · exact h3.consumeIndentN 1
      · exact h3

/-! ### ATX heading -/

theorem startATX_sim (HC : CloseParaSim x E) (h : Sim E k p q) (hs : p.state ≤ 2) :
    Sim E k (startATX x p) (startATX x q) := by
  unfold startATX
  simp only []
  rw [h.cur.indent, h.cur.bai]
  split
  · exact h
  · split
    · exact h
    · have h1 := h.consumeIndentN p.indent
      have s1 : (p.consumeIndentN p.indent).state ≤ 2 := consumeIndent_state_le _ _ _ hs
      have h2 := h1.openBlock HC BK.atxHeading (fun l => { l with n := (parseATXHeading p.bytesAfterIndent).level })
        (fun _ _ r => r.setN _) (fun _ => rfl) (Or.inl (by decide)) (by decide)
      have g2 := good_openBlock x _ BK.atxHeading (fun l => { l with n := (parseATXHeading p.bytesAfterIndent).level })
        (fun _ => rfl) h1.treeOK_p s1 (Or.inl (by decide))
      have h3 := h2.advance (parseATXHeading p.bytesAfterIndent).start
      have g3 := g2.advance (parseATXHeading p.bytesAfterIndent).start
      have h4 := h3.collectInline (x := x) g3.dep (by rw [g3.ck]; decide) IK.unparsed
        ((parseATXHeading p.bytesAfterIndent).stop - (parseATXHeading p.bytesAfterIndent).start)
      have g4 := g3.collectInline x IK.unparsed
        ((parseATXHeading p.bytesAfterIndent).stop - (parseATXHeading p.bytesAfterIndent).start)
      have h5 := h4.consumeLine
      have g5 := g4.consumeLine
      exact h5.endBlock HC g5.dep

/-! ### fenced code block -/

theorem startFenced_sim (HC : CloseParaSim x E) (h : Sim E k p q) (hs : p.state ≤ 2) :
    Sim E k (startFenced x p) (startFenced x q) := by
  unfold startFenced
  simp only []
  rw [h.cur.indent, h.cur.bai]
  split
  · exact h
  · split
    · exact h
    · have h1 := h.consumeIndentN p.indent
      have s1 : (p.consumeIndentN p.indent).state ≤ 2 := consumeIndent_state_le _ _ _ hs
      have h2 := h1.openBlock HC BK.fencedCode
        (fun l => { l with char := (parseCodeFence p.bytesAfterIndent).char, n := (parseCodeFence p.bytesAfterIndent).n })
        (fun _ _ r => r.setCharN _ _) (fun _ => rfl) (Or.inl (by decide)) (by decide)
      have g2 := good_openBlock x _ BK.fencedCode
        (fun l => { l with char := (parseCodeFence p.bytesAfterIndent).char, n := (parseCodeFence p.bytesAfterIndent).n })
        (fun _ => rfl) h1.treeOK_p s1 (Or.inl (by decide))
      have h3 := h2.setContainerIndent (p.indent : Int)
      have g3 := g2.setContainerIndent (p.indent : Int)
      split
      · have h4 := h3.advance (parseCodeFence p.bytesAfterIndent).infoStart.toNat
        have g4 := g3.advance (parseCodeFence p.bytesAfterIndent).infoStart.toNat
        have h5 := h4.collectInline (x := x) g4.dep (by rw [g4.ck]; decide) IK.infoString
          ((parseCodeFence p.bytesAfterIndent).infoEnd - (parseCodeFence p.bytesAfterIndent).infoStart).toNat
        exact h5.consumeLine
      · exact h3.consumeLine

/-! ### thematic break -/

theorem startThematicBreak_sim (HC : CloseParaSim x E) (h : Sim E k p q) (hs : p.state ≤ 2) :
    Sim E k (startThematicBreak x p) (startThematicBreak x q) := by
  unfold startThematicBreak
  simp only []
  rw [h.cur.indent, h.cur.bai]
  split
  · exact h
  · split
    · exact h
    · have h1 := h.consumeIndentN p.indent
      have s1 : (p.consumeIndentN p.indent).state ≤ 2 := consumeIndent_state_le _ _ _ hs
      have h2 := h1.openBlock HC BK.thematicBreak id (fun _ _ r => r) (fun _ => rfl) (Or.inl (by decide)) (by decide)
      have g2 := good_openBlock x _ BK.thematicBreak id (fun _ => rfl) h1.treeOK_p s1 (Or.inl (by decide))
      have h3 := h2.advance (parseThematicBreak p.bytesAfterIndent).toNat
      have g3 := g2.advance (parseThematicBreak p.bytesAfterIndent).toNat
      have h4 := h3.consumeLine
      have g4 := g3.consumeLine
      exact h4.endBlock HC g4.dep

/-! ### setext heading -/

theorem LR.setext {l l' : PLabel} (h : LR E l l') (n : Int) :
    LR E { l with kind := BK.setextHeading, n := n } { l' with kind := BK.setextHeading, n := n } :=
  ⟨rfl, rfl, h.char, h.indent, h.loose, h.blank, h.start, h.openIff, h.stop⟩

theorem Sim.depth_pos_of_kind (h : Sim E k p q) (hk : p.containerKind ≠ BK.document) : 1 ≤ p.depth := by
  by_cases hd0 : p.depth = 0
  · exact absurd (h.containerKind_zero hd0).1 hk
  · omega

theorem startSetext_sim (HC : CloseParaSim x E) (h : Sim E k p q) :
    Sim E k (startSetext x p) (startSetext x q) := by
  unfold startSetext
  by_cases hkp : p.containerKind = BK.paragraph
  · have hkq : q.containerKind = BK.paragraph := (h.containerKind_eq_iff _ (by decide) (by decide)).mpr hkp
    have c1 : ¬ (p.containerKind != BK.paragraph) = true := by simp [hkp]
    have c2 : ¬ (q.containerKind != BK.paragraph) = true := by simp [hkq]
    rw [if_neg c1, if_neg c2]
    simp only []
    rw [h.cur.indent, h.cur.bai]
    split
    · exact h
    · split
      · exact h
      · have hd : 1 ≤ p.depth := h.depth_pos_of_kind (by rw [hkp]; decide)
        have h1 := h.setLabel hd (fun l => { l with kind := BK.setextHeading, n := parseSetextHeadingUnderline p.bytesAfterIndent })
          (fun _ _ r => r.setext _) (by rw [hkp]; decide) (by show BK.setextHeading ≠ _; decide)
        have h2 := h1.consumeLine
        have hd2 : 1 ≤ (p.modifyContainer (PB.setLabel fun l => { l with kind := BK.setextHeading, n := parseSetextHeadingUnderline p.bytesAfterIndent })).consumeLine.depth := by
          have := consumeLine_tree (p.modifyContainer (PB.setLabel fun l => { l with kind := BK.setextHeading, n := parseSetextHeadingUnderline p.bytesAfterIndent }))
          simp only [tree, Prod.mk.injEq] at this
          rw [this.2.2.1]
          exact hd
        exact h2.endBlock HC hd2
  · have hkq : ¬ q.containerKind = BK.paragraph := fun e => hkp ((h.containerKind_eq_iff _ (by decide) (by decide)).mp e)
    have c1 : (p.containerKind != BK.paragraph) = true := by simp [hkp]
    have c2 : (q.containerKind != BK.paragraph) = true := by simp [hkq]
    rw [if_pos c1, if_pos c2]
    exact h

/-! ### HTML block -/

theorem htmlStartLoop_sim (HC : CloseParaSim x E) (line : Bytes) : ∀ (fuel i : Nat) {p q : LP}, Sim E k p q → p.state ≤ 2 →
    Sim E k (htmlStartLoop x line fuel i p) (htmlStartLoop x line fuel i q) := by
  intro fuel
  induction fuel with
  | zero => intro i p q h _; exact h
  | succ fuel ih =>
    intro i p q h hs
    unfold htmlStartLoop
    split
    · exact h
    · split
      · -- the condition applies
        have hkp : (q.containerKind == BK.paragraph) = (p.containerKind == BK.paragraph) := by
          have := h.containerKind_eq_iff BK.paragraph (by decide) (by decide)
          by_cases hp : p.containerKind = BK.paragraph
          · rw [hp, this.mpr hp]
          · have hq : ¬ q.containerKind = BK.paragraph := fun e => hp (this.mp e)
            rw [beq_eq_false_iff_ne.mpr hq, beq_eq_false_iff_ne.mpr hp]
        rw [hkp]
        split
        · exact h
        · have h2 := h.openBlock HC BK.htmlBlock (fun l => { l with n := (i : Int) }) (fun _ _ r => r.setN _) (fun _ => rfl)
            (Or.inl (by decide)) (by decide)
          have g2 := good_openBlock x p BK.htmlBlock (fun l => { l with n := (i : Int) }) (fun _ => rfl) h.treeOK_p hs
            (Or.inl (by decide))
          split
          · simp only []
            rw [h2.cur.bai]
            have h3 := h2.collectInline (x := x) g2.dep (by rw [g2.ck]; decide) IK.rawHTML
              (p.openBlock x BK.htmlBlock fun l => { l with n := (i : Int) }).bytesAfterIndent.length
            have g3 := g2.collectInline x IK.rawHTML
              (p.openBlock x BK.htmlBlock fun l => { l with n := (i : Int) }).bytesAfterIndent.length
            have h4 := h3.consumeLine
            have g4 := g3.consumeLine
            exact h4.endBlock HC g4.dep
          · exact h2
      · exact ih (i + 1) h hs

theorem startHTML_sim (HC : CloseParaSim x E) (h : Sim E k p q) (hs : p.state ≤ 2) :
    Sim E k (startHTML x p) (startHTML x q) := by
  unfold startHTML
  simp only []
  rw [h.cur.indent, h.cur.bai]
  split
  · exact h
  · split
    · exact h
    · exact htmlStartLoop_sim HC _ 8 0 h hs

end CM.Proofs.Quote
