import CM.Proofs.NestMatch
import CM.Proofs.QuoteText
import CM.Proofs.RefDefSpansLine3
/-
C09 (nested documents): `addLineText` on related parsers (port of `QuoteText`).  When the text of the line is appended to
a paragraph, the one-sided invariant changes from `G` to `G'` (the inline children now include the current line).
-/
namespace CM.Proofs.Nest
open CM CM.Model CM.Gen CM.Proofs.BT CM.Proofs.Quote

variable {F : Frame} {E : Env} {G G' : List Tree → Prop} {k : Nat} {p q : LP} {x : PExt}

theorem tp_blankFn {c : PB} (h : TP G c) : TP G (blankFn c) := by
  obtain ⟨l, bs, is⟩ := c
  simp only [Quote.blankFn]
  rw [TP_mk] at h
  cases hc : bs.getLast? with
  | none => simp only []; rw [TP_mk]; exact h
  | some a =>
    simp only []
    rw [TP_mk]
    refine ⟨h.1, ?_⟩
    intro b hb
    rcases List.mem_append.mp hb with h' | h'
    · exact h.2 b ((List.dropLast_sublist bs).subset h')
    · simp only [List.mem_singleton] at h'
      subst h'
      exact TP_setLabel (f := fun cl => { cl with lastLineBlank := true }) (fun _ => rfl) (h.2 a (List.mem_of_getLast? hc))

theorem altBlank_sim (h : Sim F E G k p q) : Sim F E G k (altBlank p) (altBlank q) := by
  unfold altBlank
  rw [h.cur.isRestBlank]
  split
  · have hr := h.root.modify blankFn blankFn p.depth h.valid (fun _ c c' _ _ r => r.blankFn) (fun _ Qb ht => ht.blankFn)
    have := h.setRoot _ _ p.depth hr (TP_spineModify _ p.depth p.root h.tp fun c _ hc => tp_blankFn hc) (spineModify_valid _ _ _ h.valid)
    rw [h.depth]
    exact this
  · exact h

theorem altFlags_sim (h : Sim F E G k p q) (b : Bool) : Sim F E G k (altFlags b p) (altFlags b q) := by
  unfold altFlags
  simp only []
  have key : 1 ≤ p.depth →
      (b && !(q.containerKind == BK.blockQuote || q.containerKind == BK.fencedCode ||
        (q.containerKind == BK.listItem && q.container.childCount == 1 && decide (q.container.label.start ≥ q.lineStart)))) =
      (b && !(p.containerKind == BK.blockQuote || p.containerKind == BK.fencedCode ||
        (p.containerKind == BK.listItem && p.container.childCount == 1 && decide (p.container.label.start ≥ p.lineStart)))) := by
    intro hd
    have r := h.container_pos hd
    rw [h.containerKind_pos hd]
    by_cases hk : p.containerKind = BK.listItem
    · have e1 : q.container.childCount = p.container.childCount := r.childCount (by show p.containerKind ≠ _; rw [hk]; decide)
      have e2 : decide (q.container.label.start ≥ (q.lineStart : Int)) = decide (p.container.label.start ≥ (p.lineStart : Int)) := by
        have := h.ord _ _ r.label.start
        by_cases hp : p.container.label.start ≥ (p.lineStart : Int)
        · have hq : q.container.label.start ≥ (q.lineStart : Int) := this.mp hp
          simp [hp, hq]
        · have hq : ¬ q.container.label.start ≥ (q.lineStart : Int) := fun hq => hp (this.mpr hq)
          simp [hp, hq]
      rw [e1, e2]
    · have : (p.containerKind == BK.listItem) = false := by simpa using hk
      simp only [this, Bool.false_and]
  have hr := h.root.blankFlags
    (b && !(p.containerKind == BK.blockQuote || p.containerKind == BK.fencedCode ||
      (p.containerKind == BK.listItem && p.container.childCount == 1 && decide (p.container.label.start ≥ p.lineStart))))
    (b && !(q.containerKind == BK.blockQuote || q.containerKind == BK.fencedCode ||
      (q.containerKind == BK.listItem && q.container.childCount == 1 && decide (q.container.label.start ≥ q.lineStart))))
    p.depth h.valid key
  have := h.setRoot _ _ p.depth hr (TP_setBlankFlags _ p.depth p.root h.tp) (setBlankFlags_valid _ _ _ h.valid)
  rw [h.depth]
  exact this

theorem altCont_sim (HG : GOK x E G) (h : Sim F E G k p q) (b : Bool) (hs : acceptsLines p.containerKind = false → p.state ≤ 2) :
    OR (fun a c => Sim F E G k a c ∧ 1 ≤ a.depth ∧ acceptsLines a.containerKind = true) (BT.altCont x b p) (BT.altCont x b q) := by
  unfold BT.altCont
  simp only []
  rw [h.acceptsLines_eq]
  by_cases ha : acceptsLines p.containerKind = true
  · rw [if_pos ha, if_pos ha]
    have hd : 1 ≤ p.depth := by
      apply h.depth_pos_of_kind
      intro e; rw [e] at ha; exact absurd ha (by decide)
    -- no tab in front of the cursor on either side
    have nt : ¬ (decide (p.i < p.line.length) && p.line.getD p.i 0 == TAB && decide (p.tabRem > 0) && p.tabPartial) = true := by
      simp only [Bool.and_eq_true, decide_eq_true_eq, beq_iff_eq]
      intro hc
      exact h.cur.notab _ (getD_mem hc.1.1.1) hc.1.1.2
    have ntq : ¬ (decide (q.i < q.line.length) && q.line.getD q.i 0 == TAB && decide (q.tabRem > 0) && q.tabPartial) = true := by
      rw [h.cur.getD]
      simp only [Bool.and_eq_true, decide_eq_true_eq, beq_iff_eq]
      intro hc
      exact h.cur.notab _ (getD_mem (h.cur.lt_iff.mp hc.1.1.1)) hc.1.1.2
    rw [if_neg nt, if_neg ntq]
    exact .ss ⟨h, hd, ha⟩
  · rw [if_neg ha, if_neg ha]
    split
    · have hs2 := hs (by simpa using ha)
      have h2 := h.openBlock HG BK.paragraph id (fun _ _ r => r) (fun _ => rfl) (Or.inl (by decide)) (by decide)
      have g2 := good_openBlock x p BK.paragraph id (fun _ => rfl) h.treeOK_p hs2 (Or.inl (by decide))
      rw [h2.cur.indent]
      have g3 := g2.consumeIndentN (p.openBlock x BK.paragraph).indent
      exact .ss ⟨h2.consumeIndentN _, g3.dep, by rw [g3.ck]; decide⟩
    · exact .nn

/-- A weaker one-sided invariant. -/
theorem TP.mono (hm : ∀ is, G is → G' is) : ∀ b : PB, TP G b → TP G' b := by
  apply BG.PB.ind
  intro l bs is ih h
  rw [TP_mk] at h ⊢
  exact ⟨fun hp => ⟨hm _ (h.1 hp).1, (h.1 hp).2⟩, fun c hc => ih c hc (h.2 c hc)⟩

theorem Sim.mono (hm : ∀ is, G is → G' is) (h : Sim F E G k p q) : Sim F E G' k p q :=
  ⟨h.cur, h.depth, h.valid, h.root, TP.mono hm _ h.tp, h.noul, h.srcp, h.srcq, h.linep, h.lsp, h.lineq, h.lsq, h.here, h.start, h.ord⟩

/-- The text node of the current line. -/
def lineNode (p : LP) : Tree := mkInline IK.unparsed (p.lineStart + p.i) (p.lineStart + p.line.length)

theorem altTail_sim (hm : ∀ is, G is → G' is) (hA : PKind p.containerKind → G' (p.container.inlines ++ [lineNode p]))
    (h : Sim F E G k p q) (hd : 1 ≤ p.depth) (ha : acceptsLines p.containerKind = true) (hne : p.line ≠ []) :
    Sim F E G' k (altTail p) (altTail q) := by
  have h := h.mono hm
  rw [altTail_eq, altTail_eq]
  rw [h.containerKind_pos hd, hasByteSuffix_single, hasByteSuffix_single, hasByteSuffix_single, hasByteSuffix_single,
    h.cur.getLast hne]
  have hk : p.containerKind ≠ BK.linkRefDef := by
    intro e; rw [e] at ha; exact absurd ha (by decide)
  have hlen : q.line.length = p.line.length + k := h.cur.len
  have hnode : ∀ kd, IR E (mkInline kd (p.lineStart + p.i) (p.lineStart + p.line.length))
      (mkInline kd (q.lineStart + q.i) (q.lineStart + q.line.length)) := by
    intro kd
    apply h.inode { isBlock := false, kind := kd } (a := p.i) (b := p.line.length) h.cur.ile (Nat.le_refl _)
    · show (p.lineStart : Int) + (p.i : Int) = _; omega
    · show (p.lineStart : Int) + (p.line.length : Int) = _; omega
    · show (q.lineStart : Int) + (q.i : Int) = _; rw [h.cur.i]; omega
    · show (q.lineStart : Int) + (q.line.length : Int) = _; rw [hlen]; omega
    · exact .nil
    · intro _ hc; cases hc
  by_cases hpk : PKind p.containerKind
  · -- a paragraph: the line becomes one of its inline children
    have c1 : (p.containerKind == BK.indentedCode || p.containerKind == BK.fencedCode) = false := by
      rcases hpk with e | e <;> rw [e] <;> rfl
    have c2 : (p.containerKind == BK.htmlBlock) = false := by
      rcases hpk with e | e <;> rw [e] <;> rfl
    simp only [c1, c2, Bool.false_and, Bool.false_eq_true, if_false]
    exact h.appendInlineP hd hk (hnode _) (hA hpk)
  · have h1 : ∀ kd, Sim F E G' k (p.appendInline (mkInline kd (p.lineStart + p.i) (p.lineStart + p.line.length)))
        (q.appendInline (mkInline kd (q.lineStart + q.i) (q.lineStart + q.line.length))) :=
      fun kd => h.appendInline hd hk hpk (hnode kd)
    have h2 := h1 (if (p.containerKind == BK.indentedCode || p.containerKind == BK.fencedCode) = true then IK.text
      else if (p.containerKind == BK.htmlBlock) = true then IK.rawHTML else IK.unparsed)
    generalize (if (p.containerKind == BK.indentedCode || p.containerKind == BK.fencedCode) = true then IK.text
      else if (p.containerKind == BK.htmlBlock) = true then IK.rawHTML else IK.unparsed) = kd at h2 ⊢
    split
    · have hd2 : 1 ≤ (p.appendInline (mkInline kd (p.lineStart + p.i) (p.lineStart + p.line.length))).depth := hd
      have hck2 : (p.appendInline (mkInline kd (p.lineStart + p.i) (p.lineStart + p.line.length))).containerKind = p.containerKind :=
        appendInline_containerKind _ _ h.treeOK_p
      apply h2.appendInline hd2 (by rw [hck2]; exact hk) (by rw [hck2]; exact hpk)
      apply h2.inode { isBlock := false, kind := IK.softBreak } (a := p.line.length) (b := p.line.length) (Nat.le_refl _) (Nat.le_refl _)
      · show (p.lineStart : Int) + (p.line.length : Int) = ((p.lineStart + p.line.length : Nat) : Int); omega
      · show (p.lineStart : Int) + (p.line.length : Int) = ((p.lineStart + p.line.length : Nat) : Int); omega
      · show (q.lineStart : Int) + (q.line.length : Int) = ((q.lineStart + k + p.line.length : Nat) : Int); rw [hlen]; omega
      · show (q.lineStart : Int) + (q.line.length : Int) = ((q.lineStart + k + p.line.length : Nat) : Int); rw [hlen]; omega
      · exact .nil
      · intro _ hc; cases hc
    · exact h2

/-- **`addLineText`** on related parsers. -/
theorem addLineText_sim (HG : GOK x E G) (hm : ∀ is, G is → G' is)
    (hA : ∀ (is : List Tree) (p3 : LP), G is → p3.lineStart = p.lineStart → p3.line = p.line → p3.i < p3.line.length →
      G' (is ++ [lineNode p3]))
    (h : Sim F E G k p q) (hne : p.line ≠ [])
    (hs : acceptsLines p.containerKind = false → p.state ≤ 2)
    {src : Bytes} {bd : Int} {ls : Nat} (hinv : BT.Inv p) (hgi : RDS.GI src bd ls p) (hbd : bd ≤ (src.length : Int))
    (hj : RDS.J p) : Sim F E G' k (addLineText x p) (addLineText x q) := by
  rw [BT.addLineText_eq, BT.addLineText_eq, h.cur.isRestBlank]
  have h1 := altFlags_sim (altBlank_sim h) p.isRestBlank
  have ab := altBlank_sim h
  -- the container kind and the state are those of `p`
  have hk1 : (altFlags p.isRestBlank (altBlank p)).containerKind = p.containerKind := by
    have t1 : TreeOK (altBlank p) := ab.treeOK_p
    have e1 : (altBlank p).containerKind = p.containerKind := by
      unfold altBlank
      split
      · have := labelAt_modify_self _ blankFn_label p.depth p.root
        have hv := h.valid
        simp only [LP.containerKind, LP.container]
        simp only [labelAt] at this
        cases hsg : spineGet p.root p.depth with
        | none => rw [hsg] at hv; cases hv
        | some c =>
          rw [hsg] at this
          cases hsg' : spineGet (spineModify _ p.root p.depth) p.depth with
          | none => rw [hsg'] at this; cases this
          | some c' =>
            rw [hsg'] at this
            simp only [Option.map_some, Option.some.injEq] at this
            simp only [Option.getD_some, PB.kind, this]
      · rfl
    exact (setBlankFlags_ok (altBlank p) _ t1).2.trans e1
  have hs1 : (altFlags p.isRestBlank (altBlank p)).state = p.state := by
    unfold altFlags altBlank
    split <;> rfl
  have hl1 : (altFlags p.isRestBlank (altBlank p)).line = p.line := by
    unfold altFlags altBlank
    split <;> rfl
  have hc := altCont_sim (x := x) HG h1 p.isRestBlank (by rw [hk1, hs1]; exact hs)
  cases hcp : BT.altCont x p.isRestBlank (altFlags p.isRestBlank (altBlank p)) with
  | none =>
    rw [hcp] at hc
    rw [hc.none_left]
    exact h1.mono hm
  | some p3 =>
    rw [hcp] at hc
    obtain ⟨q3, e, h3, hd3, ha3⟩ := hc.some_left
    rw [e]
    simp only []
    have hl3 : p3.line = p.line := by
      -- `BT.altCont` only opens a paragraph and consumes indentation
      unfold BT.altCont at hcp
      simp only [] at hcp
      split at hcp
      · split at hcp
        · simp only [Option.some.injEq] at hcp
          rw [← hcp, consumeIndentN_line]
          exact hl1
        · simp only [Option.some.injEq] at hcp
          rw [← hcp]; exact hl1
      · split at hcp
        · simp only [Option.some.injEq] at hcp
          rw [← hcp, consumeIndentN_line]
          have := cur_line (openBlock_post x _ BK.paragraph id (fun _ => rfl) h1.treeOK_p
            (by rw [hs1]; exact hs (by rw [← hk1]; exact Bool.eq_false_iff.mpr ‹¬ _›)) (Or.inl (by decide))).cur
          rw [this]; exact hl1
        · cases hcp
    -- the one-sided facts of `RefDefSpansLine3`: if the text goes to a paragraph, some of the line is left
    have hg' : RDS.GI src (src.length : Int) ls p :=
      ⟨hgi.source, hgi.lineStart, hgi.line, RDS.GoodT_mono (List.prefix_refl _) hbd _ hgi.good⟩
    have a := altBlank_step p hinv
    obtain ⟨ga, ca⟩ := RDS.altBlank_GI p hg'
    have b := altFlags_step p.isRestBlank (altBlank p) a.inv
    obtain ⟨gb, cb⟩ := RDS.altFlags_GI p.isRestBlank (altBlank p) ga
    have cB : BT.cur (altFlags p.isRestBlank (altBlank p)) = BT.cur p := by rw [cb, ca]
    have rB : (altFlags p.isRestBlank (altBlank p)).isRestBlank = p.isRestBlank := isRestBlank_of_cur cB
    have jB : RDS.J (altFlags p.isRestBlank (altBlank p)) := by unfold RDS.J; rw [hk1, rB]; exact hj
    have hcp' : BT.altCont x (altFlags p.isRestBlank (altBlank p)).isRestBlank (altFlags p.isRestBlank (altBlank p)) = some p3 := by
      rw [rB]; exact hcp
    obtain ⟨gq, lq⟩ := RDS.altCont_st x _ p3 b.inv (by rw [hk1, hs1]; exact hs) gb jB hcp'
    apply altTail_sim hm _ h3 hd3 ha3 (by rw [hl3]; exact hne)
    intro hpk
    have hkp : p3.containerKind = BK.paragraph := by
      rcases hpk with e | e
      · exact e
      · rw [e] at ha3; exact absurd ha3 (by decide)
    have hG : G p3.container.inlines := by
      have hv := h3.valid
      cases hsg : spineGet p3.root p3.depth with
      | none => rw [hsg] at hv; cases hv
      | some c =>
        have := TP_spineGet p3.depth p3.root c h3.tp hsg
        rw [container_of_spineGet hsg]
        exact (this.inl (by rw [← container_of_spineGet hsg]; exact hpk)).1
    exact hA _ p3 hG (by rw [gq.lineStart, hgi.lineStart]) hl3 (lq hkp)


end CM.Proofs.Nest
