import CM.Spec.WalkSpec
/-
Refinement of the explicit-stack loop to the recursive specification.
-/
namespace CM.Proofs
open CM CM.Model CM.Spec

variable {σ : Type}

def walkCursor (opts : WalkOpts σ) (cur : Cursor) (s : σ) : Bool × σ :=
  walkNode opts cur.node cur.parent cur.block cur.index s

/-- What the stack denotes: run the pending frames in order with the recursive specification. -/
def specStack (opts : WalkOpts σ) : List Frame → σ → σ
  | [], s => s
  | f :: rest, s =>
    match (if f.post then callPost opts f.cur s else walkCursor opts f.cur s) with
    | (true, s1) => specStack opts rest s1
    | (false, s1) => s1

def andThen (opts : WalkOpts σ) (rest : List Frame) : Bool × σ → σ
  | (true, s1) => specStack opts rest s1
  | (false, s1) => s1

theorem specStack_cons (opts : WalkOpts σ) (f : Frame) (rest : List Frame) (s : σ) :
    specStack opts (f :: rest) s =
      andThen opts rest (if f.post then callPost opts f.cur s else walkCursor opts f.cur s) := by
  simp only [specStack, andThen]

theorem specStack_childFrames (opts : WalkOpts σ) (p : Tree) (b : Option Tree) (cs : List Tree) (i : Nat)
    (rest : List Frame) (s : σ) :
    specStack opts (childFramesFrom p b cs i ++ rest) s = andThen opts rest (walkForest opts p b cs i s) := by
  induction cs generalizing i s with
  | nil => simp [childFramesFrom, walkForest, andThen]
  | cons c cs ih =>
    simp only [childFramesFrom, List.cons_append, specStack_cons, walkCursor, walkForest]
    simp only [Bool.false_eq_true, if_false]
    rcases h : walkNode opts c (some p) b (↑i) s with ⟨ok, s1⟩
    cases ok with
    | true => simp [andThen, ih]
    | false => simp [andThen]

theorem walkCursor_unfold (opts : WalkOpts σ) (cur : Cursor) (s : σ) :
    walkCursor opts cur s =
      (match callPre opts cur s with
       | (false, s1) => (true, s1)
       | (true, s1) =>
         match walkForest opts cur.node (blockFor cur) cur.node.children 0 s1 with
         | (false, s2) => (false, s2)
         | (true, s2) => callPost opts cur s2) := by
  obtain ⟨node, parent, block, index⟩ := cur
  cases node with
  | node l cs => simp only [walkCursor, walkNode, Tree.children]; rfl

theorem walkLoop_eq_specStack (opts : WalkOpts σ) (st : List Frame) (s : σ) :
    walkLoop opts st s = specStack opts st s := by
  fun_induction walkLoop opts st s with
  | case1 s => simp [specStack]
  | case2 f rest s hp hpost ih =>
    simp [specStack_cons, andThen, hp, callPost, hpost, ih]
  | case3 f rest s hp post hpost r hr ih =>
    have : callPost opts f.cur s = (true, r.2) := by
      simp only [callPost, hpost]; exact Prod.ext hr rfl
    simp only [specStack_cons, hp, if_true, this, andThen]
    exact ih
  | case4 f rest s hp post hpost r hr =>
    have : callPost opts f.cur s = (false, r.2) := by
      simp only [callPost, hpost]; exact Prod.ext (by simpa using hr) rfl
    simp only [specStack_cons, hp, if_true, this, andThen]
  | case5 f rest s hp r hr ih =>
    have hr' : callPre opts f.cur s = (true, r.2) := by
      have : callPre opts f.cur s = r := by simp only [callPre, r]; cases opts.pre <;> rfl
      rw [this]; exact Prod.ext hr rfl
    simp only [specStack_cons, hp, Bool.false_eq_true, if_false]
    rw [walkCursor_unfold, hr', ih, childFrames, specStack_childFrames]
    rcases h : walkForest opts f.cur.node (blockFor f.cur) f.cur.node.children 0 r.2 with ⟨ok, s2⟩
    cases ok with
    | true => simp [andThen, specStack_cons, h]
    | false => simp [andThen, h]
  | case6 f rest s hp r hr ih =>
    have hr' : callPre opts f.cur s = (false, r.2) := by
      have : callPre opts f.cur s = r := by simp only [callPre, r]; cases opts.pre <;> rfl
      rw [this]; exact Prod.ext (by simpa using hr) rfl
    simp only [specStack_cons, hp, Bool.false_eq_true, if_false]
    rw [walkCursor_unfold, hr']
    simp only [andThen]
    exact ih

end CM.Proofs
