import CM.Proofs.InlineSerCodeScan
/-
Inline serialisation — part 8: from source text to lines.  `SPiece` / `SLine`: the pieces of a line WITH their bytes
(inert byte, backslash escape, separator space, character reference, autolink, code span) and the side conditions in terms
of the bytes that follow (`POK`); `srcOf`: the source of a list of lines; `parseInlines_slines`: the inline phase on the
runs of `srcOf ls` returns exactly the nodes of the lines.
-/
namespace CM.Proofs.InlSer
open CM CM.Gen CM.Model CM.Model.Inl CM.Proofs.EscText

inductive SPiece where
  | byte (b : UInt8)
  | esc (b : UInt8)
  | sp
  /-- a character reference, spelled `r` -/
  | ref (r : Bytes)
  /-- an autolink `<u>` -/
  | auto (u : Bytes)
  /-- a code span: `n` backticks, `mid`, `n` backticks -/
  | code (n : Nat) (mid : Bytes)

def SPiece.bytes : SPiece → Bytes
  | .byte b => [b]
  | .esc b => [0x5C, b]
  | .sp => [SP]
  | .ref r => r
  | .auto u => 0x3C :: (u ++ [0x3E])
  | .code n mid => List.replicate n 0x60 ++ (mid ++ List.replicate n 0x60)

def SPiece.toPiece (src : Bytes) : SPiece → Piece
  | .byte b => .byte b
  | .esc b => .esc b
  | .sp => .sp
  | .ref r => .node r.length (refNode r.length)
  | .auto u => .node (u.length + 2) (autoNode (u.length + 2))
  | .code n mid => .node (n + mid.length + n) (codeNodeAt src n mid.length)

def Ending.bytes : Ending → Bytes
  | .eof => [] | .lastLF => [LF] | .soft => [LF] | .hardSp => [SP, SP, LF] | .hardBs => [0x5C, LF]

theorem Ending.bytes_length (e : Ending) : e.bytes.length = e.len := by cases e <;> rfl

def pbytes (P : List SPiece) : Bytes := P.flatMap SPiece.bytes

/-- The side conditions of the pieces; `next`: the bytes that follow in the run. -/
def POK (ext : Ext) : List SPiece → Bytes → Prop
  | [], _ => True
  | .byte b :: r, eb => inert b ∧ POK ext r eb
  | .esc b :: r, eb => isASCIIPunctuation b = true ∧ POK ext r eb
  | .sp :: r, eb => (∃ b', (pbytes r ++ eb).head? = some b' ∧ b' ≠ SP) ∧ POK ext r eb
  | .ref t :: r, eb => 1 ≤ t.length ∧ t.head? = some 0x26 ∧
      parseCharacterEscape ext (t ++ (pbytes r ++ eb)) = (t.length : Int) ∧ POK ext r eb
  | .auto u :: r, eb => parseAutolink (0x3C :: (u ++ [0x3E]) ++ (pbytes r ++ eb)) = ((u.length + 2 : Nat) : Int) ∧ POK ext r eb
  | .code n mid :: r, eb => 1 ≤ n ∧ (∀ b ∈ mid, b ≠ 0) ∧ maxRun mid < n ∧ (∃ y r', mid = y :: r' ∧ y ≠ 0x60) ∧
      mid.getLast? ≠ some 0x60 ∧ (∀ z, mid.getLast? = some z → z ≠ LF ∧ z ≠ CR) ∧
      (∃ x, (pbytes r ++ eb).head? = some x ∧ x ≠ 0x60 ∧ x ≠ 0) ∧ POK ext r eb

theorem plen_toPiece (src : Bytes) (P : List SPiece) : plen (P.map (SPiece.toPiece src)) = (pbytes P).length := by
  induction P with
  | nil => rfl
  | cons x r ih =>
    simp only [plen, List.map_cons, List.sum_cons, pbytes, List.flatMap_cons, List.length_append] at ih ⊢
    rw [ih]
    cases x <;> simp [SPiece.toPiece, Piece.len, SPiece.bytes] <;> omega

theorem upTo_of_drop {src : Bytes} {p E : Nat} {L rest : Bytes} (h : src.drop p = L ++ rest) (hE : E = p + L.length) :
    upTo src p E = L := by
  unfold upTo
  rw [h, hE, Nat.add_sub_cancel_left, List.take_left']
  rfl

theorem drop_shift {src : Bytes} {p : Nat} {A B : Bytes} (h : src.drop p = A ++ B) : src.drop (p + A.length) = B := by
  rw [← List.drop_drop, h, List.drop_left']
  rfl

/-- **From bytes to `PiecesAt`.** -/
theorem piecesAt_of {c : ICtx} {src : Bytes} (hA : c.srcA = src.toArray) (hsrc : c.src = src) (hfl : src.length + 1 ≤ c.fl)
    {f : Nat → LS → IM (ForInStep LS)} (hf : Steps c src f) {a E : Nat} {last : Bool} (hE : E ≤ src.length)
    (eb rest : Bytes) : ∀ (P : List SPiece) (p : Nat), a ≤ p → src.drop p = pbytes P ++ eb ++ rest →
      E = p + (pbytes P).length + eb.length → POK c.x.ext P eb →
      PiecesAt c src f a E last p (P.map (SPiece.toPiece src)) := by
  intro P
  induction P with
  | nil => intro p _ _ _ _; trivial
  | cons x r ih =>
    intro p hap hd hEq hok
    have hd' : src.drop p = x.bytes ++ (pbytes r ++ eb ++ rest) := by
      rw [hd]; simp [pbytes, List.append_assoc]
    have hlenx : (pbytes (x :: r)).length = x.bytes.length + (pbytes r).length := by simp [pbytes]
    have hnext := drop_shift hd'
    have hEr : E = p + x.bytes.length + (pbytes r).length + eb.length := by omega
    cases x with
    | byte b =>
      obtain ⟨hin, hr⟩ := hok
      have hb : src[p]? = some b := by have := drop_get hd' 0; simpa [SPiece.bytes] using this
      exact ⟨hb, hin, by simp [SPiece.bytes] at hEr; omega, ih (p + 1) (by omega) hnext hEr hr⟩
    | esc b =>
      obtain ⟨hp, hr⟩ := hok
      have hb0 : src[p]? = some 0x5C := by have := drop_get hd' 0; simpa [SPiece.bytes] using this
      have hb : src[p + 1]? = some b := by have := drop_get hd' 1; simpa [SPiece.bytes] using this
      exact ⟨hb0, hb, hp, by simp [SPiece.bytes] at hEr; omega, ih (p + 2) (by omega) hnext hEr hr⟩
    | sp =>
      obtain ⟨⟨b', hb', hne⟩, hr⟩ := hok
      have hb : src[p]? = some SP := by have := drop_get hd' 0; simpa [SPiece.bytes] using this
      have hb1 : src[p + 1]? = some b' := by
        have := drop_get hd' 1
        simp only [SPiece.bytes, List.singleton_append, List.getElem?_cons_succ] at this
        rw [this, List.getElem?_append_left]
        · rw [← List.head?_eq_getElem?]; exact hb'
        · cases h : pbytes r ++ eb with
          | nil => rw [h] at hb'; cases hb'
          | cons _ _ => simp
      have hlt : p + 1 < E := by
        have : 1 ≤ (pbytes r ++ eb).length := by
          cases h : pbytes r ++ eb with
          | nil => rw [h] at hb'; cases hb'
          | cons _ _ => simp
        simp [SPiece.bytes] at hEr this; omega
      exact ⟨hb, hlt, ⟨b', hb1, hne⟩, ih (p + 1) (by omega) hnext hEr hr⟩
    | ref t =>
      obtain ⟨hlen, hhead, hpe, hr⟩ := hok
      have hb : src[p]? = some 0x26 := by
        have := drop_get hd' 0
        rw [Nat.add_zero] at this
        rw [this]
        cases t with
        | nil => simp at hlen
        | cons t0 _ => simp only [List.head?_cons, Option.some.injEq] at hhead; subst hhead; rfl
      have hup : upTo src p E = t ++ (pbytes r ++ eb) := by
        apply upTo_of_drop (rest := rest)
        · rw [hd']; simp [SPiece.bytes, List.append_assoc]
        · simp [SPiece.bytes] at hEr ⊢; omega
      refine ⟨hlen, rfl, fun ps => ?_, ih (p + t.length) (by omega) hnext hEr hr⟩
      exact ref_seg hf hE p t.length (by simp [SPiece.bytes] at hEr; omega) hlen hb (by rw [hup]; exact hpe) ps
    | auto u =>
      obtain ⟨hpa, hr⟩ := hok
      have hb : src[p]? = some 0x3C := by have := drop_get hd' 0; simpa [SPiece.bytes] using this
      have hup : upTo src p E = 0x3C :: (u ++ [0x3E]) ++ (pbytes r ++ eb) := by
        apply upTo_of_drop (rest := rest)
        · rw [hd']; simp [SPiece.bytes, List.append_assoc]
        · simp [SPiece.bytes] at hEr ⊢; omega
      have hl : (SPiece.auto u).bytes.length = u.length + 2 := by simp [SPiece.bytes]
      rw [hl] at hnext hEr
      refine ⟨by omega, rfl, fun ps => ?_, ih (p + (u.length + 2)) (by omega) hnext hEr hr⟩
      exact auto_seg hf hE p (u.length + 2) (by omega) (by omega) hb (by rw [hup]; exact hpa) ps
    | code n mid =>
      obtain ⟨hn, hnz, hmax, hhead, hlast, hlastb, ⟨x, hx, hx1, hx0⟩, hr⟩ := hok
      have hl : (SPiece.code n mid).bytes.length = n + mid.length + n := by simp [SPiece.bytes]; omega
      rw [hl] at hnext hEr
      obtain ⟨nx, hnx⟩ : ∃ nx, pbytes r ++ eb = x :: nx := by
        cases h : pbytes r ++ eb with
        | nil => rw [h] at hx; cases hx
        | cons x' nx => rw [h] at hx; simp only [List.head?_cons, Option.some.injEq] at hx; subst hx; exact ⟨nx, rfl⟩
      have hlen1 : 1 ≤ (pbytes r).length + eb.length := by
        have := congrArg List.length hnx; simp at this; omega
      refine ⟨by omega, rfl, fun ps => ?_, ih (p + (n + mid.length + n)) (by omega) hnext hEr hr⟩
      have hdd : src.drop p = List.replicate n 0x60 ++ (mid ++ (List.replicate n 0x60 ++ x :: (nx ++ rest))) := by
        rw [hd']
        simp only [SPiece.bytes, List.append_assoc]
        rw [← List.append_assoc (pbytes r) eb rest, hnx]
        rfl
      exact code_seg hA hsrc hfl hf p n mid x (nx ++ rest) hap (by omega) hE hn hdd hx1 hx0 hnz hmax hhead hlast hlastb ps

/-- A line of source: pieces and ending. -/
structure SLine where
  P : List SPiece
  ending : Ending

def SLine.bytes (l : SLine) : Bytes := pbytes l.P ++ l.ending.bytes

/-- The source of a list of lines. -/
def srcOf (ls : List SLine) : Bytes := ls.flatMap SLine.bytes

/-- The lines with their offsets. -/
def toLines (src : Bytes) : Nat → List SLine → List Line
  | _, [] => []
  | a, l :: ls => ⟨a, l.P.map (SPiece.toPiece src), l.ending⟩ :: toLines src (a + l.bytes.length) ls

/-- A line is well-formed: the side conditions of its pieces, a proper ending, and it begins with a byte that is no
    space or tab. -/
structure SLineOK (ext : Ext) (l : SLine) : Prop where
  pieces : POK ext l.P l.ending.bytes
  first : ∃ b, l.bytes.head? = some b ∧ b ≠ SP ∧ b ≠ TAB

theorem endingAt_of {src : Bytes} {e0 : Nat} (e : Ending) (rest : Bytes) (h : src.drop e0 = e.bytes ++ rest) : EndingAt src e0 e := by
  cases e
  · trivial
  · have := drop_get h 0; simpa [Ending.bytes, EndingAt] using this
  · have := drop_get h 0; simpa [Ending.bytes, EndingAt] using this
  · have h0 := drop_get h 0; have h1 := drop_get h 1; have h2 := drop_get h 2
    exact ⟨by simpa [Ending.bytes] using h0, by simpa [Ending.bytes] using h1, by simpa [Ending.bytes] using h2⟩
  · have h0 := drop_get h 0; have h1 := drop_get h 1
    exact ⟨by simpa [Ending.bytes] using h0, by simpa [Ending.bytes] using h1⟩

theorem lineOK_of {c : ICtx} {src : Bytes} (hA : c.srcA = src.toArray) (hsrc : c.src = src) (hfl : src.length + 1 ≤ c.fl)
    {f : Nat → LS → IM (ForInStep LS)} (hf : Steps c src f) (l : SLine) (a : Nat) (rest : Bytes)
    (hd : src.drop a = l.bytes ++ rest) (hok : SLineOK c.x.ext l) :
    LineOK c src f ⟨a, l.P.map (SPiece.toPiece src), l.ending⟩ := by
  have hne : 1 ≤ l.bytes.length := by
    obtain ⟨b, hb, _, _⟩ := hok.first
    cases h : l.bytes with
    | nil => rw [h] at hb; cases hb
    | cons _ _ => simp
  have hlen : a + l.bytes.length ≤ src.length := by
    have := congrArg List.length hd
    simp only [List.length_drop, List.length_append] at this; omega
  have hE : (⟨a, l.P.map (SPiece.toPiece src), l.ending⟩ : Line).E = a + (pbytes l.P).length + l.ending.bytes.length := by
    simp [Line.E, Line.e0, plen_toPiece, Ending.bytes_length]
  have hEle : (⟨a, l.P.map (SPiece.toPiece src), l.ending⟩ : Line).E ≤ src.length := by
    rw [hE]; simp [SLine.bytes] at hlen; omega
  refine ⟨?_, ?_, hEle, ?_⟩
  · exact piecesAt_of hA hsrc hfl hf hEle l.ending.bytes rest l.P a (Nat.le_refl _) (by rw [hd]; rfl) hE hok.pieces
  · show EndingAt src (a + plen (l.P.map (SPiece.toPiece src))) l.ending
    rw [plen_toPiece]
    apply endingAt_of l.ending rest
    have : src.drop a = pbytes l.P ++ (l.ending.bytes ++ rest) := by rw [hd]; simp [SLine.bytes]
    exact drop_shift this
  · obtain ⟨b, hb, h1, h2⟩ := hok.first
    refine ⟨b, ?_, h1, h2, ?_⟩
    · have := drop_get hd 0
      rw [Nat.add_zero] at this
      rw [this, List.getElem?_append_left, ← List.head?_eq_getElem?]
      · exact hb
      · cases h : l.bytes with
        | nil => rw [h] at hb; cases hb
        | cons _ _ => simp
    · rw [hE]
      have : 1 ≤ l.bytes.length := by
        cases h : l.bytes with
        | nil => rw [h] at hb; cases hb
        | cons _ _ => simp
      simp only [SLine.bytes, List.length_append] at this
      show a < _
      omega

theorem toLines_length (src : Bytes) : ∀ (ls : List SLine) (a : Nat), (toLines src a ls).length = ls.length
  | [], _ => rfl
  | l :: ls, a => by simp [toLines, toLines_length src ls]

theorem toLines_ending (src : Bytes) : ∀ (ls : List SLine) (a k : Nat) (h : k < ls.length),
    ((toLines src a ls)[k]'(by rw [toLines_length]; exact h)).ending = ls[k].ending
  | l :: ls, a, 0, _ => rfl
  | l :: ls, a, k + 1, h => by
    simp only [toLines, List.getElem_cons_succ]
    exact toLines_ending src ls _ k (by simpa using h)

theorem toLines_ok {c : ICtx} {src : Bytes} (hA : c.srcA = src.toArray) (hsrc : c.src = src) (hfl : src.length + 1 ≤ c.fl)
    {f : Nat → LS → IM (ForInStep LS)} (hf : Steps c src f) : ∀ (ls : List SLine) (a : Nat) (rest : Bytes),
    src.drop a = srcOf ls ++ rest → (∀ l ∈ ls, SLineOK c.x.ext l) → ∀ l ∈ toLines src a ls, LineOK c src f l := by
  intro ls
  induction ls with
  | nil => intro a rest _ _ l hl; simp [toLines] at hl
  | cons l0 ls ih =>
    intro a rest hd hok l hl
    have hd' : src.drop a = l0.bytes ++ (srcOf ls ++ rest) := by rw [hd]; simp [srcOf]
    simp only [toLines, List.mem_cons] at hl
    rcases hl with rfl | hl
    · exact lineOK_of hA hsrc hfl hf l0 a _ hd' (hok l0 (by simp))
    · exact ih (a + l0.bytes.length) rest (drop_shift hd') (fun l hl => hok l (by simp [hl])) l hl

/-- **The inline phase on the source of a list of lines** (one Unparsed run per line): exactly the nodes of the lines. -/
theorem parseInlines_slines (x : IExt) (matchRef : Bytes → Bool) (cs ce : Int) (ls : List SLine)
    (hok : ∀ l ∈ ls, SLineOK x.ext l)
    (hlast : ∀ k, (h : k < ls.length) → ls[k].ending.isLast = decide (k + 1 ≥ ls.length)) :
    parseInlines x (srcOf ls) (srcOf ls).toArray matchRef cs ce ((toLines (srcOf ls) 0 ls).map Line.run) =
      .ok (((toLines (srcOf ls) 0 ls).flatMap lineNodes).map nodeTree) := by
  apply parseInlines_lines
  · intro f hf
    refine toLines_ok (src := srcOf ls) rfl rfl ?_ hf ls 0 [] (by simp) hok
    show (srcOf ls).length + 1 ≤ rdFuel (srcOf ls) _
    unfold rdFuel; omega
  · intro k hk
    have hk' : k < ls.length := by rwa [toLines_length] at hk
    rw [toLines_ending _ _ _ _ hk', toLines_length, hlast k hk']

end CM.Proofs.InlSer
