import CM.Proofs.RefDefSpansRd2
/-
C02, block half — `RefDefSpansOK` for paragraphs made of lines, part 3: the exact facts about the scanners
(`parseLinkLabel`: the inner span is non-empty and ends before the reader; `parseLinkDestination` / `parseLinkTitle`:
the span ends at or before the reader).
-/
namespace CM.Proofs.RDS
open CM CM.Model CM.Gen CM.Proofs CM.Proofs.BSp

variable {src : Bytes} {is : List Tree} {N p : Nat} {r : Rd}

theorem stle_ne_sp {c : UInt8} (h : isSpaceTabOrLineEnding c = false) : c ≠ SP := by
  rintro rfl; revert h; decide

/-! ### The label -/

theorem labelSkip_byte : ∀ (f : Nat) (r : Rd) (chars : Nat) (r' : Rd) (n : Nat),
    labelSkip src f r chars = some (r', n) →
    n < maxChars ∧ (r'.current src).1 ≠ 0x5B ∧ (r'.current src).1 ≠ 0x5D ∧
      isSpaceTabOrLineEnding (r'.current src).1 = false := by
  intro f
  induction f with
  | zero => intro r chars r' n e; simp [labelSkip] at e
  | succ f ih =>
    intro r chars r' n e
    rcases hn : r.next src with ⟨ok, r1⟩
    rcases hc : r1.current src with ⟨c, r2⟩
    simp only [labelSkip, hn, hc] at e
    split at e
    · cases e
    · split at e
      · cases e
      · rename_i hcond
        split at e
        · rename_i hws
          simp only [Option.some.injEq, Prod.mk.injEq] at e
          obtain ⟨rfl, rfl⟩ := e
          have hi : (r2.current src).1 = c := by
            have := current_snd_fst src r1; rw [hc] at this; exact this
          rw [hi]
          simp only [ge_iff_le, Bool.or_eq_true, decide_eq_true_eq, beq_iff_eq, not_or, Nat.not_le] at hcond
          refine ⟨hcond.1.1, hcond.1.2, hcond.2, ?_⟩
          simpa using hws
        · exact ih _ _ _ _ e

/-- `labelBody`: the end of the inner span only grows and stays at or before the reader. -/
theorem labelBody_inner (hc : Ctx src is) : ∀ (f : Nat) (r : Rd) (chars : Nat) (ie : Int) (r' : Rd) (ie' : Int),
    Good src is N p r → ie ≤ (r.pos : Int) → labelBody src f r chars ie = some (r', ie') →
    ie ≤ ie' ∧ ie' ≤ (r'.pos : Int) := by
  intro f
  induction f with
  | zero => intro r chars ie r' ie' _ _ e; simp [labelBody] at e
  | succ f ih =>
    intro r chars ie r' ie' h hie e
    have hcur := h.cur hc
    generalize hcv : (r.current src).1 = c at hcur
    rcases hn : r.next src with ⟨ok, r2⟩
    have g2 := h.next' hc hn
    have hcur2 := g2.cur hc
    generalize hcv2 : (r2.current src).1 = c2 at hcur2
    rcases hn3 : r2.next src with ⟨ok3, r4⟩
    have g4 := g2.next' hc hn3
    have m2 := next_mono hc h.ri hn
    have m4 := next_mono hc g2.ri hn3
    simp only [labelBody, hcur, hn, hcur2, hn3] at e
    split at e
    · simp only [Option.some.injEq, Prod.mk.injEq] at e
      obtain ⟨rfl, rfl⟩ := e
      exact ⟨Int.le_refl _, hie⟩
    · split at e
      · rename_i hbs
        have hbs' : c = 0x5C := by simpa using hbs
        split at e
        · cases e
        · split at e
          · cases e
          · rename_i hok
            have hok' : ok = true := by simpa using hok
            subst hok'
            split at e
            · cases e
            · rename_i hok3
              have hok3' : ok3 = true := by simpa using hok3
              subst hok3'
              have a2 := next_adv hc h.ri (by rw [hcv, hbs']; decide) hn
              have := ih _ _ _ _ _ g4 ?_ e
              · refine ⟨?_, this.2⟩
                have h1 := this.1
                split at h1 <;> omega
              · split
                · rename_i hws
                  have hws' : isSpaceTabOrLineEnding c2 = false := by simpa using hws
                  have a4 := next_adv hc g2.ri (by rw [hcv2]; exact stle_ne_sp hws') hn3
                  omega
                · omega
      · split at e
        · cases e
        · rename_i hok
          have hok' : ok = true := by simpa using hok
          subst hok'
          have := ih _ _ _ _ _ g2 ?_ e
          · refine ⟨?_, this.2⟩
            have h1 := this.1
            split at h1 <;> omega
          · split
            · rename_i hws
              have hws' : isSpaceTabOrLineEnding c = false := by simpa using hws
              have a2 := next_adv hc h.ri (by rw [hcv]; exact stle_ne_sp hws') hn
              omega
            · omega

/-- The first iteration of `labelBody` (started by `parseLinkLabel` at a byte that is neither white space nor a
    bracket) sets the end of the inner span. -/
theorem labelBody_first (hc : Ctx src is) (f : Nat) (r : Rd) (chars : Nat) (r' : Rd) (ie' : Int)
    (h : Good src is N p r) (hch : chars < maxChars) (hb1 : (r.current src).1 ≠ 0x5B) (hb2 : (r.current src).1 ≠ 0x5D)
    (hws : isSpaceTabOrLineEnding (r.current src).1 = false)
    (e : labelBody src f r chars (-1) = some (r', ie')) : (r.pos : Int) + 1 ≤ ie' ∧ ie' ≤ (r'.pos : Int) := by
  cases f with
  | zero => simp [labelBody] at e
  | succ f =>
    have hcur := h.cur hc
    generalize hcv : (r.current src).1 = c at hcur hb1 hb2 hws
    rcases hn : r.next src with ⟨ok, r2⟩
    have g2 := h.next' hc hn
    have hcur2 := g2.cur hc
    generalize hcv2 : (r2.current src).1 = c2 at hcur2
    rcases hn3 : r2.next src with ⟨ok3, r4⟩
    have g4 := g2.next' hc hn3
    have m2 := next_mono hc h.ri hn
    have m4 := next_mono hc g2.ri hn3
    have hsp : (r.current src).1 ≠ SP := by rw [hcv]; exact stle_ne_sp hws
    simp only [labelBody, hcur, hn, hcur2, hn3] at e
    split at e
    · rename_i hcond
      exfalso
      simp [hch, hb1, hb2] at hcond
    · split at e
      · split at e
        · cases e
        · split at e
          · cases e
          · rename_i hok
            have hok' : ok = true := by simpa using hok
            subst hok'
            split at e
            · cases e
            · rename_i hok3
              have hok3' : ok3 = true := by simpa using hok3
              subst hok3'
              have a2 := next_adv hc h.ri hsp hn
              have := labelBody_inner hc _ _ _ _ _ _ g4 ?_ e
              · refine ⟨?_, this.2⟩
                have h1 := this.1
                split at h1 <;> omega
              · split
                · rename_i hws2
                  have hws' : isSpaceTabOrLineEnding c2 = false := by simpa using hws2
                  have a4 := next_adv hc g2.ri (by rw [hcv2]; exact stle_ne_sp hws') hn3
                  omega
                · omega
      · split at e
        · cases e
        · rename_i hok
          have hok' : ok = true := by simpa using hok
          subst hok'
          have a2 := next_adv hc h.ri hsp hn
          simp only [hws, Bool.not_false, if_true] at e
          have := labelBody_inner hc _ _ _ _ _ _ g2 (by omega) e
          exact this

/-- `parseLinkLabel`: a valid label starts at the reader, its inner span is valid and ends before the reader's final
    position. -/
theorem parseLinkLabel_spec (hc : Ctx src is) (f : Nat) (h : Good src is N p r) {label : LinkLabel} {r1 : Rd}
    (e : parseLinkLabel src f r = (label, r1)) (hv : label.span.isValid = true) :
    label.span.start = (r.pos : Int) ∧ (r.pos : Int) ≤ label.inner.start ∧ label.inner.start ≤ label.inner.stop ∧
    label.inner.stop ≤ (r1.pos : Int) := by
  have hh := h.here
  have cl := good_closed hc N r.pos
  have hcur := h.cur hc
  generalize hcv : (r.current src).1 = c at hcur
  simp only [parseLinkLabel, hcur] at e
  split at e
  · simp only [Prod.mk.injEq] at e; rw [← e.1] at hv; cases hv
  · cases hs : labelSkip src f r 0 with
    | none => simp only [hs, Prod.mk.injEq] at e; rw [← e.1] at hv; cases hv
    | some q =>
      obtain ⟨r2, chars⟩ := q
      have g2 : Good src is N r.pos r2 := labelSkip_cl cl f r 0 r2 chars hh hs
      obtain ⟨b0, b1, b2, b3⟩ := labelSkip_byte f r 0 r2 chars hs
      simp only [hs] at e
      cases hb : labelBody src f r2 chars (-1) with
      | none => simp only [hb, Prod.mk.injEq] at e; rw [← e.1] at hv; cases hv
      | some q =>
        obtain ⟨r3, ie⟩ := q
        have g3 : Good src is N r.pos r3 := labelBody_cl cl f r2 chars (-1) r3 ie g2 hb
        have hf := labelBody_first hc f r2 chars r3 ie g2 b0 b1 b2 b3 hb
        have hcur3 := g3.cur hc
        generalize hcv3 : (r3.current src).1 = c3 at hcur3
        rcases hn : r3.next src with ⟨ok, r5⟩
        have m5 := next_mono hc g3.ri hn
        simp only [hb, hcur3, hn] at e
        split at e
        · simp only [Prod.mk.injEq] at e; rw [← e.1] at hv; cases hv
        · simp only [Prod.mk.injEq] at e
          obtain ⟨rfl, rfl⟩ := e
          have := g2.le
          simp only
          refine ⟨trivial, ?_, ?_, ?_⟩ <;> omega

/-! ### Destination and title -/

theorem noDest_invalid : noDest.span.isValid = false := by decide
theorem noTitle_invalid : noTitle.span.isValid = false := by decide

theorem destAngle_spec (hc : Ctx src is) (start : Nat) : ∀ (f : Nat) (r : Rd) (d : LinkDest) (r' : Rd),
    Good src is N p r → destAngle src start f r = (d, r') → d.span.isValid = true →
    d.span.start = (start : Int) ∧ d.span.stop ≤ (r'.pos : Int) := by
  intro f
  induction f with
  | zero =>
    intro r d r' _ e hv
    simp only [destAngle, Prod.mk.injEq] at e
    rw [← e.1, noDest_invalid] at hv; cases hv
  | succ f ih =>
    intro r d r' h e hv
    rcases hn : r.next src with ⟨ok, r1⟩
    have g1 := h.next' hc hn
    have hcur := g1.cur hc
    generalize hcv : (r1.current src).1 = c at hcur
    rcases hn2 : r1.next src with ⟨ok2, r3⟩
    have g3 := g1.next' hc hn2
    have hcur3 := g3.cur hc
    generalize hcv3 : (r3.current src).1 = c3 at hcur3
    simp only [destAngle, hn, hcur, hn2, hcur3] at e
    have bad : ∀ {rr : Rd}, (noDest, rr) = (d, r') → False := by
      intro rr e'
      simp only [Prod.mk.injEq] at e'
      rw [← e'.1, noDest_invalid] at hv; cases hv
    split at e
    · exact (bad e).elim
    · split at e
      · exact (bad e).elim
      · split at e
        · split at e
          · exact (bad e).elim
          · split at e
            · exact (bad e).elim
            · exact ih _ _ _ g3 e hv
        · split at e
          · rename_i hgt
            have hgt' : c = 0x3E := by simpa using hgt
            simp only [Prod.mk.injEq] at e
            obtain ⟨rfl, rfl⟩ := e
            have := next_prev_le hc g1.ri (by rw [hcv, hgt']; decide) hn2
            exact ⟨rfl, this⟩
          · exact ih _ _ _ g1 e hv

theorem parseLinkDestination_spec (hc : Ctx src is) (f : Nat) (h : Good src is N p r) {d : LinkDest} {r' : Rd}
    (e : parseLinkDestination src f r = (d, r')) (hv : d.span.isValid = true) :
    d.span.start = (r.pos : Int) ∧ d.span.stop ≤ (r'.pos : Int) := by
  have hcur := h.cur hc
  generalize hcv : (r.current src).1 = c at hcur
  simp only [parseLinkDestination, hcur] at e
  split at e
  · exact destAngle_spec hc _ f r d r' h e hv
  · split at e
    · simp only [Prod.mk.injEq] at e
      obtain ⟨rfl, rfl⟩ := e
      exact ⟨rfl, Int.le_refl _⟩
    · simp only [Prod.mk.injEq] at e
      rw [← e.1, noDest_invalid] at hv; cases hv

theorem titleLoop_spec (hc : Ctx src is) (start : Nat) (term : UInt8) (hterm : term ≠ SP) :
    ∀ (f : Nat) (r : Rd) (t : LinkTitle) (r' : Rd),
    Good src is N p r → titleLoop src start term f r = (t, r') → t.span.isValid = true →
    t.span.start = (start : Int) ∧ t.span.stop ≤ (r'.pos : Int) := by
  intro f
  induction f with
  | zero =>
    intro r t r' _ e hv
    simp only [titleLoop, Prod.mk.injEq] at e
    rw [← e.1, noTitle_invalid] at hv; cases hv
  | succ f ih =>
    intro r t r' h e hv
    rcases hn : r.next src with ⟨ok, r1⟩
    have g1 := h.next' hc hn
    have hcur := g1.cur hc
    generalize hcv : (r1.current src).1 = c at hcur
    rcases hn2 : r1.next src with ⟨ok2, r3⟩
    have g3 := g1.next' hc hn2
    simp only [titleLoop, hn, hcur, hn2] at e
    have bad : ∀ {rr : Rd}, (noTitle, rr) = (t, r') → False := by
      intro rr e'
      simp only [Prod.mk.injEq] at e'
      rw [← e'.1, noTitle_invalid] at hv; cases hv
    split at e
    · exact (bad e).elim
    · split at e
      · split at e
        · exact (bad e).elim
        · exact ih _ _ _ g3 e hv
      · split at e
        · rename_i hgt
          have hgt' : c = term := by simpa using hgt
          simp only [Prod.mk.injEq] at e
          obtain ⟨rfl, rfl⟩ := e
          have := next_prev_le hc g1.ri (by rw [hcv, hgt']; exact hterm) hn2
          exact ⟨rfl, this⟩
        · exact ih _ _ _ g1 e hv

theorem parseLinkTitle_spec (hc : Ctx src is) (f : Nat) (h : Good src is N p r) {t : LinkTitle} {r' : Rd}
    (e : parseLinkTitle src f r = (t, r')) (hv : t.span.isValid = true) :
    t.span.start = (r.pos : Int) ∧ t.span.stop ≤ (r'.pos : Int) := by
  have hcur := h.cur hc
  generalize hcv : (r.current src).1 = c at hcur
  simp only [parseLinkTitle, hcur] at e
  split at e
  · simp only [Prod.mk.injEq] at e
    rw [← e.1, noTitle_invalid] at hv; cases hv
  · rename_i hq
    refine titleLoop_spec hc _ _ ?_ f r t r' h e hv
    simp only [bne_iff_ne, ne_eq, Bool.and_eq_true, not_and, Decidable.not_not] at hq
    split
    · decide
    · rename_i h28
      by_cases h27 : c = 0x27
      · rw [h27]; decide
      · by_cases h22 : c = 0x22
        · rw [h22]; decide
        · have := hq ⟨h27, h22⟩
          simp [this] at h28

end CM.Proofs.RDS
