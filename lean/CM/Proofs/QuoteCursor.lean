import CM.Proofs.BlocksCursor
/-
C09 (block-quote half), step (1): the cursor operations of the line parser on a prefixed line.

`CRel k p q`: the line of `q` is the line of `p` behind a prefix of `k` bytes that `q` has already consumed
(`q.line.drop k = p.line`, `q.i = p.i + k`), the line of `p` is tab-free, and the two parsers are in the same state.
Nothing is assumed about the columns (`col`, `tabRem`, `tabPartial`) nor about the prefix itself.

On a tab-free line `Indent()` is the number of spaces in front of the cursor, whatever the column (`indent_notab`), so
`indent`, `bytesAfterIndent`, `isRestBlank` agree (`CRel.indent`, `CRel.bai`, `CRel.isRestBlank`) and `advance`,
`consumeIndent`, `consumeLine`, `markMatched`, `setPanic` take related cursors to related cursors without touching the
tree part of the state (`…_tree`).
-/
namespace CM.Proofs.Quote
open CM CM.Model CM.Gen CM.Proofs.BT

/-- No tab in the byte string. -/
def NoTab (l : Bytes) : Prop := ∀ c ∈ l, c ≠ TAB

instance (l : Bytes) : Decidable (NoTab l) := by unfold NoTab; infer_instance

theorem NoTab.drop {l : Bytes} (h : NoTab l) (n : Nat) : NoTab (l.drop n) :=
  fun c hc => h c (List.mem_of_mem_drop hc)

theorem NoTab.tail {c : UInt8} {l : Bytes} (h : NoTab (c :: l)) : NoTab l :=
  fun d hd => h d (List.mem_cons_of_mem _ hd)

/-! ### `Indent()` does not depend on the column on a tab-free line -/

theorem wsWidth_notab : ∀ (l : Bytes) (col : Nat), NoTab l → wsWidth col l = indentLength l := by
  intro l
  induction l with
  | nil => intro col _; rw [wsWidth_nil]; rfl
  | cons c rest ih =>
    intro col h
    by_cases hsp : c = SP
    · subst hsp
      rw [wsWidth_sp, indentLength_sp, ih _ h.tail]
    · have htab : c ≠ TAB := h c (List.mem_cons_self ..)
      rw [wsWidth_other _ _ _ hsp htab, indentLength_other _ _ hsp htab]

theorem indentAt_notab (col tr : Nat) (l : Bytes) (h : NoTab l) : indentAt col tr l = indentLength l := by
  cases l with
  | nil => rfl
  | cons c rest =>
    by_cases hsp : c = SP
    · subst hsp
      simp only [indentAt, if_true]
      rw [wsWidth_notab _ _ h.tail, indentLength_sp]
    · have htab : c ≠ TAB := h c (List.mem_cons_self ..)
      simp only [indentAt, hsp, htab, if_false]
      rw [indentLength_other _ _ hsp htab]

/-- **`Indent()` on a tab-free rest of line**: the number of spaces in front of the cursor; the column, the remaining
    tab width and the bytes before the cursor play no role. -/
theorem indent_notab (p : LP) (h : NoTab (p.line.drop p.i)) : p.indent = indentLength (p.line.drop p.i) := by
  rw [indent_eq, indentAt_notab _ _ _ h]

/-! ### frame lemmas (unconditional) -/

theorem markMatched_line (p : LP) : p.markMatched.line = p.line := by rw [markMatched_eq]
theorem markMatched_i (p : LP) : p.markMatched.i = p.i := by rw [markMatched_eq]
theorem markMatched_state (p : LP) : p.markMatched.state = mm p.state := by rw [markMatched_eq]
theorem markMatched_panic (p : LP) : p.markMatched.panic = p.panic := by rw [markMatched_eq]
theorem markMatched_tree (p : LP) : tree p.markMatched = tree p := by rw [markMatched_eq]; rfl

theorem setPanic_line (p : LP) (m : String) : (p.setPanic m).line = p.line := by unfold LP.setPanic; split <;> rfl
theorem setPanic_i (p : LP) (m : String) : (p.setPanic m).i = p.i := by unfold LP.setPanic; split <;> rfl
theorem setPanic_state (p : LP) (m : String) : (p.setPanic m).state = p.state := by unfold LP.setPanic; split <;> rfl
theorem setPanic_tree (p : LP) (m : String) : tree (p.setPanic m) = tree p := by unfold LP.setPanic; split <;> rfl
theorem setPanic_panic (p : LP) (m : String) :
    (p.setPanic m).panic = if p.panic.isSome then p.panic else some m := by
  unfold LP.setPanic; split <;> rfl

theorem advance_zero (p : LP) : p.advance 0 = p := by simp [LP.advance]

theorem advance_line (p : LP) (n : Nat) : (p.advance n).line = p.line := by
  unfold LP.advance
  split
  · rfl
  · simp only []
    split
    · rw [setPanic_line, markMatched_line]
    · rw [updateTab_line]; exact markMatched_line p

theorem advance_tree (p : LP) (n : Nat) : tree (p.advance n) = tree p := by
  unfold LP.advance
  split
  · rfl
  · simp only []
    split
    · rw [setPanic_tree, markMatched_tree]
    · rw [updateTab_tree]; exact markMatched_tree p

theorem advance_i (p : LP) (n : Nat) : (p.advance n).i = if p.i + n ≤ p.line.length then p.i + n else p.i := by
  unfold LP.advance
  split
  · rename_i h
    have : n = 0 := by simpa using h
    subst this; simp
  · simp only []
    rw [markMatched_i, markMatched_line]
    split
    · rename_i h
      rw [setPanic_i, markMatched_i, if_neg (by omega)]
    · rename_i h
      rw [updateTab_i]
      show p.i + n = _
      rw [if_pos (by omega)]

theorem advance_state (p : LP) (n : Nat) : (p.advance n).state = if n = 0 then p.state else mm p.state := by
  unfold LP.advance
  split
  · rename_i h
    have : n = 0 := by simpa using h
    rw [if_pos this]
  · rename_i h
    have : n ≠ 0 := by simpa using h
    rw [if_neg this]
    simp only []
    split
    · rw [setPanic_state, markMatched_state]
    · rw [updateTab_state]; exact markMatched_state p

def advMsg : String := "Advance: index out of bounds"

theorem advance_panic (p : LP) (n : Nat) :
    (p.advance n).panic = if n ≠ 0 ∧ p.line.length < p.i + n then (if p.panic.isSome then p.panic else some advMsg) else p.panic := by
  unfold LP.advance
  split
  · rename_i h
    have : n = 0 := by simpa using h
    rw [if_neg (by omega)]
  · rename_i h
    have hn : n ≠ 0 := by simpa using h
    simp only []
    rw [markMatched_i, markMatched_line]
    split
    · rename_i h2
      rw [if_pos ⟨hn, by omega⟩, setPanic_panic, markMatched_panic]; rfl
    · rename_i h2
      rw [updateTab_panic]
      show p.markMatched.panic = _
      rw [if_neg (by omega)]; exact markMatched_panic p

/-! ### the cursor relation -/

/-- `q` reads the line of `p` behind a prefix of `k` bytes it has consumed. -/
structure CRel (k : Nat) (p q : LP) : Prop where
  rest : q.line.drop k = p.line
  kle : k ≤ q.line.length
  i : q.i = p.i + k
  ile : p.i ≤ p.line.length
  notab : NoTab p.line
  state : q.state = p.state
  panic : q.panic = p.panic

namespace CRel
variable {k : Nat} {p q : LP}

theorem len (h : CRel k p q) : q.line.length = p.line.length + k := by
  have := congrArg List.length h.rest
  rw [List.length_drop] at this
  have := h.kle
  omega

theorem drop (h : CRel k p q) : q.line.drop q.i = p.line.drop p.i := by
  rw [h.i, Nat.add_comm, ← List.drop_drop, h.rest]

theorem dropn (h : CRel k p q) (n : Nat) : q.line.drop (q.i + n) = p.line.drop (p.i + n) := by
  rw [← List.drop_drop, ← List.drop_drop, h.drop]

theorem getD (h : CRel k p q) : q.line.getD q.i 0 = p.line.getD p.i 0 := by
  have e : ∀ (l : Bytes) (j : Nat), l.getD j 0 = (l.drop j).headD 0 := by
    intro l j
    simp [List.getD_eq_getElem?_getD, List.head?_drop, List.headD_eq_head?_getD]
  rw [e, e, h.drop]

theorem lt_iff (h : CRel k p q) : q.i < q.line.length ↔ p.i < p.line.length := by
  rw [h.len, h.i]; omega

theorem indent (h : CRel k p q) : q.indent = p.indent := by
  rw [indent_notab p (h.notab.drop _), indent_notab q (by rw [h.drop]; exact h.notab.drop _), h.drop]

theorem bai (h : CRel k p q) : q.bytesAfterIndent = p.bytesAfterIndent := by
  unfold LP.bytesAfterIndent; rw [h.drop]

theorem isRestBlank (h : CRel k p q) : q.isRestBlank = p.isRestBlank := by
  unfold LP.isRestBlank; rw [h.drop]

theorem rest_len (h : CRel k p q) : q.line.length - q.i = p.line.length - p.i := by
  rw [h.len, h.i]; omega

/-- Changing only tree fields / nothing the cursor relation looks at. -/
theorem of_eq {p' q' : LP} (h : CRel k p q) (hpl : p'.line = p.line) (hpi : p'.i = p.i) (hql : q'.line = q.line)
    (hqi : q'.i = q.i) (hs : q'.state = p'.state) (hp : q'.panic = p'.panic) : CRel k p' q' :=
  ⟨by rw [hql, hpl]; exact h.rest, by rw [hql]; exact h.kle, by rw [hqi, hpi]; exact h.i, by rw [hpl, hpi]; exact h.ile,
    by rw [hpl]; exact h.notab, hs, hp⟩

theorem markMatched (h : CRel k p q) : CRel k p.markMatched q.markMatched :=
  h.of_eq (markMatched_line p) (markMatched_i p) (markMatched_line q) (markMatched_i q)
    (by rw [markMatched_state, markMatched_state, h.state]) (by rw [markMatched_panic, markMatched_panic, h.panic])

theorem setPanic (h : CRel k p q) (m : String) : CRel k (p.setPanic m) (q.setPanic m) :=
  h.of_eq (setPanic_line p m) (setPanic_i p m) (setPanic_line q m) (setPanic_i q m)
    (by rw [setPanic_state, setPanic_state, h.state]) (by rw [setPanic_panic, setPanic_panic, h.panic])

theorem setState (h : CRel k p q) (s : Nat) : CRel k { p with state := s } { q with state := s } :=
  h.of_eq rfl rfl rfl rfl rfl h.panic

theorem setDepth (h : CRel k p q) (d d' : Nat) : CRel k { p with depth := d } { q with depth := d' } :=
  h.of_eq rfl rfl rfl rfl h.state h.panic

/-- **`Advance(n)`** on related cursors. -/
theorem advance (h : CRel k p q) (n : Nat) : CRel k (p.advance n) (q.advance n) := by
  refine ⟨by rw [advance_line, advance_line]; exact h.rest, by rw [advance_line]; exact h.kle, ?_, ?_,
    by rw [advance_line]; exact h.notab, ?_, ?_⟩
  · rw [advance_i, advance_i, h.len, h.i]
    by_cases hle : p.i + n ≤ p.line.length
    · rw [if_pos hle, if_pos (by omega)]; omega
    · rw [if_neg hle, if_neg (by omega)]
  · rw [advance_i, advance_line]
    have := h.ile
    split <;> omega
  · rw [advance_state, advance_state, h.state]
  · rw [advance_panic, advance_panic, h.len, h.i, h.panic]
    by_cases hc : n ≠ 0 ∧ p.line.length < p.i + n
    · rw [if_pos hc, if_pos ⟨hc.1, by omega⟩]
    · rw [if_neg hc, if_neg (by omega)]

end CRel

/-! ### `consumeIndent` -/

theorem consumeIndent_tree : ∀ (fuel : Nat) (p : LP) (n : Nat), tree (LP.consumeIndent fuel p n) = tree p := by
  intro fuel
  induction fuel with
  | zero => intro p n; rfl
  | succ fuel ih =>
    intro p n
    unfold LP.consumeIndent
    split
    · rfl
    · simp only []
      split
      · rw [ih, updateTab_tree]; exact markMatched_tree p
      · split
        · split
          · exact markMatched_tree p
          · rw [ih, updateTab_tree]; exact markMatched_tree p
        · rw [setPanic_tree, markMatched_tree]

theorem consumeIndent_line : ∀ (fuel : Nat) (p : LP) (n : Nat), (LP.consumeIndent fuel p n).line = p.line := by
  intro fuel
  induction fuel with
  | zero => intro p n; rfl
  | succ fuel ih =>
    intro p n
    unfold LP.consumeIndent
    split
    · rfl
    · simp only []
      split
      · rw [ih, updateTab_line]; exact markMatched_line p
      · split
        · split
          · exact markMatched_line p
          · rw [ih, updateTab_line]; exact markMatched_line p
        · rw [setPanic_line, markMatched_line]

/-- **`ConsumeIndent(n)`** on related cursors (same fuel). -/
theorem CRel.consumeIndent {k : Nat} : ∀ (fuel : Nat) {p q : LP} (n : Nat), CRel k p q →
    CRel k (LP.consumeIndent fuel p n) (LP.consumeIndent fuel q n) := by
  intro fuel
  induction fuel with
  | zero => intro p q n h; exact h
  | succ fuel ih =>
    intro p q n h
    unfold LP.consumeIndent
    by_cases hn : (n == 0) = true
    · rw [if_pos hn, if_pos hn]; exact h
    · rw [if_neg hn, if_neg hn]
      simp only []
      have hm := h.markMatched
      have hlt := hm.lt_iff
      have hg := hm.getD
      -- the condition "a space in front of the cursor"
      by_cases hsp : (decide (p.markMatched.i < p.markMatched.line.length) && p.markMatched.line.getD p.markMatched.i 0 == SP) = true
      · have hsq : (decide (q.markMatched.i < q.markMatched.line.length) && q.markMatched.line.getD q.markMatched.i 0 == SP) = true := by
          rw [hg]
          simp only [Bool.and_eq_true, decide_eq_true_eq] at hsp ⊢
          exact ⟨hlt.mpr hsp.1, hsp.2⟩
        rw [if_pos hsp, if_pos hsq]
        apply ih
        refine ⟨?_, ?_, ?_, ?_, ?_, ?_, ?_⟩
        · rw [updateTab_line, updateTab_line]; exact hm.rest
        · rw [updateTab_line]; exact hm.kle
        · rw [updateTab_i, updateTab_i]; show q.markMatched.i + 1 = p.markMatched.i + 1 + k; rw [hm.i]; omega
        · rw [updateTab_i, updateTab_line]
          simp only [Bool.and_eq_true, decide_eq_true_eq] at hsp
          exact hsp.1
        · rw [updateTab_line]; exact hm.notab
        · rw [updateTab_state, updateTab_state]; exact hm.state
        · rw [updateTab_panic, updateTab_panic]; exact hm.panic
      · have hsq : ¬ (decide (q.markMatched.i < q.markMatched.line.length) && q.markMatched.line.getD q.markMatched.i 0 == SP) = true := by
          rw [hg]
          simp only [Bool.and_eq_true, decide_eq_true_eq] at hsp ⊢
          intro hc; exact hsp ⟨hlt.mp hc.1, hc.2⟩
        rw [if_neg hsp, if_neg hsq]
        -- no tab on the line of `p`, hence none in front of the cursor of `q`
        have hnt : ¬ (decide (p.markMatched.i < p.markMatched.line.length) && p.markMatched.line.getD p.markMatched.i 0 == TAB) = true := by
          simp only [Bool.and_eq_true, decide_eq_true_eq, beq_iff_eq]
          intro hc
          have hmem : p.markMatched.line.getD p.markMatched.i 0 ∈ p.markMatched.line := by
            rw [List.getD_eq_getElem?_getD, List.getElem?_eq_getElem hc.1]
            exact List.getElem_mem _
          exact hm.notab _ hmem hc.2
        have hntq : ¬ (decide (q.markMatched.i < q.markMatched.line.length) && q.markMatched.line.getD q.markMatched.i 0 == TAB) = true := by
          rw [hg]
          simp only [Bool.and_eq_true, decide_eq_true_eq] at hnt ⊢
          intro hc; exact hnt ⟨hlt.mp hc.1, hc.2⟩
        rw [if_neg hnt, if_neg hntq]
        exact hm.setPanic _

theorem CRel.consumeIndentN {k : Nat} {p q : LP} (h : CRel k p q) (n : Nat) :
    CRel k (p.consumeIndentN n) (q.consumeIndentN n) :=
  CRel.consumeIndent (n + 1) n h

theorem consumeIndentN_tree (p : LP) (n : Nat) : tree (p.consumeIndentN n) = tree p := consumeIndent_tree _ _ _
theorem consumeIndentN_line (p : LP) (n : Nat) : (p.consumeIndentN n).line = p.line := consumeIndent_line _ _ _

/-! ### `consumeLine` -/

theorem consumeLine_tree (p : LP) : tree p.consumeLine = tree p := by
  unfold LP.consumeLine
  simp only []
  split
  · exact advance_tree p _
  · split
    · exact advance_tree p _
    · exact advance_tree p _

theorem consumeLine_line (p : LP) : p.consumeLine.line = p.line := by
  unfold LP.consumeLine
  simp only []
  split
  · exact advance_line p _
  · split
    · exact advance_line p _
    · exact advance_line p _

/-- **`ConsumeLine()`** on related cursors. -/
theorem CRel.consumeLine {k : Nat} {p q : LP} (h : CRel k p q) : CRel k p.consumeLine q.consumeLine := by
  have ha := h.advance (p.line.length - p.i)
  unfold LP.consumeLine
  simp only []
  rw [h.rest_len]
  rw [ha.state]
  split
  · exact ha.of_eq rfl rfl rfl rfl rfl ha.panic
  · split
    · exact ha.of_eq rfl rfl rfl rfl rfl ha.panic
    · exact ha

/-! ### examples: the hypotheses are met by a block quote continuation line after its marker -/

/-- The line `> ␣␣foo` with the cursor behind `> `, and the bare line `␣␣foo`, at different columns. -/
example : CRel 2 { source := [], root := default, lineStart := 0, line := [SP, SP, 0x66, 0x6F, 0x6F] }
    { source := [], root := default, lineStart := 7, line := [0x3E, SP, SP, SP, 0x66, 0x6F, 0x6F], i := 2, col := 2 } :=
  ⟨rfl, by decide, rfl, by decide, by decide, rfl, rfl⟩

end CM.Proofs.Quote
