import CM.Proofs.ParseWholeGrammarNestBracket2
import CM.Proofs.ParseWholeGrammarRun
/-
C05, clause (iii) — the fourth chain (`OmN`), part 4: the tokenizer pieces.
-/
namespace CM.Proofs.InlH
open CM CM.Model CM.Model.Inl
open Std.Do

set_option mvcgen.warning false

section
variable {c : ICtx}

theorem OmN.pushDelim {s : IState} (h : OmN s 0 0 0) (n : INode) (e : DelimE) (hn : n.kids = #[]) (hk : n.kind = IK.text)
    (hlen : spanLenI n.start n.stop ≠ 0) (he : e.node = s.nodes.size) :
    OmN { (addRootState (allocState s n) s.nodes.size) with
          stack := (addRootState (allocState s n) s.nodes.size).stack.push e } 0 0 0 :=
  ⟨Om.pushDelim h.1 n e hn hk hlen he, CLE.pushDelim h.1 h.2 n e hn hk hlen he (Nat.zero_le _)⟩

theorem OmN.importNode {s : IState} (h : OmN s 0 0 0) (n : INode) (hn : n.kids = #[]) (hk : phrL n.kind = true) :
    OmN { s with nodes := (s.nodes.push n).modify 0 (fun r => { r with kids := r.kids.push s.nodes.size }),
                 parentMap := s.parentMap.push none } 0 0 0 :=
  ⟨Om.importNode h.1 n hn (phrL_iff hk).1, CLE.importNode h.1 h.2 n hn (phrL_iff hk).2⟩

@[spec high + 3]
theorem parseDelimiterRun_specN (start : Int) :
    ⦃fun s => ⌜OmN s 0 0 0⌝⦄ parseDelimiterRun c start ⦃⇓? _ s => ⌜OmN s 0 0 0⌝⦄ := by
  mvcgen [parseDelimiterRun, spanEnd, alloc, pushStack, -parseDelimiterRun_spec, -parseDelimiterRun_specS,
    -parseDelimiterRun_specO]
  case inv1 => exact PostCond.mayThrow (fun p s => ⌜OmN s 0 0 0 ∧ start + 1 ≤ p.2⌝)
  all_goals inl_norm
  all_goals inl_subst
  case vc6 =>
    subst_vars
    have h1 := (‹OmN _ 0 0 0 ∧ _›).1
    have h2 := (‹OmN _ 0 0 0 ∧ _›).2
    have h3 := (‹0 ≤ start ∧ _›).1
    exact OmN.pushDelim h1 _ _ rfl rfl (spanLenI_pos h3 (by dsimp only; omega)) rfl
  all_goals first
    | assumption
    | exact fun h => h.elim
    | exact fun h => h
    | exact ⟨‹OmN _ 0 0 0›, Int.le_refl _⟩
    | (refine ⟨(‹OmN _ 0 0 0 ∧ _›).1, ?_⟩
       have := (‹OmN _ 0 0 0 ∧ _›).2
       simp -failIfUnchanged +zetaDelta only [] at *
       omega)

@[spec high + 3]
theorem parseBackslash_specN (start : Int) :
    ⦃fun s => ⌜OmN s 0 0 0⌝⦄ parseBackslash c start ⦃⇓? _ s => ⌜OmN s 0 0 0⌝⦄ := by
  mvcgen [parseBackslash, spanEnd, isLastSpan, setIgnoreNextIndent, -parseBackslash_spec, -parseBackslash_specS,
    -parseBackslash_specO, -addLeaf_specO]
  all_goals inl_norm
  all_goals inl_subst
  all_goals first
    | assumption
    | exact fun h => h.elim
    | exact fun h => h
    | rfl
    | exact OmN.congr ‹OmN _ 0 0 0› rfl rfl rfl

@[spec high + 3]
theorem collectCodeSpan_specN (cs : CodeSpan) :
    ⦃fun s => ⌜OmN s 0 0 0⌝⦄ collectCodeSpan c cs ⦃⇓? _ s => ⌜OmN s 0 0 0⌝⦄ := by
  mvcgen [collectCodeSpan, setUnparsedPos, alloc, -collectCodeSpan_spec, -collectCodeSpan_specS, -collectCodeSpan_specO]
  inl_inv (fun s => OmN s 0 0 0)
  all_goals inl_norm
  all_goals inl_subst
  all_goals first
    | assumption
    | exact fun h => h.elim
    | exact fun h => h
    | exact OmN.congr ‹OmN _ 0 0 0› rfl rfl rfl
    | (intro h; subst h; exact OmN.addRoot ‹OmN _ 0 0 0› _ rfl rfl)
    | (subst_vars; exact OmN.addRoot ‹OmN _ 0 0 0› _ rfl rfl)

@[spec high + 3]
theorem importNode_specN (t : Tree) (hk : phrL t.label.kind = true) :
    ⦃fun s => ⌜OmN s 0 0 0⌝⦄ importNode t ⦃⇓? _ s => ⌜OmN s 0 0 0⌝⦄ := by
  mvcgen [importNode, alloc, modifyNode, -importNode_spec, -importNode_specS, -importNode_specO]
  all_goals inl_norm
  all_goals exact OmN.importNode ‹OmN _ 0 0 0› _ rfl hk

end
end CM.Proofs.InlH
