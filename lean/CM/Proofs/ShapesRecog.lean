import CM.Proofs.ShapesDef
import CM.Proofs.BGRecog
/-
C13, block half — what the line recognizers say about the bytes they accept: the `#` run of an ATX heading and the
fence run of a code fence are maximal, a list marker is a bullet or 1–9 digits and a delimiter, a block quote marker is
`>`.
-/
namespace CM.Proofs.Shp
open CM CM.Model CM.Gen

/-! ### runs -/

theorem countPrefix_take (c : UInt8) : ∀ l : Bytes, l.take (countPrefix c l) = List.replicate (countPrefix c l) c := by
  intro l
  induction l with
  | nil => simp [countPrefix]
  | cons b rest ih =>
    unfold countPrefix
    split
    · rename_i hb
      have : b = c := by simpa using hb
      subst this
      have e : 1 + countPrefix b rest = countPrefix b rest + 1 := by omega
      rw [e, List.take_succ_cons, ih, List.replicate_succ]
    · simp

theorem countPrefix_next (c : UInt8) : ∀ l : Bytes, l[countPrefix c l]? ≠ some c := by
  intro l
  induction l with
  | nil => simp [countPrefix]
  | cons b rest ih =>
    unfold countPrefix
    split
    · have e : 1 + countPrefix c rest = countPrefix c rest + 1 := by omega
      rw [e, List.getElem?_cons_succ]
      exact ih
    · rename_i hb
      simp only [List.getElem?_cons_zero, ne_eq, Option.some.injEq]
      intro e
      subst e
      simp at hb

/-! ### ATX headings -/

theorem parseATXHeading_level' (l : Bytes) :
    (parseATXHeading l).level = 0 ∨ (parseATXHeading l).level = countPrefix 0x23 l := by
  unfold parseATXHeading
  simp only []
  repeat' split
  all_goals first
    | (left; rfl)
    | (right; rfl)

theorem parseATXHeading_level (l : Bytes) (h : (parseATXHeading l).level ≠ 0) :
    (parseATXHeading l).level = countPrefix 0x23 l := by
  rcases parseATXHeading_level' l with h' | h'
  · exact absurd h' h
  · exact h'

/-! ### code fences -/

theorem parseCodeFence_run' (l : Bytes) :
    (parseCodeFence l).n = 0 ∨ (parseCodeFence l).n = countPrefix (parseCodeFence l).char l := by
  generalize hfc : parseCodeFence l = fc
  unfold parseCodeFence at hfc
  simp only [] at hfc
  repeat' split at hfc
  all_goals subst hfc
  all_goals first
    | (left; rfl)
    | (right; rfl)

theorem parseCodeFence_run (l : Bytes) (h : (parseCodeFence l).n ≠ 0) :
    (parseCodeFence l).n = countPrefix (parseCodeFence l).char l := by
  rcases parseCodeFence_run' l with h' | h'
  · exact absurd h' h
  · exact h'

/-! ### list markers -/

/-- The text of a list marker (C13), as in `ShapesDef`. -/
theorem markerText_bullet (c : UInt8) (h : c = 0x2D ∨ c = 0x2B ∨ c = 0x2A) : markerText [c] = true := by
  rcases h with h | h | h <;> subst h <;> decide

theorem isDigit_not_delim {c : UInt8} (h : c = 0x2E ∨ c = 0x29) : isASCIIDigit c = false := by
  rcases h with h | h <;> subst h <;> decide

theorem markerText_digits (ds : Bytes) (d : UInt8) (h1 : 1 ≤ ds.length) (h9 : ds.length ≤ 9) (hd : ds.all isASCIIDigit = true)
    (hdel : d = 0x2E ∨ d = 0x29) : markerText (ds ++ [d]) = true := by
  have htw : (ds ++ [d]).takeWhile isASCIIDigit = ds := by
    rw [List.takeWhile_append_of_pos (by simpa using hd)]
    simp [List.takeWhile, isDigit_not_delim hdel]
  unfold markerText
  simp only [htw, List.drop_left, Bool.or_eq_true, Bool.and_eq_true, decide_eq_true_eq, beq_iff_eq]
  right
  refine ⟨⟨h1, h9⟩, ?_⟩
  rcases hdel with h | h
  · left; rw [h]
  · right; rw [h]

/-- The digit loop: from index `i` (the digits before are `i` in number). -/
theorem listMarkerLoop_spec : ∀ (l : Bytes) (i n : Nat), 0 ≤ (listMarkerLoop l i n).stop →
    ∃ k, (listMarkerLoop l i n).stop = ((i + k + 1 : Nat) : Int) ∧ i + k ≤ 9 ∧ (l.take k).all isASCIIDigit = true ∧
      (l.take k).length = k ∧ ∃ d, l[k]? = some d ∧ (d = 0x2E ∨ d = 0x29) := by
  intro l
  induction l with
  | nil => intro i n h; simp [listMarkerLoop, noMarker] at h
  | cons c rest ih =>
    intro i n h
    unfold listMarkerLoop at h ⊢
    split
    · rename_i hi; rw [if_pos hi] at h; simp [noMarker] at h
    · rename_i hi; rw [if_neg hi] at h
      have hi9 : i ≤ 9 := by simp only [maxDigits] at hi; omega
      split
      · rename_i hd; rw [if_pos hd] at h
        obtain ⟨k, h1, h2, h3, h4, d, h5, h6⟩ := ih (i + 1) _ h
        refine ⟨k + 1, by rw [h1]; congr 1; omega, by omega, ?_, by simp [h4], d, by simpa using h5, h6⟩
        simp only [List.take_succ_cons, List.all_cons, hd, h3, Bool.and_self]
      · rename_i hd; rw [if_neg hd] at h
        split
        · rename_i hdel; rw [if_pos hdel] at h
          split
          · rename_i hsp; rw [if_pos hsp] at h; simp [noMarker] at h
          · refine ⟨0, by simp, by omega, by simp, by simp, c, by simp, ?_⟩
            simpa using hdel
        · rename_i hdel; rw [if_neg hdel] at h; simp [noMarker] at h

/-- **A list marker is a bullet or 1–9 digits and a delimiter.** -/
theorem parseListMarker_text (l : Bytes) (h : 0 ≤ (parseListMarker l).stop) :
    markerText (l.take (parseListMarker l).stop.toNat) = true ∧ (parseListMarker l).stop.toNat ≤ l.length := by
  unfold parseListMarker at h ⊢
  cases l with
  | nil => simp [noMarker] at h
  | cons c rest =>
    simp only [] at h ⊢
    split
    · rename_i hb; rw [if_pos hb] at h
      split
      · rename_i hsp; rw [if_pos hsp] at h; simp [noMarker] at h
      · simp only [Int.toNat_one, List.take_succ_cons, List.take_zero, List.length_cons]
        refine ⟨markerText_bullet c ?_, by omega⟩
        simpa [or_assoc] using hb
    · rename_i hb; rw [if_neg hb] at h
      split
      · rename_i hd; rw [if_pos hd] at h
        obtain ⟨k, h1, h2, h3, h4, d, h5, h6⟩ := listMarkerLoop_spec rest 1 _ h
        rw [h1]
        have e1 : ((1 + k + 1 : Nat) : Int).toNat = (k + 1) + 1 := by omega
        rw [e1, List.take_succ_cons]
        have hk : k < rest.length := by
          rcases Nat.lt_or_ge k rest.length with h' | h'
          · exact h'
          · rw [List.getElem?_eq_none h'] at h5; cases h5
        have e2 : rest.take (k + 1) = rest.take k ++ [d] := by
          rw [List.take_add_one, h5]; rfl
        rw [e2]
        refine ⟨?_, by simp only [List.length_cons]; omega⟩
        have := markerText_digits (c :: rest.take k) d (by simp) (by simp only [List.length_cons, h4]; omega)
          (by simp only [List.all_cons, hd, h3, Bool.and_self]) h6
        simpa using this
      · rename_i hd; rw [if_neg hd] at h; simp [noMarker] at h

/-! ### block quotes -/

theorem hasBytePrefix_quote (l : Bytes) (h : hasBytePrefix l blockQuotePrefix = true) : l[0]? = some 0x3E := by
  cases l with
  | nil => simp [hasBytePrefix, blockQuotePrefix] at h
  | cons c rest =>
    simp only [hasBytePrefix, blockQuotePrefix, Bool.and_eq_true, beq_iff_eq] at h
    simp [h.1]

end CM.Proofs.Shp
